(* Proofs/Step.v -- lemmas about the exit-code machine Model/Step.v (C14). *)
From Coq Require Import String List Bool Arith Lia.
From Ropt Require Import Model.Step.
Import ListNotations.
Open Scope nat_scope.

(* ------------------------------------------------------------------------------------------
   What one request does, as relations on the machine state (completed functions, cache).
   ------------------------------------------------------------------------------------------ *)

(* the evaluation of request r has too few successful realizations: decided inside calculate by a
   filter / estimator, or by the thresholds (functions/gradients None, all failed and NaN not allowed) *)
Inductive too_few (c : cfg) (r : req) (ca : cache) : list res -> Prop :=
  | TF_inside d rs : eval_req c r ca = VInside d rs -> too_few c r ca rs
  | TF_threshold rs n ca' : eval_req c r ca = VResults rs n ca' -> few_opt c rs = true -> too_few c r ca rs.

(* request r terminates the run in state (n, ca) with outcome o, delivering rs and emitting es *)
Inductive stops (c : cfg) (n : nat) (ca : cache) (r : req) : outcome -> list res -> list evt -> Prop :=
  | SBudget : over_budget c n = true -> stops c n ca r (Exit MaxFunctions) [] []
  | SRaise : over_budget c n = false -> flt r = FRaise -> stops c n ca r Raise [] [StartEval]
  | SAbort : over_budget c n = false -> flt r = FAbort -> stops c n ca r (Exit UserAbort) [] [StartEval]
  | SFew rs : over_budget c n = false -> too_few c r ca rs ->
      stops c n ca r (Exit TooFew) rs [StartEval; FinEval].

(* request r is executed completely and the run goes on in state (n', ca') *)
Definition continues (c : cfg) (n : nat) (ca : cache) (r : req) (rs : list res) (n' : nat) (ca' : cache) : Prop :=
  over_budget c n = false /\ exists k, eval_req c r ca = VResults rs k ca' /\ few_opt c rs = false /\ n' = n + k.

(* a whole prefix of requests is executed: results delivered, events, final state *)
Inductive conts (c : cfg) : nat -> cache -> list req -> list res -> list evt -> nat -> cache -> Prop :=
  | C_nil n ca : conts c n ca [] [] [] n ca
  | C_cons n ca r rs n1 ca1 t d e n2 ca2 :
      continues c n ca r rs n1 ca1 -> conts c n1 ca1 t d e n2 ca2 ->
      conts c n ca (r :: t) (rs ++ d) (StartEval :: FinEval :: e) n2 ca2.

Lemma eval_req_raise c r ca : eval_req c r ca = VRaise <-> flt r = FRaise.
Proof.
  unfold eval_req, eval_F, eval_both, eval_G_cached. split.
  - destruct (flt r) as [| |fms pm]; [reflexivity | discriminate |].
    destruct (rk r).
    + destruct (eval_vectors c fms); discriminate.
    + destruct ca as [[[p cfm] cch]|].
      * destruct (p =? pt r).
        -- destruct (grad_part c cfm pm cch); discriminate.
        -- destruct (fun_part c (hd [] fms)) as [| |h a ch]; try discriminate.
           destruct (grad_part c (hd [] fms) pm ch); discriminate.
      * destruct (fun_part c (hd [] fms)) as [| |h a ch]; try discriminate.
        destruct (grad_part c (hd [] fms) pm ch); discriminate.
    + destruct (fun_part c (hd [] fms)) as [| |h a ch]; try discriminate.
      destruct (grad_part c (hd [] fms) pm ch); discriminate.
  - intros ->. reflexivity.
Qed.

Lemma eval_req_abort c r ca : eval_req c r ca = VAbort <-> flt r = FAbort.
Proof.
  unfold eval_req, eval_F, eval_both, eval_G_cached. split.
  - destruct (flt r) as [| |fms pm]; [discriminate | reflexivity |].
    destruct (rk r).
    + destruct (eval_vectors c fms); discriminate.
    + destruct ca as [[[p cfm] cch]|].
      * destruct (p =? pt r).
        -- destruct (grad_part c cfm pm cch); discriminate.
        -- destruct (fun_part c (hd [] fms)) as [| |h a ch]; try discriminate.
           destruct (grad_part c (hd [] fms) pm ch); discriminate.
      * destruct (fun_part c (hd [] fms)) as [| |h a ch]; try discriminate.
        destruct (grad_part c (hd [] fms) pm ch); discriminate.
    + destruct (fun_part c (hd [] fms)) as [| |h a ch]; try discriminate.
      destruct (grad_part c (hd [] fms) pm ch); discriminate.
  - intros ->. reflexivity.
Qed.

(* ------------------------------------------------------------------------------------------
   First-stop decomposition of a run: classification, delivery before the abort, propagation.
   ------------------------------------------------------------------------------------------ *)
Theorem run_decompose c : forall script n ca o d e k,
  run c script n ca = (o, d, e, k) ->
  (o = Exit OptFinished /\ exists ca', conts c n ca script d e k ca') \/
  (exists pre r post dpre epre n' ca' rs es,
      script = pre ++ r :: post /\ conts c n ca pre dpre epre n' ca' /\
      stops c n' ca' r o rs es /\ d = dpre ++ rs /\ e = epre ++ es /\ k = n').
Proof.
  induction script as [|r t IH]; intros n ca o d e k H; cbn [run] in H.
  - injection H as <- <- <- <-. left. split; [reflexivity|]. exists ca. constructor.
  - destruct (over_budget c n) eqn:Eb.
    { injection H as <- <- <- <-. right. exists [], r, t, [], [], n, ca, [], []. cbn.
      repeat split; try constructor. exact Eb. }
    destruct (eval_req c r ca) as [| |dc rs|rs m ca1] eqn:Ee.
    + injection H as <- <- <- <-. right. exists [], r, t, [], [], n, ca, [], [StartEval]. cbn.
      repeat split; try constructor; [exact Eb | apply (eval_req_raise c r ca); exact Ee].
    + injection H as <- <- <- <-. right. exists [], r, t, [], [], n, ca, [], [StartEval]. cbn.
      repeat split; try constructor; [exact Eb | apply (eval_req_abort c r ca); exact Ee].
    + injection H as <- <- <- <-. right. exists [], r, t, [], [], n, ca, rs, [StartEval; FinEval]. cbn.
      repeat split; try constructor; [exact Eb | econstructor 1; exact Ee].
    + destruct (few_opt c rs) eqn:Ef.
      * injection H as <- <- <- <-. right. exists [], r, t, [], [], n, ca, rs, [StartEval; FinEval]. cbn.
        repeat split; try constructor; [exact Eb | econstructor 2; [exact Ee | exact Ef]].
      * destruct (run c t (n + m) ca1) as [[[o1 d1] e1] k1] eqn:Er.
        injection H as <- <- <- <-.
        assert (Hc : continues c n ca r rs (n + m) ca1).
        { split; [exact Eb|]. exists m. repeat split; assumption. }
        destruct (IH _ _ _ _ _ _ Er) as [[Ho [ca' Hcs]] | (pre & r' & post & dpre & epre & n' & ca' & rs' & es & Hs & Hcs & Hst & Hd & He & Hk)].
        -- left. split; [exact Ho|]. exists ca'. econstructor; eassumption.
        -- right. exists (r :: pre), r', post, (rs ++ dpre), (StartEval :: FinEval :: epre), n', ca', rs', es.
           subst. repeat split; try assumption.
           ++ econstructor; eassumption.
           ++ now rewrite app_assoc.
Qed.

(* the converse: a script whose first terminating request is r has exactly that outcome *)
Lemma run_conts_app c : forall pre n ca dpre epre n' ca' rest,
  conts c n ca pre dpre epre n' ca' ->
  run c (pre ++ rest) n ca =
    (let '(o, d, e, k) := run c rest n' ca' in (o, dpre ++ d, epre ++ e, k)).
Proof.
  intros pre n ca dpre epre n' ca' rest H. induction H as [n ca | n ca r rs n1 ca1 t d e n2 ca2 Hc Hcs IH].
  - cbn. destruct (run c rest n ca) as [[[o d] e] k]. reflexivity.
  - destruct Hc as (Hb & k & He & Hf & ->).
    cbn [app run]. rewrite Hb, He, Hf, IH.
    destruct (run c rest n2 ca2) as [[[o d'] e'] k']. cbn. now rewrite app_assoc.
Qed.

Lemma run_stops c n ca r t o rs es : stops c n ca r o rs es -> run c (r :: t) n ca = (o, rs, es, n).
Proof.
  intros H. cbn [run]. destruct H as [Hb | Hb Hf | Hb Hf | rs Hb Ht].
  - now rewrite Hb.
  - rewrite Hb. apply (eval_req_raise c r ca) in Hf. now rewrite Hf.
  - rewrite Hb. apply (eval_req_abort c r ca) in Hf. now rewrite Hf.
  - rewrite Hb. destruct Ht as [d rs He | rs m ca' He Hf]; rewrite He; [reflexivity | now rewrite Hf].
Qed.

Theorem run_first_stop c pre r post n ca dpre epre n' ca' o rs es :
  conts c n ca pre dpre epre n' ca' -> stops c n' ca' r o rs es ->
  run c (pre ++ r :: post) n ca = (o, dpre ++ rs, epre ++ es, n').
Proof.
  intros Hc Hs. rewrite (run_conts_app c _ _ _ _ _ _ _ (r :: post) Hc), (run_stops c _ _ _ post _ _ _ Hs). reflexivity.
Qed.

Theorem run_all_continue c script n ca d e n' ca' :
  conts c n ca script d e n' ca' -> run c script n ca = (Exit OptFinished, d, e, n').
Proof.
  intros Hc. pose proof (run_conts_app c _ _ _ _ _ _ _ [] Hc) as H. rewrite app_nil_r in H.
  rewrite H. cbn. now rewrite !app_nil_r.
Qed.

(* every outcome of the optimizer step is one of the five documented ones *)
Lemma stops_outcomes c n ca r o rs es : stops c n ca r o rs es ->
  o = Exit MaxFunctions \/ o = Raise \/ o = Exit UserAbort \/ o = Exit TooFew.
Proof. destruct 1; auto. Qed.

(* ------------------------------------------------------------------------------------------
   Exit-code classification of the optimizer step in "exactly when" form.
   ------------------------------------------------------------------------------------------ *)
Definition outcome_of (x : outcome * list res * list evt * nat) : outcome := fst (fst (fst x)).

Definition first_stop_is (c : cfg) (script : list req) (P : nat -> cache -> req -> Prop) : Prop :=
  exists pre r post dpre epre n' ca',
    script = pre ++ r :: post /\ conts c 0 None pre dpre epre n' ca' /\ P n' ca' r.

Definition stop_budget c := fun n (_ : cache) (_ : req) => over_budget c n = true.
Definition stop_raise c := fun n (_ : cache) r => over_budget c n = false /\ flt r = FRaise.
Definition stop_abort c := fun n (_ : cache) r => over_budget c n = false /\ flt r = FAbort.
Definition stop_few c := fun n ca r => over_budget c n = false /\ exists rs, too_few c r ca rs.
Definition no_stop (c : cfg) (script : list req) : Prop :=
  exists d e n' ca', conts c 0 None script d e n' ca'.

Lemma classify_fwd c script o :
  outcome_of (run c script 0 None) = o ->
  match o with
  | Exit TooFew => first_stop_is c script (stop_few c)
  | Exit MaxFunctions => first_stop_is c script (stop_budget c)
  | Exit UserAbort => first_stop_is c script (stop_abort c)
  | Exit OptFinished => no_stop c script
  | Raise => first_stop_is c script (stop_raise c)
  | Exit EvalFinished | Exit NestedFailed => False
  end.
Proof.
  destruct (run c script 0 None) as [[[o' d] e] k] eqn:Er. unfold outcome_of; cbn. intros <-.
  destruct (run_decompose c _ _ _ _ _ _ _ Er) as [[-> [ca' Hc]] | (pre & r & post & dpre & epre & n' & ca' & rs & es & -> & Hc & Hs & _)].
  - exists d, e, k, ca'. exact Hc.
  - destruct Hs as [Hb | Hb Hf | Hb Hf | rs Hb Ht].
    + exists pre, r, post, dpre, epre, n', ca'. repeat split; assumption.
    + exists pre, r, post, dpre, epre, n', ca'. repeat split; assumption.
    + exists pre, r, post, dpre, epre, n', ca'. repeat split; assumption.
    + exists pre, r, post, dpre, epre, n', ca'. repeat split; try assumption. exists rs; exact Ht.
Qed.

Lemma classify_bwd_stop c script P o :
  first_stop_is c script P ->
  (forall n ca r, P n ca r -> exists rs es, stops c n ca r o rs es) ->
  outcome_of (run c script 0 None) = o.
Proof.
  intros (pre & r & post & dpre & epre & n' & ca' & -> & Hc & HP) Hst.
  destruct (Hst _ _ _ HP) as (rs & es & Hs).
  rewrite (run_first_stop c _ _ post _ _ _ _ _ _ _ _ _ Hc Hs). reflexivity.
Qed.

Theorem classification c script :
  (outcome_of (run c script 0 None) = Exit TooFew <-> first_stop_is c script (stop_few c)) /\
  (outcome_of (run c script 0 None) = Exit MaxFunctions <-> first_stop_is c script (stop_budget c)) /\
  (outcome_of (run c script 0 None) = Exit UserAbort <-> first_stop_is c script (stop_abort c)) /\
  (outcome_of (run c script 0 None) = Raise <-> first_stop_is c script (stop_raise c)) /\
  (outcome_of (run c script 0 None) = Exit OptFinished <-> no_stop c script) /\
  outcome_of (run c script 0 None) <> Exit EvalFinished /\
  outcome_of (run c script 0 None) <> Exit NestedFailed.
Proof.
  repeat split.
  - intros H. exact (classify_fwd c script _ H).
  - intros H. apply (classify_bwd_stop c script _ _ H). intros n ca r (Hb & rs & Ht).
    exists rs, [StartEval; FinEval]. now constructor.
  - intros H. exact (classify_fwd c script _ H).
  - intros H. apply (classify_bwd_stop c script _ _ H). intros n ca r Hb.
    exists [], []. now constructor.
  - intros H. exact (classify_fwd c script _ H).
  - intros H. apply (classify_bwd_stop c script _ _ H). intros n ca r [Hb Hf].
    exists [], [StartEval]. now constructor.
  - intros H. exact (classify_fwd c script _ H).
  - intros H. apply (classify_bwd_stop c script _ _ H). intros n ca r [Hb Hf].
    exists [], [StartEval]. now constructor.
  - intros H. exact (classify_fwd c script _ H).
  - intros (d & e & n' & ca' & Hc). rewrite (run_all_continue c _ _ _ _ _ _ _ Hc). reflexivity.
  - intros H. exact (classify_fwd c script _ H).
  - intros H. exact (classify_fwd c script _ H).
Qed.

(* the step wrapper keeps the outcome of the machine and brackets the events *)
Lemma optimizer_step_outcome c script :
  fst (fst (run_optimizer_step c script)) = outcome_of (run c script 0 None).
Proof. unfold run_optimizer_step, outcome_of. destruct (run c script 0 None) as [[[o d] e] k]. reflexivity. Qed.

(* ------------------------------------------------------------------------------------------
   Results of the evaluation that triggers TOO_FEW_REALIZATIONS are delivered before the step ends.
   ------------------------------------------------------------------------------------------ *)
Lemma few_opt_nonempty c rs : few_opt c rs = true -> rs <> [].
Proof. destruct rs; [discriminate | discriminate]. Qed.

Lemma eval_vectors_inl_nonempty c fms d : eval_vectors c fms = inl d -> fms <> [].
Proof. destruct fms; [discriminate | discriminate]. Qed.

Lemma too_few_nonempty c r ca rs : too_few c r ca rs -> rs <> [].
Proof.
  intros [d rs' He | rs' n ca' He Hf]; [|exact (few_opt_nonempty c _ Hf)].
  unfold eval_req, eval_F, eval_both, eval_G_cached in He.
  destruct (flt r) as [| |fms pm]; try discriminate.
  destruct (rk r).
  - destruct (eval_vectors c fms) eqn:Ev; try discriminate. inversion He; subst.
    apply eval_vectors_inl_nonempty in Ev. destruct fms; [congruence | discriminate].
  - destruct ca as [[[p cfm] cch]|].
    + destruct (p =? pt r).
      * destruct (grad_part c cfm pm cch); inversion He; discriminate.
      * destruct (fun_part c (hd [] fms)) as [| |h a ch]; try (inversion He; discriminate).
        destruct (grad_part c (hd [] fms) pm ch); inversion He; discriminate.
    + destruct (fun_part c (hd [] fms)) as [| |h a ch]; try (inversion He; discriminate).
      destruct (grad_part c (hd [] fms) pm ch); inversion He; discriminate.
  - destruct (fun_part c (hd [] fms)) as [| |h a ch]; try (inversion He; discriminate).
    destruct (grad_part c (hd [] fms) pm ch); inversion He; discriminate.
Qed.

Theorem results_before_too_few c script d e :
  run_optimizer_step c script = (Exit TooFew, d, e) ->
  exists pre r post dpre epre n' ca' rs,
    script = pre ++ r :: post /\ conts c 0 None pre dpre epre n' ca' /\
    too_few c r ca' rs /\ rs <> [] /\
    d = dpre ++ rs /\ e = StartOpt :: epre ++ [StartEval; FinEval; FinOpt].
Proof.
  unfold run_optimizer_step. destruct (run c script 0 None) as [[[o d'] e'] k] eqn:Er.
  intros H; inversion H; subst; clear H.
  destruct (run_decompose c _ _ _ _ _ _ _ Er) as [[Ho _] | (pre & r & post & dpre & epre & n' & ca' & rs & es & -> & Hc & Hs & -> & -> & _)];
    [discriminate|].
  inversion Hs as [| | |rs' Hb Ht]; subst.
  exists pre, r, post, dpre, epre, n', ca', rs. repeat split; try assumption.
  - exact (too_few_nonempty c _ _ _ Ht).
  - cbn. now rewrite <- app_assoc.
Qed.

(* ------------------------------------------------------------------------------------------
   An exception of the user's evaluator is never swallowed (and nothing else raises).
   ------------------------------------------------------------------------------------------ *)
Theorem exceptions_propagate c script :
  fst (fst (run_optimizer_step c script)) = Raise <-> first_stop_is c script (stop_raise c).
Proof. rewrite optimizer_step_outcome. apply (classification c script). Qed.

Lemma conts_no_raise c n ca s d e n' ca' :
  conts c n ca s d e n' ca' -> Forall (fun r => flt r <> FRaise /\ flt r <> FAbort) s.
Proof.
  induction 1 as [|n ca r rs n1 ca1 t d e n2 ca2 Hc _ IH]; constructor; [|exact IH].
  destruct Hc as (_ & k & He & _). split; intros Hf.
  - apply (eval_req_raise c r ca) in Hf. congruence.
  - apply (eval_req_abort c r ca) in Hf. congruence.
Qed.

(* ------------------------------------------------------------------------------------------
   Budget.
   ------------------------------------------------------------------------------------------ *)
Definition is_F (r : res) : bool := match r_kind r with RF => true | RG => false end.
Definition countF (l : list res) : nat := length (filter is_F l).
Lemma countF_app a b : countF (a ++ b) = countF a + countF b.
Proof. unfold countF. now rewrite filter_app, app_length. Qed.

(* cache-respecting scripts: every gradient-only request follows a function request at the same
   point with no function+gradient request in between (what the SciPy plug-in guarantees, C07) *)
Fixpoint cache_ok (tr : option nat) (s : list req) : bool :=
  match s with
  | [] => true
  | r :: t =>
      match rk r with
      | KF => cache_ok (Some (pt r)) t
      | KFG => cache_ok None t
      | KG => match tr with Some p => (p =? pt r) && cache_ok tr t | None => false end
      end
  end.
Definition cpt (ca : cache) : option nat := match ca with Some (p, _, _) => Some p | None => None end.

Lemma eval_vectors_length c fms rs : eval_vectors c fms = inr rs -> length rs = length fms /\ countF rs = length fms.
Proof.
  revert rs; induction fms as [|fm t IH]; intros rs H; cbn in H.
  - inversion H; subst. split; reflexivity.
  - destruct (fun_part c fm) as [| |h a ch]; try discriminate.
    destruct (eval_vectors c t) as [|rs']; try discriminate. inversion H; subst.
    destruct (IH _ eq_refl) as [H1 H2]. split; cbn; [now rewrite H1 | unfold countF in *; cbn; now rewrite H2].
Qed.

Lemma map_allres_countF fms : countF (map (fun fm => mkres RF false (all_failed fm)) fms) = length fms.
Proof. induction fms as [|fm t IH]; [reflexivity | unfold countF in *; cbn; now rewrite IH]. Qed.

(* results delivered by one request of a cache-respecting script: at most B function results, and
   exactly as many as are counted when the run goes on *)
Lemma eval_req_counts c r ca B tr :
  1 <= B -> length (vectors r) <= B -> cpt ca = tr ->
  (match rk r with KG => match tr with Some p => p =? pt r | None => false end | _ => true end) = true ->
  match eval_req c r ca with
  | VInside _ rs => countF rs <= B
  | VResults rs k ca' => countF rs = k /\ k <= B /\
      cpt ca' = match rk r with KF => Some (pt r) | KFG => None | KG => tr end
  | _ => True
  end.
Proof.
  intros HB Hv Hca Hok. unfold eval_req, vectors in *.
  destruct (flt r) as [| |fms pm]; try exact I.
  destruct (rk r).
  - unfold eval_F. destruct (eval_vectors c fms) as [d|rs] eqn:Ev.
    + now rewrite map_allres_countF.
    + destruct (eval_vectors_length c _ _ Ev) as [H1 H2]. cbn. rewrite H2, H1. repeat split; try reflexivity; try exact Hv.
  - destruct ca as [[[p cfm] cch]|]; cbn in Hca; subst tr; [|discriminate].
    rewrite Hok. unfold eval_G_cached. destruct (grad_part c cfm pm cch); cbn; [lia | repeat split; lia].
  - unfold eval_both. destruct (fun_part c (hd [] fms)) as [| |h a ch]; cbn; try lia.
    destruct (grad_part c (hd [] fms) pm ch); cbn; [lia | repeat split; lia].
Qed.

Theorem budget_delivered c m B : maxf c = Some m -> 1 <= B ->
  forall script n ca o d e k,
  Forall (fun r => length (vectors r) <= B) script ->
  cache_ok (cpt ca) script = true ->
  n <= m + (B - 1) ->
  run c script n ca = (o, d, e, k) ->
  countF d + n <= m + (B - 1) /\ k <= m + (B - 1).
Proof.
  intros Hm HB. induction script as [|r t IH]; intros n ca o d e k Hall Hok Hn H; cbn [run] in H.
  - inversion H; subst. cbn. lia.
  - inversion Hall as [|? ? Hr Ht]; subst.
    unfold over_budget in H. rewrite Hm in H. destruct (Nat.leb_spec m n) as [Hle|Hlt].
    { inversion H; subst. cbn. lia. }
    cbn [cache_ok] in Hok.
    assert (Hg : (match rk r with KG => match cpt ca with Some p => p =? pt r | None => false end | _ => true end) = true).
    { destruct (rk r); try reflexivity. destruct (cpt ca); [|discriminate]. now apply andb_prop in Hok. }
    pose proof (eval_req_counts c r ca B (cpt ca) HB Hr eq_refl Hg) as Hc.
    destruct (eval_req c r ca) as [| |dc rs|rs j ca1] eqn:Ee.
    + inversion H; subst. cbn. lia.
    + inversion H; subst. cbn. lia.
    + inversion H; subst. lia.
    + destruct Hc as (Hc1 & Hc2 & Hc3). destruct (few_opt c rs).
      * inversion H; subst. lia.
      * destruct (run c t (n + j) ca1) as [[[o1 d1] e1] k1] eqn:Er. injection H as <- <- <- <-.
        assert (Hok' : cache_ok (cpt ca1) t = true).
        { rewrite Hc3. destruct (rk r); try exact Hok. destruct (cpt ca); [|discriminate]. now apply andb_prop in Hok. }
        assert (Hn' : n + j <= m + (B - 1)) by lia.
        destruct (IH (n + j) ca1 o1 d1 e1 k1 Ht Hok' Hn' Er) as [H1 H2].
        rewrite countF_app. lia.
Qed.

(* the counted functions obey the bound for every script, cache-respecting or not *)
Theorem budget_counted c m B : maxf c = Some m -> 1 <= B ->
  forall script n ca o d e k,
  Forall (fun r => length (vectors r) <= B) script ->
  n <= m + (B - 1) ->
  run c script n ca = (o, d, e, k) -> k <= m + (B - 1).
Proof.
  intros Hm HB. induction script as [|r t IH]; intros n ca o d e k Hall Hn H; cbn [run] in H.
  - inversion H; subst. lia.
  - inversion Hall as [|? ? Hr Ht]; subst.
    unfold over_budget in H. rewrite Hm in H. destruct (Nat.leb_spec m n) as [Hle|Hlt].
    { inversion H; subst. lia. }
    destruct (eval_req c r ca) as [| |dc rs|rs j ca1] eqn:Ee; try (inversion H; subst; lia).
    destruct (few_opt c rs); [inversion H; subst; lia|].
    destruct (run c t (n + j) ca1) as [[[o1 d1] e1] k1] eqn:Er. injection H as <- <- <- <-.
    assert (Hj : j <= B).
    { unfold eval_req, vectors in *. destruct (flt r) as [| |fms pm]; try discriminate.
      destruct (rk r).
      - unfold eval_F in Ee. destruct (eval_vectors c fms) as [dd|rs'] eqn:Ev; try discriminate.
        inversion Ee; subst. destruct (eval_vectors_length c _ _ Ev) as [H1 _]. lia.
      - destruct ca as [[[p cfm] cch]|].
        + destruct (p =? pt r).
          * unfold eval_G_cached in Ee. destruct (grad_part c cfm pm cch); inversion Ee; lia.
          * unfold eval_both in Ee. destruct (fun_part c (hd [] fms)) as [| |h a ch]; try discriminate.
            destruct (grad_part c (hd [] fms) pm ch); inversion Ee; lia.
        + unfold eval_both in Ee. destruct (fun_part c (hd [] fms)) as [| |h a ch]; try discriminate.
          destruct (grad_part c (hd [] fms) pm ch); inversion Ee; lia.
      - unfold eval_both in Ee. destruct (fun_part c (hd [] fms)) as [| |h a ch]; try discriminate.
        destruct (grad_part c (hd [] fms) pm ch); inversion Ee; lia. }
    assert (Hn' : n + j <= m + (B - 1)) by lia.
    apply (IH (n + j) ca1 o1 d1 e1 k1 Ht Hn' Er).
Qed.

(* ------------------------------------------------------------------------------------------
   The evaluator step.
   ------------------------------------------------------------------------------------------ *)
Theorem evaluator_step_classification c r :
  let '(o, d, e) := run_evaluator_step c r in
  match flt r with
  | FRaise => o = Raise /\ d = [] /\ e = [StartEvalStep; StartEval]
  | FAbort => o = Exit UserAbort /\ d = [] /\ e = [StartEvalStep; StartEval; FinEvalStep]
  | FMasks fms _ =>
      e = [StartEvalStep; StartEval; FinEval; FinEvalStep] /\
      match eval_vectors c fms with
      | inl _ => o = Exit TooFew /\ length d = length fms        (* a filter or estimator decided *)
      | inr rs => d = rs /\ (o = Exit TooFew <-> exists x, In x rs /\ r_has x = false) /\
                  (o = Exit EvalFinished <-> forall x, In x rs -> r_has x = true) /\
                  (o = Exit TooFew \/ o = Exit EvalFinished)
      end
  end.
Proof.
  unfold run_evaluator_step. destruct (flt r) as [| |fms pm]; [repeat split | repeat split |].
  unfold eval_F. destruct (eval_vectors c fms) as [dd|rs] eqn:Ev.
  - repeat split. now rewrite map_length.
  - split; [reflexivity|]. split; [reflexivity|]. unfold few_eval.
    destruct (existsb (fun r0 => negb (r_has r0)) rs) eqn:Ex.
    + apply existsb_exists in Ex as (x & Hx & Hh). apply negb_true_iff in Hh. repeat split.
      * intros _. exists x; auto.
      * discriminate.
      * intros Hall. rewrite (Hall x Hx) in Hh. discriminate.
      * now left.
    + repeat split.
      * discriminate.
      * intros (x & Hx & Hh). assert (existsb (fun r0 => negb (r_has r0)) rs = true) as Hc
          by (apply existsb_exists; exists x; split; [exact Hx | now rewrite Hh]). congruence.
      * intros _ x Hx. destruct (r_has x) eqn:Hh; [reflexivity|].
        assert (existsb (fun r0 => negb (r_has r0)) rs = true) as Hc
          by (apply existsb_exists; exists x; split; [exact Hx | now rewrite Hh]). congruence.
      * now right.
Qed.

(* ------------------------------------------------------------------------------------------
   Why an evaluation has too few realizations, in terms of the failure masks (the readable
   specification of [too_few]): thresholds, filters, estimators, NaN-intolerant methods.
   ------------------------------------------------------------------------------------------ *)
Theorem few_opt_spec c rs :
  few_opt c rs = true <->
  exists r, In r rs /\ (r_has r = false \/ (rmin c = 0 /\ allow_nan c = false /\ r_allf r = true)).
Proof.
  unfold few_opt, check_failures. rewrite existsb_exists. split.
  - intros (r & Hin & H). exists r. split; [exact Hin|].
    apply orb_true_iff in H as [H|H].
    + left. now apply negb_true_iff in H.
    + right. apply andb_true_iff in H as [H1 H3]. apply andb_true_iff in H1 as [H1 H2].
      apply Nat.ltb_lt in H1. apply negb_true_iff in H2. repeat split; [lia | exact H2 | exact H3].
  - intros (r & Hin & [H | (H1 & H2 & H3)]); exists r; (split; [exact Hin|]).
    + rewrite H. reflexivity.
    + rewrite H1, H2, H3. cbn. apply orb_true_r.
Qed.

Theorem few_eval_spec rs : few_eval rs = true <-> exists r, In r rs /\ r_has r = false.
Proof.
  unfold few_eval. rewrite existsb_exists. split; intros (r & Hin & H); exists r; (split; [exact Hin|]).
  - now apply negb_true_iff in H.
  - now rewrite H.
Qed.

(* the function part of one vector: which of the three too-few mechanisms fires, or the flags of the result *)
Ltac fin := intros; first [reflexivity | assumption | discriminate | congruence | lia].

Theorem fun_part_spec c fm :
  match fun_part c fm with
  | FFilter => filter_few (chosen c fm) = true
  | FEst => filter_few (chosen c fm) = false /\ rmin c <= count_ok fm /\ all_failed fm = false /\
            cest c = Stddev /\ nz c (chosen c fm) fm < min_stddev
  | FRes h a ch =>
      filter_few (chosen c fm) = false /\ ch = chosen c fm /\ a = all_failed fm /\
      (h = true <-> rmin c <= count_ok fm) /\
      (h = true -> a = false -> cest c = Stddev -> min_stddev <= nz c (chosen c fm) fm)
  end.
Proof.
  unfold fun_part. destruct (filter_few (chosen c fm)) eqn:Ef; [reflexivity|].
  destruct (Nat.leb_spec (rmin c) (count_ok fm)) as [Hle|Hlt].
  - destruct (all_failed fm) eqn:Ea.
    + repeat split; fin.
    + destruct (cest c) eqn:Ec; cbn [is_stddev andb].
      * repeat split; fin.
      * destruct (Nat.ltb_spec (nz c (chosen c fm) fm) min_stddev) as [Hn|Hn]; repeat split; fin.
  - repeat split; fin.
Qed.

Theorem grad_part_spec c fm pm ch :
  let fg := failed_grad c fm pm in
  match grad_part c fm pm ch with
  | GEst => rmin c <= count_ok fg /\ cest c = Stddev /\ nz c ch fg < min_stddev
  | GRes h a => a = all_failed fg /\ (h = true <-> rmin c <= count_ok fg) /\
                (h = true -> cest c = Stddev -> min_stddev <= nz c ch fg)
  end.
Proof.
  cbv zeta. unfold grad_part. destruct (Nat.leb_spec (rmin c) (count_ok (failed_grad c fm pm))) as [Hle|Hlt].
  - destruct (cest c) eqn:Ec; cbn [is_stddev andb].
    + repeat split; fin.
    + destruct (Nat.ltb_spec (nz c ch (failed_grad c fm pm)) min_stddev) as [Hn|Hn]; repeat split; fin.
  - repeat split; fin.
Qed.

(* a realization counts as failed for the gradient when its function value failed or fewer than
   perturbation_min_success of its perturbations succeeded *)
Lemma failed_grad_nth c fm pm r : r < nreal c ->
  nth r (failed_grad c fm pm) true = failed_at fm r || (count_ok (nth r pm []) <? pmin c).
Proof.
  intros Hr. unfold failed_grad.
  rewrite (nth_indep _ true (failed_at fm 0 || (count_ok (nth 0 pm []) <? pmin c))) by (rewrite map_length, seq_length; exact Hr).
  rewrite (map_nth (fun r0 => failed_at fm r0 || (count_ok (nth r0 pm []) <? pmin c)) (seq 0 (nreal c)) 0 r).
  now rewrite seq_nth.
Qed.

(* a function request for a single vector: the evaluation has too few realizations exactly when
   (a) the realization filter leaves no successful realization with a positive weight, or
   (b) fewer than realization_min_success realizations succeeded, or
   (c) the stddev estimator is left with fewer than two realizations, or
   (d) realization_min_success = 0, the method does not accept NaN and every realization failed *)
Theorem too_few_function_request c r ca fm pm :
  rk r = KF -> flt r = FMasks [fm] pm ->
  ((exists rs, too_few c r ca rs) <->
   filter_few (chosen c fm) = true \/
   (filter_few (chosen c fm) = false /\
    (count_ok fm < rmin c \/
     (rmin c <= count_ok fm /\ all_failed fm = false /\ cest c = Stddev /\ nz c (chosen c fm) fm < min_stddev) \/
     (rmin c = 0 /\ allow_nan c = false /\ all_failed fm = true)))).
Proof.
  intros Hk Hf.
  assert (He : eval_req c r ca = eval_F c (pt r) [fm]) by (unfold eval_req; now rewrite Hf, Hk).
  pose proof (fun_part_spec c fm) as Hs.
  unfold eval_F in He. cbn [eval_vectors] in He.
  destruct (fun_part c fm) as [| |h a ch] eqn:Efp.
  - (* filter *) split.
    + intros _. now left.
    + intros _. eexists. econstructor 1. exact He.
  - (* estimator *) destruct Hs as (H0 & H1 & H2 & H3 & H4). split.
    + intros _. right. split; [exact H0|]. right; left. repeat split; assumption.
    + intros _. eexists. econstructor 1. exact He.
  - destruct Hs as (H0 & -> & -> & Hh & Hst). cbn [map hd length] in He. split.
    + intros (rs & Ht). right. split; [exact H0|].
      destruct Ht as [d rs' He' | rs' n ca' He' Hfew]; rewrite He in He'; [discriminate|].
      injection He' as <- _ _. apply few_opt_spec in Hfew as (x & [<-|[]] & Hx). cbn in Hx.
      destruct Hx as [Hx | (Hx1 & Hx2 & Hx3)].
      * left. destruct (Nat.le_gt_cases (rmin c) (count_ok fm)) as [Hle|Hgt]; [|exact Hgt].
        apply Hh in Hle. congruence.
      * right; right. repeat split; assumption.
    + intros [Hc|(_ & [Hlt | [(H1 & H2 & H3 & H4) | (H1 & H2 & H3)]])].
      * congruence.
      * eexists. econstructor 2; [exact He|]. apply few_opt_spec. eexists. split; [now left|]. left. cbn.
        destruct h; [|reflexivity]. assert (rmin c <= count_ok fm) by now apply Hh. lia.
      * exfalso. assert (Hht : h = true) by now apply Hh. specialize (Hst Hht H2 H3). lia.
      * eexists. econstructor 2; [exact He|]. apply few_opt_spec. eexists. split; [now left|]. right. cbn. auto.
Qed.

(* a gradient-only request at the cached point (what every SciPy back-end issues after the function request):
   too few exactly when, counting a realization as failed if its function value failed or fewer than
   perturbation_min_success of its perturbations succeeded,
   (a) fewer than realization_min_success realizations are left, or
   (b) the stddev estimator is left with fewer than two, or
   (c) realization_min_success = 0, the method does not accept NaN and no realization is left *)
Theorem too_few_gradient_request c r p cfm cch fms pm :
  rk r = KG -> flt r = FMasks fms pm -> p = pt r ->
  let fg := failed_grad c cfm pm in
  ((exists rs, too_few c r (Some (p, cfm, cch)) rs) <->
   count_ok fg < rmin c \/
   (rmin c <= count_ok fg /\ cest c = Stddev /\ nz c cch fg < min_stddev) \/
   (rmin c = 0 /\ allow_nan c = false /\ all_failed fg = true)).
Proof.
  intros Hk Hf -> fg.
  assert (He : eval_req c r (Some (pt r, cfm, cch)) = eval_G_cached c (Some (pt r, cfm, cch)) cfm cch pm)
    by (unfold eval_req; now rewrite Hf, Hk, Nat.eqb_refl).
  pose proof (grad_part_spec c cfm pm cch) as Hs. cbv zeta in Hs. fold fg in Hs.
  unfold eval_G_cached in He. destruct (grad_part c cfm pm cch) as [|h a] eqn:Eg.
  - destruct Hs as (H1 & H2 & H3). split.
    + intros _. right; left. repeat split; assumption.
    + intros _. eexists. econstructor 1. exact He.
  - destruct Hs as (-> & Hh & Hst). split.
    + intros (rs & Ht). destruct Ht as [d rs' He' | rs' n ca' He' Hfew]; rewrite He in He'; [discriminate|].
      injection He' as <- _ _. apply few_opt_spec in Hfew as (x & [<-|[]] & Hx). cbn in Hx.
      destruct Hx as [Hx | (Hx1 & Hx2 & Hx3)].
      * left. destruct (Nat.le_gt_cases (rmin c) (count_ok fg)) as [Hle|Hgt]; [|exact Hgt].
        apply Hh in Hle. congruence.
      * right; right. repeat split; assumption.
    + intros [Hlt | [(H1 & H2 & H3) | (H1 & H2 & H3)]].
      * eexists. econstructor 2; [exact He|]. apply few_opt_spec. eexists. split; [now left|]. left. cbn.
        destruct h; [|reflexivity]. assert (rmin c <= count_ok fg) by now apply Hh. lia.
      * exfalso. assert (Hht : h = true) by now apply Hh. specialize (Hst Hht H2). lia.
      * eexists. econstructor 2; [exact He|]. apply few_opt_spec. eexists. split; [now left|]. right. cbn. auto.
Qed.

(* ------------------------------------------------------------------------------------------
   Nested optimizations (the tree machine).
   ------------------------------------------------------------------------------------------ *)
Lemma has_result_app a b : has_result (a ++ b) = has_result a || has_result b.
Proof. unfold has_result. apply existsb_app. Qed.

Lemma flat_tr_TE e : flat_tr (map TE e) = e.
Proof. unfold flat_tr. induction e as [|x t IH]; [reflexivity|]. cbn. now rewrite IH. Qed.

(* a step without nested optimization is the plain machine [run], whatever the nested runs would do *)
Theorem run_items_leaf rec c : forall script n ca hs own,
  run_items rec c (map (fun r => (r, None)) script) n ca hs own =
  (let '(o, d, e, _) := run c script n ca in (o, d, map TE e, (hs, own || has_result d))).
Proof.
  induction script as [|r t IH]; intros n ca hs own; cbn [map run_items run].
  - now rewrite orb_false_r.
  - destruct (over_budget c n); [now rewrite orb_false_r|].
    destruct (eval_req c r ca) as [| |dc rs|rs m ca1]; cbn [app map].
    + now rewrite orb_false_r.
    + now rewrite orb_false_r.
    + reflexivity.
    + destruct (few_opt c rs); [reflexivity|].
      rewrite IH. destruct (run c t (n + m) ca1) as [[[o d] e] k]. cbn [app map].
      now rewrite has_result_app, orb_assoc.
Qed.

Theorem tree_step_leaf c script hs : tree_step (leaf c script) hs = run_optimizer_step c script.
Proof.
  unfold tree_step, leaf, run_optimizer_step. cbn [run_tree]. rewrite run_items_leaf.
  destruct (run c script 0 None) as [[[o d] e] k]. now rewrite flat_tr_TE.
Qed.

(* a request of a step with a nested optimization: the budget is checked before the nested run starts;
   an exception of the nested run passes through; a nested USER_ABORT wins over everything else, in
   particular over "no result"; a nested run that ended otherwise but has left the tracker empty gives
   NESTED_OPTIMIZER_FAILED; otherwise the request is evaluated as without nesting *)
Theorem run_items_nested rec c r st rest n ca hs own io id itr hst iown :
  rec st (tl hs) = (io, id, itr, (hst, iown)) ->
  let h := hd false hs || iown in
  run_items rec c ((r, Some st) :: rest) n ca hs own =
  if over_budget c n then (Exit MaxFunctions, [], [], (hs, own)) else
  match io with
  | Raise => (Raise, id, [TInner io itr], (h :: hst, own))
  | Exit UserAbort => (Exit UserAbort, id, [TInner io itr], (h :: hst, own))
  | Exit _ =>
      if h then
        let '(o, d, e, s') := run_items rec c ((r, None) :: rest) n ca (h :: hst) own in
        (o, id ++ d, TInner io itr :: e, s')
      else (Exit NestedFailed, id, [TInner io itr], (h :: hst, own))
  end.
Proof.
  intros Hrec h. cbn [run_items]. rewrite Hrec. fold h.
  destruct (over_budget c n) eqn:Eb; [reflexivity|].
  destruct io as [x|]; [|reflexivity].
  destruct x; cbn [nested_verdict]; try reflexivity; destruct h; try reflexivity;
    (destruct (eval_req c r ca) as [| |dc rs|rs m ca1]; cbn [app]; rewrite ?app_nil_r; try reflexivity;
     match goal with |- context [few_opt c ?q] => destruct (few_opt c q) end; [reflexivity|];
     match goal with |- context [run_items rec c rest ?a ?b ?d ?e] =>
       destruct (run_items rec c rest a b d e) as [[[o d'] e'] s'] end; reflexivity).
Qed.
