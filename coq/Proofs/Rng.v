(* Proofs/Rng.v -- lemmas about Model/Rng.v (property C16). *)
From Coq Require Import List ZArith Bool Arith Lia.
From Ropt Require Import Model.Rng.
Import ListNotations.

Section Machine.
  Variables G T L V : Type.
  Variable drawG : G -> G * V.
  Variable drawL : L -> L * V.

  Notation exec := (@exec G T L V drawG drawL).

  (* a program that did not touch anything neither read nor wrote the generator-like state and did not
     write the tables: it is a function of the tables' content and of the run-local generator only *)
  Lemma exec_local A (p : prog G T V A) : forall g1 t l g' t' l' a,
    exec p g1 t l = (g', t', l', a, O) -> g' = g1 /\ t' = t /\ forall g2, exec p g2 t l = (g2, t, l', a, O).
  Proof.
    induction p as [a0 | k IH | k IH | s p IH | k IH | f p IH]; intros g1 t l g' t' l' a H; cbn [Rng.exec] in *.
    - injection H as <- <- <- <-. split; [reflexivity|]. split; [reflexivity | intros g2; reflexivity].
    - destruct (drawL l) as [l1 v]. destruct (IH v g1 t l1 g' t' l' a H) as [E [E' F]]. split; [exact E|]. split; [exact E'|].
      intros g2. apply F.
    - destruct (drawG g1) as [g1' v]. destruct (exec (k v) g1' t l) as [[[[g'' t''] l''] a''] n]. discriminate.
    - destruct (exec p s t l) as [[[[g'' t''] l''] a''] n]. discriminate.
    - apply (IH t g1 t l g' t' l' a H).
    - destruct (exec p g1 (f t) l) as [[[[g'' t''] l''] a''] n]. discriminate.
  Qed.

  Variables Cfg X Req Res Smp : Type.
  Variable seed_of_config : Cfg -> L.
  Variable init : Cfg -> prog G T V unit.
  Variable sampler : Cfg -> prog G T V Smp.
  Variable request : Cfg -> X -> option Smp -> Req.
  Variable evaluator : Req -> Res.
  Variable decide : Cfg -> list (Req * Res) -> option (bool * X).
  Variable exit_code : Cfg -> list (Req * Res) -> Z.

  Notation run_from := (@run_from G T L V drawG drawL Cfg X Req Res Smp sampler request evaluator decide exit_code).
  Notation run := (@run G T L V drawG drawL Cfg X Req Res Smp seed_of_config init sampler request evaluator decide exit_code).
  Notation process := (@process G T L V drawG drawL Cfg X Req Res Smp seed_of_config init sampler request evaluator decide exit_code).
  Notation run_as_foreign := (@run_as_foreign G T L V drawG drawL Cfg X Req Res Smp seed_of_config init sampler request evaluator decide exit_code).
  Notation outcome := (outcome G T Req Res).
  Notation touches := (o_touches G T Req Res).
  Notation table := (o_table G T Req Res).
  Notation global := (o_global G T Req Res).
  Notation trace := (o_trace G T Req Res).

  (* the touch counter only grows *)
  Lemma run_from_touches_ge fuel : forall cfg s g t l hist k,
    k <= touches (run_from fuel cfg s g t l hist k).
  Proof.
    induction fuel as [|n IH]; intros cfg s g t l hist k; cbn [Rng.run_from].
    - destruct (decide cfg hist) as [[p x]|]; cbn; lia.
    - destruct (decide cfg hist) as [[p x]|]; [|cbn; lia].
      destruct (pop G s) as [b1 s1]. destruct p.
      + destruct (exec (sampler cfg) (apply_foreign G b1 g) t l) as [[[[g' t'] l'] a] k'].
        destruct (pop G s1) as [b2 s2]. etransitivity; [|apply IH]. lia.
      + destruct (pop G s1) as [b2 s2]. etransitivity; [|apply IH]. lia.
  Qed.

  (* observable part of an outcome *)
  Definition observable (o : outcome) := (trace o, o_exit _ _ _ _ o, o_complete _ _ _ _ o).

  (* NON-INTERFERENCE.  If a run did not itself touch the generator-like state or write the tables, then
     under ANY other schedule of foreign operations and ANY other initial generator-like state it makes
     exactly the same requests, gets the same results and the same exit code (and again touches nothing),
     and it leaves the tables as it found them. *)
  Lemma run_from_ni fuel : forall cfg s1 s2 g1 g2 t l hist k,
    touches (run_from fuel cfg s1 g1 t l hist k) = k ->
    observable (run_from fuel cfg s2 g2 t l hist k) = observable (run_from fuel cfg s1 g1 t l hist k) /\
    touches (run_from fuel cfg s2 g2 t l hist k) = k /\
    table (run_from fuel cfg s2 g2 t l hist k) = t /\ table (run_from fuel cfg s1 g1 t l hist k) = t.
  Proof.
    induction fuel as [|n IH]; intros cfg s1 s2 g1 g2 t l hist k H; cbn [Rng.run_from] in *.
    - destruct (decide cfg hist) as [[p x]|]; repeat split; reflexivity.
    - destruct (decide cfg hist) as [[p x]|]; [|repeat split; reflexivity].
      destruct (pop G s1) as [b1 r1]. destruct (pop G s2) as [c1 q1]. destruct p.
      + destruct (exec (sampler cfg) (apply_foreign G b1 g1) t l) as [[[[g' t'] l'] a] k'] eqn:E1.
        destruct (pop G r1) as [b2 r2]. destruct (pop G q1) as [c2 q2].
        assert (k' = O) as ->.
        { pose proof (run_from_touches_ge n cfg r2 (apply_foreign G b2 g') t' l'
                        (hist ++ [(request cfg x (Some a), evaluator (request cfg x (Some a)))]) (k + k')) as M.
          rewrite H in M. lia. }
        destruct (exec_local Smp (sampler cfg) _ _ _ _ _ _ _ E1) as [_ [-> F]].
        rewrite (F (apply_foreign G c1 g2)). rewrite Nat.add_0_r in *. apply IH. exact H.
      + destruct (pop G r1) as [b2 r2]. destruct (pop G q1) as [c2 q2].
        rewrite Nat.add_0_r in *. apply IH. exact H.
  Qed.

  Theorem non_interference fuel cfg s1 s2 g1 g2 t :
    touches (run fuel cfg s1 g1 t) = O ->
    observable (run fuel cfg s2 g2 t) = observable (run fuel cfg s1 g1 t) /\ touches (run fuel cfg s2 g2 t) = O /\
    table (run fuel cfg s2 g2 t) = t /\ table (run fuel cfg s1 g1 t) = t.
  Proof.
    unfold Rng.run. intros H.
    destruct (exec (init cfg) g1 t (seed_of_config cfg)) as [[[[g0 t0] l0] u] k] eqn:E.
    assert (k = O) as ->.
    { pose proof (run_from_touches_ge fuel cfg s1 g0 t0 l0 [] k) as M. rewrite H in M. lia. }
    destruct (exec_local unit (init cfg) _ _ _ _ _ _ _ E) as [_ [-> F]]. rewrite (F g2).
    apply run_from_ni. exact H.
  Qed.

  (* a touch-free run leaves the generator-like state exactly as the foreign operations made it: it
     consumed two blocks of the schedule per evaluator call and did nothing else to G *)
  Lemma apply_foreign_app a b g : apply_foreign G (a ++ b) g = apply_foreign G b (apply_foreign G a g).
  Proof. unfold apply_foreign. apply fold_left_app. Qed.

  Lemma concat_firstn_pop2 m (s : schedule G) :
    concat (firstn (S (S m)) s) =
    fst (pop G s) ++ fst (pop G (snd (pop G s))) ++ concat (firstn m (snd (pop G (snd (pop G s))))).
  Proof.
    destruct s as [|b1 [|b2 s2]]; cbn [pop fst snd firstn concat].
    - rewrite firstn_nil. reflexivity.
    - rewrite firstn_nil. reflexivity.
    - reflexivity.
  Qed.

  Lemma run_from_global fuel : forall cfg s g t l hist k,
    touches (run_from fuel cfg s g t l hist k) = k ->
    exists more, trace (run_from fuel cfg s g t l hist k) = hist ++ more /\
                 global (run_from fuel cfg s g t l hist k) = apply_foreign G (concat (firstn (2 * length more) s)) g.
  Proof.
    induction fuel as [|n IH]; intros cfg s g t l hist k H; cbn [Rng.run_from] in *.
    - destruct (decide cfg hist) as [[p x]|]; exists []; rewrite app_nil_r; split; reflexivity.
    - destruct (decide cfg hist) as [[p x]|]; [|exists []; rewrite app_nil_r; split; reflexivity].
      pose proof (concat_firstn_pop2) as C.
      destruct (pop G s) as [b1 s1] eqn:P1. destruct p.
      + destruct (exec (sampler cfg) (apply_foreign G b1 g) t l) as [[[[g' t'] l'] a] k'] eqn:E1.
        destruct (pop G s1) as [b2 s2] eqn:P2.
        assert (k' = O) as ->.
        { pose proof (run_from_touches_ge n cfg s2 (apply_foreign G b2 g') t' l'
                        (hist ++ [(request cfg x (Some a), evaluator (request cfg x (Some a)))]) (k + k')) as M.
          rewrite H in M. lia. }
        destruct (exec_local Smp (sampler cfg) _ _ _ _ _ _ _ E1) as [-> _].
        rewrite Nat.add_0_r in *. destruct (IH _ _ _ _ _ _ _ H) as [more [Ht Hg]].
        exists ((request cfg x (Some a), evaluator (request cfg x (Some a))) :: more). split.
        * rewrite Ht, <- app_assoc. reflexivity.
        * rewrite Hg. replace (2 * length ((request cfg x (Some a), evaluator (request cfg x (Some a))) :: more))
            with (S (S (2 * length more))) by (cbn [length]; lia).
          rewrite C, P1. cbn [fst snd]. rewrite P2. cbn [fst snd]. rewrite !apply_foreign_app. reflexivity.
      + destruct (pop G s1) as [b2 s2] eqn:P2.
        rewrite Nat.add_0_r in *. destruct (IH _ _ _ _ _ _ _ H) as [more [Ht Hg]].
        exists ((request cfg x None, evaluator (request cfg x None)) :: more). split.
        * rewrite Ht, <- app_assoc. reflexivity.
        * rewrite Hg. replace (2 * length ((request cfg x None, evaluator (request cfg x None)) :: more))
            with (S (S (2 * length more))) by (cbn [length]; lia).
          rewrite C, P1. cbn [fst snd]. rewrite P2. cbn [fst snd]. rewrite !apply_foreign_app. reflexivity.
  Qed.

  Theorem leaves_global_alone fuel cfg s g t :
    touches (run fuel cfg s g t) = O ->
    global (run fuel cfg s g t) = apply_foreign G (concat (firstn (2 * length (trace (run fuel cfg s g t))) s)) g.
  Proof.
    unfold Rng.run. intros H.
    destruct (exec (init cfg) g t (seed_of_config cfg)) as [[[[g0 t0] l0] u] k] eqn:E.
    assert (k = O) as ->.
    { pose proof (run_from_touches_ge fuel cfg s g0 t0 l0 [] k) as M. rewrite H in M. lia. }
    destruct (exec_local unit (init cfg) _ _ _ _ _ _ _ E) as [-> _].
    destruct (run_from_global fuel cfg s g t0 l0 [] O H) as [more [Ht Hg]]. rewrite Hg, Ht. reflexivity.
  Qed.

  (* OTHER RUNS INSIDE THIS ONE.  A touch-free run is, for everybody else, an operation on the
     generator-like state alone (it hands the tables back unchanged, whatever G it starts from) ... *)
  Theorem touch_free_run_is_foreign fuel cfg s g t :
    touches (run fuel cfg s g t) = O ->
    forall s' g', table (run fuel cfg s' g' t) = t /\ touches (run fuel cfg s' g' t) = O.
  Proof.
    intros H s' g'. destruct (non_interference fuel cfg s s' g g' t H) as [_ [Ht [Hb _]]]. split; assumption.
  Qed.

  (* ... so complete other (touch-free) runs executed at any schedule point of a run -- inside its evaluator,
     in an observer between its evaluations, any number of them -- do not change what the run does *)
  Theorem interleaved_runs fuel cfg s g t (others : list (list (nat * Cfg * schedule G))) g' :
    touches (run fuel cfg s g t) = O ->
    Forall (Forall (fun j : nat * Cfg * schedule G => touches (run (fst (fst j)) (snd (fst j)) (snd j) g t) = O)) others ->
    let s' := map (map (fun j : nat * Cfg * schedule G => run_as_foreign (fst (fst j)) (snd (fst j)) (snd j) t)) others in
    observable (run fuel cfg s' g' t) = observable (run fuel cfg s g t) /\
    table (run fuel cfg s' g' t) = t /\
    Forall (Forall (fun j : nat * Cfg * schedule G => forall g0, table (run (fst (fst j)) (snd (fst j)) (snd j) g0 t) = t)) others.
  Proof.
    intros H Ho s'. destruct (non_interference fuel cfg s s' g g' t H) as [E [_ [Ht _]]].
    split; [exact E|]. split; [exact Ht|].
    eapply Forall_impl; [|exact Ho]. intros blk Hb. eapply Forall_impl; [|exact Hb].
    intros j Hj g0. apply (touch_free_run_is_foreign _ _ _ _ _ Hj (snd j) g0).
  Qed.

  (* SEQUENTIAL RUNS.  In a process whose runs are all touch-free the tables never change, and every run
     -- whatever ran before it, whatever the foreign operations did -- is observably the run of the same
     configuration alone in a fresh process (empty schedule, any generator-like state). *)
  Lemma process_independent jobs : forall g t g',
    Forall (fun o => touches o = O) (process jobs g t) ->
    map observable (process jobs g t) =
      map (fun j : nat * Cfg * schedule G => observable (run (fst (fst j)) (snd (fst j)) [] g' t)) jobs /\
    Forall (fun o => table o = t) (process jobs g t).
  Proof.
    induction jobs as [|[[f c] s] jobs IH]; intros g t g' H; cbn [Rng.process map] in *; [split; constructor|].
    inversion H as [|o os Ho Hos]; subst.
    destruct (non_interference f c s [] g g' t Ho) as [E [_ [_ Ht]]].
    rewrite Ht in Hos |- *. destruct (IH _ t g' Hos) as [IH1 IH2]. split.
    - cbn [fst snd]. rewrite E, IH1. reflexivity.
    - constructor; [exact Ht | exact IH2].
  Qed.

  Lemma process_app before : forall rest g t,
    Forall (fun o => touches o = O) (process before g t) ->
    exists g0, process (before ++ rest) g t = process before g t ++ process rest g0 t.
  Proof.
    induction before as [|[[f c] s] before IH]; intros rest g t H; cbn [app Rng.process] in *.
    - exists g. reflexivity.
    - inversion H as [|o os Ho Hos]; subst.
      destruct (non_interference f c s s g g t Ho) as [_ [_ [Ht _]]]. rewrite Ht in Hos |- *.
      destruct (IH rest _ t Hos) as [g0 E]. exists g0. rewrite E. reflexivity.
  Qed.

  Lemma process_length jobs : forall g t, length (process jobs g t) = length jobs.
  Proof. induction jobs as [|[[f c] s] jobs IH]; intros g t; cbn [Rng.process length]; [reflexivity | rewrite IH; reflexivity]. Qed.

  Theorem fresh_per_run before after fuel cfg s g t o s' g' :
    Forall (fun o => touches o = O) (process before g t) ->
    nth_error (process (before ++ (fuel, cfg, s) :: after) g t) (length before) = Some o ->
    touches o = O ->
    observable (run fuel cfg s' g' t) = observable o.
  Proof.
    intros Hb Hn Ht. destruct (process_app before ((fuel, cfg, s) :: after) g t Hb) as [g0 E]. rewrite E in Hn.
    rewrite nth_error_app2 in Hn by (rewrite process_length; lia).
    rewrite process_length, Nat.sub_diag in Hn. cbn [Rng.process nth_error] in Hn. injection Hn as <-.
    apply (non_interference fuel cfg s s' g0 g' t Ht).
  Qed.

  (* SEED MATTERS (partial: the injectivity premises are properties of NumPy's default_rng and of
     the distributions, checked on the implementation, not proved). *)
  Theorem seed_matters (seed : Cfg -> Z) cfg1 cfg2 g t :
    (forall c1 c2, seed c1 <> seed c2 -> seed_of_config c1 <> seed_of_config c2) ->
    (forall l1 l2 g1 g2 t1 t2 g1' g2' t1' t2' l1' l2' u1 u2 k1 k2, l1 <> l2 ->
        exec (init cfg1) g1 t1 l1 = (g1', t1', l1', u1, k1) ->
        exec (init cfg2) g2 t2 l2 = (g2', t2', l2', u2, k2) -> l1' <> l2') ->
    (forall l1 l2 a1 a2 g1 g2 t1 t2 g1' g2' t1' t2' l1' l2' k1 k2, l1 <> l2 ->
        exec (sampler cfg1) g1 t1 l1 = (g1', t1', l1', a1, k1) ->
        exec (sampler cfg2) g2 t2 l2 = (g2', t2', l2', a2, k2) -> a1 <> a2) ->
    seed cfg1 <> seed cfg2 ->
    first_sample G T L V drawG drawL Cfg Smp seed_of_config init sampler cfg1 g t <>
    first_sample G T L V drawG drawL Cfg Smp seed_of_config init sampler cfg2 g t.
  Proof.
    intros Hs Hi0 Hi Hne. unfold first_sample.
    destruct (exec (init cfg1) g t (seed_of_config cfg1)) as [[[[g1 t1] l1] u1] k1] eqn:I1.
    destruct (exec (init cfg2) g t (seed_of_config cfg2)) as [[[[g2 t2] l2] u2] k2] eqn:I2.
    destruct (exec (sampler cfg1) g1 t1 l1) as [[[[g1' t1'] l1'] a1] n1] eqn:E1.
    destruct (exec (sampler cfg2) g2 t2 l2) as [[[[g2' t2'] l2'] a2] n2] eqn:E2.
    refine (Hi _ _ _ _ _ _ _ _ _ _ _ _ _ _ _ _ _ E1 E2).
    exact (Hi0 _ _ _ _ _ _ _ _ _ _ _ _ _ _ _ _ (Hs _ _ Hne) I1 I2).
  Qed.
End Machine.

(* ---- the premise is necessary (1): a sampler that draws from the global generator interferes -------- *)
Definition bad_script : script := {| s_calls := [(true, 5%Z, 7%Z)]; s_exit := 0%Z |}.
Definition bad_run (g : Z) : outcome Z Z Z Z :=
  run Z Z (list Z) Z r_drawG r_drawL script Z Z Z Z r_seed r_init (fun _ => Global (fun v => Ret v)) r_request
      (fun rq => rq) r_decide r_exit 2 bad_script [] g 0%Z.

Lemma global_sampler_interferes :
  o_trace _ _ _ _ (bad_run 1%Z) <> o_trace _ _ _ _ (bad_run 2%Z) /\ o_touches _ _ _ _ (bad_run 1%Z) = 1.
Proof. split; [vm_compute; discriminate | vm_compute; reflexivity]. Qed.

(* ---- the premise is necessary (2): a run that WRITES the tables is seen by the next run ---------------
   (a module-level default dictionary updated in place, a generator cached on the configuration object, a
   class attribute set by __init__): the start-up bumps a counter in T, the sampler's output depends on it.
   Two runs of ONE configuration in one process then differ, and the writes are counted. *)
Definition leaky_process (g t : Z) : list (outcome Z Z Z Z) :=
  process Z Z (list Z) Z r_drawG r_drawL script Z Z Z Z r_seed
          (fun _ => Write Z.succ (Ret tt)) (fun _ => Read (fun t => Local (fun v => Ret (v + t)%Z))) r_request
          (fun rq => rq) r_decide r_exit [(2, bad_script, []); (2, bad_script, [])] g t.

Lemma table_writer_interferes :
  map (o_trace _ _ _ _) (leaky_process 0%Z 0%Z) = [[(6, 6)]; [(7, 7)]]%Z /\
  map (o_touches _ _ _ _) (leaky_process 0%Z 0%Z) = [1; 1] /\
  map (o_table _ _ _ _) (leaky_process 0%Z 0%Z) = [1; 2]%Z.
Proof. repeat split; vm_compute; reflexivity. Qed.

(* ---- the replay instance reproduces its script under every schedule ------------------------------- *)
Lemma replay_touches c s g t : o_touches _ _ _ _ (replay c s g t) = O ->
  forall s' g', (o_trace _ _ _ _ (replay c s' g' t), o_exit _ _ _ _ (replay c s' g' t), o_complete _ _ _ _ (replay c s' g' t))
              = (o_trace _ _ _ _ (replay c s g t), o_exit _ _ _ _ (replay c s g t), o_complete _ _ _ _ (replay c s g t)).
Proof.
  intros H s' g'. unfold replay in *.
  exact (proj1 (non_interference Z Z (list Z) Z r_drawG r_drawL script Z Z Z Z r_seed r_init r_sampler r_request
                 (r_lookup (s_calls c)) r_decide r_exit (S (length (s_calls c))) c s s' g g' t H)).
Qed.
