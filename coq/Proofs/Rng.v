(* Proofs/Rng.v -- lemmas about Model/Rng.v (property C16). *)
From Coq Require Import List ZArith Bool Arith Lia.
From Ropt Require Import Model.Rng.
Import ListNotations.

Section Machine.
  Variables G L V : Type.
  Variable drawG : G -> G * V.
  Variable drawL : L -> L * V.

  Notation exec := (@exec G L V drawG drawL).

  (* a sampling program that did not touch the global generator neither read nor wrote it *)
  Lemma exec_local A (p : prog G V A) : forall g1 l g' l' a,
    exec p g1 l = (g', l', a, O) -> g' = g1 /\ forall g2, exec p g2 l = (g2, l', a, O).
  Proof.
    induction p as [a0 | k IH | k IH | s p IH]; intros g1 l g' l' a H; cbn [Rng.exec] in *.
    - injection H as <- <- <-. split; [reflexivity | intros g2; reflexivity].
    - destruct (drawL l) as [l1 v]. destruct (IH v g1 l1 g' l' a H) as [E F]. split; [exact E|].
      intros g2. apply F.
    - destruct (drawG g1) as [g1' v]. destruct (exec (k v) g1' l) as [[[g'' l''] a''] t]. discriminate.
    - destruct (exec p s l) as [[[g'' l''] a''] t]. discriminate.
  Qed.

  Variables Cfg X Req Res Smp : Type.
  Variable seed_of_config : Cfg -> L.
  Variable sampler : Cfg -> prog G V Smp.
  Variable request : Cfg -> X -> option Smp -> Req.
  Variable evaluator : Req -> Res.
  Variable decide : Cfg -> list (Req * Res) -> option (bool * X).
  Variable exit_code : Cfg -> list (Req * Res) -> Z.

  Notation run_from := (@run_from G L V drawG drawL Cfg X Req Res Smp sampler request evaluator decide exit_code).
  Notation run := (@run G L V drawG drawL Cfg X Req Res Smp seed_of_config sampler request evaluator decide exit_code).
  Notation process := (@process G L V drawG drawL Cfg X Req Res Smp seed_of_config sampler request evaluator decide exit_code).
  Notation outcome := (outcome G Req Res).

  (* the touch counter only grows *)
  Lemma run_from_touches_ge fuel : forall cfg s g l hist t,
    t <= o_touches _ _ _ (run_from fuel cfg s g l hist t).
  Proof.
    induction fuel as [|n IH]; intros cfg s g l hist t; cbn [Rng.run_from].
    - destruct (decide cfg hist) as [[p x]|]; cbn; lia.
    - destruct (decide cfg hist) as [[p x]|]; [|cbn; lia].
      destruct (pop G s) as [b1 s1]. destruct p.
      + destruct (exec (sampler cfg) (apply_foreign G b1 g) l) as [[[g' l'] a] t'].
        destruct (pop G s1) as [b2 s2]. etransitivity; [|apply IH]. lia.
      + destruct (pop G s1) as [b2 s2]. etransitivity; [|apply IH]. lia.
  Qed.

  (* observable part of an outcome *)
  Definition observable (o : outcome) := (o_trace _ _ _ o, o_exit _ _ _ o, o_complete _ _ _ o).

  (* NON-INTERFERENCE.  If a run did not itself touch the global generator, then under ANY other
     schedule of foreign operations and ANY other initial global state it makes exactly the same
     requests, gets the same results and the same exit code (and again touches nothing). *)
  Lemma run_from_ni fuel : forall cfg s1 s2 g1 g2 l hist t,
    o_touches _ _ _ (run_from fuel cfg s1 g1 l hist t) = t ->
    observable (run_from fuel cfg s2 g2 l hist t) = observable (run_from fuel cfg s1 g1 l hist t) /\
    o_touches _ _ _ (run_from fuel cfg s2 g2 l hist t) = t.
  Proof.
    induction fuel as [|n IH]; intros cfg s1 s2 g1 g2 l hist t H; cbn [Rng.run_from] in *.
    - destruct (decide cfg hist) as [[p x]|]; split; reflexivity.
    - destruct (decide cfg hist) as [[p x]|]; [|split; reflexivity].
      destruct (pop G s1) as [b1 r1]. destruct (pop G s2) as [c1 q1]. destruct p.
      + destruct (exec (sampler cfg) (apply_foreign G b1 g1) l) as [[[g' l'] a] t'] eqn:E1.
        destruct (pop G r1) as [b2 r2]. destruct (pop G q1) as [c2 q2].
        assert (t' = O) as ->.
        { pose proof (run_from_touches_ge n cfg r2 (apply_foreign G b2 g') l'
                        (hist ++ [(request cfg x (Some a), evaluator (request cfg x (Some a)))]) (t + t')) as M.
          rewrite H in M. lia. }
        destruct (exec_local Smp (sampler cfg) _ _ _ _ _ E1) as [_ F].
        rewrite (F (apply_foreign G c1 g2)). rewrite Nat.add_0_r in *. apply IH. exact H.
      + destruct (pop G r1) as [b2 r2]. destruct (pop G q1) as [c2 q2].
        rewrite Nat.add_0_r in *. apply IH. exact H.
  Qed.

  Theorem non_interference fuel cfg s1 s2 g1 g2 :
    o_touches _ _ _ (run fuel cfg s1 g1) = O ->
    observable (run fuel cfg s2 g2) = observable (run fuel cfg s1 g1) /\ o_touches _ _ _ (run fuel cfg s2 g2) = O.
  Proof. unfold Rng.run. apply run_from_ni. Qed.

  (* FRESH PER RUN.  The k-th run of a process -- whatever ran before it, whatever those runs did to
     the global generator -- is observably the run of the same configuration alone in a fresh
     process, provided it does not itself touch the global generator. *)
  Lemma process_nth before : forall fuel cfg s after g,
    exists g', nth_error (process (before ++ (fuel, cfg, s) :: after) g) (length before) = Some (run fuel cfg s g').
  Proof.
    induction before as [|[[f0 c0] s0] before IH]; intros fuel cfg s after g.
    - exists g. reflexivity.
    - cbn [app Rng.process length nth_error]. apply IH.
  Qed.

  Theorem fresh_per_run before after fuel cfg s g o s' g' :
    nth_error (process (before ++ (fuel, cfg, s) :: after) g) (length before) = Some o ->
    o_touches _ _ _ o = O ->
    observable (run fuel cfg s' g') = observable o.
  Proof.
    intros Hn Ht. destruct (process_nth before fuel cfg s after g) as [g0 E]. rewrite E in Hn.
    injection Hn as <-. apply (non_interference fuel cfg s s' g0 g' Ht).
  Qed.

  (* SEED MATTERS (partial: the injectivity premises are properties of NumPy's default_rng and of
     the distributions, checked on the implementation, not proved). *)
  Theorem seed_matters (seed : Cfg -> Z) cfg1 cfg2 g :
    (forall c1 c2, seed c1 <> seed c2 -> seed_of_config c1 <> seed_of_config c2) ->
    (forall l1 l2 a1 a2 g1 g2 g1' g2' l1' l2' t1 t2, l1 <> l2 ->
        exec (sampler cfg1) g1 l1 = (g1', l1', a1, t1) ->
        exec (sampler cfg2) g2 l2 = (g2', l2', a2, t2) -> a1 <> a2) ->
    seed cfg1 <> seed cfg2 ->
    first_sample G L V drawG drawL Cfg Smp seed_of_config sampler cfg1 g <>
    first_sample G L V drawG drawL Cfg Smp seed_of_config sampler cfg2 g.
  Proof.
    intros Hs Hi Hne. unfold first_sample.
    destruct (exec (sampler cfg1) g (seed_of_config cfg1)) as [[[g1' l1'] a1] t1] eqn:E1.
    destruct (exec (sampler cfg2) g (seed_of_config cfg2)) as [[[g2' l2'] a2] t2] eqn:E2.
    exact (Hi _ _ _ _ _ _ _ _ _ _ _ _ (Hs _ _ Hne) E1 E2).
  Qed.
End Machine.

(* ---- the premise is necessary: a sampler that draws from the global generator interferes ---------- *)
Definition bad_script : script := {| s_calls := [(true, 5%Z, 7%Z)]; s_exit := 0%Z |}.
Definition bad_run (g : Z) : outcome Z Z Z :=
  run Z (list Z) Z r_drawG r_drawL script Z Z Z Z r_seed (fun _ => Global (fun v => Ret v)) r_request
      (fun rq => rq) r_decide r_exit 2 bad_script [] g.

Lemma global_sampler_interferes :
  o_trace _ _ _ (bad_run 1%Z) <> o_trace _ _ _ (bad_run 2%Z) /\ o_touches _ _ _ (bad_run 1%Z) = 1.
Proof. split; [vm_compute; discriminate | vm_compute; reflexivity]. Qed.

(* ---- the replay instance reproduces its script under every schedule ------------------------------- *)
Lemma replay_touches c s g : o_touches _ _ _ (replay c s g) = O ->
  forall s' g', (o_trace _ _ _ (replay c s' g'), o_exit _ _ _ (replay c s' g'), o_complete _ _ _ (replay c s' g'))
              = (o_trace _ _ _ (replay c s g), o_exit _ _ _ (replay c s g), o_complete _ _ _ (replay c s g)).
Proof.
  intros H s' g'. unfold replay in *.
  exact (proj1 (non_interference Z (list Z) Z r_drawG r_drawL script Z Z Z Z r_seed r_sampler r_request
                 (r_lookup (s_calls c)) r_decide r_exit (S (length (s_calls c))) c s s' g g' H)).
Qed.
