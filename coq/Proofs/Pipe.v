(* Proofs/Pipe.v -- lemmas about Model/Pipe.v (C20). *)
From Coq Require Import List Bool Arith ZArith String Lia.
From Ropt Require Import Base.ListX Model.Pipe.
Import ListNotations.
Local Open Scope string_scope.
Local Open Scope list_scope.

(* ---------------------------------------------------------------------------------------------- *)
(* 1. the channel is lossless                                                                      *)
(* ---------------------------------------------------------------------------------------------- *)
Lemma dec_items_enc (l : list fl) : dec_items (map JNum l) = Some l.
Proof. induction l as [|z l IH]; cbn; [reflexivity | rewrite IH; reflexivity]. Qed.

Lemma dec_vec_enc (l : list fl) : dec_vec (enc_vec l) = Some l.
Proof. unfold dec_vec, enc_vec. apply dec_items_enc. Qed.

Lemma dec_rows_enc (m : list (list fl)) : dec_rows (map enc_vec m) = Some m.
Proof.
  induction m as [|r m IH]; cbn; [reflexivity|].
  rewrite dec_items_enc, IH. reflexivity.
Qed.

Lemma dec_tensor_enc (t : tensor) : wf_tensor t = true -> dec_tensor (enc_tensor t) = Some t.
Proof.
  destruct t as [l | m]; intros W.
  - cbn. rewrite dec_items_enc. reflexivity.
  - destruct m as [|r m]; [discriminate W|].
    cbn. rewrite dec_items_enc, dec_rows_enc. reflexivity.
Qed.

Lemma lossless_request (r : request) : wf_request r = true -> dec_request (enc_request r) = Some r.
Proof.
  destruct r as [| | v rf rg | m]; intros W; try reflexivity.
  cbn in W. cbn. rewrite (dec_tensor_enc v W). reflexivity.
Qed.

Lemma lossless_answer (r : request) (a : answer) :
  fits r a = true -> wf_answer a = true -> dec_answer r (enc_answer a) = Some a.
Proof.
  destruct r as [| | v rf rg | m], a as [c | x | f g |]; cbn; intros F W; try discriminate F; try reflexivity.
  - rewrite dec_items_enc. reflexivity.
  - apply andb_prop in W as [Wf Wg]. rewrite (dec_tensor_enc f Wf), (dec_tensor_enc g Wg). reflexivity.
Qed.

(* ---------------------------------------------------------------------------------------------- *)
(* 2. the protocol: one pass of the parent loop, simulation of the in-process run, schedules,      *)
(*    no orphan, what a normal return means, termination                                           *)
(* ---------------------------------------------------------------------------------------------- *)
Definition mkp a e tr w := {| p_answer := a; p_exn := e; p_trace := tr; p_wire := w |}.
Definition mkx v rf rg res eff := {| x_v := v; x_rf := rf; x_rg := rg; x_res := res; x_eff := eff |}.

Section Protocol.
Variables (ev : evaluator) (s : strategy) (cfg : jv) (x0 : list fl).
Hypothesis s_wf : forall hist, wf_action (s cfg x0 hist) = true.
Hypothesis ev_wf : forall i v rf rg, wf_evres (fst (ev i v rf rg)) = true.

Definition opt_state flt hist sent tr w : sys :=
  let (c, out) := child_optimize flt s cfg x0 hist sent in
  {| s_par := mkp None None tr w; s_child := c; s_c2p := out |}.

Lemma iter_eval flt hist sent tr w v rf rg :
  wf_tensor v = true -> dead_waiting flt sent = None ->
  iter ev s flt cfg x0 (Tick true true)
       {| s_par := mkp None None tr w; s_child := CWaiting (POpt cfg x0 hist) (REval v rf rg) sent;
          s_c2p := Some (enc_request (REval v rf rg)) |} =
  let (res, eff) := ev (List.length tr) v rf rg in
  let tr1 := tr ++ [mkx v rf rg res eff] in
  let w1 := w ++ [WR (enc_request (REval v rf rg))] in
  match res with
  | EvOk f g => Continue (opt_state flt (hist ++ [(f, g)]) sent tr1 (w1 ++ [WW (enc_answer (AResult f g))]))
  | EvAbort c => Done (Raise (ExAbort c))
                   {| s_par := mkp None (Some (ExAbort c)) tr1 (w1 ++ [WW (enc_answer AAbort)]);
                      s_child := CKilled sigterm; s_c2p := None |}
  | EvRaise cls => Done (Raise (ExUser cls))
                   {| s_par := mkp None (Some (ExUser cls)) tr1 (w1 ++ [WW (enc_answer AAbort)]);
                      s_child := CKilled sigterm; s_c2p := None |}
  end.
Proof.
  intros W DW.
  unfold iter, read_part, write_part, handle. cbn [s_child running s_par p_answer mkp s_c2p p_exn p_trace p_wire].
  rewrite (lossless_request (REval v rf rg) W).
  pose proof (ev_wf (List.length tr) v rf rg) as EW.
  destruct (ev (List.length tr) v rf rg) as [res eff]. cbn [fst] in EW.
  destruct res as [f g | c | cls]; cbn [p_answer p_exn p_trace p_wire s_par s_child s_c2p terminate pipe_broken];
    rewrite DW; cbn [p_answer p_exn p_trace p_wire s_par s_child s_c2p terminate].
  - unfold child_recv. rewrite (lossless_answer (REval v rf rg) (AResult f g) eq_refl EW).
    unfold opt_state, mkp, mkx. destruct (child_optimize flt s cfg x0 (hist ++ [(f, g)]) sent) as [c out]. reflexivity.
  - reflexivity.
  - reflexivity.
Qed.

Lemma iter_error flt sent tr w m :
  dead_waiting flt sent = None ->
  iter ev s flt cfg x0 (Tick true true)
       {| s_par := mkp None None tr w; s_child := CWaiting PError (RError m) sent;
          s_c2p := Some (enc_request (RError m)) |} =
  Done (Raise (ExOptimizer m))
       {| s_par := mkp None (Some (ExOptimizer m)) tr
                       ((w ++ [WR (enc_request (RError m))]) ++ [WW (enc_answer AAbort)]);
          s_child := CKilled sigterm; s_c2p := None |}.
Proof.
  intros DW. unfold iter, read_part, write_part, handle.
  cbn [s_child running s_par p_answer mkp s_c2p p_exn p_trace p_wire].
  rewrite (lossless_request (RError m) eq_refl).
  cbn [p_answer p_exn p_trace p_wire s_par s_child s_c2p pipe_broken]. rewrite DW. reflexivity.
Qed.

Lemma iter_config flt sent tr w :
  dead_waiting flt sent = None ->
  iter ev s flt cfg x0 (Tick true true)
       {| s_par := mkp None None tr w; s_child := CWaiting PConfig RConfig sent;
          s_c2p := Some (enc_request RConfig) |} =
  let (c, out) := child_send flt (PInitial cfg) RInitial sent in
  Continue {| s_par := mkp None None tr ((w ++ [WR (enc_request RConfig)]) ++ [WW (enc_answer (AConfig cfg))]);
              s_child := c; s_c2p := out |}.
Proof.
  intros DW. unfold iter, read_part, write_part, handle.
  cbn [s_child running s_par p_answer mkp s_c2p p_exn p_trace p_wire].
  rewrite (lossless_request RConfig eq_refl).
  cbn [p_answer p_exn p_trace p_wire s_par s_child s_c2p pipe_broken]. rewrite DW.
  cbn [p_answer p_exn p_trace p_wire s_par s_child s_c2p].
  unfold child_recv. rewrite (lossless_answer RConfig (AConfig cfg) eq_refl eq_refl).
  destruct (child_send flt (PInitial cfg) RInitial sent) as [c out]. reflexivity.
Qed.

Lemma iter_initial flt sent tr w :
  dead_waiting flt sent = None ->
  iter ev s flt cfg x0 (Tick true true)
       {| s_par := mkp None None tr w; s_child := CWaiting (PInitial cfg) RInitial sent;
          s_c2p := Some (enc_request RInitial) |} =
  Continue (opt_state flt [] sent tr ((w ++ [WR (enc_request RInitial)]) ++ [WW (enc_answer (AInitial x0))])).
Proof.
  intros DW. unfold iter, read_part, write_part, handle.
  cbn [s_child running s_par p_answer mkp s_c2p p_exn p_trace p_wire].
  rewrite (lossless_request RInitial eq_refl).
  cbn [p_answer p_exn p_trace p_wire s_par s_child s_c2p pipe_broken]. rewrite DW.
  cbn [p_answer p_exn p_trace p_wire s_par s_child s_c2p].
  unfold child_recv. rewrite (lossless_answer RInitial (AInitial x0) eq_refl eq_refl).
  unfold opt_state. destruct (child_optimize flt s cfg x0 [] sent) as [c out]. reflexivity.
Qed.

(* the child was killed while it waited for the answer to the request the parent reads in this pass: the
   request is handled (a callback is made for an evaluation request), then the write fails *)
Lemma iter_waiting_dead flt ph req sent sg tr w :
  wf_request req = true -> dead_waiting flt sent = Some sg ->
  exists p', (iter ev s flt cfg x0 (Tick true true)
       {| s_par := mkp None None tr w; s_child := CWaiting ph req sent; s_c2p := Some (enc_request req) |} =
     Done (Raise ExPipe) {| s_par := p'; s_child := CKilled sg; s_c2p := None |}) /\
     (p' = handle ev cfg x0 (mkp None None tr w) (enc_request req)) /\
     (p_trace p' = tr \/
      exists v rf rg, req = REval v rf rg /\
        p_trace p' = tr ++ [mkx v rf rg (fst (ev (List.length tr) v rf rg)) (snd (ev (List.length tr) v rf rg))]).
Proof.
  intros W DW. eexists. split; [|split; [reflexivity|]].
  - unfold iter, read_part, write_part. cbn [s_child running s_par p_answer mkp s_c2p].
    assert (A : exists a, p_answer (handle ev cfg x0 (mkp None None tr w) (enc_request req)) = Some a).
    { unfold handle. rewrite (lossless_request req W). destruct req as [| | v rf rg | m]; cbn [mkp p_answer p_exn p_trace p_wire].
      - eexists; reflexivity.
      - eexists; reflexivity.
      - destruct (ev (List.length tr) v rf rg) as [res eff]. destruct res; eexists; reflexivity.
      - eexists; reflexivity. }
    destruct A as [a A]. rewrite A. cbn [s_child pipe_broken]. rewrite DW. reflexivity.
  - unfold handle. rewrite (lossless_request req W). destruct req as [| | v rf rg | m]; cbn [mkp p_answer p_exn p_trace p_wire].
    + left; reflexivity.
    + left; reflexivity.
    + right. exists v, rf, rg. split; [reflexivity|].
      destruct (ev (List.length tr) v rf rg) as [res eff]. destruct res; reflexivity.
    + left; reflexivity.
Qed.

Lemma iter_dead flt t st :
  running (s_child st) = false -> returncode (s_child st) <> 0%Z ->
  iter ev s flt cfg x0 t st = Done (Raise (ExDeath (returncode (s_child st)))) st.
Proof.
  intros R C. unfold iter. rewrite R.
  destruct (Z.eqb_spec (returncode (s_child st)) 0) as [E | _]; [contradiction | reflexivity].
Qed.

Lemma iter_exit0 flt t st : s_child st = CExited 0 -> iter ev s flt cfg x0 t st = Done Return st.
Proof. intros E. unfold iter. rewrite E. reflexivity. Qed.

Definition abnormal (flt : fault) : Prop := match flt with ExitAfter _ c => c <> 0%Z | _ => True end.

Lemma child_send_cases flt ph req sent : abnormal flt ->
  child_send flt ph req sent = (CWaiting ph req (S sent), Some (enc_request req)) \/
  exists c, child_send flt ph req sent = (c, None) /\ running c = false /\ returncode c <> 0%Z.
Proof.
  intros A. unfold child_send. destruct flt as [| k sg | k sg | k sg | k code]; cbn [dies_now].
  - left; reflexivity.
  - destruct (Nat.leb k sent); [right | left; reflexivity].
    exists (CKilled sg). repeat split. discriminate.
  - destruct (Nat.leb k sent); [right | left; reflexivity].
    exists (CKilled sg). repeat split. discriminate.
  - left; reflexivity.
  - destruct (Nat.leb k sent); [right | left; reflexivity].
    exists (CExited code). repeat split. exact A.
Qed.

Lemma child_return_cases flt sent :
  dies_at_return flt sent = None \/ exists sg, dies_at_return flt sent = Some (CKilled sg).
Proof.
  destruct flt as [| k sg | k sg | k sg | k code]; cbn; try (left; reflexivity).
  destruct (Nat.leb k sent); [right; exists sg; reflexivity | left; reflexivity].
Qed.

Lemma inproc_extends fuel : forall hist tr r tr',
  inproc fuel ev (s cfg x0) hist tr = Some (r, tr') -> exists rest, tr' = tr ++ rest.
Proof.
  induction fuel as [|fuel IH]; intros hist tr r tr' H; [discriminate H|].
  cbn [inproc] in H. destruct (s cfg x0 hist) as [v rf rg | | m].
  - destruct (ev (List.length tr) v rf rg) as [res eff]. destruct res as [f g | c | cls].
    + apply IH in H as [rest ->]. rewrite <- app_assoc. eexists; reflexivity.
    + inversion H; subst. eexists; reflexivity.
    + inversion H; subst. eexists; reflexivity.
  - inversion H; subst. exists []. now rewrite app_nil_r.
  - inversion H; subst. exists []. now rewrite app_nil_r.
Qed.

(* the run ended because the child died: "terminated abnormally" with its non-zero return code, or the
   write of an answer into a FIFO nobody reads any more *)
Definition death (r : result) : Prop :=
  (exists c, c <> 0%Z /\ r = Raise (ExDeath c)) \/ r = Raise ExPipe.

Lemma run_dead flt n st :
  running (s_child st) = false -> returncode (s_child st) <> 0%Z ->
  run ev s flt cfg x0 (sync (S n)) st = Some (Raise (ExDeath (returncode (s_child st))), st).
Proof. intros R C. cbn [sync repeat run]. rewrite (iter_dead flt _ st R C). reflexivity. Qed.

(* after an Ask the in-process trace extends the trace that includes this callback *)
Lemma inproc_ask_extends fuel hist tr r tr' v rf rg :
  s cfg x0 hist = Ask v rf rg -> inproc (S fuel) ev (s cfg x0) hist tr = Some (r, tr') ->
  exists rest, tr' = (tr ++ [mkx v rf rg (fst (ev (List.length tr) v rf rg)) (snd (ev (List.length tr) v rf rg))]) ++ rest.
Proof.
  intros E H. cbn [inproc] in H. rewrite E in H.
  destruct (ev (List.length tr) v rf rg) as [res eff]. cbn [fst snd]. destruct res as [f g | c | cls].
  - apply inproc_extends in H. exact H.
  - inversion H; subst. exists []. now rewrite app_nil_r.
  - inversion H; subst. exists []. now rewrite app_nil_r.
Qed.

Lemma sync_opt flt : abnormal flt -> forall fuel hist tr sent w r tr',
  inproc fuel ev (s cfg x0) hist tr = Some (r, tr') ->
  exists r' st, run ev s flt cfg x0 (sync fuel) (opt_state flt hist sent tr w) = Some (r', st) /\
    ((r' = r /\ p_trace (s_par st) = tr') \/
     (death r' /\ exists rest, tr' = p_trace (s_par st) ++ rest)).
Proof.
  intros A. induction fuel as [|fuel IH]; intros hist tr sent w r tr' H; [discriminate H|].
  pose proof (inproc_extends _ _ _ _ _ H) as EXT.
  pose proof (fun v rf rg E => inproc_ask_extends fuel hist tr r tr' v rf rg E H) as EXA.
  cbn [inproc] in H. unfold opt_state, child_optimize.
  pose proof (s_wf hist) as SW.
  destruct (s cfg x0 hist) as [v rf rg | | m].
  - destruct (child_send_cases flt (POpt cfg x0 hist) (REval v rf rg) sent A) as [E | (c & E & R & C)]; rewrite E.
    + destruct (dead_waiting flt (S sent)) as [sg|] eqn:DW.
      * destruct (iter_waiting_dead flt (POpt cfg x0 hist) (REval v rf rg) (S sent) sg tr w SW DW) as (p' & IT & _ & T).
        cbn [sync repeat run]. rewrite IT.
        do 2 eexists. split; [reflexivity|]. right. split; [right; reflexivity|]. cbn [s_par].
        destruct T as [T | (v' & rf' & rg' & EQ & T)]; rewrite T.
        -- exact EXT.
        -- inversion EQ; subst v' rf' rg'. apply (EXA v rf rg eq_refl).
      * cbn [sync repeat run]. rewrite (iter_eval flt hist (S sent) tr w v rf rg SW DW).
        destruct (ev (List.length tr) v rf rg) as [res eff]. destruct res as [f g | c | cls].
        -- apply IH. exact H.
        -- inversion H; subst. do 2 eexists. split; [reflexivity|]. left. split; reflexivity.
        -- inversion H; subst. do 2 eexists. split; [reflexivity|]. left. split; reflexivity.
    + rewrite run_dead by assumption. do 2 eexists. split; [reflexivity|]. right. split.
      * left. exists (returncode c). split; [exact C | reflexivity].
      * exact EXT.
  - inversion H; subst. destruct (child_return_cases flt sent) as [E | [sg E]]; rewrite E.
    + cbn [sync repeat run]. rewrite iter_exit0 by reflexivity.
      do 2 eexists. split; [reflexivity|]. left. split; reflexivity.
    + rewrite run_dead by (reflexivity || discriminate). do 2 eexists. split; [reflexivity|]. right. split.
      * left. exists (Zneg sg). split; [discriminate | reflexivity].
      * exists []. now rewrite app_nil_r.
  - inversion H; subst.
    destruct (child_send_cases flt PError (RError m) sent A) as [E | (c & E & R & C)]; rewrite E.
    + destruct (dead_waiting flt (S sent)) as [sg|] eqn:DW.
      * destruct (iter_waiting_dead flt PError (RError m) (S sent) sg tr' w eq_refl DW) as (p' & IT & _ & T).
        cbn [sync repeat run]. rewrite IT.
        do 2 eexists. split; [reflexivity|]. right. split; [right; reflexivity|]. cbn [s_par].
        destruct T as [T | (v' & rf' & rg' & EQ & T)]; [|discriminate EQ]. rewrite T. exists []. now rewrite app_nil_r.
      * cbn [sync repeat run]. rewrite (iter_error _ _ _ _ _ DW).
        do 2 eexists. split; [reflexivity|]. left. split; reflexivity.
    + rewrite run_dead by assumption. do 2 eexists. split; [reflexivity|]. right. split.
      * left. exists (returncode c). split; [exact C | reflexivity].
      * exists []. now rewrite app_nil_r.
Qed.

Lemma sync_two n : sync (n + 2) = Tick true true :: Tick true true :: sync n.
Proof. rewrite Nat.add_comm. reflexivity. Qed.

Lemma ext_run_fault flt : abnormal flt -> forall fuel r tr,
  inproc fuel ev (s cfg x0) [] [] = Some (r, tr) ->
  exists r' st, ext_run ev s flt cfg x0 (sync (fuel + 2)) = Some (r', st) /\
    ((r' = r /\ p_trace (s_par st) = tr) \/
     (death r' /\ exists rest, tr = p_trace (s_par st) ++ rest)).
Proof.
  intros A fuel r tr H. unfold ext_run, init. rewrite sync_two.
  destruct (child_send_cases flt PConfig RConfig 0 A) as [E | (c & E & R & C)]; rewrite E.
  - destruct (dead_waiting flt 1) as [sg|] eqn:DW1.
    { destruct (iter_waiting_dead flt PConfig RConfig 1 sg [] [] eq_refl DW1) as (p' & IT & _ & T).
      cbn [run]. unfold mkp in IT. rewrite IT.
      do 2 eexists. split; [reflexivity|]. right. split; [right; reflexivity|]. cbn [s_par].
      destruct T as [T | (v' & rf' & rg' & EQ & T)]; [|discriminate EQ]. rewrite T. exists tr. reflexivity. }
    cbn [run]. pose proof (iter_config flt 1 [] [] DW1) as IC. unfold mkp in IC. rewrite IC. clear IC.
    destruct (child_send_cases flt (PInitial cfg) RInitial 1 A) as [E2 | (c & E2 & R & C)]; rewrite E2.
    + destruct (dead_waiting flt 2) as [sg|] eqn:DW2.
      { destruct (iter_waiting_dead flt (PInitial cfg) RInitial 2 sg []
                    ([] ++ [WR (enc_request RConfig)] ++ [WW (enc_answer (AConfig cfg))]) eq_refl DW2) as (p' & IT & _ & T).
        assert (F : exists k, sync fuel = Tick true true :: sync k).
        { destruct fuel; [discriminate H | eexists; reflexivity]. }
        destruct F as [k ->]. cbn [run]. unfold mkp in IT. cbn [app] in IT |- *. rewrite IT.
        do 2 eexists. split; [reflexivity|]. right. split; [right; reflexivity|]. cbn [s_par].
        destruct T as [T | (v' & rf' & rg' & EQ & T)]; [|discriminate EQ]. rewrite T. exists tr. reflexivity. }
      cbn [run]. pose proof (iter_initial flt 2 [] ([] ++ [WR (enc_request RConfig)] ++ [WW (enc_answer (AConfig cfg))]) DW2) as II.
      unfold mkp in II. cbn [app] in II |- *. rewrite II. clear II. apply sync_opt; assumption.
    + assert (F : exists k, sync fuel = Tick true true :: sync k).
      { destruct fuel; [discriminate H | eexists; reflexivity]. }
      destruct F as [k ->]. cbn [run]. rewrite iter_dead by assumption.
      do 2 eexists. split; [reflexivity|]. right. split.
      * left. exists (returncode c). split; [exact C | reflexivity].
      * exists tr. reflexivity.
  - cbn [run]. rewrite iter_dead by assumption.
    do 2 eexists. split; [reflexivity|]. right. split.
    + left. exists (returncode c). split; [exact C | reflexivity].
    + exists tr. reflexivity.
Qed.

(* ---- no fault: exact agreement ---------------------------------------------------------------- *)
Lemma sync_opt_nofault : forall fuel hist tr sent w r tr',
  inproc fuel ev (s cfg x0) hist tr = Some (r, tr') ->
  exists st, run ev s NoFault cfg x0 (sync fuel) (opt_state NoFault hist sent tr w) = Some (r, st) /\
             p_trace (s_par st) = tr'.
Proof.
  induction fuel as [|fuel IH]; intros hist tr sent w r tr' H; [discriminate H|].
  cbn [inproc] in H. unfold opt_state, child_optimize.
  pose proof (s_wf hist) as SW.
  destruct (s cfg x0 hist) as [v rf rg | | m].
  - unfold child_send. cbn [dies_now sync repeat run]. rewrite (iter_eval NoFault hist (S sent) tr w v rf rg SW eq_refl).
    destruct (ev (List.length tr) v rf rg) as [res eff]. destruct res as [f g | c | cls].
    + apply IH. exact H.
    + inversion H; subst. eexists. split; reflexivity.
    + inversion H; subst. eexists. split; reflexivity.
  - inversion H; subst. cbn [dies_at_return sync repeat run]. rewrite iter_exit0 by reflexivity.
    eexists. split; reflexivity.
  - inversion H; subst. unfold child_send. cbn [dies_now sync repeat run]. rewrite (iter_error NoFault _ _ _ _ eq_refl).
    eexists. split; reflexivity.
Qed.

Lemma ext_run_nofault : forall fuel r tr,
  inproc fuel ev (s cfg x0) [] [] = Some (r, tr) ->
  exists st, ext_run ev s NoFault cfg x0 (sync (fuel + 2)) = Some (r, st) /\ p_trace (s_par st) = tr.
Proof.
  intros fuel r tr H. unfold ext_run, init. rewrite sync_two. unfold child_send at 1. cbn [dies_now run].
  pose proof (iter_config NoFault 1 [] [] eq_refl) as IC. unfold mkp in IC. rewrite IC. clear IC.
  unfold child_send at 1. cbn [dies_now run].
  pose proof (iter_initial NoFault 2 [] ([] ++ [WR (enc_request RConfig)] ++ [WW (enc_answer (AConfig cfg))]) eq_refl) as II.
  unfold mkp in II. cbn [app] in II |- *. rewrite II. clear II. apply sync_opt_nofault. exact H.
Qed.

(* ---- schedules: passes in which the FIFO is not readable / writable only delay ---------------- *)
Lemma read_part_false st : read_part ev cfg x0 false st = st.
Proof. unfold read_part. destruct (p_answer (s_par st)); reflexivity. Qed.

Lemma read_part_child r st : s_child (read_part ev cfg x0 r st) = s_child st.
Proof.
  unfold read_part. destruct (p_answer (s_par st)); [reflexivity|].
  destruct r; [|reflexivity]. destruct (s_c2p st); reflexivity.
Qed.

Lemma read_part_idem r st :
  read_part ev cfg x0 r (read_part ev cfg x0 true st) = read_part ev cfg x0 true st.
Proof.
  unfold read_part at 2 3. destruct (p_answer (s_par st)) eqn:A.
  - unfold read_part. rewrite A. reflexivity.
  - destruct (s_c2p st) eqn:C.
    + unfold read_part. cbn [s_par s_c2p s_child]. destruct (p_answer (handle ev cfg x0 (s_par st) j)); [reflexivity|].
      destruct r; reflexivity.
    + unfold read_part. rewrite A, C. destruct r; reflexivity.
Qed.

Lemma read_part_pending r st a : p_answer (s_par st) = Some a -> read_part ev cfg x0 r st = st.
Proof. intros A. unfold read_part. rewrite A. reflexivity. Qed.

Lemma iter_not_running flt t t' st :
  running (s_child st) = false -> iter ev s flt cfg x0 t st = iter ev s flt cfg x0 t' st.
Proof. intros R. unfold iter. rewrite R. reflexivity. Qed.

Lemma iter_running flt r w st :
  running (s_child st) = true ->
  iter ev s flt cfg x0 (Tick r w) st = write_part s flt w (read_part ev cfg x0 r st).
Proof. intros R. unfold iter. rewrite R. reflexivity. Qed.

Lemma enabled_le t sch : enabled (t :: sch) <= S (enabled sch).
Proof. destruct t as [[|] [|]]; cbn; lia. Qed.
Lemma enabled_nowrite r sch : enabled (Tick r false :: sch) = enabled sch.
Proof. destruct r; reflexivity. Qed.

Definition lag (st st2 : sys) : Prop :=
  st2 = st \/ (running (s_child st) = true /\ st2 = read_part ev cfg x0 true st).

Lemma sched_sync flt : forall sch n st st2 res,
  run ev s flt cfg x0 (sync n) st = Some res -> lag st st2 -> n <= enabled sch ->
  run ev s flt cfg x0 sch st2 = Some res.
Proof.
  induction sch as [|t sch IH]; intros n st st2 res H L N.
  - cbn in N. assert (n = 0) by lia. subst. discriminate H.
  - destruct n as [|n]; [discriminate H|].
    cbn [sync repeat run] in H. cbn [run].
    destruct (running (s_child st)) eqn:R.
    + assert (R2 : running (s_child st2) = true).
      { destruct L as [-> | [_ ->]]; [exact R | rewrite read_part_child; exact R]. }
      destruct t as [r w]. rewrite (iter_running flt r w st2 R2).
      rewrite (iter_running flt true true st R) in H.
      destruct w.
      * (* the write is attempted *)
        assert (C : read_part ev cfg x0 r st2 = read_part ev cfg x0 true st \/
                    (read_part ev cfg x0 r st2 = st /\ st2 = st /\ p_answer (s_par st) = None /\ r = false)).
        { destruct r.
          - left. destruct L as [-> | [_ ->]]; [reflexivity | apply read_part_idem].
          - rewrite read_part_false. destruct L as [-> | [_ ->]].
            + destruct (p_answer (s_par st)) eqn:A.
              * left. symmetry. apply (read_part_pending true st a A).
              * right. repeat split; reflexivity.
            + left. reflexivity. }
        destruct C as [-> | (-> & -> & A & ->)].
        -- destruct (write_part s flt true (read_part ev cfg x0 true st)) as [st' | r' st'].
           ++ apply (IH n st' st' res H); [left; reflexivity|]. pose proof (enabled_le (Tick r true) sch). lia.
           ++ exact H.
        -- unfold write_part at 1. rewrite A.
           apply (IH (S n) st st res).
           ++ cbn [sync repeat run]. rewrite (iter_running flt true true st R). exact H.
           ++ left; reflexivity.
           ++ cbn [enabled] in N. exact N.
      * (* nothing is written in this pass *)
        unfold write_part at 1.
        replace (match p_answer (s_par (read_part ev cfg x0 r st2)) with
                 | Some _ => Continue (read_part ev cfg x0 r st2)
                 | None => Continue (read_part ev cfg x0 r st2) end)
          with (Continue (read_part ev cfg x0 r st2))
          by (destruct (p_answer (s_par (read_part ev cfg x0 r st2))); reflexivity).
        apply (IH (S n) st (read_part ev cfg x0 r st2) res).
        -- cbn [sync repeat run]. rewrite (iter_running flt true true st R). exact H.
        -- destruct r.
           ++ right. split; [exact R|]. destruct L as [-> | [_ ->]]; [reflexivity | apply read_part_idem].
           ++ rewrite read_part_false. exact L.
        -- rewrite enabled_nowrite in N. exact N.
    + assert (st2 = st) as -> by (destruct L as [-> | [R' _]]; [reflexivity | congruence]).
      rewrite (iter_not_running flt t (Tick true true) st R). destruct (iter ev s flt cfg x0 (Tick true true) st) as [st' | r' st'].
      * apply (IH n st' st' res H); [left; reflexivity|]. pose proof (enabled_le t sch). lia.
      * exact H.
Qed.

(* ---- no orphan; what a normal return means ---------------------------------------------------- *)
Lemma terminate_not_running c : running (terminate c) = false.
Proof. destruct c; reflexivity. Qed.

Lemma write_part_done flt w st r st' :
  write_part s flt w st = Done r st' ->
  exists e, r = Raise e /\ running (s_child st') = false.
Proof.
  unfold write_part. destruct (p_answer (s_par st)) as [a|]; [|discriminate].
  destruct w; [|discriminate]. destruct (pipe_broken flt (s_child st)) as [sg|].
  { intros H; inversion H; subst. exists ExPipe. split; reflexivity. }
  destruct (p_exn (s_par st)) as [e|].
  - intros H; inversion H; subst. exists e. split; [reflexivity | apply terminate_not_running].
  - destruct (s_child st) as [ph req sent | c | sg]; try discriminate.
    destruct (child_recv flt s ph req sent (enc_answer a)); discriminate.
Qed.

Lemma iter_done flt t st r st' :
  iter ev s flt cfg x0 t st = Done r st' ->
  running (s_child st') = false /\
  (r = Return -> st' = st /\ s_child st = CExited 0).
Proof.
  unfold iter. destruct (running (s_child st)) eqn:R.
  - destruct t as [rd w]. intros H. apply write_part_done in H as (e & -> & NR).
    split; [exact NR | discriminate].
  - destruct (Z.eqb_spec (returncode (s_child st)) 0) as [E | NE]; intros H; inversion H; subst.
    + split; [exact R|]. intros _. split; [reflexivity|].
      destruct (s_child st') as [ph req sent | c | sg]; [discriminate R | cbn in E; subst; reflexivity | discriminate E].
    + split; [exact R | discriminate].
Qed.

Lemma no_orphan flt : forall sch st r st',
  run ev s flt cfg x0 sch st = Some (r, st') -> running (s_child st') = false.
Proof.
  induction sch as [|t sch IH]; intros st r st' H; [discriminate H|].
  cbn [run] in H. destruct (iter ev s flt cfg x0 t st) as [st1 | r1 st1] eqn:I.
  - apply (IH _ _ _ H).
  - inversion H; subst. apply (iter_done _ _ _ _ _ I).
Qed.

Lemma return_exit0 flt : forall sch st st',
  run ev s flt cfg x0 sch st = Some (Return, st') -> s_child st' = CExited 0.
Proof.
  induction sch as [|t sch IH]; intros st st' H; [discriminate H|].
  cbn [run] in H. destruct (iter ev s flt cfg x0 t st) as [st1 | r1 st1] eqn:I.
  - apply (IH _ _ H).
  - inversion H; subst. destruct (iter_done _ _ _ _ _ I) as [_ K]. destruct (K eq_refl) as [-> E]. exact E.
Qed.

(* an error report that was read is never followed by a normal return *)
Definition error_read (st : sys) : Prop :=
  exists j m, In (WR j) (p_wire (s_par st)) /\ dec_request j = Some (RError m).

Definition inv (st : sys) : Prop :=
  (p_exn (s_par st) = None -> ~ error_read st) /\
  (p_exn (s_par st) <> None -> p_answer (s_par st) <> None /\ running (s_child st) = true).

Lemma in_wire_snoc (w : list wev) (x e : wev) : In x (w ++ [e]) -> In x w \/ x = e.
Proof. intros H. apply in_app_or in H as [H | [H | []]]; [left; exact H | right; symmetry; exact H]. Qed.

Lemma inv_read r st : running (s_child st) = true -> inv st -> inv (read_part ev cfg x0 r st).
Proof.
  intros R I. pose proof I as [I1 I2]. unfold read_part. destruct (p_answer (s_par st)) eqn:A; [exact I|].
  destruct r; [|exact I]. destruct (s_c2p st) as [j|]; [|exact I].
  assert (E : p_exn (s_par st) = None).
  { destruct (p_exn (s_par st)) eqn:E; [|reflexivity]. destruct I2 as [K _]; [discriminate | contradiction]. }
  specialize (I1 E).
  assert (NE : forall j' m, In (WR j') (p_wire (s_par st) ++ [WR j]) -> dec_request j' = Some (RError m) ->
                            exists m', dec_request j = Some (RError m')).
  { intros j' m IN D. apply in_wire_snoc in IN as [IN | EQ].
    - exfalso. apply I1. exists j', m. split; assumption.
    - inversion EQ; subst. exists m. exact D. }
  unfold inv, error_read, handle; cbn [s_par s_child s_c2p p_answer p_exn p_trace p_wire].
  destruct (dec_request j) as [[| | v rf rg | m]|] eqn:D; cbn [s_par s_child s_c2p p_answer p_exn p_trace p_wire].
  - split; [|intros K; contradiction]. intros _ (j' & m & IN & D'). destruct (NE j' m IN D') as [m' K]. discriminate K.
  - split; [|intros K; contradiction]. intros _ (j' & m & IN & D'). destruct (NE j' m IN D') as [m' K]. discriminate K.
  - destruct (ev (List.length (p_trace (s_par st))) v rf rg) as [res eff].
    destruct res as [f g | c | cls]; cbn [s_par s_child s_c2p p_answer p_exn p_trace p_wire].
    + split; [|intros K; contradiction]. intros _ (j' & m & IN & D'). destruct (NE j' m IN D') as [m' K]. discriminate K.
    + split; [discriminate|]. intros _. split; [discriminate | exact R].
    + split; [discriminate|]. intros _. split; [discriminate | exact R].
  - split; [discriminate|]. intros _. split; [discriminate | exact R].
  - split; [|intros K; contradiction]. intros _ (j' & m & IN & D'). destruct (NE j' m IN D') as [m' K]. discriminate K.
Qed.

Lemma inv_write flt w st st' : inv st -> write_part s flt w st = Continue st' -> inv st'.
Proof.
  intros I. pose proof I as [I1 I2]. unfold write_part. destruct (p_answer (s_par st)) as [a|] eqn:A.
  2:{ intros H; inversion H; subst. exact I. }
  destruct w. 2:{ intros H; inversion H; subst. exact I. }
  destruct (pipe_broken flt (s_child st)) as [sg0|]; [discriminate|].
  destruct (p_exn (s_par st)) as [e|] eqn:E; [discriminate|].
  assert (K : forall st1, p_exn (s_par st1) = None -> p_wire (s_par st1) = p_wire (s_par st) ++ [WW (enc_answer a)] -> inv st1).
  { intros st1 E1 W1. split; [|intros C; contradiction].
    intros _ (j' & m & IN & D'). rewrite W1 in IN. apply in_wire_snoc in IN as [IN | EQ]; [|discriminate EQ].
    apply (I1 eq_refl). exists j', m. split; assumption. }
  destruct (s_child st) as [ph req sent | c | sg].
  - destruct (child_recv flt s ph req sent (enc_answer a)) as [c out]. intros H; inversion H; subst. apply K; reflexivity.
  - intros H; inversion H; subst. apply K; reflexivity.
  - intros H; inversion H; subst. apply K; reflexivity.
Qed.

Lemma inv_iter flt t st st' : inv st -> iter ev s flt cfg x0 t st = Continue st' -> inv st'.
Proof.
  intros I. unfold iter. destruct (running (s_child st)) eqn:R.
  - destruct t as [r w]. intros H. apply (inv_write flt w _ _ (inv_read r st R I) H).
  - destruct (Z.eqb (returncode (s_child st)) 0); discriminate.
Qed.

Lemma inv_init flt : inv (init flt).
Proof.
  unfold init. destruct (child_send flt PConfig RConfig 0) as [c out]. split; cbn.
  - intros _ (j & m & [] & _).
  - intros K; contradiction.
Qed.

Lemma return_no_error flt : forall sch st st',
  inv st -> run ev s flt cfg x0 sch st = Some (Return, st') -> ~ error_read st'.
Proof.
  induction sch as [|t sch IH]; intros st st' I H; [discriminate H|].
  cbn [run] in H. destruct (iter ev s flt cfg x0 t st) as [st1 | r1 st1] eqn:IT.
  - apply (IH st1 st' (inv_iter _ _ _ _ I IT) H).
  - inversion H; subst. destruct (iter_done _ _ _ _ _ IT) as [NR K]. destruct (K eq_refl) as [-> E].
    destruct I as [I1 I2]. apply I1. destruct (p_exn (s_par st)) eqn:X; [|reflexivity].
    destruct I2 as [_ R]; [discriminate|]. rewrite R in NR. discriminate NR.
Qed.

(* once the child is gone the loop is left in the very next pass, whatever the pipes do *)
Lemma poll_exit flt t st :
  running (s_child st) = false -> exists r, iter ev s flt cfg x0 t st = Done r st.
Proof.
  intros R. unfold iter. rewrite R. destruct (Z.eqb (returncode (s_child st)) 0); eexists; reflexivity.
Qed.

(* ---- converse: whatever a schedule produces, the synchronous schedule produces too ------------ *)
Lemma run_sync_mono flt : forall n st res,
  run ev s flt cfg x0 (sync n) st = Some res -> run ev s flt cfg x0 (sync (S n)) st = Some res.
Proof.
  induction n as [|n IH]; intros st res H; [discriminate H|].
  change (sync (S (S n))) with (Tick true true :: sync (S n)).
  cbn [sync repeat run] in H. cbn [run].
  destruct (iter ev s flt cfg x0 (Tick true true) st) as [st' | r' st']; [apply IH; exact H | exact H].
Qed.

Lemma run_sync_le flt n m st res :
  n <= m -> run ev s flt cfg x0 (sync n) st = Some res -> run ev s flt cfg x0 (sync m) st = Some res.
Proof. induction 1 as [|m L IH]; intros H; [exact H | apply run_sync_mono, IH, H]. Qed.

Lemma sync_sched flt : forall sch st st2 res,
  lag st st2 -> run ev s flt cfg x0 sch st2 = Some res ->
  run ev s flt cfg x0 (sync (List.length sch)) st = Some res.
Proof.
  induction sch as [|t sch IH]; intros st st2 res L H; [discriminate H|].
  cbn [run] in H. cbn [List.length]. change (sync (S (List.length sch))) with (Tick true true :: sync (List.length sch)).
  cbn [run].
  destruct (running (s_child st)) eqn:R.
  - assert (R2 : running (s_child st2) = true).
    { destruct L as [-> | [_ ->]]; [exact R | rewrite read_part_child; exact R]. }
    destruct t as [r w]. rewrite (iter_running flt r w st2 R2) in H.
    assert (STUT : forall st3, lag st st3 -> run ev s flt cfg x0 sch st3 = Some res ->
              match iter ev s flt cfg x0 (Tick true true) st with
              | Continue st' => run ev s flt cfg x0 (sync (List.length sch)) st'
              | Done r0 st' => Some (r0, st')
              end = Some res).
    { intros st3 L3 H3. pose proof (IH st st3 res L3 H3) as K.
      apply run_sync_mono in K. cbn [sync repeat run] in K. exact K. }
    rewrite (iter_running flt true true st R) in *.
    destruct w.
    + assert (C : read_part ev cfg x0 r st2 = read_part ev cfg x0 true st \/
                  (read_part ev cfg x0 r st2 = st /\ st2 = st /\ p_answer (s_par st) = None /\ r = false)).
      { destruct r.
        - left. destruct L as [-> | [_ ->]]; [reflexivity | apply read_part_idem].
        - rewrite read_part_false. destruct L as [-> | [_ ->]].
          + destruct (p_answer (s_par st)) eqn:A.
            * left. symmetry. apply (read_part_pending true st a A).
            * right. repeat split; reflexivity.
          + left. reflexivity. }
      destruct C as [E | (E & -> & A & ->)]; rewrite E in H.
      * destruct (write_part s flt true (read_part ev cfg x0 true st)) as [st' | r' st'].
        -- apply (IH st' st' res); [left; reflexivity | exact H].
        -- exact H.
      * unfold write_part at 1 in H. rewrite A in H. apply (STUT st); [left; reflexivity | exact H].
    + unfold write_part at 1 in H.
      replace (match p_answer (s_par (read_part ev cfg x0 r st2)) with
               | Some _ => Continue (read_part ev cfg x0 r st2)
               | None => Continue (read_part ev cfg x0 r st2) end)
        with (Continue (read_part ev cfg x0 r st2)) in H
        by (destruct (p_answer (s_par (read_part ev cfg x0 r st2))); reflexivity).
      apply (STUT (read_part ev cfg x0 r st2)); [|exact H].
      destruct r.
      * right. split; [exact R|]. destruct L as [-> | [_ ->]]; [reflexivity | apply read_part_idem].
      * rewrite read_part_false. exact L.
  - assert (st2 = st) as -> by (destruct L as [-> | [R' _]]; [reflexivity | congruence]).
    rewrite (iter_not_running flt t (Tick true true) st R) in H.
    destruct (iter ev s flt cfg x0 (Tick true true) st) as [st' | r' st'].
    + apply (IH st' st' res); [left; reflexivity | exact H].
    + exact H.
Qed.

Lemma schedule_independent flt sch1 sch2 st res1 res2 :
  run ev s flt cfg x0 sch1 st = Some res1 -> run ev s flt cfg x0 sch2 st = Some res2 -> res1 = res2.
Proof.
  intros H1 H2.
  apply (sync_sched flt sch1 st st res1 (or_introl eq_refl)) in H1.
  apply (sync_sched flt sch2 st st res2 (or_introl eq_refl)) in H2.
  apply (run_sync_le flt _ (Nat.max (List.length sch1) (List.length sch2))) in H1; [|apply Nat.le_max_l].
  apply (run_sync_le flt _ (Nat.max (List.length sch1) (List.length sch2))) in H2; [|apply Nat.le_max_r].
  congruence.
Qed.
End Protocol.

(* ---- theorems for every schedule with enough enabled passes ----------------------------------- *)
Theorem trace_equal ev s cfg x0 :
  (forall hist, wf_action (s cfg x0 hist) = true) ->
  (forall i v rf rg, wf_evres (fst (ev i v rf rg)) = true) ->
  forall fuel r tr, inproc fuel ev (s cfg x0) [] [] = Some (r, tr) ->
  forall sch, fuel + 2 <= enabled sch ->
  exists st, ext_run ev s NoFault cfg x0 sch = Some (r, st) /\ p_trace (s_par st) = tr.
Proof.
  intros SW EW fuel r tr H sch N.
  destruct (ext_run_nofault ev s cfg x0 SW EW fuel r tr H) as (st & E & T).
  exists st. split; [|exact T]. unfold ext_run in *.
  apply (sched_sync ev s cfg x0 NoFault sch (fuel + 2) (init NoFault) (init NoFault) (r, st) E); [left; reflexivity | exact N].
Qed.

Theorem fault_outcome ev s cfg x0 flt :
  (forall hist, wf_action (s cfg x0 hist) = true) ->
  (forall i v rf rg, wf_evres (fst (ev i v rf rg)) = true) ->
  abnormal flt ->
  forall fuel r tr, inproc fuel ev (s cfg x0) [] [] = Some (r, tr) ->
  forall sch, fuel + 2 <= enabled sch ->
  exists r' st, ext_run ev s flt cfg x0 sch = Some (r', st) /\
    ((r' = r /\ p_trace (s_par st) = tr) \/
     (death r' /\ exists rest, tr = p_trace (s_par st) ++ rest)).
Proof.
  intros SW EW A fuel r tr H sch N.
  destruct (ext_run_fault ev s cfg x0 SW EW flt A fuel r tr H) as (r' & st & E & D).
  exists r', st. split; [|exact D]. unfold ext_run in *.
  apply (sched_sync ev s cfg x0 flt sch (fuel + 2) (init flt) (init flt) (r', st) E); [left; reflexivity | exact N].
Qed.

(* ---- scripts terminate ------------------------------------------------------------------------ *)
Lemma nth_wf sc i : forallb wf_action sc = true -> wf_action (nth i sc Stop) = true.
Proof.
  revert i; induction sc as [|a sc IH]; intros i H; [destruct i; reflexivity|].
  cbn in H. apply andb_prop in H as [Ha Hs]. destruct i; [exact Ha | apply IH; exact Hs].
Qed.

Lemma child_send_cases' flt ph req sent :
  child_send flt ph req sent = (CWaiting ph req (S sent), Some (enc_request req)) \/
  exists c, child_send flt ph req sent = (c, None) /\ running c = false.
Proof.
  unfold child_send. destruct flt as [| k sg | k sg | k sg | k code]; cbn [dies_now]; try (left; reflexivity);
    (destruct (Nat.leb k sent); [right | left; reflexivity]); eexists; split; reflexivity.
Qed.

Lemma child_return_cases' flt sent :
  exists c, (match dies_at_return flt sent with Some c => (c, @None jv) | None => (CExited 0, None) end) = (c, None) /\
            running c = false.
Proof.
  destruct (child_return_cases flt sent) as [E | [sg E]]; rewrite E; eexists; split; reflexivity.
Qed.

Lemma run_not_running ev s flt cfg x0 n st :
  running (s_child st) = false -> exists r, run ev s flt cfg x0 (sync (S n)) st = Some (r, st).
Proof.
  intros R. cbn [sync repeat run]. destruct (poll_exit ev s cfg x0 flt (Tick true true) st R) as [r ->].
  exists r. reflexivity.
Qed.

Lemma script_sync ev sc flt cfg x0 :
  forallb wf_action sc = true ->
  (forall i v rf rg, wf_evres (fst (ev i v rf rg)) = true) ->
  forall n hist tr sent w, List.length sc <= n + List.length hist ->
  exists res, run ev (script_strategy sc) flt cfg x0 (sync (S n))
                  (opt_state (script_strategy sc) cfg x0 flt hist sent tr w) = Some res.
Proof.
  intros SW EW.
  assert (STOP : forall n sent tr w,
    exists res, run ev (script_strategy sc) flt cfg x0 (sync (S n))
      (let (c, out) := match dies_at_return flt sent with Some c => (c, @None jv) | None => (CExited 0, None) end in
       {| s_par := mkp None None tr w; s_child := c; s_c2p := out |}) = Some res).
  { intros n sent tr w. destruct (child_return_cases' flt sent) as (c & -> & R).
    destruct (run_not_running ev (script_strategy sc) flt cfg x0 n
                {| s_par := mkp None None tr w; s_child := c; s_c2p := None |} R) as [r K].
    eexists; exact K. }
  induction n as [|n IH]; intros hist tr sent w L; unfold opt_state, child_optimize;
    change (script_strategy sc cfg x0 hist) with (nth (List.length hist) sc Stop).
  - rewrite nth_overflow by (cbn in L; lia). apply STOP.
  - pose proof (nth_wf sc (List.length hist) SW) as W.
    destruct (nth (List.length hist) sc Stop) as [v rf rg | | m].
    + destruct (child_send_cases' flt (POpt cfg x0 hist) (REval v rf rg) sent) as [E | (c & E & R)]; rewrite E.
      * change (sync (S (S n))) with (Tick true true :: sync (S n)). cbn [run].
        destruct (dead_waiting flt (S sent)) as [sg|] eqn:DW.
        { destruct (iter_waiting_dead ev (script_strategy sc) cfg x0 flt (POpt cfg x0 hist) (REval v rf rg) (S sent) sg tr w W DW)
            as (p' & IT & _). rewrite IT. eexists; reflexivity. }
        rewrite (iter_eval ev (script_strategy sc) cfg x0 EW flt hist (S sent) tr w v rf rg W DW).
        destruct (ev (List.length tr) v rf rg) as [res eff]. destruct res as [f g | c | cls].
        -- apply IH. rewrite app_length. cbn. lia.
        -- eexists; reflexivity.
        -- eexists; reflexivity.
      * destruct (run_not_running ev (script_strategy sc) flt cfg x0 (S n)
                    {| s_par := mkp None None tr w; s_child := c; s_c2p := None |} R) as [r K].
        eexists; exact K.
    + apply STOP.
    + destruct (child_send_cases' flt PError (RError m) sent) as [E | (c & E & R)]; rewrite E.
      * cbn [sync repeat run].
        destruct (dead_waiting flt (S sent)) as [sg|] eqn:DW.
        { destruct (iter_waiting_dead ev (script_strategy sc) cfg x0 flt PError (RError m) (S sent) sg tr w eq_refl DW)
            as (p' & IT & _). rewrite IT. eexists; reflexivity. }
        rewrite (iter_error ev (script_strategy sc) cfg x0 flt _ _ _ _ DW). eexists; reflexivity.
      * destruct (run_not_running ev (script_strategy sc) flt cfg x0 (S n)
                    {| s_par := mkp None None tr w; s_child := c; s_c2p := None |} R) as [r K].
        eexists; exact K.
Qed.

Lemma script_terminates_sync ev sc flt cfg x0 :
  forallb wf_action sc = true ->
  (forall i v rf rg, wf_evres (fst (ev i v rf rg)) = true) ->
  exists res, ext_run ev (script_strategy sc) flt cfg x0 (sync (List.length sc + 3)) = Some res.
Proof.
  intros SW EW. unfold ext_run, init.
  replace (List.length sc + 3) with (S (S (S (List.length sc)))) by lia.
  destruct (child_send_cases' flt PConfig RConfig 0) as [E | (c & E & R)]; rewrite E.
  - change (sync (S (S (S (List.length sc))))) with (Tick true true :: sync (S (S (List.length sc)))). cbn [run].
    destruct (dead_waiting flt 1) as [sg|] eqn:DW1.
    { destruct (iter_waiting_dead ev (script_strategy sc) cfg x0 flt PConfig RConfig 1 sg [] [] eq_refl DW1) as (p' & IT & _).
      unfold mkp in IT. rewrite IT. eexists; reflexivity. }
    pose proof (iter_config ev (script_strategy sc) cfg x0 flt 1 [] [] DW1) as IC. unfold mkp in IC. rewrite IC. clear IC.
    destruct (child_send_cases' flt (PInitial cfg) RInitial 1) as [E2 | (c & E2 & R)]; rewrite E2.
    + change (sync (S (S (List.length sc)))) with (Tick true true :: sync (S (List.length sc))). cbn [run].
      destruct (dead_waiting flt 2) as [sg|] eqn:DW2.
      { destruct (iter_waiting_dead ev (script_strategy sc) cfg x0 flt (PInitial cfg) RInitial 2 sg []
                    ([] ++ [WR (enc_request RConfig)] ++ [WW (enc_answer (AConfig cfg))]) eq_refl DW2) as (p' & IT & _).
        unfold mkp in IT. cbn [app] in IT |- *. rewrite IT. eexists; reflexivity. }
      pose proof (iter_initial ev (script_strategy sc) cfg x0 flt 2 []
                    ([] ++ [WR (enc_request RConfig)] ++ [WW (enc_answer (AConfig cfg))]) DW2) as II.
      unfold mkp in II. cbn [app] in II |- *. rewrite II. clear II.
      apply script_sync; [exact SW | exact EW | cbn; lia].
    + match goal with |- exists res, run _ _ _ _ _ _ ?st = _ =>
        destruct (run_not_running ev (script_strategy sc) flt cfg x0 (S (List.length sc)) st R) as [r K] end.
      eexists; exact K.
  - match goal with |- exists res, run _ _ _ _ _ _ ?st = _ =>
      destruct (run_not_running ev (script_strategy sc) flt cfg x0 (S (S (List.length sc))) st R) as [r K] end.
    eexists; exact K.
Qed.

Theorem script_terminates ev sc flt cfg x0 :
  forallb wf_action sc = true ->
  (forall i v rf rg, wf_evres (fst (ev i v rf rg)) = true) ->
  forall sch, List.length sc + 3 <= enabled sch ->
  exists res, ext_run ev (script_strategy sc) flt cfg x0 sch = Some res.
Proof.
  intros SW EW sch N. destruct (script_terminates_sync ev sc flt cfg x0 SW EW) as [res K].
  exists res. unfold ext_run in *.
  apply (sched_sync ev (script_strategy sc) cfg x0 flt sch _ (init flt) (init flt) res K); [left; reflexivity | exact N].
Qed.

(* ---------------------------------------------------------------------------------------------- *)
(* 3. which signal killed the child is irrelevant: two faults that differ only in the signal give   *)
(*    runs that agree on everything except the number in the return code                            *)
(* ---------------------------------------------------------------------------------------------- *)
Definition same_moment (f1 f2 : fault) : Prop :=
  match f1, f2 with
  | DieAfter k1 _, DieAfter k2 _ | DieOnAnswer k1 _, DieOnAnswer k2 _ | DieWaiting k1 _, DieWaiting k2 _ => k1 = k2
  | _, _ => f1 = f2
  end.

Definition csim (c1 c2 : cstate) : Prop :=
  match c1, c2 with CKilled _, CKilled _ => True | _, _ => c1 = c2 end.
Definition ssim (a b : sys) : Prop := s_par a = s_par b /\ s_c2p a = s_c2p b /\ csim (s_child a) (s_child b).
Definition rsim (r1 r2 : result) : Prop :=
  r1 = r2 \/ exists g1 g2 : positive, r1 = Raise (ExDeath (Zneg g1)) /\ r2 = Raise (ExDeath (Zneg g2)).
Definition osim (a b : cstate * option jv) : Prop := csim (fst a) (fst b) /\ snd a = snd b.

Lemma csim_refl c : csim c c.
Proof. destruct c; cbn; trivial. Qed.

Section Signals.
Variables (ev : evaluator) (s : strategy) (cfg : jv) (x0 : list fl) (f1 f2 : fault).
Hypothesis SM : same_moment f1 f2.

Lemma dies_now_sim sent :
  match dies_now f1 sent, dies_now f2 sent with
  | Some c1, Some c2 => csim c1 c2
  | None, None => True
  | _, _ => False
  end.
Proof.
  destruct f1 as [| k1 g1 | k1 g1 | k1 g1 | k1 c1], f2 as [| k2 g2 | k2 g2 | k2 g2 | k2 c2]; cbn in SM;
    try discriminate SM; try exact I; cbn [dies_now]; try (subst k2; destruct (Nat.leb k1 sent); exact I).
  inversion SM; subst. destruct (Nat.leb k2 sent); [apply csim_refl | exact I].
Qed.

Lemma dies_at_return_sim sent :
  match dies_at_return f1 sent, dies_at_return f2 sent with
  | Some c1, Some c2 => csim c1 c2
  | None, None => True
  | _, _ => False
  end.
Proof.
  destruct f1 as [| k1 g1 | k1 g1 | k1 g1 | k1 c1], f2 as [| k2 g2 | k2 g2 | k2 g2 | k2 c2]; cbn in SM;
    try discriminate SM; try exact I; cbn [dies_at_return]; try (subst k2; destruct (Nat.leb k1 sent); exact I).
Qed.

Lemma dead_waiting_sim sent :
  match dead_waiting f1 sent, dead_waiting f2 sent with
  | Some _, Some _ | None, None => True
  | _, _ => False
  end.
Proof.
  destruct f1 as [| k1 g1 | k1 g1 | k1 g1 | k1 c1], f2 as [| k2 g2 | k2 g2 | k2 g2 | k2 c2]; cbn in SM;
    try discriminate SM; try exact I; cbn [dead_waiting]. subst k2. destruct (Nat.eqb k1 sent); exact I.
Qed.

Lemma child_send_sim ph req sent : osim (child_send f1 ph req sent) (child_send f2 ph req sent).
Proof.
  unfold child_send. pose proof (dies_now_sim sent) as D.
  destruct (dies_now f1 sent) as [c1|], (dies_now f2 sent) as [c2|]; try contradiction; split; cbn; trivial.
Qed.

Lemma child_optimize_sim c x hist sent :
  osim (child_optimize f1 s c x hist sent) (child_optimize f2 s c x hist sent).
Proof.
  unfold child_optimize. destruct (s c x hist) as [v rf rg | | m]; try apply child_send_sim.
  pose proof (dies_at_return_sim sent) as D.
  destruct (dies_at_return f1 sent) as [c1|], (dies_at_return f2 sent) as [c2|]; try contradiction; split; cbn; trivial.
Qed.

Lemma child_recv_sim ph req sent j : osim (child_recv f1 s ph req sent j) (child_recv f2 s ph req sent j).
Proof.
  unfold child_recv. destruct ph as [| c | c x h |]; destruct (dec_answer req j) as [[c' | x' | f g |]|];
    try (split; cbn; trivial; fail); try apply child_send_sim; apply child_optimize_sim.
Qed.

Lemma iter_sim t a b : ssim a b ->
  match iter ev s f1 cfg x0 t a, iter ev s f2 cfg x0 t b with
  | Continue a', Continue b' => ssim a' b'
  | Done r1 a', Done r2 b' => rsim r1 r2 /\ ssim a' b'
  | _, _ => False
  end.
Proof.
  intros (P & C & K). destruct a as [pa ca oa], b as [pb cb ob]; cbn [s_par s_c2p s_child] in *. subst pb ob.
  unfold iter; cbn [s_child].
  destruct ca as [ph req sent | c | g1], cb as [ph' req' sent' | c' | g2]; cbn in K; try discriminate K; try contradiction.
  - (* both running, same child state *)
    inversion K; subst ph' req' sent'. cbn [running]. destruct t as [rd wr].
    set (st1 := read_part ev cfg x0 rd {| s_par := pa; s_child := CWaiting ph req sent; s_c2p := oa |}).
    assert (R : st1 = {| s_par := s_par st1; s_child := CWaiting ph req sent; s_c2p := s_c2p st1 |}).
    { unfold st1, read_part; cbn [s_par s_child s_c2p]. destruct (p_answer pa); [reflexivity|].
      destruct rd; [|reflexivity]. destruct oa; reflexivity. }
    rewrite R. clear R. generalize (s_par st1) (s_c2p st1). intros p o. clear st1.
    unfold write_part; cbn [s_par s_child s_c2p pipe_broken].
    destruct (p_answer p) as [a|]; [|repeat split; reflexivity].
    destruct wr; [|repeat split; reflexivity].
    pose proof (dead_waiting_sim sent) as D.
    destruct (dead_waiting f1 sent) as [sg1|], (dead_waiting f2 sent) as [sg2|]; try contradiction.
    + split; [left; reflexivity | repeat split; reflexivity].
    + destruct (p_exn p) as [e|].
      * split; [left; reflexivity | repeat split; reflexivity].
      * pose proof (child_recv_sim ph req sent (enc_answer a)) as [Q1 Q2].
        destruct (child_recv f1 s ph req sent (enc_answer a)) as [c1 o1],
                 (child_recv f2 s ph req sent (enc_answer a)) as [c2 o2]. cbn [fst snd] in Q1, Q2. subst o2.
        split; [reflexivity | split; [reflexivity | exact Q1]].
  - (* both exited with the same code *)
    inversion K; subst c'. cbn [running returncode]. destruct (Z.eqb c 0).
    + split; [left; reflexivity | repeat split; reflexivity].
    + split; [left; reflexivity | repeat split; reflexivity].
  - (* both killed, by whatever signals *)
    cbn [running returncode]. cbn [Z.eqb].
    split; [right; exists g1, g2; split; reflexivity | repeat split; exact I].
Qed.

Lemma run_sim : forall sch a b, ssim a b ->
  match run ev s f1 cfg x0 sch a, run ev s f2 cfg x0 sch b with
  | Some (r1, a'), Some (r2, b') => rsim r1 r2 /\ ssim a' b'
  | None, None => True
  | _, _ => False
  end.
Proof.
  induction sch as [|t sch IH]; intros a b S; [exact I|].
  cbn [run]. pose proof (iter_sim t a b S) as IS.
  destruct (iter ev s f1 cfg x0 t a) as [a' | r1 a'], (iter ev s f2 cfg x0 t b) as [b' | r2 b']; try contradiction.
  - apply IH. exact IS.
  - exact IS.
Qed.

Lemma init_sim : ssim (init f1) (init f2).
Proof.
  unfold init. pose proof (child_send_sim PConfig RConfig 0) as [Q1 Q2].
  destruct (child_send f1 PConfig RConfig 0) as [c1 o1], (child_send f2 PConfig RConfig 0) as [c2 o2].
  cbn [fst snd] in Q1, Q2. subst o2. split; [reflexivity | split; [reflexivity | exact Q1]].
Qed.
End Signals.

Theorem signal_irrelevant ev s cfg x0 f1 f2 sch r1 st1 :
  same_moment f1 f2 ->
  ext_run ev s f1 cfg x0 sch = Some (r1, st1) ->
  exists r2 st2, ext_run ev s f2 cfg x0 sch = Some (r2, st2) /\ rsim r1 r2 /\
    s_par st2 = s_par st1 /\ running (s_child st2) = running (s_child st1).
Proof.
  intros SM H. unfold ext_run in *.
  pose proof (run_sim ev s cfg x0 f1 f2 SM sch (init f1) (init f2) (init_sim f1 f2 SM)) as RS.
  rewrite H in RS. destruct (run ev s f2 cfg x0 sch (init f2)) as [[r2 st2]|]; [|contradiction].
  destruct RS as (R & P & _ & K). exists r2, st2. repeat split; [exact R | symmetry; exact P |].
  destruct (s_child st1), (s_child st2); cbn in K; try discriminate K; try contradiction; try reflexivity.
Qed.
