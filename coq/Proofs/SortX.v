(* Proofs/SortX.v -- sorting facts for the realization filters (C04, C05):
   insertion sort is a sorted permutation; a sorted list with the "good" elements first is split by firstn;
   [ranked failed values] (np.argsort with NaN last, truncated to the number of successes) lists exactly the
   successful realizations, strictly ascending in the order "smaller value, ties by index", and the position
   of a realization in it is its [rank] (a count that does not mention the sort). *)
From Coq Require Import String QArith Qabs Bool Arith ZArith List Lia Lqa Permutation Sorted.
From Ropt Require Import Base.Num Base.ListX Model.Filters.
Import ListNotations.

(* ---- generic list facts -------------------------------------------------------------------- *)
Lemma filter_none {A} (P : A -> bool) l : (forall x, In x l -> P x = false) -> filter P l = [].
Proof.
  induction l as [|x t IH]; intros H; cbn; [reflexivity|].
  rewrite (H x (or_introl eq_refl)). apply IH. intros y Hy. apply H. right; exact Hy.
Qed.

Lemma filter_all {A} (P : A -> bool) l : (forall x, In x l -> P x = true) -> filter P l = l.
Proof.
  induction l as [|x t IH]; intros H; cbn; [reflexivity|].
  rewrite (H x (or_introl eq_refl)). f_equal. apply IH. intros y Hy. apply H. right; exact Hy.
Qed.

Lemma filter_map_comm {A B} (f : A -> B) (P : B -> bool) l : filter P (map f l) = map f (filter (fun x => P (f x)) l).
Proof. induction l as [|x t IH]; cbn; [reflexivity|]. destruct (P (f x)); cbn; rewrite IH; reflexivity. Qed.

Lemma Permutation_filter {A} (P : A -> bool) l l' : Permutation l l' -> Permutation (filter P l) (filter P l').
Proof.
  induction 1 as [|x l l' _ IH|x y l|l l' l'' _ IH1 _ IH2]; cbn.
  - constructor.
  - destruct (P x); [constructor|]; exact IH.
  - destruct (P x), (P y); try apply Permutation_refl. apply perm_swap.
  - eapply Permutation_trans; eassumption.
Qed.

Lemma StronglySorted_filter {A} (R : A -> A -> Prop) (P : A -> bool) l :
  StronglySorted R l -> StronglySorted R (filter P l).
Proof.
  induction 1 as [|x l _ IH HF]; cbn; [constructor|].
  destruct (P x); [|exact IH]. constructor; [exact IH|].
  apply Forall_forall. intros y Hy. apply filter_In in Hy as [Hy _].
  rewrite Forall_forall in HF. apply HF; exact Hy.
Qed.

Lemma StronglySorted_map {A B} (R : A -> A -> Prop) (R' : B -> B -> Prop) (f : A -> B) l :
  (forall a b, In a l -> In b l -> R a b -> R' (f a) (f b)) ->
  StronglySorted R l -> StronglySorted R' (map f l).
Proof.
  intros H HS. induction HS as [|x l HS IH HF]; cbn; [constructor|].
  constructor.
  - apply IH. intros a b Ha Hb. apply H; right; assumption.
  - apply Forall_forall. intros y Hy. apply in_map_iff in Hy as [a [<- Ha]].
    rewrite Forall_forall in HF. apply H; [left; reflexivity | right; exact Ha | apply HF; exact Ha].
Qed.

Lemma StronglySorted_weaken {A} (R R' : A -> A -> Prop) l :
  (forall a b, In a l -> In b l -> R a b -> R' a b) -> StronglySorted R l -> StronglySorted R' l.
Proof.
  intros H HS. rewrite <- (map_id l). apply (StronglySorted_map R R' (fun x => x)); assumption.
Qed.

(* elements of a strongly sorted list, by position *)
Lemma StronglySorted_nth {A} (R : A -> A -> Prop) l d i j :
  StronglySorted R l -> (i < j < length l)%nat -> R (nth i l d) (nth j l d).
Proof.
  intros HS. revert i j. induction HS as [|x l HS IH HF]; intros i j [Hij Hj]; cbn in Hj; [lia|].
  destruct j as [|j]; [lia|]. destruct i as [|i]; cbn.
  - rewrite Forall_forall in HF. apply HF. apply nth_In. lia.
  - apply IH. lia.
Qed.

(* a sorted list in which good elements never follow bad ones is split by firstn *)
Lemma sorted_firstn_filter {A} (R : A -> A -> Prop) (P : A -> bool) l :
  StronglySorted R l -> (forall x y, R x y -> P y = true -> P x = true) ->
  firstn (length (filter P l)) l = filter P l.
Proof.
  intros HS HP. induction HS as [|x l HS IH HF]; cbn; [reflexivity|].
  destruct (P x) eqn:Px; cbn.
  - f_equal. exact IH.
  - rewrite filter_none; [reflexivity|]. intros y Hy.
    destruct (P y) eqn:Py; [|reflexivity].
    rewrite Forall_forall in HF. rewrite (HP x y (HF y Hy) Py) in Px. discriminate.
Qed.

Lemma filter_seq_length {A} (P : A -> bool) (l : list A) d s :
  length (filter (fun r => P (nth (r - s) l d)) (seq s (length l))) = length (filter P l).
Proof.
  revert s. induction l as [|x t IH]; intros s; cbn [length seq filter]; [reflexivity|].
  rewrite Nat.sub_diag. change (nth 0 (x :: t) d) with x.
  assert (E : filter (fun r => P (nth (r - s) (x :: t) d)) (seq (S s) (length t)) =
              filter (fun r => P (nth (r - S s) t d)) (seq (S s) (length t))).
  { apply filter_ext_in. intros r Hr. apply in_seq in Hr.
    replace (r - s)%nat with (S (r - S s)) by lia. reflexivity. }
  destruct (P x); cbn [length]; rewrite E, IH; reflexivity.
Qed.

(* ---- insertion sort ------------------------------------------------------------------------- *)
Section ISortFacts.
  Context {A : Type} (leb : A -> A -> bool).
  Hypothesis leb_total : forall a b, leb a b = true \/ leb b a = true.
  Hypothesis leb_trans : forall a b c, leb a b = true -> leb b c = true -> leb a c = true.
  Let le a b := leb a b = true.

  Lemma insert_perm x l : Permutation (insert leb x l) (x :: l).
  Proof.
    induction l as [|y t IH]; cbn; [apply Permutation_refl|].
    destruct (leb x y); [apply Permutation_refl|].
    eapply Permutation_trans; [apply perm_skip, IH | apply perm_swap].
  Qed.

  Lemma isort_perm l : Permutation (isort leb l) l.
  Proof.
    induction l as [|x t IH]; cbn; [constructor|].
    eapply Permutation_trans; [apply insert_perm | apply perm_skip, IH].
  Qed.

  Lemma insert_sorted x l : StronglySorted le l -> StronglySorted le (insert leb x l).
  Proof.
    induction 1 as [|y t HS IH HF]; cbn; [repeat constructor|].
    destruct (leb x y) eqn:E.
    - constructor; [constructor; assumption|]. constructor; [exact E|].
      rewrite Forall_forall in *. intros z Hz. apply (leb_trans x y z E). apply HF; exact Hz.
    - constructor; [exact IH|]. apply Forall_forall. intros z Hz.
      apply (Permutation_in _ (insert_perm x t)) in Hz. destruct Hz as [<-|Hz].
      + destruct (leb_total x y) as [H|H]; [congruence | exact H].
      + rewrite Forall_forall in HF. apply HF; exact Hz.
  Qed.

  Lemma isort_sorted l : StronglySorted le (isort leb l).
  Proof. induction l as [|x t IH]; cbn; [constructor | apply insert_sorted; exact IH]. Qed.
End ISortFacts.

(* ---- the order on (key, index) pairs --------------------------------------------------------- *)
Lemma key_leb_total a b : key_leb a b = true \/ key_leb b a = true.
Proof.
  destruct a as [[x|] i], b as [[y|] j]; unfold key_leb; cbn [fst snd]; auto.
  - destruct (Qltb x y) eqn:E1; [left; reflexivity|].
    destruct (Qltb y x) eqn:E2; [right; reflexivity|].
    apply Qltb_nlt in E1, E2.
    assert (H1 : Qleb x y = true) by (apply Qleb_le; lra).
    assert (H2 : Qleb y x = true) by (apply Qleb_le; lra).
    rewrite H1, H2. cbn. destruct (Nat.leb_spec i j); [left; reflexivity | right].
    apply Nat.leb_le. lia.
  - destruct (Nat.leb_spec i j); [left; reflexivity | right]. apply Nat.leb_le. lia.
Qed.

Lemma key_leb_trans a b c : key_leb a b = true -> key_leb b c = true -> key_leb a c = true.
Proof.
  destruct a as [[x|] i], b as [[y|] j], c as [[z|] k]; unfold key_leb; cbn [fst snd]; try discriminate; auto.
  - intros H1 H2. apply orb_true_iff in H1, H2. apply orb_true_iff.
    destruct H1 as [H1|H1], H2 as [H2|H2].
    + left. apply Qltb_lt in H1, H2. apply Qltb_lt. lra.
    + left. apply andb_true_iff in H2 as [H2 _]. apply Qltb_lt in H1. apply Qleb_le in H2. apply Qltb_lt. lra.
    + left. apply andb_true_iff in H1 as [H1 _]. apply Qltb_lt in H2. apply Qleb_le in H1. apply Qltb_lt. lra.
    + right. apply andb_true_iff in H1 as [H1 H1'], H2 as [H2 H2']. apply Qleb_le in H1, H2.
      apply Nat.leb_le in H1', H2'. apply andb_true_iff. split; [apply Qleb_le; lra | apply Nat.leb_le; lia].
  - intros H1 H2. apply Nat.leb_le in H1, H2. apply Nat.leb_le. lia.
Qed.

(* ---- index_from / mask_keys ------------------------------------------------------------------ *)
Lemma index_from_map {A} (l : list A) d s :
  index_from s l = map (fun i => (nth (i - s) l d, i)) (seq s (length l)).
Proof.
  revert s. induction l as [|x t IH]; intros s; cbn [index_from length seq map]; [reflexivity|].
  rewrite Nat.sub_diag. change (nth 0 (x :: t) d) with x. f_equal. rewrite IH. apply map_ext_in.
  intros i Hi. apply in_seq in Hi. replace (i - s)%nat with (S (i - S s)) by lia. reflexivity.
Qed.

Definition keyf (failed : list bool) (values : list Q) (r : nat) : oQ :=
  if nth r failed true then None else Some (nth r values 0%Q).

Lemma mask_keys_length failed values : length failed = length values -> length (mask_keys failed values) = length failed.
Proof. intros H. unfold mask_keys. rewrite map_length, combine_length. lia. Qed.

Lemma mask_keys_nth failed values r : length failed = length values ->
  nth r (mask_keys failed values) None = keyf failed values r.
Proof.
  intros H. unfold mask_keys, keyf.
  change None with ((fun fv : bool * Q => if fst fv then None else Some (snd fv)) (true, 0%Q)).
  rewrite map_nth, combine_nth by exact H. reflexivity.
Qed.

Definition pairs0 (failed : list bool) (values : list Q) : list (oQ * nat) :=
  map (fun r => (keyf failed values r, r)) (seq 0 (length failed)).

Lemma index_from_mask failed values : length failed = length values ->
  index_from 0 (mask_keys failed values) = pairs0 failed values.
Proof.
  intros H. rewrite (index_from_map (mask_keys failed values) None 0%nat), mask_keys_length by exact H. unfold pairs0.
  apply map_ext. intros r. rewrite Nat.sub_0_r, mask_keys_nth by exact H. reflexivity.
Qed.

(* ---- successes ------------------------------------------------------------------------------- *)
Lemma successes_In failed r : In r (successes failed) <-> (r < length failed)%nat /\ nth r failed true = false.
Proof.
  unfold successes, succeeded. rewrite filter_In, in_seq, negb_true_iff. intuition lia.
Qed.

Lemma successes_NoDup failed : NoDup (successes failed).
Proof. apply NoDup_filter, seq_NoDup. Qed.

Lemma successes_length failed : length (successes failed) = count_ok failed.
Proof.
  unfold successes, succeeded, count_ok.
  rewrite <- (filter_seq_length negb failed true 0).
  f_equal. apply filter_ext. intros r. rewrite Nat.sub_0_r. reflexivity.
Qed.

(* ---- the index order -------------------------------------------------------------------------- *)
Definition ile (values : list Q) (s r : nat) : Prop :=
  (Qltb (nth s values 0%Q) (nth r values 0%Q) || (Qleb (nth s values 0%Q) (nth r values 0%Q) && Nat.leb s r)) = true.

Lemma ile_strict values s r : ile values s r -> s <> r -> precedes values s r = true.
Proof.
  unfold ile, precedes. intros H Hne. apply orb_true_iff in H. apply orb_true_iff.
  destruct H as [H|H]; [left; exact H|].
  apply andb_true_iff in H as [H1 H2]. apply Nat.leb_le in H2. apply Qleb_le in H1.
  destruct (Qltb (nth s values 0%Q) (nth r values 0%Q)) eqn:E; [left; reflexivity | right].
  apply Qltb_nlt in E. apply andb_true_iff. split; [apply Qeqb_eq; lra | apply Nat.ltb_lt; lia].
Qed.

Lemma precedes_irrefl values r : precedes values r r = false.
Proof.
  unfold precedes. rewrite Nat.ltb_irrefl, andb_false_r, orb_false_r. apply Qltb_nlt. lra.
Qed.

Lemma precedes_asym values s r : precedes values s r = true -> precedes values r s = false.
Proof.
  unfold precedes. intros H. apply orb_true_iff in H. apply orb_false_iff.
  destruct H as [H|H].
  - apply Qltb_lt in H. split; [apply Qltb_nlt; lra|].
    apply andb_false_iff. left. apply Qeqb_neq. lra.
  - apply andb_true_iff in H as [H1 H2]. apply Qeqb_eq in H1. apply Nat.ltb_lt in H2.
    split; [apply Qltb_nlt; lra|]. apply andb_false_iff. right. apply Nat.ltb_ge. lia.
Qed.

Lemma precedes_trans values a b c : precedes values a b = true -> precedes values b c = true -> precedes values a c = true.
Proof.
  unfold precedes. intros H1 H2. apply orb_true_iff in H1, H2. apply orb_true_iff.
  destruct H1 as [H1|H1], H2 as [H2|H2].
  - left. apply Qltb_lt in H1, H2. apply Qltb_lt. lra.
  - left. apply andb_true_iff in H2 as [H2 _]. apply Qltb_lt in H1. apply Qeqb_eq in H2. apply Qltb_lt. lra.
  - left. apply andb_true_iff in H1 as [H1 _]. apply Qltb_lt in H2. apply Qeqb_eq in H1. apply Qltb_lt. lra.
  - right. apply andb_true_iff in H1 as [H1 H1'], H2 as [H2 H2']. apply Qeqb_eq in H1, H2.
    apply Nat.ltb_lt in H1', H2'. apply andb_true_iff. split; [apply Qeqb_eq; lra | apply Nat.ltb_lt; lia].
Qed.

Lemma precedes_total values s r : s <> r -> precedes values s r = true \/ precedes values r s = true.
Proof.
  intros Hne. unfold precedes.
  destruct (Qltb (nth s values 0%Q) (nth r values 0%Q)) eqn:E1; [left; reflexivity|].
  destruct (Qltb (nth r values 0%Q) (nth s values 0%Q)) eqn:E2; [right; reflexivity|].
  apply Qltb_nlt in E1, E2. cbn [orb].
  assert (H1 : Qeqb (nth s values 0%Q) (nth r values 0%Q) = true) by (apply Qeqb_eq; lra).
  assert (H2 : Qeqb (nth r values 0%Q) (nth s values 0%Q) = true) by (apply Qeqb_eq; lra).
  rewrite H1, H2. cbn [andb].
  destruct (Nat.ltb_spec s r); [left; reflexivity | right]. apply Nat.ltb_lt. lia.
Qed.

(* ---- ranked ----------------------------------------------------------------------------------- *)
Definition some_key (p : oQ * nat) : bool := is_some (fst p).

Lemma pairs0_some failed values :
  filter some_key (pairs0 failed values) = map (fun r => (Some (nth r values 0%Q), r)) (successes failed).
Proof.
  unfold pairs0, successes. rewrite filter_map_comm.
  rewrite (filter_ext_in (fun r => some_key (keyf failed values r, r)) (succeeded failed)).
  - apply map_ext_in. intros r Hr. apply filter_In in Hr as [_ Hr]. unfold succeeded in Hr.
    apply negb_true_iff in Hr. unfold keyf. rewrite Hr. reflexivity.
  - intros r _. unfold some_key, keyf, succeeded. cbn [fst]. destruct (nth r failed true); reflexivity.
Qed.

Definition sorted_pairs (failed : list bool) (values : list Q) : list (oQ * nat) :=
  isort key_leb (pairs0 failed values).

Lemma ranked_filter failed values : length failed = length values ->
  ranked failed values = map snd (filter some_key (sorted_pairs failed values)).
Proof.
  intros H. unfold ranked, argsort. rewrite index_from_mask by exact H. fold (sorted_pairs failed values).
  rewrite firstn_map. f_equal.
  assert (E : count_ok failed = length (filter some_key (sorted_pairs failed values))).
  { rewrite <- successes_length. unfold sorted_pairs.
    rewrite (Permutation_length (Permutation_filter some_key _ _ (isort_perm key_leb (pairs0 failed values)))).
    rewrite pairs0_some, map_length. reflexivity. }
  rewrite E. apply (sorted_firstn_filter (fun a b => key_leb a b = true)).
  - apply isort_sorted; [apply key_leb_total | apply key_leb_trans].
  - intros [x i] [y j]. unfold key_leb, some_key. cbn [fst snd]. destruct x, y; cbn; congruence.
Qed.

Lemma ranked_perm failed values : length failed = length values ->
  Permutation (ranked failed values) (successes failed).
Proof.
  intros H. rewrite ranked_filter by exact H.
  eapply Permutation_trans.
  - apply Permutation_map, Permutation_filter, isort_perm.
  - rewrite pairs0_some, map_map. cbn [snd]. rewrite map_id. apply Permutation_refl.
Qed.

Lemma ranked_NoDup failed values : length failed = length values -> NoDup (ranked failed values).
Proof.
  intros H. apply (Permutation_NoDup (Permutation_sym (ranked_perm failed values H))), successes_NoDup.
Qed.

Lemma ranked_In failed values r : length failed = length values ->
  (In r (ranked failed values) <-> (r < length failed)%nat /\ nth r failed true = false).
Proof.
  intros H. rewrite <- successes_In. split; intro Hr.
  - apply (Permutation_in _ (ranked_perm failed values H)); exact Hr.
  - apply (Permutation_in _ (Permutation_sym (ranked_perm failed values H))); exact Hr.
Qed.

Lemma ranked_length failed values : length failed = length values ->
  length (ranked failed values) = count_ok failed.
Proof. intros H. rewrite (Permutation_length (ranked_perm failed values H)). apply successes_length. Qed.

Lemma ranked_sorted_le failed values : length failed = length values ->
  StronglySorted (ile values) (ranked failed values).
Proof.
  intros H. rewrite ranked_filter by exact H.
  apply (StronglySorted_map (fun a b => key_leb a b = true)).
  - intros a b Ha Hb Hab.
    assert (Hform : forall p, In p (filter some_key (sorted_pairs failed values)) ->
                              fst p = Some (nth (snd p) values 0%Q)).
    { intros p Hp.
      apply (Permutation_in _ (Permutation_filter some_key _ _ (isort_perm key_leb (pairs0 failed values)))) in Hp.
      rewrite pairs0_some in Hp. apply in_map_iff in Hp as [r [<- _]]. reflexivity. }
    pose proof (Hform a Ha) as Ea. pose proof (Hform b Hb) as Eb.
    unfold key_leb in Hab. rewrite Ea, Eb in Hab. exact Hab.
  - apply StronglySorted_filter. apply isort_sorted; [apply key_leb_total | apply key_leb_trans].
Qed.

(* strictly ascending: smaller value first, ties by realization index *)
Lemma ranked_sorted failed values : length failed = length values ->
  StronglySorted (fun s r => precedes values s r = true) (ranked failed values).
Proof.
  intros H. pose proof (ranked_sorted_le failed values H) as HS. pose proof (ranked_NoDup failed values H) as ND.
  induction HS as [|x l HS IH HF]; [constructor|].
  inversion ND as [|? ? Hx ND']; subst. constructor; [apply IH; exact ND'|].
  rewrite Forall_forall in *. intros y Hy. apply ile_strict; [apply HF; exact Hy|].
  intros ->. contradiction.
Qed.

(* position in a strictly sorted list = number of smaller elements *)
Lemma sorted_position (R : nat -> nat -> bool) l k :
  (forall a, R a a = false) -> (forall a b, R a b = true -> R b a = false) ->
  StronglySorted (fun a b => R a b = true) l -> (k < length l)%nat ->
  length (filter (fun s => R s (nth k l 0%nat)) l) = k.
Proof.
  intros Hirr Hasym HS. revert k. induction HS as [|x l HS IH HF]; intros k Hk; cbn in Hk; [lia|].
  rewrite Forall_forall in HF. destruct k as [|k]; cbn [nth filter].
  - rewrite Hirr. rewrite filter_none; [reflexivity|]. intros y Hy. apply Hasym, HF, Hy.
  - rewrite (HF (nth k l 0%nat)) by (apply nth_In; lia). cbn [length]. f_equal. apply IH. lia.
Qed.

(* the model's position of a realization in the ranking is its rank (a count over the successes) *)
Lemma rank_nth failed values k : length failed = length values -> (k < length (ranked failed values))%nat ->
  rank values failed (nth k (ranked failed values) 0%nat) = k.
Proof.
  intros H Hk. unfold rank.
  rewrite <- (Permutation_length (Permutation_filter _ _ _ (ranked_perm failed values H))).
  apply sorted_position; [apply precedes_irrefl | apply precedes_asym | apply ranked_sorted; exact H | exact Hk].
Qed.

(* every successful realization sits at the position given by its rank *)
Lemma nth_rank failed values r : length failed = length values ->
  In r (ranked failed values) ->
  (rank values failed r < length (ranked failed values))%nat /\
  nth (rank values failed r) (ranked failed values) 0%nat = r.
Proof.
  intros H Hr. apply (In_nth _ _ 0%nat) in Hr as [k [Hk E]].
  rewrite <- E at 1 2. rewrite rank_nth by assumption. split; [exact Hk | exact E].
Qed.

(* values along the ranking are non-decreasing *)
Lemma ranked_values_le failed values i j : length failed = length values ->
  (i < j < length (ranked failed values))%nat ->
  (nth (nth i (ranked failed values) 0%nat) values 0 <= nth (nth j (ranked failed values) 0%nat) values 0)%Q.
Proof.
  intros H Hij. pose proof (StronglySorted_nth _ _ 0%nat i j (ranked_sorted failed values H) Hij) as Hp.
  unfold precedes in Hp. apply orb_true_iff in Hp as [Hp|Hp].
  - apply Qltb_lt in Hp. lra.
  - apply andb_true_iff in Hp as [Hp _]. apply Qeqb_eq in Hp. lra.
Qed.
