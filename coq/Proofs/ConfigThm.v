(* Proofs/ConfigThm.v -- the statements of property C18 about Model/Config.v, proved from the lemmas of
   Proofs/Config.v: canonical weights, broadcasts, thresholds, rejections, the canonical form and its
   stability under re-validation, and the flag machine. *)
From Coq Require Import String.
From Coq Require Import QArith Qabs Qminmax ZArith List Bool Arith Lia Lqa.
From Ropt Require Import Base.Num Base.ListX Model.Config Proofs.Config.
Import ListNotations.
Open Scope Q_scope.

(* =============================================================================================
   specifications (the vocabulary of Props/C18.v)
   ============================================================================================= *)
(* w' is w divided by its sum *)
Definition canonical_weights (w w' : list Q) : Prop :=
  length w' = length w /\ qsum w' == 1 /\
  (forall i j a b a' b', nth_error w i = Some a -> nth_error w j = Some b ->
                         nth_error w' i = Some a' -> nth_error w' j = Some b' -> a * b' == b * a') /\
  (forall i a a', nth_error w i = Some a -> nth_error w' i = Some a' -> (a == 0 <-> a' == 0) /\ (0 <= a <-> 0 <= a')).

(* l' is l broadcast to length n: the given vector, or n copies of the given scalar *)
Definition strict_broadcast_of {A} (n : nat) (l l' : list A) : Prop :=
  length l' = n /\ (l' = l \/ exists x, l = [x] /\ l' = repeat x n).
(* broadcast_1d_array: additionally everything broadcasts to the empty array when n = 0 *)
Definition broadcast_of {A} (n : nat) (l l' : list A) : Prop :=
  length l' = n /\ (n = 0%nat \/ l' = l \/ exists x, l = [x] /\ l' = repeat x n).

Definition obroadcast_of {A} (n : nat) (o o' : option (list A)) : Prop :=
  match o, o' with None, None => True | Some l, Some l' => broadcast_of n l l' | _, _ => False end.

Definition min_threshold (m : option nat) (count : nat) : option nat :=
  Some (match m with None => count | Some k => Nat.min k count end).

Definition crossed (lo up : list ereal) : Prop :=
  exists i a b, nth_error lo i = Some a /\ nth_error up i = Some b /\ ele a b = false.

(* ---- the canonical form ------------------------------------------------------------------ *)
Record linear_wf (n : nat) (l : linear) : Prop := {
  lwf_rows : Forall (fun r => length r = n) (l_coeffs l);
  lwf_lower : length (l_lower l) = length (l_coeffs l);
  lwf_upper : length (l_upper l) = length (l_coeffs l);
  lwf_order : any_gt (l_lower l) (l_upper l) = false
}.
Record nonlinear_wf (nl : nonlinear) : Prop := {
  nwf_len : length (n_lower nl) = length (n_upper nl);
  nwf_order : any_gt (n_lower nl) (n_upper nl) = false
}.
Record canonical (E : enums) (c : config) : Prop := {
  can_vars : variables_wf E (length (v_initial (c_vars c))) (c_vars c);
  can_obj : qsum (c_obj_w c) == 1;
  can_real : qsum (c_real_w c) == 1;
  can_rmin : exists k, c_rmin c = Some k /\ (k <= length (c_real_w c))%nat;
  can_grad : gradient_wf E (length (v_initial (c_vars c))) (c_grad c);
  can_lin : match c_lin c with None => True | Some l => linear_wf (length (v_initial (c_vars c))) l end;
  can_nonlin : match c_nonlin c with None => True | Some nl => nonlinear_wf nl end
}.

(* identical except that the weights are equal as rationals (==) rather than as terms *)
Definition same_but_weights (c c' : config) : Prop :=
  c_vars c' = c_vars c /\ c_rmin c' = c_rmin c /\ c_grad c' = c_grad c /\ c_lin c' = c_lin c /\ c_nonlin c' = c_nonlin c /\
  qlist_eqb (c_obj_w c) (c_obj_w c') = true /\ qlist_eqb (c_real_w c) (c_real_w c') = true.

(* =============================================================================================
   validate, unfolded
   ============================================================================================= *)
Lemma validate_unfold E ctx nls raw c : validate E ctx nls raw = Ok c ->
  exists vars ow lin1 nl rw g1 lin g,
    validate_variables E ctx (c_vars raw) = Ok vars /\
    normalize (c_obj_w raw) = Ok ow /\
    omap validate_linear_fields (c_lin raw) = Ok lin1 /\
    omap (validate_nonlinear nls) (c_nonlin raw) = Ok nl /\
    normalize (c_real_w raw) = Ok rw /\
    validate_gradient_fields E (c_grad raw) = Ok g1 /\
    omap (apply_transformation ctx vars) lin1 = Ok lin /\
    fix_perturbations E ctx vars g1 = Ok g /\
    c = {| c_vars := vars; c_obj_w := ow; c_real_w := rw; c_rmin := clamp_min (c_rmin raw) (length rw);
           c_grad := g; c_lin := lin; c_nonlin := nl |}.
Proof.
  unfold validate. intros H.
  inv_bind_as H vars Hv. inv_bind_as H ow How. inv_bind_as H lin1 Hl1. inv_bind_as H nl Hnl.
  inv_bind_as H rw Hrw. inv_bind_as H g1 Hg1. inv_bind_as H lin Hl. inv_bind_as H g Hg. injection H as <-.
  exists vars, ow, lin1, nl, rw, g1, lin, g. repeat (split; [assumption|]). reflexivity.
Qed.

Lemma validate_fold E ctx nls raw vars ow lin1 nl rw g1 lin g :
  validate_variables E ctx (c_vars raw) = Ok vars -> normalize (c_obj_w raw) = Ok ow ->
  omap validate_linear_fields (c_lin raw) = Ok lin1 -> omap (validate_nonlinear nls) (c_nonlin raw) = Ok nl ->
  normalize (c_real_w raw) = Ok rw -> validate_gradient_fields E (c_grad raw) = Ok g1 ->
  omap (apply_transformation ctx vars) lin1 = Ok lin -> fix_perturbations E ctx vars g1 = Ok g ->
  validate E ctx nls raw = Ok {| c_vars := vars; c_obj_w := ow; c_real_w := rw; c_rmin := clamp_min (c_rmin raw) (length rw);
                             c_grad := g; c_lin := lin; c_nonlin := nl |}.
Proof.
  intros Hv How Hl1 Hnl Hrw Hg1 Hl Hg. unfold validate.
  rewrite Hv; cbn [bind]. rewrite How; cbn [bind]. rewrite Hl1; cbn [bind]. rewrite Hnl; cbn [bind].
  rewrite Hrw; cbn [bind]. rewrite Hg1; cbn [bind]. rewrite Hl; cbn [bind]. rewrite Hg; cbn [bind]. reflexivity.
Qed.

(* =============================================================================================
   weights
   ============================================================================================= *)
Lemma normalize_sign w w' i a a' : normalize w = Ok w' ->
  nth_error w i = Some a -> nth_error w' i = Some a' -> (0 <= a <-> 0 <= a').
Proof.
  intros H Ha Ha'. apply normalize_ok in H as [Hs ->]. pose proof float_eps_pos as Hp.
  rewrite nth_error_map, Ha in Ha'. cbn in Ha'. injection Ha' as <-.
  assert (Hpos : 0 < qsum w) by lra. split; intros Hx.
  - apply Qle_shift_div_l; [exact Hpos | lra].
  - assert (E2 : a == (a / qsum w) * qsum w) by (field; lra). rewrite E2. apply Qmult_le_0_compat; lra.
Qed.

Lemma normalize_canonical w w' : normalize w = Ok w' -> canonical_weights w w'.
Proof.
  intros H. split; [eapply normalize_length; exact H|]. split; [eapply normalize_sum; exact H|]. split.
  - intros i j a b a' b'. apply normalize_ratio; exact H.
  - intros i a a' Ha Ha'. split; [eapply normalize_zero | eapply normalize_sign]; eassumption.
Qed.

Lemma validate_weights_canonical E ctx nls raw c : validate E ctx nls raw = Ok c ->
  canonical_weights (c_obj_w raw) (c_obj_w c) /\ canonical_weights (c_real_w raw) (c_real_w c).
Proof.
  intros H. apply validate_unfold in H. destruct H as (vars & ow & lin1 & nl & rw & g1 & lin & g & _ & How & _ & _ & Hrw & _ & _ & _ & ->).
  cbn. split; apply normalize_canonical; assumption.
Qed.

(* a weight sum below eps (in particular zero or negative) is rejected *)
Lemma validate_weights_rejected E ctx nls raw :
  qsum (c_obj_w raw) < float_eps \/ qsum (c_real_w raw) < float_eps -> forall c, validate E ctx nls raw <> Ok c.
Proof.
  intros Hbad c H. apply validate_unfold in H. destruct H as (vars & ow & lin1 & nl & rw & g1 & lin & g & _ & How & _ & _ & Hrw & _).
  destruct Hbad as [Hb|Hb]; apply normalize_reject in Hb; congruence.
Qed.

Lemma validate_weights_nonpositive_rejected E ctx nls raw :
  qsum (c_obj_w raw) <= 0 \/ qsum (c_real_w raw) <= 0 -> forall c, validate E ctx nls raw <> Ok c.
Proof.
  intros Hbad. apply validate_weights_rejected. pose proof float_eps_pos. destruct Hbad; [left | right]; lra.
Qed.

(* the sum of unit weights is accepted again *)
Lemma normalize_unit w : qsum w == 1 ->
  exists w', normalize w = Ok w' /\ qlist_eqb w w' = true /\ length w' = length w.
Proof.
  intros Hs. unfold normalize. cbn zeta. destruct (Qltb (qsum w) float_eps) eqn:E.
  - apply Qltb_lt in E. rewrite Hs in E. unfold float_eps, Q_ in E. exfalso. revert E. apply Qle_not_lt. discriminate.
  - eexists. split; [reflexivity|]. split; [|apply map_length].
    apply qlist_eqb_map_ext. intros x. rewrite Hs. field.
Qed.

(* =============================================================================================
   broadcasts
   ============================================================================================= *)
Lemma bcast_to_spec {A} n (l l' : list A) : bcast_to n l = Ok l' -> strict_broadcast_of n l l'.
Proof.
  intros H. apply bcast_to_ok in H as [Hl [-> Hc]]. split; [exact Hl|].
  unfold expand. destruct l as [|x [|y t]]; [left; reflexivity | right; exists x; auto | left; reflexivity].
Qed.

Lemma broadcast1_spec {A} n (l l' : list A) : broadcast1 n l = Ok l' -> broadcast_of n l l'.
Proof.
  intros H. apply broadcast1_ok in H as [Hl [Hn|[-> Hc]]]; (split; [exact Hl|]); [left; exact Hn|]. right.
  unfold expand. destruct l as [|x [|y t]]; [left; reflexivity | right; exists x; auto | left; reflexivity].
Qed.

Lemma broadcast1_reject {A} n (l : list A) : n <> 0%nat -> length l <> 1%nat -> length l <> n -> broadcast1 n l = Reject.
Proof.
  intros Hn H1 Hl. unfold broadcast1. destruct (Nat.eqb n 0) eqn:E; [apply Nat.eqb_eq in E; contradiction|].
  apply bcast_to_reject; assumption.
Qed.

Lemma broadcast1_accepts {A} n (l l' : list A) : broadcast1 n l = Ok l' -> n = 0%nat \/ length l = 1%nat \/ length l = n.
Proof. intros H. apply broadcast1_ok in H as [_ [Hn|[_ Hc]]]; [left; exact Hn | right; exact Hc]. Qed.

Lemma bcast_to_accepts {A} n (l l' : list A) : bcast_to n l = Ok l' -> length l = 1%nat \/ length l = n.
Proof. intros H. apply bcast_to_ok in H as [_ [_ Hc]]. exact Hc. Qed.

Lemma omap_broadcast1_spec {A} n (o o' : option (list A)) : omap (broadcast1 n) o = Ok o' -> obroadcast_of n o o'.
Proof.
  intros H. apply omap_ok in H. destruct o as [l|], o' as [l'|]; try contradiction; [|exact I].
  apply broadcast1_spec; exact H.
Qed.

(* =============================================================================================
   extended-real order under the scaler
   ============================================================================================= *)
Lemma ele_shift a b o : ele (esub_r a o) (esub_r b o) = ele a b.
Proof.
  destruct a as [|x|], b as [|y|]; cbn; try reflexivity.
  destruct (Qleb x y) eqn:E.
  - apply Qleb_le in E. apply Qleb_le. lra.
  - apply Qleb_nle in E. apply Qleb_nle. lra.
Qed.

Lemma ele_scale a b s : 0 < s -> ele (ediv a s) (ediv b s) = ele a b.
Proof.
  intros Hs. destruct a as [|x|], b as [|y|]; cbn; try reflexivity.
  assert (Hi : 0 < / s) by (apply Qinv_lt_0_compat; exact Hs).
  destruct (Qleb x y) eqn:E.
  - apply Qleb_le in E. apply Qleb_le. unfold Qdiv. apply Qmult_le_compat_r; lra.
  - apply Qleb_nle in E. apply Qleb_nle. intros H. apply E. unfold Qdiv in H.
    apply Qmult_lt_0_le_reg_r in H; assumption.
Qed.

Lemma any_gt_map2_shift lo up o : length lo = length o -> length up = length o ->
  any_gt (map2 esub_r lo o) (map2 esub_r up o) = any_gt lo up.
Proof.
  revert up o. induction lo as [|l lo IH]; intros up o Hl Hu.
  - destruct o; [|discriminate]. destruct up; [reflexivity | discriminate].
  - destruct o as [|x o]; [discriminate|]. destruct up as [|u up]; [discriminate|].
    unfold map2. cbn [combine map fst snd]. fold (map2 esub_r lo o) (map2 esub_r up o).
    rewrite !any_gt_cons, ele_shift. f_equal. apply IH; cbn in *; lia.
Qed.

Lemma any_gt_map2_scale lo up s : length lo = length s -> length up = length s -> Forall (fun x => 0 < x) s ->
  any_gt (map2 ediv lo s) (map2 ediv up s) = any_gt lo up.
Proof.
  revert up s. induction lo as [|l lo IH]; intros up s Hl Hu Hs.
  - destruct s; [|discriminate]. destruct up; [reflexivity | discriminate].
  - destruct s as [|x s]; [discriminate|]. destruct up as [|u up]; [discriminate|].
    inversion Hs as [|? ? Hx Hs']; subst.
    unfold map2. cbn [combine map fst snd]. fold (map2 ediv lo s) (map2 ediv up s).
    rewrite !any_gt_cons, (ele_scale _ _ _ Hx). f_equal. apply IH; cbn in *; try lia. exact Hs'.
Qed.

(* the scaler (positive scales) neither creates nor removes a crossing of the bounds *)
Lemma any_gt_to_opt_e n sc lo up : scaler_ok n sc = true -> length lo = n -> length up = n ->
  any_gt (to_opt_e sc lo) (to_opt_e sc up) = any_gt lo up.
Proof.
  intros Hsc Hl Hu. apply scaler_ok_spec in Hsc as [Hs Ho]. unfold to_opt_e.
  assert (H1 : any_gt (match s_offsets sc with None => lo | Some o => map2 esub_r lo o end)
                      (match s_offsets sc with None => up | Some o => map2 esub_r up o end) = any_gt lo up
               /\ length (match s_offsets sc with None => lo | Some o => map2 esub_r lo o end) = n
               /\ length (match s_offsets sc with None => up | Some o => map2 esub_r up o end) = n).
  { destruct (s_offsets sc) as [o|]; [|auto]. pose proof (Ho o eq_refl) as Hol.
    split; [apply any_gt_map2_shift; lia|]. rewrite !map2_length. lia. }
  destruct H1 as [H1 [H2 H3]].
  destruct (s_scales sc) as [s|]; [|exact H1]. destruct (Hs s eq_refl) as [Hsl Hsp].
  rewrite any_gt_map2_scale by (try exact Hsp; lia). exact H1.
Qed.

Lemma any_gt_spec lo up : any_gt lo up = true <-> crossed lo up.
Proof.
  unfold crossed. revert up. induction lo as [|l lo IH]; intros up.
  - split; [discriminate|]. intros (i & a & b & Ha & _). destruct i; discriminate.
  - destruct up as [|u up].
    + split; [discriminate|]. intros (i & a & b & _ & Hb & _). destruct i; discriminate.
    + rewrite any_gt_cons. split.
      * intros H. apply orb_prop in H as [H|H].
        -- exists 0%nat, l, u. apply negb_true_iff in H. auto.
        -- apply IH in H as (i & a & b & Ha & Hb & Hab). exists (S i), a, b. auto.
      * intros (i & a & b & Ha & Hb & Hab). destruct i as [|i]; cbn in Ha, Hb.
        -- injection Ha as ->. injection Hb as ->. rewrite Hab. reflexivity.
        -- apply orb_true_intro. right. apply IH. exists i, a, b. auto.
Qed.

(* =============================================================================================
   VariablesConfig: what the validated section is
   ============================================================================================= *)
Definition ctx_e (ctx : option scaler) (x : list ereal) : list ereal := match ctx with None => x | Some sc => to_opt_e sc x end.
Definition ctx_q (ctx : option scaler) (x : list Q) : list Q := match ctx with None => x | Some sc => to_opt_q sc x end.

Lemma validate_variables_spec E ctx v v' : validate_variables E ctx v = Ok v' ->
  let n := length (v_initial v) in
  exists lo up,
    broadcast1 n (v_lower v) = Ok lo /\ broadcast1 n (v_upper v) = Ok up /\ ctx_ok n ctx /\ any_gt lo up = false /\
    v_initial v' = ctx_q ctx (v_initial v) /\ v_lower v' = ctx_e ctx lo /\ v_upper v' = ctx_e ctx up /\
    obroadcast_of n (v_types v) (v_types v') /\ obroadcast_of n (v_mask v) (v_mask v') /\
    match v_types v with None => True | Some t => enum_ok (vt_lo E) (vt_hi E) t = true end.
Proof.
  intros H n. apply validate_variables_unfold in H. cbn zeta in H. fold n in H.
  destruct H as (lo & up & ty & mk & Hlo & Hup & Hctx & Hgt & Hty & Hmk & ->). exists lo, up. cbn.
  pose proof (broadcast1_ok _ _ _ Hlo) as [Hll _]. pose proof (broadcast1_ok _ _ _ Hup) as [Hul _].
  split; [exact Hlo|]. split; [exact Hup|]. split; [exact Hctx|]. split.
  { destruct ctx as [sc|]; [|exact Hgt]. rewrite (any_gt_to_opt_e n) in Hgt; assumption. }
  do 3 (split; [reflexivity|]). split; [|split].
  - apply omap_ok in Hty. destruct (v_types v) as [t|], ty as [t'|]; try contradiction; [|exact I].
    inv_bind_as Hty u Hg. apply broadcast1_spec; exact Hty.
  - apply omap_broadcast1_spec; exact Hmk.
  - apply omap_ok in Hty. destruct (v_types v) as [t|], ty as [t'|]; try contradiction; [|exact I].
    inv_bind_as Hty u Hg. apply guard_ok in Hg. exact Hg.
Qed.

(* =============================================================================================
   GradientConfig: lengths, thresholds and the conversion of relative magnitudes
   ============================================================================================= *)
Lemma fix_perturbations_spec E ctx vars g g2 : fix_perturbations E ctx vars g = Ok g2 ->
  let n := length (v_initial vars) in
  exists mags ty mags',
    strict_broadcast_of n (g_mags g) mags /\ strict_broadcast_of n (g_ptypes g) ty /\
    strict_broadcast_of n (g_btypes g) (g_btypes g2) /\
    relative_scale (pt_rel E) ty (v_lower vars) (v_upper vars) mags = Ok mags' /\
    g_mags g2 = match ctx with None => mags' | Some sc => select_abs (pt_abs E) ty (mags_to_opt sc mags') mags' end /\
    g_ptypes g2 = map (fun t => if Z.eqb t (pt_rel E) then pt_abs E else t) ty /\
    g_P g2 = g_P g /\ g_pmin g2 = g_pmin g /\
    length (v_lower vars) = n /\ length (v_upper vars) = n.
Proof.
  intros H n. apply fix_perturbations_unfold in H. cbn zeta in H. fold n in H.
  destruct H as (mags & bt & ty & mags' & Hm & Hb & Ht & Hr & ->). exists mags, ty, mags'. cbn.
  pose proof (bcast_to_ok _ _ _ Hm) as [Hml _]. pose proof (relative_scale_ok _ _ _ _ _ _ Hr) as (_ & _ & Hlo & Hup).
  split; [apply bcast_to_spec; exact Hm|]. split; [apply bcast_to_spec; exact Ht|]. split; [apply bcast_to_spec; exact Hb|].
  split; [exact Hr|]. do 4 (split; [reflexivity|]). split; lia.
Qed.

Lemma fix_perturbations_lengths E ctx vars g g2 : ctx_ok (length (v_initial vars)) ctx ->
  fix_perturbations E ctx vars g = Ok g2 ->
  let n := length (v_initial vars) in
  length (g_mags g2) = n /\ length (g_ptypes g2) = n /\ length (g_btypes g2) = n.
Proof.
  intros Hctx H n. apply fix_perturbations_unfold in H. cbn zeta in H. fold n in H.
  destruct H as (mags & bt & ty & mags' & Hm & Hb & Ht & Hr & ->). cbn.
  apply bcast_to_ok in Hm as [Hml _]. apply bcast_to_ok in Hb as [Hbl _]. apply bcast_to_ok in Ht as [Htl _].
  apply relative_scale_ok in Hr as [Hrl _]. split; [|split; [rewrite map_length; exact Htl | exact Hbl]].
  destruct ctx as [sc|]; [|lia]. rewrite select_abs_length, (mags_to_opt_length n) by (try exact Hctx; lia). lia.
Qed.

(* entry i of the stored magnitudes and types, without a transform: a relative magnitude is multiplied by the
   (finite) bound range and stored as an absolute one; an absolute one is unchanged *)
Lemma fix_perturbations_entry E vars g g2 mags ty i t x :
  fix_perturbations E None vars g = Ok g2 ->
  bcast_to (length (v_initial vars)) (g_mags g) = Ok mags -> bcast_to (length (v_initial vars)) (g_ptypes g) = Ok ty ->
  nth_error ty i = Some t -> nth_error mags i = Some x ->
  if Z.eqb t (pt_rel E)
  then exists a b, nth_error (v_lower vars) i = Some (Fin a) /\ nth_error (v_upper vars) i = Some (Fin b) /\
                   nth_error (g_mags g2) i = Some ((b - a) * x) /\ nth_error (g_ptypes g2) i = Some (pt_abs E)
  else nth_error (g_mags g2) i = Some x /\ nth_error (g_ptypes g2) i = Some t.
Proof.
  intros H Hm Ht Hti Hxi. apply fix_perturbations_unfold in H. cbn zeta in H.
  destruct H as (mags0 & bt & ty0 & mags' & Hm0 & Hb & Ht0 & Hr & ->). cbn.
  rewrite Hm in Hm0. injection Hm0 as <-. rewrite Ht in Ht0. injection Ht0 as <-.
  pose proof (relative_scale_entry _ _ _ _ _ _ _ _ _ Hr Hti Hxi) as He.
  assert (Hty : nth_error (map (fun t0 => if Z.eqb t0 (pt_rel E) then pt_abs E else t0) ty) i =
                Some (if Z.eqb t (pt_rel E) then pt_abs E else t)).
  { rewrite nth_error_map, Hti. reflexivity. }
  destruct (Z.eqb t (pt_rel E)).
  - destruct He as (a & b & Ha & Hb' & Hri). exists a, b. auto.
  - auto.
Qed.

Lemma validate_gradient_fields_rejects E g :
  g_P g = 0%nat \/ g_pmin g = Some 0%nat \/ enum_ok (pt_lo E) (pt_hi E) (g_ptypes g) = false \/
  enum_ok (bt_lo E) (bt_hi E) (g_btypes g) = false -> forall g1, validate_gradient_fields E g <> Ok g1.
Proof.
  intros Hbad g1 H. apply validate_gradient_fields_ok in H as (HP & Hpm & Hpt & Hbt & _).
  destruct Hbad as [Hb|[Hb|[Hb|Hb]]]; [lia | contradiction | congruence | congruence].
Qed.

(* =============================================================================================
   LinearConstraintsConfig
   ============================================================================================= *)
Definition rectangular (A : list (list Q)) : bool :=
  match A with [] => true | r :: t => forallb (fun r' => Nat.eqb (length r') (length r)) t end.

Lemma validate_linear_fields_ok l l1 : validate_linear_fields l = Ok l1 ->
  rectangular (l_coeffs l) = true /\
  broadcast1 (length (l_coeffs l)) (l_lower l) = Ok (l_lower l1) /\
  broadcast1 (length (l_coeffs l)) (l_upper l) = Ok (l_upper l1) /\
  any_gt (l_lower l1) (l_upper l1) = false /\ l_coeffs l1 = l_coeffs l.
Proof.
  unfold validate_linear_fields. cbn zeta. intros H.
  inv_bind_as H u1 Hr. inv_bind_as H lo Hlo. inv_bind_as H up Hup. inv_bind_as H u2 Hgt. injection H as <-. cbn.
  apply guard_ok in Hr, Hgt. apply negb_true_iff in Hgt. auto.
Qed.

Lemma apply_transformation_ok ctx vars l1 l2 : apply_transformation ctx vars l1 = Ok l2 ->
  Forall (fun r => length r = length (v_initial vars)) (l_coeffs l1) /\
  match ctx with None => l2 = l1 | Some sc => lin_to_opt sc l1 = Ok l2 end.
Proof.
  unfold apply_transformation. cbn zeta. intros H. inv_bind_as H u Hg. apply guard_ok in Hg. split.
  - apply Forall_forall. intros r Hr. rewrite forallb_forall in Hg. apply Nat.eqb_eq. apply Hg; exact Hr.
  - destruct ctx as [sc|]; [exact H | injection H as <-; reflexivity].
Qed.

Lemma Forall_map2 {A B C} (P : A -> Prop) (Q : C -> Prop) (f : A -> B -> C) a b :
  (forall x y, P x -> Q (f x y)) -> Forall P a -> Forall Q (map2 f a b).
Proof.
  intros Hf Ha. revert b. induction Ha as [|x a Hx Ha IH]; intros b; [constructor|].
  destruct b as [|y b]; [constructor|]. unfold map2. cbn [combine map fst snd]. constructor; [apply Hf; exact Hx | apply IH].
Qed.

Lemma lin_to_opt_wf n sc l1 l2 : scaler_ok n sc = true -> linear_wf n l1 -> lin_to_opt sc l1 = Ok l2 -> linear_wf n l2.
Proof.
  intros Hsc [Hrows Hlo Hup Hgt] H. apply scaler_ok_spec in Hsc as [Hs Ho]. unfold lin_to_opt in H. cbn zeta in H.
  set (off := match s_offsets sc with None => map (fun _ => 0) (l_coeffs l1) | Some o => map (fun row => dot row o) (l_coeffs l1) end) in *.
  set (A := match s_scales sc with None => l_coeffs l1 | Some s => map (fun row => map2 Qmult row s) (l_coeffs l1) end) in *.
  inv_bind_as H u Hsup. apply supported_ok in Hsup. injection H as <-.
  assert (Hoff : length off = length (l_coeffs l1)) by (unfold off; destruct (s_offsets sc); apply map_length).
  assert (HA : length A = length (l_coeffs l1)) by (unfold A; destruct (s_scales sc); [apply map_length | reflexivity]).
  assert (HAr : Forall (fun r => length r = n) A).
  { unfold A. destruct (s_scales sc) as [s|]; [|exact Hrows]. destruct (Hs s eq_refl) as [Hsl _].
    apply Forall_forall. intros r Hr. apply in_map_iff in Hr as [r0 [<- Hin]]. rewrite Forall_forall in Hrows.
    rewrite map2_length, (Hrows r0 Hin), Hsl. apply Nat.min_id. }
  assert (Hes : Forall (fun e => 0 < e) (map row_scale A)).
  { apply Forall_forall. intros e He. rewrite forallb_forall in Hsup. apply Qltb_lt. apply Hsup; exact He. }
  constructor; cbn [l_coeffs l_lower l_upper].
  - apply (Forall_map2 (fun r => length r = n)); [|exact HAr]. intros r e Hr. rewrite map_length. exact Hr.
  - rewrite !map2_length, map_length. lia.
  - rewrite !map2_length, map_length. lia.
  - apply any_gt_shift_scale; assumption.
Qed.

Lemma linear_validated_wf ctx n vars l l1 l2 : length (v_initial vars) = n -> ctx_ok n ctx ->
  validate_linear_fields l = Ok l1 -> apply_transformation ctx vars l1 = Ok l2 -> linear_wf n l2.
Proof.
  intros Hn Hctx H1 H2. apply validate_linear_fields_ok in H1 as (_ & Hlo & Hup & Hgt & Hc).
  apply apply_transformation_ok in H2 as [Hrows H2]. rewrite Hn in Hrows.
  apply broadcast1_ok in Hlo as [Hlo _]. apply broadcast1_ok in Hup as [Hup _].
  assert (Hwf : linear_wf n l1) by (constructor; [exact Hrows | rewrite Hc; exact Hlo | rewrite Hc; exact Hup | exact Hgt]).
  destruct ctx as [sc|]; [eapply lin_to_opt_wf; eassumption | subst l2; exact Hwf].
Qed.

Lemma rectangular_of_rows n A : Forall (fun r => length r = n) A -> rectangular A = true.
Proof.
  intros H. destruct A as [|r t]; [reflexivity|]. cbn. inversion H as [|? ? Hr Ht]; subst.
  apply forallb_forall. intros r' Hin. rewrite Forall_forall in Ht. apply Nat.eqb_eq. rewrite (Ht r' Hin). reflexivity.
Qed.

(* a well-formed linear section validates to itself without a context *)
Lemma linear_fixed n vars l : length (v_initial vars) = n -> linear_wf n l ->
  validate_linear_fields l = Ok l /\ apply_transformation None vars l = Ok l.
Proof.
  intros Hn [Hrows Hlo Hup Hgt]. split.
  - unfold validate_linear_fields. cbn zeta. fold (rectangular (l_coeffs l)). rewrite (rectangular_of_rows n _ Hrows). cbn [guard bind].
    rewrite (broadcast1_fixed _ _ Hlo). cbn [bind]. rewrite (broadcast1_fixed _ _ Hup). cbn [bind].
    rewrite Hgt. cbn [negb guard bind]. destruct l; reflexivity.
  - unfold apply_transformation. cbn zeta. rewrite Hn.
    assert (Hg : forallb (fun r => Nat.eqb (length r) n) (l_coeffs l) = true).
    { apply forallb_forall. intros r Hr. rewrite Forall_forall in Hrows. apply Nat.eqb_eq. apply Hrows; exact Hr. }
    rewrite Hg. reflexivity.
Qed.

(* =============================================================================================
   NonlinearConstraintsConfig
   ============================================================================================= *)
Definition nl_e (nls : option (list Q)) (x : list ereal) : list ereal :=
  match nls with None => x | Some s => map2 ediv x s end.

Lemma nl_ok_spec k nls : nl_ok k nls = true -> forall s, nls = Some s -> length s = k /\ Forall (fun x => 0 < x) s.
Proof.
  intros H s ->. cbn in H. apply andb_prop in H as [Hl Hp]. apply Nat.eqb_eq in Hl. split; [exact Hl|].
  apply Forall_forall. intros x Hx. rewrite forallb_forall in Hp. apply Qltb_lt. apply Hp; exact Hx.
Qed.

Lemma any_gt_nl_e k nls lo up : nl_ok k nls = true -> length lo = k -> length up = k ->
  any_gt (nl_e nls lo) (nl_e nls up) = any_gt lo up /\ length (nl_e nls lo) = k /\ length (nl_e nls up) = k.
Proof.
  intros Hok Hl Hu. destruct nls as [s|]; [|auto]. destruct (nl_ok_spec _ _ Hok s eq_refl) as [Hsl Hsp]. cbn [nl_e].
  split; [apply any_gt_map2_scale; [lia | lia | exact Hsp]|]. rewrite !map2_length. lia.
Qed.

Lemma validate_nonlinear_ok nls nl nl' : validate_nonlinear nls nl = Ok nl' ->
  exists p, bcast_pair (n_lower nl) (n_upper nl) = Ok p /\ nl_ok (length (fst p)) nls = true /\
            any_gt (fst p) (snd p) = false /\ n_lower nl' = nl_e nls (fst p) /\ n_upper nl' = nl_e nls (snd p).
Proof.
  unfold validate_nonlinear. intros H. inv_bind_as H p Hp. inv_bind_as H u0 Hs. cbn zeta in H. inv_bind_as H u Hg. injection H as <-. cbn.
  apply supported_ok in Hs. apply guard_ok in Hg. apply negb_true_iff in Hg. exists p. fold (nl_e nls (fst p)) (nl_e nls (snd p)) in *.
  destruct p as [lo up]. pose proof (bcast_pair_ok _ _ _ _ Hp) as [Hl _]. cbn [fst snd] in *.
  destruct (any_gt_nl_e _ nls lo up Hs eq_refl (eq_sym Hl)) as [He _]. rewrite He in Hg. auto.
Qed.

Lemma validate_nonlinear_wf nls nl nl' : validate_nonlinear nls nl = Ok nl' -> nonlinear_wf nl'.
Proof.
  intros H. apply validate_nonlinear_ok in H as ([lo up] & Hp & Hok & Hgt & Hlo & Hup). cbn [fst snd] in *.
  apply bcast_pair_ok in Hp as [Hl _]. destruct (any_gt_nl_e _ nls lo up Hok eq_refl (eq_sym Hl)) as (He & H1 & H2).
  constructor; rewrite Hlo, Hup; [lia | rewrite He; exact Hgt].
Qed.

Lemma nonlinear_fixed nl : nonlinear_wf nl -> validate_nonlinear None nl = Ok nl.
Proof.
  intros [Hl Hgt]. unfold validate_nonlinear. rewrite (bcast_pair_fixed _ _ Hl). cbn [bind fst snd nl_ok supported].
  rewrite Hgt. cbn [negb guard bind]. destruct nl; reflexivity.
Qed.

Lemma bcast_pair_accepts {A} (a b : list A) p : bcast_pair a b = Ok p ->
  length a = 1%nat \/ length b = 1%nat \/ length a = length b.
Proof.
  unfold bcast_pair. destruct a as [|x [|x2 ta]]; destruct b as [|y [|y2 tb]]; cbn; intros H; try discriminate; auto.
  destruct (Nat.eqb (length ta) (length tb)) eqn:E; [|discriminate]. apply Nat.eqb_eq in E. right; right. lia.
Qed.

(* =============================================================================================
   the validated configuration is canonical; a canonical configuration is a fixed point
   ============================================================================================= *)
Lemma validated_canonical E ctx nls raw c : enums_wf E -> validate E ctx nls raw = Ok c -> canonical E c.
Proof.
  intros HE H. apply validate_unfold in H.
  destruct H as (vars & ow & lin1 & nl & rw & g1 & lin & g & Hv & How & Hl1 & Hnl & Hrw & Hg1 & Hl & Hg & ->).
  pose proof (validate_variables_wf _ _ _ _ Hv) as [Hvwf Hctx].
  set (n := length (v_initial (c_vars raw))) in *.
  assert (Hn : length (v_initial vars) = n) by (destruct Hvwf; assumption).
  constructor; cbn [c_vars c_obj_w c_real_w c_rmin c_grad c_lin c_nonlin]; rewrite ?Hn.
  - exact Hvwf.
  - eapply normalize_sum; exact How.
  - eapply normalize_sum; exact Hrw.
  - rewrite clamp_min_spec. eexists. split; [reflexivity|]. destruct (c_rmin raw); lia.
  - eapply gradient_validated_wf; eassumption.
  - apply omap_ok in Hl. destruct lin1 as [l1|], lin as [l2|]; try contradiction; [|exact I].
    apply omap_ok in Hl1. destruct (c_lin raw) as [l|]; [|contradiction].
    eapply linear_validated_wf; eassumption.
  - apply omap_ok in Hnl. destruct (c_nonlin raw) as [x|], nl as [x'|]; try contradiction; [|exact I].
    eapply validate_nonlinear_wf; exact Hnl.
Qed.

Lemma canonical_fixed E c : canonical E c -> exists c', validate E None None c = Ok c' /\ same_but_weights c c'.
Proof.
  intros [Hv Ho Hr [k [Hk Hkr]] Hg Hl Hnl].
  set (n := length (v_initial (c_vars c))) in *.
  destruct (normalize_unit _ Ho) as (ow & How & Hoe & _). destruct (normalize_unit _ Hr) as (rw & Hrw & Hre & Hrl).
  destruct (gradient_fixed E n (c_vars c) (c_grad c) Hv Hg) as [Hg1 Hg2].
  assert (Hl1 : omap validate_linear_fields (c_lin c) = Ok (c_lin c) /\ omap (apply_transformation None (c_vars c)) (c_lin c) = Ok (c_lin c)).
  { destruct (c_lin c) as [l|]; [|split; reflexivity]. destruct (linear_fixed n (c_vars c) l eq_refl Hl) as [H1 H2].
    cbn [omap]. rewrite H1, H2. split; reflexivity. }
  destruct Hl1 as [Hl1 Hl2].
  assert (Hn1 : omap (validate_nonlinear None) (c_nonlin c) = Ok (c_nonlin c)).
  { destruct (c_nonlin c) as [nl|]; [|reflexivity]. cbn [omap]. rewrite (nonlinear_fixed nl Hnl). reflexivity. }
  eexists. split.
  - apply (validate_fold E None None c (c_vars c) ow (c_lin c) (c_nonlin c) rw (c_grad c) (c_lin c) (c_grad c));
      try assumption. eapply validate_variables_fixed; exact Hv.
  - unfold same_but_weights. cbn [c_vars c_obj_w c_real_w c_rmin c_grad c_lin c_nonlin].
    split; [reflexivity|]. split; [rewrite Hrl, Hk, clamp_min_spec; f_equal; lia|].
    do 3 (split; [reflexivity|]). split; assumption.
Qed.

Lemma same_but_weights_equiv c c' : same_but_weights c c' -> equiv c c' = true.
Proof.
  intros (Hv & Hr & Hg & Hl & Hn & Ho & Hw). unfold equiv. rewrite Hv, Hr, Hg, Hl, Hn, Ho, Hw.
  rewrite variables_equiv_refl, onat_eqb_refl, gradient_equiv_refl.
  rewrite (option_eqb_refl _ _ linear_equiv_refl), (option_eqb_refl _ _ nonlinear_equiv_refl). reflexivity.
Qed.

(* idempotence: the dump of a validated configuration validates (without a context) to an equivalent one *)
Lemma validate_idempotent E ctx nls raw c : enums_wf E -> validate E ctx nls raw = Ok c ->
  exists c', validate E None None (dump c) = Ok c' /\ same_but_weights c c' /\ equiv c c' = true /\ canonical E c'.
Proof.
  intros HE H. pose proof (validated_canonical _ _ _ _ _ HE H) as Hc.
  destruct (canonical_fixed _ _ Hc) as (c' & Hv & Hs). exists c'. unfold dump.
  split; [exact Hv|]. split; [exact Hs|]. split; [apply same_but_weights_equiv; exact Hs|].
  eapply validated_canonical; eassumption.
Qed.

(* the clause behind fix 8967086: re-validation leaves the magnitudes (already converted to absolute ones) and
   the bounds exactly as they are, because no stored perturbation type is RELATIVE any more *)
Lemma revalidation_keeps_magnitudes E ctx nls raw c c' : enums_wf E ->
  validate E ctx nls raw = Ok c -> validate E None None (dump c) = Ok c' ->
  g_mags (c_grad c') = g_mags (c_grad c) /\ g_ptypes (c_grad c') = g_ptypes (c_grad c) /\
  Forall (fun t => t <> pt_rel E) (g_ptypes (c_grad c)) /\
  v_lower (c_vars c') = v_lower (c_vars c) /\ v_upper (c_vars c') = v_upper (c_vars c).
Proof.
  intros HE H H'. destruct (validate_idempotent _ _ _ _ _ HE H) as (c2 & Hv & (Hvars & _ & Hg & _) & _ & _).
  rewrite H' in Hv. injection Hv as <-. rewrite Hg, Hvars.
  pose proof (validated_canonical _ _ _ _ _ HE H) as [_ _ _ _ Hgw _ _]. destruct Hgw. auto.
Qed.

(* why the stored type matters: had the type stayed RELATIVE, every re-validation would multiply by the range again *)
Lemma relative_scale_rescales rel a b x : relative_scale rel [rel] [Fin a] [Fin b] [x] = Ok [(b - a) * x].
Proof. cbn. rewrite Z.eqb_refl. reflexivity. Qed.

(* =============================================================================================
   canonical form, per clause (lengths, values, thresholds)
   ============================================================================================= *)
Lemma validate_lengths E ctx nls raw c : validate E ctx nls raw = Ok c ->
  let V := length (v_initial (c_vars raw)) in
  length (v_initial (c_vars c)) = V /\ length (v_lower (c_vars c)) = V /\ length (v_upper (c_vars c)) = V /\
  olen V (v_types (c_vars c)) /\ olen V (v_mask (c_vars c)) /\
  length (g_mags (c_grad c)) = V /\ length (g_ptypes (c_grad c)) = V /\ length (g_btypes (c_grad c)) = V /\
  length (c_obj_w c) = length (c_obj_w raw) /\ length (c_real_w c) = length (c_real_w raw) /\
  match c_lin raw, c_lin c with
  | Some l, Some l' => length (l_coeffs l') = length (l_coeffs l) /\ length (l_lower l') = length (l_coeffs l) /\
                       length (l_upper l') = length (l_coeffs l) /\ Forall (fun r => length r = V) (l_coeffs l')
  | None, None => True | _, _ => False end /\
  match c_nonlin raw, c_nonlin c with
  | Some nl, Some nl' => length (n_lower nl') = length (n_upper nl') /\
                         (length (n_lower nl') = length (n_lower nl) \/ length (n_lower nl') = length (n_upper nl))
  | None, None => True | _, _ => False end.
Proof.
  intros H V. apply validate_unfold in H.
  destruct H as (vars & ow & lin1 & nl & rw & g1 & lin & g & Hv & How & Hl1 & Hnl & Hrw & Hg1 & Hl & Hg & ->).
  pose proof (validate_variables_wf _ _ _ _ Hv) as [[Hi Hlo Hup _ Hty Hmk] Hctx]. fold V in Hi, Hlo, Hup, Hty, Hmk, Hctx.
  cbn [c_vars c_obj_w c_real_w c_rmin c_grad c_lin c_nonlin].
  assert (Hctx' : ctx_ok (length (v_initial vars)) ctx) by (rewrite Hi; exact Hctx).
  pose proof (fix_perturbations_lengths _ _ _ _ _ Hctx' Hg) as Hgl. cbn zeta in Hgl. rewrite Hi in Hgl.
  destruct Hgl as (Hg_m & Hg_t & Hg_b).
  split; [exact Hi|]. split; [exact Hlo|]. split; [exact Hup|].
  split; [destruct (v_types vars); [apply Hty | exact I]|]. split; [exact Hmk|].
  split; [exact Hg_m|]. split; [exact Hg_t|]. split; [exact Hg_b|].
  split; [eapply normalize_length; exact How|]. split; [eapply normalize_length; exact Hrw|]. split.
  - apply omap_ok in Hl1. apply omap_ok in Hl.
    destruct (c_lin raw) as [l|], lin1 as [l1|]; try contradiction; destruct lin as [l2|]; try contradiction; [|exact I].
    pose proof (linear_validated_wf ctx V vars l l1 l2 Hi Hctx Hl1 Hl) as [Hrows Hlo2 Hup2 _].
    apply validate_linear_fields_ok in Hl1 as (_ & _ & _ & _ & Hc).
    assert (Hlen : length (l_coeffs l2) = length (l_coeffs l)).
    { apply apply_transformation_ok in Hl as [_ Hl]. destruct ctx as [sc|]; [|subst l2; rewrite Hc; reflexivity].
      unfold lin_to_opt in Hl. cbn zeta in Hl. inv_bind_as Hl u Hsup. injection Hl as <-. cbn [l_coeffs].
      rewrite map2_length, map_length, Nat.min_id, <- Hc. destruct (s_scales sc); [apply map_length | reflexivity]. }
    rewrite <- Hlen. auto.
  - apply omap_ok in Hnl. destruct (c_nonlin raw) as [x|], nl as [x'|]; try contradiction; [|exact I].
    pose proof (validate_nonlinear_wf _ _ _ Hnl) as [Hl' _]. split; [exact Hl'|].
    apply validate_nonlinear_ok in Hnl as ([nlo nup] & Hp & Hok & _ & Hnlo & _). cbn [fst snd] in *.
    pose proof (bcast_pair_ok _ _ _ _ Hp) as (Hll & Ha & _).
    destruct (any_gt_nl_e _ nls nlo nup Hok eq_refl (eq_sym Hll)) as (_ & H1 & _). rewrite Hnlo, H1.
    rewrite Ha. unfold expand. destruct (n_lower x) as [|y [|y2 t]]; [left; reflexivity | right; apply repeat_length | left; reflexivity].
Qed.

Lemma validate_thresholds E ctx nls raw c : validate E ctx nls raw = Ok c ->
  c_rmin c = min_threshold (c_rmin raw) (length (c_real_w raw)) /\
  g_P (c_grad c) = g_P (c_grad raw) /\ (0 < g_P (c_grad raw))%nat /\
  g_pmin (c_grad c) = min_threshold (g_pmin (c_grad raw)) (g_P (c_grad raw)).
Proof.
  intros H. apply validate_unfold in H.
  destruct H as (vars & ow & lin1 & nl & rw & g1 & lin & g & Hv & How & Hl1 & Hnl & Hrw & Hg1 & Hl & Hg & ->).
  cbn [c_vars c_obj_w c_real_w c_rmin c_grad c_lin c_nonlin]. unfold min_threshold.
  apply validate_gradient_fields_ok in Hg1 as (HP & _ & _ & _ & ->).
  apply fix_perturbations_unfold in Hg. cbn zeta in Hg. destruct Hg as (m & bt & ty & m' & _ & _ & _ & _ & ->).
  cbn [g_P g_pmin]. rewrite !clamp_min_spec, (normalize_length _ _ Hrw). auto.
Qed.

(* the values: every per-variable array is the given vector or the repeated scalar (bounds and initial values then
   mapped by the context's scaler); types and masks are never transformed *)
Lemma validate_values E ctx nls raw c : validate E ctx nls raw = Ok c ->
  let V := length (v_initial (c_vars raw)) in
  exists lo up,
    broadcast_of V (v_lower (c_vars raw)) lo /\ broadcast_of V (v_upper (c_vars raw)) up /\
    v_initial (c_vars c) = ctx_q ctx (v_initial (c_vars raw)) /\
    v_lower (c_vars c) = ctx_e ctx lo /\ v_upper (c_vars c) = ctx_e ctx up /\
    obroadcast_of V (v_types (c_vars raw)) (v_types (c_vars c)) /\
    obroadcast_of V (v_mask (c_vars raw)) (v_mask (c_vars c)) /\
    strict_broadcast_of V (g_btypes (c_grad raw)) (g_btypes (c_grad c)).
Proof.
  intros H V. apply validate_unfold in H.
  destruct H as (vars & ow & lin1 & nl & rw & g1 & lin & g & Hv & How & Hl1 & Hnl & Hrw & Hg1 & Hl & Hg & ->).
  cbn [c_vars c_obj_w c_real_w c_rmin c_grad c_lin c_nonlin].
  pose proof (validate_variables_wf _ _ _ _ Hv) as [[Hi _ _ _ _ _] _].
  apply validate_variables_spec in Hv. cbn zeta in Hv. fold V in Hv, Hi.
  destruct Hv as (lo & up & Hlo & Hup & _ & _ & Hini & Hl' & Hu' & Hty & Hmk & _).
  exists lo, up. split; [apply broadcast1_spec; exact Hlo|]. split; [apply broadcast1_spec; exact Hup|].
  do 5 (split; [assumption|]).
  apply validate_gradient_fields_ok in Hg1 as (_ & _ & _ & _ & ->).
  apply fix_perturbations_spec in Hg. cbn zeta in Hg. rewrite Hi in Hg. cbn [g_btypes] in Hg.
  destruct Hg as (m & ty & m' & _ & _ & Hb & _). exact Hb.
Qed.

(* =============================================================================================
   rejections (every theorem: the named inconsistency => validate does not return a configuration)
   ============================================================================================= *)
(* crossed variable bounds, with or without a scaler in the context *)
Lemma rejects_crossed_variable_bounds E ctx nls raw lo up :
  broadcast1 (length (v_initial (c_vars raw))) (v_lower (c_vars raw)) = Ok lo ->
  broadcast1 (length (v_initial (c_vars raw))) (v_upper (c_vars raw)) = Ok up ->
  crossed lo up -> forall c, validate E ctx nls raw <> Ok c.
Proof.
  intros Hlo Hup Hx c H. apply any_gt_spec in Hx. apply validate_unfold in H. destruct H as (vars & ow & lin1 & nl & rw & g1 & lin & g & Hv & _).
  apply validate_variables_spec in Hv. cbn zeta in Hv. destruct Hv as (lo' & up' & Hlo' & Hup' & _ & Hgt & _).
  congruence.
Qed.

Lemma rejects_crossed_linear_bounds E ctx nls raw l lo up : c_lin raw = Some l ->
  broadcast1 (length (l_coeffs l)) (l_lower l) = Ok lo -> broadcast1 (length (l_coeffs l)) (l_upper l) = Ok up ->
  crossed lo up -> forall c, validate E ctx nls raw <> Ok c.
Proof.
  intros Hl Hlo Hup Hx c H. apply any_gt_spec in Hx. apply validate_unfold in H.
  destruct H as (vars & ow & lin1 & nl & rw & g1 & lin & g & _ & _ & Hl1 & _).
  rewrite Hl in Hl1. apply omap_ok in Hl1. destruct lin1 as [l1|]; [|contradiction].
  apply validate_linear_fields_ok in Hl1 as (_ & Hlo' & Hup' & Hgt & _). congruence.
Qed.

Lemma rejects_crossed_nonlinear_bounds E ctx nls raw nl p : c_nonlin raw = Some nl ->
  bcast_pair (n_lower nl) (n_upper nl) = Ok p -> crossed (fst p) (snd p) -> forall c, validate E ctx nls raw <> Ok c.
Proof.
  intros Hn Hp Hx c H. apply any_gt_spec in Hx. apply validate_unfold in H.
  destruct H as (vars & ow & lin1 & nl' & rw & g1 & lin & g & _ & _ & _ & Hnl & _).
  rewrite Hn in Hnl. apply omap_ok in Hnl. destruct nl' as [x|]; [|contradiction].
  apply validate_nonlinear_ok in Hnl as (p' & Hp' & _ & Hgt & _). rewrite Hp in Hp'. injection Hp' as <-. congruence.
Qed.

(* shapes: an array that is neither a scalar nor of full length *)
Definition bad_length {A} (n : nat) (l : list A) : Prop := length l <> 1%nat /\ length l <> n.
Definition obad_length {A} (n : nat) (o : option (list A)) : Prop := match o with None => False | Some l => bad_length n l end.

Lemma rejects_bad_variable_shapes E ctx nls raw : let V := length (v_initial (c_vars raw)) in
  V <> 0%nat ->
  bad_length V (v_lower (c_vars raw)) \/ bad_length V (v_upper (c_vars raw)) \/
  obad_length V (v_types (c_vars raw)) \/ obad_length V (v_mask (c_vars raw)) ->
  forall c, validate E ctx nls raw <> Ok c.
Proof.
  intros V HV Hbad c H. apply validate_unfold in H. destruct H as (vars & ow & lin1 & nl & rw & g1 & lin & g & Hv & _).
  apply validate_variables_unfold in Hv. cbn zeta in Hv. fold V in Hv.
  destruct Hv as (lo & up & ty & mk & Hlo & Hup & _ & _ & Hty & Hmk & _).
  destruct Hbad as [[H1 Hn]|[[H1 Hn]|[Hb|Hb]]].
  - apply broadcast1_accepts in Hlo. lia.
  - apply broadcast1_accepts in Hup. lia.
  - destruct (v_types (c_vars raw)) as [t|]; [|contradiction]. destruct Hb as [H1 Hn].
    apply omap_ok in Hty. destruct ty as [t'|]; [|contradiction]. inv_bind_as Hty u Hg. apply broadcast1_accepts in Hty. lia.
  - destruct (v_mask (c_vars raw)) as [m|]; [|contradiction]. destruct Hb as [H1 Hn].
    apply omap_ok in Hmk. destruct mk as [m'|]; [|contradiction]. apply broadcast1_accepts in Hmk. lia.
Qed.

Lemma rejects_bad_gradient_shapes E ctx nls raw : let V := length (v_initial (c_vars raw)) in
  bad_length V (g_mags (c_grad raw)) \/ bad_length V (g_ptypes (c_grad raw)) \/ bad_length V (g_btypes (c_grad raw)) ->
  forall c, validate E ctx nls raw <> Ok c.
Proof.
  intros V Hbad c H. apply validate_unfold in H. destruct H as (vars & ow & lin1 & nl & rw & g1 & lin & g & Hv & _ & _ & _ & _ & Hg1 & _ & Hg & _).
  pose proof (validate_variables_wf _ _ _ _ Hv) as [[Hi _ _ _ _ _] _]. fold V in Hi.
  apply validate_gradient_fields_ok in Hg1 as (_ & _ & _ & _ & ->).
  apply fix_perturbations_unfold in Hg. cbn zeta in Hg. rewrite Hi in Hg. cbn [g_mags g_ptypes g_btypes] in Hg.
  destruct Hg as (m & bt & ty & m' & Hm & Hb & Ht & _).
  apply bcast_to_accepts in Hm, Hb, Ht. destruct Hbad as [[H1 Hn]|[[H1 Hn]|[H1 Hn]]]; lia.
Qed.

Lemma rejects_bad_linear_shapes E ctx nls raw l : let V := length (v_initial (c_vars raw)) in
  c_lin raw = Some l ->
  ~ Forall (fun r => length r = V) (l_coeffs l) \/
  (l_coeffs l <> [] /\ (bad_length (length (l_coeffs l)) (l_lower l) \/ bad_length (length (l_coeffs l)) (l_upper l))) ->
  forall c, validate E ctx nls raw <> Ok c.
Proof.
  intros V Hl Hbad c H. apply validate_unfold in H.
  destruct H as (vars & ow & lin1 & nl & rw & g1 & lin & g & Hv & _ & Hl1 & _ & _ & _ & Hl2 & _).
  pose proof (validate_variables_wf _ _ _ _ Hv) as [[Hi _ _ _ _ _] _]. fold V in Hi.
  rewrite Hl in Hl1. apply omap_ok in Hl1. destruct lin1 as [l1|]; [|contradiction].
  apply validate_linear_fields_ok in Hl1 as (_ & Hlo & Hup & _ & Hc).
  destruct Hbad as [Hb|[Hne [[H1 Hn]|[H1 Hn]]]].
  - apply omap_ok in Hl2. destruct lin as [l2|]; [|contradiction]. apply apply_transformation_ok in Hl2 as [Hrows _].
    rewrite Hi, Hc in Hrows. contradiction.
  - apply broadcast1_accepts in Hlo. destruct (l_coeffs l); [contradiction | cbn in *; lia].
  - apply broadcast1_accepts in Hup. destruct (l_coeffs l); [contradiction | cbn in *; lia].
Qed.

Lemma rejects_bad_nonlinear_shapes E ctx nls raw nl : c_nonlin raw = Some nl ->
  length (n_lower nl) <> 1%nat -> length (n_upper nl) <> 1%nat -> length (n_lower nl) <> length (n_upper nl) ->
  forall c, validate E ctx nls raw <> Ok c.
Proof.
  intros Hn H1 H2 H3 c H. apply validate_unfold in H.
  destruct H as (vars & ow & lin1 & nl' & rw & g1 & lin & g & _ & _ & _ & Hnl & _).
  rewrite Hn in Hnl. apply omap_ok in Hnl. destruct nl' as [x|]; [|contradiction].
  apply validate_nonlinear_ok in Hnl as (p & Hp & _). apply bcast_pair_accepts in Hp. lia.
Qed.

(* nth_error through the scaler: finiteness of a bound is not changed by it *)
Lemma nth_error_map2 {A B C} (f : A -> B -> C) a b i z : nth_error (map2 f a b) i = Some z ->
  exists x y, nth_error a i = Some x /\ nth_error b i = Some y /\ z = f x y.
Proof.
  revert b i. induction a as [|x a IH]; intros b i H; [destruct i; discriminate|].
  destruct b as [|y b]; [destruct i; discriminate|]. destruct i as [|i].
  - cbn in H. injection H as <-. exists x, y. auto.
  - unfold map2 in H. cbn [combine map nth_error] in H. apply IH in H. exact H.
Qed.

Lemma to_opt_e_finite sc lo i e' : nth_error (to_opt_e sc lo) i = Some e' ->
  exists e, nth_error lo i = Some e /\ efinite e' = efinite e.
Proof.
  unfold to_opt_e. intros H.
  assert (H1 : forall x z, nth_error (match s_offsets sc with None => x | Some o => map2 esub_r x o end) i = Some z ->
                           exists e, nth_error x i = Some e /\ efinite z = efinite e).
  { intros x z Hz. destruct (s_offsets sc) as [o|]; [|exists z; auto].
    apply nth_error_map2 in Hz as (e & y & He & _ & ->). exists e. split; [exact He | destruct e; reflexivity]. }
  destruct (s_scales sc) as [s|]; [|apply H1; exact H].
  apply nth_error_map2 in H as (z & y & Hz & _ & ->). apply H1 in Hz as (e & He & Hf). exists e.
  split; [exact He | rewrite <- Hf; destruct z; reflexivity].
Qed.

(* a relative perturbation on a variable with an infinite bound (bounds as broadcast; the scaler keeps them infinite) *)
Lemma rejects_relative_infinite E ctx nls raw lo up ty i a b :
  let V := length (v_initial (c_vars raw)) in
  broadcast1 V (v_lower (c_vars raw)) = Ok lo -> broadcast1 V (v_upper (c_vars raw)) = Ok up ->
  bcast_to V (g_ptypes (c_grad raw)) = Ok ty ->
  nth_error ty i = Some (pt_rel E) -> nth_error lo i = Some a -> nth_error up i = Some b ->
  efinite a && efinite b = false -> forall c, validate E ctx nls raw <> Ok c.
Proof.
  intros V Hlo Hup Hty Hti Ha Hb Hinf c H. apply validate_unfold in H.
  destruct H as (vars & ow & lin1 & nl & rw & g1 & lin & g & Hv & _ & _ & _ & _ & Hg1 & _ & Hg & _).
  pose proof (validate_variables_wf _ _ _ _ Hv) as [[Hi _ _ _ _ _] _]. fold V in Hi.
  apply validate_variables_spec in Hv. cbn zeta in Hv. fold V in Hv.
  destruct Hv as (lo' & up' & Hlo' & Hup' & _ & _ & _ & Hl' & Hu' & _).
  rewrite Hlo in Hlo'. injection Hlo' as <-. rewrite Hup in Hup'. injection Hup' as <-.
  apply validate_gradient_fields_ok in Hg1 as (_ & _ & _ & _ & ->).
  apply fix_perturbations_unfold in Hg. cbn zeta in Hg. rewrite Hi in Hg. cbn [g_mags g_ptypes g_btypes] in Hg.
  destruct Hg as (m & bt & ty' & m' & Hm & _ & Ht & Hr & _). rewrite Hty in Ht. injection Ht as <-.
  pose proof (relative_scale_ok _ _ _ _ _ _ Hr) as (_ & Htl & _ & _).
  assert (Hx : exists x, nth_error m i = Some x).
  { destruct (nth_error m i) as [x|] eqn:Ex; [exists x; reflexivity|]. apply nth_error_None in Ex.
    assert (i < length ty)%nat by (apply nth_error_Some; congruence). lia. }
  destruct Hx as [x Hx]. pose proof (relative_scale_entry _ _ _ _ _ _ _ _ _ Hr Hti Hx) as He. rewrite Z.eqb_refl in He.
  destruct He as (a' & b' & Ha' & Hb' & _). rewrite Hl' in Ha'. rewrite Hu' in Hb'.
  assert (Hfa : efinite a = true /\ efinite b = true).
  { destruct ctx as [sc|]; cbn [ctx_e] in Ha', Hb'.
    - apply to_opt_e_finite in Ha' as (ea & Hea & Hfa). apply to_opt_e_finite in Hb' as (eb & Heb & Hfb).
      rewrite Ha in Hea. injection Hea as <-. rewrite Hb in Heb. injection Heb as <-. cbn in Hfa, Hfb. auto.
    - rewrite Ha in Ha'. injection Ha' as ->. rewrite Hb in Hb'. injection Hb' as ->. auto. }
  destruct Hfa as [Hfa Hfb]. rewrite Hfa, Hfb in Hinf. discriminate.
Qed.

Lemma rejects_bad_gradient_fields E ctx nls raw :
  g_P (c_grad raw) = 0%nat \/ g_pmin (c_grad raw) = Some 0%nat \/
  enum_ok (pt_lo E) (pt_hi E) (g_ptypes (c_grad raw)) = false \/ enum_ok (bt_lo E) (bt_hi E) (g_btypes (c_grad raw)) = false ->
  forall c, validate E ctx nls raw <> Ok c.
Proof.
  intros Hbad c H. apply validate_unfold in H. destruct H as (vars & ow & lin1 & nl & rw & g1 & lin & g & _ & _ & _ & _ & _ & Hg1 & _).
  eapply validate_gradient_fields_rejects; eassumption.
Qed.

(* =============================================================================================
   the flag machine
   ============================================================================================= *)
Lemma finals_app sts a b : finals sts (a ++ b) = finals (finals sts a) b.
Proof.
  revert sts. induction a as [|[c|blk] a IH]; intros sts; cbn [app finals]; [reflexivity | apply IH | apply IH].
Qed.

(* items after which an immutable object is immutable again: _immutable(), or a block that is empty or ends with it *)
Definition keeps_immutable (it : fitem) : bool :=
  match it with
  | Call FI => true
  | Call FM => false
  | Cond b => match rev b with [] => true | FI :: _ => true | FM :: _ => false end
  end.

Lemma run_calls_last st b c : run_calls st (b ++ [c]) = run_call (run_calls st b) c.
Proof. unfold run_calls. rewrite fold_left_app. reflexivity. Qed.

Lemma forallb_map_const {A B} (p : B -> bool) (f : A -> B) l : (forall x, p (f x) = true) -> forallb p (map f l) = true.
Proof. intros H. induction l as [|x l IH]; cbn; [reflexivity | rewrite H, IH; reflexivity]. Qed.

Lemma finals_keep sts items : forallb is_immutable sts = true -> forallb keeps_immutable items = true ->
  forallb is_immutable (finals sts items) = true.
Proof.
  revert sts. induction items as [|it items IH]; intros sts Hs Hk; [exact Hs|].
  cbn [forallb] in Hk. apply andb_prop in Hk as [Hit Hk]. destruct it as [c|b]; cbn [finals].
  - destruct c; [discriminate|]. apply IH; [|exact Hk]. apply forallb_map_const. reflexivity.
  - apply IH; [|exact Hk]. rewrite forallb_app, Hs. cbn [andb]. cbn [keeps_immutable] in Hit.
    destruct (rev b) as [|c r] eqn:Er.
    + assert (b = []) by (rewrite <- (rev_involutive b), Er; reflexivity). subst b. cbn. rewrite map_id. exact Hs.
    + assert (Eb : b = rev r ++ [c]) by (rewrite <- (rev_involutive b), Er; reflexivity). destruct c; [discriminate|].
      apply forallb_map_const. intros st. rewrite Eb, run_calls_last. reflexivity.
Qed.

(* the discipline: whatever ran before (any calls, any conditional blocks, any start state), a validator sequence whose
   last unconditional call is _immutable(), followed only by items that keep an immutable object immutable, leaves the
   object immutable on every path *)
Lemma finals_discipline sts pre post : forallb keeps_immutable post = true ->
  forallb is_immutable (finals sts (pre ++ Call FI :: post)) = true.
Proof.
  intros Hk. rewrite finals_app. cbn [finals]. apply finals_keep; [|exact Hk]. apply forallb_map_const. reflexivity.
Qed.

(* conversely a class without any call stays Unset, and one whose last call is _mutable() ends mutable: not frozen *)
Lemma finals_last_mutable sts pre : sts <> [] -> forallb is_immutable (finals sts (pre ++ [Call FM])) = false.
Proof.
  intros Hne. rewrite finals_app. cbn [finals]. destruct (finals sts pre) as [|st l] eqn:E.
  - exfalso. revert sts Hne E. induction pre as [|[c|b] pre IH]; intros sts Hne E; cbn [finals] in E.
    + contradiction.
    + apply (IH (map (fun st => run_call st c) sts)); [destruct sts; [contradiction | discriminate] | exact E].
    + apply (IH (sts ++ map (fun st => run_calls st b) sts)); [destruct sts; [contradiction | discriminate] | exact E].
  - reflexivity.
Qed.

(* =============================================================================================
   the stored perturbation magnitudes and types, at the level of validate (no transform)
   ============================================================================================= *)
Lemma validate_perturbations E nls raw c mags ty i t x :
  let V := length (v_initial (c_vars raw)) in
  validate E None nls raw = Ok c ->
  bcast_to V (g_mags (c_grad raw)) = Ok mags -> bcast_to V (g_ptypes (c_grad raw)) = Ok ty ->
  nth_error ty i = Some t -> nth_error mags i = Some x ->
  if Z.eqb t (pt_rel E)
  then exists a b, nth_error (v_lower (c_vars c)) i = Some (Fin a) /\ nth_error (v_upper (c_vars c)) i = Some (Fin b) /\
                   nth_error (g_mags (c_grad c)) i = Some ((b - a) * x) /\ nth_error (g_ptypes (c_grad c)) i = Some (pt_abs E)
  else nth_error (g_mags (c_grad c)) i = Some x /\ nth_error (g_ptypes (c_grad c)) i = Some t.
Proof.
  intros V H Hm Ht Hti Hxi. apply validate_unfold in H.
  destruct H as (vars & ow & lin1 & nl & rw & g1 & lin & g & Hv & _ & _ & _ & _ & Hg1 & _ & Hg & ->).
  cbn [c_vars c_grad].
  pose proof (validate_variables_wf _ _ _ _ Hv) as [[Hi _ _ _ _ _] _]. fold V in Hi.
  apply validate_gradient_fields_ok in Hg1 as (_ & _ & _ & _ & ->).
  eapply (fix_perturbations_entry E vars _ g mags ty i t x Hg); cbn [g_mags g_ptypes]; rewrite ?Hi; assumption.
Qed.

(* =============================================================================================
   completeness: a consistent dictionary is accepted (no transform in the context)
   ============================================================================================= *)
Definition nvars (raw : config) : nat := length (v_initial (c_vars raw)).
Definition can_broadcast {A} (n : nat) (l : list A) : Prop := length l = 1%nat \/ length l = n.
Definition can_broadcast1 {A} (n : nat) (l : list A) : Prop := n = 0%nat \/ can_broadcast n l.
(* the result of broadcast_1d_array(l, n) *)
Definition bresult1 {A} (n : nat) (l : list A) : list A := if Nat.eqb n 0 then [] else expand n l.

Record consistent (E : enums) (raw : config) : Prop := {
  cs_lower : can_broadcast1 (nvars raw) (v_lower (c_vars raw));
  cs_upper : can_broadcast1 (nvars raw) (v_upper (c_vars raw));
  cs_order : ~ crossed (bresult1 (nvars raw) (v_lower (c_vars raw))) (bresult1 (nvars raw) (v_upper (c_vars raw)));
  cs_types : match v_types (c_vars raw) with None => True
             | Some t => enum_ok (vt_lo E) (vt_hi E) t = true /\ can_broadcast1 (nvars raw) t end;
  cs_mask : match v_mask (c_vars raw) with None => True | Some m => can_broadcast1 (nvars raw) m end;
  cs_obj : float_eps <= qsum (c_obj_w raw);
  cs_real : float_eps <= qsum (c_real_w raw);
  cs_P : (0 < g_P (c_grad raw))%nat;
  cs_pmin : g_pmin (c_grad raw) <> Some 0%nat;
  cs_ptypes : enum_ok (pt_lo E) (pt_hi E) (g_ptypes (c_grad raw)) = true /\ can_broadcast (nvars raw) (g_ptypes (c_grad raw));
  cs_btypes : enum_ok (bt_lo E) (bt_hi E) (g_btypes (c_grad raw)) = true /\ can_broadcast (nvars raw) (g_btypes (c_grad raw));
  cs_mags : can_broadcast (nvars raw) (g_mags (c_grad raw));
  cs_relative : forall i, nth_error (expand (nvars raw) (g_ptypes (c_grad raw))) i = Some (pt_rel E) ->
                exists a b, nth_error (bresult1 (nvars raw) (v_lower (c_vars raw))) i = Some (Fin a) /\
                            nth_error (bresult1 (nvars raw) (v_upper (c_vars raw))) i = Some (Fin b);
  cs_lin : match c_lin raw with None => True | Some l =>
             Forall (fun r => length r = nvars raw) (l_coeffs l) /\
             can_broadcast1 (length (l_coeffs l)) (l_lower l) /\ can_broadcast1 (length (l_coeffs l)) (l_upper l) /\
             ~ crossed (bresult1 (length (l_coeffs l)) (l_lower l)) (bresult1 (length (l_coeffs l)) (l_upper l)) end;
  cs_nonlin : match c_nonlin raw with None => True | Some nl =>
             (length (n_lower nl) = 1%nat \/ length (n_upper nl) = 1%nat \/ length (n_lower nl) = length (n_upper nl)) /\
             ~ crossed (expand (length (n_upper nl)) (n_lower nl)) (expand (length (n_lower nl)) (n_upper nl)) end
}.

Lemma bcast_to_total {A} n (l : list A) : can_broadcast n l -> bcast_to n l = Ok (expand n l).
Proof.
  intros [H|H]; unfold bcast_to, expand; destruct l as [|x [|y t]]; try reflexivity; try discriminate;
    rewrite H, Nat.eqb_refl; reflexivity.
Qed.

Lemma broadcast1_total {A} n (l : list A) : can_broadcast1 n l -> broadcast1 n l = Ok (bresult1 n l).
Proof.
  intros H. unfold broadcast1, bresult1. destruct (Nat.eqb n 0) eqn:E; [reflexivity|].
  destruct H as [H|H]; [apply Nat.eqb_neq in E; contradiction | apply bcast_to_total; exact H].
Qed.

Lemma not_crossed_any_gt lo up : ~ crossed lo up -> any_gt lo up = false.
Proof. intros H. destruct (any_gt lo up) eqn:E; [apply any_gt_spec in E; contradiction | reflexivity]. Qed.

Lemma bcast_pair_total {A} (a b : list A) : length a = 1%nat \/ length b = 1%nat \/ length a = length b ->
  bcast_pair a b = Ok (expand (length b) a, expand (length a) b).
Proof.
  intros H. unfold bcast_pair, expand. destruct a as [|x [|x2 ta]]; destruct b as [|y [|y2 tb]]; cbn in *; try reflexivity;
    try (exfalso; lia).
  destruct H as [H|[H|H]]; try (exfalso; lia). injection H as H. rewrite H, Nat.eqb_refl. reflexivity.
Qed.

Lemma relative_scale_total rel ty lo up m : length ty = length m -> length lo = length m -> length up = length m ->
  (forall i, nth_error ty i = Some rel -> exists a b, nth_error lo i = Some (Fin a) /\ nth_error up i = Some (Fin b)) ->
  exists r, relative_scale rel ty lo up m = Ok r.
Proof.
  revert lo up m. induction ty as [|t ty IH]; intros lo up m Ht Hl Hu Hf.
  - destruct m; [|discriminate]. destruct lo; [|discriminate]. destruct up; [|discriminate]. exists []. reflexivity.
  - destruct m as [|x m]; [discriminate|]. destruct lo as [|l lo]; [discriminate|]. destruct up as [|u up]; [discriminate|].
    cbn in Ht, Hl, Hu. destruct (IH lo up m) as [r Hr]; try lia.
    { intros i Hi. apply (Hf (S i)). exact Hi. }
    cbn [relative_scale]. rewrite Hr. cbn [bind]. destruct (Z.eqb t rel) eqn:Et; [|eexists; reflexivity].
    apply Z.eqb_eq in Et. subst t. destruct (Hf 0%nat eq_refl) as (a & b & Ha & Hb). cbn in Ha, Hb.
    injection Ha as ->. injection Hb as ->. eexists; reflexivity.
Qed.

Lemma bresult1_length {A} n (l : list A) : can_broadcast1 n l -> length (bresult1 n l) = n.
Proof. intros H. pose proof (broadcast1_total n l H) as Hb. apply broadcast1_ok in Hb as [Hl _]. exact Hl. Qed.

Lemma consistent_accepted E raw : consistent E raw -> exists c, validate E None None raw = Ok c.
Proof.
  intros [Hlo Hup Hord Hty Hmk Hobj Hreal HP Hpm [Hpte Hptl] [Hbte Hbtl] Hmg Hrel Hlin Hnl].
  unfold nvars in *. set (V := length (v_initial (c_vars raw))) in *.
  (* variables *)
  assert (Hv : exists ty mk, validate_variables E None (c_vars raw) =
            Ok {| v_initial := v_initial (c_vars raw); v_lower := bresult1 V (v_lower (c_vars raw));
                  v_upper := bresult1 V (v_upper (c_vars raw)); v_types := ty; v_mask := mk |}).
  { unfold validate_variables. cbn zeta. fold V. rewrite (broadcast1_total _ _ Hlo). cbn [bind].
    rewrite (broadcast1_total _ _ Hup). cbn [bind]. rewrite (not_crossed_any_gt _ _ Hord). cbn [negb guard bind].
    destruct (v_types (c_vars raw)) as [t|]; cbn [omap bind].
    - destruct Hty as [Hte Htl]. rewrite Hte. cbn [guard bind]. rewrite (broadcast1_total _ _ Htl). cbn [bind].
      destruct (v_mask (c_vars raw)) as [m|]; cbn [omap bind]; [rewrite (broadcast1_total _ _ Hmk); cbn [bind]|]; eexists; eexists; reflexivity.
    - destruct (v_mask (c_vars raw)) as [m|]; cbn [omap bind]; [rewrite (broadcast1_total _ _ Hmk); cbn [bind]|]; eexists; eexists; reflexivity. }
  destruct Hv as (ty & mk & Hv).
  (* weights *)
  assert (How : exists ow, normalize (c_obj_w raw) = Ok ow).
  { unfold normalize. cbn zeta. destruct (Qltb (qsum (c_obj_w raw)) float_eps) eqn:Eq; [apply Qltb_lt in Eq; lra | eexists; reflexivity]. }
  assert (Hrw : exists rw, normalize (c_real_w raw) = Ok rw).
  { unfold normalize. cbn zeta. destruct (Qltb (qsum (c_real_w raw)) float_eps) eqn:Eq; [apply Qltb_lt in Eq; lra | eexists; reflexivity]. }
  destruct How as [ow How]. destruct Hrw as [rw Hrw].
  (* linear *)
  assert (Hl : exists lin, omap validate_linear_fields (c_lin raw) = Ok lin /\
                 forall vars, length (v_initial vars) = V -> omap (apply_transformation None vars) lin = Ok lin).
  { destruct (c_lin raw) as [l|]; [|exists None; split; [reflexivity | intros; reflexivity]].
    destruct Hlin as (Hrows & Hll & Hlu & Hlo'). cbn [omap]. unfold validate_linear_fields. cbn zeta.
    fold (rectangular (l_coeffs l)). rewrite (rectangular_of_rows V _ Hrows). cbn [guard bind].
    rewrite (broadcast1_total _ _ Hll). cbn [bind]. rewrite (broadcast1_total _ _ Hlu). cbn [bind].
    rewrite (not_crossed_any_gt _ _ Hlo'). cbn [negb guard bind]. eexists. split; [reflexivity|].
    intros vars Hn. cbn [omap]. unfold apply_transformation. cbn zeta. cbn [l_coeffs]. rewrite Hn.
    assert (Hg : forallb (fun r => Nat.eqb (length r) V) (l_coeffs l) = true).
    { apply forallb_forall. intros r Hr. rewrite Forall_forall in Hrows. apply Nat.eqb_eq. apply Hrows; exact Hr. }
    rewrite Hg. reflexivity. }
  destruct Hl as (lin & Hl1 & Hl2).
  (* non-linear *)
  assert (Hn : exists nl, omap (validate_nonlinear None) (c_nonlin raw) = Ok nl).
  { destruct (c_nonlin raw) as [nl|]; [|exists None; reflexivity]. destruct Hnl as [Hlen Hx]. cbn [omap].
    unfold validate_nonlinear. rewrite (bcast_pair_total _ _ Hlen). cbn [bind fst snd nl_ok supported].
    rewrite (not_crossed_any_gt _ _ Hx). cbn [negb guard bind]. eexists; reflexivity. }
  destruct Hn as [nl Hn].
  (* gradient *)
  assert (Hg1 : validate_gradient_fields E (c_grad raw) =
                Ok {| g_P := g_P (c_grad raw); g_pmin := clamp_min (g_pmin (c_grad raw)) (g_P (c_grad raw));
                      g_mags := g_mags (c_grad raw); g_ptypes := g_ptypes (c_grad raw); g_btypes := g_btypes (c_grad raw) |}).
  { unfold validate_gradient_fields. apply Nat.ltb_lt in HP. rewrite HP. cbn [guard bind].
    destruct (g_pmin (c_grad raw)) as [[|k]|]; [contradiction | |]; cbn [guard bind]; rewrite Hpte, Hbte; reflexivity. }
  set (vars := {| v_initial := v_initial (c_vars raw); v_lower := bresult1 V (v_lower (c_vars raw));
                  v_upper := bresult1 V (v_upper (c_vars raw)); v_types := ty; v_mask := mk |}) in *.
  assert (Hg2 : exists g, fix_perturbations E None vars
                  {| g_P := g_P (c_grad raw); g_pmin := clamp_min (g_pmin (c_grad raw)) (g_P (c_grad raw));
                     g_mags := g_mags (c_grad raw); g_ptypes := g_ptypes (c_grad raw); g_btypes := g_btypes (c_grad raw) |} = Ok g).
  { unfold fix_perturbations. cbn zeta. cbn [vars v_initial v_lower v_upper g_mags g_ptypes g_btypes g_P g_pmin]. fold V.
    rewrite (bcast_to_total _ _ Hmg). cbn [bind]. rewrite (bcast_to_total _ _ Hbtl). cbn [bind].
    rewrite (bcast_to_total _ _ Hptl). cbn [bind].
    pose proof (bcast_to_ok _ _ _ (bcast_to_total _ _ Hmg)) as [Hml _].
    pose proof (bcast_to_ok _ _ _ (bcast_to_total _ _ Hptl)) as [Htl _].
    destruct (relative_scale_total (pt_rel E) (expand V (g_ptypes (c_grad raw))) (bresult1 V (v_lower (c_vars raw)))
                (bresult1 V (v_upper (c_vars raw))) (expand V (g_mags (c_grad raw)))) as [r Hr];
      [lia | rewrite (bresult1_length _ _ Hlo); lia | rewrite (bresult1_length _ _ Hup); lia | exact Hrel |].
    rewrite Hr. cbn [bind]. eexists; reflexivity. }
  destruct Hg2 as [g Hg2].
  eexists. eapply validate_fold; try eassumption. apply Hl2. reflexivity.
Qed.

(* =============================================================================================
   canonical whatever the spelling: a scalar (or one-element list) and the vector that repeats it validate
   to the same outcome -- not only the same configuration on success, also the same rejection
   ============================================================================================= *)
(* l' spells the array l of a field whose full length is n: the same list, or the scalar written out *)
Definition spelled {A} (n : nat) (l l' : list A) : Prop := l' = l \/ l' = expand n l.
Definition ospelled {A} (n : nat) (o o' : option (list A)) : Prop :=
  match o, o' with None, None => True | Some l, Some l' => spelled n l l' | _, _ => False end.

Record respelled (raw raw' : config) : Prop := {
  rs_initial : v_initial (c_vars raw') = v_initial (c_vars raw);
  rs_lower : spelled (nvars raw) (v_lower (c_vars raw)) (v_lower (c_vars raw'));
  rs_upper : spelled (nvars raw) (v_upper (c_vars raw)) (v_upper (c_vars raw'));
  rs_types : ospelled (nvars raw) (v_types (c_vars raw)) (v_types (c_vars raw'));
  rs_mask : ospelled (nvars raw) (v_mask (c_vars raw)) (v_mask (c_vars raw'));
  rs_obj : c_obj_w raw' = c_obj_w raw;
  rs_real : c_real_w raw' = c_real_w raw;
  rs_rmin : c_rmin raw' = c_rmin raw;
  rs_P : g_P (c_grad raw') = g_P (c_grad raw);
  rs_pmin : g_pmin (c_grad raw') = g_pmin (c_grad raw);
  rs_mags : spelled (nvars raw) (g_mags (c_grad raw)) (g_mags (c_grad raw'));
  rs_ptypes : spelled (nvars raw) (g_ptypes (c_grad raw)) (g_ptypes (c_grad raw'));
  rs_btypes : spelled (nvars raw) (g_btypes (c_grad raw)) (g_btypes (c_grad raw'));
  rs_lin : match c_lin raw, c_lin raw' with
           | None, None => True
           | Some l, Some l' => l_coeffs l' = l_coeffs l /\
                                spelled (length (l_coeffs l)) (l_lower l) (l_lower l') /\
                                spelled (length (l_coeffs l)) (l_upper l) (l_upper l')
           | _, _ => False
           end;
  rs_nonlin : match c_nonlin raw, c_nonlin raw' with
              | None, None => True
              | Some nl, Some nl' => spelled (length (n_upper nl)) (n_lower nl) (n_lower nl') /\
                                     spelled (length (n_lower nl)) (n_upper nl) (n_upper nl')
              | _, _ => False
              end
}.

Lemma bcast_to_spelled {A} n (l l' : list A) : spelled n l l' -> bcast_to n l' = bcast_to n l.
Proof.
  intros [->| ->]; [reflexivity|]. unfold expand. destruct l as [|x [|y t]]; try reflexivity.
  rewrite bcast_to_fixed by apply repeat_length. reflexivity.
Qed.

Lemma broadcast1_spelled {A} n (l l' : list A) : spelled n l l' -> broadcast1 n l' = broadcast1 n l.
Proof. intros H. unfold broadcast1. destruct (Nat.eqb n 0); [reflexivity | apply bcast_to_spelled; exact H]. Qed.

Lemma forallb_repeat_S {A} (f : A -> bool) x n : forallb f (repeat x (S n)) = f x.
Proof. induction n as [|n IH]; cbn [repeat forallb] in *; [apply andb_true_r | rewrite IH; apply andb_diag]. Qed.

Lemma enum_ok_spelled lo hi n l l' : n <> 0%nat -> spelled n l l' -> enum_ok lo hi l' = enum_ok lo hi l.
Proof.
  intros Hn [->| ->]; [reflexivity|]. unfold expand. destruct l as [|x [|y t]]; try reflexivity.
  destruct n as [|n]; [contradiction|]. unfold enum_ok. rewrite forallb_repeat_S. cbn [forallb]. symmetry. apply andb_true_r.
Qed.

Lemma bcast_pair_spelled {A} (a b a' b' : list A) :
  spelled (length b) a a' -> spelled (length a) b b' -> bcast_pair a' b' = bcast_pair a b.
Proof.
  intros Ha Hb.
  assert (Ea : a' = a \/ exists x, a = [x] /\ a' = repeat x (length b)).
  { destruct Ha as [->| ->]; [left; reflexivity|]. unfold expand. destruct a as [|x [|y t]]; [left; reflexivity | right; eauto | left; reflexivity]. }
  assert (Eb : b' = b \/ exists y, b = [y] /\ b' = repeat y (length a)).
  { destruct Hb as [->| ->]; [left; reflexivity|]. unfold expand. destruct b as [|x [|y t]]; [left; reflexivity | right; eauto | left; reflexivity]. }
  destruct Ea as [->|[x [-> ->]]]; destruct Eb as [->|[y [Eb ->]]]; try reflexivity.
  - (* b = [y] written out to the length of a *)
    subst b. destruct a as [|x1 [|x2 t]]; try reflexivity.
    cbn [length repeat bcast_pair]. rewrite repeat_length, Nat.eqb_refl. reflexivity.
  - (* a = [x] written out to the length of b *)
    destruct b as [|y1 [|y2 t]]; try reflexivity.
    cbn [length repeat bcast_pair]. rewrite repeat_length, Nat.eqb_refl. reflexivity.
  - (* both one-element lists *)
    subst b. reflexivity.
Qed.

(* validate_variables as a function of the outcomes of its broadcasts *)
Definition vv_core (E : enums) (ctx : option scaler) (ini : list Q) (olo oup : outcome (list ereal))
    (oty : outcome (option (list Z))) (omk : outcome (option (list bool))) : outcome variables :=
  let n := length ini in
  lo <- olo ;; up <- oup ;;
  _ <- match ctx with None => Ok tt | Some sc => supported (scaler_ok n sc) end ;;
  let ini' := match ctx with None => ini | Some sc => to_opt_q sc ini end in
  let lo := match ctx with None => lo | Some sc => to_opt_e sc lo end in
  let up := match ctx with None => up | Some sc => to_opt_e sc up end in
  _ <- guard (negb (any_gt lo up)) ;;
  ty <- oty ;; mk <- omk ;;
  Ok {| v_initial := ini'; v_lower := lo; v_upper := up; v_types := ty; v_mask := mk |}.

Lemma validate_variables_core E ctx v :
  validate_variables E ctx v =
  vv_core E ctx (v_initial v) (broadcast1 (length (v_initial v)) (v_lower v)) (broadcast1 (length (v_initial v)) (v_upper v))
    (omap (fun t => _ <- guard (enum_ok (vt_lo E) (vt_hi E) t) ;; broadcast1 (length (v_initial v)) t) (v_types v))
    (omap (broadcast1 (length (v_initial v))) (v_mask v)).
Proof. reflexivity. Qed.

Lemma validate_variables_spelled E ctx v v' : length (v_initial v) <> 0%nat ->
  v_initial v' = v_initial v ->
  spelled (length (v_initial v)) (v_lower v) (v_lower v') -> spelled (length (v_initial v)) (v_upper v) (v_upper v') ->
  ospelled (length (v_initial v)) (v_types v) (v_types v') -> ospelled (length (v_initial v)) (v_mask v) (v_mask v') ->
  validate_variables E ctx v' = validate_variables E ctx v.
Proof.
  intros Hn Hi Hlo Hup Hty Hmk. rewrite !validate_variables_core, Hi.
  rewrite (broadcast1_spelled _ _ _ Hlo), (broadcast1_spelled _ _ _ Hup).
  f_equal.
  - unfold ospelled in Hty. destruct (v_types v) as [t|], (v_types v') as [t'|]; try contradiction; [|reflexivity].
    cbn [omap]. rewrite (enum_ok_spelled _ _ _ _ _ Hn Hty), (broadcast1_spelled _ _ _ Hty). reflexivity.
  - unfold ospelled in Hmk. destruct (v_mask v) as [m|], (v_mask v') as [m'|]; try contradiction; [|reflexivity].
    cbn [omap]. rewrite (broadcast1_spelled _ _ _ Hmk). reflexivity.
Qed.

Lemma validate_linear_fields_spelled l l' : l_coeffs l' = l_coeffs l ->
  spelled (length (l_coeffs l)) (l_lower l) (l_lower l') -> spelled (length (l_coeffs l)) (l_upper l) (l_upper l') ->
  validate_linear_fields l' = validate_linear_fields l.
Proof.
  intros Hc Hlo Hup. unfold validate_linear_fields. cbn zeta. rewrite Hc.
  destruct (guard _) as [u| |]; cbn [bind]; try reflexivity.
  rewrite (broadcast1_spelled _ _ _ Hlo). destruct (broadcast1 _ (l_lower l)) as [lo| |]; cbn [bind]; try reflexivity.
  rewrite (broadcast1_spelled _ _ _ Hup). reflexivity.
Qed.

Lemma validate_nonlinear_spelled nls nl nl' :
  spelled (length (n_upper nl)) (n_lower nl) (n_lower nl') -> spelled (length (n_lower nl)) (n_upper nl) (n_upper nl') ->
  validate_nonlinear nls nl' = validate_nonlinear nls nl.
Proof. intros Hlo Hup. unfold validate_nonlinear. rewrite (bcast_pair_spelled _ _ _ _ Hlo Hup). reflexivity. Qed.

(* what validate does once the sections that do not depend on each other are validated *)
Definition validate_tail (E : enums) (ctx : option scaler) (grad : gradient) (rmin : option nat)
    (vars : variables) (ow : list Q) (lin1 : option linear) (nl : option nonlinear) (rw : list Q) : outcome config :=
  g <- validate_gradient_fields E grad ;;
  lin <- omap (apply_transformation ctx vars) lin1 ;;
  g <- fix_perturbations E ctx vars g ;;
  Ok {| c_vars := vars; c_obj_w := ow; c_real_w := rw; c_rmin := clamp_min rmin (length rw);
        c_grad := g; c_lin := lin; c_nonlin := nl |}.

Definition validate_core (A : outcome variables) (B : outcome (list Q)) (C : outcome (option linear))
    (D : outcome (option nonlinear)) (F : outcome (list Q))
    (T : variables -> list Q -> option linear -> option nonlinear -> list Q -> outcome config) : outcome config :=
  vars <- A ;; ow <- B ;; lin1 <- C ;; nl <- D ;; rw <- F ;; T vars ow lin1 nl rw.

Lemma validate_as_core E ctx nls raw :
  validate E ctx nls raw =
  validate_core (validate_variables E ctx (c_vars raw)) (normalize (c_obj_w raw)) (omap validate_linear_fields (c_lin raw))
    (omap (validate_nonlinear nls) (c_nonlin raw)) (normalize (c_real_w raw)) (validate_tail E ctx (c_grad raw) (c_rmin raw)).
Proof. reflexivity. Qed.

Lemma validate_tail_spelled E ctx g g' rmin vars ow lin1 nl rw :
  length (v_initial vars) <> 0%nat ->
  g_P g' = g_P g -> g_pmin g' = g_pmin g ->
  spelled (length (v_initial vars)) (g_mags g) (g_mags g') ->
  spelled (length (v_initial vars)) (g_ptypes g) (g_ptypes g') ->
  spelled (length (v_initial vars)) (g_btypes g) (g_btypes g') ->
  validate_tail E ctx g' rmin vars ow lin1 nl rw = validate_tail E ctx g rmin vars ow lin1 nl rw.
Proof.
  intros Hn HP Hpm Hm Hpt Hbt. unfold validate_tail, validate_gradient_fields. rewrite HP, Hpm.
  destruct (guard (Nat.ltb 0 (g_P g))) as [u| |]; cbn [bind]; try reflexivity.
  destruct (guard match g_pmin g with Some 0%nat => false | _ => true end) as [u'| |]; cbn [bind]; try reflexivity.
  rewrite (enum_ok_spelled _ _ _ _ _ Hn Hpt).
  destruct (guard (enum_ok (pt_lo E) (pt_hi E) (g_ptypes g))) as [u''| |]; cbn [bind]; try reflexivity.
  rewrite (enum_ok_spelled _ _ _ _ _ Hn Hbt).
  destruct (guard (enum_ok (bt_lo E) (bt_hi E) (g_btypes g))) as [u'''| |]; cbn [bind]; try reflexivity.
  destruct (omap (apply_transformation ctx vars) lin1) as [lin| |]; cbn [bind]; try reflexivity.
  unfold fix_perturbations. cbn zeta. cbn [g_P g_pmin g_mags g_ptypes g_btypes].
  rewrite (bcast_to_spelled _ _ _ Hm), (bcast_to_spelled _ _ _ Hbt), (bcast_to_spelled _ _ _ Hpt). reflexivity.
Qed.

Lemma validate_respelled E ctx nls raw raw' : nvars raw <> 0%nat -> respelled raw raw' ->
  validate E ctx nls raw' = validate E ctx nls raw.
Proof.
  intros Hn [Hi Hlo Hup Hty Hmk Hobj Hreal Hrmin HP Hpm Hm Hpt Hbt Hlin Hnl]. unfold nvars in *.
  rewrite !validate_as_core.
  rewrite (validate_variables_spelled E ctx _ _ Hn Hi Hlo Hup Hty Hmk), Hobj, Hreal, Hrmin.
  assert (El : omap validate_linear_fields (c_lin raw') = omap validate_linear_fields (c_lin raw)).
  { destruct (c_lin raw) as [l|], (c_lin raw') as [l'|]; try contradiction; [|reflexivity].
    destruct Hlin as (Hc & Hl1 & Hl2). cbn [omap]. rewrite (validate_linear_fields_spelled _ _ Hc Hl1 Hl2). reflexivity. }
  assert (En : omap (validate_nonlinear nls) (c_nonlin raw') = omap (validate_nonlinear nls) (c_nonlin raw)).
  { destruct (c_nonlin raw) as [nl|], (c_nonlin raw') as [nl'|]; try contradiction; [|reflexivity].
    destruct Hnl as (Hn1 & Hn2). cbn [omap]. rewrite (validate_nonlinear_spelled _ _ _ Hn1 Hn2). reflexivity. }
  rewrite El, En. unfold validate_core.
  destruct (validate_variables E ctx (c_vars raw)) as [vars| |] eqn:Hv; cbn [bind]; try reflexivity.
  destruct (normalize (c_obj_w raw)) as [ow| |]; cbn [bind]; try reflexivity.
  destruct (omap validate_linear_fields (c_lin raw)) as [lin1| |]; cbn [bind]; try reflexivity.
  destruct (omap (validate_nonlinear nls) (c_nonlin raw)) as [nl| |]; cbn [bind]; try reflexivity.
  destruct (normalize (c_real_w raw)) as [rw| |]; cbn [bind]; try reflexivity.
  apply validate_variables_wf in Hv as [[Hlen _ _ _ _ _] _].
  apply validate_tail_spelled; rewrite ?Hlen; assumption.
Qed.

(* writing every scalar of a dictionary out to full length is one such spelling *)
Definition spell_out (raw : config) : config :=
  let V := nvars raw in
  {| c_vars := {| v_initial := v_initial (c_vars raw); v_lower := expand V (v_lower (c_vars raw));
                  v_upper := expand V (v_upper (c_vars raw)); v_types := option_map (expand V) (v_types (c_vars raw));
                  v_mask := option_map (expand V) (v_mask (c_vars raw)) |};
     c_obj_w := c_obj_w raw; c_real_w := c_real_w raw; c_rmin := c_rmin raw;
     c_grad := {| g_P := g_P (c_grad raw); g_pmin := g_pmin (c_grad raw); g_mags := expand V (g_mags (c_grad raw));
                  g_ptypes := expand V (g_ptypes (c_grad raw)); g_btypes := expand V (g_btypes (c_grad raw)) |};
     c_lin := option_map (fun l => {| l_coeffs := l_coeffs l; l_lower := expand (length (l_coeffs l)) (l_lower l);
                                      l_upper := expand (length (l_coeffs l)) (l_upper l) |}) (c_lin raw);
     c_nonlin := option_map (fun nl => {| n_lower := expand (length (n_upper nl)) (n_lower nl);
                                          n_upper := expand (length (n_lower nl)) (n_upper nl) |}) (c_nonlin raw) |}.

Lemma spell_out_respelled raw : respelled raw (spell_out raw).
Proof.
  constructor; cbn; try reflexivity; try (right; reflexivity).
  - destruct (v_types (c_vars raw)); cbn; [right; reflexivity | exact I].
  - destruct (v_mask (c_vars raw)); cbn; [right; reflexivity | exact I].
  - destruct (c_lin raw); cbn; [repeat split; right; reflexivity | exact I].
  - destruct (c_nonlin raw); cbn; [split; right; reflexivity | exact I].
Qed.

Lemma validate_spell_out E ctx nls raw : nvars raw <> 0%nat -> validate E ctx nls (spell_out raw) = validate E ctx nls raw.
Proof. intros Hn. apply validate_respelled; [exact Hn | apply spell_out_respelled]. Qed.

(* =============================================================================================
   stable under any number of re-validations (hand-offs): validate o dump iterated n times
   ============================================================================================= *)
Fixpoint revalidate_n (E : enums) (n : nat) (c : config) : outcome config :=
  match n with
  | O => Ok c
  | S k => c' <- validate E None None (dump c) ;; revalidate_n E k c'
  end.

Lemma qlist_eqb_Forall2 a b : qlist_eqb a b = true <-> Forall2 Qeq a b.
Proof.
  unfold qlist_eqb. revert b. induction a as [|x a IH]; intros [|y b]; cbn [list_eqb]; split; intros H;
    try discriminate; try constructor; try (inversion H; fail).
  - apply andb_true_iff in H as [H1 H2]. apply Qeqb_eq; exact H1.
  - apply andb_true_iff in H as [H1 H2]. apply IH; exact H2.
  - inversion H as [|? ? ? ? H1 H2]; subst. apply andb_true_iff. split; [apply Qeqb_eq; exact H1 | apply IH; exact H2].
Qed.

Lemma qlist_eqb_trans a b c : qlist_eqb a b = true -> qlist_eqb b c = true -> qlist_eqb a c = true.
Proof.
  rewrite !qlist_eqb_Forall2. intros H. revert c. induction H as [|x y a b Hxy _ IH]; intros c Hc; inversion Hc; subst; constructor.
  - etransitivity; eassumption.
  - apply IH; assumption.
Qed.

Lemma qlist_eqb_sym a b : qlist_eqb a b = true -> qlist_eqb b a = true.
Proof.
  rewrite !qlist_eqb_Forall2. intros H. induction H; constructor; [symmetry; assumption | assumption].
Qed.

Lemma same_but_weights_refl c : same_but_weights c c.
Proof. unfold same_but_weights. rewrite !qlist_eqb_refl. repeat split. Qed.

Lemma same_but_weights_trans a b c : same_but_weights a b -> same_but_weights b c -> same_but_weights a c.
Proof.
  intros (H1 & H2 & H3 & H4 & H5 & H6 & H7) (K1 & K2 & K3 & K4 & K5 & K6 & K7). unfold same_but_weights.
  rewrite K1, K2, K3, K4, K5, H1, H2, H3, H4, H5. repeat (split; [reflexivity|]).
  split; eapply qlist_eqb_trans; eassumption.
Qed.

Lemma same_but_weights_sym a b : same_but_weights a b -> same_but_weights b a.
Proof.
  intros (H1 & H2 & H3 & H4 & H5 & H6 & H7). unfold same_but_weights. rewrite H1, H2, H3, H4, H5.
  repeat (split; [reflexivity|]). split; apply qlist_eqb_sym; assumption.
Qed.

Lemma canonical_revalidate_n E c : enums_wf E -> canonical E c -> forall n,
  exists c', revalidate_n E n c = Ok c' /\ same_but_weights c c' /\ canonical E c'.
Proof.
  intros HE Hc n. revert c Hc. induction n as [|n IH]; intros c Hc.
  - exists c. split; [reflexivity|]. split; [apply same_but_weights_refl | exact Hc].
  - destruct (canonical_fixed _ _ Hc) as (c1 & Hv & Hs).
    assert (Hc1 : canonical E c1) by (eapply validated_canonical; eassumption).
    destruct (IH c1 Hc1) as (c' & Hr & Hs' & Hc').
    exists c'. cbn [revalidate_n]. unfold dump. rewrite Hv. cbn [bind].
    split; [exact Hr|]. split; [eapply same_but_weights_trans; eassumption | exact Hc'].
Qed.

(* whatever was validated survives any number of dump -> validate hand-offs: every one of them succeeds, and the result is the
   first configuration up to == on the weights -- magnitudes, types, bounds, thresholds, constraints are the same terms *)
Lemma validate_stable_n E ctx nls raw c n : enums_wf E -> validate E ctx nls raw = Ok c ->
  exists c', revalidate_n E n c = Ok c' /\ same_but_weights c c' /\ equiv c c' = true /\ canonical E c'.
Proof.
  intros HE H. pose proof (validated_canonical _ _ _ _ _ HE H) as Hc.
  destruct (canonical_revalidate_n E c HE Hc n) as (c' & Hr & Hs & Hc'). exists c'.
  split; [exact Hr|]. split; [exact Hs|]. split; [apply same_but_weights_equiv; exact Hs | exact Hc'].
Qed.

(* =============================================================================================
   field conversions (dimension check) and index arrays: validate_full
   ============================================================================================= *)
Lemma validate_full_unfold E tbl ctx nls dims ix raw c ix' : validate_full E tbl ctx nls dims ix raw = Ok (c, ix') ->
  dims_ok tbl dims = true /\ validate E ctx nls raw = Ok c /\
  validate_indices (length (v_initial (c_vars c))) (length (c_obj_w c)) (nonlinear_count c) ix = Ok ix'.
Proof.
  unfold validate_full. intros H. inv_bind_as H u Hd. inv_bind_as H c0 Hv. inv_bind_as H ix0 Hi.
  injection H as <- <-. apply guard_ok in Hd. auto.
Qed.

Lemma validate_full_fold E tbl ctx nls dims ix raw c ix' : dims_ok tbl dims = true -> validate E ctx nls raw = Ok c ->
  validate_indices (length (v_initial (c_vars c))) (length (c_obj_w c)) (nonlinear_count c) ix = Ok ix' ->
  validate_full E tbl ctx nls dims ix raw = Ok (c, ix').
Proof. intros Hd Hv Hi. unfold validate_full. rewrite Hd. cbn [guard bind]. rewrite Hv. cbn [bind]. rewrite Hi. reflexivity. Qed.

Lemma validate_indices_unfold V nobj nnl ix ix' : validate_indices V nobj nnl ix = Ok ix' ->
  omap (broadcast1 nobj) (i_obj_filters ix) = Ok (i_obj_filters ix') /\
  omap (broadcast1 nobj) (i_obj_estimators ix) = Ok (i_obj_estimators ix') /\
  omap (broadcast1 nnl) (i_nl_filters ix) = Ok (i_nl_filters ix') /\
  omap (broadcast1 nnl) (i_nl_estimators ix) = Ok (i_nl_estimators ix') /\
  omap (broadcast1 V) (i_samplers ix) = Ok (i_samplers ix').
Proof.
  unfold validate_indices. intros H. inv_bind_as H a Ha. inv_bind_as H b Hb. inv_bind_as H c Hc. inv_bind_as H d Hd.
  inv_bind_as H e He. injection H as <-. cbn. auto.
Qed.

(* every index array given is broadcast to full length: one entry per variable / objective / constraint *)
Lemma validate_full_indices E tbl ctx nls dims ix raw c ix' : validate_full E tbl ctx nls dims ix raw = Ok (c, ix') ->
  obroadcast_of (length (v_initial (c_vars raw))) (i_samplers ix) (i_samplers ix') /\
  obroadcast_of (length (c_obj_w raw)) (i_obj_filters ix) (i_obj_filters ix') /\
  obroadcast_of (length (c_obj_w raw)) (i_obj_estimators ix) (i_obj_estimators ix') /\
  obroadcast_of (nonlinear_count c) (i_nl_filters ix) (i_nl_filters ix') /\
  obroadcast_of (nonlinear_count c) (i_nl_estimators ix) (i_nl_estimators ix').
Proof.
  intros H. apply validate_full_unfold in H as (_ & Hv & Hi).
  pose proof (validate_lengths _ _ _ _ _ Hv) as HL. cbn zeta in HL.
  destruct HL as (HV & _ & _ & _ & _ & _ & _ & _ & Ho & _).
  apply validate_indices_unfold in Hi as (H1 & H2 & H3 & H4 & H5). rewrite HV, Ho in *.
  repeat split; apply omap_broadcast1_spec; assumption.
Qed.

Lemma omap_broadcast1_reject {A} n (o : option (list A)) : n <> 0%nat -> obad_length n o -> omap (broadcast1 n) o = Reject.
Proof.
  intros Hn Hb. destruct o as [l|]; [|contradiction]. destruct Hb as [H1 H2]. cbn [omap].
  rewrite (broadcast1_reject n l Hn H1 H2). reflexivity.
Qed.

(* an index array that is neither a scalar nor of full length is rejected *)
Lemma rejects_bad_index_shapes E tbl ctx nls dims ix raw c : validate E ctx nls raw = Ok c ->
  (length (v_initial (c_vars c)) <> 0%nat /\ obad_length (length (v_initial (c_vars c))) (i_samplers ix)) \/
  (length (c_obj_w c) <> 0%nat /\
   (obad_length (length (c_obj_w c)) (i_obj_filters ix) \/ obad_length (length (c_obj_w c)) (i_obj_estimators ix))) \/
  (nonlinear_count c <> 0%nat /\
   (obad_length (nonlinear_count c) (i_nl_filters ix) \/ obad_length (nonlinear_count c) (i_nl_estimators ix))) ->
  forall r, validate_full E tbl ctx nls dims ix raw <> Ok r.
Proof.
  intros Hv Hbad [c' ix'] H. apply validate_full_unfold in H as (_ & Hv' & Hi). rewrite Hv in Hv'. injection Hv' as <-.
  apply validate_indices_unfold in Hi as (H1 & H2 & H3 & H4 & H5).
  destruct Hbad as [[Hn Hb]|[[Hn [Hb|Hb]]|[Hn [Hb|Hb]]]].
  - rewrite (omap_broadcast1_reject _ _ Hn Hb) in H5. discriminate.
  - rewrite (omap_broadcast1_reject _ _ Hn Hb) in H1. discriminate.
  - rewrite (omap_broadcast1_reject _ _ Hn Hb) in H2. discriminate.
  - rewrite (omap_broadcast1_reject _ _ Hn Hb) in H3. discriminate.
  - rewrite (omap_broadcast1_reject _ _ Hn Hb) in H4. discriminate.
Qed.

(* an array given with more dimensions than its type allows is rejected, whatever else the dictionary holds *)
Lemma rejects_extra_dimensions E tbl ctx nls dims ix raw d : In d dims -> ndim_ok tbl d = false ->
  forall r, validate_full E tbl ctx nls dims ix raw <> Ok r.
Proof.
  intros Hin Hd [c ix'] H. apply validate_full_unfold in H as (Hok & _ & _).
  unfold dims_ok in Hok. rewrite forallb_forall in Hok. rewrite (Hok d Hin) in Hd. discriminate.
Qed.

Lemma ndim_ok_spec tbl t g k : find (fun e : string * option nat => String.eqb (fst e) t) tbl = Some (t, Some k) ->
  ndim_ok tbl (t, g) = Nat.leb g k.
Proof. intros H. unfold ndim_ok. cbn [fst snd]. rewrite H. reflexivity. Qed.

(* when the dimensions are fine, validate_full is validate followed by the broadcast of the index arrays: every theorem about
   validate applies to the configuration it returns *)
Lemma validate_full_validate E tbl ctx nls dims ix raw c ix' : validate_full E tbl ctx nls dims ix raw = Ok (c, ix') ->
  validate E ctx nls raw = Ok c.
Proof. intros H. apply validate_full_unfold in H as (_ & H & _). exact H. Qed.

Lemma omap_broadcast1_fixed {A} n (o o0 : option (list A)) : omap (broadcast1 n) o0 = Ok o -> omap (broadcast1 n) o = Ok o.
Proof.
  intros H. apply omap_ok in H. destruct o0 as [l0|], o as [l|]; try contradiction; [|reflexivity].
  apply broadcast1_ok in H as [Hl _]. cbn [omap]. rewrite (broadcast1_fixed n l Hl). reflexivity.
Qed.

Lemma validate_indices_fixed V nobj nnl ix ix' : validate_indices V nobj nnl ix = Ok ix' -> validate_indices V nobj nnl ix' = Ok ix'.
Proof.
  intros H. apply validate_indices_unfold in H as (H1 & H2 & H3 & H4 & H5). unfold validate_indices.
  rewrite (omap_broadcast1_fixed _ _ _ H1). cbn [bind]. rewrite (omap_broadcast1_fixed _ _ _ H2). cbn [bind].
  rewrite (omap_broadcast1_fixed _ _ _ H3). cbn [bind]. rewrite (omap_broadcast1_fixed _ _ _ H4). cbn [bind].
  rewrite (omap_broadcast1_fixed _ _ _ H5). cbn [bind]. destruct ix'; reflexivity.
Qed.

Lemma qlist_eqb_length a b : qlist_eqb a b = true -> length a = length b.
Proof. rewrite qlist_eqb_Forall2. intros H. induction H; cbn; congruence. Qed.

(* idempotence with the index arrays: the dump of what validate_full returned validates, without a context, to an equivalent
   configuration with the very same index arrays *)
Lemma validate_full_idempotent E tbl ctx nls dims dims' ix raw c ix' : enums_wf E ->
  validate_full E tbl ctx nls dims ix raw = Ok (c, ix') -> dims_ok tbl dims' = true ->
  exists c', validate_full E tbl None None dims' ix' (dump c) = Ok (c', ix') /\ same_but_weights c c' /\ equiv c c' = true /\ canonical E c'.
Proof.
  intros HE H Hd'. apply validate_full_unfold in H as (_ & Hv & Hi).
  destruct (validate_idempotent _ _ _ _ _ HE Hv) as (c' & Hv' & Hs & He & Hc). exists c'.
  split; [|auto]. apply validate_full_fold; [exact Hd' | exact Hv' |].
  destruct Hs as (Hvars & _ & _ & _ & Hnl & Ho & _).
  unfold nonlinear_count. rewrite Hvars, Hnl, <- (qlist_eqb_length _ _ Ho).
  eapply validate_indices_fixed; exact Hi.
Qed.
