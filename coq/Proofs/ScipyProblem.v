(* Proofs/ScipyProblem.v -- lemmas about Model/ScipyProblem.v (C08). *)
From Coq Require Import QArith Qabs List Bool String ZArith Lia Lqa.
From Ropt Require Import Base.Num Base.ListX Gen.Generated Gen.Gen_C08 Model.ScipyProblem.
Import ListNotations.
Open Scope Q_scope.

(* ---- NormalizedConstraints: one bound pair ------------------------------------------------------ *)
Lemma eq_tol_pos : 0 < eq_tol.
Proof. unfold eq_tol, norm_eq_tol, Q_. reflexivity. Qed.

(* well-formed bound pair: lower is not +inf, upper is not -inf, and two finite bounds are either equal
   or differ by at least the code's equality tolerance *)
Definition sane (l u : ereal) : Prop :=
  match l, u with
  | PInf, _ => False
  | _, NInf => False
  | Fin a, Fin b => a == b \/ eq_tol <= Qabs (b - a)
  | _, _ => True
  end.

Lemma Qabs_zero_of_eq a b : a == b -> Qabs (b - a) == 0.
Proof. intros H. assert (E : b - a == 0) by lra. rewrite E. reflexivity. Qed.

Theorem feasible_iff_row af i l u c : sane l u ->
  (in_bounds l u c <-> Forall (fun r => sat af r (norm_value r c)) (rows_of af i l u)).
Proof.
  intros Hs. unfold in_bounds, rows_of.
  destruct l as [|a|], u as [|b|]; try (exfalso; exact Hs); cbn [ele_p].
  - (* -inf, b *)
    split.
    + intros [_ H]. constructor; [|constructor]. unfold sat, norm_value; cbn. destruct af; cbn; lra.
    + intros H. inversion H as [|? ? H1 _]; subst. unfold sat, norm_value in H1; cbn in H1.
      split; [exact I|]. destruct af; cbn in H1; lra.
  - split; [constructor | intros _; split; exact I].
  - (* a, b *)
    change (a == b \/ eq_tol <= Qabs (b - a)) in Hs.
    destruct (Qltb (Qabs (b - a)) eq_tol) eqn:E.
    + apply Qltb_lt in E.
      assert (Hab : a == b).
      { destruct Hs as [Hs|Hs]; [exact Hs | lra]. }
      split.
      * intros [H1 H2]. constructor; [|constructor]. unfold sat, norm_value; cbn. destruct af; cbn; lra.
      * intros H. inversion H as [|? ? H1 _]; subst. unfold sat, norm_value in H1; cbn in H1.
        destruct af; cbn in H1; split; lra.
    + apply Qltb_nlt in E.
      split.
      * intros [H1 H2]. constructor; [|constructor; [|constructor]]; unfold sat, norm_value; cbn; destruct af; cbn; lra.
      * intros H. inversion H as [|? ? H1 H']; subst. inversion H' as [|? ? H2 _]; subst.
        unfold sat, norm_value in H1, H2; cbn in H1, H2. destruct af; cbn in H1, H2; split; lra.
  - (* a, +inf *)
    split.
    + intros [H _]. constructor; [|constructor]. unfold sat, norm_value; cbn. destruct af; cbn; lra.
    + intros H. inversion H as [|? ? H1 _]; subst. unfold sat, norm_value in H1; cbn in H1.
      split; [|exact I]. destruct af; cbn in H1; lra.
Qed.

Lemma rows_of_idx af i l u r : In r (rows_of af i l u) -> r_idx r = i.
Proof.
  unfold rows_of. destruct l, u; try destruct (Qltb _ _); cbn; intros H;
    repeat (destruct H as [<-|H]; [reflexivity|]); contradiction.
Qed.

(* ---- all constraints ------------------------------------------------------------------------------ *)
Definition all_in_bounds (bs : list (ereal * ereal)) (cs : list Q) : Prop :=
  Forall2 (fun b c => in_bounds (fst b) (snd b) c) bs cs.
(* every normalised row, evaluated on the raw value it refers to, satisfies its "eq"/"ineq" reading *)
Definition rows_sat (af : bool) (rows : list row) (cs : list Q) : Prop :=
  Forall (fun r => exists c, nth_error cs (r_idx r) = Some c /\ sat af r (norm_value r c)) rows.

Lemma feasible_iff_from af bs : forall i pre cs,
  List.length pre = i -> List.length bs = List.length cs ->
  Forall (fun b => sane (fst b) (snd b)) bs ->
  (all_in_bounds bs cs <-> rows_sat af (rows_from af i bs) (pre ++ cs)).
Proof.
  induction bs as [|[l u] bs IH]; intros i pre cs Hi Hlen Hs; destruct cs as [|c cs]; try discriminate.
  - cbn. split; intros _; constructor.
  - cbn [rows_from]. inversion Hs as [|? ? Hs1 Hs2]; subst. cbn in Hs1.
    specialize (IH (S (List.length pre)) (pre ++ [c]) cs).
    rewrite app_length, Nat.add_1_r in IH. specialize (IH eq_refl ltac:(cbn in Hlen; lia) Hs2).
    rewrite <- app_assoc in IH. cbn [app] in IH.
    unfold rows_sat. rewrite Forall_app.
    pose proof (feasible_iff_row af (List.length pre) l u c Hs1) as Hrow.
    assert (Hnth : nth_error (pre ++ c :: cs) (List.length pre) = Some c).
    { rewrite nth_error_app2 by lia. rewrite Nat.sub_diag. reflexivity. }
    split.
    + intros H. inversion H as [|? ? ? ? H1 H2]; subst. cbn in H1. split.
      * apply Hrow in H1. rewrite Forall_forall in H1 |- *. intros r Hr. exists c. split.
        -- rewrite (rows_of_idx _ _ _ _ _ Hr). exact Hnth.
        -- apply H1. exact Hr.
      * apply IH. exact H2.
    + intros [H1 H2]. constructor.
      * cbn. apply Hrow. rewrite Forall_forall in H1 |- *. intros r Hr. destruct (H1 r Hr) as (c' & Hc' & Hsat).
        rewrite (rows_of_idx _ _ _ _ _ Hr), Hnth in Hc'. injection Hc' as <-. exact Hsat.
      * apply IH. exact H2.
Qed.

Theorem feasible_iff af bs cs :
  List.length bs = List.length cs -> Forall (fun b => sane (fst b) (snd b)) bs ->
  (all_in_bounds bs cs <-> rows_sat af (normalize_bounds af bs) cs).
Proof. intros Hl Hs. apply (feasible_iff_from af bs 0%nat [] cs eq_refl Hl Hs). Qed.

(* the executable normalisation computes exactly those row values *)
Lemma norm_values_spec rows : forall cs vs,
  norm_values rows (map (fun v => [v]) cs) = Some vs ->
  Forall2 (fun r v => exists c, nth_error cs (r_idx r) = Some c /\ v = [norm_value r c]) rows vs.
Proof.
  induction rows as [|r t IH]; intros cs vs H; cbn in H.
  - injection H as <-. constructor.
  - destruct (nth_error (map (fun v => [v]) cs) (r_idx r)) as [v|] eqn:En; [|discriminate].
    destruct (norm_values t (map (fun v => [v]) cs)) as [rest|] eqn:Er; [|discriminate].
    injection H as <-. constructor; [|apply IH; exact Er].
    rewrite nth_error_map in En. destruct (nth_error cs (r_idx r)) as [c|]; [|discriminate].
    injection En as <-. exists c. split; reflexivity.
Qed.

(* ---- Jacobian sign --------------------------------------------------------------------------------- *)
Lemma dot_opp g x : dot (map Qopp g) x == - dot g x.
Proof.
  revert x; induction g as [|a g IH]; intros [|y x]; unfold dot in *; cbn [map combine];
    rewrite ?qsum_nil, ?qsum_cons; try ring. cbn [fst snd]. rewrite IH. ring.
Qed.

(* moving the raw value along a direction dx by (g . dx) moves the normalised value by
   (normalised Jacobian row . dx): the handed Jacobian is the derivative of the handed value, with
   the same sign flip *)
Theorem jacobian_sign r c g dx :
  norm_value r (c + dot g dx) == norm_value r c + dot (norm_grad r g) dx.
Proof. unfold norm_value, norm_grad. destruct (r_flip r); [rewrite dot_opp|]; ring. Qed.

Lemma norm_jac_spec rows : forall J js,
  norm_jac rows J = Some js ->
  Forall2 (fun r j => exists g, nth_error J (r_idx r) = Some g /\ j = norm_grad r g) rows js.
Proof.
  induction rows as [|r t IH]; intros J js H; cbn in H.
  - injection H as <-. constructor.
  - destruct (nth_error J (r_idx r)) as [g|] eqn:En; [|discriminate].
    destruct (norm_jac t J) as [rest|] eqn:Er; [|discriminate].
    injection H as <-. constructor; [|apply IH; exact Er]. exists g. split; [exact En | reflexivity].
Qed.

Lemma Forall2_imp {A B} (P Q : A -> B -> Prop) l m :
  (forall a b, P a b -> Q a b) -> Forall2 P l m -> Forall2 Q l m.
Proof. intros H F. induction F; constructor; auto. Qed.

(* value row i and Jacobian row i are built from the same raw index with the same flip *)
Theorem values_and_jac_aligned rows cs J vs js :
  norm_values rows (map (fun v => [v]) cs) = Some vs -> norm_jac rows J = Some js ->
  Forall2 (fun v j => exists r c g, In r rows /\ nth_error cs (r_idx r) = Some c /\ nth_error J (r_idx r) = Some g /\
                                    v = [norm_value r c] /\ j = norm_grad r g) vs js.
Proof.
  revert vs js. induction rows as [|r t IH]; intros vs js Hv Hj; cbn in Hv, Hj.
  - injection Hv as <-. injection Hj as <-. constructor.
  - destruct (nth_error (map (fun v => [v]) cs) (r_idx r)) as [v|] eqn:En; [|discriminate].
    destruct (norm_values t (map (fun v => [v]) cs)) as [rest|] eqn:Er; [|discriminate].
    destruct (nth_error J (r_idx r)) as [g|] eqn:Eg; [|discriminate].
    destruct (norm_jac t J) as [restj|] eqn:Ej; [|discriminate].
    injection Hv as <-. injection Hj as <-.
    rewrite nth_error_map in En. destruct (nth_error cs (r_idx r)) as [c|] eqn:Ec; [|discriminate].
    injection En as <-. constructor.
    + exists r, c, g. repeat split; auto. left; reflexivity.
    + specialize (IH rest restj eq_refl eq_refl). eapply Forall2_imp; [|exact IH].
      intros a b (r' & c' & g' & Hin & H1 & H2 & H3 & H4). exists r', c', g'. repeat split; auto. right; exact Hin.
Qed.

(* ---- get_masked_linear_constraints ------------------------------------------------------------------ *)
Lemma dot_scatter : forall (m : list bool) (a x0 xf : list Q),
  List.length a = List.length m -> List.length x0 = List.length m -> List.length xf = count_true m ->
  dot a (scatter m xf x0) == dot (gather m a) xf + dot (gather (map negb m) a) (gather (map negb m) x0).
Proof.
  induction m as [|b m IH]; intros a x0 xf Ha Hx Hf.
  - destruct a; [|discriminate]. cbn. rewrite !dot_nil_l. ring.
  - destruct a as [|a0 a]; [discriminate|]. destruct x0 as [|y x0]; [discriminate|].
    cbn in Ha, Hx. injection Ha as Ha. injection Hx as Hx. destruct b.
    + unfold count_true in Hf. cbn in Hf. destruct xf as [|x xf]; [discriminate|]. cbn in Hf. injection Hf as Hf.
      cbn [scatter gather map negb]. rewrite !dot_cons. rewrite (IH a x0 xf Ha Hx Hf). ring.
    + unfold count_true in Hf. cbn in Hf.
      cbn [scatter gather map negb]. rewrite !dot_cons. rewrite (IH a x0 xf Ha Hx Hf). ring.
Qed.

Lemma dot_zeros z : forall y, forallb is_zero z = true -> dot z y == 0.
Proof.
  induction z as [|a z IH]; intros y H.
  - rewrite dot_nil_l. reflexivity.
  - destruct y as [|b y].
    + unfold dot. cbn [combine map]. rewrite qsum_nil. reflexivity.
    + cbn in H. apply andb_prop in H as [H1 H2]. rewrite dot_cons, (IH y H2).
      unfold is_zero in H1. apply Qeqb_eq in H1. rewrite H1. ring.
Qed.

Lemma In_gather_map {A} (f : A -> bool) (l : list A) x :
  In x (gather (map f l) l) <-> In x l /\ f x = true.
Proof.
  induction l as [|a l IH]; cbn; [tauto|].
  destruct (f a) eqn:E; cbn; rewrite IH; split.
  - intros [<-|[H1 H2]]; auto.
  - intros [[<-|H1] H2]; auto.
  - intros [H1 H2]; auto.
  - intros [[<-|H1] H2]; [congruence | auto].
Qed.

Lemma Forall_gather {A} (P : A -> Prop) (k : list bool) : forall l, Forall P l -> Forall P (gather k l).
Proof.
  induction k as [|b k IH]; intros [|a l] H; cbn; try constructor.
  - destruct b; constructor.
  - inversion H; subst. destruct b; [constructor; auto | auto].
Qed.

(* rows that touch a fixed variable with a non-zero coefficient are exactly the dropped ones; a kept row
   is the original row restricted to the free columns *)
Theorem masked_rows_kept m x0 lc a' :
  In a' (l_A (masked_linear (Some m) x0 lc)) <->
  exists a, In a (l_A lc) /\ forallb is_zero (gather (map negb m) a) = true /\ a' = gather m a.
Proof.
  cbn [masked_linear l_A]. rewrite in_map_iff. split.
  - intros (a & <- & Hin). apply In_gather_map in Hin as [H1 H2]. exists a. auto.
  - intros (a & H1 & H2 & ->). exists a. split; [reflexivity|]. apply In_gather_map. auto.
Qed.

(* exact restatement of one row on the free variables, for every completed vector *)
Theorem masked_row_exact m a x0 xf :
  List.length a = List.length m -> List.length x0 = List.length m -> List.length xf = count_true m ->
  dot a (scatter m xf x0) == dot (gather m a) xf + dot (gather (map negb m) a) (gather (map negb m) x0).
Proof. apply dot_scatter. Qed.

Lemma ele_fin_iff a b a' b' : (a <= b <-> a' <= b') -> ele (Fin a) (Fin b) = ele (Fin a') (Fin b').
Proof.
  intros H. cbn. unfold Qleb. destruct (Qle_bool a b) eqn:E1, (Qle_bool a' b') eqn:E2; try reflexivity.
  - apply Qle_bool_iff in E1. apply H in E1. apply Qle_bool_iff in E1. congruence.
  - apply Qle_bool_iff in E2. apply H in E2. apply Qle_bool_iff in E2. congruence.
Qed.

Lemma in_boundsb_shift l u o v w : w == v + o ->
  in_boundsb (esub_r l o) (esub_r u o) v = in_boundsb l u w.
Proof.
  intros H. unfold in_boundsb. f_equal.
  - destruct l as [|a|]; cbn [esub_r]; try reflexivity. apply ele_fin_iff. split; intros; lra.
  - destruct u as [|b|]; cbn [esub_r]; try reflexivity. apply ele_fin_iff. split; intros; lra.
Qed.

Lemma masked_bounds_from m x0 xf (A : mat) : forall lb ub,
  Forall (fun a => List.length a = List.length m) A ->
  List.length x0 = List.length m -> List.length xf = count_true m ->
  let off := fun a => dot (gather (map negb m) a) (gather (map negb m) x0) in
  bounds_okb (sub_offsets lb (map off A)) (sub_offsets ub (map off A)) (matvec (map (gather m) A) xf) =
  bounds_okb lb ub (matvec A (scatter m xf x0)).
Proof.
  intros lb ub HA Hx Hf off. revert lb ub. unfold bounds_okb, matvec.
  induction HA as [|a A Ha _ IH]; intros lb ub.
  - destruct lb, ub; reflexivity.
  - destruct lb as [|l lb]; [reflexivity|]. destruct ub as [|u ub].
    + cbn [map sub_offsets combine forall2b]. destruct (sub_offsets lb (map off A)); reflexivity.
    + cbn [map sub_offsets combine forall2b fst snd].
      rewrite (IH lb ub). f_equal. apply in_boundsb_shift. unfold off. apply dot_scatter; assumption.
Qed.

(* the restated bounds select the same points as the original rows on the completed vector *)
Theorem masked_linear_exact m x0 lc xf :
  Forall (fun a => List.length a = List.length m) (l_A lc) ->
  List.length x0 = List.length m -> List.length xf = count_true m ->
  let ml := masked_linear (Some m) x0 lc in
  let keep := map (fun a => forallb is_zero (gather (map negb m) a)) (l_A lc) in
  bounds_okb (l_lb ml) (l_ub ml) (matvec (l_A ml) xf) =
  bounds_okb (gather keep (l_lb lc)) (gather keep (l_ub lc)) (matvec (gather keep (l_A lc)) (scatter m xf x0)).
Proof.
  intros HA Hx Hf. cbn zeta. cbn [masked_linear l_A l_lb l_ub].
  apply masked_bounds_from; auto. apply Forall_gather. exact HA.
Qed.

(* a kept row has offset zero *)
Theorem masked_offset_zero m a x0 :
  forallb is_zero (gather (map negb m) a) = true ->
  dot (gather (map negb m) a) (gather (map negb m) x0) == 0.
Proof. apply dot_zeros. Qed.

(* ---- Bounds ------------------------------------------------------------------------------------------- *)
Theorem bounds_exposed mask lo hi :
  (exposed_bounds mask lo hi = None <->
     (forall e, In e lo -> efinite e = false) /\ (forall e, In e hi -> efinite e = false)) /\
  (exposed_bounds mask lo hi <> None -> exposed_bounds mask lo hi = Some (gmask mask lo, gmask mask hi)).
Proof.
  unfold exposed_bounds. destruct (existsb efinite lo || existsb efinite hi) eqn:E.
  - split; [|reflexivity]. split; [discriminate|]. intros [H1 H2]. exfalso.
    apply orb_prop in E as [E|E]; apply existsb_exists in E as (e & Hin & He);
      [rewrite (H1 e Hin) in He | rewrite (H2 e Hin) in He]; discriminate.
  - split; [|intros H; contradiction]. split; [|reflexivity]. intros _.
    apply orb_false_elim in E as [E1 E2].
    split; intros e Hin; destruct (efinite e) eqn:Ee; auto; exfalso.
    + assert (X : existsb efinite lo = true) by (apply existsb_exists; exists e; auto). congruence.
    + assert (X : existsb efinite hi = true) by (apply existsb_exists; exists e; auto). congruence.
Qed.

Lemma gather_In {A} (k : list bool) : forall (l : list A) x, In x (gather k l) -> In x l.
Proof.
  induction k as [|b k IH]; intros [|a l] x H; cbn in H; try contradiction.
  - destruct b; contradiction.
  - destruct b; [destruct H as [<-|H]; [left; reflexivity | right; apply IH; exact H] | right; apply IH; exact H].
Qed.
Lemma gmask_In {A} mask (l : list A) x : In x (gmask mask l) -> In x l.
Proof. destruct mask; cbn; [apply gather_In | auto]. Qed.

(* when no Bounds object is passed nothing is lost: well-formed all-infinite bounds admit every point *)
Theorem bounds_absent_harmless mask lo hi :
  Forall (fun e => e <> PInf) lo -> Forall (fun e => e <> NInf) hi ->
  exposed_bounds mask lo hi = None -> forall x, bounds_okb (gmask mask lo) (gmask mask hi) x = true.
Proof.
  intros Hlo Hhi HN. apply (proj1 (bounds_exposed mask lo hi)) in HN as [H1 H2].
  assert (L : forall e, In e (gmask mask lo) -> e = NInf).
  { intros e Hin. apply gmask_In in Hin. rewrite Forall_forall in Hlo. specialize (Hlo e Hin). specialize (H1 e Hin).
    destruct e; [reflexivity | discriminate | contradiction]. }
  assert (U : forall e, In e (gmask mask hi) -> e = PInf).
  { intros e Hin. apply gmask_In in Hin. rewrite Forall_forall in Hhi. specialize (Hhi e Hin). specialize (H2 e Hin).
    destruct e; [contradiction | discriminate | reflexivity]. }
  unfold bounds_okb. generalize dependent (gmask mask hi). generalize dependent (gmask mask lo).
  intros l. induction l as [|a l IH]; intros L u U x; [reflexivity|].
  destruct u as [|b u]; [reflexivity|]. destruct x as [|c x]; [reflexivity|].
  cbn [combine forall2b fst snd]. rewrite (L a (or_introl eq_refl)), (U b (or_introl eq_refl)). cbn.
  apply IH; intros e Hin; [apply L | apply U]; right; exact Hin.
Qed.

(* ---- options -------------------------------------------------------------------------------------------- *)
Lemma lookup_set_same k v d : lookup k (set_key k v d) = Some v.
Proof.
  induction d as [|[k' v'] d IH]; cbn; [rewrite String.eqb_refl; reflexivity|].
  destruct (String.eqb k k') eqn:E; cbn; [rewrite String.eqb_refl; reflexivity | rewrite E; exact IH].
Qed.
Lemma lookup_set_other k k' v d : String.eqb k k' = false -> lookup k (set_key k' v d) = lookup k d.
Proof.
  intros N. induction d as [|[k2 v2] d IH]; cbn; [rewrite N; reflexivity|].
  destruct (String.eqb k' k2) eqn:E; cbn.
  - apply String.eqb_eq in E. subst k2. rewrite N. reflexivity.
  - destruct (String.eqb k k2); [reflexivity | exact IH].
Qed.

(* the keys the plug-in adds besides the iteration limit never collide with an iteration key of the
   generated rule (finite fact, by computation) *)
Definition reserved_keys : list string := ["disp"; "integrality"; "updating"; "workers"]%string.
Lemma iter_keys_not_reserved :
  forallb (fun k => negb (mem k reserved_keys)) (iter_key_default :: map snd iter_key_special) = true.
Proof. vm_compute. reflexivity. Qed.

Lemma iter_key_in method : In (iter_key method) (iter_key_default :: map snd iter_key_special).
Proof.
  unfold iter_key. induction iter_key_special as [|[k v] l IH]; cbn; [left; reflexivity|].
  destruct (String.eqb method k); [right; left; reflexivity|].
  destruct (assoc_str method l); cbn in IH |- *; tauto.
Qed.

Lemma iter_key_not_reserved method k : In k reserved_keys -> String.eqb (iter_key method) k = false.
Proof.
  intros Hk. pose proof iter_keys_not_reserved as H. rewrite forallb_forall in H.
  specialize (H _ (iter_key_in method)). apply negb_true_iff in H.
  destruct (String.eqb (iter_key method) k) eqn:E; [|reflexivity].
  apply String.eqb_eq in E. exfalso. assert (X : mem (iter_key method) reserved_keys = true).
  { unfold mem. apply existsb_exists. exists k. split; [exact Hk | rewrite E; apply String.eqb_refl]. }
  congruence.
Qed.

Theorem max_iterations_parsed method n opts output_dir types :
  lookup (iter_key method) (parse_options method (Some n) opts output_dir types) = Some (OInt n).
Proof.
  assert (D : String.eqb (iter_key method) "disp" = false) by (apply iter_key_not_reserved; cbn; tauto).
  assert (G : String.eqb (iter_key method) "integrality" = false) by (apply iter_key_not_reserved; cbn; tauto).
  unfold parse_options, add_iterations. destruct opts as [| l | kvs]; try apply lookup_set_same.
  destruct output_dir, types as [ints|]; try destruct (is_de method && negb _);
    rewrite ?(lookup_set_other _ _ _ _ G), ?(lookup_set_other _ _ _ _ D); apply lookup_set_same.
Qed.

(* ... and what start() finally passes still carries it *)
Theorem max_iterations_forwarded p h n :
  construct p = Some h -> p_max_iter p = Some n ->
  lookup (iter_key (p_method p)) (h_options h) = Some (OInt n).
Proof.
  assert (U : String.eqb (iter_key (p_method p)) "updating" = false) by (apply iter_key_not_reserved; cbn; tauto).
  assert (W : String.eqb (iter_key (p_method p)) "workers" = false) by (apply iter_key_not_reserved; cbn; tauto).
  unfold construct. destruct (validate p); [|discriminate]. cbn [negb]. intros H Hn. injection H as <-. cbn [h_options].
  rewrite Hn. destruct (p_parallel p && is_de (p_method p));
    rewrite ?(lookup_set_other _ _ _ _ W), ?(lookup_set_other _ _ _ _ U); apply max_iterations_parsed.
Qed.

(* a user-supplied iteration key is overridden (above); every other user key that is not one of the
   plug-in's own keys is passed on unchanged *)
Theorem user_options_kept method mi kvs od types k :
  String.eqb k (iter_key method) = false -> mem k reserved_keys = false ->
  lookup k (parse_options method mi (DictOpt kvs) od types) = lookup k kvs.
Proof.
  intros Hi Hr. unfold mem, reserved_keys in Hr. cbn [existsb] in Hr.
  apply orb_false_elim in Hr as [D Hr]. apply orb_false_elim in Hr as [G _].
  unfold parse_options, add_iterations.
  destruct mi as [n|], od, types as [ints|]; try destruct (is_de method && negb _);
    rewrite ?(lookup_set_other _ _ _ _ G), ?(lookup_set_other _ _ _ _ D), ?(lookup_set_other _ _ _ _ Hi); reflexivity.
Qed.

(* ---- validate_supported_constraints ------------------------------------------------------------------- *)
Lemma mem_true_In s l : mem s l = true -> In s l.
Proof. unfold mem. intros H. apply existsb_exists in H as (x & Hin & E). apply String.eqb_eq in E. subst. exact Hin. Qed.

Lemma check_have k m : check_constraint k m true = true -> In m (supported_by k).
Proof.
  unfold check_constraint. cbn [andb negb]. destruct (mem m (supported_by k)) eqn:E; [intros _; apply mem_true_In; exact E | discriminate].
Qed.
Lemma check_required k m : check_constraint k m false = true -> ~ In m (required_by k).
Proof.
  unfold check_constraint. cbn [andb negb]. destruct (mem m (required_by k)) eqn:E; [discriminate|].
  intros _ Hin. assert (X : mem m (required_by k) = true).
  { unfold mem. apply existsb_exists. exists m. split; [exact Hin | apply String.eqb_refl]. }
  congruence.
Qed.

(* every kind accepted by a generated support table is a kind SciPy itself handles (finite facts) *)
Definition subset (a b : list string) : bool := forallb (fun s => mem s b) a.
Lemma table_bounds : subset scipy_constraint_support_bounds scipy_can_bounds = true.
Proof. vm_compute. reflexivity. Qed.
Lemma table_lin_eq : subset scipy_constraint_support_linear_eq scipy_can_constraints = true.
Proof. vm_compute. reflexivity. Qed.
Lemma table_lin_ineq : subset scipy_constraint_support_linear_ineq scipy_can_constraints = true.
Proof. vm_compute. reflexivity. Qed.
Lemma table_nl_eq : subset scipy_constraint_support_nonlinear_eq scipy_can_constraints = true.
Proof. vm_compute. reflexivity. Qed.
Lemma table_nl_ineq : subset scipy_constraint_support_nonlinear_ineq scipy_can_constraints = true.
Proof. vm_compute. reflexivity. Qed.
(* the tables only mention supported methods, and a method that requires bounds supports them *)
Lemma tables_wellformed :
  subset scipy_constraint_requires_bounds scipy_constraint_support_bounds &&
  subset (scipy_constraint_support_bounds ++ scipy_constraint_support_linear_eq ++ scipy_constraint_support_linear_ineq ++
          scipy_constraint_support_nonlinear_eq ++ scipy_constraint_support_nonlinear_ineq ++ scipy_no_gradient)
         scipy_supported_methods = true.
Proof. vm_compute. reflexivity. Qed.

Lemma subset_In a b s : subset a b = true -> In s a -> In s b.
Proof. unfold subset. rewrite forallb_forall. intros H Hin. apply mem_true_In. apply H. exact Hin. Qed.

Theorem unsupported_rejected p h : construct p = Some h ->
  In (p_method p) scipy_supported_methods /\
  (have_bounds p = true -> In (p_method p) scipy_constraint_support_bounds /\ In (p_method p) scipy_can_bounds) /\
  (have_bounds p = false -> ~ In (p_method p) scipy_constraint_requires_bounds) /\
  (forall lc, p_lin p = Some lc ->
     In (p_method p) (if all_close (l_lb lc) (l_ub lc) then scipy_constraint_support_linear_eq
                      else scipy_constraint_support_linear_ineq) /\ In (p_method p) scipy_can_constraints) /\
  (forall bs, p_nl p = Some bs ->
     In (p_method p) (if all_close (map fst bs) (map snd bs) then scipy_constraint_support_nonlinear_eq
                      else scipy_constraint_support_nonlinear_ineq) /\ In (p_method p) scipy_can_constraints).
Proof.
  unfold construct. destruct (validate p) eqn:V; [|discriminate]. intros _.
  unfold validate in V.
  apply andb_prop in V as [V Vnl]. apply andb_prop in V as [V Vlin]. apply andb_prop in V as [Vm Vb].
  split; [apply mem_true_In; exact Vm|]. split; [|split; [|split]].
  - intros Hb. rewrite Hb in Vb. split; [apply (check_have KBounds); assumption|].
    apply (subset_In _ _ _ table_bounds). apply (check_have KBounds); assumption.
  - intros Hb. rewrite Hb in Vb. apply (check_required KBounds). assumption.
  - intros lc Hl. rewrite Hl in Vlin. apply andb_prop in Vlin as [C1 C2].
    destruct (all_close (l_lb lc) (l_ub lc)); cbn [negb] in *.
    + split; [apply (check_have KLinEq); assumption|]. apply (subset_In _ _ _ table_lin_eq). apply (check_have KLinEq); assumption.
    + split; [apply (check_have KLinIneq); assumption|]. apply (subset_In _ _ _ table_lin_ineq). apply (check_have KLinIneq); assumption.
  - intros bs Hl. rewrite Hl in Vnl. apply andb_prop in Vnl as [C1 C2].
    destruct (all_close (map fst bs) (map snd bs)); cbn [negb] in *.
    + split; [apply (check_have KNlEq); assumption|]. apply (subset_In _ _ _ table_nl_eq). apply (check_have KNlEq); assumption.
    + split; [apply (check_have KNlIneq); assumption|]. apply (subset_In _ _ _ table_nl_ineq). apply (check_have KNlIneq); assumption.
Qed.

(* conversely a kind the table does not list makes construction fail *)
Theorem unsupported_kind_fails p :
  (have_bounds p = true /\ ~ In (p_method p) scipy_constraint_support_bounds) \/
  (have_bounds p = false /\ In (p_method p) scipy_constraint_requires_bounds) \/
  (exists lc, p_lin p = Some lc /\
     ~ In (p_method p) (if all_close (l_lb lc) (l_ub lc) then scipy_constraint_support_linear_eq
                        else scipy_constraint_support_linear_ineq)) \/
  (exists bs, p_nl p = Some bs /\
     ~ In (p_method p) (if all_close (map fst bs) (map snd bs) then scipy_constraint_support_nonlinear_eq
                        else scipy_constraint_support_nonlinear_ineq)) \/
  ~ In (p_method p) scipy_supported_methods ->
  construct p = None.
Proof.
  intros H. destruct (construct p) as [h|] eqn:E; [|reflexivity]. exfalso.
  destruct (unsupported_rejected p h E) as (A & B & C & D & F).
  destruct H as [[Hb Hn]|[[Hb Hn]|[(lc & Hl & Hn)|[(bs & Hl & Hn)|Hn]]]].
  - apply Hn. apply (B Hb).
  - apply (C Hb). exact Hn.
  - apply Hn. apply (D lc Hl).
  - apply Hn. apply (F bs Hl).
  - apply Hn. exact A.
Qed.

(* ---- end to end: what is handed over admits exactly the configured points --------------------------- *)
Lemma ele_iff a b : ele a b = true <-> ele_p a b.
Proof.
  destruct a, b; cbn; try tauto; try (split; [discriminate | contradiction]).
  apply Qleb_le.
Qed.
Lemma in_boundsb_iff l u c : in_boundsb l u c = true <-> in_bounds l u c.
Proof. unfold in_boundsb, in_bounds. rewrite andb_true_iff, !ele_iff. tauto. Qed.

Lemma satb_iff af r v : satb af r v = true <-> sat af r v.
Proof.
  unfold satb, sat. destruct (r_eq r); [apply Qeqb_eq|]. destruct af; apply Qleb_le.
Qed.

Lemma bool_eq_iff (a b : bool) : (a = true <-> b = true) -> a = b.
Proof.
  destruct a, b; intros [H1 H2]; try reflexivity.
  - symmetry. apply H1. reflexivity.
  - apply H2. reflexivity.
Qed.

Lemma combine_fst_snd {A B} (l : list (A * B)) : combine (map fst l) (map snd l) = l.
Proof. induction l as [|[a b] l IH]; cbn; [reflexivity | rewrite IH; reflexivity]. Qed.

Lemma combine_combine {A B} (a : list A) (b : list B) :
  combine (map fst (combine a b)) (map snd (combine a b)) = combine a b.
Proof. apply combine_fst_snd. Qed.

(* bounds_okb on a list of pairs of the same length as the values is the Forall2 of the theorem *)
Lemma bounds_okb_all bs : forall cs, List.length bs = List.length cs ->
  (bounds_okb (map fst bs) (map snd bs) cs = true <-> all_in_bounds bs cs).
Proof.
  unfold bounds_okb, all_in_bounds. rewrite combine_fst_snd.
  induction bs as [|b bs IH]; intros [|c cs] H; try discriminate; cbn [forall2b].
  - split; [constructor | reflexivity].
  - injection H as H. rewrite andb_true_iff, in_boundsb_iff, (IH cs H). split.
    + intros [A B]. constructor; assumption.
    + intros F. inversion F; subst. split; assumption.
Qed.

Lemma bounds_okb_app lo1 hi1 lo2 hi2 c1 c2 :
  List.length lo1 = List.length c1 -> List.length hi1 = List.length c1 ->
  bounds_okb (lo1 ++ lo2) (hi1 ++ hi2) (c1 ++ c2) = bounds_okb lo1 hi1 c1 && bounds_okb lo2 hi2 c2.
Proof.
  unfold bounds_okb. revert hi1 c1. induction lo1 as [|l lo1 IH]; intros [|h hi1] [|c c1] H1 H2; try discriminate.
  - reflexivity.
  - cbn [app combine forall2b]. injection H1 as H1. injection H2 as H2. rewrite (IH hi1 c1 H1 H2), andb_assoc. reflexivity.
Qed.

(* the value the dict callables hand over for all rows at once, as a boolean *)
Definition rows_okb (rows : list row) (raw : list Q) : bool :=
  match norm_values rows (map (fun v => [v]) raw) with
  | Some vs => forall2b (fun r v => match v with [x] => satb false r x | _ => false end) rows vs
  | None => false
  end.

Lemma rows_okb_cons r t raw :
  rows_okb (r :: t) raw =
  match nth_error raw (r_idx r) with Some c => satb false r (norm_value r c) | None => false end && rows_okb t raw.
Proof.
  unfold rows_okb. cbn [norm_values]. rewrite nth_error_map.
  destruct (nth_error raw (r_idx r)) as [c|]; cbn [option_map]; [|reflexivity].
  destruct (norm_values t (map (fun v => [v]) raw)) as [rest|]; cbn [map forall2b]; [reflexivity|].
  rewrite andb_false_r. reflexivity.
Qed.

Lemma rows_okb_iff rows raw : rows_okb rows raw = true <-> rows_sat false rows raw.
Proof.
  unfold rows_sat. induction rows as [|r t IH].
  - unfold rows_okb. cbn. split; [constructor | reflexivity].
  - rewrite rows_okb_cons, andb_true_iff, IH. split.
    + intros [A B]. constructor; [|exact B].
      destruct (nth_error raw (r_idx r)) as [c|]; [|discriminate]. exists c. split; [reflexivity | apply satb_iff; exact A].
    + intros F. inversion F as [|? ? (c & Hc & Hs) B]; subst. split; [|exact B].
      rewrite Hc. apply satb_iff. exact Hs.
Qed.

Theorem rows_okb_bounds bs raw :
  List.length bs = List.length raw -> Forall (fun b => sane (fst b) (snd b)) bs ->
  rows_okb (normalize_bounds false bs) raw = bounds_okb (map fst bs) (map snd bs) raw.
Proof.
  intros Hl Hs. apply bool_eq_iff. rewrite rows_okb_iff, (bounds_okb_all bs raw Hl).
  symmetry. apply feasible_iff; assumption.
Qed.

(* ---- lengths and well-formedness survive the mask ----------------------------------------------------- *)
Lemma gather_all_true {A B} (k : list B) : forall (l : list A), (List.length l <= List.length k)%nat ->
  gather (map (fun _ => true) k) l = l.
Proof.
  induction k as [|b k IH]; intros [|x l] H; cbn in *; try reflexivity; try lia.
  rewrite IH by lia. reflexivity.
Qed.

Lemma gather_length_eq {A B} (k : list bool) : forall (a : list A) (b : list B),
  List.length a = List.length b -> List.length (gather k a) = List.length (gather k b).
Proof.
  induction k as [|x k IH]; intros [|a0 a] [|b0 b] H; try discriminate; try reflexivity.
  - destruct x; reflexivity.
  - injection H as H. destruct x; cbn; rewrite (IH a b H); reflexivity.
Qed.

Lemma sub_offsets_length : forall b o, List.length b = List.length o -> List.length (sub_offsets b o) = List.length o.
Proof. induction b as [|e b IH]; intros [|q o] H; try discriminate; cbn; [reflexivity | rewrite IH; auto]. Qed.

Lemma sane_shift l u q : sane l u -> sane (esub_r l q) (esub_r u q).
Proof.
  destruct l as [|a|], u as [|b|]; cbn; auto.
  intros [H|H]; [left; lra | right].
  assert (E : Qabs (b - q - (a - q)) == Qabs (b - a)) by (apply Qabs_wd; ring).
  apply Qle_trans with (Qabs (b - a)); [exact H|]. apply Qle_lteq. right. symmetry. exact E.
Qed.

Lemma sane_sub_offsets : forall b u o,
  Forall (fun p => sane (fst p) (snd p)) (combine b u) ->
  Forall (fun p => sane (fst p) (snd p)) (combine (sub_offsets b o) (sub_offsets u o)).
Proof.
  induction b as [|e b IH]; intros u o H.
  - cbn. constructor.
  - destruct u as [|f u]; [cbn; destruct o; constructor|].
    destruct o as [|q o]; [cbn; constructor|].
    cbn [sub_offsets combine] in *. inversion H; subst. constructor.
    + cbn [fst snd] in *. apply sane_shift. assumption.
    + apply IH. assumption.
Qed.

Lemma combine_gather {A B} (k : list bool) : forall (a : list A) (b : list B),
  List.length a = List.length b -> combine (gather k a) (gather k b) = gather k (combine a b).
Proof.
  induction k as [|x k IH]; intros [|a0 a] [|b0 b] H; try discriminate; try reflexivity.
  - destruct x; reflexivity.
  - injection H as H. destruct x; cbn; rewrite (IH a b H); reflexivity.
Qed.

Definition wf_lin (n : nat) (lc : lincons) : Prop :=
  List.length (l_lb lc) = List.length (l_A lc) /\ List.length (l_ub lc) = List.length (l_A lc) /\
  Forall (fun a => List.length a = n) (l_A lc) /\
  Forall (fun b => sane (fst b) (snd b)) (lin_pairs lc).

Lemma masked_wf mask x0 lc n : wf_lin n lc ->
  let ml := masked_linear mask x0 lc in
  List.length (l_lb ml) = List.length (l_A ml) /\ List.length (l_ub ml) = List.length (l_A ml) /\
  Forall (fun b => sane (fst b) (snd b)) (lin_pairs ml).
Proof.
  intros (H1 & H2 & H3 & H4). destruct mask as [m|]; cbn zeta; [|cbn [masked_linear]; auto].
  cbn [masked_linear l_A l_lb l_ub lin_pairs].
  set (keep := map (fun a => forallb is_zero (gather (map negb m) a)) (l_A lc)).
  rewrite !map_length.
  assert (L1 : List.length (gather keep (l_lb lc)) = List.length (gather keep (l_A lc))) by (apply gather_length_eq; exact H1).
  assert (L2 : List.length (gather keep (l_ub lc)) = List.length (gather keep (l_A lc))) by (apply gather_length_eq; exact H2).
  split; [|split].
  - rewrite sub_offsets_length; rewrite map_length; auto.
  - rewrite sub_offsets_length; rewrite map_length; auto.
  - unfold lin_pairs. cbn [l_lb l_ub]. apply sane_sub_offsets.
    rewrite combine_gather by congruence. apply Forall_gather. exact H4.
Qed.

(* ---- the three parts of the feasible set --------------------------------------------------------------- *)
Lemma bounds_part mask lo hi xf :
  Forall (fun e => e <> PInf) lo -> Forall (fun e => e <> NInf) hi ->
  match exposed_bounds mask lo hi with Some (l, u) => bounds_okb l u xf | None => true end =
  bounds_okb (gmask mask lo) (gmask mask hi) xf.
Proof.
  intros Hlo Hhi. destruct (exposed_bounds mask lo hi) as [[l u]|] eqn:E.
  - destruct (bounds_exposed mask lo hi) as [_ H]. rewrite E in H.
    specialize (H ltac:(discriminate)). injection H as -> ->. reflexivity.
  - symmetry. apply bounds_absent_harmless; assumption.
Qed.

Definition config_lin (mask : option (list bool)) (x0 : list Q) (lc : lincons) (xf : list Q) : bool :=
  let full := match mask with Some m => scatter m xf x0 | None => xf end in
  let keep := match mask with
              | Some m => map (fun a => forallb is_zero (gather (map negb m) a)) (l_A lc)
              | None => map (fun _ => true) (l_A lc)
              end in
  bounds_okb (gather keep (l_lb lc)) (gather keep (l_ub lc)) (matvec (gather keep (l_A lc)) full).

Lemma lin_part mask x0 lc xf : wf_lin (List.length x0) lc ->
  (forall m, mask = Some m -> List.length m = List.length x0 /\ List.length xf = count_true m) ->
  let ml := masked_linear mask x0 lc in
  bounds_okb (l_lb ml) (l_ub ml) (matvec (l_A ml) xf) = config_lin mask x0 lc xf.
Proof.
  intros (H1 & H2 & H3 & H4) Hm. destruct mask as [m|]; cbn zeta.
  - destruct (Hm m eq_refl) as [Lm Lx]. unfold config_lin. apply masked_linear_exact; auto.
    eapply Forall_impl; [|exact H3]. intros a Ha. cbn in Ha. congruence.
  - unfold config_lin. cbn [masked_linear]. rewrite !gather_all_true by lia. reflexivity.
Qed.

Lemma dict_part nlb lb ub mv c :
  List.length nlb = List.length c -> List.length lb = List.length mv -> List.length ub = List.length mv ->
  Forall (fun b => sane (fst b) (snd b)) nlb -> Forall (fun b => sane (fst b) (snd b)) (combine lb ub) ->
  rows_okb (normalize_bounds false (nlb ++ combine lb ub)) (c ++ mv) =
  bounds_okb (map fst nlb) (map snd nlb) c && bounds_okb lb ub mv.
Proof.
  intros L1 L2 L3 S1 S2. rewrite rows_okb_bounds.
  - rewrite !map_app. rewrite bounds_okb_app by (rewrite map_length; exact L1).
    f_equal. unfold bounds_okb. rewrite combine_combine. reflexivity.
  - rewrite !app_length, combine_length. lia.
  - apply Forall_app. split; assumption.
Qed.

(* ---- the theorem ------------------------------------------------------------------------------------------ *)
Definition wf_problem (p : problem) : Prop :=
  Forall (fun e => e <> PInf) (p_lower p) /\ Forall (fun e => e <> NInf) (p_upper p) /\
  (forall bs, p_nl p = Some bs -> Forall (fun b => sane (fst b) (snd b)) bs) /\
  (forall lc, p_lin p = Some lc -> wf_lin (List.length (p_x0 p)) lc).

Definition wf_point (p : problem) (c xf : list Q) : Prop :=
  (forall m, p_mask p = Some m -> List.length m = List.length (p_x0 p) /\ List.length xf = count_true m) /\
  List.length c = match p_nl p with Some bs => List.length bs | None => 0%nat end.

Theorem handed_equiv_configured p h c xf :
  construct p = Some h -> wf_problem p -> wf_point p c xf ->
  handed_feasible h c xf = config_feasible p c xf.
Proof.
  intros Hc (Wlo & Whi & Wnl & Wlin) (Wm & Wc).
  unfold construct in Hc. destruct (validate p); [|discriminate]. cbn [negb] in Hc. injection Hc as <-.
  unfold handed_feasible, config_feasible, raw_values. cbn [h_bounds h_de h_lin h_nl h_rows].
  rewrite (bounds_part (p_mask p) (p_lower p) (p_upper p) xf Wlo Whi).
  rewrite <- andb_assoc. f_equal.
  destruct (p_lin p) as [lc|] eqn:El; cbn [option_map].
  - specialize (Wlin lc eq_refl).
    pose proof (lin_part (p_mask p) (p_x0 p) lc xf Wlin Wm) as HL. cbn zeta in HL.
    pose proof (masked_wf (p_mask p) (p_x0 p) lc _ Wlin) as (M1 & M2 & M3). cbn zeta in M1, M2, M3.
    fold (config_lin (p_mask p) (p_x0 p) lc xf). rewrite <- HL.
    set (ml := masked_linear (p_mask p) (p_x0 p) lc) in *.
    destruct (is_de (p_method p)); [reflexivity|].
    fold (rows_okb (normalize_bounds false (match p_nl p with Some bs => bs | None => [] end ++ lin_pairs ml))
                   (c ++ matvec (l_A ml) xf)).
    unfold lin_pairs. rewrite dict_part.
    + destruct (p_nl p) as [bs|]; [apply andb_comm|].
      destruct c; [|discriminate]. cbn. rewrite andb_true_r. reflexivity.
    + destruct (p_nl p); [symmetry; exact Wc | destruct c; [reflexivity | discriminate]].
    + unfold matvec. rewrite map_length. exact M1.
    + unfold matvec. rewrite map_length. exact M2.
    + destruct (p_nl p) as [bs|]; [apply Wnl; reflexivity | constructor].
    + exact M3.
  - destruct (is_de (p_method p)); [reflexivity|].
    fold (rows_okb (normalize_bounds false (match p_nl p with Some bs => bs | None => [] end ++ [])) (c ++ [])).
    rewrite !app_nil_r. cbn [andb].
    destruct (p_nl p) as [bs|].
    + apply rows_okb_bounds; [symmetry; exact Wc | apply Wnl; reflexivity].
    + destruct c; [reflexivity | discriminate].
Qed.

(* ---- the decidable well-formedness tests imply the hypotheses of the theorem ---------------------------- *)
Lemma saneb_sane l u : saneb l u = true -> sane l u.
Proof.
  destruct l as [|a|], u as [|b|]; cbn; try discriminate; auto.
  intros H. apply orb_prop in H as [H|H]; [left; apply Qeqb_eq; exact H | right; apply Qleb_le; exact H].
Qed.

Lemma forallb_Forall {A} (f : A -> bool) (P : A -> Prop) (l : list A) :
  (forall x, f x = true -> P x) -> forallb f l = true -> Forall P l.
Proof.
  intros H. induction l as [|x l IH]; cbn; [constructor|].
  intros E. apply andb_prop in E as [E1 E2]. constructor; [apply H; exact E1 | apply IH; exact E2].
Qed.

Lemma wf_linb_wf n lc : wf_linb n lc = true -> wf_lin n lc.
Proof.
  unfold wf_linb, wf_lin. intros H.
  apply andb_prop in H as [H H4]. apply andb_prop in H as [H H3]. apply andb_prop in H as [H1 H2].
  repeat split.
  - apply Nat.eqb_eq; exact H1.
  - apply Nat.eqb_eq; exact H2.
  - eapply forallb_Forall; [|exact H3]. intros a Ha. apply Nat.eqb_eq. exact Ha.
  - eapply forallb_Forall; [|exact H4]. intros b Hb. apply saneb_sane. exact Hb.
Qed.

Lemma wf_problemb_wf p : wf_problemb p = true -> wf_problem p.
Proof.
  unfold wf_problemb, wf_problem. intros H.
  apply andb_prop in H as [H H4]. apply andb_prop in H as [H H3]. apply andb_prop in H as [H1 H2].
  split; [|split; [|split]].
  - eapply forallb_Forall; [|exact H1]. intros e He E. subst e. discriminate.
  - eapply forallb_Forall; [|exact H2]. intros e He E. subst e. discriminate.
  - intros bs0 E. rewrite E in H3. eapply forallb_Forall; [|exact H3]. intros b Hb. apply saneb_sane. exact Hb.
  - intros lc0 E. rewrite E in H4. apply wf_linb_wf. exact H4.
Qed.

Lemma wf_pointb_wf p c xf : wf_pointb p c xf = true -> wf_point p c xf.
Proof.
  unfold wf_pointb, wf_point. intros H. apply andb_prop in H as [H1 H2]. split.
  - intros m E. rewrite E in H1. apply andb_prop in H1 as [A B]. split; apply Nat.eqb_eq; assumption.
  - apply Nat.eqb_eq. exact H2.
Qed.

(* the form used by the correspondence: decidable hypotheses *)
Theorem handed_equiv_configured_b p h c xf :
  construct p = Some h -> wf_problemb p = true -> wf_pointb p c xf = true ->
  handed_feasible h c xf = config_feasible p c xf.
Proof.
  intros Hc H1 H2. apply handed_equiv_configured; [exact Hc | apply wf_problemb_wf; exact H1 | apply wf_pointb_wf; exact H2].
Qed.
