(* Proofs/FiltersTies.v -- C04/C05 for ANY ranking np.argsort may return (ties in any order): the vectors built by
   _sort_and_select / _get_cvar_weights_from_percentile along an arbitrary valid order, and the values reported by
   the evaluator for a function mapped to a filter. *)
From Coq Require Import String QArith Qabs Qround Qminmax Bool Arith ZArith List Lia Lqa Permutation Sorted.
From Ropt Require Import Base.Num Base.ListX Gen.Generated Model.Filters Proofs.SortX Proofs.Filters.
Import ListNotations.
Local Arguments firstn : simpl never.
Local Arguments skipn : simpl never.

Lemma sort_and_select_along values cfgw failed first last :
  sort_and_select values cfgw failed first last = select_along (ranked failed values) cfgw first last.
Proof. reflexivity. Qed.

Lemma cvar_weights_along p values failed :
  cvar_weights p values failed = cvar_along p (ranked failed values) (length values).
Proof. reflexivity. Qed.

Lemma valid_order_NoDup values failed idx : valid_order values failed idx -> NoDup idx.
Proof.
  intros [HP _]. apply (Permutation_NoDup (Permutation_sym HP)). apply successes_NoDup.
Qed.

Lemma valid_order_In values failed idx r : valid_order values failed idx ->
  (In r idx <-> (r < length failed)%nat /\ nth r failed true = false).
Proof.
  intros [HP _]. rewrite <- successes_In. split; intro H.
  - apply (Permutation_in _ HP H).
  - apply (Permutation_in _ (Permutation_sym HP) H).
Qed.

(* ---- C05: the window along any valid order ------------------------------------------------------------------ *)
Lemma select_along_in idx cfgw first last r : NoDup idx -> (forall i, In i idx -> (i < length cfgw)%nat) ->
  In r (window first last idx) -> nth r (select_along idx cfgw first last) 0%Q = nth r cfgw 0%Q.
Proof.
  intros ND HR Hin. unfold select_along. set (sel := window first last idx) in *.
  apply (In_nth _ _ 0%nat) in Hin as [k [Hk E]]. rewrite <- E at 1.
  rewrite nth_assign_in.
  - rewrite (nth_indep _ 0%Q (nth 0%nat cfgw 0%Q)) by (rewrite map_length; exact Hk).
    pose proof (map_nth (fun i => nth i cfgw 0%Q) sel 0%nat k) as Hm. cbn beta in Hm.
    rewrite Hm, E. reflexivity.
  - apply NoDup_window, ND.
  - apply map_length.
  - intros i Hi. unfold zeros. rewrite repeat_length. apply HR. apply window_incl in Hi. exact Hi.
  - exact Hk.
Qed.

Lemma select_along_out idx cfgw first last r :
  ~ In r (window first last idx) -> nth r (select_along idx cfgw first last) 0%Q = 0%Q.
Proof. intros H. unfold select_along. rewrite nth_assign_notin by exact H. apply nth_zeros. Qed.

(* Whatever order np.argsort gives to tied values: a successful realization whose whole tie group lies inside the
   rank window [first, last] carries its configured weight, one whose tie group lies outside carries the literal 0,
   every other one carries one of the two; failed realizations carry 0; exactly min(last+1, #successes) - first
   realizations are selected. *)
Theorem select_along_tie_robust values cfgw failed idx first last :
  valid_order values failed idx -> length cfgw = length failed ->
  let w := select_along idx cfgw first last in
  length (window first last idx) = (Nat.min (last + 1) (count_ok failed) - first)%nat /\
  forall r,
    (succeeded failed r = false -> nth r w 0%Q = 0%Q) /\
    (succeeded failed r = true -> (first <= grp_lo values failed r)%nat -> (grp_ge values failed r <= last + 1)%nat ->
       nth r w 0%Q = nth r cfgw 0%Q) /\
    (succeeded failed r = true -> (grp_ge values failed r <= first)%nat \/ (last < grp_lo values failed r)%nat ->
       nth r w 0%Q = 0%Q) /\
    (nth r w 0%Q = nth r cfgw 0%Q \/ nth r w 0%Q = 0%Q).
Proof.
  intros Hv HC w. pose proof (valid_order_NoDup _ _ _ Hv) as ND.
  assert (HR : forall i, In i idx -> (i < length cfgw)%nat).
  { intros i Hi. apply (valid_order_In _ _ _ i Hv) in Hi. lia. }
  split.
  { rewrite window_length, (valid_order_length _ _ _ Hv), successes_length. reflexivity. }
  intros r. split; [|split; [|split]].
  - intros Hs. apply select_along_out. intro Hin. apply window_incl in Hin.
    apply (valid_order_In _ _ _ r Hv) in Hin as [_ Hf]. unfold succeeded in Hs. rewrite Hf in Hs. discriminate.
  - intros Hs Hlo Hge. apply select_along_in; [exact ND | exact HR|].
    apply succeeded_lt in Hs. apply (valid_order_In _ _ _ r Hv) in Hs.
    apply (In_nth _ _ 0%nat) in Hs as [k [Hk E]].
    pose proof (position_bounds values failed idx k Hv Hk) as B. rewrite E in B.
    apply (window_In first last idx 0%nat). exists k. repeat split; lia.
  - intros Hs Hout. apply select_along_out. intro Hin.
    apply (window_In first last idx 0%nat) in Hin as [k [Hk [Hl E]]].
    pose proof (position_bounds values failed idx k Hv Hl) as B. rewrite E in B. lia.
  - destruct (in_dec Nat.eq_dec r (window first last idx)) as [Hin|Hout].
    + left. apply select_along_in; assumption.
    + right. apply select_along_out; exact Hout.
Qed.

(* ---- C04: the staircase along any valid order --------------------------------------------------------------- *)
Lemma cvar_along_raw p idx size : NoDup idx -> (forall i, In i idx -> (i < size)%nat) -> (0 < p)%Q -> (p <= 1)%Q ->
  (forall k, (k < length idx)%nat -> nth (nth k idx 0%nat) (cvar_along p idx size) 0%Q = stair_raw p (length idx) k) /\
  (forall r, ~ In r idx -> nth r (cvar_along p idx size) 0%Q = 0%Q).
Proof.
  intros ND HR Hp Hp1. unfold cvar_along. set (n := length idx) in *.
  destruct (Nat.eqb_spec n 0) as [Hn0|Hn0].
  { split; [intros k Hk; lia | intros r _; apply nth_zeros]. }
  assert (Hn : (0 < n)%nat) by lia.
  destruct (floor_bounds p n Hn Hp Hp1) as [_ [_ Hmn]].
  unfold stair_raw. fold (stair_m p n). set (m := stair_m p n) in *.
  set (p_max := (1 / nq n)%Q). set (p_var := Qmax (p - nq m * p_max) 0).
  set (w1 := assign (firstn m idx) (repeat p_max m) (zeros size)).
  assert (Hw1len : length w1 = size) by (unfold w1; rewrite assign_length; apply repeat_length).
  assert (Hfl : length (firstn m idx) = m) by (rewrite firstn_length; fold n; lia).
  assert (Hw1in : forall k, (k < m)%nat -> nth (nth k idx 0%nat) w1 0%Q = p_max).
  { intros k Hk. rewrite <- (nth_firstn_lt idx m k 0%nat Hk). unfold w1. rewrite nth_assign_in.
    - apply nth_repeat_any; exact Hk.
    - apply NoDup_firstn; exact ND.
    - rewrite repeat_length, Hfl. reflexivity.
    - intros i Hi. unfold zeros. rewrite repeat_length. apply HR.
      rewrite <- (firstn_skipn m idx). apply in_or_app. left; exact Hi.
    - rewrite Hfl; exact Hk. }
  assert (Hw1out : forall x, (forall k, (k < m)%nat -> nth k idx 0%nat <> x) -> nth x w1 0%Q = 0%Q).
  { intros x Hx. unfold w1. rewrite nth_assign_notin; [apply nth_zeros|].
    intro Hin. apply (In_nth _ _ 0%nat) in Hin as [k [Hk E]]. rewrite Hfl in Hk.
    rewrite nth_firstn_lt in E by exact Hk. exact (Hx k Hk E). }
  assert (Hinj : forall i j, (i < n)%nat -> (j < n)%nat -> nth i idx 0%nat = nth j idx 0%nat -> i = j).
  { apply NoDup_nth; exact ND. }
  split.
  - intros k Hk.
    destruct (Nat.ltb_spec k m) as [Hkm|Hkm].
    + destruct (Nat.ltb_spec m n) as [Hmn'|Hmn']; cbn [assign].
      * rewrite nth_set_nth_neq; [apply Hw1in; exact Hkm|].
        intro E2. apply Hinj in E2; lia.
      * apply Hw1in; exact Hkm.
    + destruct (Nat.eqb_spec k m) as [Hkm2|Hkm2].
      * subst k. assert (Hlt : Nat.ltb m n = true) by (apply Nat.ltb_lt; exact Hk).
        rewrite Hlt. cbn [assign]. apply nth_set_nth_eq. rewrite Hw1len. apply HR. apply nth_In. exact Hk.
      * assert (Hz : nth (nth k idx 0%nat) w1 0%Q = 0%Q).
        { apply Hw1out. intros j Hj E2. apply Hinj in E2; lia. }
        destruct (Nat.ltb_spec m n) as [Hmn'|Hmn']; cbn [assign]; [|exact Hz].
        rewrite nth_set_nth_neq; [exact Hz|]. intro E2. apply Hinj in E2; lia.
  - intros r Hnot.
    assert (Hz : nth r w1 0%Q = 0%Q).
    { apply Hw1out. intros j Hj E2. apply Hnot. rewrite <- E2. apply nth_In. fold n. lia. }
    destruct (Nat.ltb_spec m n) as [Hmn'|Hmn']; cbn [assign]; [|exact Hz].
    rewrite nth_set_nth_neq; [exact Hz|]. intro E2. apply Hnot. rewrite <- E2. apply nth_In. exact Hmn'.
Qed.

(* Whatever order np.argsort gives to tied values: position k of the ranking carries stair p n k, the value ranked
   at position k is the same as in the model's ranking, the weight at position k equals the model's weight at its
   position k, and every realization outside the ranking (the failed ones) carries the literal 0 *)
Theorem cvar_along_tie_robust p values failed idx :
  length failed = length values -> (0 < p)%Q -> (p <= 1)%Q -> valid_order values failed idx ->
  let w := cvar_along p idx (length values) in
  length idx = count_ok failed /\
  (forall k, (k < length idx)%nat ->
     (nth (nth k idx 0%nat) w 0 == stair p (count_ok failed) k)%Q /\
     (nth (nth k idx 0%nat) values 0 == nth (nth k (ranked failed values) 0%nat) values 0)%Q /\
     (nth (nth k idx 0%nat) w 0 == nth (nth k (ranked failed values) 0%nat) (cvar_weights p values failed) 0)%Q) /\
  (forall r, succeeded failed r = false -> nth r w 0%Q = 0%Q).
Proof.
  intros HL Hp Hp1 Hv w. pose proof (valid_order_NoDup _ _ _ Hv) as ND.
  assert (HR : forall i, In i idx -> (i < length values)%nat).
  { intros i Hi. apply (valid_order_In _ _ _ i Hv) in Hi. lia. }
  destruct (cvar_along_raw p idx (length values) ND HR Hp Hp1) as [Hin Hout].
  assert (Hlen : length idx = count_ok failed) by (rewrite (valid_order_length _ _ _ Hv); apply successes_length).
  split; [exact Hlen|]. split.
  - intros k Hk.
    assert (Hst : (nth (nth k idx 0%nat) w 0 == stair p (count_ok failed) k)%Q).
    { unfold w. rewrite (Hin k Hk), Hlen. apply stair_raw_eq; try assumption. lia. }
    split; [exact Hst|].
    assert (Hall : forall k0, (k0 < length idx)%nat -> (nth (nth k0 idx 0%nat) w 0 == stair p (length idx) k0)%Q).
    { intros k0 Hk0. unfold w. rewrite (Hin k0 Hk0). apply stair_raw_eq; try assumption. lia. }
    exact (cvar_unique p values failed idx w HL Hp Hp1 Hv Hall k Hk).
  - intros r Hs. apply Hout. intro Hi. apply (valid_order_In _ _ _ r Hv) in Hi as [_ Hf].
    unfold succeeded in Hs. rewrite Hf in Hs. discriminate.
Qed.

(* the tail mean of a function that is constant on tied ranking values does not depend on the tie order *)
Theorem tail_mean_tie_invariant p values failed idx f :
  length failed = length values -> valid_order values failed idx ->
  (forall a b, (nth a values 0 == nth b values 0)%Q -> (nth a f 0 == nth b f 0)%Q) ->
  (tail_mean p idx f == tail_mean p (ranked failed values) f)%Q.
Proof.
  intros HL Hv Hf. pose proof (ranked_valid_order failed values HL) as Hr.
  assert (Hlen : length idx = length (ranked failed values))
    by (rewrite (valid_order_length _ _ _ Hv), (valid_order_length _ _ _ Hr); reflexivity).
  unfold tail_mean. rewrite <- Hlen.
  assert (E : (qsum (map (fun k => stair p (length idx) k * nth (nth k idx 0%nat) f 0) (seq 0 (length idx))) ==
               qsum (map (fun k => stair p (length idx) k * nth (nth k (ranked failed values) 0%nat) f 0) (seq 0 (length idx))))%Q).
  { apply qsum_map_ext. intros k Hk. apply in_seq in Hk.
    rewrite (Hf _ _ (valid_orders_same_values values failed idx (ranked failed values) k Hv Hr ltac:(lia))). reflexivity. }
  rewrite E. reflexivity.
Qed.

(* ---- values reported by the evaluator ------------------------------------------------------------------------ *)
Lemma estimate_nth cfg wm failed count m j : (j < count)%nat ->
  nth j (estimate cfg wm failed count m) None =
    mean_value (match wm with Some x => nth j x [] | None => c_rw cfg end) failed (column j m).
Proof.
  intros Hj. unfold estimate.
  match goal with |- nth j (map ?f _) None = _ => set (g := f) end.
  rewrite (nth_indep _ None (g 0%nat)) by (rewrite map_length, seq_length; exact Hj).
  transitivity (g (nth j (seq 0 count) 0%nat)); [exact (map_nth g (seq 0 count) 0%nat j)|].
  rewrite seq_nth by exact Hj. reflexivity.
Qed.

Lemma row_in_force (wm : option matrix) rows rw j : (j < rows)%nat ->
  match wm with Some x => nth j x [] | None => rw end = nth j (default_matrix wm rows rw) [].
Proof.
  intros Hj. destruct wm as [x|]; cbn [default_matrix]; [reflexivity|].
  symmetry. apply nth_repeat_any. exact Hj.
Qed.

Lemma evaluate_functions cfg filters ofm cfm rmin objs0 cns0 e :
  evaluate cfg filters ofm cfm rmin objs0 cns0 = Ok e ->
  let objs := fst (propagate_nan objs0 cns0) in
  let cns := snd (propagate_nan objs0 cns0) in
  let failed := col0_failed objs in
  e_failed e = failed /\
  filtered_weights cfg filters ofm cfm objs cns = Ok (e_ow e, e_cw e) /\
  e_functions e =
    if Nat.ltb (count_ok failed) rmin then None
    else if all_failed failed then Some (repeat None (length (c_ow cfg)), option_map (fun _ => repeat None (length (c_lower cfg))) cns)
    else Some (estimate cfg (e_ow e) failed (length (c_ow cfg)) objs,
               option_map (estimate cfg (e_cw e) failed (length (c_lower cfg))) cns).
Proof.
  unfold evaluate. destruct (create_all cfg filters) as [[]|c|s]; try discriminate.
  destruct (propagate_nan objs0 cns0) as [objs cns]. cbn [fst snd].
  destruct (filtered_weights cfg filters ofm cfm objs cns) as [[ow cw]|c|s]; try discriminate.
  intros H. injection H as <-. cbn [e_ow e_cw e_failed e_functions]. repeat split; reflexivity.
Qed.

(* the value reported for objective j is the mean estimator applied with the weight vector of the filter mapped to
   it (or the configured weights when none is mapped), failed realizations zeroed *)
Theorem evaluate_objective_value cfg filters fm cfm rmin objs0 cns0 e j :
  evaluate cfg filters (Some fm) cfm rmin objs0 cns0 = Ok e ->
  length fm = length (c_ow cfg) -> (j < length fm)%nat ->
  let objs := fst (propagate_nan objs0 cns0) in
  let cns := snd (propagate_nan objs0 cns0) in
  let failed := col0_failed objs in
  (rmin <= count_ok failed)%nat -> (0 < count_ok failed)%nat ->
  exists fo co w,
    e_functions e = Some (fo, co) /\
    nth j fo None = mean_value w failed (column j objs) /\
    match znth (nth j fm (-1)%Z) filters with
    | Some m => get_weights cfg m objs cns = Ok w
    | None => w = c_rw cfg
    end.
Proof.
  intros He HF Hj objs cns failed Hmin Hpos.
  destruct (evaluate_functions _ _ _ _ _ _ _ _ He) as [_ [Hw Hfn]]. fold objs cns failed in Hw, Hfn.
  assert (Hlt : Nat.ltb (count_ok failed) rmin = false) by (apply Nat.ltb_ge; exact Hmin).
  assert (Haf : all_failed failed = false).
  { destruct (all_failed failed) eqn:E; [|reflexivity]. apply count_ok_all_failed in E. lia. }
  rewrite Hlt, Haf in Hfn.
  exists (estimate cfg (e_ow e) failed (length (c_ow cfg)) objs),
         (option_map (estimate cfg (e_cw e) failed (length (c_lower cfg))) cns),
         (nth j (default_matrix (e_ow e) (length (c_ow cfg)) (c_rw cfg)) []).
  split; [exact Hfn|]. split.
  - rewrite estimate_nth by lia. rewrite (row_in_force (e_ow e) (length (c_ow cfg)) (c_rw cfg) j) by lia. reflexivity.
  - exact (filtered_rows_objectives cfg filters fm cfm objs cns (e_ow e) (e_cw e) HF Hw j Hj).
Qed.

(* ... and so an objective mapped to a cvar-objective filter is reported as the CVaR_p tail mean of its empirical
   distribution over the successful realizations, worst (largest weighted sum of the ranked objectives) first *)
Theorem evaluate_cvar_objective_value cfg filters fm cfm rmin objs0 cns0 e j sort p :
  evaluate cfg filters (Some fm) cfm rmin objs0 cns0 = Ok e ->
  length fm = length (c_ow cfg) -> (j < length fm)%nat ->
  znth (nth j fm (-1)%Z) filters = Some (CvarObjective sort p) -> (0 < p)%Q -> (p <= 1)%Q ->
  let objs := fst (propagate_nan objs0 cns0) in
  let failed := col0_failed objs in
  (rmin <= count_ok failed)%nat -> (0 < count_ok failed)%nat ->
  exists fo co v,
    e_functions e = Some (fo, co) /\ nth j fo None = Some v /\
    (v == tail_mean p (ranked failed (cvar_objective_keys cfg sort objs)) (column j objs))%Q.
Proof.
  intros He HF Hj Hm Hp Hp1 objs failed Hmin Hpos.
  destruct (evaluate_objective_value _ _ _ _ _ _ _ _ _ He HF Hj Hmin Hpos) as [fo [co [w [Hfn [Hv Hw]]]]].
  fold objs failed in Hv, Hw. rewrite Hm in Hw.
  rewrite cvar_objective_outcome in Hw by assumption. fold failed in Hw.
  destruct (Nat.eqb_spec (count_ok failed) 0) as [H0|H0]; [lia|]. injection Hw as <-.
  assert (HL : length failed = length (cvar_objective_keys cfg sort objs)).
  { unfold failed, cvar_objective_keys. rewrite col0_failed_length, map_length. reflexivity. }
  assert (HFl : length (column j objs) = length failed).
  { unfold failed, column. rewrite col0_failed_length, map_length. reflexivity. }
  destruct (cvar_tail_mean p (cvar_objective_keys cfg sort objs) failed (column j objs) HL HFl Hp Hp1 Hpos) as [v [E Hv']].
  exists fo, co, v. split; [exact Hfn|]. split; [|exact Hv'].
  rewrite Hv. unfold cvar_objectives. fold failed. exact E.
Qed.
