(* Proofs/Tracker.v -- lemmas about Model/Tracker.v (property C12). *)
From Coq Require Import QArith ZArith List Bool Arith Lia Lqa.
From Ropt Require Import Base.Num Base.ListX Model.Tracker.
Import ListNotations.
Open Scope Q_scope.

(* ---- the handler's loop is a plain fold --------------------------------------------------------- *)
Definition entry (p : item * facet) : nat * facet * facet := (i_id (fst p), i_u (fst p), snd p).
Definition proj (o : option (nat * facet * facet)) : option (nat * facet) :=
  match o with Some (i, u, _) => Some (i, u) | None => None end.

Definition upd_best (tol : option Q) (cur : option (nat * facet * facet)) (p : item * facet)
  : option (nat * facet * facet) :=
  if eligible tol (snd p) && new_optimal (option_map snd cur) (snd p) then Some (entry p) else cur.

Lemma uo_step_fst tol acc p : fst (uo_step tol acc p) = upd_best tol (fst acc) p.
Proof.
  unfold uo_step, upd_best, entry. destruct p as [it t]; cbn [fst snd].
  destruct (eligible tol t); cbn [andb]; [|reflexivity].
  destruct (new_optimal (option_map snd (fst acc)) t); reflexivity.
Qed.

Lemma uo_fold_fst tol ps : forall acc,
  fst (fold_left (uo_step tol) ps acc) = fold_left (upd_best tol) ps (fst acc).
Proof.
  induction ps as [|p ps IH]; intros acc; cbn [fold_left]; [reflexivity|].
  rewrite IH, uo_step_fst. reflexivity.
Qed.

(* loop invariant of _update_optimal_result: return_result is None and optimal_result untouched,
   or both are the same new pair *)
Definition uo_inv (opt0 : option (nat * facet * facet))
                  (acc : option (nat * facet * facet) * option (nat * facet * facet)) : Prop :=
  (snd acc = None /\ fst acc = opt0) \/ (exists o, snd acc = Some o /\ fst acc = Some o).

Lemma uo_step_inv tol opt0 acc p : uo_inv opt0 acc -> uo_inv opt0 (uo_step tol acc p).
Proof.
  intros H. unfold uo_step. destruct p as [it t].
  destruct (eligible tol t); [|exact H].
  destruct (new_optimal (option_map snd (fst acc)) t); [|exact H].
  right. eexists. cbn [fst snd]. split; reflexivity.
Qed.

Lemma uo_fold_inv tol opt0 ps : forall acc, uo_inv opt0 acc -> uo_inv opt0 (fold_left (uo_step tol) ps acc).
Proof.
  induction ps as [|p ps IH]; intros acc H; cbn [fold_left]; [exact H|].
  apply IH, uo_step_inv, H.
Qed.

Lemma update_optimal_spec tol opt ps :
  match update_optimal tol opt ps with
  | Some o => fold_left (upd_best tol) ps opt = Some o
  | None => fold_left (upd_best tol) ps opt = opt
  end.
Proof.
  unfold update_optimal.
  pose proof (uo_fold_inv tol opt ps (opt, None)) as H.
  pose proof (uo_fold_fst tol ps (opt, None)) as F. cbn [fst] in F.
  destruct H as [[Hs Hf]|[o [Hs Hf]]]; [left; split; reflexivity| |]; rewrite Hs, <- F, Hf; reflexivity.
Qed.

(* ---- resync / stored ---------------------------------------------------------------------------- *)
Lemma proj_resync st : proj (resync st) = stored st.
Proof.
  unfold resync. destruct (stored st) as [[sid sf]|]; [|reflexivity].
  destruct (optimal st) as [[[oid ou] ot]|]; [destruct (Nat.eqb oid sid)|]; reflexivity.
Qed.

Lemma resync_synced o : resync {| stored := proj o; optimal := o |} = o.
Proof.
  destruct o as [[[i u] t]|]; cbn; [|reflexivity]. rewrite Nat.eqb_refl. reflexivity.
Qed.

Lemma delivered_one cfg ev :
  delivered cfg [ev] = if sees cfg ev then map (fun it => (it, partner ev it)) (e_items ev) else [].
Proof. unfold delivered. cbn [flat_map]. apply app_nil_r. Qed.

Lemma delivered_app cfg h1 h2 : delivered cfg (h1 ++ h2) = delivered cfg h1 ++ delivered cfg h2.
Proof. unfold delivered. apply flat_map_app. Qed.

Lemma delivered_cons cfg ev h : delivered cfg (ev :: h) = delivered cfg [ev] ++ delivered cfg h.
Proof. apply (delivered_app cfg [ev] h). Qed.

(* one event, 'best' tracker: the (re-synchronised) state is folded over the delivered pairs *)
Lemma handle_best cfg st ev : c_what cfg = Best ->
  let st' := deliver cfg st ev in
  resync st' = fold_left (upd_best (c_tol cfg)) (delivered cfg [ev]) (resync st) /\
  stored st' = proj (resync st').
Proof.
  intros Hw. cbv zeta. rewrite delivered_one. unfold deliver, sees.
  destruct (reaches cfg ev); cbn [andb fold_left]; [|split; [reflexivity | symmetry; apply proj_resync]].
  unfold handle_event. rewrite Hw.
  destruct (accepts cfg ev); cbn [fold_left].
  - pose proof (update_optimal_spec (c_tol cfg) (resync st)
                  (map (fun it => (it, partner ev it)) (e_items ev))) as H.
    destruct (update_optimal (c_tol cfg) (resync st) _) as [[[oid ou] ot]|].
    + rewrite H. split; [|cbn; rewrite Nat.eqb_refl; reflexivity].
      cbn. rewrite Nat.eqb_refl. reflexivity.
    + rewrite H. rewrite <- (proj_resync st). rewrite resync_synced. split; reflexivity.
  - split; [reflexivity | symmetry; apply proj_resync].
Qed.

Lemma track_best cfg h : c_what cfg = Best -> forall st,
  let st' := track cfg st (map Emit h) in
  resync st' = fold_left (upd_best (c_tol cfg)) (delivered cfg h) (resync st) /\
  stored st' = proj (resync st').
Proof.
  intros Hw. induction h as [|ev h IH]; intros st; cbv zeta.
  - cbn. split; [reflexivity | symmetry; apply proj_resync].
  - cbn [map]. unfold track. cbn [fold_left step]. fold (track cfg (deliver cfg st ev) (map Emit h)).
    destruct (IH (deliver cfg st ev)) as [IH1 IH2]. cbv zeta in IH1, IH2.
    destruct (handle_best cfg st ev Hw) as [H1 _]. cbv zeta in H1.
    rewrite IH2, IH1, H1, (delivered_cons cfg ev h), fold_left_app. split; reflexivity.
Qed.

(* ---- the fold holds the first argmin over the candidates ---------------------------------------- *)
Definition Argmin (tol : option Q) (d : list (item * facet)) (s : option (nat * facet * facet)) : Prop :=
  match s with
  | None => forall p, In p d -> candidate tol p = false
  | Some b => exists d1 p d2, d = d1 ++ p :: d2 /\ b = entry p /\ candidate tol p = true /\
      (forall q, In q d1 -> candidate tol q = true -> oval (snd p) < oval (snd q)) /\
      (forall q, In q d2 -> candidate tol q = true -> oval (snd p) <= oval (snd q))
  end.

Lemma candidate_split tol p : candidate tol p = true <-> eligible tol (snd p) = true /\ exists o, f_obj (snd p) = Some o.
Proof.
  unfold candidate, defined, is_some, is_none. rewrite andb_true_iff.
  destruct (f_obj (snd p)) as [o|]; cbn; split.
  - intros [H _]. split; [exact H | eexists; reflexivity].
  - intros [H _]. split; [exact H | reflexivity].
  - intros [_ H]. discriminate.
  - intros [_ [o H]]. discriminate.
Qed.

(* appending a pair that does not beat the held one keeps the invariant *)
Lemma Argmin_keep tol d s p : Argmin tol d s ->
  (candidate tol p = true -> match s with Some b => oval (snd b) <= oval (snd p) | None => False end) ->
  Argmin tol (d ++ [p]) s.
Proof.
  intros HA Hp. destruct s as [b|]; cbn [Argmin] in *.
  - destruct HA as (d1 & p0 & d2 & -> & -> & Hc & Hlt & Hle).
    exists d1, p0, (d2 ++ [p]). split; [rewrite <- app_assoc; reflexivity|].
    split; [reflexivity|]. split; [exact Hc|]. split; [exact Hlt|].
    intros q Hq Hcq. apply in_app_or in Hq as [Hq|[<-|[]]]; [apply Hle; assumption|].
    exact (Hp Hcq).
  - intros q Hq. apply in_app_or in Hq as [Hq|[<-|[]]]; [apply HA; exact Hq|].
    destruct (candidate tol p) eqn:E; [destruct (Hp eq_refl) | reflexivity].
Qed.

Lemma upd_best_inv tol d s p : Argmin tol d s -> Argmin tol (d ++ [p]) (upd_best tol s p).
Proof.
  intros HA. unfold upd_best.
  destruct (eligible tol (snd p)) eqn:Ee; cbn [andb].
  2:{ apply Argmin_keep; [exact HA|]. intros Hc. apply candidate_split in Hc as [Hc _]. congruence. }
  unfold new_optimal. destruct (f_obj (snd p)) as [o|] eqn:Eo.
  2:{ apply Argmin_keep; [exact HA|]. intros Hc. apply candidate_split in Hc as [_ [o Ho]]. congruence. }
  assert (Hcp : candidate tol p = true) by (apply candidate_split; split; [exact Ee | eexists; exact Eo]).
  destruct s as [b|]; cbn [option_map].
  - cbn [Argmin] in HA. destruct HA as (d1 & p0 & d2 & Hd & Hb & Hc & Hlt & Hle).
    assert (Hsb : snd b = snd p0) by (rewrite Hb; reflexivity).
    rewrite Hsb. pose proof Hc as Hc'. apply candidate_split in Hc' as [_ [ob Hob]]. rewrite Hob.
    destruct (Qltb o ob) eqn:Ec.
    + apply Qltb_lt in Ec. cbn [Argmin]. exists d, p, []. split; [reflexivity|]. split; [reflexivity|].
      split; [exact Hcp|]. split; [|intros q []].
      intros q Hq Hcq. unfold oval at 1. rewrite Eo. subst d.
      apply in_app_or in Hq as [Hq|[<-|Hq]].
      * specialize (Hlt q Hq Hcq). unfold oval at 1 in Hlt. rewrite Hob in Hlt. lra.
      * unfold oval. rewrite Hob. exact Ec.
      * specialize (Hle q Hq Hcq). unfold oval at 1 in Hle. rewrite Hob in Hle. lra.
    + apply Qltb_nlt in Ec. apply Argmin_keep.
      * cbn [Argmin]. exists d1, p0, d2. repeat split; assumption.
      * intros _. rewrite Hsb. unfold oval. rewrite Hob, Eo. lra.
  - cbn [Argmin] in *. exists d, p, []. split; [reflexivity|]. split; [reflexivity|]. split; [exact Hcp|].
    split; [|intros q []]. intros q Hq Hcq. rewrite (HA q Hq) in Hcq. discriminate.
Qed.

Lemma fold_best_inv tol h : forall d s, Argmin tol d s -> Argmin tol (d ++ h) (fold_left (upd_best tol) h s).
Proof.
  induction h as [|p h IH]; intros d s HA; cbn [fold_left].
  - rewrite app_nil_r. exact HA.
  - replace (d ++ p :: h) with ((d ++ [p]) ++ h) by (rewrite <- app_assoc; reflexivity).
    apply IH, upd_best_inv, HA.
Qed.

Lemma resync_init : resync init = None. Proof. reflexivity. Qed.

Theorem best_argmin cfg h : c_what cfg = Best ->
  Argmin (c_tol cfg) (delivered cfg h) (resync (track cfg init (map Emit h))) /\
  stored (track cfg init (map Emit h)) = proj (resync (track cfg init (map Emit h))).
Proof.
  intros Hw. destruct (track_best cfg h Hw init) as [H1 H2]. cbv zeta in H1, H2. split; [|exact H2].
  rewrite H1, resync_init. apply (fold_best_inv (c_tol cfg) (delivered cfg h) [] None). intros p [].
Qed.

(* the same, phrased on what Plan.get(tracker, "results") returns *)
Definition Held (tol : option Q) (d : list (item * facet)) (r : option (nat * facet)) : Prop :=
  match r with
  | None => forall p, In p d -> candidate tol p = false
  | Some (id, u) => exists d1 p d2, d = d1 ++ p :: d2 /\ id = i_id (fst p) /\ u = i_u (fst p) /\
      candidate tol p = true /\
      (forall q, In q d1 -> candidate tol q = true -> oval (snd p) < oval (snd q)) /\
      (forall q, In q d2 -> candidate tol q = true -> oval (snd p) <= oval (snd q))
  end.

Lemma Argmin_Held tol d s : Argmin tol d s -> Held tol d (proj s).
Proof.
  destruct s as [[[i u] t]|]; cbn; [|trivial].
  intros (d1 & p & d2 & Hd & Hb & Hc & Hlt & Hle). unfold entry in Hb. injection Hb as -> -> ->.
  exists d1, p, d2. repeat split; assumption.
Qed.

Theorem best_held cfg h : c_what cfg = Best ->
  Held (c_tol cfg) (delivered cfg h) (stored (track cfg init (map Emit h))).
Proof.
  intros Hw. destruct (best_argmin cfg h Hw) as [HA HS]. rewrite HS. apply Argmin_Held, HA.
Qed.

(* ---- feasibility means what the property says ---------------------------------------------------- *)
Lemma violates_false_iff t f :
  violates (Some t) f = false <->
  forall vs, f_viol f = Some vs -> forall l, In (Some l) vs -> forall x, In x l -> x <= t.
Proof.
  unfold violates. destruct (f_viol f) as [vs|].
  - split.
    + intros H vs' E l Hl x Hx. injection E as <-.
      destruct (Qlt_le_dec t x) as [Hlt|Hle]; [|exact Hle]. exfalso.
      assert (existsb (fun v : option (list Q) => match v with None => false | Some l0 => existsb (fun y => Qltb t y) l0 end) vs = true) as C.
      { apply existsb_exists. exists (Some l). split; [exact Hl|]. apply existsb_exists. exists x. split; [exact Hx|].
        apply Qltb_lt. exact Hlt. }
      congruence.
    + intros H. apply not_true_iff_false. intros C. apply existsb_exists in C as [[l|] [Hl C]]; [|discriminate].
      apply existsb_exists in C as [x [Hx C]]. apply Qltb_lt in C.
      specialize (H vs eq_refl l Hl x Hx). lra.
  - split; [intros _ vs E; discriminate | reflexivity].
Qed.

Lemma candidate_feasible tol p : candidate tol p = true ->
  f_isfun (snd p) = true /\ f_hasf (snd p) = true /\ violates tol (snd p) = false /\ exists o, f_obj (snd p) = Some o.
Proof.
  intros H. apply candidate_split in H as [He Ho]. unfold eligible in He.
  apply andb_prop in He as [He Hv]. apply andb_prop in He as [Hf Hh]. apply negb_true_iff in Hv. auto.
Qed.

(* ---- frame: deliveries without a candidate change nothing ----------------------------------------- *)
Lemma fold_best_frame tol ps : (forall p, In p ps -> candidate tol p = false) ->
  forall s, fold_left (upd_best tol) ps s = s.
Proof.
  induction ps as [|p ps IH]; intros H s; cbn [fold_left]; [reflexivity|].
  rewrite IH by (intros q Hq; apply H; right; exact Hq).
  unfold upd_best. destruct (eligible tol (snd p)) eqn:Ee; cbn [andb]; [|reflexivity].
  unfold new_optimal. destruct (f_obj (snd p)) as [o|] eqn:Eo; [|reflexivity].
  assert (candidate tol p = true) as C by (apply candidate_split; split; [exact Ee | eexists; exact Eo]).
  rewrite (H p (or_introl eq_refl)) in C. discriminate.
Qed.

Theorem best_frame cfg st ev : c_what cfg = Best ->
  (forall p, In p (delivered cfg [ev]) -> candidate (c_tol cfg) p = false) ->
  stored (deliver cfg st ev) = stored st /\ resync (deliver cfg st ev) = resync st.
Proof.
  intros Hw H. destruct (handle_best cfg st ev Hw) as [H1 H2]. cbv zeta in H1, H2.
  rewrite fold_best_frame in H1 by exact H. split; [|exact H1].
  rewrite H2, H1. apply proj_resync.
Qed.

(* the state after a history depends only on the re-synchronised start state *)
Lemma track_best_stored cfg h st : c_what cfg = Best ->
  stored (track cfg st (map Emit h)) = proj (fold_left (upd_best (c_tol cfg)) (delivered cfg h) (resync st)).
Proof.
  intros Hw. destruct (track_best cfg h Hw st) as [H1 H2]. cbv zeta in H1, H2. rewrite H2, H1. reflexivity.
Qed.

(* a valid result delivered after any number of useless ones is retained *)
Theorem best_never_blocked cfg h ev p : c_what cfg = Best ->
  (forall q, In q (delivered cfg h) -> candidate (c_tol cfg) q = false) ->
  delivered cfg [ev] = [p] -> candidate (c_tol cfg) p = true ->
  stored (track cfg init (map Emit (h ++ [ev]))) = Some (i_id (fst p), i_u (fst p)).
Proof.
  intros Hw Hh Hev Hc. rewrite (track_best_stored cfg (h ++ [ev]) init Hw), delivered_app, fold_left_app.
  rewrite (fold_best_frame _ _ Hh), Hev, resync_init. cbn [fold_left]. unfold upd_best.
  apply candidate_split in Hc as [He [o Ho]]. rewrite He. unfold new_optimal. rewrite Ho. reflexivity.
Qed.

(* ---- 'last' -------------------------------------------------------------------------------------- *)
Definition last_entry (p : item * facet) : nat * facet := (i_id (fst p), i_u (fst p)).

Lemma find_app {A} (f : A -> bool) a b : find f (a ++ b) = match find f a with Some x => Some x | None => find f b end.
Proof. induction a as [|x a IH]; cbn; [reflexivity|]. destruct (f x); [reflexivity | exact IH]. Qed.

Lemma handle_last cfg st ev : c_what cfg = Last ->
  stored (deliver cfg st ev) =
  match find (last_candidate (c_tol cfg)) (rev (delivered cfg [ev])) with
  | Some p => Some (last_entry p)
  | None => stored st
  end.
Proof.
  intros Hw. rewrite delivered_one. unfold deliver, sees.
  destruct (reaches cfg ev); cbn [andb]; [|reflexivity].
  unfold handle_event. rewrite Hw.
  destruct (accepts cfg ev); [|reflexivity].
  unfold get_last, last_candidate, last_entry.
  destruct (find _ (rev (map (fun it => (it, partner ev it)) (e_items ev)))) as [p|]; reflexivity.
Qed.

Theorem last_spec cfg h : c_what cfg = Last -> forall st,
  stored (track cfg st (map Emit h)) =
  match find (last_candidate (c_tol cfg)) (rev (delivered cfg h)) with
  | Some p => Some (last_entry p)
  | None => stored st
  end.
Proof.
  intros Hw. induction h as [|ev h IH]; intros st; [reflexivity|].
  cbn [map]. unfold track. cbn [fold_left step]. fold (track cfg (deliver cfg st ev) (map Emit h)).
  rewrite IH, (delivered_cons cfg ev h), rev_app_distr, find_app.
  destruct (find (last_candidate (c_tol cfg)) (rev (delivered cfg h))); [reflexivity|].
  apply handle_last, Hw.
Qed.

(* find on the reversed list = the last element satisfying the predicate *)
Lemma find_rev_last {A} (f : A -> bool) l x : find f (rev l) = Some x <->
  exists l1 l2, l = l1 ++ x :: l2 /\ f x = true /\ forall y, In y l2 -> f y = false.
Proof.
  split.
  - induction l as [|a l IH] using rev_ind; [discriminate|].
    rewrite rev_app_distr. cbn [rev app find]. destruct (f a) eqn:Ea.
    + intros E. injection E as <-. exists l, []. split; [reflexivity|]. split; [exact Ea | intros y []].
    + intros E. destruct (IH E) as (l1 & l2 & -> & Hx & Hl). exists l1, (l2 ++ [a]).
      split; [rewrite <- app_assoc; reflexivity|]. split; [exact Hx|].
      intros y Hy. apply in_app_or in Hy as [Hy|[<-|[]]]; [apply Hl; exact Hy | exact Ea].
  - intros (l1 & l2 & -> & Hx & Hl). rewrite rev_app_distr. cbn [rev]. rewrite <- app_assoc, find_app.
    assert (find f (rev l2) = None) as ->.
    { destruct (find f (rev l2)) eqn:E; [|reflexivity]. apply find_some in E as [Hi Hf].
      apply in_rev in Hi. rewrite (Hl _ Hi) in Hf. discriminate. }
    cbn. rewrite Hx. reflexivity.
Qed.

Lemma find_rev_none {A} (f : A -> bool) l : find f (rev l) = None <-> forall y, In y l -> f y = false.
Proof.
  split.
  - intros H y Hy. apply in_rev in Hy. exact (find_none f (rev l) H y Hy).
  - intros H. destruct (find f (rev l)) eqn:E; [|reflexivity]. apply find_some in E as [Hi Hf].
    apply in_rev in Hi. rewrite (H _ Hi) in Hf. discriminate.
Qed.

(* ---- sign-flipping transform ---------------------------------------------------------------------- *)
Definition uval (p : item * facet) : Q := oval (i_u (fst p)).

Theorem best_sign_flip cfg h : c_what cfg = Best ->
  (forall p, In p (delivered cfg h) -> uval p == - oval (snd p)) ->
  match stored (track cfg init (map Emit h)) with
  | None => forall p, In p (delivered cfg h) -> candidate (c_tol cfg) p = false
  | Some (id, u) => exists p, In p (delivered cfg h) /\ id = i_id (fst p) /\ u = i_u (fst p) /\
      candidate (c_tol cfg) p = true /\
      forall q, In q (delivered cfg h) -> candidate (c_tol cfg) q = true -> uval q <= uval p
  end.
Proof.
  intros Hw Hflip. pose proof (best_held cfg h Hw) as H. unfold Held in H.
  destruct (stored (track cfg init (map Emit h))) as [[id u]|]; [|exact H].
  destruct H as (d1 & p & d2 & Hd & Hi & Hu & Hc & Hlt & Hle).
  exists p. assert (In p (delivered cfg h)) as Hp by (rewrite Hd; apply in_elt).
  split; [exact Hp|]. split; [exact Hi|]. split; [exact Hu|]. split; [exact Hc|].
  intros q Hq Hcq. rewrite (Hflip q Hq), (Hflip p Hp). rewrite Hd in Hq.
  apply in_app_or in Hq as [Hq|[<-|Hq]].
  - specialize (Hlt q Hq Hcq). lra.
  - lra.
  - specialize (Hle q Hq Hcq). lra.
Qed.

(* ---- reset ----------------------------------------------------------------------------------------- *)
Lemma track_app cfg st h1 h2 : track cfg st (h1 ++ h2) = track cfg (track cfg st h1) h2.
Proof. unfold track. apply fold_left_app. Qed.

Theorem reset_forgets cfg st h1 h2 :
  stored (track cfg st (h1 ++ Put None :: map Emit h2)) = stored (track cfg init (map Emit h2)).
Proof.
  rewrite track_app. unfold track at 1. cbn [fold_left step]. fold (track cfg).
  set (s1 := track cfg st h1). fold (track cfg {| stored := None; optimal := optimal s1 |} (map Emit h2)).
  destruct (c_what cfg) eqn:Hw.
  - rewrite !(track_best_stored cfg h2 _ Hw). reflexivity.
  - rewrite !(last_spec cfg h2 Hw). reflexivity.
Qed.

(* ---- BasicOptimizer -------------------------------------------------------------------------------- *)
(* all result pairs of the FINISHED_EVALUATION events of a run *)
Definition all_pairs (evs : list event) : list (item * facet) :=
  flat_map (fun ev => match finished_evaluation with
                      | Some c => if Z.eqb (e_type ev) c && e_has_results ev
                                  then map (fun it => (it, partner ev it)) (e_items ev) else []
                      | None => []
                      end) evs.

(* the events of a BasicOptimizer run: emitted by the one optimizer step, on the one plan *)
Definition basic_run (sid : nat) (evs : list event) : Prop :=
  forall ev, In ev evs -> e_src ev = sid /\ e_path ev = [0%nat].

Lemma delivered_basic sid tol evs : basic_run sid evs ->
  delivered (basic_config sid tol) evs = all_pairs evs.
Proof.
  intros H. unfold delivered, all_pairs. induction evs as [|ev evs IH]; [reflexivity|].
  cbn [flat_map]. rewrite IH by (intros e He; apply H; right; exact He). f_equal.
  destruct (H ev (or_introl eq_refl)) as [Hs Hp].
  unfold sees, reaches, accepts, basic_config; cbn [c_sources c_plan existsb]. rewrite Hs, Hp, Nat.eqb_refl.
  cbn [existsb Nat.eqb orb andb].
  destruct finished_evaluation; [|reflexivity]. rewrite andb_true_r. reflexivity.
Qed.

Theorem basic_optimizer_spec sid tol evs : basic_run sid evs ->
  match basic_optimizer sid tol evs with
  | None => forall p, In p (all_pairs evs) -> candidate tol p = false
  | Some id => exists d1 p d2, all_pairs evs = d1 ++ p :: d2 /\ id = i_id (fst p) /\
      candidate tol p = true /\
      (forall q, In q d1 -> candidate tol q = true -> oval (snd p) < oval (snd q)) /\
      (forall q, In q d2 -> candidate tol q = true -> oval (snd p) <= oval (snd q))
  end.
Proof.
  intros H. unfold basic_optimizer, stored_id.
  pose proof (best_held (basic_config sid tol) evs eq_refl) as HH.
  rewrite (delivered_basic sid tol evs H) in HH. cbn [c_tol basic_config] in HH.
  destruct (stored (track (basic_config sid tol) init (map Emit evs))) as [[id u]|]; cbn [option_map fst]; [|exact HH].
  destruct HH as (d1 & p & d2 & Hd & Hi & Hu & Hc & Hlt & Hle). exists d1, p, d2. repeat split; assumption.
Qed.

(* trace = the stored identity after every prefix *)
Lemma trace_length cfg h : forall st, length (trace cfg st h) = length h.
Proof. induction h as [|o h IH]; intros st; cbn; [reflexivity | rewrite IH; reflexivity]. Qed.

Lemma trace_last cfg h o : forall st, last (trace cfg st (h ++ [o])) None = stored_id (track cfg st (h ++ [o])).
Proof.
  induction h as [|a h IH]; intros st; [reflexivity|].
  cbn [app trace]. unfold track. cbn [fold_left]. fold (track cfg (step cfg st a) (h ++ [o])).
  rewrite <- IH. destruct (trace cfg (step cfg st a) (h ++ [o])) eqn:E; [|reflexivity].
  pose proof (trace_length cfg (h ++ [o]) (step cfg st a)) as L. rewrite E, app_length in L. cbn in L. lia.
Qed.

(* ---- corollaries in the words of the property ------------------------------------------------------ *)
Theorem best_held_feasible cfg h t id u : c_what cfg = Best -> c_tol cfg = Some t ->
  stored (track cfg init (map Emit h)) = Some (id, u) ->
  exists p, In p (delivered cfg h) /\ id = i_id (fst p) /\ u = i_u (fst p) /\
    f_isfun (snd p) = true /\ f_hasf (snd p) = true /\ (exists o, f_obj (snd p) = Some o) /\
    (forall vs, f_viol (snd p) = Some vs -> forall l, In (Some l) vs -> forall x, In x l -> x <= t) /\
    (forall q, In q (delivered cfg h) -> candidate (Some t) q = true -> oval (snd p) <= oval (snd q)).
Proof.
  intros Hw Ht Hs. pose proof (best_held cfg h Hw) as H. rewrite Hs, Ht in H. cbn [Held] in H.
  destruct H as (d1 & p & d2 & Hd & Hi & Hu & Hc & Hlt & Hle). exists p.
  split; [rewrite Hd; apply in_elt|]. split; [exact Hi|]. split; [exact Hu|].
  destruct (candidate_feasible _ _ Hc) as (Hf & Hh & Hv & Ho).
  split; [exact Hf|]. split; [exact Hh|]. split; [exact Ho|]. split.
  - apply violates_false_iff. exact Hv.
  - intros q Hq Hcq. rewrite Hd in Hq. apply in_app_or in Hq as [Hq|[<-|Hq]].
    + specialize (Hlt q Hq Hcq). lra.
    + lra.
    + exact (Hle q Hq Hcq).
Qed.

Theorem last_held cfg h st : c_what cfg = Last ->
  (exists d1 p d2, delivered cfg h = d1 ++ p :: d2 /\ last_candidate (c_tol cfg) p = true /\
      (forall q, In q d2 -> last_candidate (c_tol cfg) q = false) /\
      stored (track cfg st (map Emit h)) = Some (i_id (fst p), i_u (fst p)))
  \/ ((forall q, In q (delivered cfg h) -> last_candidate (c_tol cfg) q = false) /\
      stored (track cfg st (map Emit h)) = stored st).
Proof.
  intros Hw. rewrite (last_spec cfg h Hw st).
  destruct (find (last_candidate (c_tol cfg)) (rev (delivered cfg h))) as [p|] eqn:E.
  - left. apply find_rev_last in E as (d1 & d2 & Hd & Hp & Hl). exists d1, p, d2. repeat split; assumption.
  - right. split; [apply find_rev_none; exact E | reflexivity].
Qed.

(* ---- events that do not reach the handler, or that it does not accept, are the identity ------------- *)
Lemma deliver_unseen cfg st ev : sees cfg ev = false -> deliver cfg st ev = st.
Proof.
  unfold sees, deliver. destruct (reaches cfg ev); cbn [andb]; [|reflexivity].
  intros H. unfold handle_event. rewrite H. reflexivity.
Qed.

Theorem track_filter_seen cfg h : forall st,
  track cfg st (map Emit h) = track cfg st (map Emit (filter (sees cfg) h)).
Proof.
  unfold track. induction h as [|ev h IH]; intros st; [reflexivity|].
  cbn [map filter]. destruct (sees cfg ev) eqn:E.
  - cbn [map fold_left]. apply IH.
  - cbn [fold_left step]. rewrite (deliver_unseen _ _ _ E). apply IH.
Qed.

(* ---- 'best' from an ARBITRARY handler state (after Plan.set replaced the stored result, in the middle
        of a run, ...): the held pair is kept unless a delivered candidate is strictly better ------------ *)
Definition Beats (tol : option Q) (o0 : Q) (b0 : nat * facet * facet) (d : list (item * facet))
                 (s : option (nat * facet * facet)) : Prop :=
  (s = Some b0 /\ forall q, In q d -> candidate tol q = true -> o0 <= oval (snd q))
  \/ (exists d1 p d2, d = d1 ++ p :: d2 /\ s = Some (entry p) /\ candidate tol p = true /\ oval (snd p) < o0 /\
        (forall q, In q d1 -> candidate tol q = true -> oval (snd p) < oval (snd q)) /\
        (forall q, In q d2 -> candidate tol q = true -> oval (snd p) <= oval (snd q))).

Lemma Beats_keep tol o0 b0 d s p : f_obj (snd b0) = Some o0 -> Beats tol o0 b0 d s ->
  (candidate tol p = true -> match s with Some b => oval (snd b) <= oval (snd p) | None => False end) ->
  Beats tol o0 b0 (d ++ [p]) s.
Proof.
  intros Hb [[Hs Hall]|(d1 & p1 & d2 & Hd & Hs & Hc & Hlt0 & Hlt & Hle)] Hp.
  - left. split; [exact Hs|]. intros q Hq Hcq. apply in_app_or in Hq as [Hq|[<-|[]]]; [apply Hall; assumption|].
    specialize (Hp Hcq). rewrite Hs in Hp. unfold oval at 1 in Hp. rewrite Hb in Hp. exact Hp.
  - right. exists d1, p1, (d2 ++ [p]). split; [rewrite Hd, <- app_assoc; reflexivity|].
    split; [exact Hs|]. split; [exact Hc|]. split; [exact Hlt0|]. split; [exact Hlt|].
    intros q Hq Hcq. apply in_app_or in Hq as [Hq|[<-|[]]]; [apply Hle; assumption|].
    specialize (Hp Hcq). rewrite Hs in Hp. exact Hp.
Qed.

Lemma upd_best_beats tol o0 b0 d s p : f_obj (snd b0) = Some o0 ->
  Beats tol o0 b0 d s -> Beats tol o0 b0 (d ++ [p]) (upd_best tol s p).
Proof.
  intros Hb HB. unfold upd_best.
  destruct (eligible tol (snd p)) eqn:Ee; cbn [andb].
  2:{ apply Beats_keep; [exact Hb | exact HB|]. intros Hc. apply candidate_split in Hc as [Hc _]. congruence. }
  unfold new_optimal. destruct (f_obj (snd p)) as [o|] eqn:Eo.
  2:{ apply Beats_keep; [exact Hb | exact HB|]. intros Hc. apply candidate_split in Hc as [_ [o Ho]]. congruence. }
  assert (Hcp : candidate tol p = true) by (apply candidate_split; split; [exact Ee | eexists; exact Eo]).
  destruct HB as [[Hs Hall]|(d1 & p1 & d2 & Hd & Hs & Hc & Hlt0 & Hlt & Hle)]; rewrite Hs; cbn [option_map].
  - rewrite Hb. destruct (Qltb o o0) eqn:Ec.
    + apply Qltb_lt in Ec. right. exists d, p, []. split; [reflexivity|]. split; [reflexivity|]. split; [exact Hcp|].
      unfold oval at 1 2. rewrite Eo. split; [exact Ec|]. split; [|intros q []].
      intros q Hq Hcq. specialize (Hall q Hq Hcq). lra.
    + apply Qltb_nlt in Ec. apply Beats_keep; [exact Hb | left; split; [reflexivity | exact Hall] |].
      intros _. unfold oval. rewrite Hb, Eo. lra.
  - assert (Hsb : snd (entry p1) = snd p1) by reflexivity. rewrite Hsb.
    pose proof Hc as Hc'. apply candidate_split in Hc' as [_ [o1 Ho1]]. rewrite Ho1.
    unfold oval at 1 in Hlt0. rewrite Ho1 in Hlt0.
    destruct (Qltb o o1) eqn:Ec.
    + apply Qltb_lt in Ec. right. exists d, p, []. split; [reflexivity|]. split; [reflexivity|]. split; [exact Hcp|].
      unfold oval at 1 2. rewrite Eo. split; [lra|]. split; [|intros q []].
      intros q Hq Hcq. subst d. apply in_app_or in Hq as [Hq|[<-|Hq]].
      * specialize (Hlt q Hq Hcq). unfold oval at 1 in Hlt. rewrite Ho1 in Hlt. lra.
      * unfold oval. rewrite Ho1. exact Ec.
      * specialize (Hle q Hq Hcq). unfold oval at 1 in Hle. rewrite Ho1 in Hle. lra.
    + apply Qltb_nlt in Ec. apply Beats_keep; [exact Hb| |].
      * right. exists d1, p1, d2. unfold oval at 1. rewrite Ho1. repeat split; assumption.
      * intros _. rewrite Hsb. unfold oval. rewrite Ho1, Eo. lra.
Qed.

Lemma fold_beats tol o0 b0 h : f_obj (snd b0) = Some o0 -> forall d s,
  Beats tol o0 b0 d s -> Beats tol o0 b0 (d ++ h) (fold_left (upd_best tol) h s).
Proof.
  intros Hb. induction h as [|p h IH]; intros d s HB; cbn [fold_left].
  - rewrite app_nil_r. exact HB.
  - replace (d ++ p :: h) with ((d ++ [p]) ++ h) by (rewrite <- app_assoc; reflexivity).
    apply IH, upd_best_beats; assumption.
Qed.

Theorem best_from_state cfg st h b o : c_what cfg = Best -> resync st = Some b -> f_obj (snd b) = Some o ->
  Beats (c_tol cfg) o b (delivered cfg h) (resync (track cfg st (map Emit h))) /\
  stored (track cfg st (map Emit h)) = proj (resync (track cfg st (map Emit h))).
Proof.
  intros Hw Hr Ho. destruct (track_best cfg h Hw st) as [H1 H2]. cbv zeta in H1, H2. split; [|exact H2].
  rewrite H1, Hr. apply (fold_beats (c_tol cfg) o b (delivered cfg h) Ho [] (Some b)).
  left. split; [reflexivity | intros q []].
Qed.

(* the same on what Plan.get shows *)
Theorem best_from_state_held cfg st h bid bu bt o : c_what cfg = Best ->
  resync st = Some (bid, bu, bt) -> f_obj bt = Some o ->
  (stored (track cfg st (map Emit h)) = Some (bid, bu) /\
     forall q, In q (delivered cfg h) -> candidate (c_tol cfg) q = true -> o <= oval (snd q))
  \/ (exists d1 p d2, delivered cfg h = d1 ++ p :: d2 /\
        stored (track cfg st (map Emit h)) = Some (i_id (fst p), i_u (fst p)) /\
        candidate (c_tol cfg) p = true /\ oval (snd p) < o /\
        (forall q, In q d1 -> candidate (c_tol cfg) q = true -> oval (snd p) < oval (snd q)) /\
        (forall q, In q d2 -> candidate (c_tol cfg) q = true -> oval (snd p) <= oval (snd q))).
Proof.
  intros Hw Hr Ho. destruct (best_from_state cfg st h (bid, bu, bt) o Hw Hr Ho) as [HB HS]. rewrite HS.
  destruct HB as [[Hs Hall]|(d1 & p & d2 & Hd & Hs & Hc & Hlt0 & Hlt & Hle)]; rewrite Hs.
  - left. split; [reflexivity | exact Hall].
  - right. exists d1, p, d2. repeat split; assumption.
Qed.

(* Plan.set with a new object: compared through the only facet the handler can see of it;
   Plan.set with the object already held: nothing changes at all *)
Lemma resync_put_new cfg st id u : (forall oid ou ot, optimal st = Some (oid, ou, ot) -> oid <> id) ->
  resync (step cfg st (Put (Some (id, u)))) = Some (id, u, u).
Proof.
  intros H. unfold step, resync; cbn [stored optimal].
  destruct (optimal st) as [[[oid ou] ot]|] eqn:E; [|reflexivity].
  destruct (Nat.eqb oid id) eqn:En; [|reflexivity]. apply Nat.eqb_eq in En. destruct (H oid ou ot eq_refl En).
Qed.

Lemma reput_noop cfg st v : stored st = Some v -> step cfg st (Put (Some v)) = st.
Proof. intros H. destruct st as [s o]. cbn in *. rewrite H. reflexivity. Qed.

(* ---- monotone: once something is held, something is held ever after and its objective never rises --- *)
Theorem best_monotone cfg h1 h2 id1 u1 : c_what cfg = Best ->
  stored (track cfg init (map Emit h1)) = Some (id1, u1) ->
  exists p1 p2, In p1 (delivered cfg h1) /\ In p2 (delivered cfg (h1 ++ h2)) /\
    id1 = i_id (fst p1) /\ u1 = i_u (fst p1) /\
    stored (track cfg init (map Emit (h1 ++ h2))) = Some (i_id (fst p2), i_u (fst p2)) /\
    oval (snd p2) <= oval (snd p1).
Proof.
  intros Hw Hs. destruct (best_argmin cfg h1 Hw) as [HA HS]. rewrite Hs in HS.
  destruct (resync (track cfg init (map Emit h1))) as [b|] eqn:Er; [|discriminate].
  cbn [Argmin] in HA. destruct HA as (d1 & p1 & d2 & Hd & Hb & Hc & _ & _).
  pose proof Hc as Hc'. apply candidate_split in Hc' as [_ [o1 Ho1]].
  assert (Hob : f_obj (snd b) = Some o1) by (rewrite Hb; exact Ho1).
  rewrite map_app, track_app.
  destruct (best_from_state cfg _ h2 b o1 Hw Er Hob) as [HB HS2]. rewrite HS2.
  assert (Hin1 : In p1 (delivered cfg h1)) by (rewrite Hd; apply in_elt).
  rewrite Hb in HS. unfold entry in HS. cbn [proj] in HS. injection HS as -> ->.
  destruct HB as [[Hs2 _]|(e1 & p2 & e2 & Hd2 & Hs2 & Hc2 & Hlt0 & _ & _)]; rewrite Hs2.
  - exists p1, p1. split; [exact Hin1|]. split; [rewrite delivered_app; apply in_or_app; left; exact Hin1|].
    split; [reflexivity|]. split; [reflexivity|]. rewrite Hb. split; [reflexivity|]. lra.
  - exists p1, p2. split; [exact Hin1|]. split; [rewrite delivered_app, Hd2; apply in_or_app; right; apply in_elt|].
    split; [reflexivity|]. split; [reflexivity|]. split; [reflexivity|].
    unfold oval at 2. rewrite Ho1. lra.
Qed.

(* ---- a batch is the same as delivering its results one event at a time ------------------------------- *)
Definition with_items (ev : event) (l : list item) : event :=
  {| e_type := e_type ev; e_src := e_src ev; e_path := e_path ev; e_has_results := e_has_results ev;
     e_has_transformed := e_has_transformed ev; e_items := l |}.

Lemma delivered_split cfg ev l1 l2 : e_items ev = l1 ++ l2 ->
  delivered cfg [ev] = delivered cfg [with_items ev l1] ++ delivered cfg [with_items ev l2].
Proof.
  intros H. rewrite !delivered_one.
  change (sees cfg (with_items ev l1)) with (sees cfg ev). change (sees cfg (with_items ev l2)) with (sees cfg ev).
  destruct (sees cfg ev); [|reflexivity]. rewrite H, map_app. reflexivity.
Qed.

Theorem batch_split cfg st ev l1 l2 : e_items ev = l1 ++ l2 ->
  stored (deliver cfg st ev) = stored (deliver cfg (deliver cfg st (with_items ev l1)) (with_items ev l2)).
Proof.
  intros H. destruct (c_what cfg) eqn:Hw.
  - destruct (handle_best cfg st ev Hw) as [A1 A2]. cbv zeta in A1, A2.
    destruct (handle_best cfg st (with_items ev l1) Hw) as [B1 _]. cbv zeta in B1.
    destruct (handle_best cfg (deliver cfg st (with_items ev l1)) (with_items ev l2) Hw) as [C1 C2]. cbv zeta in C1, C2.
    rewrite A2, C2, A1, C1, B1, (delivered_split cfg ev l1 l2 H), fold_left_app. reflexivity.
  - rewrite !(handle_last _ _ _ Hw), (delivered_split cfg ev l1 l2 H), rev_app_distr, find_app.
    destruct (find (last_candidate (c_tol cfg)) (rev (delivered cfg [with_items ev l2]))); reflexivity.
Qed.

(* ---- what is observed after every operation is the state the theorems speak about --------------------- *)
Lemma trace_nth cfg h : forall st k, (k < length h)%nat ->
  nth k (trace cfg st h) None = stored_id (track cfg st (firstn (S k) h)).
Proof.
  induction h as [|a h IH]; intros st k Hk; [cbn in Hk; lia|].
  destruct k as [|k].
  - reflexivity.
  - cbn [trace nth]. rewrite IH by (cbn in Hk; lia). reflexivity.
Qed.

(* ---- any affine objective transform: what the tracker compares IS the forward transform of what it reports ---- *)
(* a delivered pair is "paired" when the user-domain objective is the back-transform a * o + b of the optimizer-domain one *)
Definition Paired (a b : Q) (p : item * facet) : Prop := uval p == a * oval (snd p) + b.

Theorem best_affine cfg h a b : c_what cfg = Best ->
  (forall p, In p (delivered cfg h) -> candidate (c_tol cfg) p = true -> Paired a b p) ->
  match stored (track cfg init (map Emit h)) with
  | None => forall p, In p (delivered cfg h) -> candidate (c_tol cfg) p = false
  | Some (id, u) => exists p, In p (delivered cfg h) /\ id = i_id (fst p) /\ u = i_u (fst p) /\
      candidate (c_tol cfg) p = true /\ oval u == a * oval (snd p) + b /\
      (forall q, In q (delivered cfg h) -> candidate (c_tol cfg) q = true -> oval (snd p) <= oval (snd q)) /\
      (0 < a -> forall q, In q (delivered cfg h) -> candidate (c_tol cfg) q = true -> oval u <= uval q) /\
      (a < 0 -> forall q, In q (delivered cfg h) -> candidate (c_tol cfg) q = true -> uval q <= oval u)
  end.
Proof.
  intros Hw HP. pose proof (best_held cfg h Hw) as H. unfold Held in H.
  destruct (stored (track cfg init (map Emit h))) as [[id u]|]; [|exact H].
  destruct H as (d1 & p & d2 & Hd & Hi & Hu & Hc & Hlt & Hle).
  assert (In p (delivered cfg h)) as Hp by (rewrite Hd; apply in_elt).
  assert (Hmin : forall q, In q (delivered cfg h) -> candidate (c_tol cfg) q = true -> oval (snd p) <= oval (snd q)).
  { intros q Hq Hcq. rewrite Hd in Hq. apply in_app_or in Hq as [Hq|[<-|Hq]].
    - specialize (Hlt q Hq Hcq). lra.
    - lra.
    - exact (Hle q Hq Hcq). }
  pose proof (HP p Hp Hc) as Pp. unfold Paired, uval in Pp. rewrite <- Hu in Pp.
  exists p. split; [exact Hp|]. split; [exact Hi|]. split; [exact Hu|]. split; [exact Hc|].
  split; [exact Pp|]. split; [exact Hmin|]. split.
  - intros Ha q Hq Hcq. pose proof (HP q Hq Hcq) as Pq. unfold Paired in Pq. specialize (Hmin q Hq Hcq). nra.
  - intros Ha q Hq Hcq. pose proof (HP q Hq Hcq) as Pq. unfold Paired in Pq. specialize (Hmin q Hq Hcq). nra.
Qed.
