(* Proofs/Registry.v -- lemmas about Model/Registry.v (property C19). *)
From Coq Require Import List Bool Arith String Ascii Lia Permutation.
From Ropt Require Import Model.Registry.
Import ListNotations.

Section Proofs.
  Variable init : registry.
  Notation step := (step init).
  Notation run := (run init).
  Notation get := (get init).
  Notation first_disc := (first_disc init).
  Notation supports := (supports init).

  (* ---- names -------------------------------------------------------------------- *)
  Lemma find_name_none r n : find_name r n = None <-> ~ In n (names r).
  Proof.
    induction r as [|[k v] t IH]; cbn; [tauto|].
    destruct (String.eqb_spec k n) as [->|Hne].
    - split; [discriminate | intros H; exfalso; apply H; auto].
    - rewrite IH. split; [intros H [E|E]; [congruence|auto] | intros H E; apply H; auto].
  Qed.

  Lemma find_name_some r n p : find_name r n = Some p -> In (n, p) r.
  Proof.
    induction r as [|[k v] t IH]; cbn; [discriminate|].
    destruct (String.eqb_spec k n) as [->|Hne]; [intros H; injection H as ->; auto | auto].
  Qed.

  Lemma step_names_nodup r o : NoDup (names r) -> NoDup (names (fst (step r o))).
  Proof.
    intros H. destruct o as [n p prio|m|m]; cbn; auto.
    destruct (find_name r (lower n)) eqn:E; cbn; auto.
    apply find_name_none in E. destruct prio; cbn.
    - constructor; assumption.
    - unfold names. rewrite map_app. cbn.
      apply (Permutation_NoDup (l := lower n :: map fst r)).
      + apply Permutation_cons_append.
      + constructor; assumption.
  Qed.

  Lemma run_cons r o t : run r (o :: t) = (snd (step r o) :: fst (run (fst (step r o)) t), snd (run (fst (step r o)) t)).
  Proof. cbn [Registry.run]. destruct (step r o) as [r' a]. cbn. destruct (run r' t); reflexivity. Qed.

  Lemma run_names_nodup ops : forall r, NoDup (names r) -> NoDup (names (snd (run r ops))).
  Proof.
    induction ops as [|o t IH]; intros r H; [exact H|].
    rewrite run_cons. cbn [snd]. apply IH. apply step_names_nodup. exact H.
  Qed.

  (* duplicates are rejected whatever the casing and whatever `prioritize` says; state unchanged *)
  Lemma add_duplicate_rejected r n p prio :
    In (lower n) (names r) -> step r (Add n p prio) = (r, AErr).
  Proof.
    intros H. cbn. destruct (find_name r (lower n)) eqn:E; [reflexivity|].
    apply find_name_none in E. contradiction.
  Qed.

  Lemma add_fresh r n p prio :
    ~ In (lower n) (names r) ->
    step r (Add n p prio) = ((if prio then (lower n, p) :: r else r ++ [(lower n, p)]), AOk).
  Proof.
    intros H. cbn. destruct (find_name r (lower n)) eqn:E; [|reflexivity].
    exfalso. apply H. apply find_name_some in E. apply (in_map fst) in E. exact E.
  Qed.

  Lemma lookups_pure r o : (forall n p prio, o <> Add n p prio) -> fst (step r o) = r.
  Proof. destruct o; cbn; auto. intros H. exfalso. eapply H. reflexivity. Qed.

  (* ---- lookup order: prioritised most recent first, then init, then the others in order ---- *)
  Fixpoint accepted (seen : list string) (ops : list op) : list (string * plugin * bool) :=
    match ops with
    | [] => []
    | Add n p prio :: t =>
        if existsb (String.eqb (lower n)) seen then accepted seen t
        else (lower n, p, prio) :: accepted (lower n :: seen) t
    | _ :: t => accepted seen t
    end.
  Definition prio_part (l : list (string * plugin * bool)) : registry :=
    map fst (filter (fun x => snd x) l).
  Definition norm_part (l : list (string * plugin * bool)) : registry :=
    map fst (filter (fun x => negb (snd x)) l).

  Lemma existsb_in_names n seen : existsb (String.eqb n) seen = true <-> In n seen.
  Proof.
    rewrite existsb_exists. split.
    - intros [x [Hx E]]. apply String.eqb_eq in E. subst. exact Hx.
    - intros H. exists n. split; [exact H | apply String.eqb_refl].
  Qed.

  Lemma run_order ops : forall r seen,
    (forall n, In n seen <-> In n (names r)) ->
    snd (run r ops) = rev (prio_part (accepted seen ops)) ++ r ++ norm_part (accepted seen ops).
  Proof.
    induction ops as [|o t IH]; intros r seen Hs.
    - cbn. rewrite app_nil_r. reflexivity.
    - rewrite run_cons. cbn [snd]. destruct o as [n p prio|m|m].
      + cbn [accepted]. destruct (existsb (String.eqb (lower n)) seen) eqn:E.
        * apply existsb_in_names in E. apply Hs in E.
          rewrite add_duplicate_rejected by exact E. cbn [fst]. apply IH. exact Hs.
        * assert (Hn : ~ In (lower n) (names r)).
          { intros H. apply Hs in H. apply existsb_in_names in H. congruence. }
          rewrite add_fresh by exact Hn. cbn [fst].
          destruct prio.
          -- rewrite (IH ((lower n, p) :: r) (lower n :: seen)).
             ++ unfold prio_part, norm_part. cbn [filter snd negb map fst rev].
                rewrite <- !app_assoc. reflexivity.
             ++ intros x. cbn. rewrite (Hs x). reflexivity.
          -- rewrite (IH (r ++ [(lower n, p)]) (lower n :: seen)).
             ++ unfold prio_part, norm_part. cbn [filter snd negb map fst rev].
                rewrite <- !app_assoc. reflexivity.
             ++ intros x. unfold names. rewrite map_app, in_app_iff. cbn. rewrite (Hs x). unfold names. tauto.
      + cbn [fst Registry.step accepted]. apply IH. exact Hs.
      + cbn [fst Registry.step accepted]. apply IH. exact Hs.
  Qed.

  (* ---- splitting "plugin/method" ------------------------------------------------- *)
  Fixpoint no_slash (s : string) : bool :=
    match s with EmptyString => true | String c t => negb (Ascii.eqb c "/"%char) && no_slash t end.

  Lemma split_slash_qualified P m :
    no_slash P = true -> split_slash (P ++ String "/"%char m) = (P, Some m).
  Proof.
    induction P as [|c P IH]; cbn; [reflexivity|].
    intros H. apply andb_prop in H as [Hc HP]. apply negb_true_iff in Hc. rewrite Hc.
    rewrite (IH HP). reflexivity.
  Qed.

  Lemma split_slash_bare m : no_slash m = true -> split_slash m = (m, None).
  Proof.
    induction m as [|c m IH]; cbn; [reflexivity|].
    intros H. apply andb_prop in H as [Hc Hm]. apply negb_true_iff in Hc. rewrite Hc.
    rewrite (IH Hm). reflexivity.
  Qed.

  (* qualified lookup consults only the plug-in registered under lower P *)
  Lemma get_qualified r P m : no_slash P = true ->
    get r (P ++ String "/"%char m) =
      match find_name r (lower P) with
      | Some p => if supports (fuel_of m) p m then Some p else None
      | None => None
      end.
  Proof. intros H. unfold Registry.get. rewrite (split_slash_qualified P m H). reflexivity. Qed.

  Lemma get_qualified_case r P P' m : no_slash P = true -> no_slash P' = true -> lower P = lower P' ->
    get r (P ++ String "/"%char m) = get r (P' ++ String "/"%char m).
  Proof. intros H H' E. rewrite !get_qualified by assumption. rewrite E. reflexivity. Qed.

  (* ---- bare lookup = first discoverable supporting plug-in in lookup order ---------- *)
  Lemma first_disc_spec r m p : first_disc r m = Some p <->
    exists r1 n r2, r = r1 ++ (n, p) :: r2 /\ disc p = true /\ supports (fuel_of m) p m = true /\
                    (forall n' p', In (n', p') r1 -> disc p' && supports (fuel_of m) p' m = false).
  Proof.
    induction r as [|[n q] t IH]; cbn [Registry.first_disc].
    - split; [discriminate|]. intros (r1 & ? & ? & H & _). destruct r1; discriminate.
    - destruct (disc q && supports (fuel_of m) q m) eqn:E.
      + split.
        * intros H. injection H as <-. apply andb_prop in E as [E1 E2].
          exists [], n, t. repeat split; auto. intros ? ? [].
        * intros (r1 & n0 & r2 & H & Hd & Hs & Hpre). destruct r1 as [|[n1 q1] r1]; cbn in H.
          -- inversion H; subst. reflexivity.
          -- inversion H; subst. specialize (Hpre _ _ (or_introl eq_refl)). congruence.
      + rewrite IH. split.
        * intros (r1 & n0 & r2 & -> & Hd & Hs & Hpre). exists ((n, q) :: r1), n0, r2. repeat split; auto.
          intros n' p' [H|H]; [injection H as <- <-; exact E | eapply Hpre; eauto].
        * intros (r1 & n0 & r2 & H & Hd & Hs & Hpre). destruct r1 as [|[n1 q1] r1]; cbn in H.
          -- inversion H; subst. rewrite Hd, Hs in E. discriminate.
          -- inversion H; subst. exists r1, n0, r2. repeat split; auto. intros; eapply Hpre; right; eauto.
  Qed.

  Lemma get_bare r m : no_slash m = true -> get r m = first_disc r m.
  Proof. intros H. unfold Registry.get. rewrite (split_slash_bare m H). reflexivity. Qed.

  Lemma bare_never_undiscoverable r m p : no_slash m = true -> get r m = Some p -> disc p = true /\ exists n, In (n, p) r.
  Proof.
    intros Hm H. rewrite get_bare in H by exact Hm. apply first_disc_spec in H as (r1 & n & r2 & -> & Hd & _).
    split; [exact Hd|]. exists n. apply in_or_app; right; left; reflexivity.
  Qed.

  (* ---- is_supported iff get succeeds ------------------------------------------------ *)
  Lemma is_supported_iff_get r m :
    snd (step r (Sup m)) = ABool true <-> exists id, snd (step r (Get m)) = APlug id.
  Proof.
    cbn. destruct (get r m) as [p|]; split; try discriminate; eauto; intros [? H]; discriminate.
  Qed.
  Lemma is_supported_false_iff_error r m :
    snd (step r (Sup m)) = ABool false <-> snd (step r (Get m)) = AErr.
  Proof. cbn. destruct (get r m) as [p|]; split; try discriminate; reflexivity. Qed.

  (* ---- isolation between managers ---------------------------------------------------- *)
  Lemma upd_other {A} (u : list A) i j x : i <> j -> nth_error (upd u i x) j = nth_error u j.
  Proof.
    revert i j; induction u as [|h t IH]; intros [|i] [|j] Hij; cbn; auto; try lia.
  Qed.

  Lemma isolation u i j o : i <> j -> nth_error (fst (ustep init u (i, o))) j = nth_error u j.
  Proof.
    intros Hij. unfold ustep. cbn [fst snd]. destruct (nth_error u i) as [r|] eqn:E; [|reflexivity].
    destruct (Registry.step init r o) as [r' a]. cbn [fst]. apply upd_other. exact Hij.
  Qed.

  Lemma upd_same {A} (u : list A) i x : nth_error u i = Some x -> upd u i x = u.
  Proof.
    revert i; induction u as [|h t IH]; intros [|i]; cbn; try discriminate; auto.
    - intros H; injection H as ->; reflexivity.
    - intros H. rewrite (IH _ H). reflexivity.
  Qed.

  Lemma lookups_leave_universe u i o : (forall n p prio, o <> Add n p prio) -> fst (ustep init u (i, o)) = u.
  Proof.
    intros H. unfold ustep. cbn [fst snd]. destruct (nth_error u i) as [r|] eqn:E; [|reflexivity].
    pose proof (lookups_pure r o H) as Hp. destruct (Registry.step init r o) as [r' a]. cbn [fst] in *. subst r'.
    apply upd_same. exact E.
  Qed.
End Proofs.
