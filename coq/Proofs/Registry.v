(* Proofs/Registry.v -- lemmas about Model/Registry.v (property C19). *)
From Coq Require Import List Bool Arith String Ascii Lia Permutation.
From Ropt Require Import Model.Registry.
Import ListNotations.

(* ---- lower-casing ------------------------------------------------------------------ *)
Lemma lower_ascii_idem c : lower_ascii (lower_ascii c) = lower_ascii c.
Proof.
  destruct c as [b0 b1 b2 b3 b4 b5 b6 b7].
  destruct b0, b1, b2, b3, b4, b5, b6, b7; reflexivity.
Qed.
Lemma lower_idem s : lower (lower s) = lower s.
Proof. induction s as [|c t IH]; cbn; [reflexivity|]. rewrite lower_ascii_idem, IH. reflexivity. Qed.

(* ---- the dict ---------------------------------------------------------------------- *)
Lemma find_name_none r n : find_name r n = None <-> ~ In n (names r).
Proof.
  induction r as [|[k v] t IH]; cbn; [tauto|].
  destruct (String.eqb_spec k n) as [->|Hne].
  - split; [discriminate | intros H; exfalso; apply H; auto].
  - rewrite IH. split; [intros H [E|E]; [congruence|auto] | intros H E; apply H; auto].
Qed.

Lemma find_name_some r n p : find_name r n = Some p -> In (n, p) r.
Proof.
  induction r as [|[k v] t IH]; cbn; [discriminate|].
  destruct (String.eqb_spec k n) as [->|Hne]; [intros H; injection H as ->; auto | auto].
Qed.

Lemma find_name_in r n p : NoDup (names r) -> In (n, p) r -> find_name r n = Some p.
Proof.
  induction r as [|[k v] t IH]; cbn; [tauto|].
  intros Hnd [E|E].
  - injection E as -> ->. rewrite String.eqb_refl. reflexivity.
  - inversion Hnd as [|? ? Hk Ht]; subst. destruct (String.eqb_spec k n) as [->|Hne].
    + exfalso. apply Hk. apply (in_map fst) in E. exact E.
    + apply IH; assumption.
Qed.

Lemma dmem_iff r n : dmem r n = true <-> In n (names r).
Proof.
  unfold dmem. destruct (find_name r n) eqn:E.
  - split; [intros _|reflexivity]. apply find_name_some in E. apply (in_map fst) in E. exact E.
  - split; [discriminate|]. intros H. apply find_name_none in E. contradiction.
Qed.

Lemma dset_fresh d k v : ~ In k (names d) -> dset d k v = d ++ [(k, v)].
Proof.
  induction d as [|[k' v'] t IH]; cbn; [reflexivity|].
  intros H. destruct (String.eqb_spec k' k) as [->|Hne]; [exfalso; apply H; auto|].
  rewrite IH; [reflexivity|]. intros E; apply H; auto.
Qed.

Lemma dset_names d k v : In k (names d) -> names (dset d k v) = names d.
Proof.
  induction d as [|[k' v'] t IH]; cbn; [tauto|].
  intros H. destruct (String.eqb_spec k' k) as [->|Hne]; cbn; [reflexivity|].
  f_equal. apply IH. destruct H; [congruence|assumption].
Qed.

Lemma fold_dset_fresh d : forall acc, NoDup (names acc ++ names d) ->
  fold_left (fun a kv => dset a (fst kv) (snd kv)) d acc = acc ++ d.
Proof.
  induction d as [|[k v] t IH]; intros acc H; cbn [fold_left fst snd].
  - rewrite app_nil_r. reflexivity.
  - cbn in H. pose proof (NoDup_remove_2 _ _ _ H) as Hk.
    rewrite dset_fresh by (intros E; apply Hk; apply in_or_app; left; exact E).
    rewrite IH.
    + rewrite <- app_assoc. reflexivity.
    + unfold names. rewrite map_app. cbn. rewrite <- app_assoc. cbn. exact H.
Qed.

Lemma dupdate_single_fresh d k v : NoDup (names d) -> ~ In k (names d) -> dupdate [(k, v)] d = (k, v) :: d.
Proof.
  intros Hd Hk. unfold dupdate. rewrite fold_dset_fresh; [reflexivity|].
  cbn. constructor; assumption.
Qed.

Arguments sup1 : simpl never.

Section Proofs.
  Variable oinit : registry.
  Notation step := (step oinit).
  Notation run := (run oinit).
  Notation get := (get oinit).
  Notation first_disc := (first_disc oinit).
  Notation supports := (supports oinit).
  Notation sup1 := (sup1 oinit).
  Notation mstep := (mstep oinit).
  Notation mrun := (mrun oinit).
  Notation ustep := (ustep oinit).
  Notation urun := (urun oinit).

  (* ---- add_plugin ------------------------------------------------------------------- *)
  (* duplicates are rejected whatever the casing and whatever `prioritize` says; state unchanged *)
  Lemma add_duplicate_rejected r n p prio :
    In (lower n) (names r) -> step r (Add n p prio) = (r, AErr).
  Proof.
    intros H. cbn. unfold add. apply dmem_iff in H. rewrite H. reflexivity.
  Qed.

  Lemma add_fresh r n p prio : NoDup (names r) -> ~ In (lower n) (names r) ->
    step r (Add n p prio) = ((if prio then (lower n, p) :: r else r ++ [(lower n, p)]), AOk).
  Proof.
    intros Hnd H. cbn. unfold add. destruct (dmem r (lower n)) eqn:E.
    - apply dmem_iff in E. contradiction.
    - destruct prio; [rewrite dupdate_single_fresh by assumption | rewrite dset_fresh by assumption]; reflexivity.
  Qed.

  Lemma add_case r n n' p prio : lower n = lower n' -> step r (Add n p prio) = step r (Add n' p prio).
  Proof. intros E. cbn. unfold add. rewrite E. reflexivity. Qed.

  Lemma add_err_iff r n p prio : snd (step r (Add n p prio)) = AErr <-> In (lower n) (names r).
  Proof.
    cbn. unfold add. rewrite <- dmem_iff. destruct (dmem r (lower n)); [tauto|].
    destruct prio; cbn; split; discriminate.
  Qed.

  Lemma step_names_nodup r o : NoDup (names r) -> NoDup (names (fst (step r o))).
  Proof.
    intros H. destruct o as [n p prio|m|m| |m]; [|cbn; auto ..].
    destruct (in_dec string_dec (lower n) (names r)) as [Hin|Hout].
    - rewrite (add_duplicate_rejected r n p prio Hin). exact H.
    - rewrite (add_fresh r n p prio H Hout).
      destruct prio; cbn.
      + constructor; assumption.
      + unfold names. rewrite map_app. cbn.
        apply (Permutation_NoDup (l := lower n :: map fst r)).
        * apply Permutation_cons_append.
        * constructor; assumption.
  Qed.

  Lemma step_names_lower r o : Forall (fun k => lower k = k) (names r) ->
    Forall (fun k => lower k = k) (names (fst (step r o))).
  Proof.
    intros H. destruct o as [n p prio|m|m| |m]; cbn; auto.
    unfold add. destruct (dmem r (lower n)) eqn:E; cbn; [exact H|].
    assert (Hout : ~ In (lower n) (names r)) by (rewrite <- dmem_iff; congruence).
    destruct prio; cbn.
    - unfold dupdate. cbn. clear E.
      (* {nl: p}.update(r): the keys are nl and those of r *)
      assert (G : forall d acc, Forall (fun k => lower k = k) (names acc) -> Forall (fun k => lower k = k) (names d) ->
                  Forall (fun k => lower k = k) (names (fold_left (fun a kv => dset a (fst kv) (snd kv)) d acc))).
      { clear. induction d as [|[k v] t IH]; intros acc Ha Hd; cbn; [exact Ha|].
        inversion Hd as [|? ? Hk Ht]; subst. apply IH; [|exact Ht].
        clear IH Ht Hd. induction acc as [|[k' v'] a IHa]; cbn.
        - constructor; [exact Hk|constructor].
        - inversion Ha as [|? ? Hk' Ha']; subst. destruct (String.eqb k' k); cbn; constructor; auto. }
      apply G; [|exact H]. cbn. constructor; [apply lower_idem|constructor].
    - rewrite dset_fresh by exact Hout. unfold names. rewrite map_app. apply Forall_app. split; [exact H|].
      cbn. constructor; [apply lower_idem|constructor].
  Qed.

  Lemma lookups_pure r o : (forall n p prio, o <> Add n p prio) -> fst (step r o) = r.
  Proof. destruct o; cbn; auto. intros H. exfalso. eapply H. reflexivity. Qed.

  (* any operation answered with an error (or KeyError) left the registry as it was *)
  Lemma step_error_noop r o : snd (step r o) = AErr \/ snd (step r o) = ABad -> fst (step r o) = r.
  Proof.
    destruct o as [n p prio|m|m| |m]; cbn; auto.
    unfold add. destruct (dmem r (lower n)); cbn; [reflexivity|].
    destruct prio; cbn; intros [H|H]; discriminate.
  Qed.

  Lemma run_cons r o t : run r (o :: t) = (snd (step r o) :: fst (run (fst (step r o)) t), snd (run (fst (step r o)) t)).
  Proof. cbn [Registry.run]. destruct (step r o) as [r' a]. cbn. destruct (run r' t); reflexivity. Qed.

  Lemma run_names_nodup ops : forall r, NoDup (names r) -> NoDup (names (snd (run r ops))).
  Proof.
    induction ops as [|o t IH]; intros r H; [exact H|].
    rewrite run_cons. cbn [snd]. apply IH. apply step_names_nodup. exact H.
  Qed.

  Lemma run_names_lower ops : forall r, Forall (fun k => lower k = k) (names r) ->
    Forall (fun k => lower k = k) (names (snd (run r ops))).
  Proof.
    induction ops as [|o t IH]; intros r H; [exact H|].
    rewrite run_cons. cbn [snd]. apply IH. apply step_names_lower. exact H.
  Qed.

  (* ---- lookup order: prioritised most recent first, then init, then the others in order ---- *)
  Fixpoint accepted (seen : list string) (ops : list op) : list (string * plugin * bool) :=
    match ops with
    | [] => []
    | Add n p prio :: t =>
        if existsb (String.eqb (lower n)) seen then accepted seen t
        else (lower n, p, prio) :: accepted (lower n :: seen) t
    | _ :: t => accepted seen t
    end.
  Definition prio_part (l : list (string * plugin * bool)) : registry :=
    map fst (filter (fun x => snd x) l).
  Definition norm_part (l : list (string * plugin * bool)) : registry :=
    map fst (filter (fun x => negb (snd x)) l).

  Lemma existsb_in_names n seen : existsb (String.eqb n) seen = true <-> In n seen.
  Proof.
    rewrite existsb_exists. split.
    - intros [x [Hx E]]. apply String.eqb_eq in E. subst. exact Hx.
    - intros H. exists n. split; [exact H | apply String.eqb_refl].
  Qed.

  Lemma run_order ops : forall r seen, NoDup (names r) ->
    (forall n, In n seen <-> In n (names r)) ->
    snd (run r ops) = rev (prio_part (accepted seen ops)) ++ r ++ norm_part (accepted seen ops).
  Proof.
    induction ops as [|o t IH]; intros r seen Hnd Hs.
    - cbn. rewrite app_nil_r. reflexivity.
    - rewrite run_cons. cbn [snd]. destruct o as [n p prio|m|m| |m].
      + cbn [accepted]. destruct (existsb (String.eqb (lower n)) seen) eqn:E.
        * apply existsb_in_names in E. apply Hs in E.
          rewrite add_duplicate_rejected by exact E. cbn [fst]. apply IH; assumption.
        * assert (Hn : ~ In (lower n) (names r)).
          { intros H. apply Hs in H. apply existsb_in_names in H. congruence. }
          pose proof (step_names_nodup r (Add n p prio) Hnd) as Hnd'.
          rewrite add_fresh in * by assumption. cbn [fst] in *.
          destruct prio.
          -- rewrite (IH ((lower n, p) :: r) (lower n :: seen)).
             ++ unfold prio_part, norm_part. cbn [filter snd negb map fst rev].
                rewrite <- !app_assoc. reflexivity.
             ++ exact Hnd'.
             ++ intros x. cbn. rewrite (Hs x). reflexivity.
          -- rewrite (IH (r ++ [(lower n, p)]) (lower n :: seen)).
             ++ unfold prio_part, norm_part. cbn [filter snd negb map fst rev].
                rewrite <- !app_assoc. reflexivity.
             ++ exact Hnd'.
             ++ intros x. unfold names. rewrite map_app, in_app_iff. cbn. rewrite (Hs x). unfold names. tauto.
      + cbn [fst Registry.step accepted]. apply IH; assumption.
      + cbn [fst Registry.step accepted]. apply IH; assumption.
      + cbn [fst Registry.step accepted]. apply IH; assumption.
      + cbn [fst Registry.step accepted]. apply IH; assumption.
  Qed.

  (* ---- splitting "plugin/method" ------------------------------------------------- *)
  Fixpoint no_slash (s : string) : bool :=
    match s with EmptyString => true | String c t => negb (Ascii.eqb c "/"%char) && no_slash t end.

  Lemma split_slash_qualified P m :
    no_slash P = true -> split_slash (P ++ String "/"%char m) = (P, Some m).
  Proof.
    induction P as [|c P IH]; cbn; [reflexivity|].
    intros H. apply andb_prop in H as [Hc HP]. apply negb_true_iff in Hc. rewrite Hc.
    rewrite (IH HP). reflexivity.
  Qed.

  Lemma split_slash_bare m : no_slash m = true -> split_slash m = (m, None).
  Proof.
    induction m as [|c m IH]; cbn; [reflexivity|].
    intros H. apply andb_prop in H as [Hc Hm]. apply negb_true_iff in Hc. rewrite Hc.
    rewrite (IH Hm). reflexivity.
  Qed.

  (* every string is either bare or of the form P/m with P slash-free: the two lookup theorems cover all requests *)
  Lemma split_slash_cases s :
    (no_slash s = true /\ split_slash s = (s, None)) \/
    (exists P m, no_slash P = true /\ s = (P ++ String "/"%char m)%string /\ split_slash s = (P, Some m)).
  Proof.
    induction s as [|c s IH]; cbn; [left; auto|].
    destruct (Ascii.eqb_spec c "/"%char) as [->|Hc].
    - right. exists EmptyString, s. cbn. auto.
    - destruct IH as [[Hn Hs]|(P & m & HP & -> & Hs)].
      + left. rewrite Hn, Hs. cbn. auto.
      + right. exists (String c P), m. rewrite Hs. cbn. rewrite HP.
        destruct (Ascii.eqb_spec c "/"%char); [contradiction|]. cbn. auto.
  Qed.

  Lemma split_slash_length s h t : split_slash s = (h, Some t) -> String.length t < String.length s.
  Proof.
    revert h t; induction s as [|c s IH]; cbn; intros h t; [discriminate|].
    destruct (Ascii.eqb c "/"%char).
    - intros H; injection H as _ <-. lia.
    - destruct (split_slash s) as [h' r] eqn:E. intros H; injection H as _ ->.
      specialize (IH h' t eq_refl). lia.
  Qed.

  (* ---- fuel: the bound used by the model never cuts the external plug-in's recursion short ---- *)
  Definition ext_hidden (r : registry) : Prop :=
    forall n p, In (n, p) r -> kind p = External -> disc p = false.

  Lemma existsb_ext_fuel (l : registry) f1 f2 h :
    (forall n p, In (n, p) l -> disc p = true -> supports f1 p h = supports f2 p h) ->
    existsb (fun np => disc (snd np) && supports f1 (snd np) h) l =
    existsb (fun np => disc (snd np) && supports f2 (snd np) h) l.
  Proof.
    induction l as [|[n p] t IH]; intros H; cbn; [reflexivity|].
    rewrite IH by (intros; eapply H; eauto; right; eauto).
    destruct (disc p) eqn:D; cbn; [|reflexivity].
    rewrite (H n p (or_introl eq_refl) D). reflexivity.
  Qed.

  Lemma supports_fuel : ext_hidden oinit ->
    forall k m, String.length m < k -> forall p f1 f2, k <= f1 -> k <= f2 -> supports f1 p m = supports f2 p m.
  Proof.
    intros Hh. induction k as [|k IH]; intros m Hm p f1 f2 H1 H2; [lia|].
    destruct f1 as [|f1]; [lia|]. destruct f2 as [|f2]; [lia|].
    cbn [Registry.supports]. destruct (kind p) eqn:K; try reflexivity.
    destruct (split_slash m) as [h [t|]] eqn:E.
    - destruct (find_name oinit (lower h)) as [q|]; [|reflexivity].
      apply split_slash_length in E. apply IH; lia.
    - apply existsb_ext_fuel. intros n q Hin Hd.
      destruct f1 as [|f1], f2 as [|f2]; cbn [Registry.supports];
        destruct (kind q) eqn:Kq; try reflexivity;
        pose proof (Hh n q Hin Kq); congruence.
  Qed.

  Lemma sup1_fuel : ext_hidden oinit -> forall p m f, String.length m < f -> supports f p m = sup1 p m.
  Proof.
    intros Hh p m f Hf. unfold Registry.sup1, fuel_of.
    apply (supports_fuel Hh (S (String.length m))); lia.
  Qed.

  Lemma supports_nonext p m f f' : kind p <> External -> supports f p m = supports f' p m.
  Proof. intros K. destruct f, f'; cbn; destruct (kind p); try reflexivity; contradiction. Qed.

  Lemma existsb_first_disc (l : registry) m f :
    (forall n q, In (n, q) l -> disc q = true -> supports f q m = sup1 q m) ->
    existsb (fun np => disc (snd np) && supports f (snd np) m) l =
    match first_disc l m with Some _ => true | None => false end.
  Proof.
    induction l as [|[n q] t IH]; intros H; cbn; [reflexivity|].
    rewrite IH by (intros; eapply H; eauto; right; eauto).
    destruct (disc q) eqn:D; cbn; [|reflexivity].
    rewrite (H n q (or_introl eq_refl) D). destruct (sup1 q m); reflexivity.
  Qed.

  (* the external plug-in supports m exactly when a fresh manager resolves m (no fuel in the statement) *)
  Lemma external_supports : ext_hidden oinit -> forall p m, kind p = External ->
    sup1 p m = match get oinit m with Some _ => true | None => false end.
  Proof.
    intros Hh p m K. unfold Registry.sup1 at 1. unfold fuel_of. cbn [Registry.supports]. rewrite K.
    unfold Registry.get. destruct (split_slash m) as [h [t|]] eqn:E.
    - destruct (find_name oinit (lower h)) as [q|]; [|reflexivity].
      apply split_slash_length in E. rewrite (sup1_fuel Hh q t) by lia.
      destruct (sup1 q t); reflexivity.
    - assert (Hm : h = m).
      { destruct (split_slash_cases m) as [[_ Hs]|(P & m' & _ & _ & Hs)]; rewrite Hs in E; congruence. }
      subst h. apply existsb_first_disc. intros n q Hin Hd. apply supports_nonext.
      intros Kq. pose proof (Hh n q Hin Kq). congruence.
  Qed.

  (* ---- qualified lookup consults only the plug-in registered under lower P ------------- *)
  Lemma get_qualified r P m : no_slash P = true ->
    get r (P ++ String "/"%char m) =
      match find_name r (lower P) with
      | Some p => if sup1 p m then Some p else None
      | None => None
      end.
  Proof. intros H. unfold Registry.get. rewrite (split_slash_qualified P m H). reflexivity. Qed.

  Lemma get_qualified_case r P P' m : no_slash P = true -> no_slash P' = true -> lower P = lower P' ->
    get r (P ++ String "/"%char m) = get r (P' ++ String "/"%char m).
  Proof. intros H H' E. rewrite !get_qualified by assumption. rewrite E. reflexivity. Qed.

  (* frame: two registries that bind lower P to the same plug-in answer "P/m" alike, whatever else they hold *)
  Lemma get_qualified_frame r r' P m : no_slash P = true -> find_name r (lower P) = find_name r' (lower P) ->
    get r (P ++ String "/"%char m) = get r' (P ++ String "/"%char m).
  Proof. intros H E. rewrite !get_qualified by assumption. rewrite E. reflexivity. Qed.

  Lemma consulted_qualified r P m : no_slash P = true ->
    consulted oinit r (P ++ String "/"%char m) =
      match find_name r (lower P) with Some p => [(pid p, m)] | None => [] end.
  Proof. intros H. unfold consulted. rewrite (split_slash_qualified P m H). reflexivity. Qed.

  (* ---- bare lookup = first discoverable supporting plug-in in lookup order ---------- *)
  Lemma first_disc_spec r m p : first_disc r m = Some p <->
    exists r1 n r2, r = r1 ++ (n, p) :: r2 /\ disc p = true /\ sup1 p m = true /\
                    (forall n' p', In (n', p') r1 -> disc p' && sup1 p' m = false).
  Proof.
    induction r as [|[n q] t IH]; cbn [Registry.first_disc].
    - split; [discriminate|]. intros (r1 & ? & ? & H & _). destruct r1; discriminate.
    - destruct (disc q && sup1 q m) eqn:E.
      + split.
        * intros H. injection H as <-. apply andb_prop in E as [E1 E2].
          exists [], n, t. repeat split; auto. intros ? ? [].
        * intros (r1 & n0 & r2 & H & Hd & Hs & Hpre). destruct r1 as [|[n1 q1] r1]; cbn in H.
          -- inversion H; subst. reflexivity.
          -- inversion H; subst. specialize (Hpre _ _ (or_introl eq_refl)). congruence.
      + rewrite IH. split.
        * intros (r1 & n0 & r2 & -> & Hd & Hs & Hpre). exists ((n, q) :: r1), n0, r2. repeat split; auto.
          intros n' p' [H|H]; [injection H as <- <-; exact E | eapply Hpre; eauto].
        * intros (r1 & n0 & r2 & H & Hd & Hs & Hpre). destruct r1 as [|[n1 q1] r1]; cbn in H.
          -- inversion H; subst. rewrite Hd, Hs in E. discriminate.
          -- inversion H; subst. exists r1, n0, r2. repeat split; auto. intros; eapply Hpre; right; eauto.
  Qed.

  Lemma first_disc_exists r m : (exists p, first_disc r m = Some p) <->
    (exists n p, In (n, p) r /\ disc p = true /\ sup1 p m = true).
  Proof.
    induction r as [|[n q] t IH]; cbn [Registry.first_disc].
    - split; [intros [? H]; discriminate | intros (? & ? & [] & _)].
    - destruct (disc q && sup1 q m) eqn:E.
      + apply andb_prop in E as [E1 E2]. split; [|eauto]. intros _. exists n, q. cbn. auto.
      + rewrite IH. split.
        * intros (n' & p & Hin & H). exists n', p. cbn. auto.
        * intros (n' & p & [Hin|Hin] & Hd & Hs); [|eauto].
          injection Hin as <- <-. rewrite Hd, Hs in E. discriminate.
  Qed.

  Lemma get_bare r m : no_slash m = true -> get r m = first_disc r m.
  Proof. intros H. unfold Registry.get. rewrite (split_slash_bare m H). reflexivity. Qed.

  Lemma bare_never_undiscoverable r m p : no_slash m = true -> get r m = Some p -> disc p = true /\ exists n, In (n, p) r.
  Proof.
    intros Hm H. rewrite get_bare in H by exact Hm. apply first_disc_spec in H as (r1 & n & r2 & -> & Hd & _).
    split; [exact Hd|]. exists n. apply in_or_app; right; left; reflexivity.
  Qed.

  Lemma consulted_bare_spec r m : Forall (fun e => snd e = m /\ exists n p, In (n, p) r /\ pid p = fst e /\ disc p = true)
                                         (consulted_bare oinit r m).
  Proof.
    induction r as [|[n q] t IH]; cbn [consulted_bare]; [constructor|].
    assert (IH' : Forall (fun e => snd e = m /\ exists n0 p, In (n0, p) ((n, q) :: t) /\ pid p = fst e /\ disc p = true)
                         (consulted_bare oinit t m)).
    { eapply Forall_impl; [|exact IH]. intros e [He (n0 & p & Hin & Hp)]. split; [exact He|].
      exists n0, p. split; [right; exact Hin | exact Hp]. }
    destruct (disc q) eqn:D; [|exact IH'].
    constructor.
    - split; [reflexivity|]. exists n, q. cbn. auto.
    - destruct (sup1 q m); [constructor | exact IH'].
  Qed.

  (* ---- is_supported iff get succeeds; declarative characterisation --------------------- *)
  Lemma is_supported_iff_get r m :
    snd (step r (Sup m)) = ABool true <-> exists id, snd (step r (Get m)) = APlug id.
  Proof.
    cbn. destruct (get r m) as [p|]; split; try discriminate; eauto; intros [? H]; discriminate.
  Qed.
  Lemma is_supported_false_iff_error r m :
    snd (step r (Sup m)) = ABool false <-> snd (step r (Get m)) = AErr.
  Proof. cbn. destruct (get r m) as [p|]; split; try discriminate; reflexivity. Qed.
  Lemma is_supported_total r m : exists b, snd (step r (Sup m)) = ABool b.
  Proof. cbn. eauto. Qed.
  Lemma get_total r m : (exists id, snd (step r (Get m)) = APlug id) \/ snd (step r (Get m)) = AErr.
  Proof. cbn. destruct (get r m); eauto. Qed.

  Lemma sup_qualified_spec r P m : NoDup (names r) -> no_slash P = true ->
    (snd (step r (Sup (P ++ String "/"%char m))) = ABool true <-> exists p, In (lower P, p) r /\ sup1 p m = true).
  Proof.
    intros Hnd HP. cbn. rewrite (get_qualified r P m HP). split.
    - destruct (find_name r (lower P)) as [p|] eqn:E; [|discriminate].
      destruct (sup1 p m) eqn:S1; [|discriminate]. intros _. exists p. split; [apply find_name_some; exact E | exact S1].
    - intros (p & Hin & Hs). rewrite (find_name_in r (lower P) p Hnd Hin), Hs. reflexivity.
  Qed.

  Lemma sup_bare_spec r m : no_slash m = true ->
    (snd (step r (Sup m)) = ABool true <-> exists n p, In (n, p) r /\ disc p = true /\ sup1 p m = true).
  Proof.
    intros Hm. cbn. rewrite (get_bare r m Hm). rewrite <- first_disc_exists.
    destruct (first_disc r m) as [p|]; split; eauto; try discriminate. intros [? H]; discriminate.
  Qed.

  (* is_supported does not depend on the lookup order (only *which* plug-in get_plugin returns does) *)
  Lemma sup_permutation r r' m : NoDup (names r) -> Permutation r r' ->
    snd (step r (Sup m)) = snd (step r' (Sup m)).
  Proof.
    intros Hnd Hp.
    assert (Hnd' : NoDup (names r')) by (eapply Permutation_NoDup; [apply Permutation_map; exact Hp | exact Hnd]).
    assert (Hiff : snd (step r (Sup m)) = ABool true <-> snd (step r' (Sup m)) = ABool true).
    { destruct (split_slash_cases m) as [[Hn _]|(P & m' & HP & -> & _)].
      - rewrite !sup_bare_spec by exact Hn. split; intros (n & p & Hin & H); exists n, p; split; auto.
        + eapply Permutation_in; eauto.
        + eapply Permutation_in; [apply Permutation_sym|]; eauto.
      - rewrite !sup_qualified_spec by assumption. split; intros (p & Hin & H); exists p; split; auto.
        + eapply Permutation_in; eauto.
        + eapply Permutation_in; [apply Permutation_sym|]; eauto. }
    destruct (is_supported_total r m) as [b Hb], (is_supported_total r' m) as [b' Hb'].
    rewrite Hb, Hb' in *. destruct b, b'; try reflexivity.
    - destruct Hiff as [H _]. specialize (H eq_refl). discriminate.
    - destruct Hiff as [_ H]. specialize (H eq_refl). discriminate.
  Qed.

  (* the external optimizer's constructor resolves the part after "external/" in a fresh manager: independent of
     every registration made anywhere *)
  Lemma fwd_independent r r' m : snd (step r (Fwd m)) = snd (step r' (Fwd m)).
  Proof. reflexivity. Qed.
  Lemma fwd_agrees_with_is_supported : ext_hidden oinit -> forall r p P m,
    no_slash P = true -> find_name r (lower P) = Some p -> kind p = External ->
    (snd (step r (Fwd (P ++ String "/"%char m))) = AOk <-> snd (step r (Sup (P ++ String "/"%char m))) = ABool true).
  Proof.
    intros Hh r p P m HP Hf K. cbn. rewrite (split_slash_qualified P m HP).
    rewrite (get_qualified r P m HP), Hf, (external_supports Hh p m K).
    destruct (get oinit m); split; intros; try discriminate; reflexivity.
  Qed.
End Proofs.

(* ---- families of independent components (types in a manager, managers in a universe) ------- *)
Fixpoint sel {A B} (j : nat) (ops : list (nat * A)) (a : list B) : list B :=
  match ops, a with
  | (i, _) :: t, x :: a' => if Nat.eqb i j then x :: sel j t a' else sel j t a'
  | _, _ => []
  end.
Fixpoint proj {A} (j : nat) (ops : list (nat * A)) : list A :=
  match ops with
  | [] => []
  | (i, o) :: t => if Nat.eqb i j then o :: proj j t else proj j t
  end.

Section FamilyProofs.
  Context {St Op : Type}.
  Variable stp : St -> Op -> St * ans.

  (* a component run on its own *)
  Fixpoint srun (s : St) (ops : list Op) : list ans * St :=
    match ops with
    | [] => ([], s)
    | o :: t => let (s', a) := stp s o in let (l, sf) := srun s' t in (a :: l, sf)
    end.

  Lemma upd_other {A} (u : list A) i j x : i <> j -> nth_error (upd u i x) j = nth_error u j.
  Proof. revert i j; induction u as [|h t IH]; intros [|i] [|j] Hij; cbn; auto; try lia. Qed.

  Lemma upd_same {A} (u : list A) i x : nth_error u i = Some x -> upd u i x = u.
  Proof.
    revert i; induction u as [|h t IH]; intros [|i]; cbn; try discriminate; auto.
    - intros H; injection H as ->; reflexivity.
    - intros H. rewrite (IH _ H). reflexivity.
  Qed.

  Lemma upd_at {A} (u : list A) i x y : nth_error u i = Some y -> nth_error (upd u i x) i = Some x.
  Proof. revert i; induction u as [|h t IH]; intros [|i]; cbn; try discriminate; auto. Qed.

  Lemma fstep_other l i j o : i <> j -> nth_error (fst (fstep stp l (i, o))) j = nth_error l j.
  Proof.
    intros Hij. unfold fstep. cbn [fst snd]. destruct (nth_error l i) as [s|]; [|reflexivity].
    destruct (stp s o) as [s' a]. cbn [fst]. apply upd_other. exact Hij.
  Qed.

  Lemma fstep_same l i o s : nth_error l i = Some s ->
    nth_error (fst (fstep stp l (i, o))) i = Some (fst (stp s o)) /\ snd (fstep stp l (i, o)) = snd (stp s o).
  Proof.
    intros H. unfold fstep. cbn [fst snd]. rewrite H. destruct (stp s o) as [s' a]. cbn [fst snd].
    split; [eapply upd_at; eauto | reflexivity].
  Qed.

  Lemma fstep_noop l i o : (forall s, nth_error l i = Some s -> fst (stp s o) = s) -> fst (fstep stp l (i, o)) = l.
  Proof.
    intros H. unfold fstep. cbn [fst snd]. destruct (nth_error l i) as [s|] eqn:E; [|reflexivity].
    specialize (H s eq_refl). destruct (stp s o) as [s' a]. cbn [fst] in *. subst s'. apply upd_same. exact E.
  Qed.

  Lemma fstep_error_noop :
    (forall s o, snd (stp s o) = AErr \/ snd (stp s o) = ABad -> fst (stp s o) = s) ->
    forall l io, snd (fstep stp l io) = AErr \/ snd (fstep stp l io) = ABad -> fst (fstep stp l io) = l.
  Proof.
    intros Hs l [i o] H. apply fstep_noop. intros s E. apply Hs.
    destruct (fstep_same l i o s E) as [_ Ha]. rewrite <- Ha. exact H.
  Qed.

  Lemma fstep_inv (P : St -> Prop) : (forall s o, P s -> P (fst (stp s o))) ->
    forall l io, Forall P l -> Forall P (fst (fstep stp l io)).
  Proof.
    intros Hs l [i o] Hl. unfold fstep. cbn [fst snd]. destruct (nth_error l i) as [s|] eqn:E; [|exact Hl].
    assert (Ps : P s) by (rewrite Forall_forall in Hl; apply Hl; eapply nth_error_In; eauto).
    specialize (Hs s o Ps). destruct (stp s o) as [s' a]. cbn [fst] in *.
    clear E Ps. revert i. induction Hl as [|h t Hh Ht IH]; intros [|i]; cbn; constructor; auto.
  Qed.

  Lemma frun_cons l o t : frun stp l (o :: t) =
    (snd (fstep stp l o) :: fst (frun stp (fst (fstep stp l o)) t), snd (frun stp (fst (fstep stp l o)) t)).
  Proof. cbn [frun]. destruct (fstep stp l o) as [l' a]. cbn. destruct (frun stp l' t); reflexivity. Qed.

  Lemma srun_cons s o t : srun s (o :: t) =
    (snd (stp s o) :: fst (srun (fst (stp s o)) t), snd (srun (fst (stp s o)) t)).
  Proof. cbn [srun]. destruct (stp s o) as [s' a]. cbn. destruct (srun s' t); reflexivity. Qed.

  Lemma frun_inv (P : St -> Prop) : (forall s o, P s -> P (fst (stp s o))) ->
    forall ops l, Forall P l -> Forall P (snd (frun stp l ops)).
  Proof.
    intros Hs. induction ops as [|o t IH]; intros l Hl; [exact Hl|].
    rewrite frun_cons. cbn [snd]. apply IH. apply fstep_inv; assumption.
  Qed.

  (* an operation that is a no-op can be erased from any sequence: no later answer, no final state changes *)
  Lemma frun_erase l o t : fst (fstep stp l o) = l ->
    frun stp l (o :: t) = (snd (fstep stp l o) :: fst (frun stp l t), snd (frun stp l t)).
  Proof. intros H. rewrite frun_cons, H. reflexivity. Qed.

  (* component j of an interleaved run behaves exactly as if it had been run alone on its own operations *)
  Lemma frun_project ops : forall l j s, nth_error l j = Some s ->
    sel j ops (fst (frun stp l ops)) = fst (srun s (proj j ops)) /\
    nth_error (snd (frun stp l ops)) j = Some (snd (srun s (proj j ops))).
  Proof.
    induction ops as [|[i o] t IH]; intros l j s H.
    - cbn. auto.
    - rewrite frun_cons. cbn [fst snd sel proj]. destruct (Nat.eqb_spec i j) as [->|Hij].
      + destruct (fstep_same l j o s H) as [Hn Ha]. rewrite srun_cons. cbn [fst snd].
        destruct (IH _ j _ Hn) as [IH1 IH2]. rewrite IH1, IH2, Ha. auto.
      + apply IH. rewrite fstep_other by exact Hij. exact H.
  Qed.
End FamilyProofs.

Section Universe.
  Variable oinit : registry.

  Lemma run_is_srun ops : forall r, run oinit r ops = srun (step oinit) r ops.
  Proof.
    induction ops as [|o t IH]; intros r; [reflexivity|].
    cbn [Registry.run srun]. destruct (step oinit r o) as [r' a]. rewrite IH. reflexivity.
  Qed.
  Lemma mrun_is_srun ops : forall m, mrun oinit m ops = srun (mstep oinit) m ops.
  Proof.
    induction ops as [|o t IH]; intros m; [reflexivity|].
    unfold mrun in *. cbn [frun srun]. fold (mstep oinit m o). destruct (mstep oinit m o) as [m' a].
    rewrite IH. reflexivity.
  Qed.

  Definition wf_manager (m : manager) : Prop := Forall (fun r => NoDup (names r)) m.
  Definition wf_universe (u : list manager) : Prop := Forall wf_manager u.

  Lemma mstep_wf m to : wf_manager m -> wf_manager (fst (mstep oinit m to)).
  Proof. apply fstep_inv. intros s o. apply step_names_nodup. Qed.

  Lemma urun_wf ops u : wf_universe u -> wf_universe (snd (urun oinit u ops)).
  Proof. apply frun_inv. intros m to. apply mstep_wf. Qed.

  Lemma mstep_error_noop m to :
    snd (mstep oinit m to) = AErr \/ snd (mstep oinit m to) = ABad -> fst (mstep oinit m to) = m.
  Proof. apply fstep_error_noop. apply step_error_noop. Qed.

  Lemma ustep_error_noop u io :
    snd (ustep oinit u io) = AErr \/ snd (ustep oinit u io) = ABad -> fst (ustep oinit u io) = u.
  Proof. apply fstep_error_noop. apply mstep_error_noop. Qed.

  Lemma ustep_lookup_noop u i t o : (forall n p prio, o <> Add n p prio) -> fst (ustep oinit u (i, (t, o))) = u.
  Proof.
    intros H. apply fstep_noop. intros m _. apply fstep_noop. intros r _. apply lookups_pure. exact H.
  Qed.

  Lemma urun_erase_rejected u io t :
    snd (ustep oinit u io) = AErr \/ snd (ustep oinit u io) = ABad ->
    urun oinit u (io :: t) = (snd (ustep oinit u io) :: fst (urun oinit u t), snd (urun oinit u t)).
  Proof. intros H. apply frun_erase. apply ustep_error_noop. exact H. Qed.

  Lemma urun_erase_lookup u i ty o t : (forall n p prio, o <> Add n p prio) ->
    urun oinit u ((i, (ty, o)) :: t) =
      (snd (ustep oinit u (i, (ty, o))) :: fst (urun oinit u t), snd (urun oinit u t)).
  Proof. intros H. apply frun_erase. apply ustep_lookup_noop. exact H. Qed.

  (* managers: isolation of states and of answers over whole interleaved sequences *)
  Lemma manager_isolation u i j to : i <> j -> nth_error (fst (ustep oinit u (i, to))) j = nth_error u j.
  Proof. apply fstep_other. Qed.

  Lemma manager_isolation_trace ops u j m : nth_error u j = Some m ->
    sel j ops (fst (urun oinit u ops)) = fst (mrun oinit m (proj j ops)) /\
    nth_error (snd (urun oinit u ops)) j = Some (snd (mrun oinit m (proj j ops))).
  Proof. intros H. rewrite mrun_is_srun. apply frun_project. exact H. Qed.

  (* plug-in types inside one manager *)
  Lemma type_isolation m t t' o : t <> t' -> nth_error (fst (mstep oinit m (t, o))) t' = nth_error m t'.
  Proof. apply fstep_other. Qed.

  Lemma type_isolation_trace ops m t r : nth_error m t = Some r ->
    sel t ops (fst (mrun oinit m ops)) = fst (run oinit r (proj t ops)) /\
    nth_error (snd (mrun oinit m ops)) t = Some (snd (run oinit r (proj t ops))).
  Proof. intros H. rewrite run_is_srun. apply frun_project. exact H. Qed.

  (* is_supported <=> get_plugin succeeds, in any state of any manager of any universe *)
  Lemma universe_sup_iff_get u i t m :
    snd (ustep oinit u (i, (t, Sup m))) = ABool true <-> exists id, snd (ustep oinit u (i, (t, Get m))) = APlug id.
  Proof.
    unfold ustep, fstep. cbn [fst snd]. destruct (nth_error u i) as [mg|].
    - unfold mstep, fstep. cbn [fst snd]. destruct (nth_error mg t) as [r|].
      + pose proof (is_supported_iff_get oinit r m) as H.
        destruct (step oinit r (Sup m)) as [r1 a1], (step oinit r (Get m)) as [r2 a2]. cbn [fst snd] in *. exact H.
      + cbn. split; [discriminate | intros [? H]; discriminate].
    - cbn. split; [discriminate | intros [? H]; discriminate].
  Qed.

  Lemma universe_sup_false_iff_error u i t m : (exists r, nth_error u i = Some r /\ t < List.length r) ->
    (snd (ustep oinit u (i, (t, Sup m))) = ABool false <-> snd (ustep oinit u (i, (t, Get m))) = AErr).
  Proof.
    intros (mg & Hm & Ht). unfold ustep, fstep. cbn [fst snd]. unfold manager in *. rewrite Hm.
    unfold mstep, fstep. cbn [fst snd]. destruct (nth_error mg t) as [r|] eqn:E.
    - pose proof (is_supported_false_iff_error oinit r m) as H.
      destruct (step oinit r (Sup m)) as [r1 a1], (step oinit r (Get m)) as [r2 a2]. cbn [fst snd] in *. exact H.
    - apply nth_error_None in E. lia.
  Qed.
End Universe.
