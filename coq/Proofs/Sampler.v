(* Proofs/Sampler.v -- lemmas about Model/Sampler.v (C17). *)
From Coq Require Import QArith ZArith List Bool Arith Lia Lqa Qround Permutation.
From Ropt Require Import Base.Num Base.ListX Model.Sampler.
Import ListNotations.
Local Open Scope nat_scope.

Local Arguments firstn : simpl never.
Local Arguments skipn : simpl never.

(* ---------------------------------------------------------------------------------------------
   firstn / skipn / chunk
   --------------------------------------------------------------------------------------------- *)
Lemma nth_error_skipn' {A} n (l : list A) i : nth_error (skipn n l) i = nth_error l (n + i).
Proof.
  revert l; induction n as [|n IH]; intros l; [reflexivity|].
  destruct l as [|x l]; [destruct i; reflexivity|]. cbn [skipn plus nth_error]. unfold skipn; fold (@skipn A). apply IH.
Qed.

Lemma nth_error_firstn' {A} n (l : list A) i : i < n -> nth_error (firstn n l) i = nth_error l i.
Proof.
  revert l i; induction n as [|n IH]; intros l i H; [lia|].
  destruct l as [|x l]; [destruct i; reflexivity|]. unfold firstn; fold (@firstn A).
  destruct i; [reflexivity|]. cbn [nth_error]. apply IH; lia.
Qed.

Lemma skipn_skipn' {A} a b (l : list A) : skipn a (skipn b l) = skipn (b + a) l.
Proof.
  revert l; induction b as [|b IH]; intros l; [reflexivity|].
  destruct l as [|x l]; [unfold skipn; destruct a; reflexivity|].
  cbn [plus]. unfold skipn at 2 3; fold (@skipn A). apply IH.
Qed.

Lemma chunk_cons {A} n k (l : list A) : chunk n (S k) l = firstn n l :: chunk n k (skipn n l).
Proof. reflexivity. Qed.

Lemma chunk_nth {A} n k (l : list A) r : r < k ->
  nth_error (chunk n k l) r = Some (firstn n (skipn (r * n) l)).
Proof.
  revert l r; induction k as [|k IH]; intros l r H; [lia|]. rewrite chunk_cons.
  destruct r as [|r]; [reflexivity|]. cbn [nth_error]. rewrite IH by lia.
  rewrite skipn_skipn'. reflexivity.
Qed.

Lemma chunk_nth_none {A} n k (l : list A) r : k <= r -> nth_error (chunk n k l) r = None.
Proof. intros H. apply nth_error_None. rewrite chunk_length. exact H. Qed.

(* index law of reshape(-1, n): entry c of row r is entry r*n + c of the flat array *)
Lemma chunk_index {A} n k (l : list A) r c row : c < n ->
  nth_error (chunk n k l) r = Some row -> nth_error row c = nth_error l (r * n + c).
Proof.
  intros Hc H. destruct (Nat.lt_ge_cases r k) as [Hr|Hr].
  - rewrite chunk_nth in H by exact Hr. injection H as <-.
    rewrite nth_error_firstn' by exact Hc. apply nth_error_skipn'.
  - rewrite chunk_nth_none in H by exact Hr. discriminate.
Qed.

Lemma chunk_all_length {A} n k (l : list A) : length l = k * n -> Forall (fun r => length r = n) (chunk n k l).
Proof.
  revert l; induction k as [|k IH]; intros l H; [constructor|]. rewrite chunk_cons. constructor.
  - rewrite firstn_length. cbn [mult] in H. lia.
  - apply IH. rewrite skipn_length. cbn [mult] in H. lia.
Qed.

Lemma chunk_concat {A} n k (rows : list (list A)) :
  length rows = k -> Forall (fun r => length r = n) rows -> chunk n k (concat rows) = rows.
Proof.
  revert k; induction rows as [|r rows IH]; intros k Hk Hall; subst k; [reflexivity|].
  inversion Hall as [|? ? Hr Hrest]; subst. cbn [length concat]. rewrite chunk_cons.
  rewrite firstn_app, Nat.sub_diag, firstn_all. change (firstn 0 (concat rows)) with (@nil A). rewrite app_nil_r.
  rewrite skipn_app, Nat.sub_diag, skipn_all. change (skipn 0 (concat rows)) with (concat rows). cbn [app].
  f_equal. apply IH; [reflexivity | exact Hrest].
Qed.

Lemma chunk_one {A} n (l : list A) : length l = n -> chunk n 1 l = [l].
Proof. intros H. cbn [chunk]. rewrite <- H, firstn_all. reflexivity. Qed.

Lemma In_firstn {A} n (l : list A) x : In x (firstn n l) -> In x l.
Proof. intros H. rewrite <- (firstn_skipn n l). apply in_or_app. left; exact H. Qed.
Lemma In_skipn {A} n (l : list A) x : In x (skipn n l) -> In x l.
Proof. intros H. rewrite <- (firstn_skipn n l). apply in_or_app. right; exact H. Qed.

Lemma chunk_In {A} n k (l : list A) row x : In row (chunk n k l) -> In x row -> In x l.
Proof.
  revert l; induction k as [|k IH]; intros l Hr Hx; [contradiction|]. rewrite chunk_cons in Hr.
  destruct Hr as [<-|Hr]; [eapply In_firstn; exact Hx | eapply In_skipn, IH; eassumption].
Qed.

Lemma nth_error_Some_lt {A} (l : list A) i x : nth_error l i = Some x -> i < length l.
Proof. intros H. apply nth_error_Some. rewrite H. discriminate. Qed.

Lemma map_repeat' {A B} (f : A -> B) x n : map f (repeat x n) = repeat (f x) n.
Proof. induction n as [|n IH]; cbn; [reflexivity | rewrite IH; reflexivity]. Qed.

Lemma nth_error_repeat' {A} (x : A) n i : i < n -> nth_error (repeat x n) i = Some x.
Proof. revert i; induction n as [|n IH]; intros i H; [lia|]. destruct i; cbn; [reflexivity | apply IH; lia]. Qed.

Lemma length_concat_uniform {A} n (rows : list (list A)) :
  Forall (fun r => length r = n) rows -> length (concat rows) = length rows * n.
Proof. induction 1 as [|r rows Hr _ IH]; cbn; [reflexivity | rewrite app_length, IH, Hr; reflexivity]. Qed.

(* ---------------------------------------------------------------------------------------------
   masks: count_true, scatter0, gather
   --------------------------------------------------------------------------------------------- *)
Lemma count_true_cons b m : count_true (b :: m) = (if b then 1 else 0) + count_true m.
Proof. unfold count_true. destruct b; reflexivity. Qed.

Lemma firstn_S_cons {A} n (x : A) l : firstn (S n) (x :: l) = x :: firstn n l.
Proof. reflexivity. Qed.

Lemma scatter0_length m v : length (scatter0 m v) = length m.
Proof.
  revert v; induction m as [|b m IH]; intros v; [reflexivity|].
  destruct b; [destruct v|]; cbn; rewrite IH; reflexivity.
Qed.

Lemma scatter0_unhandled m v i : nth_error m i = Some false -> nth_error (scatter0 m v) i = Some 0%Q.
Proof.
  revert v i; induction m as [|b m IH]; intros v i H; [destruct i; discriminate|].
  destruct i as [|i]; cbn in H.
  - injection H as ->. reflexivity.
  - destruct b; [destruct v|]; cbn; apply IH; exact H.
Qed.

(* a handled variable receives the coordinate whose index is its rank among the handled ones *)
Lemma scatter0_handled m v i : nth i m false = true ->
  nth i (scatter0 m v) 0%Q = nth (count_true (firstn i m)) v 0%Q.
Proof.
  revert v i; induction m as [|b m IH]; intros v i H; [destruct i; discriminate|].
  destruct i as [|i]; cbn in H.
  - subst b. destruct v; reflexivity.
  - rewrite firstn_S_cons, count_true_cons. destruct b.
    + destruct v as [|x t]; cbn [scatter0 nth plus].
      * rewrite IH by exact H. destruct (count_true (firstn i m)); reflexivity.
      * apply IH; exact H.
    + cbn [scatter0 nth plus]. apply IH; exact H.
Qed.

Lemma gather_scatter0 m v : length v = count_true m -> gather m (scatter0 m v) = v.
Proof.
  revert v; induction m as [|b m IH]; intros v H.
  - destruct v; [reflexivity | discriminate].
  - rewrite count_true_cons in H. destruct b.
    + destruct v as [|x t]; [discriminate|]. cbn. f_equal. apply IH. cbn in H. lia.
    + cbn. apply IH. exact H.
Qed.

Lemma scatter0_In m v x : In x (scatter0 m v) -> x = 0%Q \/ In x v.
Proof.
  revert v; induction m as [|b m IH]; intros v H; [contradiction|].
  destruct b; [destruct v as [|y t]|]; cbn [scatter0 In] in H.
  - destruct H as [H|H]; [left; symmetry; exact H | apply IH; exact H].
  - destruct H as [H|H]; [right; left; exact H|].
    apply IH in H. destruct H as [H|H]; [left; exact H | right; right; exact H].
  - destruct H as [H|H]; [left; symmetry; exact H | apply IH; exact H].
Qed.

Lemma count_true_firstn_le v m : count_true (firstn v m) <= count_true m.
Proof.
  revert v; induction m as [|b m IH]; intros v; [rewrite firstn_nil; lia|].
  destruct v; [rewrite firstn_O; cbn; lia|]. rewrite firstn_S_cons, !count_true_cons. specialize (IH v). lia.
Qed.

Lemma rank_lt m v : nth v m false = true -> count_true (firstn v m) < count_true m.
Proof.
  revert v; induction m as [|b m IH]; intros v H; [destruct v; discriminate|].
  destruct v as [|v]; cbn in H.
  - subst b. rewrite firstn_O, count_true_cons. cbn. lia.
  - rewrite firstn_S_cons, !count_true_cons. specialize (IH v H). lia.
Qed.

(* distinct handled variables have distinct ranks *)
Lemma rank_inj m v w : nth v m false = true -> nth w m false = true ->
  count_true (firstn v m) = count_true (firstn w m) -> v = w.
Proof.
  revert v w; induction m as [|b m IH]; intros v w Hv Hw E; [destruct v; discriminate|].
  destruct v as [|v], w as [|w]; cbn in Hv, Hw; try reflexivity.
  - subst b. rewrite firstn_O, firstn_S_cons, count_true_cons in E. cbn in E. discriminate.
  - subst b. rewrite firstn_O, firstn_S_cons, count_true_cons in E. cbn in E. discriminate.
  - rewrite !firstn_S_cons, !count_true_cons in E. f_equal. apply IH; [assumption | assumption | lia].
Qed.

(* ---------------------------------------------------------------------------------------------
   _get_mask
   --------------------------------------------------------------------------------------------- *)
Definition assigned (assign : option (list Z)) (k v : nat) : bool :=
  match assign with None => true | Some a => Z.eqb (nth v a (-1)%Z) (Z.of_nat k) end.

Lemma nth_assigned_to k a v : v < length a -> nth v (assigned_to k a) false = Z.eqb (nth v a (-1)%Z) (Z.of_nat k).
Proof.
  intros H. unfold assigned_to.
  rewrite (nth_indep _ false (Z.eqb (-1)%Z (Z.of_nat k))) by (rewrite map_length; exact H).
  apply (map_nth (fun s => Z.eqb s (Z.of_nat k))).
Qed.

Lemma nth_and_masks m s v : length m = length s -> nth v (and_masks m s) false = nth v m false && nth v s false.
Proof.
  revert s v; induction m as [|b m IH]; intros [|c s] v H; try discriminate; [destruct v; reflexivity|].
  destruct v; [reflexivity|]. cbn. apply IH. cbn in H. lia.
Qed.

Lemma and_masks_length m s : length m = length s -> length (and_masks m s) = length m.
Proof. intros H. unfold and_masks. rewrite map_length, combine_length. lia. Qed.

Definition mask_len (V : nat) (m : option (list bool)) : Prop := match m with None => True | Some l => length l = V end.
Definition assign_len (V : nat) (a : option (list Z)) : Prop := match a with None => True | Some l => length l = V end.

Lemma get_mask_len V k assign varmask : mask_len V varmask -> assign_len V assign -> mask_len V (get_mask k assign varmask).
Proof.
  destruct assign as [a|], varmask as [m|]; cbn; intros Hm Ha; auto.
  - rewrite and_masks_length; unfold assigned_to; rewrite ?map_length; congruence.
  - unfold assigned_to; rewrite map_length; exact Ha.
Qed.

(* a sampler handles exactly the free variables assigned to it *)
Lemma get_mask_spec V k assign varmask v : mask_len V varmask -> assign_len V assign -> v < V ->
  handled (get_mask k assign varmask) v = handled varmask v && assigned assign k v.
Proof.
  destruct assign as [a|], varmask as [m|]; cbn; intros Hm Ha Hv.
  - rewrite nth_and_masks by (unfold assigned_to; rewrite map_length; congruence).
    rewrite nth_assigned_to by lia. reflexivity.
  - rewrite nth_assigned_to by lia. reflexivity.
  - rewrite andb_true_r; reflexivity.
  - reflexivity.
Qed.

Lemma get_mask_disjoint V k k' a varmask v : mask_len V varmask -> length a = V -> v < V -> k <> k' ->
  handled (get_mask k (Some a) varmask) v = true -> handled (get_mask k' (Some a) varmask) v = false.
Proof.
  intros Hm Ha Hv Hk H.
  rewrite (get_mask_spec V) in H |- * by assumption. apply andb_prop in H as [_ H]. cbn in H |- *.
  apply Z.eqb_eq in H. rewrite H. replace (Z.eqb (Z.of_nat k) (Z.of_nat k')) with false; [apply andb_false_r|].
  symmetry. apply Z.eqb_neq. lia.
Qed.

(* ---------------------------------------------------------------------------------------------
   generate: structure
   --------------------------------------------------------------------------------------------- *)
(* the n = R'*P rows of dimension D that ropt forms out of the raw draw, in draw order *)
Definition flat_rows (D n : nat) (rw : raw) : list (list Q) :=
  match rw with RawStats flat => chunk D n flat | RawQmc pts => map (map scale_unit) pts end.

Lemma reshape3_some {A} R P D (flat : list A) s : reshape3 R P D flat = Some s ->
  length flat = R * P * D /\ s = chunk P R (chunk D (R * P) flat).
Proof.
  unfold reshape3. destruct (Nat.eqb (length flat) (R * P * D)) eqn:E; [|discriminate].
  apply Nat.eqb_eq in E. intros H; injection H as <-. auto.
Qed.

Lemma raw_rows_spec m R' P D rw s : raw_rows m R' P D rw = Some s ->
  length (flat_rows D (R' * P) rw) = R' * P /\
  Forall (fun r => length r = D) (flat_rows D (R' * P) rw) /\
  s = chunk P R' (flat_rows D (R' * P) rw).
Proof.
  unfold raw_rows. destruct rw as [flat|pts]; destruct (is_qmc m); try discriminate; cbn [flat_rows].
  - unfold stats_samples. intros H. apply reshape3_some in H as [Hl ->].
    split; [apply chunk_length|]. split; [apply chunk_all_length; exact Hl | reflexivity].
  - unfold qmc_samples.
    destruct (Nat.eqb (length pts) (R' * P)) eqn:E1; [|discriminate].
    destruct (forallb (fun pt => Nat.eqb (length pt) D) pts) eqn:E2; [|discriminate]. cbn [andb].
    apply Nat.eqb_eq in E1. rewrite forallb_forall in E2.
    assert (Hall : Forall (fun r => length r = D) (map (map scale_unit) pts)).
    { apply Forall_forall. intros r Hr. apply in_map_iff in Hr as [pt [<- Hpt]]. rewrite map_length.
      apply Nat.eqb_eq. apply E2. exact Hpt. }
    intros H. apply reshape3_some in H as [_ ->].
    rewrite chunk_concat by (rewrite ?map_length; assumption).
    split; [rewrite map_length; exact E1|]. split; [exact Hall | reflexivity].
Qed.

Definition sample_R (sh : bool) (R : nat) : nat := if sh then 1 else R.

Lemma generate_struct m sh R P V mask rw out : generate m sh R P V mask rw = Some out ->
  let D := sample_dim V mask in
  let rows := flat_rows D (sample_R sh R * P) rw in
  length rows = sample_R sh R * P /\ Forall (fun r => length r = D) rows /\ mask_len V mask /\
  out = map (map (embed mask)) (if sh then repeat rows R else chunk P R rows).
Proof.
  unfold generate. cbn zeta. fold (sample_R sh R).
  destruct (raw_rows m (sample_R sh R) P (sample_dim V mask) rw) as [s|] eqn:E; [|discriminate].
  apply raw_rows_spec in E as [Hl [Hall ->]]. intros H.
  assert (Hs : (if sh then repeat_axis0 R (chunk P (sample_R sh R) (flat_rows (sample_dim V mask) (sample_R sh R * P) rw))
                else chunk P (sample_R sh R) (flat_rows (sample_dim V mask) (sample_R sh R * P) rw))
               = if sh then repeat (flat_rows (sample_dim V mask) (sample_R sh R * P) rw) R
                 else chunk P R (flat_rows (sample_dim V mask) (sample_R sh R * P) rw)).
  { destruct sh; [|reflexivity]. cbn [sample_R] in *. rewrite chunk_one by lia.
    unfold repeat_axis0. cbn [flat_map]. apply app_nil_r. }
  rewrite Hs in H. clear Hs.
  split; [exact Hl|]. split; [exact Hall|].
  destruct mask as [mk|].
  - destruct (Nat.eqb (length mk) V) eqn:Em; [|discriminate]. apply Nat.eqb_eq in Em.
    injection H as <-. split; [exact Em | reflexivity].
  - injection H as <-. split; [exact I|]. cbn [embed].
    rewrite (map_ext _ (fun x => x)) by (intros; apply map_id). rewrite map_id. reflexivity.
Qed.

Lemma embed_length V mask row : mask_len V mask -> length row = sample_dim V mask -> length (embed mask row) = V.
Proof. destruct mask as [mk|]; cbn; intros Hm Hr; [rewrite scatter0_length; exact Hm | exact Hr]. Qed.

(* every entry (r, p) of the output is the embedding of row r'*P + p of the draw (r' = 0 when shared) *)
Lemma generate_entry m sh R P V mask rw out r p blk vec :
  generate m sh R P V mask rw = Some out ->
  nth_error out r = Some blk -> nth_error blk p = Some vec ->
  r < R /\ p < P /\
  exists row, nth_error (flat_rows (sample_dim V mask) (sample_R sh R * P) rw) ((if sh then 0 else r) * P + p) = Some row /\
              length row = sample_dim V mask /\ vec = embed mask row.
Proof.
  intros G Hb Hv. apply generate_struct in G. cbn zeta in G. destruct G as [Hl [Hall [Hm ->]]].
  set (rows := flat_rows (sample_dim V mask) (sample_R sh R * P) rw) in *.
  rewrite nth_error_map in Hb.
  destruct (nth_error (if sh then repeat rows R else chunk P R rows) r) as [b|] eqn:Eb; [|discriminate].
  injection Hb as <-. rewrite nth_error_map in Hv.
  destruct (nth_error b p) as [row|] eqn:Er; [|discriminate]. injection Hv as <-.
  assert (Hr : r < R).
  { apply nth_error_Some_lt in Eb. destruct sh; [rewrite repeat_length in Eb | rewrite chunk_length in Eb]; exact Eb. }
  destruct sh; cbn [sample_R] in *.
  - rewrite nth_error_repeat' in Eb by exact Hr. injection Eb as <-.
    assert (Hp : p < P) by (apply nth_error_Some_lt in Er; lia).
    split; [exact Hr|]. split; [exact Hp|]. exists row. cbn [mult plus]. split; [exact Er|]. split; [|reflexivity].
    rewrite Forall_forall in Hall. apply Hall. eapply nth_error_In; exact Er.
  - rewrite chunk_nth in Eb by exact Hr. injection Eb as <-.
    assert (Hp : p < P).
    { apply nth_error_Some_lt in Er. rewrite firstn_length in Er. lia. }
    rewrite nth_error_firstn' in Er by exact Hp. rewrite nth_error_skipn' in Er.
    split; [exact Hr|]. split; [exact Hp|]. exists row. split; [exact Er|]. split; [|reflexivity].
    rewrite Forall_forall in Hall. apply Hall. eapply nth_error_In; exact Er.
Qed.

(* ---------------------------------------------------------------------------------------------
   generate: the clauses of the property
   --------------------------------------------------------------------------------------------- *)
Lemma generate_blocks m sh R P V mask rw out : generate m sh R P V mask rw = Some out ->
  exists X, out = map (map (embed mask)) X /\ length X = R /\ mask_len V mask /\
            Forall (fun b => length b = P /\ Forall (fun row => length row = sample_dim V mask) b) X.
Proof.
  intros G. apply generate_struct in G. cbn zeta in G. destruct G as [Hl [Hall [Hm E]]].
  set (rows := flat_rows (sample_dim V mask) (sample_R sh R * P) rw) in *.
  exists (if sh then repeat rows R else chunk P R rows). split; [exact E|].
  split; [destruct sh; [apply repeat_length | apply chunk_length]|]. split; [exact Hm|].
  apply Forall_forall. intros b Hb. destruct sh; cbn [sample_R] in *.
  - apply repeat_spec in Hb. subst b. split; [lia | exact Hall].
  - split.
    + pose proof (chunk_all_length P R rows Hl) as HP. rewrite Forall_forall in HP. apply HP; exact Hb.
    + apply Forall_forall. intros row Hrow. rewrite Forall_forall in Hall. apply Hall.
      eapply chunk_In; eassumption.
Qed.

Theorem generate_shape m sh R P V mask rw out : generate m sh R P V mask rw = Some out ->
  length out = R /\ Forall (fun blk => length blk = P /\ Forall (fun vec => length vec = V) blk) out.
Proof.
  intros G. apply generate_blocks in G as [X [-> [HX [Hm HF]]]]. split; [rewrite map_length; exact HX|].
  apply Forall_forall. intros blk Hb. apply in_map_iff in Hb as [b [<- Hb]].
  rewrite Forall_forall in HF. destruct (HF b Hb) as [HP Hrows]. split; [rewrite map_length; exact HP|].
  apply Forall_forall. intros vec Hv. apply in_map_iff in Hv as [row [<- Hrow]].
  rewrite Forall_forall in Hrows. apply (embed_length V); [exact Hm | apply Hrows; exact Hrow].
Qed.

Theorem generate_unhandled_zero m sh R P V mask rw out r p v blk vec :
  generate m sh R P V mask rw = Some out ->
  nth_error out r = Some blk -> nth_error blk p = Some vec -> v < V -> handled mask v = false ->
  nth_error vec v = Some 0%Q.
Proof.
  intros G Hb Hv HvV Hh. pose proof (generate_struct _ _ _ _ _ _ _ _ G) as S. cbn zeta in S.
  destruct S as [_ [_ [Hm _]]].
  destruct (generate_entry _ _ _ _ _ _ _ _ _ _ _ _ G Hb Hv) as [_ [_ [row [_ [_ ->]]]]].
  destruct mask as [mk|]; [|discriminate]. cbn in Hh, Hm |- *. apply scatter0_unhandled.
  rewrite (nth_error_nth' mk false) by lia. rewrite Hh. reflexivity.
Qed.

Theorem generate_shared m R P V mask rw out :
  generate m true R P V mask rw = Some out -> exists blk, out = repeat blk R.
Proof.
  intros G. apply generate_struct in G. cbn zeta in G. destruct G as [_ [_ [_ ->]]].
  eexists. apply map_repeat'.
Qed.

(* stats methods: the vector of (r, p) is the slice [i*D, (i+1)*D) of the draw, i = r*P + p (i = p when shared) *)
Theorem generate_stats_slices m sh R P V mask flat out r p blk vec :
  generate m sh R P V mask (RawStats flat) = Some out ->
  nth_error out r = Some blk -> nth_error blk p = Some vec ->
  let D := sample_dim V mask in
  vec = embed mask (firstn D (skipn (((if sh then 0 else r) * P + p) * D) flat)).
Proof.
  intros G Hb Hv D. destruct (generate_entry _ _ _ _ _ _ _ _ _ _ _ _ G Hb Hv) as [_ [_ [row [Hrow [_ ->]]]]].
  cbn [flat_rows] in Hrow. f_equal.
  destruct (Nat.lt_ge_cases ((if sh then 0 else r) * P + p) (sample_R sh R * P)) as [Hi|Hi].
  - rewrite chunk_nth in Hrow by exact Hi. injection Hrow as <-. reflexivity.
  - rewrite chunk_nth_none in Hrow by exact Hi. discriminate.
Qed.

(* the handled coordinates of a vector, in order *)
Definition restrict (mask : option (list bool)) (vec : list Q) : list Q :=
  match mask with None => vec | Some mk => gather mk vec end.

(* QMC methods: the vector of (r, p) is engine point r*P + p (p when shared), scaled, in the handled columns *)
Theorem generate_point_integrity m sh R P V mask pts out r p blk vec :
  generate m sh R P V mask (RawQmc pts) = Some out ->
  nth_error out r = Some blk -> nth_error blk p = Some vec ->
  exists pt, nth_error pts ((if sh then 0 else r) * P + p) = Some pt /\
             vec = embed mask (map scale_unit pt) /\ restrict mask vec = map scale_unit pt.
Proof.
  intros G Hb Hv. destruct (generate_entry _ _ _ _ _ _ _ _ _ _ _ _ G Hb Hv) as [_ [_ [row [Hrow [Hlen ->]]]]].
  cbn [flat_rows] in Hrow. rewrite nth_error_map in Hrow.
  destruct (nth_error pts ((if sh then 0 else r) * P + p)) as [pt|]; [|discriminate]. injection Hrow as <-.
  exists pt. split; [reflexivity|]. split; [reflexivity|].
  destruct mask as [mk|]; cbn in Hlen |- *; [apply gather_scatter0; exact Hlen | reflexivity].
Qed.

(* every (r, p) with r < R, p < P does have a vector *)
Lemma generate_has_entry m sh R P V mask rw out r p :
  generate m sh R P V mask rw = Some out -> r < R -> p < P ->
  exists blk vec, nth_error out r = Some blk /\ nth_error blk p = Some vec.
Proof.
  intros G Hr Hp. apply generate_shape in G as [HR HF].
  destruct (nth_error out r) as [blk|] eqn:Eb; [|apply nth_error_None in Eb; lia].
  rewrite Forall_forall in HF. destruct (HF blk (nth_error_In _ _ Eb)) as [HP _].
  destruct (nth_error blk p) as [vec|] eqn:Ev; [|apply nth_error_None in Ev; lia].
  exists blk, vec. split; [reflexivity | exact Ev].
Qed.

(* ---- range ----------------------------------------------------------------------------------- *)
Lemma scale_unit_range u : (0 <= u <= 1)%Q -> (-1 <= scale_unit u <= 1)%Q.
Proof. unfold scale_unit, scale_to. intros [H0 H1]. split; lra. Qed.

Lemma generate_entries (Pq : Q -> Prop) m sh R P V mask rw out :
  Pq 0%Q ->
  (forall row x, In row (flat_rows (sample_dim V mask) (sample_R sh R * P) rw) -> In x row -> Pq x) ->
  generate m sh R P V mask rw = Some out -> Forall (Forall (Forall Pq)) out.
Proof.
  intros H0 Hrows G. apply Forall_forall. intros blk Hb. apply Forall_forall. intros vec Hv.
  apply Forall_forall. intros x Hx.
  apply In_nth_error in Hb as [r Hb]. apply In_nth_error in Hv as [p Hv].
  destruct (generate_entry _ _ _ _ _ _ _ _ _ _ _ _ G Hb Hv) as [_ [_ [row [Hrow [_ ->]]]]].
  apply nth_error_In in Hrow. destruct mask as [mk|]; cbn [embed] in Hx.
  - apply scatter0_In in Hx as [->|Hx]; [exact H0 | eapply Hrows; eassumption].
  - eapply Hrows; eassumption.
Qed.

Definition in_unit_range (x : Q) : Prop := (-1 <= x <= 1)%Q.

Theorem generate_range_qmc m sh R P V mask pts out :
  (forall pt u, In pt pts -> In u pt -> (0 <= u <= 1)%Q) ->
  generate m sh R P V mask (RawQmc pts) = Some out -> Forall (Forall (Forall in_unit_range)) out.
Proof.
  intros Hpts. apply generate_entries.
  - unfold in_unit_range; lra.
  - cbn [flat_rows]. intros row x Hrow Hx. apply in_map_iff in Hrow as [pt [<- Hpt]].
    apply in_map_iff in Hx as [u [<- Hu]]. apply scale_unit_range. eapply Hpts; eassumption.
Qed.

Theorem generate_range_stats m sh R P V mask flat out :
  (forall x, In x flat -> in_unit_range x) ->
  generate m sh R P V mask (RawStats flat) = Some out -> Forall (Forall (Forall in_unit_range)) out.
Proof.
  intros Hflat. apply generate_entries.
  - unfold in_unit_range; lra.
  - cbn [flat_rows]. intros row x Hrow Hx. apply Hflat. eapply chunk_In; eassumption.
Qed.

(* ---- Latin-hypercube stratification --------------------------------------------------------- *)
Lemma stratum_scaled_scale n u : stratum_scaled n (scale_unit u) = stratum n u.
Proof.
  unfold stratum_scaled, stratum. apply Qfloor_comp.
  assert (E : (unscale_unit (scale_unit u) == u)%Q) by (unfold unscale_unit, scale_unit, scale_to; field).
  rewrite E. reflexivity.
Qed.

Lemma generate_vectors m sh R P V mask rw out : generate m sh R P V mask rw = Some out -> 0 < R ->
  vectors sh out = map (embed mask) (flat_rows (sample_dim V mask) (sample_R sh R * P) rw).
Proof.
  intros G HR. apply generate_struct in G. cbn zeta in G. destruct G as [Hl [_ [_ ->]]].
  unfold vectors. destruct sh; cbn [sample_R] in *.
  - destruct R as [|R']; [lia|]. cbn [repeat map]. rewrite firstn_S_cons, firstn_O. cbn [concat]. apply app_nil_r.
  - rewrite <- concat_map. rewrite concat_chunk by exact Hl. reflexivity.
Qed.

Lemma nth_embed_handled V mask row v : mask_len V mask -> length row = sample_dim V mask -> v < V ->
  handled mask v = true -> nth v (embed mask row) 0%Q = nth (rank mask v) row 0%Q /\ rank mask v < length row.
Proof.
  destruct mask as [mk|]; cbn; intros Hm Hl Hv Hh.
  - split; [apply scatter0_handled; exact Hh | rewrite Hl; apply rank_lt; exact Hh].
  - split; [reflexivity | lia].
Qed.

Theorem generate_strata m sh R P V mask pts out v n :
  generate m sh R P V mask (RawQmc pts) = Some out -> 0 < R -> v < V -> handled mask v = true ->
  map (stratum_scaled n) (column v (vectors sh out)) = map (stratum n) (column (rank mask v) pts).
Proof.
  intros G HR Hv Hh. rewrite (generate_vectors _ _ _ _ _ _ _ _ G HR).
  apply generate_struct in G. cbn zeta in G. destruct G as [_ [Hall [Hm _]]]. cbn [flat_rows] in *.
  unfold column. rewrite !map_map. apply map_ext_in. intros pt Hpt.
  rewrite Forall_forall in Hall.
  assert (Hlen : length (map scale_unit pt) = sample_dim V mask) by (apply Hall, in_map; exact Hpt).
  destruct (nth_embed_handled V mask (map scale_unit pt) v Hm Hlen Hv Hh) as [-> Hlt].
  rewrite (nth_indep _ 0%Q (scale_unit 0%Q)) by exact Hlt. rewrite map_nth. apply stratum_scaled_scale.
Qed.

(* the n points visit each of the n strata of a coordinate exactly once *)
Definition stratified (n : nat) (strata : list Z) : Prop := Permutation strata (map Z.of_nat (seq 0 n)).

Theorem generate_stratification_preserved m sh R P V mask pts out v n :
  generate m sh R P V mask (RawQmc pts) = Some out -> 0 < R -> v < V -> handled mask v = true ->
  stratified n (map (stratum n) (column (rank mask v) pts)) ->
  stratified n (map (stratum_scaled n) (column v (vectors sh out))).
Proof. intros G HR Hv Hh H. unfold stratified. rewrite (generate_strata _ _ _ _ _ _ _ _ _ n G HR Hv Hh). exact H. Qed.

(* distinct handled variables read distinct engine coordinates, all of them below the engine dimension *)
Theorem rank_spec V mask v w : mask_len V mask -> v < V -> w < V ->
  handled mask v = true -> handled mask w = true ->
  rank mask v < sample_dim V mask /\ (rank mask v = rank mask w -> v = w).
Proof.
  destruct mask as [mk|]; cbn; intros Hm Hv Hw Hhv Hhw.
  - split; [apply rank_lt; exact Hhv | apply rank_inj; assumption].
  - split; [exact Hv | auto].
Qed.

(* ---------------------------------------------------------------------------------------------
   generate is total on well-sized draws (the hypotheses "generate ... = Some out" are satisfiable
   for every method, shape, mask and shared flag)
   --------------------------------------------------------------------------------------------- *)
Definition raw_ok (m : method) (n D : nat) (rw : raw) : Prop :=
  match rw with
  | RawStats flat => is_qmc m = false /\ length flat = n * D
  | RawQmc pts => is_qmc m = true /\ length pts = n /\ Forall (fun pt => length pt = D) pts
  end.

Theorem generate_total m sh R P V mask rw :
  mask_len V mask -> raw_ok m (sample_R sh R * P) (sample_dim V mask) rw ->
  exists out, generate m sh R P V mask rw = Some out.
Proof.
  intros Hm Hr. unfold generate. cbn zeta. fold (sample_R sh R).
  assert (E : exists s, raw_rows m (sample_R sh R) P (sample_dim V mask) rw = Some s).
  { unfold raw_rows. destruct rw as [flat|pts]; cbn [raw_ok] in Hr.
    - destruct Hr as [-> Hl]. unfold stats_samples, reshape3. rewrite Hl, Nat.eqb_refl. eexists; reflexivity.
    - destruct Hr as [-> [Hl Hall]]. unfold qmc_samples. rewrite Hl, Nat.eqb_refl. cbn [andb].
      assert (F : forallb (fun pt => Nat.eqb (length pt) (sample_dim V mask)) pts = true).
      { apply forallb_forall. intros pt Hpt. rewrite Forall_forall in Hall. apply Nat.eqb_eq. apply Hall; exact Hpt. }
      rewrite F. unfold reshape3.
      rewrite (length_concat_uniform (sample_dim V mask)).
      + rewrite map_length, Hl, Nat.eqb_refl. eexists; reflexivity.
      + apply Forall_forall. intros r Hr. apply in_map_iff in Hr as [pt [<- Hpt]]. rewrite map_length.
        rewrite Forall_forall in Hall. apply Hall; exact Hpt. }
  destruct E as [s ->]. destruct mask as [mk|]; [|eexists; reflexivity].
  cbn in Hm. rewrite Hm, Nat.eqb_refl. eexists; reflexivity.
Qed.

(* ---------------------------------------------------------------------------------------------
   _perturb_variables: calling order of the samplers
   --------------------------------------------------------------------------------------------- *)
Lemma first_appearance_In seen a s : In s (first_appearance seen a) <-> (In s a /\ (0 <= s)%Z /\ ~ In s seen).
Proof.
  revert seen; induction a as [|x a IH]; intros seen; cbn [first_appearance].
  - split; [intros [] | intros [[] _]].
  - destruct (Z.ltb x 0) eqn:Ex; cbn [orb].
    + apply Z.ltb_lt in Ex. rewrite IH. split.
      * intros [Ha Hr]. split; [right; exact Ha | exact Hr].
      * intros [[->|Ha] [Hn Hs]]; [lia | split; [exact Ha | split; assumption]].
    + apply Z.ltb_ge in Ex. destruct (existsb (Z.eqb x) seen) eqn:Es.
      * apply existsb_exists in Es as [y [Hy Exy]]. apply Z.eqb_eq in Exy. subst y. rewrite IH. split.
        -- intros [Ha Hr]. split; [right; exact Ha | exact Hr].
        -- intros [[->|Ha] [Hn Hs]]; [contradiction | split; [exact Ha | split; assumption]].
      * assert (Hx : ~ In x seen).
        { intros Hin. assert (existsb (Z.eqb x) seen = true) as C; [|congruence].
          apply existsb_exists. exists x. split; [exact Hin | apply Z.eqb_refl]. }
        cbn [In]. rewrite IH. cbn [In]. split.
        -- intros [<-|[Ha [Hn Hs]]]; [split; [left; reflexivity | split; [exact Ex | exact Hx]]|].
           split; [right; exact Ha | split; [exact Hn | intros Hin; apply Hs; right; exact Hin]].
        -- intros [[->|Ha] [Hn Hs]]; [left; reflexivity|].
           destruct (Z.eq_dec x s) as [->|Hne]; [left; reflexivity|].
           right. split; [exact Ha | split; [exact Hn | intros [E|Hin]; [congruence | contradiction]]].
Qed.

Lemma first_appearance_NoDup seen a : NoDup (first_appearance seen a).
Proof.
  revert seen; induction a as [|x a IH]; intros seen; cbn [first_appearance]; [constructor|].
  destruct (Z.ltb x 0 || existsb (Z.eqb x) seen); [apply IH|].
  constructor; [|apply IH]. rewrite first_appearance_In. intros [_ [_ Hs]]. apply Hs. left; reflexivity.
Qed.

Lemma existsb_In s l : existsb (Z.eqb s) l = true <-> In s l.
Proof.
  rewrite existsb_exists. split.
  - intros [y [Hy E]]. apply Z.eqb_eq in E. subst y. exact Hy.
  - intros H. exists s. split; [exact H | apply Z.eqb_refl].
Qed.

Lemma bool_eq_iff (a b : bool) : (a = true <-> b = true) -> a = b.
Proof. destruct a, b; intros [H1 H2]; try reflexivity; [symmetry; apply H1; reflexivity | apply H2; reflexivity]. Qed.

Definition skip_entry (s : Z) (before : list Z) : bool := Z.ltb s 0 || existsb (Z.eqb s) before.

Lemma skip_entry_iff s before : skip_entry s before = true <-> ((s < 0)%Z \/ In s before).
Proof. unfold skip_entry. rewrite orb_true_iff, Z.ltb_lt, existsb_In. reflexivity. Qed.

(* a later entry never moves in front of an earlier one: appending an entry to gradient.samplers appends
   its sampler to the calling order, or changes nothing when it is negative or was seen before *)
Lemma first_appearance_snoc seen a s :
  first_appearance seen (a ++ [s]) = first_appearance seen a ++ (if skip_entry s (seen ++ a) then [] else [s]).
Proof.
  revert seen; induction a as [|x a IH]; intros seen.
  - cbn [app first_appearance]. rewrite app_nil_r. fold (skip_entry s seen). destruct (skip_entry s seen); reflexivity.
  - cbn [app first_appearance]. fold (skip_entry x seen).
    destruct (skip_entry x seen) eqn:Ex.
    + rewrite IH. f_equal. replace (skip_entry s (seen ++ x :: a)) with (skip_entry s (seen ++ a)); [reflexivity|].
      apply bool_eq_iff. rewrite !skip_entry_iff, !in_app_iff. cbn [In].
      apply skip_entry_iff in Ex. split.
      * intros [H|[H|H]]; auto.
      * intros [H|[H|[->|H]]]; auto. destruct Ex as [Ex|Ex]; auto.
    + cbn [app]. rewrite IH. f_equal. f_equal.
      replace (skip_entry s (seen ++ x :: a)) with (skip_entry s ((x :: seen) ++ a)); [reflexivity|].
      apply bool_eq_iff. rewrite !skip_entry_iff, !in_app_iff. cbn [In]. tauto.
Qed.

Theorem sampler_order_NoDup assign : NoDup (sampler_order assign).
Proof.
  destruct assign as [a|]; cbn [sampler_order]; [|constructor; [intros [] | constructor]].
  pose proof (first_appearance_NoDup [] a) as N.
  assert (Hpos : forall s, In s (first_appearance [] a) -> (0 <= s)%Z) by (intros s Hs; apply first_appearance_In in Hs; tauto).
  induction N as [|s l Hs N IH]; cbn [map]; [constructor|].
  constructor; [|apply IH; intros t Ht; apply Hpos; right; exact Ht].
  intros Hin. apply in_map_iff in Hin as [t [Et Ht]]. apply Hs.
  assert (t = s) as <-; [|exact Ht].
  pose proof (Hpos s (or_introl eq_refl)). pose proof (Hpos t (or_intror Ht)). lia.
Qed.

Theorem sampler_order_In a k : In k (sampler_order (Some a)) <-> In (Z.of_nat k) a.
Proof.
  cbn [sampler_order]. rewrite in_map_iff. split.
  - intros [s [<- Hs]]. apply first_appearance_In in Hs as [Ha [Hn _]]. rewrite Z2Nat.id by exact Hn. exact Ha.
  - intros Ha. exists (Z.of_nat k). split; [apply Nat2Z.id|]. apply first_appearance_In.
    split; [exact Ha | split; [lia | intros []]].
Qed.

Theorem sampler_order_snoc a s :
  sampler_order (Some (a ++ [s])) =
  sampler_order (Some a) ++ (if skip_entry s a then [] else [Z.to_nat s]).
Proof.
  cbn [sampler_order]. rewrite first_appearance_snoc, map_app. cbn [app]. destruct (skip_entry s a); reflexivity.
Qed.

(* ---------------------------------------------------------------------------------------------
   _perturb_variables: the sum over the samplers gives every variable its own sampler's sample
   --------------------------------------------------------------------------------------------- *)
Local Open Scope Q_scope.

Definition ent (a : arr3) (r p v : nat) : Q := nth v (nth p (nth r a []) []) 0.

Lemma zip_with_nth {A B C} (f : A -> B -> option C) (Pr : A -> B -> C -> Prop) da db dc :
  Pr da db dc -> (forall x y z, f x y = Some z -> Pr x y z) ->
  forall a b c, zip_with f a b = Some c -> forall i, Pr (nth i a da) (nth i b db) (nth i c dc).
Proof.
  intros Hd Hf a. induction a as [|x a IH]; intros [|y b] c H i; cbn [zip_with] in H; try discriminate.
  - injection H as <-. destruct i; exact Hd.
  - destruct (f x y) as [z|] eqn:Ez; [|discriminate].
    destruct (zip_with f a b) as [t|] eqn:Et; [|discriminate]. injection H as <-.
    destruct i as [|i]; cbn [nth]; [apply Hf; exact Ez | apply IH; exact Et].
Qed.

Lemma nth_nil_Q i : nth i (@nil Q) 0 = 0. Proof. destruct i; reflexivity. Qed.
Lemma nth_nil_l {A} i : nth i (@nil (list A)) [] = []. Proof. destruct i; reflexivity. Qed.

Lemma add_vec_nth a b c : add_vec a b = Some c -> forall v, nth v c 0 == nth v a 0 + nth v b 0.
Proof.
  intros H v. apply (zip_with_nth (fun x y => Some (x + y)) (fun x y z => z == x + y) 0 0 0); [ring| |exact H].
  intros x y z E. injection E as <-. reflexivity.
Qed.

Lemma add3_ent a b c r p v : add3 a b = Some c -> ent c r p v == ent a r p v + ent b r p v.
Proof.
  intros H. unfold ent.
  apply (zip_with_nth (zip_with add_vec)
           (fun x y z => forall p v, nth v (nth p z []) 0 == nth v (nth p x []) 0 + nth v (nth p y []) 0) [] [] []);
    [| |exact H].
  - intros p' v'. rewrite !nth_nil_l, !nth_nil_Q. ring.
  - intros x y z E p' v'.
    apply (zip_with_nth add_vec (fun x y z => forall v, nth v z 0 == nth v x 0 + nth v y 0) [] [] []); [| |exact E].
    + intros v''. rewrite !nth_nil_Q. ring.
    + intros x' y' z' E'. apply add_vec_nth; exact E'.
Qed.

Definition add_opt (acc o' : option arr3) : option arr3 :=
  match acc, o' with Some a, Some b => add3 a b | _, _ => None end.

Lemma fold_add_none l : fold_left add_opt l None = None.
Proof. induction l as [|o l IH]; [reflexivity | exact IH]. Qed.

Lemma fold_add3_ent r p v : forall (t : list arr3) acc tot,
  fold_left add_opt (map Some t) (Some acc) = Some tot ->
  ent tot r p v == ent acc r p v + qsum (map (fun o => ent o r p v) t).
Proof.
  induction t as [|o t IH]; intros acc tot H; cbn [map fold_left] in H.
  - injection H as <-. cbn [map]. rewrite qsum_nil. ring.
  - cbn [add_opt] in H. destruct (add3 acc o) as [s|] eqn:Es; [|rewrite fold_add_none in H; discriminate].
    rewrite (IH _ _ H). cbn [map]. rewrite qsum_cons. rewrite (add3_ent _ _ _ r p v Es). ring.
Qed.

Lemma total_samples_ent outs tot r p v :
  total_samples (map Some outs) = Some tot -> ent tot r p v == qsum (map (fun o => ent o r p v) outs).
Proof.
  destruct outs as [|o t]; cbn [map total_samples]; [discriminate|].
  intros H. change (fold_left add_opt (map Some t) (Some o) = Some tot) in H.
  rewrite (fold_add3_ent r p v _ _ _ H). rewrite qsum_cons. reflexivity.
Qed.

Lemma qsum_all_zero l : (forall x, In x l -> x == 0) -> qsum l == 0.
Proof.
  induction l as [|x l IH]; intros H; [rewrite qsum_nil; reflexivity|].
  rewrite qsum_cons, IH, (H x (or_introl eq_refl)); [ring|]. intros y Hy. apply H. right; exact Hy.
Qed.

Lemma qsum_one l1 x l2 : (forall y, In y l1 -> y == 0) -> (forall y, In y l2 -> y == 0) -> qsum (l1 ++ x :: l2) == x.
Proof. intros H1 H2. rewrite qsum_app, qsum_cons, (qsum_all_zero l1 H1), (qsum_all_zero l2 H2). ring. Qed.

Theorem total_selects_owner (owner : nat -> bool) order (outs : list arr3) tot r p v :
  length outs = length order ->
  (forall i k o, nth_error order i = Some k -> nth_error outs i = Some o -> owner k = false -> ent o r p v == 0) ->
  (forall i j k k', nth_error order i = Some k -> nth_error order j = Some k' -> i <> j -> owner k = true -> owner k' = false) ->
  total_samples (map Some outs) = Some tot ->
  (forall i k o, nth_error order i = Some k -> nth_error outs i = Some o -> owner k = true -> ent tot r p v == ent o r p v) /\
  ((forall k, In k order -> owner k = false) -> ent tot r p v == 0).
Proof.
  intros Hlen Hz Hu Ht. pose proof (total_samples_ent _ _ r p v Ht) as E. split.
  - intros i k o Hk Ho Hown. rewrite E.
    destruct (nth_error_split _ _ Ho) as [l1 [l2 [-> Hi]]]. rewrite map_app. cbn [map]. apply qsum_one.
    + intros y Hy. apply in_map_iff in Hy as [o' [<- Ho']]. apply In_nth_error in Ho' as [j Hj].
      assert (Hjl : (j < length l1)%nat) by (apply nth_error_Some; congruence).
      assert (Hj' : nth_error (l1 ++ o :: l2) j = Some o') by (rewrite nth_error_app1 by exact Hjl; exact Hj).
      destruct (nth_error order j) as [k'|] eqn:Ek'.
      * apply (Hz j k' o' Ek' Hj'). apply (Hu i j k k' Hk Ek'); [lia | exact Hown].
      * apply nth_error_None in Ek'. rewrite <- Hlen, app_length in Ek'. cbn [length] in Ek'. lia.
    + intros y Hy. apply in_map_iff in Hy as [o' [<- Ho']]. apply In_nth_error in Ho' as [j Hj].
      assert (Hj' : nth_error (l1 ++ o :: l2) (length l1 + S j) = Some o').
      { rewrite nth_error_app2 by lia. replace (length l1 + S j - length l1)%nat with (S j) by lia. exact Hj. }
      destruct (nth_error order (length l1 + S j)) as [k'|] eqn:Ek'.
      * apply (Hz _ k' o' Ek' Hj'). apply (Hu i _ k k' Hk Ek'); [lia | exact Hown].
      * apply nth_error_None in Ek'. rewrite <- Hlen, app_length in Ek'. cbn [length] in Ek'.
        assert ((j < length l2)%nat) by (apply nth_error_Some; congruence). lia.
  - intros Hall. rewrite E. apply qsum_all_zero. intros y Hy. apply in_map_iff in Hy as [o [<- Ho]].
    apply In_nth_error in Ho as [j Hj].
    destruct (nth_error order j) as [k'|] eqn:Ek'.
    + apply (Hz j k' o Ek' Hj). apply Hall. eapply nth_error_In; exact Ek'.
    + apply nth_error_None in Ek'. assert ((j < length outs)%nat) by (apply nth_error_Some; congruence). lia.
Qed.

Lemma generate_ent_zero m sh R P V mask rw out r p v :
  generate m sh R P V mask rw = Some out -> (v < V)%nat -> handled mask v = false -> ent out r p v = 0.
Proof.
  intros G Hv Hh. unfold ent.
  destruct (nth_error out r) as [blk|] eqn:Eb.
  - rewrite (nth_error_nth _ _ _ Eb). destruct (nth_error blk p) as [vec|] eqn:Ev.
    + rewrite (nth_error_nth _ _ _ Ev).
      apply (nth_error_nth _ _ 0). eapply generate_unhandled_zero; eassumption.
    + apply nth_error_None in Ev. rewrite (nth_overflow blk [] Ev). apply nth_nil_Q.
  - apply nth_error_None in Eb. rewrite (nth_overflow out [] Eb), nth_nil_l. apply nth_nil_Q.
Qed.

Lemma Forall2_nth_error {A B} (Pr : A -> B -> Prop) l1 l2 : Forall2 Pr l1 l2 ->
  length l1 = length l2 /\ forall i x, nth_error l1 i = Some x -> exists y, nth_error l2 i = Some y /\ Pr x y.
Proof.
  induction 1 as [|x y l1 l2 Hxy _ [IHl IH]]; [split; [reflexivity | intros [|i] x H; discriminate]|].
  split; [cbn; f_equal; exact IHl|]. intros [|i] x' H'; cbn in H' |- *.
  - injection H' as <-. exists y. split; [reflexivity | exact Hxy].
  - apply IH; exact H'.
Qed.

Lemma Forall2_nth_error_r {A B} (Pr : A -> B -> Prop) l1 l2 : Forall2 Pr l1 l2 ->
  forall i x y, nth_error l1 i = Some x -> nth_error l2 i = Some y -> Pr x y.
Proof.
  intros F i x y Hx Hy. destruct (Forall2_nth_error _ _ _ F) as [_ H]. destruct (H i x Hx) as [y' [Hy' Hp]]. congruence.
Qed.

(* every free variable with a sampler gets exactly that sampler's sample; fixed variables and variables
   without a sampler (-1) are not perturbed.  [cfg k] = (method, shared) of sampler configuration k. *)
Theorem perturbation_sum (cfg : nat -> method * bool) R P V a varmask outs tot r p v :
  mask_len V varmask -> length a = V -> (v < V)%nat ->
  Forall2 (fun k o => exists rw, generate (fst (cfg k)) (snd (cfg k)) R P V (get_mask k (Some a) varmask) rw = Some o)
          (sampler_order (Some a)) outs ->
  total_samples (map Some outs) = Some tot ->
  (forall k, handled varmask v = true -> nth v a (-1)%Z = Z.of_nat k ->
     exists i o, nth_error (sampler_order (Some a)) i = Some k /\ nth_error outs i = Some o /\ ent tot r p v == ent o r p v) /\
  (handled varmask v = false \/ (nth v a (-1) < 0)%Z -> ent tot r p v == 0).
Proof.
  intros Hm Ha Hv F Ht.
  destruct (Forall2_nth_error _ _ _ F) as [Hlen Hnth].
  destruct (total_selects_owner (fun k => handled (get_mask k (Some a) varmask) v) (sampler_order (Some a)) outs tot r p v)
    as [T1 T2]; [symmetry; exact Hlen | | | exact Ht |].
  - intros i k o Hk Ho Hown. destruct (Forall2_nth_error_r _ _ _ F i k o Hk Ho) as [rw G].
    rewrite (generate_ent_zero _ _ _ _ _ _ _ _ r p v G Hv Hown). reflexivity.
  - intros i j k k' Hk Hk' Hij Hown. apply (get_mask_disjoint V k k'); try assumption.
    intros ->. pose proof (sampler_order_NoDup (Some a)) as N.
    apply Hij. eapply (proj1 (NoDup_nth_error _) N); [apply nth_error_Some; congruence | congruence].
  - split.
    + intros k Hh Hk.
      assert (Hin : In k (sampler_order (Some a))).
      { apply sampler_order_In. rewrite <- Hk. apply nth_In. lia. }
      apply In_nth_error in Hin as [i Hi]. destruct (Hnth i k Hi) as [o [Ho _]].
      exists i, o. split; [exact Hi|]. split; [exact Ho|]. apply (T1 i k o Hi Ho).
      rewrite (get_mask_spec V) by (cbn; assumption). rewrite Hh. cbn. rewrite Hk. apply Z.eqb_refl.
    + intros Hcase. apply T2. intros k _. rewrite (get_mask_spec V) by (cbn; assumption).
      destruct Hcase as [->|Hneg]; [reflexivity|]. cbn.
      replace (Z.eqb (nth v a (-1)%Z) (Z.of_nat k)) with false; [apply andb_false_r|].
      symmetry. apply Z.eqb_neq. lia.
Qed.

(* ---- variables + magnitudes * samples ------------------------------------------------------- *)
Lemma map_opt_nth {A B} (f : A -> option B) l res : map_opt f l = Some res ->
  length res = length l /\ forall i a, nth_error l i = Some a -> exists b, nth_error res i = Some b /\ f a = Some b.
Proof.
  revert res; induction l as [|x l IH]; intros res H; cbn [map_opt] in H.
  - injection H as <-. split; [reflexivity | intros [|i] a E; discriminate].
  - destruct (f x) as [y|] eqn:Ey; [|discriminate]. destruct (map_opt f l) as [t|] eqn:Et; [|discriminate].
    injection H as <-. destruct (IH t eq_refl) as [Hl Hn]. split; [cbn; f_equal; exact Hl|].
    intros [|i] a E; cbn in E |- *; [injection E as <-; exists y; split; [reflexivity | exact Ey] | apply Hn; exact E].
Qed.

Lemma perturb_vec_nth x : forall mag vec res, perturb_vec x mag vec = Some res ->
  length res = length x /\ length vec = length x /\
  forall v, nth v res 0 == nth v x 0 + nth v mag 0 * nth v vec 0.
Proof.
  induction x as [|xi x IH]; intros [|mi mag] [|si vec] res H; cbn [perturb_vec] in H; try discriminate.
  - injection H as <-. split; [reflexivity|]. split; [reflexivity|]. intros v. rewrite !nth_nil_Q. ring.
  - destruct (perturb_vec x mag vec) as [t|] eqn:Et; [|discriminate]. injection H as <-.
    destruct (IH _ _ _ Et) as [H1 [H2 H3]]. split; [cbn; f_equal; exact H1|]. split; [cbn; f_equal; exact H2|].
    intros [|v]; cbn [nth]; [reflexivity | apply H3].
Qed.

Theorem perturb_ent x mag samples res r p v blk vec :
  perturb x mag samples = Some res -> nth_error samples r = Some blk -> nth_error blk p = Some vec ->
  ent res r p v == nth v x 0 + nth v mag 0 * ent samples r p v.
Proof.
  intros H Hb Hv. unfold perturb in H. destruct (map_opt_nth _ _ _ H) as [_ Hn].
  destruct (Hn r blk Hb) as [rb [Hrb Eb]]. destruct (map_opt_nth _ _ _ Eb) as [_ Hn'].
  destruct (Hn' p vec Hv) as [rv [Hrv Ev]]. destruct (perturb_vec_nth _ _ _ _ Ev) as [_ [_ Hq]].
  unfold ent. rewrite (nth_error_nth _ _ _ Hrb), (nth_error_nth _ _ _ Hrv), (nth_error_nth _ _ _ Hb), (nth_error_nth _ _ _ Hv).
  apply Hq.
Qed.
