(* Proofs/FiltersCut.v -- C05: soundness of the tie-robust window predicate [window_ok] (Model/Filters.v, evaluated by
   Check/Chk_C05.v on the implementation's vectors) ALSO on a tie group that is cut by a window edge.
   Proofs/FiltersAccept.v shows that the vector of every ranking np.argsort may return is accepted and that an accepted
   vector is right on every tie group not cut by an edge.  Here: every accepted vector IS the vector of some ranking
   consistent with the values -- a ranking is constructed that puts, in every tie group, exactly the members the vector
   selects (plus, where the quota asks for more, members whose configured weight is 0 anyway) on the ranks of the group
   that fall inside the window.  Hence window_ok accepts exactly the vectors _sort_and_select can produce, and on a cut
   tie group the number of selected members is the number of ranks of the group inside the window; which members is free. *)
From Coq Require Import String QArith Qabs Qround Qminmax Bool Arith ZArith List Lia Lqa Permutation Sorted.
From Ropt Require Import Base.Num Base.ListX Gen.Generated Model.Filters Proofs.SortX Proofs.Filters Proofs.FiltersTies Proofs.FiltersAccept Proofs.FiltersOrder.
Import ListNotations.
Local Arguments firstn : simpl never.
Local Arguments skipn : simpl never.

Lemma find_ext_in {A} (f g : A -> bool) l : (forall a, In a l -> f a = g a) -> find f l = find g l.
Proof.
  induction l as [|x t IH]; intros H; [reflexivity|]. cbn [find].
  rewrite (H x (or_introl eq_refl)), IH; [reflexivity|]. intros a Ha. apply H. right; exact Ha.
Qed.

Lemma grp_lo_le_ge values failed r : (grp_lo values failed r <= grp_ge values failed r)%nat.
Proof. unfold grp_lo, grp_ge. apply countb_mono. intros x _ Hx. apply Qltb_lt in Hx. apply Qleb_le. lra. Qed.

Section Cut.
  Variables (values cfgw : list Q) (failed : list bool) (first last : nat) (w : list Q).
  Local Notation S := (successes failed).
  Local Notation sk := (same_key values).
  Local Notation lo := (grp_lo values failed).
  Local Notation ge := (grp_ge values failed).

  Definition wz (s : nat) : bool := Qeqb (nth s w 0%Q) 0%Q.          (* the vector carries 0 at s *)
  Definition cz (s : nat) : bool := Qeqb (nth s cfgw 0%Q) 0%Q.       (* the configured weight of s is 0 *)
  (* a canonical member of the tie group of r *)
  Definition rep (r : nat) : nat := match find (sk r) S with Some s => s | None => r end.
  Definition quo (g : nat) : nat := grp_quota values failed first last g.
  Definition sel (g : nat) : nat := countb (fun s => sk g s && negb (wz s)) S.
  Definition amb (g : nat) : nat := countb (fun s => sk g s && cz s) S.
  (* the members of the group of g put on the ranks inside the window: those with a non-zero entry and, when the quota
     asks for more, the first members (by index) whose configured weight is 0 *)
  Definition ambidx (g r : nat) : nat := countb (fun s => (sk g s && cz s) && Nat.ltb s r) S.
  Definition chosen (g r : nat) : bool := negb (wz r) || (cz r && Nat.ltb (ambidx g r) (quo g - sel g)).
  (* number of ranks of the group below the window *)
  Definition a0 (g : nat) : nat := (Nat.min (Nat.max (lo g) first) (ge g) - lo g)%nat.
  Definition restidx (g r : nat) : nat := countb (fun s => (sk g s && negb (chosen g s)) && Nat.ltb s r) S.
  (* 0: below the window, 1: inside, 2: above *)
  Definition tagG (g r : nat) : nat := if chosen g r then 1%nat else if Nat.ltb (restidx g r) (a0 g) then 0%nat else 2%nat.
  Definition tag (r : nat) : nat := tagG (rep r) r.
  Definition tleb (r s : nat) : bool :=
    Qltb (nth r values 0%Q) (nth s values 0%Q) || (Qeqb (nth r values 0%Q) (nth s values 0%Q) && Nat.leb (tag r) (tag s)).
  Definition cut_order : list nat := isort tleb S.

  (* ---- the order -------------------------------------------------------------------------------------------------- *)
  Lemma tleb_total a b : tleb a b = true \/ tleb b a = true.
  Proof.
    unfold tleb. destruct (Q_dec (nth a values 0%Q) (nth b values 0%Q)) as [[Hlt|Hgt]|Heq].
    - left. apply orb_true_iff. left. apply Qltb_lt. exact Hlt.
    - right. apply orb_true_iff. left. apply Qltb_lt. exact Hgt.
    - destruct (Nat.le_gt_cases (tag a) (tag b)) as [H|H].
      + left. apply orb_true_iff. right. apply andb_true_iff. split; [apply Qeqb_eq; exact Heq | apply Nat.leb_le; exact H].
      + right. apply orb_true_iff. right. apply andb_true_iff. split; [apply Qeqb_eq; lra | apply Nat.leb_le; lia].
  Qed.

  Lemma tleb_trans a b c : tleb a b = true -> tleb b c = true -> tleb a c = true.
  Proof.
    unfold tleb. intros H1 H2. apply orb_true_iff in H1, H2. apply orb_true_iff.
    destruct H1 as [H1|H1], H2 as [H2|H2].
    - left. apply Qltb_lt in H1, H2. apply Qltb_lt. lra.
    - left. apply andb_true_iff in H2 as [H2 _]. apply Qltb_lt in H1. apply Qeqb_eq in H2. apply Qltb_lt. lra.
    - left. apply andb_true_iff in H1 as [H1 _]. apply Qltb_lt in H2. apply Qeqb_eq in H1. apply Qltb_lt. lra.
    - right. apply andb_true_iff in H1 as [H1 H1'], H2 as [H2 H2']. apply Qeqb_eq in H1, H2.
      apply Nat.leb_le in H1', H2'. apply andb_true_iff. split; [apply Qeqb_eq; lra | apply Nat.leb_le; lia].
  Qed.

  Lemma cut_order_perm : Permutation cut_order S.
  Proof. apply isort_perm. Qed.

  Lemma cut_order_sorted : StronglySorted (fun a b => tleb a b = true) cut_order.
  Proof. apply isort_sorted; [apply tleb_total | apply tleb_trans]. Qed.

  Lemma cut_order_valid : valid_order values failed cut_order.
  Proof.
    split; [apply cut_order_perm|]. intros i j Hij.
    pose proof (StronglySorted_nth _ _ 0%nat i j cut_order_sorted Hij) as H.
    unfold tleb in H. apply orb_true_iff in H as [H|H].
    - apply Qltb_lt in H. lra.
    - apply andb_true_iff in H as [H _]. apply Qeqb_eq in H. lra.
  Qed.

  (* ---- tie groups ------------------------------------------------------------------------------------------------- *)
  Lemma sk_refl r : sk r r = true.
  Proof. unfold same_key. apply Qeqb_eq. reflexivity. Qed.

  Lemma sk_val r s : sk r s = true <-> (nth s values 0 == nth r values 0)%Q.
  Proof. unfold same_key. apply Qeqb_eq. Qed.

  Lemma sk_ext r r' : sk r r' = true -> forall s, sk r' s = sk r s.
  Proof.
    intros H s. apply sk_val in H. unfold same_key. apply Qeqb_ext; [reflexivity | exact H].
  Qed.

  Lemma rep_spec r : In r S -> In (rep r) S /\ sk r (rep r) = true.
  Proof.
    intros Hr. unfold rep. destruct (find (sk r) S) as [s|] eqn:E.
    - apply find_some in E. exact E.
    - split; [exact Hr | apply sk_refl].
  Qed.

  Lemma rep_eq x y : In x S -> sk x y = true -> rep y = rep x.
  Proof.
    intros Hx Hxy. unfold rep.
    rewrite (find_ext_in (sk y) (sk x) S) by (intros a _; apply sk_ext; exact Hxy).
    destruct (find (sk x) S) as [s|] eqn:E; [reflexivity|].
    pose proof (find_none _ _ E x Hx) as Hn. rewrite sk_refl in Hn. discriminate.
  Qed.

  (* ---- what acceptance says ---------------------------------------------------------------------------------------- *)
  Hypothesis Hok : window_ok values cfgw failed first last w = true.

  Lemma ok_len : length w = length failed.
  Proof. unfold window_ok in Hok. apply andb_true_iff in Hok as [H _]. apply Nat.eqb_eq. exact H. Qed.

  Lemma ok_failed r : nth r failed true = true -> (nth r w 0 == 0)%Q.
  Proof.
    intros Hf. destruct (Nat.lt_ge_cases r (length failed)) as [Hr|Hr].
    - unfold window_ok in Hok. apply andb_true_iff in Hok as [_ H].
      assert (Hin : In r (seq 0 (length failed))) by (apply in_seq; lia).
      pose proof (proj1 (forallb_forall _ _) H r Hin) as Hr'. cbv beta in Hr'. rewrite Hf in Hr'. apply Qeqb_eq. exact Hr'.
    - rewrite nth_overflow by (rewrite ok_len; exact Hr). reflexivity.
  Qed.

  Lemma ok_clause r : In r S ->
    ((nth r w 0 == nth r cfgw 0)%Q \/ (nth r w 0 == 0)%Q) /\ (sel r <= quo r <= sel r + amb r)%nat.
  Proof.
    intros Hr. apply successes_In in Hr as [Hr Hf].
    unfold window_ok in Hok. apply andb_true_iff in Hok as [_ H].
    assert (Hin : In r (seq 0 (length failed))) by (apply in_seq; lia).
    pose proof (proj1 (forallb_forall _ _) H r Hin) as Hr'. cbv beta zeta in Hr'. rewrite Hf in Hr'.
    apply andb_true_iff in Hr' as [H1 H2]. apply andb_true_iff in H2 as [H2 H3].
    apply Nat.leb_le in H2. apply Nat.leb_le in H3. split.
    - apply orb_true_iff in H1 as [E|E]; [left | right]; apply Qeqb_eq; exact E.
    - unfold sel, amb, quo, wz, cz. split; assumption.
  Qed.

  Lemma cz_wz s : In s S -> cz s = true -> wz s = true.
  Proof.
    intros Hs Hc. unfold cz, wz in *. apply Qeqb_eq in Hc. apply Qeqb_eq.
    destruct (proj1 (ok_clause s Hs)) as [E|E]; rewrite E; [exact Hc | reflexivity].
  Qed.

  (* ---- how many members of a group get which tag -------------------------------------------------------------------- *)
  Lemma chosen_count g : In g S -> countb (fun s => sk g s && chosen g s) S = quo g.
  Proof.
    intros Hg. destruct (ok_clause g Hg) as [_ [Hq1 Hq2]].
    rewrite (countb_ext _ (fun s => (sk g s && negb (wz s)) || ((sk g s && cz s) && Nat.ltb (ambidx g s) (quo g - sel g)))).
    2:{ intros s _. unfold chosen. destruct (sk g s), (negb (wz s)), (cz s); reflexivity. }
    rewrite countb_or_disjoint.
    2:{ intros s Hs HP. apply andb_true_iff in HP as [_ HP]. apply negb_true_iff in HP.
        destruct (cz s) eqn:Ec; [|rewrite andb_false_r; reflexivity].
        rewrite (cz_wz s Hs Ec) in HP. discriminate. }
    pose proof (countb_first_j (fun s => sk g s && cz s) S (quo g - sel g) (successes_ascending failed) 0%nat) as F.
    cbn [Nat.add] in F. unfold ambidx. rewrite F. fold (sel g). fold (amb g). lia.
  Qed.

  Lemma rest_count g : In g S -> countb (fun s => sk g s && negb (chosen g s)) S = (ge g - lo g - quo g)%nat.
  Proof.
    intros Hg. pose proof (countb_split (sk g) (chosen g) S) as Hs.
    rewrite (chosen_count g Hg), group_size in Hs. lia.
  Qed.

  Lemma quota_room g : (a0 g + quo g <= ge g - lo g)%nat.
  Proof. pose proof (grp_lo_le_ge values failed g). unfold a0, quo, grp_quota, overlap. lia. Qed.

  Lemma below_count g : In g S ->
    countb (fun s => (sk g s && negb (chosen g s)) && Nat.ltb (restidx g s) (a0 g)) S = a0 g.
  Proof.
    intros Hg.
    pose proof (countb_first_j (fun s => sk g s && negb (chosen g s)) S (a0 g) (successes_ascending failed) 0%nat) as F.
    cbn [Nat.add] in F. unfold restidx. rewrite F, (rest_count g Hg). pose proof (quota_room g). lia.
  Qed.

  (* ---- the rank of a member of the constructed ranking ------------------------------------------------------------- *)
  Lemma tag_in_group g y : In g S -> sk g y = true -> tag y = tagG (rep g) y.
  Proof. intros Hg Hy. unfold tag. rewrite (rep_eq g y Hg Hy). reflexivity. Qed.

  Lemma cut_order_position k : (k < length cut_order)%nat ->
    in_win first last k = chosen (rep (nth k cut_order 0%nat)) (nth k cut_order 0%nat).
  Proof.
    intros Hk. set (x := nth k cut_order 0%nat).
    assert (Hx : In x S) by (apply (Permutation_in _ cut_order_perm); apply nth_In; exact Hk).
    destruct (rep_spec x Hx) as [Hg Hxg]. set (g := rep x) in *.
    assert (Hrg : rep g = g) by (unfold g; apply (rep_eq x (rep x) Hx Hxg)).
    assert (Hvg : (nth g values 0 == nth x values 0)%Q) by (apply sk_val; exact Hxg).
    assert (Hgx : sk g x = true) by (apply sk_val; lra).
    (* the rank lies among the ranks of the group *)
    pose proof (position_bounds values failed cut_order k cut_order_valid Hk) as PB. fold x in PB.
    rewrite (grp_lo_ext values failed g x), (grp_ge_ext values failed g x) in PB by lra.
    (* ... and is bracketed by the number of members that sort before x / not after x *)
    pose proof (sorted_position_bounds tleb tleb_total cut_order k 0%nat cut_order_sorted Hk) as B.
    fold x in B. rewrite !(countb_perm _ _ _ cut_order_perm) in B. destruct B as [B1 B2].
    assert (Etag : forall y, In y S -> sk g y = true -> tag y = tagG g y).
    { intros y _ Hy. rewrite (tag_in_group g y Hg Hy), Hrg. reflexivity. }
    assert (Etx : tag x = tagG g x) by (apply Etag; assumption).
    (* facts about one member y *)
    assert (F1 : forall y, Qltb (nth y values 0%Q) (nth x values 0%Q) = true -> negb (tleb x y) = true /\ sk g y = false).
    { intros y Hy. apply Qltb_lt in Hy. split.
      - apply negb_true_iff. unfold tleb. apply orb_false_iff. split; [apply Qltb_nlt; lra|].
        apply andb_false_iff. left. apply Qeqb_neq. lra.
      - unfold same_key. apply Qeqb_neq. lra. }
    assert (F3 : forall y, In y S -> sk g y = true -> (tagG g y < tagG g x)%nat -> negb (tleb x y) = true).
    { intros y Hy Hs Hlt. apply sk_val in Hs. apply negb_true_iff. unfold tleb. apply orb_false_iff.
      split; [apply Qltb_nlt; lra|]. apply andb_false_iff. right.
      rewrite Etx, (Etag y Hy) by (apply sk_val; exact Hs). apply Nat.leb_gt. exact Hlt. }
    assert (F4 : forall y, In y S -> tleb y x = true ->
                 Qltb (nth y values 0%Q) (nth x values 0%Q) = true \/ (sk g y = true /\ (tagG g y <= tagG g x)%nat)).
    { intros y Hy H. unfold tleb in H. apply orb_true_iff in H as [H|H]; [left; exact H | right].
      apply andb_true_iff in H as [H1 H2]. apply Qeqb_eq in H1. apply Nat.leb_le in H2.
      assert (Hs : sk g y = true) by (apply sk_val; lra).
      split; [exact Hs|]. rewrite Etx, (Etag y Hy Hs) in H2. exact H2. }
    pose proof (below_count g Hg) as C0. pose proof (chosen_count g Hg) as C1.
    pose proof (grp_lo_le_ge values failed g) as Hlg.
    assert (Elo : countb (fun s => Qltb (nth s values 0%Q) (nth x values 0%Q)) S = lo g).
    { rewrite <- (grp_lo_ext values failed g x) by lra. reflexivity. }
    set (P0 := fun s => (sk g s && negb (chosen g s)) && Nat.ltb (restidx g s) (a0 g)) in *.
    set (P1 := fun s => sk g s && chosen g s) in *.
    set (PL := fun s => Qltb (nth s values 0%Q) (nth x values 0%Q)) in *.
    assert (T0 : forall y, P0 y = true -> sk g y = true /\ tagG g y = 0%nat /\ P1 y = false).
    { intros y H. unfold P0 in H. apply andb_true_iff in H as [H H2]. apply andb_true_iff in H as [H0 H1].
      apply negb_true_iff in H1. unfold tagG, P1. rewrite H1, H2, H0. repeat split; reflexivity. }
    assert (T1 : forall y, P1 y = true -> sk g y = true /\ tagG g y = 1%nat).
    { intros y H. unfold P1 in H. apply andb_true_iff in H as [H0 H1]. unfold tagG. rewrite H1. split; [exact H0 | reflexivity]. }
    unfold in_win.
    destruct (chosen g x) eqn:Ech.
    - (* x is put inside the window *)
      assert (Tx : tagG g x = 1%nat) by (unfold tagG; rewrite Ech; reflexivity).
      assert (L : (lo g + a0 g <= k)%nat).
      { rewrite <- Elo, <- C0. etransitivity; [|exact B1].
        apply (countb_disjoint2 (fun y => negb (tleb x y)) PL P0). intros y Hy. split.
        - intros H. destruct (F1 y H) as [HG Hn]. split; [exact HG|].
          destruct (P0 y) eqn:E0; [|reflexivity]. destruct (T0 y E0) as [Hs _]. congruence.
        - intros H. destruct (T0 y H) as [Hs [Ht _]]. apply (F3 y Hy Hs). lia. }
      assert (U : (k < lo g + a0 g + quo g)%nat).
      { rewrite <- Elo, <- C0, <- C1. eapply Nat.lt_le_trans; [exact B2|].
        etransitivity; [apply (countb_union _ PL (fun y => P0 y || P1 y))|].
        - intros y Hy H. destruct (F4 y Hy H) as [H'|[Hs Ht]]; [left; exact H' | right].
          rewrite Tx in Ht. unfold P0, P1. rewrite Hs. cbn [andb]. unfold tagG in Ht.
          destruct (chosen g y); [apply orb_true_r|]. cbn [negb andb orb].
          destruct (Nat.ltb (restidx g y) (a0 g)); [reflexivity | lia].
        - rewrite <- Nat.add_assoc. apply Nat.add_le_mono_l.
          apply countb_union. intros y _ H. apply orb_true_iff in H. exact H. }
      unfold a0, quo, grp_quota, overlap in *.
      destruct (Nat.leb_spec first k); destruct (Nat.leb_spec k last); cbn [andb]; try reflexivity; lia.
    - destruct (Nat.ltb (restidx g x) (a0 g)) eqn:Er.
      + (* x is put below the window *)
        assert (Tx : tagG g x = 0%nat) by (unfold tagG; rewrite Ech, Er; reflexivity).
        assert (U : (k < lo g + a0 g)%nat).
        { rewrite <- Elo, <- C0. eapply Nat.lt_le_trans; [exact B2|].
          apply countb_union. intros y Hy H. destruct (F4 y Hy H) as [H'|[Hs Ht]]; [left; exact H' | right].
          rewrite Tx in Ht. unfold P0. rewrite Hs. cbn [andb]. unfold tagG in Ht.
          destruct (chosen g y); [lia|]. cbn [negb].
          destruct (Nat.ltb (restidx g y) (a0 g)); [reflexivity | lia]. }
        unfold a0 in *.
        destruct (Nat.leb_spec first k); destruct (Nat.leb_spec k last); cbn [andb]; try reflexivity; lia.
      + (* x is put above the window *)
        assert (Tx : tagG g x = 2%nat) by (unfold tagG; rewrite Ech, Er; reflexivity).
        assert (L : (lo g + a0 g + quo g <= k)%nat).
        { rewrite <- Elo, <- C0, <- C1. etransitivity; [|exact B1].
          apply (countb_disjoint3 (fun y => negb (tleb x y)) PL P0 P1). intros y Hy. split; [|split].
          - intros H. destruct (F1 y H) as [HG Hn]. split; [exact HG|]. split.
            + destruct (P0 y) eqn:E0; [|reflexivity]. destruct (T0 y E0) as [Hs _]. congruence.
            + destruct (P1 y) eqn:E1; [|reflexivity]. destruct (T1 y E1) as [Hs _]. congruence.
          - intros H. destruct (T0 y H) as [Hs [Ht Hn1]]. split; [apply (F3 y Hy Hs); lia | exact Hn1].
          - intros H. destruct (T1 y H) as [Hs Ht]. apply (F3 y Hy Hs). lia. }
        unfold a0, quo, grp_quota, overlap in *.
        destruct (Nat.leb_spec first k); destruct (Nat.leb_spec k last); cbn [andb]; try reflexivity; lia.
  Qed.

  (* ---- the accepted vector is the vector of the constructed ranking ------------------------------------------------ *)
  Hypothesis HC : length cfgw = length failed.

  Lemma cut_order_realizes r : (nth r w 0 == nth r (select_along cut_order cfgw first last) 0)%Q.
  Proof.
    pose proof cut_order_valid as Hv. pose proof (valid_order_NoDup _ _ _ Hv) as ND.
    assert (HR : forall i, In i cut_order -> (i < length cfgw)%nat).
    { intros i Hi. apply (valid_order_In _ _ _ i Hv) in Hi. lia. }
    destruct (in_dec Nat.eq_dec r cut_order) as [Hin|Hout].
    - assert (Hr : In r S) by (apply (Permutation_in _ cut_order_perm); exact Hin).
      apply (In_nth _ _ 0%nat) in Hin as [k [Hk E]].
      rewrite <- E at 2. rewrite (select_along_position cut_order cfgw first last k ND HR Hk).
      rewrite (cut_order_position k Hk), E. unfold chosen.
      destruct (proj1 (ok_clause r Hr)) as [Ew|Ew].
      + destruct (wz r) eqn:Ez; cbn [negb orb].
        * unfold wz in Ez. apply Qeqb_eq in Ez.
          destruct (cz r && _); [exact Ew | exact Ez].
        * exact Ew.
      + assert (Ez : wz r = true) by (unfold wz; apply Qeqb_eq; exact Ew). rewrite Ez. cbn [negb orb].
        destruct (cz r) eqn:Ec; cbn [andb]; [|exact Ew].
        unfold cz in Ec. apply Qeqb_eq in Ec. destruct (Nat.ltb _ _); [rewrite Ew, Ec; reflexivity | exact Ew].
    - rewrite select_along_out by (intro Hw; apply Hout; apply window_incl in Hw; exact Hw).
      apply ok_failed. destruct (nth r failed true) eqn:Hf; [reflexivity|]. exfalso. apply Hout.
      apply (valid_order_In _ _ _ r Hv). split; [|exact Hf].
      destruct (Nat.lt_ge_cases r (length failed)) as [H|H]; [exact H|].
      rewrite nth_overflow in Hf by exact H. discriminate.
  Qed.
End Cut.

(* every accepted vector is, entry by entry, the vector _sort_and_select builds along some ranking of the successful
   realizations with non-decreasing values *)
Theorem window_ok_realizable values cfgw failed first last w :
  length cfgw = length failed -> window_ok values cfgw failed first last w = true ->
  length w = length failed /\
  exists idx, valid_order values failed idx /\
    forall r, (nth r w 0 == nth r (select_along idx cfgw first last) 0)%Q.
Proof.
  intros HC Hok. split; [apply (ok_len values cfgw failed first last w Hok)|].
  exists (cut_order values cfgw failed first last w). split; [apply cut_order_valid|].
  intros r. apply cut_order_realizes; assumption.
Qed.

(* acceptance depends on the vector only through its length and the rational values of its entries *)
Lemma window_ok_ext values cfgw failed first last w w' :
  length w = length w' -> (forall r, (nth r w 0 == nth r w' 0)%Q) ->
  window_ok values cfgw failed first last w = true -> window_ok values cfgw failed first last w' = true.
Proof.
  intros HL He H. unfold window_ok in *. apply andb_true_iff in H as [H1 H2]. apply andb_true_iff.
  split; [rewrite <- HL; exact H1|].
  apply forallb_forall. intros r Hr. pose proof (proj1 (forallb_forall _ _) H2 r Hr) as Hc. cbv beta zeta in Hc |- *.
  assert (E0 : forall s, Qeqb (nth s w' 0%Q) 0%Q = Qeqb (nth s w 0%Q) 0%Q).
  { intros s. apply Qeqb_ext; [symmetry; apply He | reflexivity]. }
  assert (E1 : Qeqb (nth r w' 0%Q) (nth r cfgw 0%Q) = Qeqb (nth r w 0%Q) (nth r cfgw 0%Q)).
  { apply Qeqb_ext; [symmetry; apply He | reflexivity]. }
  rewrite E0, E1.
  rewrite (countb_ext (fun s => same_key values r s && negb (Qeqb (nth s w' 0%Q) 0%Q))
                      (fun s => same_key values r s && negb (Qeqb (nth s w 0%Q) 0%Q))) by (intros s _; rewrite E0; reflexivity).
  exact Hc.
Qed.

Lemma select_along_length idx cfgw first last : length (select_along idx cfgw first last) = length cfgw.
Proof. unfold select_along. rewrite assign_length. unfold zeros. apply repeat_length. Qed.

(* window_ok accepts EXACTLY the vectors _sort_and_select can produce (up to the representation of the rationals) *)
Theorem window_ok_iff values cfgw failed first last w :
  length cfgw = length failed ->
  (window_ok values cfgw failed first last w = true <->
   length w = length failed /\
   exists idx, valid_order values failed idx /\
     forall r, (nth r w 0 == nth r (select_along idx cfgw first last) 0)%Q).
Proof.
  intros HC. split; [apply window_ok_realizable; exact HC|].
  intros [HL [idx [Hv He]]].
  apply (window_ok_ext values cfgw failed first last (select_along idx cfgw first last) w).
  - rewrite select_along_length. lia.
  - intros r. symmetry. apply He.
  - apply window_ok_complete; assumption.
Qed.

(* on ANY tie group (cut by a window edge or not): the number of members carrying a non-zero entry is the number of ranks
   of the group that fall inside the window -- exactly when no member has configured weight 0, and otherwise up to the
   members whose configured weight is 0 (selected or not, they carry 0) *)
Theorem window_ok_group_count values cfgw failed first last w r :
  window_ok values cfgw failed first last w = true -> succeeded failed r = true ->
  let nsel := countb (fun s => same_key values r s && negb (Qeqb (nth s w 0%Q) 0%Q)) (successes failed) in
  let nzero := countb (fun s => same_key values r s && Qeqb (nth s cfgw 0%Q) 0%Q) (successes failed) in
  let quota := (Nat.min (grp_ge values failed r) (last + 1) - Nat.max (grp_lo values failed r) first)%nat in
  (nsel <= quota <= nsel + nzero)%nat /\ (nzero = 0%nat -> nsel = quota).
Proof.
  intros Hok Hs nsel nzero quota.
  assert (Hr : In r (successes failed)) by (apply successes_In; apply succeeded_lt; exact Hs).
  destruct (ok_clause values cfgw failed first last w Hok r Hr) as [_ H].
  unfold sel, amb, quo, wz, cz, grp_quota, overlap in H. fold nsel nzero quota in H. split; [exact H | lia].
Qed.
