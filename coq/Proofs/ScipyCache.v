(* Proofs/ScipyCache.v -- lemmas about Model/ScipyCache.v (C07). *)
From Coq Require Import QArith List Bool Arith String Lia.
From Ropt Require Import Base.Num Base.ListX Gen.Generated Model.ScipyProblem Model.ScipyCache.
Import ListNotations.
Local Open Scope nat_scope.

(* ---- point equality --------------------------------------------------------------------------- *)
Lemma nat_list_eqb_iff (a b : list nat) : list_eqb Nat.eqb a b = true <-> a = b.
Proof.
  split.
  - apply list_eqb_eq. intros x y H. apply Nat.eqb_eq. exact H.
  - intros ->. apply list_eqb_refl. intros x. apply Nat.eqb_refl.
Qed.

Lemma pt_eqb_iff (a b : pt) : pt_eqb a b = true <-> a = b.
Proof.
  destruct a as [i|l], b as [j|m]; cbn.
  - rewrite Nat.eqb_eq. split; [intros ->; reflexivity | intros H; injection H; auto].
  - split; discriminate.
  - split; discriminate.
  - rewrite nat_list_eqb_iff. split; [intros ->; reflexivity | intros H; injection H; auto].
Qed.
Lemma pt_eqb_refl (a : pt) : pt_eqb a a = true.
Proof. apply pt_eqb_iff. reflexivity. Qed.
Lemma pt_eqb_neq (a b : pt) : a <> b -> pt_eqb a b = false.
Proof. intros H. destruct (pt_eqb a b) eqn:E; [apply pt_eqb_iff in E; contradiction | reflexivity]. Qed.

Lemma invalidate_cases x s :
  (cx s = Some x /\ invalidate x s = s) \/ (cx s <> Some x /\ invalidate x s = empty).
Proof.
  unfold invalidate. destruct (cx s) as [y|] eqn:E.
  - destruct (pt_eqb x y) eqn:Ep.
    + apply pt_eqb_iff in Ep. subst y. left. split; reflexivity.
    + right. split; [|reflexivity]. intros H. injection H as ->. rewrite pt_eqb_refl in Ep. discriminate.
  - right. split; [discriminate | reflexivity].
Qed.
Lemma invalidate_same x s : cx s = Some x -> invalidate x s = s.
Proof. intros H. unfold invalidate. rewrite H, pt_eqb_refl. reflexivity. Qed.
Lemma invalidate_other x y s : cx s = Some y -> x <> y -> invalidate x s = empty.
Proof. intros H N. unfold invalidate. rewrite H, (pt_eqb_neq _ _ N). reflexivity. Qed.
Lemma invalidate_empty x : invalidate x empty = empty.
Proof. reflexivity. Qed.

Ltac splits := repeat match goal with |- _ /\ _ => split end.

Section Proofs.
  Variable Fp : nat -> fval.
  Variable Gp : nat -> gval.
  Variable Xp : nat -> list Q.
  Variable c : config.

  Notation Fm := (Fm Fp).
  Notation fetch := (fetch Fp Gp c).
  Notation fetch_batch := (fetch_batch Fp c).
  Notation step := (step Fp Gp Xp c).
  Notation run := (run Fp Gp Xp c).
  Notation expected := (expected Fp Gp Xp c).
  Notation raw_con := (raw_con Xp c).
  Notation raw_jac := (raw_jac c).

  Definition norm_con (i : nat) : option mat := norm_values (c_rows c) (raw_con (Fp i) i).
  Definition norm_jacs (i : nat) : option mat := norm_jac (c_rows c) (raw_jac (Gp i)).

  (* every non-empty cache field holds the oracle value at the cached point *)
  Definition Inv (s : st) : Prop :=
    forall x, cx s = Some x ->
      (forall v, cf s = Some v -> v = Fm x) /\
      (forall v, cg s = Some v -> exists i, x = Single i /\ v = Gp i /\ c_nograd c = false) /\
      (forall w, nc s = Some w -> exists i, x = Single i /\ Some w = norm_con i) /\
      (forall w, nj s = Some w -> exists i, x = Single i /\ Some w = norm_jacs i /\
                                            c_has_nl c && c_nograd c = false).

  Lemma Inv_empty : Inv empty.
  Proof. intros x H. discriminate. Qed.

  Lemma Inv_invalidate x s : Inv s -> Inv (invalidate x s).
  Proof. intros H. destruct (invalidate_cases x s) as [[_ ->]|[_ ->]]; [exact H | apply Inv_empty]. Qed.

  (* facts about the state after _check_cached_variables *)
  Lemma inv_fields x s : Inv s ->
    let s0 := invalidate x s in
    (forall v, cf s0 = Some v -> v = Fm x) /\
    (forall v, cg s0 = Some v -> exists i, x = Single i /\ v = Gp i /\ c_nograd c = false) /\
    (forall w, nc s0 = Some w -> exists i, x = Single i /\ Some w = norm_con i) /\
    (forall w, nj s0 = Some w -> exists i, x = Single i /\ Some w = norm_jacs i /\
                                           c_has_nl c && c_nograd c = false) /\
    (cx s0 = Some x \/ s0 = empty).
  Proof.
    intros HI. cbn zeta. destruct (invalidate_cases x s) as [[Hc ->]|[_ ->]].
    - destruct (HI x Hc) as (A & B & C & D). repeat split; auto.
    - repeat split; try (cbn; intros; discriminate). right; reflexivity.
  Qed.

  Lemma compute_calls_facts x a b :
    (forall iv, In iv (compute_calls c x a b) -> pt_of iv = x) /\
    (b = false -> forall iv, In iv (compute_calls c x a b) -> rg_of iv = false) /\
    (c_split c = true -> forall iv, In iv (compute_calls c x a b) -> rf_of iv && rg_of iv = false).
  Proof.
    unfold compute_calls. destruct a, b, (c_split c); cbn; repeat split; intros;
      repeat match goal with H : _ \/ _ |- _ => destruct H | H : False |- _ => contradiction end;
      subst; cbn; try reflexivity; try discriminate.
  Qed.

  (* ---- fetch ---------------------------------------------------------------------------------- *)
  Lemma fetch_spec s i gf gg : Inv s ->
    let '(s1, calls, f, g) := fetch s i gf gg in
    Inv s1 /\
    (gf = true -> f = Some [Fp i]) /\
    (gg = true -> g = if c_nograd c then None else Some (Gp i)) /\
    (cx s1 = Some (Single i) \/ s1 = empty) /\
    nc s1 = nc (invalidate (Single i) s) /\ nj s1 = nj (invalidate (Single i) s) /\
    (forall iv, In iv calls -> pt_of iv = Single i) /\
    (c_nograd c = true -> forall iv, In iv calls -> rg_of iv = false) /\
    (c_split c = true -> forall iv, In iv calls -> rf_of iv && rg_of iv = false).
  Proof.
    intros HI. unfold ScipyCache.fetch.
    pose proof (inv_fields (Single i) s HI) as H0. cbn zeta in H0.
    set (s0 := invalidate (Single i) s) in *.
    destruct H0 as (Hcf & Hcg & Hnc & Hnj & Hx).
    assert (Ecf : forall v, cf s0 = Some v -> v = [Fp i]) by (intros v Hv; rewrite (Hcf v Hv); reflexivity).
    assert (Ecg : forall v, cg s0 = Some v -> v = Gp i /\ c_nograd c = false).
    { intros v Hv. destruct (Hcg v Hv) as (j & Ej & -> & Hn). injection Ej as <-. split; auto. }
    assert (HInv1 : forall a b : bool, (b = true -> c_nograd c = false) ->
      Inv {| cx := Some (Single i);
             cf := if a then Some (Fm (Single i)) else cf s0;
             cg := if b then Some (Gp i) else cg s0;
             nc := nc s0; nj := nj s0 |}).
    { intros a b Hb x Hx'. cbn in Hx'. injection Hx' as <-. cbn. splits.
      - intros v Hv. destruct a; [injection Hv as <-; reflexivity | apply Hcf; exact Hv].
      - intros v Hv. destruct b.
        + injection Hv as <-. exists i. splits; auto.
        + destruct (Ecg v Hv) as [-> Hn]. exists i. splits; auto.
      - exact Hnc.
      - exact Hnj. }
    assert (HI0 : Inv s0) by (subst s0; apply Inv_invalidate; exact HI).
    destruct (c_nograd c) eqn:En; cbn [negb andb].
    - (* gradient-free: get_gradient forced off, speculative off *)
      rewrite !andb_false_r. cbn [orb].
      destruct gf; cbn [andb].
      + destruct (cf s0) as [v|] eqn:Ef; cbn [is_none orb andb].
        * rewrite (Ecf v eq_refl). splits; auto; try (intros; contradiction);
            try (intros _; destruct gg; reflexivity).
        * pose proof (HInv1 true false ltac:(discriminate)) as HI1.
          rewrite ?Ef in HI1. cbn in HI1.
          pose proof (compute_calls_facts (Single i) true false) as (P1 & P2 & P3).
          splits; auto; try (intros _; destruct gg; reflexivity); try (intros _; apply P2; reflexivity).
      + cbn. splits; auto; try (intros; contradiction); try discriminate;
          try (intros _; destruct gg; reflexivity).
    - (* gradient-based *)
      rewrite !andb_true_r.
      destruct gf, gg, (cf s0) as [vf|] eqn:Ef, (cg s0) as [vg|] eqn:Eg, (c_spec c) eqn:Es;
        cbn [is_none andb orb negb];
        try (pose proof (Ecf vf eq_refl); subst vf); try (pose proof (proj1 (Ecg vg eq_refl)); subst vg);
        match goal with
        | |- context [compute_calls c ?x ?a ?b] =>
            pose proof (compute_calls_facts x a b) as (P1 & P2 & P3);
            pose proof (HInv1 a b ltac:(intros _; reflexivity)) as HI1;
            rewrite ?Ef, ?Eg in HI1; cbn in HI1
        | _ => idtac
        end;
        splits; auto; try discriminate; try (intros; contradiction);
        try exact HI1; try exact P1; try exact P3.
  Qed.

  Lemma fetch_batch_spec s l : Inv s -> c_nograd c = true ->
    let '(s1, calls, f) := fetch_batch s l in
    Inv s1 /\ f = Some (Fm (Batch l)) /\
    (forall iv, In iv calls -> pt_of iv = Batch l /\ rg_of iv = false).
  Proof.
    intros HI Hn. unfold ScipyCache.fetch_batch.
    pose proof (inv_fields (Batch l) s HI) as H0. cbn zeta in H0.
    set (s0 := invalidate (Batch l) s) in *.
    destruct H0 as (Hcf & Hcg & Hnc & Hnj & Hx).
    destruct (cf s0) as [v|] eqn:Ef.
    - rewrite (Hcf v eq_refl). splits; try (intros; contradiction); try reflexivity.
      subst s0. apply Inv_invalidate. exact HI.
    - split; [|split; [reflexivity|]].
      + intros x Hx'. cbn in Hx'. injection Hx' as <-. cbn. splits.
        * intros v Hv. injection Hv as <-. reflexivity.
        * exact Hcg.
        * exact Hnc.
        * exact Hnj.
      + intros iv H. unfold compute_calls in H. cbn in H. destruct H as [<-|[]]. split; reflexivity.
  Qed.

  Lemma Inv_set_nc s i : Inv s -> (cx s = Some (Single i) \/ s = empty) -> Inv (set_nc s (norm_con i)).
  Proof.
    intros HI Hx x Hcx. cbn in Hcx. destruct Hx as [Hx| ->]; [|discriminate].
    rewrite Hx in Hcx. injection Hcx as <-. destruct (HI _ Hx) as (A & B & C & D). cbn.
    splits; auto. intros w Hw. exists i. split; [reflexivity | symmetry; exact Hw].
  Qed.
  Lemma Inv_set_nj s i : Inv s -> (cx s = Some (Single i) \/ s = empty) ->
    c_has_nl c && c_nograd c = false -> Inv (set_nj s (norm_jacs i)).
  Proof.
    intros HI Hx Hn x Hcx. cbn in Hcx. destruct Hx as [Hx| ->]; [|discriminate].
    rewrite Hx in Hcx. injection Hcx as <-. destruct (HI _ Hx) as (A & B & C & D). cbn.
    splits; auto. intros w Hw. exists i. splits; auto.
  Qed.

  (* ---- one request ---------------------------------------------------------------------------- *)
  Definition good_calls (o : op) (calls : list inv) : Prop :=
    (forall iv, In iv calls -> pt_of iv = op_pt o) /\
    (c_nograd c = true -> forall iv, In iv calls -> rg_of iv = false) /\
    (c_split c = true -> forall iv, In iv calls -> rf_of iv && rg_of iv = false).

  Lemma good_calls_nil o : good_calls o [].
  Proof. unfold good_calls. splits; intros; cbn in *; contradiction. Qed.

  Ltac fin := splits; auto; try reflexivity; try (intros; cbn in *; contradiction).

  Lemma step_spec s o : Inv s ->
    let '(s1, calls, r) := step s o in Inv s1 /\ r = expected o /\ good_calls o calls.
  Proof.
    intros HI. unfold good_calls.
    destruct o as [x|x|k x|k x|x|x]; destruct x as [i|l]; cbn [ScipyCache.step ScipyCache.expected op_pt].
    - (* Obj single *)
      pose proof (fetch_spec s i true false HI) as H. destruct (fetch s i true false) as [[[s1 calls] f] g].
      destruct H as (H1 & H2 & _ & _ & _ & _ & H7 & H8 & H9). rewrite (H2 eq_refl). fin.
    - (* Obj batch *)
      destruct (c_nograd c) eqn:En; cbn [negb]; [|fin].
      destruct l as [|j l]; [fin|].
      pose proof (fetch_batch_spec s (j :: l) HI En) as H. destruct (fetch_batch s (j :: l)) as [[s1 calls] f].
      destruct H as (H1 & -> & H3). split; [exact H1|]. split.
      + unfold ScipyCache.Fm. rewrite map_map. reflexivity.
      + splits; intros; try (apply H3; assumption).
        match goal with Hin : In _ calls |- _ => destruct (H3 _ Hin) as [_ E] end.
        unfold rg_of in E. unfold rg_of. rewrite E. apply andb_false_r.
    - (* Grad single *)
      pose proof (fetch_spec s i false true HI) as H. destruct (fetch s i false true) as [[[s1 calls] f] g].
      destruct H as (H1 & _ & H3 & _ & _ & _ & H7 & H8 & H9). rewrite (H3 eq_refl).
      destruct (c_nograd c); fin.
    - fin.
    - (* Con single *)
      pose proof (inv_fields (Single i) s HI) as H0. cbn zeta in H0.
      set (s0 := invalidate (Single i) s) in *. destruct H0 as (Hcf & Hcg & Hnc & Hnj & Hx).
      assert (HI0 : Inv s0) by (subst s0; apply Inv_invalidate; exact HI).
      destruct (nc s0) as [w|] eqn:En.
      + destruct (Hnc w eq_refl) as (j & Ej & Ew). injection Ej as <-. fold (norm_con i). rewrite <- Ew. fin.
      + destruct (c_has_nl c) eqn:Enl.
        * pose proof (fetch_spec s0 i true false HI0) as H. destruct (fetch s0 i true false) as [[[s1 calls] f] g].
          destruct H as (H1 & H2 & _ & H4 & _ & _ & H7 & H8 & H9). rewrite (H2 eq_refl).
          fold (norm_con i). split; [apply Inv_set_nc; auto|]. fin.
        * fold (norm_con i). split; [apply Inv_set_nc; auto|]. fin.
    - fin.
    - (* Jac single *)
      pose proof (inv_fields (Single i) s HI) as H0. cbn zeta in H0.
      set (s0 := invalidate (Single i) s) in *. destruct H0 as (Hcf & Hcg & Hnc & Hnj & Hx).
      assert (HI0 : Inv s0) by (subst s0; apply Inv_invalidate; exact HI).
      destruct (nj s0) as [w|] eqn:En.
      + destruct (Hnj w eq_refl) as (j & Ej & Ew & Hn). injection Ej as <-. rewrite Hn. fold (norm_jacs i). rewrite <- Ew. fin.
      + destruct (c_has_nl c) eqn:Enl; cbn [andb].
        * pose proof (fetch_spec s0 i false true HI0) as H. destruct (fetch s0 i false true) as [[[s1 calls] f] g].
          destruct H as (H1 & _ & H3 & H4 & _ & _ & H7 & H8 & H9). rewrite (H3 eq_refl).
          destruct (c_nograd c) eqn:Eng.
          -- fin.
          -- fold (norm_jacs i). split; [apply Inv_set_nj; auto; rewrite Enl, Eng; reflexivity|]. fin.
        * fold (norm_jacs i). split; [apply Inv_set_nj; auto; rewrite Enl; reflexivity|]. fin.
    - fin.
    - (* ConAll single *)
      pose proof (fetch_spec s i true false HI) as H. destruct (fetch s i true false) as [[[s1 calls] f] g].
      destruct H as (H1 & H2 & _ & _ & _ & _ & H7 & H8 & H9). rewrite (H2 eq_refl). fin.
    - (* ConAll batch *)
      destruct (c_nograd c) eqn:En; cbn [negb]; [|fin].
      destruct l as [|j l]; [fin|].
      pose proof (fetch_batch_spec s (j :: l) HI En) as H. destruct (fetch_batch s (j :: l)) as [[s1 calls] f].
      destruct H as (H1 & -> & H3). split; [exact H1|]. split.
      + unfold ScipyCache.Fm. rewrite map_map. reflexivity.
      + splits; intros; try (apply H3; assumption).
        match goal with Hin : In _ calls |- _ => destruct (H3 _ Hin) as [_ E] end.
        unfold rg_of in E. unfold rg_of. rewrite E. apply andb_false_r.
    - (* JacAll single *)
      pose proof (fetch_spec s i false true HI) as H. destruct (fetch s i false true) as [[[s1 calls] f] g].
      destruct H as (H1 & _ & H3 & _ & _ & _ & H7 & H8 & H9). rewrite (H3 eq_refl).
      destruct (c_nograd c); fin.
    - (* JacAll batch *)
      destruct (c_nograd c) eqn:En; cbn [negb]; fin.
      apply Inv_invalidate. exact HI.
  Qed.

  (* ---- whole sequences -------------------------------------------------------------------------- *)
  Definition res_ok (t : op * list inv * ret) : Prop :=
    snd t = expected (fst (fst t)) /\ good_calls (fst (fst t)) (snd (fst t)).

  Lemma run_ok ops : forall s, Inv s -> Forall res_ok (run s ops).
  Proof.
    induction ops as [|o t IH]; intros s HI; cbn [ScipyCache.run]; [constructor|].
    pose proof (step_spec s o HI) as H. destruct (step s o) as [[s1 calls] r].
    destruct H as (H1 & H2 & H3). constructor; [split; assumption | apply IH; exact H1].
  Qed.

  (* ---- consequences for runs from the initial state ----------------------------------------------- *)
  Lemma values_fresh ops :
    Forall (fun t => snd t = expected (fst (fst t))) (run empty ops).
  Proof. eapply Forall_impl; [|apply run_ok, Inv_empty]. intros t [H _]. exact H. Qed.

  Lemma calls_at_point ops :
    Forall (fun t => forall iv, In iv (snd (fst t)) -> pt_of iv = op_pt (fst (fst t))) (run empty ops).
  Proof. eapply Forall_impl; [|apply run_ok, Inv_empty]. intros t [_ [H _]]. exact H. Qed.

  Lemma no_gradient_calls_from s ops : Inv s -> c_nograd c = true ->
    forall iv, In iv (all_calls (run s ops)) -> rg_of iv = false.
  Proof.
    intros HI Hn iv Hin. unfold all_calls in Hin. apply in_concat in Hin as (l & Hl & Hiv).
    apply in_map_iff in Hl as (t & <- & Ht).
    pose proof (run_ok ops s HI) as HF. rewrite Forall_forall in HF.
    destruct (HF t Ht) as [_ [_ [H _]]]. apply (H Hn iv Hiv).
  Qed.
  Lemma no_gradient_calls ops : c_nograd c = true ->
    forall iv, In iv (all_calls (run empty ops)) -> rg_of iv = false.
  Proof. apply no_gradient_calls_from, Inv_empty. Qed.

  Lemma split_calls_from s ops : Inv s -> c_split c = true ->
    forall iv, In iv (all_calls (run s ops)) -> rf_of iv && rg_of iv = false.
  Proof.
    intros HI Hn iv Hin. unfold all_calls in Hin. apply in_concat in Hin as (l & Hl & Hiv).
    apply in_map_iff in Hl as (t & <- & Ht).
    pose proof (run_ok ops s HI) as HF. rewrite Forall_forall in HF.
    destruct (HF t Ht) as [_ [_ [_ H]]]. apply (H Hn iv Hiv).
  Qed.
  Lemma split_calls ops : c_split c = true ->
    forall iv, In iv (all_calls (run empty ops)) -> rf_of iv && rg_of iv = false.
  Proof. apply split_calls_from, Inv_empty. Qed.

  (* ---- start() called again on the same object ------------------------------------------------------ *)
  (* whatever the object went through before (any state at all), after start() the invariant holds:
     the point is forgotten, so nothing that is still stored can be handed out *)
  Lemma Inv_restart s : Inv (restart s).
  Proof. intros x H. discriminate. Qed.

  Lemma values_fresh_restart s ops :
    Forall (fun t => snd t = expected (fst (fst t))) (run (restart s) ops).
  Proof. eapply Forall_impl; [|apply run_ok, Inv_restart]. intros t [H _]. exact H. Qed.

  Lemma calls_at_point_restart s ops :
    Forall (fun t => forall iv, In iv (snd (fst t)) -> pt_of iv = op_pt (fst (fst t))) (run (restart s) ops).
  Proof. eapply Forall_impl; [|apply run_ok, Inv_restart]. intros t [_ [H _]]. exact H. Qed.

  (* ---- nothing is requested twice while the point does not change ---------------------------------- *)
  (* under speculative (for a gradient-based method) functions and gradients are cached together *)
  Definition Inv2 (s : st) : Prop :=
    c_spec c && negb (c_nograd c) = true -> is_none (cf s) = is_none (cg s).
  Definition kf (s : st) (x : pt) : Prop := cx s = Some x /\ is_none (cf s) = false.
  Definition kg (s : st) (x : pt) : Prop := cx s = Some x /\ is_none (cg s) = false.

  Definition counts_ok (s s1 : st) (x : pt) (calls : list inv) : Prop :=
    Inv2 s1 /\
    count_rf calls <= 1 /\ count_rg calls <= 1 /\
    (kf s x -> count_rf calls = 0 /\ kf s1 x) /\
    (kg s x -> count_rg calls = 0 /\ kg s1 x) /\
    (count_rf calls = 1 -> kf s1 x) /\
    (count_rg calls = 1 -> kg s1 x).

  Lemma Inv2_empty : Inv2 empty.
  Proof. intros _. reflexivity. Qed.
  Lemma Inv2_invalidate x s : Inv2 s -> Inv2 (invalidate x s).
  Proof. intros H. destruct (invalidate_cases x s) as [[_ ->]|[_ ->]]; [exact H | apply Inv2_empty]. Qed.

  Lemma counts_ok_nil s x : Inv2 s -> counts_ok s s x [].
  Proof. intros H. unfold counts_ok. cbn. splits; auto; try lia; try discriminate. Qed.

  Lemma kf_invalidate s x : kf s x -> invalidate x s = s.
  Proof. intros [H _]. apply invalidate_same. exact H. Qed.
  Lemma kg_invalidate s x : kg s x -> invalidate x s = s.
  Proof. intros [H _]. apply invalidate_same. exact H. Qed.

  Lemma not_known_after_reset s x : cx s <> Some x -> ~ kf s x /\ ~ kg s x.
  Proof. intros H. split; intros [E _]; contradiction. Qed.

  Lemma fetch_counts s i gf gg : Inv2 s ->
    let '(s1, calls, _, _) := fetch s i gf gg in counts_ok s s1 (Single i) calls.
  Proof.
    intros H2. unfold ScipyCache.fetch, counts_ok, kf, kg, Inv2 in *.
    destruct (invalidate_cases (Single i) s) as [[Hc E]|[Hc E]]; rewrite E; clear E.
    - (* same point *)
      unfold compute_calls, count_rf, count_rg.
      destruct (cf s) as [vf|] eqn:Ef, (cg s) as [vg|] eqn:Eg,
               gf, gg, (c_nograd c), (c_spec c), (c_split c);
        cbn in H2 |- *; rewrite ?Ef, ?Eg; cbn; try (specialize (H2 eq_refl); discriminate);
        splits; auto; try lia; try discriminate; try (intros; exfalso; lia);
        try (intros [_ Hk]; discriminate); try (intros [? ?]; split; [reflexivity | split; auto]).
    - (* another point: everything was reset *)
      unfold compute_calls, count_rf, count_rg.
      destruct gf, gg, (c_nograd c), (c_spec c), (c_split c); cbn;
        splits; auto; try lia; try discriminate; try (intros; exfalso; lia);
        try (intros [Hk _]; contradiction).
  Qed.

  Lemma fetch_batch_counts s l : Inv2 s -> c_nograd c = true ->
    let '(s1, calls, _) := fetch_batch s l in counts_ok s s1 (Batch l) calls.
  Proof.
    intros H2 Hn. unfold ScipyCache.fetch_batch, counts_ok, kf, kg, Inv2 in *. rewrite Hn, andb_false_r in *.
    destruct (invalidate_cases (Batch l) s) as [[Hc E]|[Hc E]]; rewrite E; clear E.
    - unfold compute_calls, count_rf, count_rg.
      destruct (cf s) as [vf|] eqn:Ef; cbn; rewrite ?Ef; cbn;
        splits; auto; try lia; try discriminate; try (intros; exfalso; lia);
        try (intros [_ Hk]; discriminate);
        try (intros [? ?]; split; [reflexivity | split; auto]).
    - unfold compute_calls, count_rf, count_rg. cbn.
      splits; auto; try lia; try discriminate; try (intros; exfalso; lia);
        try (intros [Hk _]; contradiction).
  Qed.

  Lemma counts_ok_pre s s0 s1 x calls :
    (kf s x -> s0 = s) -> (kg s x -> s0 = s) -> (s0 = s \/ s0 = empty) ->
    counts_ok s0 s1 x calls -> counts_ok s s1 x calls.
  Proof.
    intros Hf Hg Hs (A & B & C & D & E & F & G). unfold counts_ok. splits; auto.
    - intros K. apply D. rewrite (Hf K). exact K.
    - intros K. apply E. rewrite (Hg K). exact K.
  Qed.

  Lemma counts_ok_post_nc s s1 x calls v : counts_ok s s1 x calls -> counts_ok s (set_nc s1 v) x calls.
  Proof. intros H. exact H. Qed.
  Lemma counts_ok_post_nj s s1 x calls v : counts_ok s s1 x calls -> counts_ok s (set_nj s1 v) x calls.
  Proof. intros H. exact H. Qed.

  Lemma invalidate_pre x s :
    (kf s x -> invalidate x s = s) /\ (kg s x -> invalidate x s = s) /\
    (invalidate x s = s \/ invalidate x s = empty).
  Proof.
    splits; [apply kf_invalidate | apply kg_invalidate |].
    destruct (invalidate_cases x s) as [[_ ->]|[_ ->]]; auto.
  Qed.

  Lemma step_counts s o : Inv2 s ->
    let '(s1, calls, _) := step s o in counts_ok s s1 (op_pt o) calls.
  Proof.
    intros H2.
    destruct o as [x|x|k x|k x|x|x]; destruct x as [i|l]; cbn [ScipyCache.step op_pt];
      try (apply counts_ok_nil; exact H2).
    - pose proof (fetch_counts s i true false H2) as H. destruct (fetch s i true false) as [[[s1 calls] f] g]. exact H.
    - destruct (c_nograd c) eqn:En; cbn [negb]; [|apply counts_ok_nil; exact H2].
      destruct l as [|j l]; [apply counts_ok_nil; exact H2|].
      pose proof (fetch_batch_counts s (j :: l) H2 En) as H. destruct (fetch_batch s (j :: l)) as [[s1 calls] f]. exact H.
    - pose proof (fetch_counts s i false true H2) as H. destruct (fetch s i false true) as [[[s1 calls] f] g]. exact H.
    - (* Con *)
      destruct (invalidate_pre (Single i) s) as (P1 & P2 & P3).
      pose proof (Inv2_invalidate (Single i) s H2) as H20. set (s0 := invalidate (Single i) s) in *.
      destruct (nc s0) eqn:En.
      + apply (counts_ok_pre s s0); auto. apply counts_ok_nil. exact H20.
      + destruct (c_has_nl c).
        * pose proof (fetch_counts s0 i true false H20) as H. destruct (fetch s0 i true false) as [[[s1 calls] f] g].
          destruct f as [[|fv [|]]|]; apply (counts_ok_pre s s0); auto.
        * apply (counts_ok_pre s s0); auto. apply counts_ok_post_nc, counts_ok_nil. exact H20.
    - (* Jac *)
      destruct (invalidate_pre (Single i) s) as (P1 & P2 & P3).
      pose proof (Inv2_invalidate (Single i) s H2) as H20. set (s0 := invalidate (Single i) s) in *.
      destruct (nj s0) eqn:En.
      + apply (counts_ok_pre s s0); auto. apply counts_ok_nil. exact H20.
      + destruct (c_has_nl c).
        * pose proof (fetch_counts s0 i false true H20) as H. destruct (fetch s0 i false true) as [[[s1 calls] f] g].
          destruct g; apply (counts_ok_pre s s0); auto.
        * apply (counts_ok_pre s s0); auto. apply counts_ok_post_nj, counts_ok_nil. exact H20.
    - pose proof (fetch_counts s i true false H2) as H. destruct (fetch s i true false) as [[[s1 calls] f] g]. exact H.
    - destruct (c_nograd c) eqn:En; cbn [negb]; [|apply counts_ok_nil; exact H2].
      destruct l as [|j l]; [apply counts_ok_nil; exact H2|].
      pose proof (fetch_batch_counts s (j :: l) H2 En) as H. destruct (fetch_batch s (j :: l)) as [[s1 calls] f]. exact H.
    - pose proof (fetch_counts s i false true H2) as H. destruct (fetch s i false true) as [[[s1 calls] f] g]. exact H.
    - destruct (c_nograd c) eqn:En; cbn [negb]; [|apply counts_ok_nil; exact H2].
      destruct (invalidate_pre (Batch l) s) as (P1 & P2 & P3).
      apply (counts_ok_pre s (invalidate (Batch l) s)); auto. apply counts_ok_nil. apply Inv2_invalidate. exact H2.
  Qed.

  Lemma exec_Inv2 ops : forall s, Inv2 s -> Inv2 (exec Fp Gp Xp c s ops).
  Proof.
    induction ops as [|o t IH]; intros s H; cbn [exec]; [exact H|].
    pose proof (step_counts s o H) as Hs. destruct (step s o) as [[s1 calls] r].
    apply IH. destruct Hs as [Hs _]. exact Hs.
  Qed.

  Lemma count_rf_app a b : count_rf (a ++ b) = count_rf a + count_rf b.
  Proof. unfold count_rf. rewrite filter_app, app_length. reflexivity. Qed.
  Lemma count_rg_app a b : count_rg (a ++ b) = count_rg a + count_rg b.
  Proof. unfold count_rg. rewrite filter_app, app_length. reflexivity. Qed.

  Lemma run_counts x ops : Forall (fun o => op_pt o = x) ops -> forall s, Inv2 s ->
    count_rf (all_calls (run s ops)) <= 1 /\ count_rg (all_calls (run s ops)) <= 1 /\
    (kf s x -> count_rf (all_calls (run s ops)) = 0) /\
    (kg s x -> count_rg (all_calls (run s ops)) = 0).
  Proof.
    induction 1 as [|o t Ho _ IH]; intros s H2; cbn [ScipyCache.run].
    - unfold all_calls. cbn. splits; auto.
    - pose proof (step_counts s o H2) as Hs. rewrite Ho in Hs. destruct (step s o) as [[s1 calls] r].
      destruct Hs as (A & B & C & D & E & F & G).
      destruct (IH s1 A) as (I1 & I2 & I3 & I4).
      unfold all_calls in *. cbn [map List.concat fst snd]. rewrite count_rf_app, count_rg_app.
      splits.
      + destruct (Nat.eq_dec (count_rf calls) 1) as [E1|E1]; [rewrite (I3 (F E1)); lia | lia].
      + destruct (Nat.eq_dec (count_rg calls) 1) as [E1|E1]; [rewrite (I4 (G E1)); lia | lia].
      + intros K. destruct (D K) as [-> K1]. rewrite (I3 K1). reflexivity.
      + intros K. destruct (E K) as [-> K1]. rewrite (I4 K1). reflexivity.
  Qed.

  Lemma no_recompute pre ops x : Forall (fun o => op_pt o = x) ops ->
    let s := exec Fp Gp Xp c empty pre in
    count_rf (all_calls (run s ops)) <= 1 /\ count_rg (all_calls (run s ops)) <= 1.
  Proof.
    intros H. cbn zeta. destruct (run_counts x ops H _ (exec_Inv2 pre empty Inv2_empty)) as (A & B & _).
    split; assumption.
  Qed.

  Lemma Inv2_restart s : Inv2 (restart s).
  Proof. intros _. reflexivity. Qed.

  Lemma no_recompute_restart s0 pre ops x : Forall (fun o => op_pt o = x) ops ->
    let s := exec Fp Gp Xp c (restart s0) pre in
    count_rf (all_calls (run s ops)) <= 1 /\ count_rg (all_calls (run s ops)) <= 1.
  Proof.
    intros H. cbn zeta. destruct (run_counts x ops H _ (exec_Inv2 pre _ (Inv2_restart s0))) as (A & B & _).
    split; assumption.
  Qed.

  (* ---- a request at a new point never reads the old cache ----------------------------------------- *)
  Lemma step_new_point s o y : cx s = Some y -> op_pt o <> y ->
    snd (fst (step s o)) = snd (fst (step empty o)) /\ snd (step s o) = snd (step empty o).
  Proof.
    intros Hc Hne.
    destruct o as [x|x|k x|k x|x|x]; destruct x as [i|l]; cbn [op_pt] in Hne;
      cbn [ScipyCache.step]; unfold ScipyCache.fetch, ScipyCache.fetch_batch;
      rewrite ?(invalidate_other _ _ _ Hc Hne), ?invalidate_empty;
      try (split; reflexivity);
      try (destruct (c_nograd c); cbn [negb]; try (split; reflexivity);
           destruct l; split; reflexivity).
  Qed.

  Lemma shape_neq x y : shape x <> shape y -> x <> y.
  Proof. intros H E. apply H. rewrite E. reflexivity. Qed.
End Proofs.

(* ---- speculative does not change values ------------------------------------------------------------ *)
Lemma expected_with_spec Fp Gp Xp c b o :
  expected Fp Gp Xp (with_spec b c) o = expected Fp Gp Xp c o.
Proof. destruct o as [x|x|k x|k x|x|x]; destruct x; reflexivity. Qed.

Lemma run_ops Fp Gp Xp c ops : forall s,
  map (fun t => fst (fst t)) (run Fp Gp Xp c s ops) = ops.
Proof.
  induction ops as [|o t IH]; intros s; cbn [run map]; [reflexivity|].
  destruct (step Fp Gp Xp c s o) as [[s1 calls] r]. cbn. f_equal. apply IH.
Qed.

Lemma rets_expected Fp Gp Xp c ops :
  map (fun t => snd t) (run Fp Gp Xp c empty ops) = map (expected Fp Gp Xp c) ops.
Proof.
  pose proof (run_ok Fp Gp Xp c ops empty (Inv_empty Fp Gp Xp c)) as H.
  rewrite <- (run_ops Fp Gp Xp c ops empty) at 2. rewrite map_map.
  induction H as [|t l [Ht _] _ IH]; cbn; [reflexivity | rewrite Ht, IH; reflexivity].
Qed.

(* ---- several runs on one object (run_chain) ---------------------------------------------------------- *)
Lemma calc_all_invs : forall ivs ec,
  map fst (snd (calc_all ec ivs)) = ivs.
Proof.
  induction ivs as [|iv t IH]; intros ec; cbn [calc_all]; [reflexivity|].
  destruct (calculate ec iv) as [ec1 e]. specialize (IH ec1).
  destruct (calc_all ec1 t) as [ec2 r]. cbn in *. rewrite IH. reflexivity.
Qed.

(* the combined run returns the values of [run] and invokes the callback exactly as [run] does *)
Lemma run_ev_run Fp Gp Xp c ops : forall s ec,
  map (fun r : ret * list (inv * evcall) => (map fst (snd r), fst r)) (run_ev Fp Gp Xp c s ec ops) =
  map (fun t : op * list inv * ret => (snd (fst t), snd t)) (run Fp Gp Xp c s ops).
Proof.
  induction ops as [|o t IH]; intros s ec; cbn [run_ev run map]; [reflexivity|].
  destruct (step Fp Gp Xp c s o) as [[s1 calls] r].
  pose proof (calc_all_invs calls ec) as Hc.
  destruct (calc_all ec calls) as [ec1 evs]. cbn [map fst snd] in *. rewrite Hc, IH. reflexivity.
Qed.

Lemma exec_ev_exec Fp Gp Xp c ops : forall s ec,
  fst (exec_ev Fp Gp Xp c s ec ops) = exec Fp Gp Xp c s ops.
Proof.
  induction ops as [|o t IH]; intros s ec; cbn [exec_ev exec]; [reflexivity|].
  destruct (step Fp Gp Xp c s o) as [[s1 calls] r]. destruct (calc_all ec calls) as [ec1 evs]. apply IH.
Qed.

Lemma rets_expected_from Fp Gp Xp c ops s : Inv Fp Gp Xp c s ->
  map (fun t => snd t) (run Fp Gp Xp c s ops) = map (expected Fp Gp Xp c) ops.
Proof.
  intros HI. pose proof (run_ok Fp Gp Xp c ops s HI) as H.
  rewrite <- (run_ops Fp Gp Xp c ops s) at 2. rewrite map_map.
  induction H as [|t l [Ht _] _ IH]; cbn; [reflexivity | rewrite Ht, IH; reflexivity].
Qed.

(* every run of a chain returns, request by request, the oracle's value at the requested point --
   whatever the earlier runs on the same object left behind *)
Lemma chain_values_fresh Fp Gp Xp c : forall seqs s ec,
  Forall2 (fun ops res => map fst res = map (expected Fp Gp Xp c) ops) seqs (run_chain Fp Gp Xp c s ec seqs).
Proof.
  induction seqs as [|ops t IH]; intros s ec; cbn [run_chain]; constructor.
  - pose proof (run_ev_run Fp Gp Xp c ops (restart s) ec) as H.
    apply (f_equal (map snd)) in H. rewrite !map_map in H. cbn [snd] in H.
    rewrite <- (rets_expected_from Fp Gp Xp c ops (restart s) (Inv_restart Fp Gp Xp c s)).
    etransitivity; [|exact H]. apply map_ext. intros r. reflexivity.
  - destruct (exec_ev Fp Gp Xp c (restart s) ec ops) as [s1 ec1]. apply IH.
Qed.

(* ... and the clauses about the evaluations hold in every run of the chain *)
Lemma chain_calls_good Fp Gp Xp c : forall seqs s ec res r ce,
  In res (run_chain Fp Gp Xp c s ec seqs) -> In r res -> In ce (snd r) ->
  (c_nograd c = true -> rg_of (fst ce) = false) /\
  (c_split c = true -> rf_of (fst ce) && rg_of (fst ce) = false).
Proof.
  induction seqs as [|ops t IH]; intros s ec res r ce Hres Hr Hce; cbn [run_chain] in Hres; [contradiction|].
  destruct Hres as [<-|Hres].
  - assert (Hin : In (fst ce) (all_calls (run Fp Gp Xp c (restart s) ops))).
    { pose proof (run_ev_run Fp Gp Xp c ops (restart s) ec) as H.
      apply (f_equal (map fst)) in H. rewrite !map_map in H. cbn [fst] in H.
      unfold all_calls. rewrite <- H. apply in_concat.
      exists (map fst (snd r)). split.
      - apply in_map_iff. exists r. split; [reflexivity | exact Hr].
      - apply in_map. exact Hce. }
    split; intros Hc.
    + apply (no_gradient_calls_from Fp Gp Xp c (restart s) ops (Inv_restart Fp Gp Xp c s) Hc _ Hin).
    + apply (split_calls_from Fp Gp Xp c (restart s) ops (Inv_restart Fp Gp Xp c s) Hc _ Hin).
  - destruct (exec_ev Fp Gp Xp c (restart s) ec ops) as [s1 ec1]. apply (IH s1 ec1 res r ce Hres Hr Hce).
Qed.

Lemma speculative_values Fp Gp Xp c ops :
  map (fun t => snd t) (run Fp Gp Xp (with_spec true c) empty ops) =
  map (fun t => snd t) (run Fp Gp Xp (with_spec false c) empty ops).
Proof.
  rewrite !rets_expected. apply map_ext. intros o. rewrite !expected_with_spec. reflexivity.
Qed.

(* ---- EnsembleEvaluator: functions computed last at the same point are reused by a gradient-only call *)
Lemma evaluator_cache_reuse ec i :
  let (ec1, e1) := calculate ec (Single i, true, false) in
  e1 = EvF (Single i) /\ calculate ec1 (Single i, false, true) = (ec1, EvG i).
Proof. cbn. rewrite Nat.eqb_refl. split; reflexivity. Qed.

Lemma evaluator_no_stale_reuse ec i j : i <> j ->
  let (ec1, _) := calculate ec (Single j, true, false) in
  snd (calculate ec1 (Single i, false, true)) = EvFG i.
Proof. intros H. cbn. apply Nat.eqb_neq in H. rewrite H. reflexivity. Qed.

(* ---- the generated no-gradient table ----------------------------------------------------------------- *)
Lemma mem_In s l : In s l -> mem s l = true.
Proof. intros H. unfold mem. apply existsb_exists. exists s. split; [exact H | apply String.eqb_refl]. Qed.

Lemma make_config_nograd p spec split c :
  make_config p spec split = Some c -> c_nograd c = mem (p_method p) scipy_no_gradient.
Proof. unfold make_config. destruct (construct p); [|discriminate]. intros H. injection H as <-. reflexivity. Qed.
