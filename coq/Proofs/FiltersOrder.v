(* Proofs/FiltersOrder.v -- order-theoretic helpers shared by Proofs/FiltersStair.v (C04: the staircase predicate
   [stair_ok]) and Proofs/FiltersCut.v (C05: [window_ok] on a tie group cut by a window edge):
   positions in a list sorted by a total preorder are bracketed by two counts (so two sorted permutations of the same
   list carry equivalent elements at every position), insertion sort commutes with [map], it is stable on a tie group,
   and "the first j elements with property P" of an ascending list of indices can be counted. *)
From Coq Require Import String QArith Qabs Qround Qminmax Bool Arith ZArith List Lia Lqa Permutation Sorted.
From Ropt Require Import Base.Num Base.ListX Model.Filters Proofs.SortX Proofs.Filters.
Import ListNotations.
Local Arguments firstn : simpl never.
Local Arguments skipn : simpl never.

(* ---- counting ----------------------------------------------------------------------------------------------------- *)
Lemma countb_cons {A} (P : A -> bool) x t : countb P (x :: t) = ((if P x then 1 else 0) + countb P t)%nat.
Proof. unfold countb. cbn [filter]. destruct (P x); reflexivity. Qed.

Lemma countb_nil {A} (P : A -> bool) : countb P [] = 0%nat.
Proof. reflexivity. Qed.

Lemma countb_or_disjoint {A} (P Q : A -> bool) l :
  (forall x, In x l -> P x = true -> Q x = false) ->
  countb (fun x => P x || Q x) l = (countb P l + countb Q l)%nat.
Proof.
  induction l as [|x t IH]; intros H; [reflexivity|].
  rewrite !countb_cons, IH by (intros y Hy; apply H; right; exact Hy).
  pose proof (H x (or_introl eq_refl)) as Hx.
  destruct (P x); [rewrite (Hx eq_refl); cbn; lia|]. destruct (Q x); cbn; lia.
Qed.

Lemma countb_split {A} (G P : A -> bool) l :
  countb G l = (countb (fun x => G x && P x) l + countb (fun x => G x && negb (P x)) l)%nat.
Proof.
  induction l as [|x t IH]; [reflexivity|]. rewrite !countb_cons, IH.
  destruct (G x), (P x); cbn; lia.
Qed.

Lemma countb_disjoint2 {A} (G P Q : A -> bool) l :
  (forall x, In x l -> (P x = true -> G x = true /\ Q x = false) /\ (Q x = true -> G x = true)) ->
  (countb P l + countb Q l <= countb G l)%nat.
Proof.
  induction l as [|x t IH]; intros H; [cbn; lia|].
  assert (IH' := IH (fun y Hy => H y (or_intror Hy))). destruct (H x (or_introl eq_refl)) as [HP HQ].
  rewrite !countb_cons. destruct (P x) eqn:Px.
  - destruct (HP eq_refl) as [-> ->]. lia.
  - destruct (Q x) eqn:Qx; [rewrite (HQ eq_refl); lia|]. destruct (G x); lia.
Qed.

(* ---- nth of a map, without caring for the default ---------------------------------------------------------------- *)
Lemma nth_map_lt {A B} (f : A -> B) l k d d' : (k < length l)%nat -> nth k (map f l) d = f (nth k l d').
Proof.
  intros H. rewrite (nth_indep _ d (f d')) by (rewrite map_length; exact H). apply map_nth.
Qed.

(* ---- a list is strongly sorted when its elements are related position-wise -------------------------------------- *)
Lemma StronglySorted_of_nth {A} (R : A -> A -> Prop) l d :
  (forall i j, (i < j < length l)%nat -> R (nth i l d) (nth j l d)) -> StronglySorted R l.
Proof.
  induction l as [|x t IH]; intros H; [constructor|]. constructor.
  - apply IH. intros i j Hij. apply (H (S i) (S j)). cbn [length]. lia.
  - apply Forall_forall. intros y Hy. apply (In_nth _ _ d) in Hy as [j [Hj <-]].
    apply (H 0%nat (S j)). cbn [length]. lia.
Qed.

(* ---- positions in a list sorted by a total preorder ------------------------------------------------------------ *)
Section SortedPreorder.
  Context {A : Type} (leb : A -> A -> bool).
  Hypothesis leb_total : forall a b, leb a b = true \/ leb b a = true.
  Hypothesis leb_trans : forall a b c, leb a b = true -> leb b c = true -> leb a c = true.

  Lemma leb_refl a : leb a a = true.
  Proof. destruct (leb_total a a); assumption. Qed.

  (* the element at position k: at most k elements are strictly smaller, more than k are smaller or equivalent *)
  Lemma sorted_position_bounds l k d :
    StronglySorted (fun a b => leb a b = true) l -> (k < length l)%nat ->
    (countb (fun y => negb (leb (nth k l d) y)) l <= k < countb (fun y => leb y (nth k l d)) l)%nat.
  Proof.
    intros HS Hk. set (x := nth k l d).
    assert (Hfl : length (firstn k l) = k) by (rewrite firstn_length; lia).
    rewrite (split_nth l k d Hk) at 1 2. fold x. rewrite !countb_app.
    change (x :: skipn (S k) l) with ([x] ++ skipn (S k) l). rewrite !countb_app.
    split.
    - rewrite (countb_none _ (skipn (S k) l)).
      2:{ intros y Hy. apply (In_skipn_nth l (S k) d) in Hy as [j [Hj [Hjl <-]]].
          apply negb_false_iff. apply (StronglySorted_nth _ l d k j HS). lia. }
      assert (Hx : countb (fun y => negb (leb x y)) [x] = 0%nat).
      { apply countb_none. intros y [<-|[]]. apply negb_false_iff, leb_refl. }
      rewrite Hx. pose proof (countb_le_length (fun y => negb (leb x y)) (firstn k l)). lia.
    - rewrite (countb_all _ (firstn k l)).
      2:{ intros y Hy. apply (In_firstn_nth l k d) in Hy as [i [Hi [Hil <-]]].
          apply (StronglySorted_nth _ l d i k HS). lia. }
      assert (Hx : countb (fun y => leb y x) [x] = 1%nat).
      { apply (countb_all _ [x]). intros y [<-|[]]. apply leb_refl. }
      rewrite Hx, Hfl. lia.
  Qed.

  (* two sorted permutations of one another carry equivalent elements at every position *)
  Lemma sorted_perm_leb l1 l2 k d :
    StronglySorted (fun a b => leb a b = true) l1 -> StronglySorted (fun a b => leb a b = true) l2 ->
    Permutation l1 l2 -> (k < length l1)%nat -> leb (nth k l1 d) (nth k l2 d) = true.
  Proof.
    intros H1 H2 HP Hk.
    assert (Hk2 : (k < length l2)%nat) by (rewrite <- (Permutation_length HP); exact Hk).
    destruct (leb (nth k l1 d) (nth k l2 d)) eqn:E; [reflexivity|]. exfalso.
    pose proof (proj1 (sorted_position_bounds l1 k d H1 Hk)) as B1.
    pose proof (proj2 (sorted_position_bounds l2 k d H2 Hk2)) as B2.
    rewrite <- (countb_perm _ _ _ HP) in B2.
    assert (Hm : (countb (fun y => leb y (nth k l2 d)) l1 <= countb (fun y => negb (leb (nth k l1 d) y)) l1)%nat).
    { apply countb_mono. intros y _ Hy. apply negb_true_iff.
      destruct (leb (nth k l1 d) y) eqn:E2; [|reflexivity].
      rewrite (leb_trans _ _ _ E2 Hy) in E. discriminate. }
    lia.
  Qed.

  Lemma sorted_perm_equiv l1 l2 k d :
    StronglySorted (fun a b => leb a b = true) l1 -> StronglySorted (fun a b => leb a b = true) l2 ->
    Permutation l1 l2 -> (k < length l1)%nat ->
    leb (nth k l1 d) (nth k l2 d) = true /\ leb (nth k l2 d) (nth k l1 d) = true.
  Proof.
    intros H1 H2 HP Hk. split; [apply sorted_perm_leb; assumption|].
    apply sorted_perm_leb; try assumption; [apply Permutation_sym; exact HP|].
    rewrite <- (Permutation_length HP). exact Hk.
  Qed.
End SortedPreorder.

(* ---- insertion sort and map ------------------------------------------------------------------------------------ *)
Lemma insert_map {A B} (f : A -> B) (leb : B -> B -> bool) x l :
  insert leb (f x) (map f l) = map f (insert (fun a b => leb (f a) (f b)) x l).
Proof.
  induction l as [|y t IH]; cbn [map insert]; [reflexivity|].
  destruct (leb (f x) (f y)); cbn [map]; [reflexivity|]. rewrite IH. reflexivity.
Qed.

Lemma isort_map {A B} (f : A -> B) (leb : B -> B -> bool) l :
  isort leb (map f l) = map f (isort (fun a b => leb (f a) (f b)) l).
Proof.
  induction l as [|x t IH]; cbn [map isort]; [reflexivity|]. rewrite IH. apply insert_map.
Qed.

(* ---- the first j elements with property P of an ascending list of indices --------------------------------------- *)
Lemma countb_first_j (P : nat -> bool) l j : StronglySorted lt l -> forall c,
  countb (fun r => P r && Nat.ltb (c + countb (fun s => P s && Nat.ltb s r) l) j) l = Nat.min (j - c) (countb P l).
Proof.
  induction 1 as [|x t HS IH HF]; intros c; [rewrite !countb_nil; lia|].
  rewrite Forall_forall in HF.
  assert (Hx0 : countb (fun s => P s && Nat.ltb s x) (x :: t) = 0%nat).
  { apply countb_none. intros y [<-|Hy].
    - rewrite Nat.ltb_irrefl. apply andb_false_r.
    - pose proof (HF y Hy). assert (E : Nat.ltb y x = false) by (apply Nat.ltb_ge; lia).
      rewrite E. apply andb_false_r. }
  assert (Ht : countb (fun r => P r && Nat.ltb (c + countb (fun s => P s && Nat.ltb s r) (x :: t)) j) t =
               countb (fun r => P r && Nat.ltb ((c + (if P x then 1 else 0)) + countb (fun s => P s && Nat.ltb s r) t) j) t).
  { apply countb_ext. intros r Hr. rewrite countb_cons.
    assert (E : Nat.ltb x r = true) by (apply Nat.ltb_lt; apply HF; exact Hr). rewrite E, andb_true_r.
    f_equal. f_equal. lia. }
  rewrite (countb_cons (fun r => P r && Nat.ltb (c + countb (fun s => P s && Nat.ltb s r) (x :: t)) j)).
  rewrite Hx0, Ht, IH, (countb_cons P). rewrite Nat.add_0_r.
  destruct (P x); cbn [andb].
  - destruct (Nat.ltb_spec c j); lia.
  - lia.
Qed.

Lemma successes_ascending failed : StronglySorted lt (successes failed).
Proof.
  unfold successes. apply StronglySorted_filter.
  generalize 0%nat. induction (length failed) as [|n IH]; intros s; cbn [seq]; [constructor|].
  constructor; [apply IH|]. apply Forall_forall. intros y Hy. apply in_seq in Hy. lia.
Qed.

(* ---- Q-valued sums, pointwise bounds ----------------------------------------------------------------------------- *)
Lemma Qeqb_ext a a' b b' : (a == a')%Q -> (b == b')%Q -> Qeqb a b = Qeqb a' b'.
Proof.
  intros Ha Hb. destruct (Qeqb a' b') eqn:E.
  - apply Qeqb_eq in E. apply Qeqb_eq. rewrite Ha, Hb. exact E.
  - apply Qeqb_neq in E. apply Qeqb_neq. rewrite Ha, Hb. exact E.
Qed.
