(* Proofs/Transforms.v -- lemmas about Model/Transforms.v (C11) and the transform clause of C13. *)
From Coq Require Import String ZArith QArith Qabs Qminmax Bool List Lqa Lia Setoid Morphisms.
From Ropt Require Import Base.Num Base.ListX Model.ConstraintInfo Model.Transforms Proofs.ConstraintInfo.
Import ListNotations.
Open Scope Q_scope.

Lemma to_opt1_from_opt1 s o y : ~ s == 0 -> (y * s + o - o) / s == y.
Proof. intros H. field. exact H. Qed.
