(* Proofs/Transforms.v -- lemmas about Model/Transforms.v (C11) and the transform clause of C13. *)
From Coq Require Import String ZArith QArith Qabs Qminmax Bool List Lqa Lia Setoid Morphisms.
From Ropt Require Import Base.Num Base.ListX Model.ConstraintInfo Model.Transforms Proofs.ConstraintInfo.
Import ListNotations.
Open Scope Q_scope.

(* ================================================================================================ *)
(* generic list facts                                                                               *)
(* ================================================================================================ *)
Lemma Forall2_nth {A B} (R : A -> B -> Prop) a b :
  length a = length b ->
  (forall i x y, nth_error a i = Some x -> nth_error b i = Some y -> R x y) -> Forall2 R a b.
Proof.
  revert b; induction a as [|x a IH]; intros [|y b] Hl H; cbn in Hl; try discriminate; constructor.
  - apply (H 0%nat); reflexivity.
  - apply IH; [lia|]. intros i u v Hu Hv. apply (H (S i)); assumption.
Qed.
Lemma Forall2_nth_inv {A B} (R : A -> B -> Prop) a b i x y :
  Forall2 R a b -> nth_error a i = Some x -> nth_error b i = Some y -> R x y.
Proof.
  intros H; revert i; induction H as [|u v a b Huv _ IH]; intros [|i] Hx Hy; cbn in *; try discriminate.
  - injection Hx as <-; injection Hy as <-; exact Huv.
  - eapply IH; eassumption.
Qed.
Lemma Forall2_length' {A B} (R : A -> B -> Prop) a b : Forall2 R a b -> length a = length b.
Proof. induction 1; cbn; congruence. Qed.
Lemma Forall_nth {A} (P : A -> Prop) l i x : Forall P l -> nth_error l i = Some x -> P x.
Proof. intros H Hn. rewrite Forall_forall in H. apply H. eapply nth_error_In; exact Hn. Qed.
Lemma nth_error_some_lt {A} (l : list A) i x : nth_error l i = Some x -> (i < length l)%nat.
Proof. intros H. apply nth_error_Some. congruence. Qed.
Lemma nth_error_lt_some {A} (l : list A) i : (i < length l)%nat -> exists x, nth_error l i = Some x.
Proof. intros H. destruct (nth_error l i) eqn:E; [eauto | apply nth_error_None in E; lia]. Qed.

Lemma zipw_nth_some {A B C} (f : A -> B -> C) a b i v :
  nth_error (zipw f a b) i = Some v -> exists x y, nth_error a i = Some x /\ nth_error b i = Some y /\ v = f x y.
Proof.
  rewrite zipw_nth. destruct (nth_error a i) as [x|]; [|discriminate]. destruct (nth_error b i) as [y|]; [|discriminate].
  intros H; injection H as <-. eauto.
Qed.

Lemma zipw4_nth {A B C D E} (f : A -> B -> C -> D -> E) a b c d i :
  nth_error (zipw4 f a b c d) i =
  match nth_error a i, nth_error b i, nth_error c i, nth_error d i with
  | Some x1, Some x2, Some x3, Some x4 => Some (f x1 x2 x3 x4) | _, _, _, _ => None end.
Proof.
  revert b c d i; induction a as [|x a IH]; intros [|y b] [|z c] [|w d] [|i]; cbn; auto;
    try (destruct (nth_error a i); auto; destruct (nth_error b i); auto; destruct (nth_error c i); auto; fail).
Qed.
Lemma zipw4_length {A B C D E} (f : A -> B -> C -> D -> E) a b c d :
  length b = length a -> length c = length a -> length d = length a -> length (zipw4 f a b c d) = length a.
Proof.
  revert b c d; induction a as [|x a IH]; intros [|y b] [|z c] [|w d]; cbn; intros; try discriminate; auto; f_equal; apply IH; lia.
Qed.
Lemma zipw5_nth {A B C D E F} (f : A -> B -> C -> D -> E -> F) a b c d e i :
  nth_error (zipw5 f a b c d e) i =
  match nth_error a i, nth_error b i, nth_error c i, nth_error d i, nth_error e i with
  | Some x1, Some x2, Some x3, Some x4, Some x5 => Some (f x1 x2 x3 x4 x5) | _, _, _, _, _ => None end.
Proof.
  revert b c d e i; induction a as [|x a IH]; intros [|y b] [|z c] [|w d] [|v e] [|i]; cbn; auto;
    try (destruct (nth_error a i); auto; destruct (nth_error b i); auto; destruct (nth_error c i); auto;
         destruct (nth_error d i); auto; fail).
Qed.
Lemma zipw5_length {A B C D E F} (f : A -> B -> C -> D -> E -> F) a b c d e :
  length b = length a -> length c = length a -> length d = length a -> length e = length a ->
  length (zipw5 f a b c d e) = length a.
Proof.
  revert b c d e; induction a as [|x a IH]; intros [|y b] [|z c] [|w d] [|v e]; cbn; intros; try discriminate; auto; f_equal; apply IH; lia.
Qed.
Lemma all_some_nth {A} (l : list (option A)) r i :
  all_some l = Some r -> nth_error l i = option_map Some (nth_error r i).
Proof.
  revert r i; induction l as [|[x|] l IH]; intros r i H; cbn in H.
  - injection H as <-. destruct i; reflexivity.
  - destruct (all_some l) as [r'|]; [|discriminate]. injection H as <-. destruct i; cbn; auto.
  - discriminate.
Qed.
Lemma all_some_length {A} (l : list (option A)) r : all_some l = Some r -> length r = length l.
Proof.
  revert r; induction l as [|[x|] l IH]; intros r H; cbn in H.
  - injection H as <-; reflexivity.
  - destruct (all_some l) as [r'|]; [|discriminate]. injection H as <-. cbn. f_equal. apply IH; reflexivity.
  - discriminate.
Qed.

Lemma repeat_nth {A} (x : A) n i : nth_error (repeat x n) i = if Nat.ltb i n then Some x else None.
Proof.
  revert i; induction n as [|n IH]; intros [|i]; cbn; auto. rewrite IH. reflexivity.
Qed.
Lemma ones_nth n i s : nth_error (ones n) i = Some s -> s = 1.
Proof. unfold ones. rewrite repeat_nth. destruct (Nat.ltb i n); congruence. Qed.
Lemma zeros_nth n i s : nth_error (zeros n) i = Some s -> s = 0.
Proof. unfold zeros. rewrite repeat_nth. destruct (Nat.ltb i n); congruence. Qed.
Lemma ones_pos n : Forall (fun s => 0 < s) (ones n).
Proof. unfold ones. induction n; cbn; constructor; [lra | assumption]. Qed.
Lemma ones_length n : length (ones n) = n. Proof. apply repeat_length. Qed.
Lemma zeros_length n : length (zeros n) = n. Proof. apply repeat_length. Qed.

(* Forall2 Qeq is an equivalence on vectors *)
Definition veq : list Q -> list Q -> Prop := Forall2 Qeq.
Lemma veq_refl a : veq a a.
Proof. induction a; constructor; [reflexivity | assumption]. Qed.
Lemma veq_sym a b : veq a b -> veq b a.
Proof. induction 1; constructor; [symmetry|]; assumption. Qed.
Lemma veq_trans a b c : veq a b -> veq b c -> veq a c.
Proof.
  intros H; revert c; induction H as [|x y a b Hxy _ IH]; intros c Hc; inversion Hc; subst; constructor.
  - etransitivity; eassumption.
  - apply IH; assumption.
Qed.
Definition meq : list (list Q) -> list (list Q) -> Prop := Forall2 veq.
Lemma meq_refl a : meq a a.
Proof. induction a; constructor; [apply veq_refl | assumption]. Qed.
Lemma meq_app a b c d : meq a b -> meq c d -> meq (a ++ c) (b ++ d).
Proof. intros H1 H2. apply Forall2_app; assumption. Qed.

(* ================================================================================================ *)
(* scalar algebra of the positive affine map  T v = (v - o) / s                                      *)
(* ================================================================================================ *)
Lemma Qltb_true a b : a < b -> Qltb a b = true. Proof. apply Qltb_lt. Qed.

Section Affine.
Variables s o : Q.
Hypothesis Hs : 0 < s.
Definition T (v : Q) : Q := (v - o) / s.
Definition Tb (b : ereal) : ereal := edivq (esubq b o) s.

Lemma Tb_fin c : Tb (Fin c) = Fin (T c). Proof. reflexivity. Qed.
Lemma Tb_ninf : Tb NInf = NInf. Proof. unfold Tb; cbn. rewrite (Qltb_true _ _ Hs). reflexivity. Qed.
Lemma Tb_pinf : Tb PInf = PInf. Proof. unfold Tb; cbn. rewrite (Qltb_true _ _ Hs). reflexivity. Qed.

Lemma T_back v : T v * s + o == v.
Proof. unfold T. field. lra. Qed.
Lemma T_of_back y : T (y * s + o) == y.
Proof. unfold T. field. lra. Qed.

Lemma T_le a b : a <= b <-> T a <= T b.
Proof.
  assert (Hi : 0 < / s) by (apply Qinv_lt_0_compat, Hs).
  unfold T, Qdiv. split; intros H; [nra|].
  assert (H2 : (a - o) * / s * s <= (b - o) * / s * s) by nra.
  assert (E1 : (a - o) * / s * s == a - o) by (field; lra).
  assert (E2 : (b - o) * / s * s == b - o) by (field; lra).
  lra.
Qed.
Lemma T_lt a b : a < b <-> T a < T b.
Proof.
  split; intros H.
  - apply Qnot_le_lt. intros H2. apply T_le in H2. lra.
  - apply Qnot_le_lt. intros H2. apply (proj1 (T_le b a)) in H2. lra.
Qed.

Lemma Qleb_proper a a' b b' : a == a' -> b == b' -> Qleb a b = Qleb a' b'.
Proof.
  intros Ha Hb. destruct (Qleb a' b') eqn:E.
  - apply Qleb_le. apply Qleb_le in E. lra.
  - apply Qleb_nle. apply Qleb_nle in E. lra.
Qed.
Lemma Qltb_proper a a' b b' : a == a' -> b == b' -> Qltb a b = Qltb a' b'.
Proof. intros Ha Hb. unfold Qltb. f_equal. apply Qleb_proper; assumption. Qed.
Lemma Qleb_T a b : Qleb (T a) (T b) = Qleb a b.
Proof.
  destruct (Qleb a b) eqn:E.
  - apply Qleb_le. apply (proj1 (T_le a b)). apply Qleb_le. exact E.
  - apply Qleb_nle. apply Qleb_nle in E. intros H. apply E. apply (proj2 (T_le a b)). exact H.
Qed.
Lemma Qltb_T a b : Qltb (T a) (T b) = Qltb a b.
Proof. unfold Qltb. f_equal. apply Qleb_T. Qed.

(* bounds: v inside [l, u]  <=>  T v inside [Tb l, Tb u] *)
Lemma ele_Tb_l l v v' : v' == T v -> ele (Tb l) (Fin v') = ele l (Fin v).
Proof.
  intros H. destruct l as [|a|]; [rewrite Tb_ninf | rewrite Tb_fin | rewrite Tb_pinf]; cbn; auto.
  rewrite (Qleb_proper _ (T a) _ (T v)) by (auto; reflexivity). apply Qleb_T.
Qed.
Lemma ele_Tb_u u v v' : v' == T v -> ele (Fin v') (Tb u) = ele (Fin v) u.
Proof.
  intros H. destruct u as [|a|]; [rewrite Tb_ninf | rewrite Tb_fin | rewrite Tb_pinf]; cbn; auto.
  rewrite (Qleb_proper _ (T v) _ (T a)) by (auto; reflexivity). apply Qleb_T.
Qed.
Lemma within_T l u v v' : v' == T v -> within (Tb l) (Tb u) v' = within l u v.
Proof. intros H. unfold within. rewrite (ele_Tb_l l v v' H), (ele_Tb_u u v v' H). reflexivity. Qed.

(* differences: (T v - Tb b) * s = v - b, also for infinite b *)
Lemma ediff_back b v v' : v' == T v -> eeq (escale s (ediff v' (Tb b))) (ediff v b).
Proof.
  intros H. destruct b as [|c|]; [rewrite Tb_ninf | rewrite Tb_fin | rewrite Tb_pinf]; cbn;
    try (rewrite (Qltb_true _ _ Hs); exact I).
  rewrite H. unfold T. field. lra.
Qed.

(* ---- boundary handling commutes with T -------------------------------------------------------- *)
Lemma below_T y y' lb : y' == T y -> below y' (Tb lb) = below y lb.
Proof.
  intros H. destruct lb as [|l|]; [rewrite Tb_ninf | rewrite Tb_fin | rewrite Tb_pinf]; cbn; auto.
  rewrite (Qltb_proper _ (T y) _ (T l)) by (auto; reflexivity). apply Qltb_T.
Qed.
Lemma above_T y y' ub : y' == T y -> above y' (Tb ub) = above y ub.
Proof.
  intros H. destruct ub as [|u|]; [rewrite Tb_ninf | rewrite Tb_fin | rewrite Tb_pinf]; cbn; auto.
  rewrite (Qltb_proper _ (T u) _ (T y)) by (auto; reflexivity). apply Qltb_T.
Qed.
Lemma refl_T b y y' : y' == T y -> refl (Tb b) y' == T (refl b y).
Proof.
  intros H. destruct b as [|c|]; [rewrite Tb_ninf | rewrite Tb_fin | rewrite Tb_pinf]; cbn; try exact H.
  rewrite H. unfold T. field. lra.
Qed.
Lemma mstep_lo_T lb ub y y' : y' == T y -> mstep_lo (Tb lb) (Tb ub) y' == T (mstep_lo lb ub y).
Proof.
  intros H. unfold mstep_lo. rewrite (below_T y y' lb H). destruct (below y lb).
  - pose proof (refl_T lb y y' H) as H1. rewrite (above_T (refl lb y) _ ub H1).
    destruct (above (refl lb y) ub); [apply refl_T; exact H1 | exact H1].
  - rewrite (above_T y y' ub H). destruct (above y ub); [apply refl_T; exact H | exact H].
Qed.
Lemma mstep_hi_T lb ub y y' : y' == T y -> mstep_hi (Tb lb) (Tb ub) y' == T (mstep_hi lb ub y).
Proof.
  intros H. unfold mstep_hi. rewrite (above_T y y' ub H). destruct (above y ub).
  - pose proof (refl_T ub y y' H) as H1. rewrite (below_T (refl ub y) _ lb H1).
    destruct (below (refl ub y) lb); [apply refl_T; exact H1 | exact H1].
  - rewrite (below_T y y' lb H). destruct (below y lb); [apply refl_T; exact H | exact H].
Qed.
Lemma iter_T n f g : (forall y y', y' == T y -> g y' == T (f y)) ->
  forall y y', y' == T y -> iter n g y' == T (iter n f y).
Proof. intros Hfg. induction n as [|n IH]; intros y y' H; cbn; [exact H | apply IH, Hfg, H]. Qed.
Lemma clip_T lb ub y y' : y' == T y -> clip (Tb lb) (Tb ub) y' == T (clip lb ub y).
Proof.
  intros H. unfold clip.
  assert (H1 : (match Tb lb with Fin l => if Qltb y' l then l else y' | _ => y' end)
               == T (match lb with Fin l => if Qltb y l then l else y | _ => y end)).
  { destruct lb as [|l|]; [rewrite Tb_ninf | rewrite Tb_fin | rewrite Tb_pinf]; try exact H.
    rewrite (Qltb_proper y' (T y) (T l) (T l)) by (auto; reflexivity). rewrite Qltb_T.
    destruct (Qltb y l); [reflexivity | exact H]. }
  set (w' := match Tb lb with Fin l => if Qltb y' l then l else y' | _ => y' end) in *.
  set (w := match lb with Fin l => if Qltb y l then l else y | _ => y end) in *.
  destruct ub as [|u|]; [rewrite Tb_ninf | rewrite Tb_fin | rewrite Tb_pinf]; try exact H1.
  rewrite (Qltb_proper (T u) (T u) w' (T w)) by (auto; reflexivity). rewrite Qltb_T.
  destruct (Qltb u w); [reflexivity | exact H1].
Qed.

Lemma apply_bounds_T rep t lb ub y y' : y' == T y ->
  apply_bounds_1 rep t (Tb lb) (Tb ub) y' == T (apply_bounds_1 rep t lb ub y).
Proof.
  intros H. unfold apply_bounds_1.
  assert (H1 : (if match t with BMirror => below y' (Tb lb) | _ => false end
                then iter rep (mstep_lo (Tb lb) (Tb ub)) y' else y')
               == T (if match t with BMirror => below y lb | _ => false end
                     then iter rep (mstep_lo lb ub) y else y)).
  { destruct t; try exact H. rewrite (below_T y y' lb H).
    destruct (below y lb); [|exact H]. apply iter_T; [intros; apply mstep_lo_T; assumption | exact H]. }
  set (v1' := if match t with BMirror => below y' (Tb lb) | _ => false end
              then iter rep (mstep_lo (Tb lb) (Tb ub)) y' else y') in *.
  set (v1 := if match t with BMirror => below y lb | _ => false end then iter rep (mstep_lo lb ub) y else y) in *.
  assert (H2 : (if match t with BMirror => above y' (Tb ub) | _ => false end
                then iter rep (mstep_hi (Tb lb) (Tb ub)) v1' else v1')
               == T (if match t with BMirror => above y ub | _ => false end
                     then iter rep (mstep_hi lb ub) v1 else v1)).
  { destruct t; try exact H1. rewrite (above_T y y' ub H).
    destruct (above y ub); [|exact H1]. apply iter_T; [intros; apply mstep_hi_T; assumption | exact H1]. }
  destruct t; [exact H2 | apply clip_T; exact H2 | apply clip_T; exact H2].
Qed.
End Affine.

(* ================================================================================================ *)
(* vectors: to_opt / from_opt / bounds_to_opt                                                        *)
(* ================================================================================================ *)
Lemma to_opt_nth ss os x i :
  nth_error (to_opt ss os x) i =
  match nth_error x i, nth_error os i, nth_error ss i with
  | Some v, Some o, Some s => Some (T s o v) | _, _, _ => None end.
Proof.
  unfold to_opt. rewrite !zipw_nth.
  destruct (nth_error x i), (nth_error os i), (nth_error ss i); reflexivity.
Qed.
Lemma from_opt_nth ss os y i :
  nth_error (from_opt ss os y) i =
  match nth_error y i, nth_error ss i, nth_error os i with
  | Some v, Some s, Some o => Some (v * s + o) | _, _, _ => None end.
Proof.
  unfold from_opt. rewrite !zipw_nth.
  destruct (nth_error y i), (nth_error ss i), (nth_error os i); reflexivity.
Qed.
Lemma bounds_to_opt_nth ss os b i :
  nth_error (bounds_to_opt ss os b) i =
  match nth_error b i, nth_error os i, nth_error ss i with
  | Some e, Some o, Some s => Some (Tb s o e) | _, _, _ => None end.
Proof.
  unfold bounds_to_opt. rewrite !zipw_nth.
  destruct (nth_error b i), (nth_error os i), (nth_error ss i); reflexivity.
Qed.
Lemma to_opt_length ss os x : length ss = length x -> length os = length x -> length (to_opt ss os x) = length x.
Proof. intros H1 H2. unfold to_opt. rewrite !zipw_length. lia. Qed.
Lemma from_opt_length ss os y : length ss = length y -> length os = length y -> length (from_opt ss os y) = length y.
Proof. intros H1 H2. unfold from_opt. rewrite !zipw_length. lia. Qed.
Lemma bounds_to_opt_length ss os b : length ss = length b -> length os = length b -> length (bounds_to_opt ss os b) = length b.
Proof. intros H1 H2. unfold bounds_to_opt. rewrite !zipw_length. lia. Qed.
Lemma to_opt_cons s ss o os v x : to_opt (s :: ss) (o :: os) (v :: x) = T s o v :: to_opt ss os x.
Proof. reflexivity. Qed.

Definition nonzero (ss : list Q) : Prop := Forall (fun s => ~ s == 0) ss.
Definition positive (ss : list Q) : Prop := Forall (fun s => 0 < s) ss.
Lemma positive_nonzero ss : positive ss -> nonzero ss.
Proof. unfold positive, nonzero. apply Forall_impl. intros s H. lra. Qed.

Lemma roundtrip_from_to ss os x :
  length ss = length x -> length os = length x -> nonzero ss -> veq (from_opt ss os (to_opt ss os x)) x.
Proof.
  intros H1 H2 Hnz. apply Forall2_nth.
  - rewrite from_opt_length; rewrite ?to_opt_length; auto.
  - intros i a b Ha Hb. rewrite from_opt_nth, to_opt_nth, Hb in Ha.
    destruct (nth_error os i) as [o|]; [|discriminate]. destruct (nth_error ss i) as [s|] eqn:Es; [|discriminate].
    injection Ha as <-. pose proof (Forall_nth _ _ _ _ Hnz Es) as Hs. unfold T. field. exact Hs.
Qed.
Lemma roundtrip_to_from ss os y :
  length ss = length y -> length os = length y -> nonzero ss -> veq (to_opt ss os (from_opt ss os y)) y.
Proof.
  intros H1 H2 Hnz. apply Forall2_nth.
  - rewrite to_opt_length; rewrite ?from_opt_length; auto.
  - intros i a b Ha Hb. rewrite to_opt_nth, from_opt_nth, Hb in Ha.
    destruct (nth_error ss i) as [s|] eqn:Es; [|discriminate]. destruct (nth_error os i) as [o|]; [|discriminate].
    injection Ha as <-. pose proof (Forall_nth _ _ _ _ Hnz Es) as Hs. unfold T. field. exact Hs.
Qed.

(* ---- bounds -------------------------------------------------------------------------------------- *)
Lemma all_within_cons l lb u ub v x : all_within (l :: lb) (u :: ub) (v :: x) = within l u v && all_within lb ub x.
Proof. reflexivity. Qed.

Lemma all_within_spec lb ub x : length lb = length x -> length ub = length x ->
  (all_within lb ub x = true <->
   forall i v l u, nth_error x i = Some v -> nth_error lb i = Some l -> nth_error ub i = Some u -> within l u v = true).
Proof.
  revert lb ub; induction x as [|v x IH]; intros [|l lb] [|u ub] H1 H2; cbn in H1, H2; try discriminate.
  - split; [intros _ [|i] ? ? ? H; discriminate | reflexivity].
  - rewrite all_within_cons, andb_true_iff, IH by lia. split.
    + intros [Hw Hr] [|i] v' l' u' Hv Hl Hu; cbn in *.
      * injection Hv as <-; injection Hl as <-; injection Hu as <-; exact Hw.
      * eapply Hr; eassumption.
    + intros H. split; [apply (H 0%nat); reflexivity | intros i v' l' u' Hv Hl Hu; apply (H (S i)); assumption].
Qed.

Lemma bounds_iff_bool ss os lb ub x :
  length ss = length x -> length os = length x -> length lb = length x -> length ub = length x -> positive ss ->
  all_within (bounds_to_opt ss os lb) (bounds_to_opt ss os ub) (to_opt ss os x) = all_within lb ub x.
Proof.
  revert ss os lb ub; induction x as [|v x IH]; intros [|s ss] [|o os] [|l lb] [|u ub] H1 H2 H3 H4 Hp;
    cbn in H1, H2, H3, H4; try discriminate; [reflexivity|].
  inversion Hp as [|? ? Hs Hp']; subst.
  change (bounds_to_opt (s :: ss) (o :: os) (l :: lb)) with (Tb s o l :: bounds_to_opt ss os lb).
  change (bounds_to_opt (s :: ss) (o :: os) (u :: ub)) with (Tb s o u :: bounds_to_opt ss os ub).
  rewrite to_opt_cons, !all_within_cons, IH by (auto; lia).
  rewrite (within_T s o Hs l u v (T s o v)) by reflexivity. reflexivity.
Qed.

(* ================================================================================================ *)
(* linear constraints                                                                                *)
(* ================================================================================================ *)
Lemma dot_nil_r a : dot a [] = 0.
Proof. destruct a; reflexivity. Qed.

(* row' . to_opt x = (row . x - row . offsets) / e   for the rescaled row  row'_j = row_j * s_j / e *)
Lemma dot_to_opt r ss os x e :
  length r = length x -> length ss = length x -> length os = length x -> nonzero ss -> ~ e == 0 ->
  dot (map (fun a => a / e) (zipw Qmult r ss)) (to_opt ss os x) == (dot r x - dot r os) / e.
Proof.
  revert ss os x; induction r as [|a r IH]; intros [|s ss] [|o os] [|v x] H1 H2 H3 Hnz He;
    cbn in H1, H2, H3; try discriminate.
  - cbn [zipw map]. rewrite !dot_nil_l. field. exact He.
  - inversion Hnz as [|? ? Hs Hnz']; subst.
    cbn [zipw map]. rewrite to_opt_cons, !dot_cons. rewrite IH by (auto; lia). unfold T. field. split; assumption.
Qed.

Lemma qabs_max_nonneg r : 0 <= qabs_max r.
Proof.
  destruct r as [|a r]; cbn [qabs_max fold_right]; [lra|]. fold (qabs_max r).
  pose proof (Qabs_nonneg a). pose proof (Q.le_max_l (Qabs a) (qabs_max r)). lra.
Qed.
Lemma qabs_max_pos r : 0 < qabs_max r <-> exists a, In a r /\ ~ a == 0.
Proof.
  induction r as [|a r IH]; cbn [qabs_max fold_right].
  - split; [lra | intros (a & [] & _)].
  - fold (qabs_max r). split.
    + intros H. destruct (Qeq_dec a 0) as [Ea|Ea].
      * assert (Hr : 0 < qabs_max r).
        { destruct (Q.max_spec (Qabs a) (qabs_max r)) as [[_ E]|[Hle E]]; rewrite E in H; [exact H|].
          rewrite Ea in H. cbn in H. lra. }
        apply IH in Hr as (b & Hb & Hnz). exists b. split; [right; exact Hb | exact Hnz].
      * exists a. split; [left; reflexivity | exact Ea].
    + intros (b & [<-|Hb] & Hnz).
      * assert (0 < Qabs a).
        { pose proof (Qabs_nonneg a) as Hn. destruct (Qeq_dec (Qabs a) 0) as [E|E]; [|lra].
          exfalso. revert E. apply Qabs_case; intros H0 E; apply Hnz; lra. }
        pose proof (Q.le_max_l (Qabs a) (qabs_max r)). lra.
      * assert (0 < qabs_max r) by (apply IH; eauto).
        pose proof (Q.le_max_r (Qabs a) (qabs_max r)). lra.
Qed.

Lemma forallb_nth {A} (p : A -> bool) l i x : forallb p l = true -> nth_error l i = Some x -> p x = true.
Proof. intros H Hn. rewrite forallb_forall in H. apply H. eapply nth_error_In; exact Hn. Qed.

(* row i of the transformed linear constraints *)
Lemma linear_to_opt_row ss os lc lc' eq i r l u :
  linear_to_opt ss os lc = Some (lc', eq) ->
  nth_error (l_coef lc) i = Some r -> nth_error (l_lower lc) i = Some l -> nth_error (l_upper lc) i = Some u ->
  exists e, nth_error eq i = Some e /\ 0 < e /\ e = qabs_max (zipw Qmult r ss) /\
            nth_error (l_coef lc') i = Some (map (fun a => a / e) (zipw Qmult r ss)) /\
            nth_error (l_lower lc') i = Some (Tb e (dot r os) l) /\
            nth_error (l_upper lc') i = Some (Tb e (dot r os) u).
Proof.
  unfold linear_to_opt. intros H Hr Hl Hu.
  destruct (forallb (fun e => Qltb 0 e) (equation_scaling (l_coef lc) ss)) eqn:Hall; [|discriminate].
  injection H as <- <-. exists (qabs_max (zipw Qmult r ss)).
  assert (He : nth_error (equation_scaling (l_coef lc) ss) i = Some (qabs_max (zipw Qmult r ss))).
  { unfold equation_scaling, scale_rows. rewrite !nth_error_map, Hr. reflexivity. }
  split; [exact He|]. split; [apply Qltb_lt; exact (forallb_nth _ _ _ _ Hall He)|]. split; [reflexivity|].
  cbn [l_coef l_lower l_upper]. rewrite !zipw_nth, He.
  unfold scale_rows at 1. rewrite nth_error_map, Hr. cbn [option_map].
  rewrite Hl, Hu. unfold matvec. rewrite nth_error_map, Hr. cbn [option_map]. auto.
Qed.

Lemma linear_to_opt_lengths ss os lc lc' eq :
  linear_to_opt ss os lc = Some (lc', eq) ->
  length (l_lower lc) = length (l_coef lc) -> length (l_upper lc) = length (l_coef lc) ->
  length eq = length (l_coef lc) /\ length (l_coef lc') = length (l_coef lc) /\
  length (l_lower lc') = length (l_coef lc) /\ length (l_upper lc') = length (l_coef lc).
Proof.
  unfold linear_to_opt. intros H H1 H2.
  destruct (forallb (fun e => Qltb 0 e) (equation_scaling (l_coef lc) ss)); [|discriminate].
  injection H as <- <-. cbn [l_coef l_lower l_upper]. unfold equation_scaling, scale_rows, matvec.
  rewrite !zipw_length, !map_length. lia.
Qed.

(* the transformation is defined exactly when no (scaled) row vanishes *)
Lemma linear_to_opt_defined ss os lc :
  (forall r, In r (l_coef lc) -> exists a, In a (zipw Qmult r ss) /\ ~ a == 0) ->
  exists lc' eq, linear_to_opt ss os lc = Some (lc', eq).
Proof.
  intros H. unfold linear_to_opt.
  assert (Hall : forallb (fun e => Qltb 0 e) (equation_scaling (l_coef lc) ss) = true).
  { apply forallb_forall. intros e He. unfold equation_scaling, scale_rows in He.
    rewrite map_map in He. apply in_map_iff in He as (r & <- & Hr). apply Qltb_lt. apply qabs_max_pos. apply H. exact Hr. }
  rewrite Hall. eauto.
Qed.

(* one row: same feasibility, and the back-transformed differences are the user-domain differences *)
Lemma linear_row_invariant ss os x r l u e :
  length r = length x -> length ss = length x -> length os = length x -> positive ss -> 0 < e ->
  let r' := map (fun a => a / e) (zipw Qmult r ss) in
  let y := to_opt ss os x in
  within (Tb e (dot r os) l) (Tb e (dot r os) u) (dot r' y) = within l u (dot r x) /\
  eeq (escale e (ediff (dot r' y) (Tb e (dot r os) l))) (ediff (dot r x) l) /\
  eeq (escale e (ediff (dot r' y) (Tb e (dot r os) u))) (ediff (dot r x) u).
Proof.
  intros H1 H2 H3 Hp He r' y.
  assert (Hd : dot r' y == T e (dot r os) (dot r x)).
  { unfold r', y, T. apply dot_to_opt; auto; [apply positive_nonzero; exact Hp | lra]. }
  split; [apply within_T; assumption|]. split; apply ediff_back; assumption.
Qed.

(* ================================================================================================ *)
(* perturbations and evaluator requests                                                              *)
(* ================================================================================================ *)
(* the magnitude in the user's own units: absolute m, relative (upper - lower) * m *)
Definition eff_mag (l u : ereal) (pt : ptype) (m : Q) : option Q :=
  match pt with
  | PRel => match l, u with Fin a, Fin b => Some ((b - a) * m) | _, _ => None end
  | PAbs => Some m
  end.

Lemma fix_magnitude_eff s o l u pt m mh : 0 < s ->
  fix_magnitude s (Tb s o l) (Tb s o u) pt m = Some mh -> exists me, eff_mag l u pt m = Some me /\ mh == me / s.
Proof.
  intros Hs. destruct pt; cbn [fix_magnitude eff_mag].
  - intros H; injection H as <-. exists m. split; reflexivity.
  - destruct l as [|a|], u as [|b|]; rewrite ?Tb_ninf, ?Tb_pinf, ?Tb_fin by exact Hs; try discriminate.
    intros H; injection H as <-. exists ((b - a) * m). split; [reflexivity|]. unfold T. field. lra.
Qed.

(* one component: mapping the optimizer-domain perturbed value back gives the user-domain perturbed value *)
Lemma perturb1_canonical rep t s o l u x z mh me : 0 < s -> mh == me / s ->
  apply_bounds_1 rep t (Tb s o l) (Tb s o u) (T s o x + mh * z) * s + o == apply_bounds_1 rep t l u (x + me * z).
Proof.
  intros Hs Hm.
  assert (Hy : T s o x + mh * z == T s o (x + me * z)) by (rewrite Hm; unfold T; field; lra).
  rewrite (apply_bounds_T s o Hs rep t l u (x + me * z) _ Hy). apply T_back. exact Hs.
Qed.

(* well-formedness of the sizes of a user configuration with n variables *)
Definition ucfg_sized (n : nat) (u : ucfg) : Prop :=
  length (u_x0 u) = n /\ length (u_lb u) = n /\ length (u_ub u) = n /\ length (u_mag u) = n /\
  length (u_pt u) = n /\ length (u_bt u) = n.

Lemma validate_vars_fields ss os u m : validate_vars ss os u = Some m ->
  g_x0 m = to_opt ss os (u_x0 u) /\ g_lb m = bounds_to_opt ss os (u_lb u) /\ g_ub m = bounds_to_opt ss os (u_ub u) /\
  g_bt m = u_bt u /\
  fix_magnitudes ss (bounds_to_opt ss os (u_lb u)) (bounds_to_opt ss os (u_ub u)) (u_pt u) (u_mag u) = Some (g_mag m).
Proof.
  unfold validate_vars. intros H.
  destruct (existsb _ _); [discriminate|].
  destruct (fix_magnitudes _ _ _ _ _) as [mm|] eqn:E; [|discriminate]. injection H as <-. cbn. auto.
Qed.

Lemma perturb_length rep m y z n :
  length y = n -> length z = n -> length (g_mag m) = n -> length (g_lb m) = n -> length (g_ub m) = n -> length (g_bt m) = n ->
  length (perturb rep m y z) = n.
Proof.
  intros. unfold perturb. rewrite zipw4_length; rewrite !zipw_length; lia.
Qed.

Lemma validate_vars_lengths n ss os u m : ucfg_sized n u -> length ss = n -> length os = n ->
  validate_vars ss os u = Some m ->
  length (g_x0 m) = n /\ length (g_lb m) = n /\ length (g_ub m) = n /\ length (g_mag m) = n /\ length (g_bt m) = n.
Proof.
  intros (H1 & H2 & H3 & H4 & H5 & H6) Hss Hos Hv.
  destruct (validate_vars_fields _ _ _ _ Hv) as (E1 & E2 & E3 & E4 & E5).
  rewrite E1, E2, E3, E4. rewrite to_opt_length, !bounds_to_opt_length by lia.
  unfold fix_magnitudes in E5. apply all_some_length in E5. rewrite E5.
  rewrite zipw5_length; rewrite ?bounds_to_opt_length; lia.
Qed.

(* every component of a row handed to the evaluator, expressed in the user's own units *)
Lemma request_component rep n ss os u m x z i a :
  ucfg_sized n u -> length ss = n -> length os = n -> positive ss -> validate_vars ss os u = Some m ->
  nth_error (from_opt ss os (perturb rep m (to_opt ss os x) z)) i = Some a ->
  exists xi zi l ub t mg p me,
    nth_error x i = Some xi /\ nth_error z i = Some zi /\ nth_error (u_lb u) i = Some l /\
    nth_error (u_ub u) i = Some ub /\ nth_error (u_bt u) i = Some t /\ nth_error (u_mag u) i = Some mg /\
    nth_error (u_pt u) i = Some p /\ eff_mag l ub p mg = Some me /\
    a == apply_bounds_1 rep t l ub (xi + me * zi).
Proof.
  intros Hsz Hss Hos Hp Hv Ha.
  destruct (validate_vars_fields _ _ _ _ Hv) as (E1 & E2 & E3 & E4 & E5).
  rewrite from_opt_nth in Ha.
  destruct (nth_error (perturb rep m (to_opt ss os x) z) i) as [v|] eqn:Ev; [|discriminate].
  destruct (nth_error ss i) as [s|] eqn:Es; [|discriminate].
  destruct (nth_error os i) as [o|] eqn:Eo; [|discriminate]. injection Ha as <-.
  pose proof (Forall_nth _ _ _ _ Hp Es) as Hs.
  unfold perturb in Ev. rewrite zipw4_nth in Ev.
  destruct (nth_error (zipw Qplus (to_opt ss os x) (zipw Qmult (g_mag m) z)) i) as [w|] eqn:Ew; [|discriminate].
  destruct (nth_error (g_lb m) i) as [l'|] eqn:El'; [|discriminate].
  destruct (nth_error (g_ub m) i) as [u'|] eqn:Eu'; [|discriminate].
  destruct (nth_error (g_bt m) i) as [t|] eqn:Et; [|discriminate]. injection Ev as <-.
  apply zipw_nth_some in Ew as (y & mz & Hy & Hmz & ->).
  apply zipw_nth_some in Hmz as (mh & zi & Hmh & Hzi & ->).
  rewrite to_opt_nth, Eo, Es in Hy. destruct (nth_error x i) as [xi|] eqn:Exi; [|discriminate]. injection Hy as <-.
  rewrite E2, bounds_to_opt_nth, Eo, Es in El'. destruct (nth_error (u_lb u) i) as [l|] eqn:El; [|discriminate].
  injection El' as <-.
  rewrite E3, bounds_to_opt_nth, Eo, Es in Eu'. destruct (nth_error (u_ub u) i) as [ub|] eqn:Eub; [|discriminate].
  injection Eu' as <-. rewrite E4 in Et.
  unfold fix_magnitudes in E5.
  pose proof (all_some_nth _ _ i E5) as Hn. rewrite Hmh in Hn. cbn [option_map] in Hn.
  rewrite zipw5_nth, Es, !bounds_to_opt_nth, El, Eub, Eo, Es in Hn.
  destruct (nth_error (u_pt u) i) as [p|] eqn:Ep; [|discriminate].
  destruct (nth_error (u_mag u) i) as [mg|] eqn:Emg; [|discriminate]. injection Hn as Hfix.
  destruct (fix_magnitude_eff s o l ub p mg mh Hs Hfix) as (me & Heff & Hme).
  exists xi, zi, l, ub, t, mg, p, me. repeat (split; [reflexivity || assumption|]).
  apply perturb1_canonical; assumption.
Qed.

(* one perturbed row: two validated versions of the same user configuration (any two positive scalers) give
   the same user-domain vector *)
Lemma perturbed_vector_invariant rep n u ss1 os1 m1 ss2 os2 m2 x z :
  ucfg_sized n u -> length x = n -> length z = n ->
  length ss1 = n -> length os1 = n -> positive ss1 -> validate_vars ss1 os1 u = Some m1 ->
  length ss2 = n -> length os2 = n -> positive ss2 -> validate_vars ss2 os2 u = Some m2 ->
  veq (from_opt ss1 os1 (perturb rep m1 (to_opt ss1 os1 x) z)) (from_opt ss2 os2 (perturb rep m2 (to_opt ss2 os2 x) z)).
Proof.
  intros Hsz Hx Hz Hs1 Ho1 Hp1 Hv1 Hs2 Ho2 Hp2 Hv2.
  destruct (validate_vars_lengths n _ _ _ _ Hsz Hs1 Ho1 Hv1) as (_ & L1 & L2 & L3 & L4).
  destruct (validate_vars_lengths n _ _ _ _ Hsz Hs2 Ho2 Hv2) as (_ & K1 & K2 & K3 & K4).
  apply Forall2_nth.
  - rewrite !from_opt_length; rewrite ?(perturb_length rep _ _ _ n); rewrite ?to_opt_length; auto; lia.
  - intros i a b Ha Hb.
    destruct (request_component rep n _ _ _ _ _ _ _ _ Hsz Hs1 Ho1 Hp1 Hv1 Ha)
      as (xi & zi & l & ub & t & mg & p & me & A1 & A2 & A3 & A4 & A5 & A6 & A7 & A8 & A9).
    destruct (request_component rep n _ _ _ _ _ _ _ _ Hsz Hs2 Ho2 Hp2 Hv2 Hb)
      as (xi' & zi' & l' & ub' & t' & mg' & p' & me' & B1 & B2 & B3 & B4 & B5 & B6 & B7 & B8 & B9).
    rewrite A1 in B1; injection B1 as <-. rewrite A2 in B2; injection B2 as <-.
    rewrite A3 in B3; injection B3 as <-. rewrite A4 in B4; injection B4 as <-.
    rewrite A5 in B5; injection B5 as <-. rewrite A6 in B6; injection B6 as <-.
    rewrite A7 in B7; injection B7 as <-. rewrite A8 in B8; injection B8 as <-.
    rewrite A9, B9. reflexivity.
Qed.

Lemma map_repeat' {A B} (f : A -> B) x n : map f (repeat x n) = repeat (f x) n.
Proof. induction n; cbn; congruence. Qed.
Lemma Forall2_repeat {A B} (R : A -> B -> Prop) x y n : R x y -> Forall2 R (repeat x n) (repeat y n).
Proof. intros H. induction n; cbn; constructor; assumption. Qed.

Lemma perturbed_rows_invariant rep n u ss1 os1 m1 ss2 os2 m2 x samples :
  ucfg_sized n u -> length x = n -> Forall (Forall (fun z => length z = n)) samples ->
  length ss1 = n -> length os1 = n -> positive ss1 -> validate_vars ss1 os1 u = Some m1 ->
  length ss2 = n -> length os2 = n -> positive ss2 -> validate_vars ss2 os2 u = Some m2 ->
  meq (map (from_opt ss1 os1) (perturbed_rows rep m1 (to_opt ss1 os1 x) samples))
      (map (from_opt ss2 os2) (perturbed_rows rep m2 (to_opt ss2 os2 x) samples)).
Proof.
  intros Hsz Hx Hsm Hs1 Ho1 Hp1 Hv1 Hs2 Ho2 Hp2 Hv2. unfold perturbed_rows.
  induction Hsm as [|zr samples Hzr _ IH]; cbn [map concat]; [constructor|].
  rewrite !map_app. apply meq_app; [|exact IH].
  induction Hzr as [|z zr Hz _ IHz]; cbn [map]; constructor; [|exact IHz].
  eapply perturbed_vector_invariant; eassumption.
Qed.

(* all rows of one evaluator call *)
Lemma requests_invariant rep R k n u ss1 os1 m1 ss2 os2 m2 x samples :
  ucfg_sized n u -> length x = n -> Forall (Forall (fun z => length z = n)) samples ->
  length ss1 = n -> length os1 = n -> positive ss1 -> validate_vars ss1 os1 u = Some m1 ->
  length ss2 = n -> length os2 = n -> positive ss2 -> validate_vars ss2 os2 u = Some m2 ->
  meq (requests rep R k ss1 os1 m1 (to_opt ss1 os1 x) samples) (requests rep R k ss2 os2 m2 (to_opt ss2 os2 x) samples).
Proof.
  intros Hsz Hx Hsm Hs1 Ho1 Hp1 Hv1 Hs2 Ho2 Hp2 Hv2.
  assert (Hrep : meq (map (from_opt ss1 os1) (repeat (to_opt ss1 os1 x) R))
                     (map (from_opt ss2 os2) (repeat (to_opt ss2 os2 x) R))).
  { rewrite !map_repeat'. apply Forall2_repeat.
    eapply veq_trans; [apply roundtrip_from_to; try lia; apply positive_nonzero; assumption|].
    apply veq_sym. apply roundtrip_from_to; try lia. apply positive_nonzero; assumption. }
  assert (Hrows := perturbed_rows_invariant rep n u ss1 os1 m1 ss2 os2 m2 x samples
                     Hsz Hx Hsm Hs1 Ho1 Hp1 Hv1 Hs2 Ho2 Hp2 Hv2).
  unfold requests, request_rows. destruct k; [exact Hrep | exact Hrows | rewrite !map_app; apply meq_app; assumption].
Qed.

(* the function-evaluation row of a call is the user's own point *)
Lemma function_request_is_point ss os x :
  length ss = length x -> length os = length x -> positive ss -> veq (from_opt ss os (to_opt ss os x)) x.
Proof. intros H1 H2 Hp. apply roundtrip_from_to; auto. apply positive_nonzero; exact Hp. Qed.

Lemma meq_sym a b : meq a b -> meq b a.
Proof. intros H. induction H; constructor; [apply veq_sym|]; assumption. Qed.
Lemma meq_trans a b c : meq a b -> meq b c -> meq a c.
Proof.
  intros H; revert c. induction H as [|x y a b Hxy _ IH]; intros c Hc; inversion Hc; subst; constructor;
    [eapply veq_trans; eassumption | apply IH; assumption].
Qed.

(* a function request for a batch of points (2-D variables): the evaluator receives every user point R times, in
   order, whatever the scaler *)
Lemma batch_requests_user R ss os xs :
  Forall (fun x => length ss = length x /\ length os = length x) xs -> positive ss ->
  meq (batch_requests R ss os (map (to_opt ss os) xs)) (batch_rows R xs).
Proof.
  intros Hx Hp. unfold batch_requests, batch_rows.
  induction Hx as [|x xs (H1 & H2) _ IH]; cbn [map concat]; [constructor|].
  rewrite map_app. apply meq_app; [|exact IH]. rewrite map_repeat'. apply Forall2_repeat.
  apply function_request_is_point; assumption.
Qed.

Lemma batch_requests_invariant R n ss1 os1 ss2 os2 xs :
  Forall (fun x => length x = n) xs ->
  length ss1 = n -> length os1 = n -> positive ss1 -> length ss2 = n -> length os2 = n -> positive ss2 ->
  meq (batch_requests R ss1 os1 (map (to_opt ss1 os1) xs)) (batch_requests R ss2 os2 (map (to_opt ss2 os2) xs)).
Proof.
  intros Hx A1 A2 Hp1 B1 B2 Hp2.
  eapply meq_trans; [apply batch_requests_user | apply meq_sym; apply batch_requests_user]; try assumption;
    (eapply Forall_impl; [|exact Hx]); cbn; intros x Hl; split; congruence.
Qed.

(* ================================================================================================ *)
(* results: per-realization values, function values                                                  *)
(* ================================================================================================ *)
Lemma fun_roundtrip sc f : length sc = length f -> nonzero sc -> veq (fun_from_opt sc (fun_to_opt sc f)) f.
Proof.
  intros Hl Hnz. apply Forall2_nth.
  - unfold fun_from_opt, fun_to_opt. rewrite !zipw_length. lia.
  - intros i a b Ha Hb. unfold fun_from_opt, fun_to_opt in Ha. rewrite !zipw_nth, Hb in Ha.
    destruct (nth_error sc i) as [s|] eqn:Es; [|discriminate]. injection Ha as <-.
    pose proof (Forall_nth _ _ _ _ Hnz Es). field. assumption.
Qed.

Lemma dot_map_div w f s : dot w (map (fun v => v / s) f) == dot w f / s.
Proof.
  revert f; induction w as [|a w IH]; intros [|v f]; cbn [map]; rewrite ?dot_nil_l, ?dot_nil_r;
    try (unfold Qdiv; ring).
  rewrite !dot_cons, IH. unfold Qdiv. ring.
Qed.
(* the weighted mean is homogeneous: scaling every realization's value by 1/s scales the mean by 1/s *)
Lemma wmean_homogeneous w f s : wmean w (map (fun v => v / s) f) == wmean w f / s.
Proof. unfold wmean. rewrite dot_map_div. unfold Qdiv. ring. Qed.

(* any estimator with that homogeneity returns, after the back-transformation, the untransformed value *)
Lemma function_value_invariant (est : list Q -> Q) :
  (forall c f, 0 < c -> est (map (fun v => v / c) f) == est f / c) ->
  forall s col, 0 < s -> est (map (fun v => v / s) col) * s == est col.
Proof. intros H s col Hs. rewrite (H s col Hs). field. lra. Qed.

(* ================================================================================================ *)
(* constraint information: back-transformed differences and recomputed violations (C13 transform)     *)
(* ================================================================================================ *)
Lemma eneg_eeq a b : eeq a b -> eeq (eneg a) (eneg b).
Proof. destruct a, b; cbn; auto. intros H; rewrite H; reflexivity. Qed.
Lemma emax_eeq a a' b b' : eeq a a' -> eeq b b' -> eeq (emax a b) (emax a' b').
Proof. intros H1 H2. unfold emax. rewrite (ele_eeq a a' b b' H1 H2). destruct (ele a' b'); assumption. Qed.
Lemma viol1_eeq a a' b b' : eeq a a' -> eeq b b' -> eeq (viol1 a b) (viol1 a' b').
Proof.
  intros H1 H2. unfold viol1.
  rewrite (elt_eeq a a' (Fin 0) (Fin 0) H1 (eeq_refl _)), (elt_eeq (Fin 0) (Fin 0) b b' (eeq_refl _) H2).
  apply emax_eeq.
  - destruct (elt a' (Fin 0)); [apply eneg_eeq; exact H1 | apply eeq_refl].
  - destruct (elt (Fin 0) b'); [exact H2 | apply eeq_refl].
Qed.
Lemma escale_eeq s a b : eeq a b -> eeq (escale s a) (escale s b).
Proof.
  intros H. destruct a, b; cbn in *; try contradiction; try (destruct (Qltb 0 s); cbn; exact I).
  rewrite H; reflexivity.
Qed.
Lemma ediff_eeq v a b : eeq a b -> eeq (ediff v a) (ediff v b).
Proof. destruct a, b; cbn; auto. intros H; rewrite H; reflexivity. Qed.
Lemma edivq_esubq_zero b k : eeq (edivq b k) (Tb k 0 b).
Proof. destruct b as [|c|]; unfold Tb; cbn; try (destruct (Qltb 0 k); exact I). unfold Qdiv. ring. Qed.

Definition eveq : list ereal -> list ereal -> Prop := Forall2 eeq.
Definition fam_eq (f g : family) : Prop :=
  eveq (f_lower f) (f_lower g) /\ eveq (f_upper f) (f_upper g) /\ eveq (f_viol f) (f_viol g).
Definition ofam_eq (f g : option family) : Prop :=
  match f, g with Some a, Some b => fam_eq a b | None, None => True | _, _ => False end.
Definition cinfo_eq (a b : cinfo) : Prop :=
  ofam_eq (ci_bound a) (ci_bound b) /\ ofam_eq (ci_linear a) (ci_linear b) /\ ofam_eq (ci_nonlinear a) (ci_nonlinear b).
Definition created_eq (a b : created) : Prop :=
  match a, b with CErr, CErr | CNone, CNone => True | CInfo x, CInfo y => cinfo_eq x y | _, _ => False end.

Lemma family_of_diffs_eq ld ld' ud ud' :
  eveq ld ld' -> eveq ud ud' -> fam_eq (family_of_diffs ld ud) (family_of_diffs ld' ud').
Proof.
  intros H1 H2. unfold fam_eq, family_of_diffs; cbn. repeat split; auto.
  revert ud ud' H2; induction H1 as [|a a' ld ld' Ha _ IH]; intros ud ud' H2; [constructor|].
  destruct H2 as [|b b' ud ud' Hb H2]; cbn; constructor; [apply viol1_eeq; assumption | apply IH; assumption].
Qed.

(* a family computed in the optimizer domain and mapped back entry by entry with factors ks *)
Lemma family_from_opt_eq ks vals vals' lb lb' ub ub' :
  length vals' = length vals -> length ks = length vals -> length lb = length vals -> length lb' = length vals ->
  length ub = length vals -> length ub' = length vals ->
  (forall i v v' l l' u u' k,
     nth_error vals i = Some v -> nth_error vals' i = Some v' -> nth_error lb i = Some l -> nth_error lb' i = Some l' ->
     nth_error ub i = Some u -> nth_error ub' i = Some u' -> nth_error ks i = Some k ->
     eeq (escale k (ediff v' l')) (ediff v l) /\ eeq (escale k (ediff v' u')) (ediff v u)) ->
  ofam_eq (fam_from_opt (Some ks) (Some (mk_family vals' lb' ub'))) (Some (mk_family vals lb ub)).
Proof.
  intros L1 L2 L3 L4 L5 L6 H. cbn [fam_from_opt ofam_eq]. unfold mk_family at 3.
  apply family_of_diffs_eq; apply Forall2_nth.
  - unfold mk_family, family_of_diffs; cbn. rewrite !zipw_length. lia.
  - intros i a b Ha Hb. unfold mk_family, family_of_diffs in Ha; cbn in Ha.
    apply zipw_nth_some in Ha as (d & k & Hd & Hk & ->). apply zipw_nth_some in Hd as (v' & l' & Hv' & Hl' & ->).
    apply zipw_nth_some in Hb as (v & l & Hv & Hl & ->).
    destruct (nth_error_lt_some ub i) as (u & Hu); [rewrite L5; eapply nth_error_some_lt; exact Hv|].
    destruct (nth_error_lt_some ub' i) as (u' & Hu'); [rewrite L6; eapply nth_error_some_lt; exact Hv|].
    apply (H i v v' l l' u u' k); assumption.
  - unfold mk_family, family_of_diffs; cbn. rewrite !zipw_length. lia.
  - intros i a b Ha Hb. unfold mk_family, family_of_diffs in Ha; cbn in Ha.
    apply zipw_nth_some in Ha as (d & k & Hd & Hk & ->). apply zipw_nth_some in Hd as (v' & u' & Hv' & Hu' & ->).
    apply zipw_nth_some in Hb as (v & u & Hv & Hu & ->).
    destruct (nth_error_lt_some lb i) as (l & Hl); [rewrite L3; eapply nth_error_some_lt; exact Hv|].
    destruct (nth_error_lt_some lb' i) as (l' & Hl'); [rewrite L4; eapply nth_error_some_lt; exact Hv|].
    apply (H i v v' l l' u u' k); assumption.
Qed.

Lemma bound_family_eq ss os x lb ub :
  length ss = length x -> length os = length x -> length lb = length x -> length ub = length x -> positive ss ->
  ofam_eq (fam_from_opt (Some ss) (Some (mk_family (to_opt ss os x) (bounds_to_opt ss os lb) (bounds_to_opt ss os ub))))
          (Some (mk_family x lb ub)).
Proof.
  intros H1 H2 H3 H4 Hp. apply family_from_opt_eq; rewrite ?to_opt_length, ?bounds_to_opt_length; try lia.
  intros i v v' l l' u u' k Hv Hv' Hl Hl' Hu Hu' Hk.
  rewrite to_opt_nth, Hv, Hk in Hv'. rewrite bounds_to_opt_nth, Hl, Hk in Hl'. rewrite bounds_to_opt_nth, Hu, Hk in Hu'.
  destruct (nth_error os i) as [o|]; [|discriminate]. injection Hv' as <-; injection Hl' as <-; injection Hu' as <-.
  pose proof (Forall_nth _ _ _ _ Hp Hk) as Hs. split; apply ediff_back; auto; reflexivity.
Qed.

Lemma linear_family_eq ss os x lc lc' eq :
  length ss = length x -> length os = length x -> positive ss ->
  Forall (fun r => length r = length x) (l_coef lc) ->
  length (l_lower lc) = length (l_coef lc) -> length (l_upper lc) = length (l_coef lc) ->
  linear_to_opt ss os lc = Some (lc', eq) ->
  ofam_eq (fam_from_opt (Some eq) (Some (mk_family (matvec (l_coef lc') (to_opt ss os x)) (l_lower lc') (l_upper lc'))))
          (Some (mk_family (matvec (l_coef lc) x) (l_lower lc) (l_upper lc))).
Proof.
  intros H1 H2 Hp Hrows L1 L2 Hlin.
  destruct (linear_to_opt_lengths _ _ _ _ _ Hlin L1 L2) as (K1 & K2 & K3 & K4).
  apply family_from_opt_eq; unfold matvec; rewrite ?map_length; try lia.
  intros i v v' l l' u u' k Hv Hv' Hl Hl' Hu Hu' Hk.
  rewrite nth_error_map in Hv. destruct (nth_error (l_coef lc) i) as [r|] eqn:Er; [|discriminate]. injection Hv as <-.
  destruct (linear_to_opt_row _ _ _ _ _ _ _ _ _ Hlin Er Hl Hu) as (e & He & Hpos & _ & Hr' & Hlo' & Hup').
  rewrite He in Hk; injection Hk as <-. rewrite Hlo' in Hl'; injection Hl' as <-. rewrite Hup' in Hu'; injection Hu' as <-.
  rewrite nth_error_map, Hr' in Hv'. injection Hv' as <-.
  pose proof (Forall_nth _ _ _ _ Hrows Er) as Hlen.
  destruct (linear_row_invariant ss os x r l u e Hlen H1 H2 Hp Hpos) as (_ & A & B). split; assumption.
Qed.

Lemma nonlinear_family_eq nls c lo up :
  length c = length nls -> length lo = length nls -> length up = length nls -> positive nls ->
  ofam_eq (fam_from_opt (Some nls) (Some (mk_family (fun_to_opt nls c) (ebounds_div nls lo) (ebounds_div nls up))))
          (Some (mk_family c lo up)).
Proof.
  intros H1 H2 H3 Hp. apply family_from_opt_eq; unfold fun_to_opt, ebounds_div; rewrite ?zipw_length; try lia.
  intros i v v' l l' u u' k Hv Hv' Hl Hl' Hu Hu' Hk.
  rewrite zipw_nth, Hv, Hk in Hv'. rewrite zipw_nth, Hl, Hk in Hl'. rewrite zipw_nth, Hu, Hk in Hu'.
  injection Hv' as <-; injection Hl' as <-; injection Hu' as <-.
  pose proof (Forall_nth _ _ _ _ Hp Hk) as Hs. cbn beta in Hs.
  assert (Hv' : v / k == T k 0 v) by (unfold T; field; lra).
  split.
  - eapply eeq_trans; [apply escale_eeq, ediff_eeq, edivq_esubq_zero | apply ediff_back; assumption].
  - eapply eeq_trans; [apply escale_eeq, ediff_eeq, edivq_esubq_zero | apply ediff_back; assumption].
Qed.

Lemma efinite_Tb s o e : 0 < s -> efinite (Tb s o e) = efinite e.
Proof. intros Hs. destruct e; [rewrite Tb_ninf | rewrite Tb_fin | rewrite Tb_pinf]; auto. Qed.
Lemma existsb_finite_to_opt ss os b :
  length ss = length b -> length os = length b -> positive ss ->
  existsb efinite (bounds_to_opt ss os b) = existsb efinite b.
Proof.
  revert ss os; induction b as [|e b IH]; intros [|s ss] [|o os] H1 H2 Hp; cbn in H1, H2; try discriminate; [reflexivity|].
  inversion Hp as [|? ? Hs Hp']; subst.
  change (bounds_to_opt (s :: ss) (o :: os) (e :: b)) with (Tb s o e :: bounds_to_opt ss os b).
  cbn [existsb]. rewrite (efinite_Tb s o e Hs), IH by (auto; lia). reflexivity.
Qed.

Definition created_from_opt (vs eq nls : option (list Q)) (c : created) : created :=
  match c with CInfo ci => CInfo (cinfo_from_opt vs eq nls ci) | c => c end.

(* sizes of a configuration with n variables and (length nls) non-linear constraints *)
Definition ccfg_sized (n : nat) (cfg : ccfg) (cons : option (list Q)) (nls : list Q) : Prop :=
  length (v_lower cfg) = n /\ length (v_upper cfg) = n /\
  (forall lc, c_linear cfg = Some lc ->
     Forall (fun r => length r = n) (l_coef lc) /\ length (l_lower lc) = length (l_coef lc) /\
     length (l_upper lc) = length (l_coef lc)) /\
  (forall lo up, c_nonlinear cfg = Some (lo, up) -> length lo = length nls /\ length up = length nls) /\
  (forall c, cons = Some c -> length c = length nls).

Lemma ofam_eq_none_some_absurd f : ofam_eq None (Some f) -> False. Proof. exact (fun H => H). Qed.

Ltac cinfo_fin :=
  cbn [created_from_opt created_eq cinfo_from_opt]; unfold cinfo_eq; cbn [ci_bound ci_linear ci_nonlinear];
  first [exact I | split; [|split]; first [assumption | exact I]].

Theorem constraint_info_invariant n ss os nls cfg cfg' eqo x cons :
  length x = n -> length ss = n -> length os = n -> positive ss -> positive nls -> ccfg_sized n cfg cons nls ->
  ccfg_to_opt ss os nls cfg = Some (cfg', eqo) ->
  created_eq (created_from_opt (Some ss) eqo (Some nls)
                (create cfg' (to_opt ss os x) (option_map (fun_to_opt nls) cons)))
             (create cfg x cons).
Proof.
  intros Hx Hss Hos Hp Hpn (S1 & S2 & S3 & S4 & S5) Hc.
  (* the bound family *)
  assert (HB : any_finite cfg' = any_finite cfg /\
               v_lower cfg' = bounds_to_opt ss os (v_lower cfg) /\ v_upper cfg' = bounds_to_opt ss os (v_upper cfg) /\
               c_nonlinear cfg' = match c_nonlinear cfg with
                                  | Some (lo, up) => Some (ebounds_div nls lo, ebounds_div nls up) | None => None end).
  { unfold ccfg_to_opt in Hc. destruct (c_linear cfg) as [lc|].
    - destruct (linear_to_opt ss os lc) as [[lc' eq]|]; [|discriminate]. injection Hc as <- <-. cbn.
      unfold any_finite; cbn. rewrite !existsb_finite_to_opt by (auto; lia). auto.
    - injection Hc as <- <-. cbn. unfold any_finite; cbn. rewrite !existsb_finite_to_opt by (auto; lia). auto. }
  destruct HB as (Hfin & Hlo & Hup & Hnl).
  assert (HL : match c_linear cfg with
               | Some lc => exists lc' eq, linear_to_opt ss os lc = Some (lc', eq) /\ c_linear cfg' = Some lc' /\ eqo = Some eq
               | None => c_linear cfg' = None /\ eqo = None end).
  { unfold ccfg_to_opt in Hc. destruct (c_linear cfg) as [lc|].
    - destruct (linear_to_opt ss os lc) as [[lc' eq]|] eqn:E; [|discriminate]. injection Hc as <- <-. cbn. eauto.
    - injection Hc as <- <-. cbn. auto. }
  unfold create. rewrite Hfin, Hlo, Hup, Hnl.
  assert (HBf : ofam_eq (fam_from_opt (Some ss) (Some (mk_family (to_opt ss os x) (bounds_to_opt ss os (v_lower cfg))
                                                               (bounds_to_opt ss os (v_upper cfg)))))
                        (Some (mk_family x (v_lower cfg) (v_upper cfg)))) by (apply bound_family_eq; auto; lia).
  destruct cons as [c|]; cbn [option_map]; destruct (c_nonlinear cfg) as [[lo up]|] eqn:En; try exact I.
  - (* constraint values and non-linear constraints *)
    destruct (S4 lo up eq_refl) as (N1 & N2). pose proof (S5 c eq_refl) as N3.
    pose proof (nonlinear_family_eq nls c lo up N3 N1 N2 Hpn) as HN.
    destruct (c_linear cfg) as [lc|] eqn:El.
    + destruct HL as (lc' & eq & Hlin & -> & ->). destruct (S3 lc eq_refl) as (R1 & R2 & R3).
      pose proof (linear_family_eq ss os x lc lc' eq ltac:(lia) ltac:(lia) Hp ltac:(rewrite Hx; exact R1) R2 R3 Hlin) as HLf.
      destruct (any_finite cfg); cinfo_fin.
    + destruct HL as (-> & ->). destruct (any_finite cfg); cinfo_fin.
  - destruct (c_linear cfg) as [lc|] eqn:El.
    + destruct HL as (lc' & eq & Hlin & -> & ->). destruct (S3 lc eq_refl) as (R1 & R2 & R3).
      pose proof (linear_family_eq ss os x lc lc' eq ltac:(lia) ltac:(lia) Hp ltac:(rewrite Hx; exact R1) R2 R3 Hlin) as HLf.
      destruct (any_finite cfg); cinfo_fin.
    + destruct HL as (-> & ->). destruct (any_finite cfg); cinfo_fin.
  - destruct (c_linear cfg) as [lc|] eqn:El.
    + destruct HL as (lc' & eq & Hlin & -> & ->). destruct (S3 lc eq_refl) as (R1 & R2 & R3).
      pose proof (linear_family_eq ss os x lc lc' eq ltac:(lia) ltac:(lia) Hp ltac:(rewrite Hx; exact R1) R2 R3 Hlin) as HLf.
      destruct (any_finite cfg); cinfo_fin.
    + destruct HL as (-> & ->). destruct (any_finite cfg); cinfo_fin.
Qed.

(* ================================================================================================ *)
(* feasibility of a point: user configuration vs validated transformed configuration                  *)
(* ================================================================================================ *)
Lemma linear_iff_bool ss os x lc lc' eq :
  length ss = length x -> length os = length x -> positive ss ->
  Forall (fun r => length r = length x) (l_coef lc) ->
  length (l_lower lc) = length (l_coef lc) -> length (l_upper lc) = length (l_coef lc) ->
  linear_to_opt ss os lc = Some (lc', eq) ->
  all_within (l_lower lc') (l_upper lc') (matvec (l_coef lc') (to_opt ss os x)) =
  all_within (l_lower lc) (l_upper lc) (matvec (l_coef lc) x).
Proof.
  intros H1 H2 Hp Hrows L1 L2 Hlin.
  destruct (linear_to_opt_lengths _ _ _ _ _ Hlin L1 L2) as (K1 & K2 & K3 & K4).
  apply eq_true_iff_eq. rewrite !all_within_spec by (unfold matvec; rewrite map_length; lia).
  split; intros H i v l u Hv Hl Hu.
  - unfold matvec in Hv. rewrite nth_error_map in Hv.
    destruct (nth_error (l_coef lc) i) as [r|] eqn:Er; [|discriminate]. injection Hv as <-.
    destruct (linear_to_opt_row _ _ _ _ _ _ _ _ _ Hlin Er Hl Hu) as (e & He & Hpos & _ & Hr' & Hlo' & Hup').
    pose proof (Forall_nth _ _ _ _ Hrows Er) as Hlen.
    destruct (linear_row_invariant ss os x r l u e Hlen H1 H2 Hp Hpos) as (A & _). rewrite <- A.
    apply (H i); [unfold matvec; rewrite nth_error_map, Hr'; reflexivity | exact Hlo' | exact Hup'].
  - unfold matvec in Hv. rewrite nth_error_map in Hv.
    destruct (nth_error (l_coef lc') i) as [r'|] eqn:Er'; [|discriminate]. injection Hv as <-.
    destruct (nth_error_lt_some (l_coef lc) i) as (r & Er); [rewrite <- K2; eapply nth_error_some_lt; exact Er'|].
    destruct (nth_error_lt_some (l_lower lc) i) as (l0 & El0); [rewrite L1; eapply nth_error_some_lt; exact Er|].
    destruct (nth_error_lt_some (l_upper lc) i) as (u0 & Eu0); [rewrite L2; eapply nth_error_some_lt; exact Er|].
    destruct (linear_to_opt_row _ _ _ _ _ _ _ _ _ Hlin Er El0 Eu0) as (e & He & Hpos & _ & Hr' & Hlo' & Hup').
    rewrite Hr' in Er'; injection Er' as <-. rewrite Hlo' in Hl; injection Hl as <-. rewrite Hup' in Hu; injection Hu as <-.
    pose proof (Forall_nth _ _ _ _ Hrows Er) as Hlen.
    destruct (linear_row_invariant ss os x r l0 u0 e Hlen H1 H2 Hp Hpos) as (A & _). rewrite A.
    apply (H i); [unfold matvec; rewrite nth_error_map, Er; reflexivity | exact El0 | exact Eu0].
Qed.

Theorem feasible_point_iff n ss os nls cfg cfg' eqo x :
  length x = n -> length ss = n -> length os = n -> positive ss -> ccfg_sized n cfg None nls ->
  ccfg_to_opt ss os nls cfg = Some (cfg', eqo) ->
  feasible_point cfg' (to_opt ss os x) = feasible_point cfg x.
Proof.
  intros Hx Hss Hos Hp (S1 & S2 & S3 & _ & _) Hc. unfold feasible_point, ccfg_to_opt in *.
  destruct (c_linear cfg) as [lc|] eqn:El.
  - destruct (linear_to_opt ss os lc) as [[lc' eq]|] eqn:Hlin; [|discriminate]. injection Hc as <- <-. cbn.
    destruct (S3 lc eq_refl) as (R1 & R2 & R3).
    rewrite bounds_iff_bool by (auto; lia). f_equal.
    apply (linear_iff_bool ss os x lc lc' eq); auto; try lia. rewrite Hx; exact R1.
  - injection Hc as <- <-. cbn. rewrite bounds_iff_bool by (auto; lia). reflexivity.
Qed.

(* ================================================================================================ *)
(* trackers without a tolerance: the retained "last" result is a function of which delivered results  *)
(* have function values only -- in particular it is the same with and without transforms             *)
(* ================================================================================================ *)
Lemma last_ok_no_tolerance a : forall b i, map ti_fun a = map ti_fun b -> last_ok None a i = last_ok None b i.
Proof.
  induction a as [|x a IH]; intros [|y b] i H; cbn in H; try discriminate; [reflexivity|].
  injection H as Hx Hr. cbn [last_ok]. rewrite (IH b (S i) Hr).
  unfold ti_ok, feasible, violates. rewrite Hx. reflexivity.
Qed.
