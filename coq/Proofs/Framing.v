(* Proofs/Framing.v -- lemmas about Model/Framing.v (C20, framing of the pipe messages). *)
From Coq Require Import List Arith Lia.
From Ropt Require Import Model.Framing.
Import ListNotations.

Section FramingProofs.
Variable A : Type.
Variable eq_dec : forall x y : A, {x = y} + {x <> y}.
Variable nl : A.
Variable delim : list A.
Hypothesis delim_nl : ~ In nl delim.

Notation W := (wire A nl delim).
Notation FL := (first_line A eq_dec nl).
Notation SCAN := (scan A eq_dec nl delim).
Notation READ := (read A eq_dec nl delim).
Notation DRAIN := (drain A eq_dec nl delim).
Notation DRAIN_ALL := (drain_all A eq_dec nl delim).
Notation RUN := (run A eq_dec nl delim).
Notation RUN_TRACE := (run_trace A eq_dec nl delim).

(* a message as json.dumps produces it: no newline inside, and it is not the delimiter text itself *)
Definition good (m : list A) : Prop := ~ In nl m /\ m <> delim.

Lemma fl_nlfree m r : ~ In nl m -> FL (m ++ nl :: r) = Some (m, r).
Proof.
  induction m as [|a m IH]; cbn; intros H.
  - destruct (eq_dec nl nl) as [_|N]; [reflexivity | contradiction].
  - destruct (eq_dec a nl) as [E|NE]; [exfalso; apply H; left; exact E|].
    rewrite IH; [reflexivity | intros K; apply H; right; exact K].
Qed.

Lemma fl_none b : ~ In nl b -> FL b = None.
Proof.
  induction b as [|a b IH]; cbn; intros H; [reflexivity|].
  destruct (eq_dec a nl) as [E|NE]; [exfalso; apply H; left; exact E|].
  rewrite IH; [reflexivity | intros K; apply H; right; exact K].
Qed.

Lemma wire_app m rest : W m ++ rest = m ++ nl :: delim ++ nl :: rest.
Proof. unfold wire. rewrite <- app_assoc. cbn. rewrite <- app_assoc. reflexivity. Qed.

Lemma scan_step f acc buf :
  SCAN (S f) acc buf = match FL buf with
                       | None => None
                       | Some (l, r) => if list_eq_dec eq_dec l delim then Some (join A nl acc, r) else SCAN f (acc ++ [l]) r
                       end.
Proof. reflexivity. Qed.

Lemma scan_delim f acc rest : SCAN (S f) acc (delim ++ nl :: rest) = Some (join A nl acc, rest).
Proof.
  rewrite scan_step, (fl_nlfree delim rest delim_nl).
  destruct (list_eq_dec eq_dec delim delim) as [_|N]; [reflexivity | contradiction].
Qed.

Lemma scan_none f acc d : FL d = None -> SCAN f acc d = None.
Proof. intros H. destruct f; cbn [scan]; [reflexivity | rewrite H; reflexivity]. Qed.

(* a complete message at the head of the buffer is returned, the rest is kept *)
Lemma read_wire m rest : good m -> READ (W m ++ rest) = (Some m, rest).
Proof.
  intros [Hnl Hd]. unfold read. rewrite wire_app.
  assert (F : exists f', List.length (m ++ nl :: delim ++ nl :: rest) = S f').
  { rewrite app_length. cbn [List.length]. rewrite Nat.add_succ_r. eexists; reflexivity. }
  destruct F as [f' ->]. rewrite scan_step, (fl_nlfree m _ Hnl).
  destruct (list_eq_dec eq_dec m delim) as [E|_]; [contradiction|].
  cbn [app]. rewrite scan_delim. cbn [join]. reflexivity.
Qed.

Lemma app_cmp (p x l y : list A) : p ++ x = l ++ y ->
  (exists t, t <> [] /\ p ++ t = l) \/ (exists p', p = l ++ p').
Proof.
  revert l. induction p as [|a p IH]; intros l H.
  - destruct l as [|b l]; [right; exists []; reflexivity | left; exists (b :: l); split; [discriminate | reflexivity]].
  - destruct l as [|b l]; [right; exists (a :: p); reflexivity|].
    cbn in H. injection H as -> H. destruct (IH l H) as [(t & T & E) | (p' & E)].
    + left. exists t. split; [exact T | cbn; rewrite E; reflexivity].
    + right. exists p'. cbn. rewrite E. reflexivity.
Qed.

Lemma strict_prefix_in (b t l : list A) (x : A) : t <> [] -> b ++ t = l ++ [x] -> forall z, In z b -> In z l.
Proof.
  intros T H z Z. destruct (exists_last T) as (t' & y & ->).
  rewrite app_assoc in H. apply app_inj_tail in H as [H _]. rewrite <- H. apply in_or_app. left. exact Z.
Qed.

(* an incomplete message -- any strict prefix of its wire form, also one cut inside the delimiter line --
   is not returned, and the buffer is kept *)
Lemma read_short b t m : good m -> t <> [] -> b ++ t = W m -> READ b = (None, b).
Proof.
  intros [Hnl Hd] T H. unfold read.
  assert (K : SCAN (S (List.length b)) [] b = None); [|rewrite K; reflexivity].
  assert (H' : b ++ t = (m ++ [nl]) ++ (delim ++ [nl])).
  { rewrite H. unfold wire. rewrite <- app_assoc. reflexivity. }
  destruct (app_cmp b t (m ++ [nl]) (delim ++ [nl]) H') as [(t1 & T1 & E1) | (d & E)].
  - apply scan_none, fl_none. intros Z. apply Hnl. exact (strict_prefix_in b t1 m nl T1 E1 nl Z).
  - subst b. rewrite <- app_assoc in H'. apply app_inv_head in H'.
    assert (D : ~ In nl d).
    { intros Z. apply delim_nl. exact (strict_prefix_in d t delim nl T H' nl Z). }
    rewrite <- app_assoc. cbn [app]. rewrite scan_step, (fl_nlfree m d Hnl).
    destruct (list_eq_dec eq_dec m delim) as [E|_]; [contradiction|].
    apply scan_none, fl_none. exact D.
Qed.

(* what is in the buffer when nothing more can be returned: nothing, or a strict prefix of the next message *)
Definition short (b : list A) (ms : list (list A)) : Prop :=
  match ms with [] => b = [] | m :: _ => exists t, t <> [] /\ b ++ t = W m end.

Lemma short_read b ms : Forall good ms -> short b ms -> READ b = (None, b).
Proof.
  intros G S. destruct ms as [|m ms]; cbn in S.
  - subst b. reflexivity.
  - destruct S as (t & T & E). inversion G; subst. exact (read_short b t m H1 T E).
Qed.

Lemma drain_wires : forall ms fuel b, Forall good ms -> READ b = (None, b) -> List.length ms < fuel ->
  DRAIN fuel (concat (map W ms) ++ b) = (ms, b).
Proof.
  induction ms as [|m ms IH]; intros fuel b G R L; (destruct fuel as [|f]; [inversion L|]).
  - cbn [map concat app drain]. rewrite R. reflexivity.
  - inversion G; subst. cbn [map concat]. rewrite <- app_assoc. cbn [drain]. rewrite (read_wire m _ H1).
    rewrite (IH f b H2 R); [reflexivity | cbn in L; lia].
Qed.

Lemma len_wires ms : List.length ms <= List.length (concat (map W ms)).
Proof.
  induction ms as [|m ms IH]; [cbn; lia|]. cbn [map concat List.length]. rewrite app_length.
  assert (1 <= List.length (W m)) by (unfold wire; rewrite app_length; cbn [List.length]; lia). lia.
Qed.

Lemma drain_all_wires ms b : Forall good ms -> READ b = (None, b) ->
  DRAIN_ALL (concat (map W ms) ++ b) = (ms, b).
Proof.
  intros G R. unfold drain_all. apply drain_wires; [exact G | exact R|].
  rewrite app_length. pose proof (len_wires ms). lia.
Qed.

(* every prefix of a stream of messages is some complete messages followed by a strict prefix of the next *)
Lemma prefix_decomp : forall ms p X, p ++ X = concat (map W ms) ->
  exists ms1 ms2 b, ms = ms1 ++ ms2 /\ p = concat (map W ms1) ++ b /\ short b ms2.
Proof.
  induction ms as [|m ms IH]; intros p X H.
  - cbn in H. apply app_eq_nil in H as [-> _]. exists [], [], []. repeat split.
  - cbn [map concat] in H. destruct (app_cmp p X (W m) _ H) as [(t & T & E) | (p' & E)].
    + exists [], (m :: ms), p. repeat split. exists t. split; assumption.
    + subst p. rewrite <- app_assoc in H. apply app_inv_head in H.
      destruct (IH p' X H) as (ms1 & ms2 & b & -> & -> & S).
      exists (m :: ms1), ms2, b. repeat split; [|exact S]. cbn [map concat]. rewrite app_assoc. reflexivity.
Qed.

(* MAIN: whatever the pieces are in which the stream of messages arrives, polling the reader after every piece
   returns exactly the messages, in order, and leaves an empty buffer *)
Lemma run_correct : forall cs b ms, Forall good ms -> short b ms -> b ++ concat cs = concat (map W ms) ->
  RUN b cs = (ms, []).
Proof.
  induction cs as [|c cs IH]; intros b ms G S H.
  - cbn in H. rewrite app_nil_r in H. cbn [run]. destruct ms as [|m ms]; cbn in S; [subst b; reflexivity|].
    exfalso. destruct S as (t & T & E). cbn [map concat] in H. rewrite H in E.
    apply (f_equal (@List.length A)) in E. rewrite !app_length in E. destruct t; [contradiction | cbn in E; lia].
  - cbn [run concat] in *. rewrite app_assoc in H.
    destruct (prefix_decomp ms (b ++ c) (concat cs) H) as (ms1 & ms2 & b' & -> & E & S').
    apply Forall_app in G as [G1 G2]. unfold feed. rewrite E.
    rewrite (drain_all_wires ms1 b' G1 (short_read b' ms2 G2 S')).
    rewrite E, map_app, concat_app, <- !app_assoc in H. apply app_inv_head in H.
    rewrite (IH b' ms2 G2 S' H). reflexivity.
Qed.

Lemma run_any_chunking cs ms : Forall good ms -> concat cs = concat (map W ms) -> RUN [] cs = (ms, []).
Proof.
  intros G H. apply run_correct; [exact G | | exact H].
  destruct ms as [|m ms]; cbn; [reflexivity|]. exists (W m). split; [|reflexivity].
  unfold wire. intros K. apply app_eq_nil in K as [_ K]. discriminate K.
Qed.

(* the C20_k shape: one message cut in two at ANY offset (also inside the delimiter line): nothing is returned
   after the first piece, the message after the second *)
Lemma two_pieces m p q : good m -> q <> [] -> p ++ q = W m -> RUN_TRACE [] [p; q] = [[]; [m]].
Proof.
  intros G Q H. cbn [run_trace feed app].
  assert (R : READ p = (None, p)) by exact (read_short p q m G Q H).
  assert (D1 : DRAIN_ALL p = ([], p)).
  { unfold drain_all. cbn [drain]. rewrite R. reflexivity. }
  rewrite D1. unfold feed.
  assert (D2 : DRAIN_ALL (p ++ q) = ([m], [])).
  { replace (p ++ q) with (concat (map W [m]) ++ []) by (cbn; rewrite !app_nil_r; symmetry; exact H).
    apply drain_all_wires; [constructor; [exact G | constructor] | reflexivity]. }
  rewrite D2. reflexivity.
Qed.
End FramingProofs.
