(* Proofs/Config.v -- lemmas about Model/Config.v (C18). *)
From Coq Require Import String.
From Coq Require Import QArith Qabs Qminmax ZArith List Bool Arith Lia Lqa.
From Ropt Require Import Base.Num Base.ListX Model.Config.
Import ListNotations.
Open Scope Q_scope.

(* ---------------------------------------------------------------------------------------------
   outcomes
   --------------------------------------------------------------------------------------------- *)
Lemma bind_ok {A B} (o : outcome A) (f : A -> outcome B) b :
  bind o f = Ok b -> exists a, o = Ok a /\ f a = Ok b.
Proof. destruct o as [a| |]; cbn; intros H; [exists a; auto | discriminate | discriminate]. Qed.

Lemma guard_ok b u : guard b = Ok u -> b = true.
Proof. destruct b; [reflexivity | discriminate]. Qed.
Lemma supported_ok b u : supported b = Ok u -> b = true.
Proof. destruct b; [reflexivity | discriminate]. Qed.
Lemma guard_true : guard true = Ok tt. Proof. reflexivity. Qed.

Ltac inv_bind H :=
  let a := fresh "a" in let E := fresh "E" in
  apply bind_ok in H; destruct H as [a [E H]].
Tactic Notation "inv_bind_as" hyp(H) ident(a) ident(E) := apply bind_ok in H; destruct H as [a [E H]].

Lemma omap_ok {A B} (f : A -> outcome B) o r : omap f o = Ok r ->
  match o, r with
  | None, None => True
  | Some a, Some b => f a = Ok b
  | _, _ => False
  end.
Proof.
  destruct o as [a|]; cbn.
  - intros H. inv_bind H. injection H as <-. exact E.
  - intros H. injection H as <-. exact I.
Qed.

(* ---------------------------------------------------------------------------------------------
   broadcasts
   --------------------------------------------------------------------------------------------- *)
(* the broadcast of an array whose length is 1 or n *)
Definition expand {A} (n : nat) (l : list A) : list A := match l with [x] => repeat x n | _ => l end.

Lemma bcast_to_ok {A} n (l l' : list A) : bcast_to n l = Ok l' ->
  length l' = n /\ l' = expand n l /\ (length l = 1%nat \/ length l = n).
Proof.
  unfold bcast_to, expand. destruct l as [|x [|y t]].
  - destruct (Nat.eqb (length (@nil A)) n) eqn:E; [|discriminate]. apply Nat.eqb_eq in E.
    intros H; injection H as <-. auto.
  - intros H; injection H as <-. rewrite repeat_length. auto.
  - destruct (Nat.eqb (length (x :: y :: t)) n) eqn:E; [|discriminate]. apply Nat.eqb_eq in E.
    intros H; injection H as <-. auto.
Qed.

Lemma bcast_to_fixed {A} n (l : list A) : length l = n -> bcast_to n l = Ok l.
Proof.
  intros H. unfold bcast_to. destruct l as [|x [|y t]].
  - rewrite H, Nat.eqb_refl. reflexivity.
  - cbn in H. subst n. reflexivity.
  - rewrite H, Nat.eqb_refl. reflexivity.
Qed.

Lemma bcast_to_reject {A} n (l : list A) : length l <> 1%nat -> length l <> n -> bcast_to n l = Reject.
Proof.
  intros H1 Hn. unfold bcast_to. destruct l as [|x [|y t]]; try (cbn in H1; congruence);
    (destruct (Nat.eqb _ n) eqn:E; [apply Nat.eqb_eq in E; congruence | reflexivity]).
Qed.

Lemma broadcast1_ok {A} n (l l' : list A) : broadcast1 n l = Ok l' ->
  length l' = n /\ (n = 0%nat \/ (l' = expand n l /\ (length l = 1%nat \/ length l = n))).
Proof.
  unfold broadcast1. destruct (Nat.eqb n 0) eqn:E.
  - apply Nat.eqb_eq in E. intros H; injection H as <-. subst n. auto.
  - intros H. apply bcast_to_ok in H as [H1 [H2 H3]]. auto.
Qed.

Lemma broadcast1_fixed {A} n (l : list A) : length l = n -> broadcast1 n l = Ok l.
Proof.
  intros H. unfold broadcast1. destruct (Nat.eqb n 0) eqn:E.
  - apply Nat.eqb_eq in E. subst n. destruct l; [reflexivity | discriminate].
  - apply bcast_to_fixed; exact H.
Qed.

Lemma bcast_pair_ok {A} (a b a' b' : list A) : bcast_pair a b = Ok (a', b') ->
  length a' = length b' /\ a' = expand (length b) a /\ (b' = b \/ b' = expand (length a) b).
Proof.
  unfold bcast_pair, expand. destruct a as [|x [|x2 ta]].
  - destruct b as [|y [|y2 tb]]; cbn.
    + intros H; injection H as <- <-. auto.
    + intros H; injection H as <- <-. auto.
    + discriminate.
  - intros H; injection H as <- <-. rewrite repeat_length. auto.
  - destruct b as [|y [|y2 tb]].
    + discriminate.
    + intros H; injection H as <- <-. split; [cbn; rewrite repeat_length; reflexivity|]. split; [reflexivity | right; reflexivity].
    + destruct (Nat.eqb (length (x :: x2 :: ta)) (length (y :: y2 :: tb))) eqn:E; [|discriminate].
      apply Nat.eqb_eq in E. intros H; injection H as <- <-. auto.
Qed.

Lemma bcast_pair_fixed {A} (a b : list A) : length a = length b -> bcast_pair a b = Ok (a, b).
Proof.
  intros H. unfold bcast_pair. destruct a as [|x [|x2 ta]].
  - destruct b; [reflexivity | discriminate].
  - destruct b as [|y [|y2 tb]]; try discriminate. reflexivity.
  - destruct b as [|y [|y2 tb]]; try discriminate. rewrite H, Nat.eqb_refl. reflexivity.
Qed.

Lemma expand_length_fixed {A} n (l : list A) : length l = n -> expand n l = l.
Proof. intros H. unfold expand. destruct l as [|x [|y t]]; try reflexivity. cbn in H. subst n. reflexivity. Qed.

(* ---------------------------------------------------------------------------------------------
   normalize
   --------------------------------------------------------------------------------------------- *)
Lemma qsum_map_div l s : qsum (map (fun x => x / s) l) == qsum l / s.
Proof.
  induction l as [|x l IH]; cbn [map].
  - rewrite qsum_nil. unfold Qdiv. ring.
  - rewrite !qsum_cons, IH. unfold Qdiv. ring.
Qed.

Lemma float_eps_pos : 0 < float_eps.
Proof. reflexivity. Qed.

Lemma normalize_ok w w' : normalize w = Ok w' ->
  float_eps <= qsum w /\ w' = map (fun x => x / qsum w) w.
Proof.
  unfold normalize. cbn zeta. destruct (Qltb (qsum w) float_eps) eqn:E; [discriminate|].
  apply Qltb_nlt in E. intros H; injection H as <-. split; [lra | reflexivity].
Qed.

Lemma normalize_reject w : qsum w < float_eps -> normalize w = Reject.
Proof. intros H. unfold normalize. cbn zeta. apply Qltb_lt in H. rewrite H. reflexivity. Qed.

Lemma normalize_sum w w' : normalize w = Ok w' -> qsum w' == 1.
Proof.
  intros H. apply normalize_ok in H as [Hs ->]. rewrite qsum_map_div. pose proof float_eps_pos. field. lra.
Qed.

Lemma normalize_length w w' : normalize w = Ok w' -> length w' = length w.
Proof. intros H. apply normalize_ok in H as [_ ->]. apply map_length. Qed.

(* ratios are preserved: w_i * w'_j == w_j * w'_i; zeros stay zeros and only zeros become zero *)
Lemma normalize_ratio w w' i j a b a' b' : normalize w = Ok w' ->
  nth_error w i = Some a -> nth_error w j = Some b -> nth_error w' i = Some a' -> nth_error w' j = Some b' ->
  a * b' == b * a'.
Proof.
  intros H Ha Hb Ha' Hb'. apply normalize_ok in H as [Hs ->]. pose proof float_eps_pos.
  rewrite nth_error_map in Ha', Hb'. rewrite Ha in Ha'. rewrite Hb in Hb'. cbn in Ha', Hb'.
  injection Ha' as <-. injection Hb' as <-. field. lra.
Qed.

Lemma normalize_zero w w' i a a' : normalize w = Ok w' ->
  nth_error w i = Some a -> nth_error w' i = Some a' -> (a == 0 <-> a' == 0).
Proof.
  intros H Ha Ha'. apply normalize_ok in H as [Hs ->]. pose proof float_eps_pos.
  rewrite nth_error_map, Ha in Ha'. cbn in Ha'. injection Ha' as <-.
  assert (Hpos : 0 < qsum w) by lra. split; intros E.
  - rewrite E. unfold Qdiv. ring.
  - assert (E2 : a == (a / qsum w) * qsum w) by (field; lra). rewrite E2, E. ring.
Qed.

Lemma Qeqb_refl x : Qeqb x x = true.
Proof. apply Qeqb_eq. reflexivity. Qed.

Lemma qlist_eqb_refl l : qlist_eqb l l = true.
Proof. apply list_eqb_refl. exact Qeqb_refl. Qed.

Lemma qlist_eqb_map_ext (f : Q -> Q) l : (forall x, f x == x) -> qlist_eqb l (map f l) = true.
Proof.
  intros Hf. induction l as [|x l IH]; cbn; [reflexivity|].
  apply andb_true_intro. split; [apply Qeqb_eq; symmetry; apply Hf | exact IH].
Qed.

(* normalising normalised weights succeeds and changes nothing (up to ==) *)
Lemma normalize_again w w' : normalize w = Ok w' ->
  exists w'', normalize w' = Ok w'' /\ qlist_eqb w' w'' = true /\ length w'' = length w'.
Proof.
  intros H. pose proof (normalize_sum _ _ H) as Hs.
  unfold normalize. cbn zeta. destruct (Qltb (qsum w') float_eps) eqn:E.
  - apply Qltb_lt in E. rewrite Hs in E. unfold float_eps, Q_ in E. exfalso. revert E. apply Qle_not_lt. discriminate.
  - eexists. split; [reflexivity|]. split; [|apply map_length].
    apply qlist_eqb_map_ext. intros x. rewrite Hs. field.
Qed.

(* ---------------------------------------------------------------------------------------------
   thresholds
   --------------------------------------------------------------------------------------------- *)
Lemma clamp_min_spec m count :
  clamp_min m count = Some (match m with None => count | Some k => Nat.min k count end).
Proof.
  unfold clamp_min. destruct m as [k|]; [|reflexivity].
  destruct (Nat.ltb count k) eqn:E; [apply Nat.ltb_lt in E | apply Nat.ltb_ge in E]; f_equal; lia.
Qed.

Lemma clamp_min_idem m count : clamp_min (clamp_min m count) count = clamp_min m count.
Proof. rewrite !clamp_min_spec. destruct m as [k|]; f_equal; lia. Qed.

(* ---------------------------------------------------------------------------------------------
   enumerations
   --------------------------------------------------------------------------------------------- *)
Lemma enum_ok_forall lo hi l : enum_ok lo hi l = true <-> Forall (fun z => (lo <= z <= hi)%Z) l.
Proof.
  unfold enum_ok. rewrite forallb_forall, Forall_forall. split; intros H z Hz; specialize (H z Hz).
  - apply andb_prop in H as [H1 H2]. apply Z.leb_le in H1, H2. lia.
  - apply andb_true_intro. split; apply Z.leb_le; lia.
Qed.

Lemma enum_ok_expand lo hi n l : enum_ok lo hi l = true -> enum_ok lo hi (expand n l) = true.
Proof.
  rewrite !enum_ok_forall. unfold expand. destruct l as [|x [|y t]]; auto.
  intros H. inversion H; subst. apply Forall_forall. intros z Hz. apply repeat_spec in Hz. subst. assumption.
Qed.

Lemma enum_ok_broadcast1 lo hi n l l' : enum_ok lo hi l = true -> broadcast1 n l = Ok l' -> enum_ok lo hi l' = true.
Proof.
  intros He Hb. apply broadcast1_ok in Hb as [Hl [Hn|[-> _]]].
  - subst n. destruct l'; [reflexivity | discriminate].
  - apply enum_ok_expand; exact He.
Qed.

(* ---------------------------------------------------------------------------------------------
   map2 / scaler
   --------------------------------------------------------------------------------------------- *)
Lemma map2_length {A B C} (f : A -> B -> C) a b : length (map2 f a b) = Nat.min (length a) (length b).
Proof. unfold map2. rewrite map_length, combine_length. reflexivity. Qed.

Lemma scaler_ok_spec n sc : scaler_ok n sc = true ->
  (forall s, s_scales sc = Some s -> length s = n /\ Forall (fun x => 0 < x) s) /\
  (forall o, s_offsets sc = Some o -> length o = n).
Proof.
  unfold scaler_ok. intros H. apply andb_prop in H as [H1 H2]. split.
  - intros s Hs. rewrite Hs in H1. apply andb_prop in H1 as [Hl Hp]. apply Nat.eqb_eq in Hl. split; [exact Hl|].
    apply Forall_forall. intros x Hx. rewrite forallb_forall in Hp. apply Qltb_lt. apply Hp; exact Hx.
  - intros o Ho. rewrite Ho in H2. apply Nat.eqb_eq in H2. exact H2.
Qed.

Lemma to_opt_q_length n sc x : scaler_ok n sc = true -> length x = n -> length (to_opt_q sc x) = n.
Proof.
  intros Hsc Hx. apply scaler_ok_spec in Hsc as [Hs Ho]. unfold to_opt_q.
  assert (H1 : length (match s_offsets sc with None => x | Some o => map2 Qminus x o end) = n).
  { destruct (s_offsets sc) as [o|]; [|exact Hx]. rewrite map2_length, (Ho o eq_refl), Hx. apply Nat.min_id. }
  destruct (s_scales sc) as [s|]; [|exact H1]. destruct (Hs s eq_refl) as [Hl _]. rewrite map2_length, H1, Hl. apply Nat.min_id.
Qed.

Lemma to_opt_e_length n sc x : scaler_ok n sc = true -> length x = n -> length (to_opt_e sc x) = n.
Proof.
  intros Hsc Hx. apply scaler_ok_spec in Hsc as [Hs Ho]. unfold to_opt_e.
  assert (H1 : length (match s_offsets sc with None => x | Some o => map2 esub_r x o end) = n).
  { destruct (s_offsets sc) as [o|]; [|exact Hx]. rewrite map2_length, (Ho o eq_refl), Hx. apply Nat.min_id. }
  destruct (s_scales sc) as [s|]; [|exact H1]. destruct (Hs s eq_refl) as [Hl _]. rewrite map2_length, H1, Hl. apply Nat.min_id.
Qed.

(* ---------------------------------------------------------------------------------------------
   extended-real order under shift and positive scaling
   --------------------------------------------------------------------------------------------- *)
Lemma ele_shift_scale a b o s : 0 < s -> ele a b = true -> ele (ediv (esub_r a o) s) (ediv (esub_r b o) s) = true.
Proof.
  intros Hs H. destruct a as [|x|], b as [|y|]; cbn in *; try reflexivity; try discriminate.
  apply Qleb_le in H. apply Qleb_le. unfold Qdiv. apply Qmult_le_compat_r; [lra|].
  apply Qlt_le_weak, Qinv_lt_0_compat. exact Hs.
Qed.

Lemma any_gt_cons l u lo up : any_gt (l :: lo) (u :: up) = negb (ele l u) || any_gt lo up.
Proof. reflexivity. Qed.

Lemma any_gt_shift_scale lo up off es :
  Forall (fun e => 0 < e) es -> any_gt lo up = false ->
  any_gt (map2 ediv (map2 esub_r lo off) es) (map2 ediv (map2 esub_r up off) es) = false.
Proof.
  intros Hes. revert up off es Hes. induction lo as [|l lo IH]; intros up off es Hes H; [reflexivity|].
  destruct off as [|o off]; [reflexivity|]. destruct es as [|e es]; [reflexivity|].
  destruct up as [|u up]; [reflexivity|].
  rewrite any_gt_cons in H. apply orb_false_elim in H as [H1 H2]. apply negb_false_iff in H1.
  inversion Hes as [|? ? He Hes']; subst.
  unfold map2. cbn [combine map fst snd]. fold (map2 esub_r lo off) (map2 esub_r up off).
  fold (map2 ediv (map2 esub_r lo off) es) (map2 ediv (map2 esub_r up off) es).
  rewrite any_gt_cons. rewrite (ele_shift_scale l u o e He H1). cbn [negb orb]. apply IH; assumption.
Qed.

(* ---------------------------------------------------------------------------------------------
   reflexivity of the equivalence
   --------------------------------------------------------------------------------------------- *)
Lemma eeqb_refl e : eeqb e e = true.
Proof. destruct e; cbn; [reflexivity | apply Qeqb_refl | reflexivity]. Qed.
Lemma elist_eqb_refl l : elist_eqb l l = true.
Proof. apply list_eqb_refl. exact eeqb_refl. Qed.
Lemma zlist_eqb_refl l : zlist_eqb l l = true.
Proof. apply list_eqb_refl. exact Z.eqb_refl. Qed.
Lemma blist_eqb_refl l : list_eqb Bool.eqb l l = true.
Proof. apply list_eqb_refl. intros []; reflexivity. Qed.
Lemma option_eqb_refl {A} (e : A -> A -> bool) o : (forall x, e x x = true) -> option_eqb e o o = true.
Proof. intros H. destruct o; cbn; auto. Qed.
Lemma onat_eqb_refl o : onat_eqb o o = true.
Proof. apply option_eqb_refl. exact Nat.eqb_refl. Qed.

Lemma variables_equiv_refl v : variables_equiv v v = true.
Proof.
  unfold variables_equiv. rewrite qlist_eqb_refl, !elist_eqb_refl.
  rewrite (option_eqb_refl zlist_eqb _ zlist_eqb_refl), (option_eqb_refl _ _ blist_eqb_refl). reflexivity.
Qed.
Lemma gradient_equiv_refl g : gradient_equiv g g = true.
Proof. unfold gradient_equiv. rewrite Nat.eqb_refl, onat_eqb_refl, qlist_eqb_refl, !zlist_eqb_refl. reflexivity. Qed.
Lemma linear_equiv_refl l : linear_equiv l l = true.
Proof. unfold linear_equiv. rewrite (list_eqb_refl qlist_eqb qlist_eqb_refl), !elist_eqb_refl. reflexivity. Qed.
Lemma nonlinear_equiv_refl l : nonlinear_equiv l l = true.
Proof. unfold nonlinear_equiv. rewrite !elist_eqb_refl. reflexivity. Qed.

(* ---------------------------------------------------------------------------------------------
   VariablesConfig
   --------------------------------------------------------------------------------------------- *)
Definition ctx_ok (n : nat) (ctx : option scaler) : Prop :=
  match ctx with None => True | Some sc => scaler_ok n sc = true end.

Definition olen {A} (n : nat) (o : option (list A)) : Prop := match o with None => True | Some l => length l = n end.

Record variables_wf (E : enums) (n : nat) (v : variables) : Prop := {
  wf_initial : length (v_initial v) = n;
  wf_lower : length (v_lower v) = n;
  wf_upper : length (v_upper v) = n;
  wf_order : any_gt (v_lower v) (v_upper v) = false;
  wf_types : match v_types v with None => True | Some t => length t = n /\ enum_ok (vt_lo E) (vt_hi E) t = true end;
  wf_mask : olen n (v_mask v)
}.

Lemma validate_variables_unfold E ctx v v' : validate_variables E ctx v = Ok v' ->
  let n := length (v_initial v) in
  exists lo up ty mk,
    broadcast1 n (v_lower v) = Ok lo /\ broadcast1 n (v_upper v) = Ok up /\ ctx_ok n ctx /\
    any_gt (match ctx with None => lo | Some sc => to_opt_e sc lo end)
           (match ctx with None => up | Some sc => to_opt_e sc up end) = false /\
    omap (fun t => _ <- guard (enum_ok (vt_lo E) (vt_hi E) t) ;; broadcast1 n t) (v_types v) = Ok ty /\
    omap (broadcast1 n) (v_mask v) = Ok mk /\
    v' = {| v_initial := match ctx with None => v_initial v | Some sc => to_opt_q sc (v_initial v) end;
            v_lower := match ctx with None => lo | Some sc => to_opt_e sc lo end;
            v_upper := match ctx with None => up | Some sc => to_opt_e sc up end;
            v_types := ty; v_mask := mk |}.
Proof.
  unfold validate_variables. cbn zeta. intros H.
  inv_bind_as H lo Hlo. inv_bind_as H up Hup. inv_bind_as H u1 Hctx. inv_bind_as H u2 Hgt.
  inv_bind_as H ty Hty. inv_bind_as H mk Hmk.
  injection H as <-. exists lo, up, ty, mk.
  split; [exact Hlo|]. split; [exact Hup|]. split.
  { destruct ctx as [sc|]; [apply supported_ok in Hctx; exact Hctx | exact I]. }
  split; [apply guard_ok in Hgt; apply negb_true_iff in Hgt; exact Hgt|].
  split; [exact Hty|]. split; [exact Hmk | reflexivity].
Qed.

Lemma validate_variables_wf E ctx v v' : validate_variables E ctx v = Ok v' ->
  variables_wf E (length (v_initial v)) v' /\ ctx_ok (length (v_initial v)) ctx.
Proof.
  intros H. apply validate_variables_unfold in H. cbn zeta in H.
  destruct H as [lo [up [ty [mk [Hlo [Hup [Hctx [Hgt [Hty [Hmk ->]]]]]]]]]].
  set (n := length (v_initial v)) in *.
  apply broadcast1_ok in Hlo as [Hlo _]. apply broadcast1_ok in Hup as [Hup _].
  split; [|exact Hctx]. constructor; cbn.
  - destruct ctx as [sc|]; [apply to_opt_q_length; [exact Hctx | reflexivity] | reflexivity].
  - destruct ctx as [sc|]; [apply to_opt_e_length; assumption | exact Hlo].
  - destruct ctx as [sc|]; [apply to_opt_e_length; assumption | exact Hup].
  - exact Hgt.
  - apply omap_ok in Hty. destruct (v_types v) as [t|], ty as [t'|]; try contradiction; [|exact I].
    inv_bind_as Hty u Hg. apply guard_ok in Hg. split.
    + apply broadcast1_ok in Hty as [Hl _]. exact Hl.
    + eapply enum_ok_broadcast1; eassumption.
  - apply omap_ok in Hmk. destruct (v_mask v) as [m|], mk as [m'|]; try contradiction; [|exact I].
    cbn. apply broadcast1_ok in Hmk as [Hl _]. exact Hl.
Qed.

(* a well-formed variables section validates to itself without a context *)
Lemma validate_variables_fixed E n v : variables_wf E n v -> validate_variables E None v = Ok v.
Proof.
  intros [Hi Hl Hu Hgt Hty Hmk]. unfold validate_variables. cbn zeta. rewrite Hi.
  rewrite (broadcast1_fixed n _ Hl). cbn [bind]. rewrite (broadcast1_fixed n _ Hu). cbn [bind].
  rewrite Hgt. cbn [negb guard bind].
  destruct v as [ini lo up ty mk]; cbn in *.
  destruct ty as [t|]; cbn [omap bind].
  - destruct Hty as [Htl Hte]. rewrite Hte. cbn [guard bind]. rewrite (broadcast1_fixed n _ Htl). cbn [bind].
    destruct mk as [m|]; cbn [omap bind]; [rewrite (broadcast1_fixed n _ Hmk); reflexivity | reflexivity].
  - destruct mk as [m|]; cbn [omap bind]; [rewrite (broadcast1_fixed n _ Hmk); reflexivity | reflexivity].
Qed.

Lemma validate_variables_idem E ctx v v' :
  validate_variables E ctx v = Ok v' -> validate_variables E None v' = Ok v'.
Proof. intros H. apply validate_variables_wf in H as [H _]. eapply validate_variables_fixed; exact H. Qed.

(* ---------------------------------------------------------------------------------------------
   GradientConfig
   --------------------------------------------------------------------------------------------- *)
Record enums_wf (E : enums) : Prop := {
  ewf_abs_range : (pt_lo E <= pt_abs E <= pt_hi E)%Z;
  ewf_abs_rel : pt_abs E <> pt_rel E
}.

Record gradient_wf (E : enums) (n : nat) (g : gradient) : Prop := {
  gwf_P : (0 < g_P g)%nat;
  gwf_pmin : exists k, g_pmin g = Some k /\ (0 < k <= g_P g)%nat;
  gwf_mags : length (g_mags g) = n;
  gwf_ptypes_len : length (g_ptypes g) = n;
  gwf_ptypes_enum : enum_ok (pt_lo E) (pt_hi E) (g_ptypes g) = true;
  gwf_ptypes_abs : Forall (fun t => t <> pt_rel E) (g_ptypes g);
  gwf_btypes_len : length (g_btypes g) = n;
  gwf_btypes_enum : enum_ok (bt_lo E) (bt_hi E) (g_btypes g) = true
}.

Lemma relative_scale_ok rel ty lo up m r : relative_scale rel ty lo up m = Ok r ->
  length r = length m /\ length ty = length m /\ length lo = length m /\ length up = length m.
Proof.
  revert lo up m r. induction ty as [|t ty IH]; intros lo up m r H.
  - destruct lo, up, m; cbn in H; try discriminate. injection H as <-. auto.
  - destruct lo as [|l lo], up as [|u up], m as [|x m]; cbn in H; try discriminate.
    inv_bind_as H r' Hr. destruct (IH _ _ _ _ Hr) as [H1 [H2 [H3 H4]]].
    destruct (Z.eqb t rel).
    + destruct l, u; try discriminate. injection H as <-. cbn. auto.
    + injection H as <-. cbn. auto.
Qed.

Lemma relative_scale_norel rel ty lo up m : Forall (fun t => t <> rel) ty ->
  length ty = length m -> length lo = length m -> length up = length m ->
  relative_scale rel ty lo up m = Ok m.
Proof.
  revert lo up m. induction ty as [|t ty IH]; intros lo up m Hall Ht Hl Hu.
  - destruct m; [|discriminate]. destruct lo; [|discriminate]. destruct up; [|discriminate]. reflexivity.
  - destruct m as [|x m]; [discriminate|]. destruct lo as [|l lo]; [discriminate|]. destruct up as [|u up]; [discriminate|].
    inversion Hall as [|? ? Hne Hall']; subst. cbn in Ht, Hl, Hu. cbn [relative_scale].
    rewrite IH by (try assumption; lia). cbn [bind].
    destruct (Z.eqb t rel) eqn:E; [apply Z.eqb_eq in E; contradiction | reflexivity].
Qed.

(* an accepted relative entry has finite bounds, and its magnitude is scaled by the bound range *)
Lemma relative_scale_entry rel ty lo up m r i t x : relative_scale rel ty lo up m = Ok r ->
  nth_error ty i = Some t -> nth_error m i = Some x ->
  if Z.eqb t rel
  then exists a b, nth_error lo i = Some (Fin a) /\ nth_error up i = Some (Fin b) /\ nth_error r i = Some ((b - a) * x)
  else nth_error r i = Some x.
Proof.
  revert lo up m r i. induction ty as [|t0 ty IH]; intros lo up m r i H Ht Hx; [destruct i; discriminate|].
  destruct lo as [|l lo], up as [|u up], m as [|x0 m]; cbn in H; try discriminate.
  inv_bind_as H r' Hr. destruct i as [|i]; cbn in Ht, Hx.
  - injection Ht as ->. injection Hx as ->. destruct (Z.eqb t rel).
    + destruct l as [|a|], u as [|b|]; try discriminate. injection H as <-. exists a, b. auto.
    + injection H as <-. reflexivity.
  - assert (Hr' : nth_error r (S i) = nth_error r' i).
    { destruct (Z.eqb t0 rel); [destruct l, u; try discriminate|]; injection H as <-; reflexivity. }
    specialize (IH _ _ _ _ i Hr Ht Hx). destruct (Z.eqb t rel).
    + destruct IH as [a [b [Ha [Hb Hri]]]]. exists a, b. rewrite Hr'. cbn [nth_error]. auto.
    + rewrite Hr'. exact IH.
Qed.

Lemma select_abs_length abs ty tr m : length (select_abs abs ty tr m) = Nat.min (length ty) (Nat.min (length tr) (length m)).
Proof. unfold select_abs. rewrite map_length, !combine_length. reflexivity. Qed.

Lemma mags_to_opt_length n sc m : scaler_ok n sc = true -> length m = n -> length (mags_to_opt sc m) = n.
Proof.
  intros Hsc Hm. apply scaler_ok_spec in Hsc as [Hs _]. unfold mags_to_opt.
  destruct (s_scales sc) as [s|]; [|exact Hm]. destruct (Hs s eq_refl) as [Hl _]. rewrite map2_length, Hm, Hl. apply Nat.min_id.
Qed.

Lemma validate_gradient_fields_ok E g g1 : validate_gradient_fields E g = Ok g1 ->
  (0 < g_P g)%nat /\ g_pmin g <> Some 0%nat /\
  enum_ok (pt_lo E) (pt_hi E) (g_ptypes g) = true /\ enum_ok (bt_lo E) (bt_hi E) (g_btypes g) = true /\
  g1 = {| g_P := g_P g; g_pmin := clamp_min (g_pmin g) (g_P g); g_mags := g_mags g;
          g_ptypes := g_ptypes g; g_btypes := g_btypes g |}.
Proof.
  unfold validate_gradient_fields. intros H.
  inv_bind_as H u1 H1. inv_bind_as H u2 H2. inv_bind_as H u3 H3. inv_bind_as H u4 H4. injection H as <-.
  apply guard_ok in H1, H2, H3, H4. apply Nat.ltb_lt in H1.
  split; [exact H1|]. split; [|auto]. intros Hp. rewrite Hp in H2. discriminate.
Qed.

Lemma fix_perturbations_unfold E ctx vars g g2 : fix_perturbations E ctx vars g = Ok g2 ->
  let n := length (v_initial vars) in
  exists mags bt ty mags',
    bcast_to n (g_mags g) = Ok mags /\ bcast_to n (g_btypes g) = Ok bt /\ bcast_to n (g_ptypes g) = Ok ty /\
    relative_scale (pt_rel E) ty (v_lower vars) (v_upper vars) mags = Ok mags' /\
    g2 = {| g_P := g_P g; g_pmin := g_pmin g;
            g_mags := match ctx with None => mags' | Some sc => select_abs (pt_abs E) ty (mags_to_opt sc mags') mags' end;
            g_ptypes := map (fun t => if Z.eqb t (pt_rel E) then pt_abs E else t) ty; g_btypes := bt |}.
Proof.
  unfold fix_perturbations. cbn zeta. intros H.
  inv_bind_as H mags Hm. inv_bind_as H bt Hb. inv_bind_as H ty Ht. inv_bind_as H mags' Hr. injection H as <-.
  exists mags, bt, ty, mags'. auto.
Qed.

Lemma gradient_validated_wf E ctx n vars g g1 g2 :
  enums_wf E -> length (v_initial vars) = n -> ctx_ok n ctx ->
  validate_gradient_fields E g = Ok g1 -> fix_perturbations E ctx vars g1 = Ok g2 ->
  gradient_wf E n g2.
Proof.
  intros [Habs Hne] Hn Hctx H1 H2.
  apply validate_gradient_fields_ok in H1 as [HP [Hpm [Hpt [Hbt ->]]]].
  apply fix_perturbations_unfold in H2. cbn zeta in H2. rewrite Hn in H2. cbn [g_mags g_btypes g_ptypes g_P g_pmin] in H2.
  destruct H2 as [mags [bt [ty [mags' [Hm [Hb [Ht [Hr ->]]]]]]]].
  apply bcast_to_ok in Hm as [Hml _]. apply bcast_to_ok in Hb as [Hbl [Hbe _]]. apply bcast_to_ok in Ht as [Htl [Hte _]].
  apply relative_scale_ok in Hr as [Hrl _].
  constructor; cbn [g_P g_pmin g_mags g_ptypes g_btypes].
  - exact HP.
  - rewrite clamp_min_spec. eexists. split; [reflexivity|]. destruct (g_pmin g) as [k|]; [|lia].
    assert (k <> 0)%nat by (intros ->; apply Hpm; reflexivity). lia.
  - destruct ctx as [sc|]; [|lia]. rewrite select_abs_length, (mags_to_opt_length n) by (try exact Hctx; lia). lia.
  - rewrite map_length. exact Htl.
  - subst ty. pose proof (enum_ok_expand _ _ n _ Hpt) as He. rewrite enum_ok_forall in He |- *.
    apply Forall_forall. intros z Hz. apply in_map_iff in Hz as [t [<- Hin]].
    rewrite Forall_forall in He. destruct (Z.eqb t (pt_rel E)); [exact Habs | apply He; exact Hin].
  - apply Forall_forall. intros z Hz. apply in_map_iff in Hz as [t [<- Hin]].
    destruct (Z.eqb t (pt_rel E)) eqn:Et; [exact Hne | apply Z.eqb_neq; exact Et].
  - exact Hbl.
  - subst bt. apply enum_ok_expand; exact Hbt.
Qed.

Lemma map_id_ext {A} (f : A -> A) l : Forall (fun x => f x = x) l -> map f l = l.
Proof. induction 1 as [|x l Hx _ IH]; cbn; [reflexivity | rewrite Hx, IH; reflexivity]. Qed.

(* a well-formed gradient section validates to itself without a context *)
Lemma gradient_fixed E n vars g : variables_wf E n vars -> gradient_wf E n g ->
  validate_gradient_fields E g = Ok g /\ fix_perturbations E None vars g = Ok g.
Proof.
  intros Hv [HP [k [Hk Hkr]] Hm Htl Hte Hta Hbl Hbe]. destruct Hv as [Hi Hl Hu _ _ _].
  destruct g as [P pmin mags pt bt]; cbn [g_P g_pmin g_mags g_ptypes g_btypes] in *. subst pmin. split.
  - unfold validate_gradient_fields. cbn [g_P g_pmin g_ptypes g_btypes g_mags].
    apply Nat.ltb_lt in HP. rewrite HP. cbn [guard bind]. destruct k as [|k']; [lia|]. cbn [guard bind].
    rewrite Hte, Hbe. cbn [guard bind]. rewrite clamp_min_spec. do 3 f_equal. lia.
  - unfold fix_perturbations. cbn zeta. cbn [g_P g_pmin g_ptypes g_btypes g_mags]. rewrite Hi.
    rewrite (bcast_to_fixed n _ Hm), (bcast_to_fixed n _ Hbl), (bcast_to_fixed n _ Htl). cbn [bind].
    rewrite relative_scale_norel by (try assumption; lia). cbn [bind].
    rewrite map_id_ext; [reflexivity|].
    apply Forall_forall. intros t Ht. rewrite Forall_forall in Hta. specialize (Hta t Ht).
    destruct (Z.eqb t (pt_rel E)) eqn:Et; [apply Z.eqb_eq in Et; contradiction | reflexivity].
Qed.
