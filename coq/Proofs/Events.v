(* Proofs/Events.v -- lemmas about the delivery / abort machine Model/Events.v (C15).
   Route (spike Abort_prefix_closure.v): a simulation invariant -- "with abort index k a program
   returns the prefix of its unaborted log cut after entry k, followed by the FINISHED events of the
   steps it had open, and raises; indices outside its span leave it unchanged" -- holds for single
   deliveries and is closed under sequencing and under the step wrapper. *)
From Coq Require Import List Bool Arith Lia.
From Ropt Require Import Model.Step Model.Events.
Import ListNotations.
Open Scope nat_scope.
Local Arguments firstn : simpl never.
Local Arguments skipn : simpl never.

(* ---------------------------------------------------------------------------------------------
   list helpers
   --------------------------------------------------------------------------------------------- *)
Lemma firstn_app_le {A} n (a b : list A) : n <= length a -> firstn n (a ++ b) = firstn n a.
Proof. intros H. rewrite firstn_app. replace (n - length a) with 0 by lia. rewrite firstn_O. apply app_nil_r. Qed.
Lemma firstn_app_ge {A} n (a b : list A) : length a <= n -> firstn n (a ++ b) = a ++ firstn (n - length a) b.
Proof. intros H. rewrite firstn_app. rewrite firstn_all2 by lia. reflexivity. Qed.
Lemma firstn_S_cons {A} n (x : A) l : firstn (S n) (x :: l) = x :: firstn n l.
Proof. reflexivity. Qed.

(* ---------------------------------------------------------------------------------------------
   delivering one event
   --------------------------------------------------------------------------------------------- *)
Lemma block_length rc sid e : length (block rc sid e) = length rc.
Proof. apply map_length. Qed.

Lemma deliver_none rc sid e : forall log, deliver None rc sid e log = (log ++ block rc sid e, false).
Proof.
  induction rc as [|r t IH]; intros log; cbn.
  - now rewrite app_nil_r.
  - rewrite IH. now rewrite <- app_assoc.
Qed.

Lemma deliver_out k rc sid e : forall log,
  k < length log \/ length log + length rc <= k ->
  deliver (Some k) rc sid e log = (log ++ block rc sid e, false).
Proof.
  induction rc as [|r t IH]; intros log H; cbn.
  - now rewrite app_nil_r.
  - destruct (Nat.eqb_spec (length log) k) as [E|E]; [cbn in H; lia|].
    rewrite IH; [now rewrite <- app_assoc|]. rewrite app_length; cbn in *. lia.
Qed.

Lemma deliver_in k rc sid e : forall log,
  length log <= k < length log + length rc ->
  deliver (Some k) rc sid e log = (log ++ firstn (S (k - length log)) (block rc sid e), true).
Proof.
  induction rc as [|r t IH]; intros log H; cbn in *; [lia|].
  destruct (Nat.eqb_spec (length log) k) as [E|E].
  - subst k. replace (length log - length log) with 0 by lia. reflexivity.
  - rewrite IH by (rewrite app_length; cbn; lia).
    rewrite app_length; cbn. rewrite <- app_assoc. cbn.
    replace (k - length log) with (S (k - (length log + 1))) by lia. reflexivity.
Qed.

(* ---------------------------------------------------------------------------------------------
   scanning for open steps
   --------------------------------------------------------------------------------------------- *)
Lemma scan_app a : forall b st, scan (a ++ b) st = scan b (scan a st).
Proof.
  induction a as [|x a IH]; intros b st; [reflexivity|]. cbn.
  destruct x as [r sid e|]; [|apply IH].
  destruct (is_start e).
  - destruct st as [|[s f] st']; [apply IH|]. destruct (s =? sid); apply IH.
  - destruct (is_fin e); [|apply IH].
    destruct st as [|[s f] st']; [apply IH|]. destruct (s =? sid); apply IH.
Qed.

(* step ids whose START/FINISHED events occur in a log segment *)
Fixpoint step_sids (l : list entry) : list nat :=
  match l with
  | [] => []
  | Deliv _ sid e :: t => if is_start e || is_fin e then sid :: step_sids t else step_sids t
  | Call :: t => step_sids t
  end.

Lemma step_sids_app a b : step_sids (a ++ b) = step_sids a ++ step_sids b.
Proof.
  induction a as [|x a IH]; [reflexivity|]. cbn. destruct x as [r sid e|]; [|exact IH].
  destruct (is_start e || is_fin e); cbn; now rewrite IH.
Qed.

Lemma step_sids_firstn_incl n : forall l s, In s (step_sids (firstn n l)) -> In s (step_sids l).
Proof.
  induction n as [|n IH]; intros l s H; [rewrite firstn_O in H; destruct H|].
  destruct l as [|x l]; [rewrite firstn_nil in H; destruct H|].
  rewrite firstn_S_cons in H. cbn in *. destruct x as [r sid e|]; [|now apply IH].
  destruct (is_start e || is_fin e); [|now apply IH].
  destruct H as [H|H]; [now left | right; now apply IH].
Qed.

(* a segment that never mentions the steps of the base stack works on top of it *)
Lemma scan_base l : forall st1 st,
  (forall s, In s (step_sids l) -> ~ In s (map fst st)) ->
  scan l (st1 ++ st) = scan l st1 ++ st.
Proof.
  induction l as [|x l IH]; intros st1 st H; [reflexivity|].
  destruct x as [r sid e|]; [|cbn in *; now apply IH].
  cbn [scan]. cbn [step_sids] in H.
  destruct (is_start e) eqn:Es.
  - cbn [orb] in H.
    assert (H' : forall s, In s (step_sids l) -> ~ In s (map fst st)) by (intros s Hs; apply H; now right).
    destruct st1 as [|[s f] st1']; cbn [app].
    + destruct st as [|[s' f'] st'].
      * exact (IH [(sid, fin_for e)] [] H').
      * destruct (Nat.eqb_spec s' sid) as [E|E].
        -- exfalso. apply (H sid); [now left | cbn; now left].
        -- exact (IH [(sid, fin_for e)] ((s', f') :: st') H').
    + destruct (s =? sid); [exact (IH ((s, f) :: st1') st H') | exact (IH ((sid, fin_for e) :: (s, f) :: st1') st H')].
  - destruct (is_fin e) eqn:Ef.
    + cbn [orb] in H.
      assert (H' : forall s, In s (step_sids l) -> ~ In s (map fst st)) by (intros s Hs; apply H; now right).
      destruct st1 as [|[s f] st1']; cbn [app].
      * destruct st as [|[s' f'] st'].
        -- exact (IH [] [] H').
        -- destruct (Nat.eqb_spec s' sid) as [E|E].
           ++ exfalso. apply (H sid); [now left | cbn; now left].
           ++ exact (IH [] ((s', f') :: st') H').
      * destruct (s =? sid); [exact (IH st1' st H') | exact (IH ((s, f) :: st1') st H')].
    + cbn [orb] in H. exact (IH st1 st H).
Qed.

Corollary scan_base0 l st :
  (forall s, In s (step_sids l) -> ~ In s (map fst st)) -> scan l st = scan l [] ++ st.
Proof. intros H. exact (scan_base l [] st H). Qed.

(* blocks *)
Lemma scan_block_other rc sid e st : is_start e = false -> is_fin e = false -> scan (block rc sid e) st = st.
Proof. intros Hs Hf. induction rc as [|r t IH]; [reflexivity|]. cbn. now rewrite Hs, Hf. Qed.

Lemma scan_block_start_top rc sid e f st : is_start e = true -> scan (block rc sid e) ((sid, f) :: st) = (sid, f) :: st.
Proof. intros Hs. induction rc as [|r t IH]; [reflexivity|]. cbn. now rewrite Hs, Nat.eqb_refl. Qed.

Lemma scan_block_start rc sid e st : rc <> [] -> is_start e = true -> ~ In sid (map fst st) ->
  scan (block rc sid e) st = (sid, fin_for e) :: st.
Proof.
  intros Hrc Hs Hin. destruct rc as [|r t]; [congruence|]. cbn. rewrite Hs.
  destruct st as [|[s f] st'].
  - now apply scan_block_start_top.
  - destruct (Nat.eqb_spec s sid) as [E|E]; [exfalso; apply Hin; cbn; now left|].
    now apply scan_block_start_top.
Qed.

Lemma is_start_not_fin e : is_start e = true -> is_fin e = false.
Proof. destruct e; cbn; congruence. Qed.

Lemma scan_block_fin_absent rc sid e st : is_fin e = true -> ~ In sid (map fst st) -> scan (block rc sid e) st = st.
Proof.
  intros Hf Hin. induction rc as [|r t IH]; [reflexivity|]. cbn.
  destruct (is_start e) eqn:Es; [apply is_start_not_fin in Es; congruence|]. rewrite Hf.
  destruct st as [|[s f] st']; [exact IH|].
  destruct (Nat.eqb_spec s sid) as [E|E]; [exfalso; apply Hin; cbn; now left | exact IH].
Qed.

Lemma scan_block_fin rc sid e f st : rc <> [] -> is_fin e = true -> ~ In sid (map fst st) ->
  scan (block rc sid e) ((sid, f) :: st) = st.
Proof.
  intros Hrc Hf Hin. destruct rc as [|r t]; [congruence|]. cbn.
  destruct (is_start e) eqn:Es; [apply is_start_not_fin in Es; congruence|]. rewrite Hf, Nat.eqb_refl.
  now apply (scan_block_fin_absent t sid e st).
Qed.

Lemma firstn_block n rc sid e : firstn n (block rc sid e) = block (firstn n rc) sid e.
Proof. unfold block. now rewrite firstn_map. Qed.

Lemma step_sids_block rc sid e s : In s (step_sids (block rc sid e)) -> s = sid.
Proof.
  induction rc as [|r t IH]; cbn; [tauto|]. destruct (is_start e || is_fin e); [|exact IH].
  intros [H|H]; [now symmetry | now apply IH].
Qed.
Lemma step_sids_block_other rc sid e : is_start e = false -> is_fin e = false -> step_sids (block rc sid e) = [].
Proof. intros Hs Hf. induction rc as [|r t IH]; [reflexivity|]. cbn. now rewrite Hs, Hf. Qed.

(* ---------------------------------------------------------------------------------------------
   the unaborted trace: step ids, balance
   --------------------------------------------------------------------------------------------- *)
Section World.
Variable w : world.
Hypothesis rc_nonempty : forall lvl e, recipients w lvl e <> [].

Lemma start_of_is_start sk : is_start (start_of sk) = true. Proof. now destruct sk. Qed.
Lemma fin_of_is_fin sk : is_fin (fin_of sk) = true. Proof. now destruct sk. Qed.
Lemma fin_for_start sk : fin_for (start_of sk) = fin_of sk. Proof. now destruct sk. Qed.

Lemma trace_sids p : wf p -> forall s, In s (step_sids (trace w p)) -> In s (ids p).
Proof.
  induction p as [| sid e | | p IHp q IHq | sid sk ex body IH]; cbn [trace ids wf]; unfold eblock; intros Hwf s H.
  - destruct H.
  - destruct Hwf as [Hs Hf]. now rewrite (step_sids_block_other _ _ _ Hs Hf) in H.
  - destruct H.
  - destruct Hwf as [Hp Hq]. rewrite step_sids_app in H. apply in_or_app.
    apply in_app_or in H as [H|H]; [left; now apply IHp | right; now apply IHq].
  - destruct Hwf as [Hn Hb]. rewrite !step_sids_app in H.
    apply in_app_or in H as [H|H]; [left; symmetry; exact (step_sids_block _ _ _ _ H)|].
    apply in_app_or in H as [H|H]; [right; now apply IH | left; symmetry; exact (step_sids_block _ _ _ _ H)].
Qed.

(* a complete program leaves the stack of open steps as it found it *)
Lemma trace_balanced p : wf p -> forall st,
  (forall s, In s (ids p) -> ~ In s (map fst st)) -> scan (trace w p) st = st.
Proof.
  induction p as [| sid e | | p IHp q IHq | sid sk ex body IH]; cbn [trace ids wf]; unfold eblock; intros Hwf st Hd.
  - reflexivity.
  - destruct Hwf as [Hs Hf]. now apply scan_block_other.
  - reflexivity.
  - destruct Hwf as [Hp Hq]. rewrite scan_app, IHp, IHq; auto.
    + intros s Hs. apply Hd. apply in_or_app. now right.
    + intros s Hs. apply Hd. apply in_or_app. now left.
  - destruct Hwf as [Hn Hb]. rewrite !scan_app.
    rewrite (scan_block_start _ sid (start_of sk) st); [| apply rc_nonempty | apply start_of_is_start | apply Hd; now left].
    rewrite fin_for_start.
    rewrite IH; [| exact Hb |].
    + apply scan_block_fin; [apply rc_nonempty | apply fin_of_is_fin | apply Hd; now left].
    + intros s Hs [E|Hin]; cbn in *; [subst s; contradiction | apply (Hd s); [now right | exact Hin]].
Qed.

(* ---------------------------------------------------------------------------------------------
   the simulation invariant
   --------------------------------------------------------------------------------------------- *)
Definition cut (t : list entry) (j : nat) : list entry :=
  firstn (S j) t ++ closure w (scan (firstn (S j) t) []).

Definition sim (p : prog) : Prop := forall log,
  exec w p None log = (log ++ trace w p, false, rets p) /\
  (forall k, k < length log \/ length log + length (trace w p) <= k ->
     exec w p (Some k) log = (log ++ trace w p, false, rets p)) /\
  (forall k, length log <= k < length log + length (trace w p) ->
     fst (fst (exec w p (Some k) log)) = log ++ cut (trace w p) (k - length log) /\
     snd (fst (exec w p (Some k) log)) = true /\
     snd (exec w p (Some k) log) = arets w p (k - length log)).

Lemma closure_app a b : closure w (a ++ b) = closure w a ++ closure w b.
Proof. unfold closure. apply flat_map_app. Qed.

Lemma sim_skip : sim PSkip.
Proof.
  intros log. cbn. rewrite app_nil_r. repeat split; try reflexivity; exfalso; lia.
Qed.

Lemma sim_call : sim PCall.
Proof.
  intros log. cbn [exec trace rets hit length]. repeat split.
  - intros k H. cbn. destruct (Nat.eqb_spec (length log) k); [lia | reflexivity].
  - cbn. replace (k - length log) with 0 by lia. reflexivity.
  - cbn. destruct (Nat.eqb_spec (length log) k); [reflexivity | lia].
Qed.

Lemma sim_emit sid e : is_start e = false -> is_fin e = false -> sim (PEmit sid e).
Proof.
  intros Hs Hf log. cbn [exec trace rets]. unfold eblock. set (rc := recipients w (level_of sid) e). repeat split.
  - now rewrite deliver_none.
  - intros k H. rewrite block_length in H. now rewrite deliver_out.
  - rewrite block_length in H. rewrite deliver_in by exact H. cbn. unfold cut.
    rewrite firstn_block, scan_block_other by assumption. cbn. now rewrite app_nil_r.
  - rewrite block_length in H. now rewrite deliver_in.
  - rewrite block_length in H. now rewrite deliver_in.
Qed.

Lemma sim_seq p q : wf p -> sim p -> sim q -> sim (PSeq p q).
Proof.
  intros Hwp Hp Hq log. cbn [exec trace rets].
  destruct (Hp log) as (Hp0 & Hp1 & Hp2).
  destruct (Hq (log ++ trace w p)) as (Hq0 & Hq1 & Hq2).
  rewrite app_length in Hq1, Hq2.
  repeat split.
  - rewrite Hp0, Hq0. now rewrite app_assoc.
  - intros k H. rewrite app_length in H. rewrite Hp1 by lia. rewrite Hq1 by lia. now rewrite app_assoc.
  - rewrite app_length in H.
    destruct (le_lt_dec (length log + length (trace w p)) k) as [Hge|Hlt].
    + rewrite Hp1 by lia. destruct (Hq2 k ltac:(lia)) as (Hl & _).
      destruct (exec w q (Some k) (log ++ trace w p)) as [[l2 r2] x2]. cbn in *. rewrite Hl.
      unfold cut. rewrite <- app_assoc. f_equal.
      rewrite firstn_app_ge by lia.
      replace (S (k - length log) - length (trace w p)) with (S (k - (length log + length (trace w p)))) by lia.
      rewrite <- app_assoc. f_equal. f_equal. f_equal.
      rewrite scan_app. now rewrite (trace_balanced p Hwp []) by (intros s _ []).
    + destruct (Hp2 k ltac:(lia)) as (Hl & Hr & _).
      destruct (exec w p (Some k) log) as [[l1 r1] x1]. cbn in *. subst r1. cbn. rewrite Hl.
      unfold cut. now rewrite firstn_app_le by lia.
  - rewrite app_length in H.
    destruct (le_lt_dec (length log + length (trace w p)) k) as [Hge|Hlt].
    + rewrite Hp1 by lia. destruct (Hq2 k ltac:(lia)) as (_ & Hr & _).
      destruct (exec w q (Some k) (log ++ trace w p)) as [[l2 r2] x2]. cbn in *. exact Hr.
    + destruct (Hp2 k ltac:(lia)) as (_ & Hr & _).
      destruct (exec w p (Some k) log) as [[l1 r1] x1]. cbn in *. subst r1. reflexivity.
  - rewrite app_length in H. cbn [arets].
    destruct (le_lt_dec (length log + length (trace w p)) k) as [Hge|Hlt].
    + destruct (Nat.ltb_spec (k - length log) (length (trace w p))); [lia|].
      rewrite Hp1 by lia. destruct (Hq2 k ltac:(lia)) as (_ & _ & Hx).
      destruct (exec w q (Some k) (log ++ trace w p)) as [[l2 r2] x2]. cbn in *. rewrite Hx.
      f_equal. f_equal. lia.
    + destruct (Nat.ltb_spec (k - length log) (length (trace w p))); [|lia].
      destruct (Hp2 k ltac:(lia)) as (_ & Hr & Hx).
      destruct (exec w p (Some k) log) as [[l1 r1] x1]. cbn in *. subst r1. exact Hx.
Qed.

Lemma sim_step sid sk ex body :
  ~ In sid (ids body) -> wf body -> ex <> UserAbort -> sim body -> sim (PStep sid sk ex body).
Proof.
  intros Hn Hwb Hex Hb log. cbn [exec trace rets]. unfold eblock.
  set (rcs := recipients w (level_of sid) (start_of sk)). set (rcf := recipients w (level_of sid) (fin_of sk)).
  assert (Hrcs : rcs <> []) by apply rc_nonempty.
  assert (Hrcf : rcf <> []) by apply rc_nonempty.
  set (bs := block rcs sid (start_of sk)). set (bf := block rcf sid (fin_of sk)).
  assert (Lbs : length bs = length rcs) by apply block_length.
  assert (Lbf : length bf = length rcf) by apply block_length.
  assert (Hposs : 0 < length rcs) by (destruct rcs; [congruence | cbn; lia]).
  assert (Hposf : 0 < length rcf) by (destruct rcf; [congruence | cbn; lia]).
  assert (Hnab : is_abort ex = false) by (destruct ex; try reflexivity; congruence).
  destruct (Hb (log ++ bs)) as (Hb0 & Hb1 & Hb2). rewrite app_length, Lbs in Hb1, Hb2.
  assert (Hbal : scan (trace w body) [(sid, fin_of sk)] = [(sid, fin_of sk)]).
  { apply trace_balanced; [exact Hwb|]. intros s Hs [E|[]]. cbn in E. subst s. contradiction. }
  assert (Hclo : closure w [(sid, fin_of sk)] = bf).
  { unfold closure. cbn. now rewrite app_nil_r. }
  repeat split.
  - (* nobody aborts *)
    rewrite deliver_none. fold bs. rewrite Hb0. rewrite deliver_none. fold bf.
    rewrite Hnab. now rewrite <- !app_assoc.
  - (* abort index outside the step *)
    intros k H. rewrite !app_length, Lbs, Lbf in H.
    rewrite deliver_out by lia. fold bs. rewrite Hb1 by lia.
    rewrite deliver_out by (rewrite !app_length, Lbs; lia). fold bf.
    rewrite Hnab. now rewrite <- !app_assoc.
  - (* abort inside: the log *)
    rewrite !app_length, Lbs, Lbf in H.
    destruct (le_lt_dec (length log + length rcs) k) as [H1|H1].
    + destruct (le_lt_dec (length log + length rcs + length (trace w body)) k) as [H2|H2].
      * (* while FINISHED is delivered: plain prefix *)
        rewrite deliver_out by lia. fold bs. rewrite Hb1 by lia.
        rewrite deliver_in by (rewrite !app_length, Lbs; lia). fold bf. cbn [fst snd].
        rewrite !app_length, Lbs. unfold cut.
        rewrite <- !app_assoc. f_equal.
        rewrite firstn_app_ge by lia. rewrite <- app_assoc. f_equal.
        rewrite firstn_app_ge by lia. rewrite <- app_assoc. f_equal.
        replace (S (k - length log) - length bs - length (trace w body))
          with (S (k - (length log + length rcs + length (trace w body)))) by lia.
        set (j := S (k - (length log + length rcs + length (trace w body)))).
        rewrite !scan_app.
        unfold bs at 1. rewrite (scan_block_start rcs sid (start_of sk) []); [| exact Hrcs | apply start_of_is_start | intros []].
        rewrite fin_for_start, Hbal. unfold bf. rewrite firstn_block.
        rewrite scan_block_fin; [cbn; now rewrite app_nil_r | | apply fin_of_is_fin | intros []].
        subst j. destruct rcf; [congruence|]. rewrite firstn_S_cons. discriminate.
      * (* inside the body *)
        rewrite deliver_out by lia. fold bs.
        destruct (Hb2 k ltac:(lia)) as (Hl & Hr & _).
        destruct (exec w body (Some k) (log ++ bs)) as [[l1 r1] x1]. cbn [fst snd] in Hl, Hr. subst r1 l1.
        rewrite deliver_out.
        2:{ left. rewrite !app_length, Lbs. unfold cut. rewrite !app_length, firstn_length. lia. }
        fold bf. cbn [fst snd]. unfold cut.
        rewrite <- !app_assoc. f_equal.
        rewrite firstn_app_ge by lia. rewrite <- app_assoc. f_equal.
        replace (S (k - length log) - length bs) with (S (k - (length log + length rcs))) by lia.
        set (j := S (k - (length log + length rcs))).
        rewrite firstn_app_le by (subst j; lia).
        f_equal.
        rewrite scan_app.
        unfold bs at 1. rewrite (scan_block_start rcs sid (start_of sk) []); [| exact Hrcs | apply start_of_is_start | intros []].
        rewrite fin_for_start.
        rewrite (scan_base0 (firstn j (trace w body)) [(sid, fin_of sk)]).
        2:{ intros s Hs [E|[]]. cbn in E. subst s. apply Hn.
            apply (trace_sids body Hwb). exact (step_sids_firstn_incl _ _ _ Hs). }
        rewrite closure_app. f_equal. symmetry. exact Hclo.
    + (* while START is delivered *)
      rewrite deliver_in by lia. fold bs. cbn [fst snd].
      rewrite deliver_out.
      2:{ left. rewrite app_length, firstn_length, Lbs. lia. }
      fold bf. cbn [fst snd]. unfold cut.
      rewrite <- !app_assoc. f_equal.
      rewrite firstn_app_le by lia. f_equal.
      unfold bs. rewrite firstn_block.
      rewrite scan_block_start; [| | apply start_of_is_start | intros []].
      * rewrite fin_for_start. symmetry. exact Hclo.
      * destruct rcs; [congruence|]. rewrite firstn_S_cons. discriminate.
  - (* abort inside: it is reported *)
    rewrite !app_length, Lbs, Lbf in H.
    destruct (le_lt_dec (length log + length rcs) k) as [H1|H1].
    + destruct (le_lt_dec (length log + length rcs + length (trace w body)) k) as [H2|H2].
      * rewrite deliver_out by lia. fold bs. rewrite Hb1 by lia.
        rewrite deliver_in by (rewrite !app_length, Lbs; lia). reflexivity.
      * rewrite deliver_out by lia. fold bs.
        destruct (Hb2 k ltac:(lia)) as (Hl & Hr & _).
        destruct (exec w body (Some k) (log ++ bs)) as [[l1 r1] x1]. cbn [fst snd] in Hl, Hr. subst r1.
        destruct (deliver (Some k) rcf sid (fin_of sk) l1) as [l2 r2]. cbn. now destruct r2.
    + rewrite deliver_in by lia. cbn [fst snd].
      destruct (deliver (Some k) rcf sid (fin_of sk) (log ++ firstn (S (k - length log)) (block rcs sid (start_of sk)))) as [l2 r2].
      cbn. now destruct r2.
  - (* abort inside: exit codes *)
    rewrite !app_length, Lbs, Lbf in H. cbn [arets]. fold rcs. unfold eblock. fold rcs.
    destruct (le_lt_dec (length log + length rcs) k) as [H1|H1].
    + destruct (Nat.ltb_spec (k - length log) (length rcs)); [lia|].
      destruct (le_lt_dec (length log + length rcs + length (trace w body)) k) as [H2|H2].
      * destruct (Nat.ltb_spec (k - length log) (length rcs + length (trace w body))); [lia|].
        rewrite deliver_out by lia. fold bs. rewrite Hb1 by lia.
        rewrite deliver_in by (rewrite !app_length, Lbs; lia). reflexivity.
      * destruct (Nat.ltb_spec (k - length log) (length rcs + length (trace w body))); [|lia].
        rewrite deliver_out by lia. fold bs.
        destruct (Hb2 k ltac:(lia)) as (Hl & Hr & Hx).
        destruct (exec w body (Some k) (log ++ bs)) as [[l1 r1] x1]. cbn [fst snd] in Hl, Hr, Hx. subst r1 x1.
        destruct (deliver (Some k) rcf sid (fin_of sk) l1) as [l2 r2]. cbn.
        replace (k - length log - length rcs) with (k - (length log + length rcs)) by lia. now destruct r2.
    + destruct (Nat.ltb_spec (k - length log) (length rcs)); [|lia].
      rewrite deliver_in by lia. cbn [fst snd].
      destruct (deliver (Some k) rcf sid (fin_of sk) (log ++ firstn (S (k - length log)) (block rcs sid (start_of sk)))) as [l2 r2].
      cbn. now destruct r2.
Qed.

Theorem sim_all p : wf p -> quiet p -> sim p.
Proof.
  induction p as [| sid e | | p IHp q IHq | sid sk ex body IH]; cbn [wf quiet]; intros Hwf Hq.
  - apply sim_skip.
  - destruct Hwf. now apply sim_emit.
  - apply sim_call.
  - destruct Hwf, Hq. apply sim_seq; auto.
  - destruct Hwf, Hq. apply sim_step; auto.
Qed.

End World.

(* ---------------------------------------------------------------------------------------------
   sequences of run_step calls
   --------------------------------------------------------------------------------------------- *)
Section Top.
Variable w : world.
Hypothesis rc_nonempty : forall lvl e, recipients w lvl e <> [].

Definition full_log (ps : list prog) : list entry := flat_map (trace w) ps.

Lemma run_steps_refused ps k log : run_steps w ps k log true = (log, refused ps, true).
Proof.
  induction ps as [|p t IH]; [reflexivity|]. cbn [run_steps]. rewrite IH. reflexivity.
Qed.

Lemma exits_app a b : exits (a ++ b) = exits a ++ exits b.
Proof. unfold exits. apply map_app. Qed.

(* nobody aborts, or the abort index lies outside the log *)
Lemma full_log_cons p t : full_log (p :: t) = trace w p ++ full_log t.
Proof. reflexivity. Qed.

Theorem run_steps_unaborted ps : Forall wf ps -> Forall quiet ps -> forall k log,
  (k = None \/ exists n, k = Some n /\ (n < length log \/ length log + length (full_log ps) <= n)) ->
  run_steps w ps k log false = (log ++ full_log ps, exits (flat_map rets ps), false).
Proof.
  induction ps as [|p t IH]; intros Hw Hq k log Hk.
  - cbn. now rewrite app_nil_r.
  - inversion Hw as [|? ? Hwp Hwt]; inversion Hq as [|? ? Hqp Hqt]; subst.
    rewrite full_log_cons in *. cbn [run_steps flat_map].
    destruct (sim_all w rc_nonempty p Hwp Hqp log) as (H0 & H1 & _).
    assert (He : exec w p k log = (log ++ trace w p, false, rets p)).
    { destruct Hk as [->|(n & -> & Hn)]; [exact H0|]. apply H1. rewrite app_length in Hn. lia. }
    rewrite He. rewrite (IH Hwt Hqt k (log ++ trace w p)).
    + rewrite <- app_assoc. now rewrite exits_app.
    + destruct Hk as [->|(n & -> & Hn)]; [now left|]. right. exists n. split; [reflexivity|].
      rewrite !app_length in *. lia.
Qed.

(* entry number k of the log aborts *)
Theorem run_steps_aborted ps : Forall wf ps -> Forall quiet ps -> forall k log,
  length log <= k < length log + length (full_log ps) ->
  run_steps w ps (Some k) log false =
    (log ++ cut w (full_log ps) (k - length log), top_rets w ps (k - length log), true).
Proof.
  induction ps as [|p t IH]; intros Hw Hq k log Hk.
  - cbn in Hk. lia.
  - inversion Hw as [|? ? Hwp Hwt]; inversion Hq as [|? ? Hqp Hqt]; subst.
    rewrite full_log_cons in *. cbn [run_steps top_rets]. rewrite app_length in Hk.
    destruct (sim_all w rc_nonempty p Hwp Hqp log) as (H0 & H1 & H2).
    destruct (le_lt_dec (length log + length (trace w p)) k) as [Hge|Hlt].
    + destruct (Nat.ltb_spec (k - length log) (length (trace w p))); [lia|].
      rewrite H1 by lia. rewrite (IH Hwt Hqt k (log ++ trace w p)) by (rewrite app_length; lia).
      rewrite app_length.
      assert (E1 : (log ++ trace w p) ++ cut w (full_log t) (k - (length log + length (trace w p)))
                   = log ++ cut w (trace w p ++ full_log t) (k - length log)).
      { unfold cut. rewrite <- !app_assoc. f_equal.
        rewrite firstn_app_ge by lia. rewrite <- app_assoc. f_equal.
        replace (S (k - length log) - length (trace w p)) with (S (k - (length log + length (trace w p)))) by lia.
        f_equal. f_equal. rewrite scan_app.
        now rewrite (trace_balanced w rc_nonempty p Hwp []) by (intros s _ []). }
      assert (E2 : k - (length log + length (trace w p)) = k - length log - length (trace w p)) by lia.
      rewrite E1, E2. reflexivity.
    + destruct (Nat.ltb_spec (k - length log) (length (trace w p))); [|lia].
      destruct (H2 k ltac:(lia)) as (Hl & Hr & Hx).
      destruct (exec w p (Some k) log) as [[l1 r1] x1]. cbn [fst snd] in Hl, Hr, Hx. subst l1 r1 x1.
      rewrite run_steps_refused.
      assert (E1 : cut w (trace w p) (k - length log) = cut w (trace w p ++ full_log t) (k - length log)).
      { unfold cut. now rewrite firstn_app_le by lia. }
      rewrite E1. reflexivity.
Qed.

(* the sharpest form: aborted log = predict (unaborted log) *)
Theorem prefix_closure ps k : Forall wf ps -> Forall quiet ps ->
  fst (fst (run_steps w ps None [] false)) = full_log ps /\
  fst (fst (run_steps w ps (Some k) [] false)) = predict w (full_log ps) (Some k).
Proof.
  intros Hw Hq. split.
  - rewrite (run_steps_unaborted ps Hw Hq None []) by now left. reflexivity.
  - cbn [predict]. destruct (Nat.ltb_spec k (length (full_log ps))) as [Hlt|Hge].
    + rewrite (run_steps_aborted ps Hw Hq k []) by (cbn; lia). cbn. now rewrite Nat.sub_0_r.
    + rewrite (run_steps_unaborted ps Hw Hq (Some k) []); [reflexivity|].
      right. exists k. split; [reflexivity|]. cbn. lia.
Qed.

(* abort anywhere => the plan is marked aborted, the steps containing the entry return USER_ABORT,
   later run_step calls raise PlanAborted; no abort => nothing of the kind *)
Theorem abort_latches ps k : Forall wf ps -> Forall quiet ps ->
  let '(_, x, ab) := run_steps w ps (Some k) [] false in
  if k <? length (full_log ps) then ab = true /\ x = top_rets w ps k
  else ab = false /\ x = exits (flat_map rets ps).
Proof.
  intros Hw Hq. destruct (Nat.ltb_spec k (length (full_log ps))) as [Hlt|Hge].
  - rewrite (run_steps_aborted ps Hw Hq k []) by (cbn; lia). cbn. now rewrite Nat.sub_0_r.
  - rewrite (run_steps_unaborted ps Hw Hq (Some k) []); [split; reflexivity|].
    right. exists k. split; [reflexivity|]. cbn. lia.
Qed.

End Top.

(* a step that reports an abort returns USER_ABORT; every step whose span contains the aborting entry
   is the last element of its own [arets] *)
Lemma arets_step_last w sid sk ex body j :
  exists x, arets w (PStep sid sk ex body) j = x ++ [(sid, UserAbort)].
Proof. cbn [arets]. eexists. reflexivity. Qed.

Lemma exec_step_raised w sid sk ex body k log l x :
  exec w (PStep sid sk ex body) k log = (l, true, x) -> exists x', x = x' ++ [(sid, UserAbort)].
Proof.
  cbn [exec]. destruct (deliver k (recipients w (level_of sid) (start_of sk)) sid (start_of sk) log) as [l0 r0].
  destruct (if r0 then (l0, true, []) else exec w body k l0) as [[l1 r1] x1].
  destruct (deliver k (recipients w (level_of sid) (fin_of sk)) sid (fin_of sk) l1) as [l2 r2].
  intros H. injection H as _ Hr <-. exists x1. f_equal. f_equal.
  destruct r2; [reflexivity|]. destruct r1; [reflexivity|]. destruct ex; cbn in Hr; congruence.
Qed.

(* top-level: the aborted step reports USER_ABORT and every later one is refused *)
Lemma top_rets_shape w ps j : j < length (flat_map (trace w) ps) ->
  exists pre p post jp, ps = pre ++ p :: post /\ jp < length (trace w p) /\
    top_rets w ps j = exits (flat_map rets pre) ++ exits (arets w p jp) ++ refused post.
Proof.
  revert j; induction ps as [|p t IH]; intros j Hj; cbn [flat_map] in Hj; [cbn in Hj; lia|].
  rewrite app_length in Hj. cbn [top_rets].
  destruct (Nat.ltb_spec j (length (trace w p))) as [Hlt|Hge].
  - exists [], p, t, j. split; [reflexivity|]. split; [exact Hlt|]. reflexivity.
  - destruct (IH (j - length (trace w p)) ltac:(lia)) as (pre & q & post & jp & -> & Hjp & ->).
    exists (p :: pre), q, post, jp. split; [reflexivity|]. split; [exact Hjp|].
    cbn [flat_map]. unfold exits. rewrite map_app. now rewrite <- app_assoc.
Qed.

(* ---------------------------------------------------------------------------------------------
   delivery order
   --------------------------------------------------------------------------------------------- *)
Lemma recipients_up_concat path obs : recipients_up path obs = concat path ++ obs.
Proof. induction path as [|h t IH]; [reflexivity|]. cbn. rewrite IH. now rewrite app_assoc. Qed.

(* own handlers first, then the ancestors outward, the observers last *)
Theorem recipients_order w lvl e :
  recipients w lvl e = concat (rev (firstn (S lvl) (plans w))) ++ obsv w e.
Proof. unfold recipients, path_of. apply recipients_up_concat. Qed.

Lemma nodup_app_l {A} (a b : list A) : NoDup (a ++ b) -> NoDup a.
Proof.
  induction a as [|x a IH]; intros H; [constructor|]. cbn in H. inversion H as [|? ? Hx Hr]; subst.
  constructor; [intros Hc; apply Hx; apply in_or_app; now left | now apply IH].
Qed.
Lemma nodup_app_r {A} (a b : list A) : NoDup (a ++ b) -> NoDup b.
Proof. induction a as [|x a IH]; intros H; [exact H|]. cbn in H. inversion H; subst. now apply IH. Qed.
Lemma nodup_app_disj {A} (a b : list A) x : NoDup (a ++ b) -> In x a -> ~ In x b.
Proof.
  induction a as [|y a IH]; intros H Ha Hb; [destruct Ha|]. cbn in H. inversion H as [|? ? Hy Hr]; subst.
  destruct Ha as [->|Ha]; [apply Hy; apply in_or_app; now right | exact (IH Hr Ha Hb)].
Qed.
Lemma nodup_app_intro {A} (a b : list A) :
  NoDup a -> NoDup b -> (forall x, In x a -> ~ In x b) -> NoDup (a ++ b).
Proof.
  induction a as [|x a IH]; intros Ha Hb Hd; [exact Hb|]. cbn. inversion Ha as [|? ? Hx Hr]; subst. constructor.
  - intros Hc. apply in_app_or in Hc as [Hc|Hc]; [contradiction | apply (Hd x); [now left | exact Hc]].
  - apply IH; auto. intros y Hy. apply Hd. now right.
Qed.

Lemma concat_rev_incl {A} (l : list (list A)) x : In x (concat (rev l)) <-> In x (concat l).
Proof.
  rewrite !in_concat. split; intros (h & Hh & Hx); exists h; split; auto; [now apply in_rev | now apply in_rev in Hh].
Qed.

Lemma NoDup_concat_rev {A} (l : list (list A)) : NoDup (concat l) -> NoDup (concat (rev l)).
Proof.
  induction l as [|h t IH]; [trivial|]. cbn. intros H.
  rewrite concat_app. cbn. rewrite app_nil_r.
  apply nodup_app_intro; [apply IH; exact (nodup_app_r _ _ H) | exact (nodup_app_l _ _ H) |].
  intros x Hx Hh. apply (proj1 (concat_rev_incl _ _)) in Hx. exact (nodup_app_disj _ _ x H Hh Hx).
Qed.

Lemma in_concat_firstn {A} n : forall (l : list (list A)) x, In x (concat (firstn n l)) -> In x (concat l).
Proof.
  induction n as [|n IH]; intros l x H; [rewrite firstn_O in H; destruct H|].
  destruct l as [|h t]; [rewrite firstn_nil in H; destruct H|]. rewrite firstn_S_cons in H. cbn in *.
  apply in_app_or in H as [H|H]; apply in_or_app; [now left | right; now apply IH].
Qed.

Lemma firstn_concat_NoDup {A} n : forall (l : list (list A)), NoDup (concat l) -> NoDup (concat (firstn n l)).
Proof.
  induction n as [|n IH]; intros l H; [rewrite firstn_O; constructor|].
  destruct l as [|h t]; [rewrite firstn_nil; constructor|]. rewrite firstn_S_cons. cbn in *.
  apply nodup_app_intro; [exact (nodup_app_l _ _ H) | apply IH; exact (nodup_app_r _ _ H) |].
  intros x Hx Hc. apply in_concat_firstn in Hc. exact (nodup_app_disj _ _ x H Hx Hc).
Qed.

(* exactly once: distinct handlers and observers give a duplicate-free recipient list *)
Theorem recipients_nodup w lvl e : NoDup (concat (plans w) ++ obsv w e) -> NoDup (recipients w lvl e).
Proof.
  intros H. rewrite recipients_order.
  apply nodup_app_intro.
  - apply NoDup_concat_rev. apply firstn_concat_NoDup. exact (nodup_app_l _ _ H).
  - exact (nodup_app_r _ _ H).
  - intros x Hx Ho. apply (proj1 (concat_rev_incl _ _)) in Hx. apply in_concat_firstn in Hx.
    exact (nodup_app_disj _ _ x H Hx Ho).
Qed.

(* membership: the handlers of the emitting plan and of its ancestors, and the observers *)
Theorem recipients_members w lvl e r :
  In r (recipients w lvl e) <-> In r (concat (firstn (S lvl) (plans w))) \/ In r (obsv w e).
Proof.
  rewrite recipients_order, in_app_iff. now rewrite concat_rev_incl.
Qed.

(* an event that nobody aborts is delivered as one contiguous block, once to every recipient *)
Theorem emit_delivery w sid e log :
  exec w (PEmit sid e) None log = (log ++ eblock w sid e, false, []).
Proof. cbn [exec]. now rewrite deliver_none. Qed.

Lemma count_block_once rc sid e r : NoDup rc -> In r rc ->
  length (filter (fun en => match en with Deliv r' _ _ => r' =? r | Call => false end) (block rc sid e)) = 1.
Proof.
  induction rc as [|a t IH]; intros Hnd Hin; [destruct Hin|]. inversion Hnd as [|? ? Ha Ht]; subst. cbn.
  destruct (Nat.eqb_spec a r) as [E|E].
  - subst a. cbn. f_equal. clear IH Hin Hnd Ht. induction t as [|b t IHt]; [reflexivity|]. cbn.
    destruct (Nat.eqb_spec b r) as [E|E]; [subst b; exfalso; apply Ha; now left|].
    apply IHt. intros Hc. apply Ha. now right.
  - destruct Hin as [Hin|Hin]; [congruence|]. now apply IH.
Qed.
