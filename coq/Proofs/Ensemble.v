(* Proofs/Ensemble.v -- lemmas about Model/Ensemble.v (C01, C03). *)
From Coq Require Import String QArith Qabs List Bool Arith ZArith Lia Lqa.
From Ropt Require Import Base.Num Base.ListX Gen.Generated Model.Ensemble.
Import ListNotations.
Open Scope Q_scope.

Lemma weighted_objective_dot ow objs : weighted_objective ow objs = rdot ow objs.
Proof. reflexivity. Qed.
