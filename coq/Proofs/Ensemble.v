(* Proofs/Ensemble.v -- lemmas about Model/Ensemble.v (C01, C03).

   1-5   element-wise ==, the reduced sums rsum/rdot are the plain sums, gather, weight vectors that vanish at
         the failed positions, zero_failed / normalize
   6     "as if absent": every estimated function of the full ensemble equals that of the ensemble with the
         failed realizations deleted (mean, variance, abort and 0/0 branches alike)
   7     the two estimators against their textbook specification over the survivors
   8     gradients: the least-squares system sees only the successful perturbations; the combined mean / stddev
         gradient of the full ensemble equals that of the reduced ensemble (for any solver returning nv entries)
   9-11  factorisation of estimate_all, rows of the filtered weight matrices, batch layout
   12    failure flags, thresholds, the realization_min_success gate, exit codes *)
From Coq Require Import String QArith Qabs List Bool Arith ZArith Lia Lqa.
From Ropt Require Import Base.Num Base.ListX Gen.Generated Model.Ensemble.
Import ListNotations.
Open Scope Q_scope.


(* ================================================================================================ *)
(* 1. element-wise == on vectors                                                                     *)

Lemma veq_refl a : veq a a.
Proof. induction a as [|x a IH]; constructor; [reflexivity | exact IH]. Qed.
Lemma veq_sym a b : veq a b -> veq b a.
Proof. induction 1 as [|x y a b Hxy _ IH]; constructor; [symmetry; exact Hxy | exact IH]. Qed.
Lemma veq_trans a b c : veq a b -> veq b c -> veq a c.
Proof.
  intros Hab; revert c; induction Hab as [|x y a b Hxy _ IH]; intros c Hbc; inversion Hbc as [|y' z b' c' Hyz Hbc']; subst.
  - constructor.
  - constructor; [rewrite Hxy; exact Hyz | apply IH; exact Hbc'].
Qed.
Lemma veq_length a b : veq a b -> length a = length b.
Proof. induction 1 as [|x y a b _ _ IH]; cbn; [reflexivity | rewrite IH; reflexivity]. Qed.
Lemma veq_map_ext (g h : Q -> Q) l : (forall x, g x == h x) -> veq (map g l) (map h l).
Proof. intros H; induction l as [|x l IH]; cbn [map]; constructor; [apply H | exact IH]. Qed.

(* ================================================================================================ *)
(* 2. the reduced sums of the model are the plain sums                                               *)
Lemma rsum_cons x l : rsum (x :: l) = Qred (x + rsum l).
Proof. reflexivity. Qed.
Lemma rsum_qsum l : rsum l == qsum l.
Proof.
  induction l as [|x l IH]; [rewrite qsum_nil; reflexivity|].
  rewrite rsum_cons, qsum_cons, Qred_correct, IH. reflexivity.
Qed.
Lemma rdot_cons x a y b : rdot (x :: a) (y :: b) = Qred (Qred (x * y) + rdot a b).
Proof. reflexivity. Qed.
Lemma dot_nil_r a : dot a [] = 0.
Proof. unfold dot. destruct a; cbn [combine map]; apply qsum_nil. Qed.
Lemma rdot_nil_r a : rdot a [] = 0.
Proof. unfold rdot. destruct a; reflexivity. Qed.
Lemma rdot_dot a b : rdot a b == dot a b.
Proof.
  revert b; induction a as [|x a IH]; intros [|y b].
  - rewrite dot_nil_l. reflexivity.
  - rewrite dot_nil_l. reflexivity.
  - rewrite dot_nil_r, rdot_nil_r. reflexivity.
  - rewrite rdot_cons, dot_cons, !Qred_correct, IH. reflexivity.
Qed.

Lemma dot_proper a a' w w' : veq a a' -> veq w w' -> dot a w == dot a' w'.
Proof.
  intros Ha; revert w w'; induction Ha as [|x x' a a' Hx _ IH]; intros w w' Hw.
  - rewrite !dot_nil_l. reflexivity.
  - inversion Hw as [|v v' u u' Hv Hu]; subst; [rewrite !dot_nil_r; reflexivity|].
    rewrite !dot_cons, Hx, Hv, (IH _ _ Hu). reflexivity.
Qed.

Lemma dot_div_r s a b : dot a (map (fun x => Qred (x / s)) b) == dot a b / s.
Proof.
  revert b; induction a as [|x a IH]; intros [|y b]; cbn [map].
  - rewrite !dot_nil_l. unfold Qdiv. ring.
  - rewrite !dot_nil_l. unfold Qdiv. ring.
  - rewrite !dot_nil_r. unfold Qdiv. ring.
  - rewrite !dot_cons, IH, Qred_correct. unfold Qdiv. ring.
Qed.
Lemma qsum_div_r s b : qsum (map (fun x => Qred (x / s)) b) == qsum b / s.
Proof.
  induction b as [|y b IH]; cbn [map]; [rewrite qsum_nil; unfold Qdiv; ring|].
  rewrite !qsum_cons, IH, Qred_correct. unfold Qdiv. ring.
Qed.

(* ================================================================================================ *)
(* 3. gather                                                                                          *)
Lemma gather_nil {A} (m : list bool) : gather m (@nil A) = [].
Proof. destruct m as [|[] m]; reflexivity. Qed.
Lemma combine_nil_r {A B} (l : list A) : combine l (@nil B) = [].
Proof. destruct l; reflexivity. Qed.
Lemma gather_map {A B} (f : A -> B) m l : gather m (map f l) = map f (gather m l).
Proof.
  revert l; induction m as [|b m IH]; intros [|x l]; cbn [map gather]; try reflexivity.
  - destruct b; reflexivity.
  - destruct b; cbn [map]; rewrite IH; reflexivity.
Qed.
Lemma gather_combine {A B} m (a : list A) (b : list B) :
  gather m (combine a b) = combine (gather m a) (gather m b).
Proof.
  revert a b; induction m as [|c m IH]; intros [|x a] [|y b]; try reflexivity; destruct c; cbn [combine gather]; try reflexivity.
  - rewrite combine_nil_r. reflexivity.
  - rewrite IH. reflexivity.
  - apply IH.
Qed.
Lemma gather_length {A} m (l : list A) : length l = length m -> length (gather m l) = count_true m.
Proof.
  revert l; induction m as [|b m IH]; intros [|x l] H; cbn in H; try discriminate; [reflexivity|].
  injection H as H. unfold count_true in *. destruct b; cbn [gather filter length]; rewrite IH by exact H; reflexivity.
Qed.
Lemma gather_veq m a b : veq a b -> veq (gather m a) (gather m b).
Proof.
  intros H; revert m; induction H as [|x y a b Hxy _ IH]; intros m; [rewrite !gather_nil; constructor|].
  destruct m as [|[] m]; cbn [gather]; [constructor | constructor; [exact Hxy | apply IH] | apply IH].
Qed.
Lemma keep_of_cons b failed : keep_of (b :: failed) = negb b :: keep_of failed.
Proof. reflexivity. Qed.
Lemma count_ok_keep failed : count_ok failed = count_true (keep_of failed).
Proof. reflexivity. Qed.
Lemma keep_of_length failed : length (keep_of failed) = length failed.
Proof. unfold keep_of. apply map_length. Qed.

(* ================================================================================================ *)
(* 4. weight vectors that vanish at the failed positions                                              *)
Definition zeros_at (failed : list bool) (w : list Q) : Prop :=
  Forall2 (fun (b : bool) (v : Q) => b = true -> v == 0) failed w.

Lemma zeros_at_map (g : Q -> Q) failed w : (forall v, v == 0 -> g v == 0) -> zeros_at failed w -> zeros_at failed (map g w).
Proof. intros Hg H; induction H as [|b v failed w Hb _ IH]; cbn [map]; constructor; [intros E; apply Hg, Hb, E | exact IH]. Qed.

Lemma dot_gather failed w a : zeros_at failed w ->
  dot a w == dot (gather (keep_of failed) a) (gather (keep_of failed) w).
Proof.
  intros H; revert a; induction H as [|b v failed w Hb _ IH]; intros [|x a]; rewrite ?keep_of_cons.
  - cbn [gather]. reflexivity.
  - cbn [gather keep_of map]. rewrite !dot_nil_r. reflexivity.
  - rewrite gather_nil, !dot_nil_l. reflexivity.
  - destruct b; cbn [negb gather]; rewrite !dot_cons, (IH a).
    + rewrite (Hb eq_refl). ring.
    + reflexivity.
Qed.
Lemma qsum_gather failed w : zeros_at failed w -> qsum w == qsum (gather (keep_of failed) w).
Proof.
  induction 1 as [|b v failed w Hb _ IH]; [reflexivity|].
  rewrite keep_of_cons. destruct b; cbn [negb gather]; rewrite !qsum_cons, IH; [rewrite (Hb eq_refl); ring | reflexivity].
Qed.

Lemma Qeqb_proper a b : a == b -> Qeqb a 0 = Qeqb b 0.
Proof.
  intros H. destruct (Qeqb a 0) eqn:Ea, (Qeqb b 0) eqn:Eb; try reflexivity.
  - apply Qeqb_eq in Ea. apply Qeqb_neq in Eb. exfalso. apply Eb. rewrite <- H. exact Ea.
  - apply Qeqb_neq in Ea. apply Qeqb_eq in Eb. exfalso. apply Ea. rewrite H. exact Eb.
Qed.
Lemma Qltb_proper a b : a == b -> Qltb 0 a = Qltb 0 b.
Proof.
  intros H. destruct (Qltb 0 a) eqn:Ea, (Qltb 0 b) eqn:Eb; try reflexivity.
  - apply Qltb_lt in Ea. apply Qltb_nlt in Eb. lra.
  - apply Qltb_nlt in Ea. apply Qltb_lt in Eb. lra.
Qed.
Lemma Qeqb_0_true a : a == 0 -> Qeqb a 0 = true.
Proof. intros H. apply Qeqb_eq. exact H. Qed.
Lemma Qltb_0_false a : a == 0 -> Qltb 0 a = false.
Proof. intros H. apply Qltb_nlt. lra. Qed.

Lemma count_nonzero_cons v w : count_nonzero (v :: w) = ((if Qeqb v 0 then 0 else 1) + count_nonzero w)%nat.
Proof. unfold count_nonzero. cbn [filter]. destruct (Qeqb v 0); reflexivity. Qed.
Lemma count_pos_cons v w : count_pos (v :: w) = ((if Qltb 0 v then 1 else 0) + count_pos w)%nat.
Proof. unfold count_pos. cbn [filter]. destruct (Qltb 0 v); reflexivity. Qed.
Lemma count_nonzero_veq w w' : veq w w' -> count_nonzero w = count_nonzero w'.
Proof. induction 1 as [|v v' w w' Hv _ IH]; [reflexivity|]. rewrite !count_nonzero_cons, (Qeqb_proper _ _ Hv), IH. reflexivity. Qed.
Lemma count_pos_veq w w' : veq w w' -> count_pos w = count_pos w'.
Proof. induction 1 as [|v v' w w' Hv _ IH]; [reflexivity|]. rewrite !count_pos_cons, (Qltb_proper _ _ Hv), IH. reflexivity. Qed.
Lemma count_nonzero_gather failed w : zeros_at failed w -> count_nonzero w = count_nonzero (gather (keep_of failed) w).
Proof.
  induction 1 as [|b v failed w Hb _ IH]; [reflexivity|]. rewrite keep_of_cons.
  destruct b; cbn [negb gather]; rewrite !count_nonzero_cons, IH; [rewrite (Qeqb_0_true _ (Hb eq_refl))|]; reflexivity.
Qed.
Lemma count_pos_gather failed w : zeros_at failed w -> count_pos w = count_pos (gather (keep_of failed) w).
Proof.
  induction 1 as [|b v failed w Hb _ IH]; [reflexivity|]. rewrite keep_of_cons.
  destruct b; cbn [negb gather]; rewrite !count_pos_cons, IH; [rewrite (Qltb_0_false _ (Hb eq_refl))|]; reflexivity.
Qed.

(* ================================================================================================ *)
(* 5. zero_failed and normalize                                                                       *)
Lemma zero_failed_cons b failed v w : zero_failed (b :: failed) (v :: w) = (if b then 0 else v) :: zero_failed failed w.
Proof. reflexivity. Qed.
Lemma zero_failed_nil_r failed : zero_failed failed [] = [].
Proof. unfold zero_failed. rewrite combine_nil_r. reflexivity. Qed.
Lemma zero_failed_zeros failed w : length w = length failed -> zeros_at failed (zero_failed failed w).
Proof.
  revert w; induction failed as [|b failed IH]; intros [|v w] H; cbn in H; try discriminate; [constructor|].
  injection H as H. rewrite zero_failed_cons. constructor; [intros ->; reflexivity | apply IH; exact H].
Qed.
Lemma gather_zero_failed failed w : gather (keep_of failed) (zero_failed failed w) = gather (keep_of failed) w.
Proof.
  revert w; induction failed as [|b failed IH]; intros [|v w]; try reflexivity.
  rewrite zero_failed_cons, keep_of_cons. destruct b; cbn [negb gather]; rewrite IH; reflexivity.
Qed.
Lemma zero_failed_none w : zero_failed (repeat false (length w)) w = w.
Proof. induction w as [|v w IH]; [reflexivity|]. cbn [length repeat]. rewrite zero_failed_cons, IH. reflexivity. Qed.
Lemma zero_failed_length failed w : length w = length failed -> length (zero_failed failed w) = length failed.
Proof. intros H. unfold zero_failed. rewrite map_length, combine_length, H. apply Nat.min_id. Qed.

Lemma normalize_some w : ~ rsum w == 0 -> normalize w = Some (map (fun x => Qred (x / rsum w)) w).
Proof. intros H. unfold normalize. apply Qeqb_neq in H. rewrite H. reflexivity. Qed.
Lemma normalize_none w : rsum w == 0 -> normalize w = None.
Proof. intros H. unfold normalize. apply Qeqb_eq in H. rewrite H. reflexivity. Qed.
Lemma normalize_inv w n : normalize w = Some n -> ~ rsum w == 0 /\ n = map (fun x => Qred (x / rsum w)) w.
Proof.
  unfold normalize. destruct (Qeqb (rsum w) 0) eqn:E; [discriminate|]. intros H. injection H as <-.
  split; [apply Qeqb_neq; exact E | reflexivity].
Qed.

(* sum of the weights that survive = sum after zeroing *)
Lemma rsum_zero_failed failed w : length w = length failed ->
  rsum (zero_failed failed w) == qsum (gather (keep_of failed) w).
Proof.
  intros H. rewrite rsum_qsum, (qsum_gather failed _ (zero_failed_zeros failed w H)), gather_zero_failed. reflexivity.
Qed.


(* ================================================================================================ *)
(* 6. "as if absent": the normalised weights of the full and of the reduced ensemble                 *)
Lemma fres_eq_refl a : fres_eq a a.
Proof. destruct a; cbn; trivial. reflexivity. Qed.

Lemma div_zero s v : v == 0 -> Qred (v / s) == 0.
Proof. intros H. rewrite Qred_correct, H. unfold Qdiv. ring. Qed.

Lemma normalized_removal failed wrow : length wrow = length failed ->
  match normalize (zero_failed failed wrow),
        normalize (zero_failed (repeat false (count_ok failed)) (gather (keep_of failed) wrow)) with
  | Some w, Some w' => zeros_at failed w /\ veq (gather (keep_of failed) w) w'
  | None, None => True
  | _, _ => False
  end.
Proof.
  intros HL.
  assert (HG : count_ok failed = length (gather (keep_of failed) wrow)).
  { rewrite gather_length by (rewrite keep_of_length; exact HL). reflexivity. }
  rewrite HG, zero_failed_none.
  pose proof (rsum_zero_failed failed wrow HL) as Hs.
  pose proof (rsum_qsum (gather (keep_of failed) wrow)) as Hs'.
  assert (E : rsum (zero_failed failed wrow) == rsum (gather (keep_of failed) wrow)) by (rewrite Hs, Hs'; reflexivity).
  destruct (Qeqb (rsum (zero_failed failed wrow)) 0) eqn:E0.
  - apply Qeqb_eq in E0. rewrite (normalize_none _ E0), normalize_none by (rewrite <- E; exact E0). exact I.
  - apply Qeqb_neq in E0. rewrite (normalize_some _ E0), normalize_some by (rewrite <- E; exact E0). split.
    + apply zeros_at_map; [intros v Hv; apply div_zero; exact Hv | apply zero_failed_zeros; exact HL].
    + rewrite gather_map, gather_zero_failed. apply veq_map_ext. intros x. rewrite !Qred_correct, E. reflexivity.
Qed.

Lemma nan_to_num_gather m f : gather m (nan_to_num f) = nan_to_num (gather m f).
Proof. unfold nan_to_num. apply gather_map. Qed.

Lemma mean_removal failed f w w' : zeros_at failed w -> veq (gather (keep_of failed) w) w' ->
  rdot f w == rdot (gather (keep_of failed) f) w'.
Proof.
  intros Hz Hv. rewrite !rdot_dot, (dot_gather failed w f Hz). apply dot_proper; [apply veq_refl | exact Hv].
Qed.

Lemma var_of_removal failed fs w w' : zeros_at failed w -> veq (gather (keep_of failed) w) w' ->
  var_of fs w == var_of (gather (keep_of failed) fs) w'.
Proof.
  intros Hz Hv. unfold var_of. cbv zeta.
  assert (Hn : count_pos w = count_pos w') by (rewrite (count_pos_gather failed w Hz); apply count_pos_veq; exact Hv).
  pose proof (mean_removal failed fs w w' Hz Hv) as Hm.
  rewrite Hn. apply Qmult_comp; [reflexivity|].
  set (g := fun x : Q => Qred (sq (x - rdot fs w))).
  set (g' := fun x : Q => Qred (sq (x - rdot (gather (keep_of failed) fs) w'))).
  rewrite (mean_removal failed (map g fs) w w' Hz Hv), gather_map, (rdot_dot (map g _)), (rdot_dot (map g' _)).
  apply dot_proper; [|apply veq_refl].
  apply veq_map_ext. intros x. unfold g, g'. rewrite !Qred_correct. unfold sq. rewrite Hm. reflexivity.
Qed.

Lemma estimate_removal k f wrow failed : length wrow = length failed ->
  fres_eq (estimate k f wrow failed)
          (estimate k (gather (keep_of failed) f) (gather (keep_of failed) wrow) (repeat false (count_ok failed))).
Proof.
  intros HL. unfold estimate. pose proof (normalized_removal failed wrow HL) as H.
  destruct (normalize (zero_failed failed wrow)) as [w|],
           (normalize (zero_failed (repeat false (count_ok failed)) (gather (keep_of failed) wrow))) as [w'|];
    try contradiction; [|exact I].
  destruct H as [Hz Hv]. destruct k.
  - cbn [fres_eq]. unfold est_mean. rewrite <- nan_to_num_gather. apply mean_removal; assumption.
  - unfold est_var.
    rewrite (count_nonzero_gather failed w Hz), (count_nonzero_veq _ _ Hv),
            (count_pos_gather failed w Hz), (count_pos_veq _ _ Hv).
    destruct (count_nonzero w' <? min_stddev_realizations)%nat; [exact I|].
    destruct (count_pos w' <=? 1)%nat; [exact I|].
    cbn [fres_eq]. rewrite <- nan_to_num_gather. apply var_of_removal; assumption.
Qed.

(* ---- lifted to all functions -------------------------------------------------------------------- *)
Lemma column_gather j m (rows : omat) : column j (gather m rows) = gather m (column j rows).
Proof. unfold column. symmetry. apply gather_map. Qed.
Lemma in_force_gather m cfgw wmat j :
  in_force (gather m cfgw) (option_map (map (gather m)) wmat) j = gather m (in_force cfgw wmat j).
Proof.
  destruct wmat as [mt|]; cbn [in_force option_map]; [|reflexivity].
  transitivity (nth j (map (gather m) mt) (gather m [])); [rewrite gather_nil; reflexivity | apply map_nth].
Qed.
Lemma Forall2_map_same {A B} (R : B -> B -> Prop) (f g : A -> B) l :
  (forall x, In x l -> R (f x) (g x)) -> Forall2 R (map f l) (map g l).
Proof.
  induction l as [|x l IH]; intros H; cbn [map]; constructor; [apply H; left; reflexivity|].
  apply IH. intros y Hy. apply H. right. exact Hy.
Qed.

Lemma estimate_all_removal ests emap cfgw wmat rows failed :
  (forall j, (j < length emap)%nat -> length (in_force cfgw wmat j) = length failed) ->
  Forall2 fres_eq
    (estimate_all ests emap cfgw wmat rows failed)
    (estimate_all ests emap (gather (keep_of failed) cfgw) (option_map (map (gather (keep_of failed))) wmat)
                  (gather (keep_of failed) rows) (repeat false (count_ok failed))).
Proof.
  intros HL. unfold estimate_all. apply Forall2_map_same. intros j Hj. apply in_seq in Hj.
  unfold estimate_fn. destruct (nth_error ests (nth j emap 0%nat)) as [k|]; [|exact I].
  rewrite column_gather, in_force_gather. apply estimate_removal. apply HL. lia.
Qed.

(* the survivors of an ensemble do not fail *)
Lemma failed_fn_cons oc rows : failed_fn (oc :: rows) = first_is_nan (fst oc) :: failed_fn rows.
Proof. reflexivity. Qed.
Lemma failed_fn_survivors rows :
  failed_fn (gather (keep_of (failed_fn rows)) rows) = repeat false (count_ok (failed_fn rows)).
Proof.
  induction rows as [|oc rows IH]; [reflexivity|].
  rewrite failed_fn_cons, keep_of_cons. unfold count_ok, count_true in *. cbn [map].
  destruct (first_is_nan (fst oc)) eqn:E; cbn [negb gather filter length repeat].
  - exact IH.
  - rewrite failed_fn_cons, E, IH. reflexivity.
Qed.

(* ================================================================================================ *)
(* 7. specifications of the two estimators over the survivors                                         *)
Lemma estimate_mean_spec f wrow failed : length wrow = length failed ->
  let ws := gather (keep_of failed) wrow in
  let fs := nan_to_num (gather (keep_of failed) f) in
  (qsum ws == 0 -> estimate Mean f wrow failed = FDivZero) /\
  (~ qsum ws == 0 -> exists v, estimate Mean f wrow failed = FOk v /\ v == dot fs ws / qsum ws).
Proof.
  intros HL ws fs. pose proof (rsum_zero_failed failed wrow HL) as Hs. fold ws in Hs. unfold estimate. split; intros H0.
  - rewrite normalize_none by (rewrite Hs; exact H0). reflexivity.
  - rewrite normalize_some by (rewrite Hs; exact H0). eexists; split; [reflexivity|].
    unfold est_mean. rewrite rdot_dot.
    assert (Hz : zeros_at failed (map (fun x => Qred (x / rsum (zero_failed failed wrow))) (zero_failed failed wrow))).
    { apply zeros_at_map; [intros v Hv; apply div_zero; exact Hv | apply zero_failed_zeros; exact HL]. }
    rewrite (dot_gather failed _ (nan_to_num f) Hz), gather_map, gather_zero_failed, nan_to_num_gather, dot_div_r, Hs.
    reflexivity.
Qed.

Lemma count_nonzero_div s l : ~ s == 0 -> count_nonzero (map (fun x => Qred (x / s)) l) = count_nonzero l.
Proof.
  intros Hs. induction l as [|x l IH]; [reflexivity|]. cbn [map]. rewrite !count_nonzero_cons, IH. f_equal.
  destruct (Qeqb x 0) eqn:E.
  - apply Qeqb_eq in E. rewrite Qeqb_0_true; [reflexivity | apply div_zero; exact E].
  - apply Qeqb_neq in E. destruct (Qeqb (Qred (x / s)) 0) eqn:E'; [|reflexivity].
    apply Qeqb_eq in E'. rewrite Qred_correct in E'. exfalso. apply E.
    assert (Hx : x == x / s * s) by (field; exact Hs). rewrite Hx, E'. ring.
Qed.
Lemma count_pos_div s l : 0 < s -> count_pos (map (fun x => Qred (x / s)) l) = count_pos l.
Proof.
  intros Hs. induction l as [|x l IH]; [reflexivity|]. cbn [map]. rewrite !count_pos_cons, IH. f_equal.
  assert (Hi : 0 < / s) by (apply Qinv_lt_0_compat; exact Hs).
  destruct (Qltb 0 x) eqn:E.
  - apply Qltb_lt in E. assert (H : Qltb 0 (Qred (x / s)) = true); [|rewrite H; reflexivity].
    apply Qltb_lt. rewrite Qred_correct. unfold Qdiv. nra.
  - apply Qltb_nlt in E. assert (H : Qltb 0 (Qred (x / s)) = false); [|rewrite H; reflexivity].
    apply Qltb_nlt. rewrite Qred_correct. unfold Qdiv. nra.
Qed.

Lemma estimate_var_status f wrow failed : length wrow = length failed ->
  let ws := gather (keep_of failed) wrow in
  estimate Stddev f wrow failed = FAbort <-> ~ qsum ws == 0 /\ (count_nonzero ws < min_stddev_realizations)%nat.
Proof.
  intros HL ws. pose proof (rsum_zero_failed failed wrow HL) as Hs. fold ws in Hs. unfold estimate.
  destruct (Qeqb (qsum ws) 0) eqn:E0.
  - apply Qeqb_eq in E0. rewrite normalize_none by (rewrite Hs; exact E0). split; [discriminate | intros [H _]; contradiction].
  - apply Qeqb_neq in E0. assert (Hr : ~ rsum (zero_failed failed wrow) == 0) by (rewrite Hs; exact E0).
    rewrite (normalize_some _ Hr). unfold est_var.
    assert (Hz : zeros_at failed (zero_failed failed wrow)) by (apply zero_failed_zeros; exact HL).
    rewrite (count_nonzero_div _ _ Hr), (count_nonzero_gather failed _ Hz), gather_zero_failed. fold ws.
    destruct (count_nonzero ws <? min_stddev_realizations)%nat eqn:En.
    + apply Nat.ltb_lt in En. split; [intros _; split; assumption | reflexivity].
    + apply Nat.ltb_ge in En. split; [|intros [_ H]; lia].
      destruct (count_pos _ <=? 1)%nat; discriminate.
Qed.

Lemma nonneg_gather m w : Forall (fun x => 0 <= x) w -> Forall (fun x => 0 <= x) (gather m w).
Proof.
  intros H; revert m; induction H as [|x w Hx _ IH]; intros [|[] m]; cbn [gather]; try constructor; auto.
Qed.
Lemma nonneg_count w : Forall (fun x => 0 <= x) w -> count_nonzero w = count_pos w.
Proof.
  induction 1 as [|x w Hx _ IH]; [reflexivity|]. rewrite count_nonzero_cons, count_pos_cons, IH. f_equal.
  destruct (Qeqb x 0) eqn:E, (Qltb 0 x) eqn:E'; try reflexivity.
  - apply Qeqb_eq in E. apply Qltb_lt in E'. lra.
  - apply Qeqb_neq in E. apply Qltb_nlt in E'. exfalso. apply E. lra.
Qed.
Lemma count_pos_sum w : Forall (fun x => 0 <= x) w -> (0 < count_pos w)%nat -> 0 < qsum w.
Proof.
  induction 1 as [|x w Hx Hw IH]; [cbn; lia|]. rewrite count_pos_cons, qsum_cons. intros H.
  pose proof (qsum_nonneg w Hw) as Hq. destruct (Qltb 0 x) eqn:E.
  - apply Qltb_lt in E. lra.
  - cbn in H. specialize (IH H). lra.
Qed.

Lemma estimate_var_spec f wrow failed : length wrow = length failed -> Forall (fun x => 0 <= x) wrow ->
  let ws := gather (keep_of failed) wrow in
  let fs := nan_to_num (gather (keep_of failed) f) in
  let S := qsum ws in
  let N := nat_Q (count_pos ws) in
  let m := dot fs ws / S in
  (2 <= count_pos ws)%nat ->
  exists v, estimate Stddev f wrow failed = FOk v /\
            v == N / (N - 1) * (dot (map (fun x => sq (x - m)) fs) ws / S).
Proof.
  intros HL Hnn ws fs S N m H2.
  pose proof (rsum_zero_failed failed wrow HL) as Hs. fold ws in Hs. fold S in Hs.
  assert (Hws : Forall (fun x => 0 <= x) ws) by (apply nonneg_gather; exact Hnn).
  assert (HS : 0 < S) by (apply count_pos_sum; [exact Hws | lia]).
  assert (Hr : ~ rsum (zero_failed failed wrow) == 0) by (rewrite Hs; lra).
  assert (Hr' : 0 < rsum (zero_failed failed wrow)) by (rewrite Hs; exact HS).
  assert (Hz : zeros_at failed (zero_failed failed wrow)) by (apply zero_failed_zeros; exact HL).
  unfold estimate. rewrite (normalize_some _ Hr). unfold est_var.
  set (w := map (fun x => Qred (x / rsum (zero_failed failed wrow))) (zero_failed failed wrow)).
  assert (Hzw : zeros_at failed w).
  { apply zeros_at_map; [intros v Hv; apply div_zero; exact Hv | exact Hz]. }
  assert (Hgw : gather (keep_of failed) w = map (fun x => Qred (x / rsum (zero_failed failed wrow))) ws).
  { unfold w. rewrite gather_map, gather_zero_failed. reflexivity. }
  assert (Hcn : count_nonzero w = count_pos ws).
  { unfold w. rewrite (count_nonzero_div _ _ Hr), (count_nonzero_gather failed _ Hz), gather_zero_failed. apply nonneg_count. exact Hws. }
  assert (Hcp : count_pos w = count_pos ws).
  { unfold w. rewrite (count_pos_div _ _ Hr'), (count_pos_gather failed _ Hz), gather_zero_failed. reflexivity. }
  rewrite Hcn, Hcp.
  replace (count_pos ws <? min_stddev_realizations)%nat with false
    by (symmetry; apply Nat.ltb_ge; unfold min_stddev_realizations; exact H2).
  replace (count_pos ws <=? 1)%nat with false by (symmetry; apply Nat.leb_gt; lia).
  eexists; split; [reflexivity|].
  unfold var_of. cbv zeta. rewrite Hcp. fold N. apply Qmult_comp; [reflexivity|].
  assert (Hm : rdot (nan_to_num f) w == m).
  { rewrite rdot_dot, (dot_gather failed w _ Hzw), Hgw, nan_to_num_gather, dot_div_r, Hs. reflexivity. }
  set (g := fun x : Q => Qred (sq (x - rdot (nan_to_num f) w))).
  rewrite (rdot_dot (map g _)), (dot_gather failed w _ Hzw), Hgw, gather_map, nan_to_num_gather, dot_div_r, Hs. fold fs.
  apply Qmult_comp; [|reflexivity].
  apply dot_proper; [|apply veq_refl]. apply veq_map_ext. intros x. unfold g. rewrite Qred_correct. unfold sq. rewrite Hm. reflexivity.
Qed.


(* ================================================================================================ *)
(* 8. gradients: vectors                                                                              *)
Lemma vadd_proper a a' b b' : veq a a' -> veq b b' -> veq (vadd a b) (vadd a' b').
Proof.
  intros Ha; revert b b'; induction Ha as [|x x' a a' Hx _ IH]; intros b b' Hb; [constructor|].
  inversion Hb as [|y y' u u' Hy Hu]; subst; cbn [vadd]; constructor; [rewrite Hx, Hy; reflexivity | apply IH; exact Hu].
Qed.
Lemma vsub_proper a a' b b' : veq a a' -> veq b b' -> veq (vsub a b) (vsub a' b').
Proof.
  intros Ha; revert b b'; induction Ha as [|x x' a a' Hx _ IH]; intros b b' Hb; [constructor|].
  inversion Hb as [|y y' u u' Hy Hu]; subst; cbn [vsub]; constructor; [rewrite Hx, Hy; reflexivity | apply IH; exact Hu].
Qed.
Lemma vscale_proper c c' a a' : c == c' -> veq a a' -> veq (vscale c a) (vscale c' a').
Proof.
  intros Hc Ha. unfold vscale. induction Ha as [|x x' a a' Hx _ IH]; cbn [map]; constructor; [|exact IH].
  rewrite !Qred_correct, Hc, Hx. reflexivity.
Qed.
Lemma vscale_length c a : length (vscale c a) = length a.
Proof. unfold vscale. apply map_length. Qed.
Lemma vadd_length n a b : length a = n -> length b = n -> length (vadd a b) = n.
Proof.
  revert a b; induction n as [|n IH]; intros [|x a] [|y b] Ha Hb; cbn in *; try discriminate; [reflexivity|].
  f_equal. apply IH; lia.
Qed.
Lemma vzero_length n : length (vzero n) = n.
Proof. unfold vzero. apply repeat_length. Qed.
Lemma vadd_zero_l c g b : c == 0 -> length g = length b -> veq (vadd (vscale c g) b) b.
Proof.
  intros Hc. revert b; induction g as [|x g IH]; intros [|y b] H; cbn in H; try discriminate; [constructor|].
  injection H as H. unfold vscale in *. cbn [map vadd]. constructor; [|apply IH; exact H].
  rewrite Qred_correct, Hc. ring.
Qed.

Section Grad.
  Variable solve : list vec -> list Q -> vec.
  Variable nv : nat.
  Hypothesis solve_length : forall A b, length (solve A b) = nv.

  Lemma vcomb_nil_r c : vcomb nv c [] = vzero nv.
  Proof. destruct c; reflexivity. Qed.
  Lemma vcomb_length c gs : Forall (fun g => length g = nv) gs -> length (vcomb nv c gs) = nv.
  Proof.
    intros H; revert c; induction H as [|g gs Hg _ IH]; intros [|v c]; cbn [vcomb]; try apply vzero_length.
    apply vadd_length; [rewrite vscale_length; exact Hg | apply IH].
  Qed.
  Lemma vcomb_proper c c' gs : veq c c' -> veq (vcomb nv c gs) (vcomb nv c' gs).
  Proof.
    intros H; revert gs; induction H as [|v v' c c' Hv _ IH]; intros [|g gs]; cbn [vcomb]; try apply veq_refl.
    apply vadd_proper; [apply vscale_proper; [exact Hv | apply veq_refl] | apply IH].
  Qed.
  Lemma vcomb_gather failed c gs : zeros_at failed c -> Forall (fun g => length g = nv) gs ->
    veq (vcomb nv c gs) (vcomb nv (gather (keep_of failed) c) (gather (keep_of failed) gs)).
  Proof.
    intros H; revert gs; induction H as [|b v failed c Hb _ IH]; intros gs Hgs.
    - cbn [keep_of map gather vcomb]. apply veq_refl.
    - destruct gs as [|g gs]; [rewrite gather_nil, !vcomb_nil_r; apply veq_refl|].
      pose proof (Forall_inv Hgs) as Hg. pose proof (Forall_inv_tail Hgs) as Hgs'. cbn beta in Hg. rewrite keep_of_cons. destruct b; cbn [negb gather vcomb].
      + eapply veq_trans; [|apply IH; exact Hgs'].
        apply vadd_zero_l; [apply Hb; reflexivity | rewrite vcomb_length by exact Hgs'; exact Hg].
      + apply vadd_proper; [apply veq_refl | apply IH; exact Hgs'].
  Qed.

  (* ---- the least-squares system of one realization sees only the successful perturbations ------- *)
  Lemma drop_failed_rows_nil_r dX : drop_failed_rows dX [] = ([], []).
  Proof. destruct dX; reflexivity. Qed.

  Lemma realization_system_reduced x fx pX pf :
    realization_system x fx (reduce_pX pX pf) (reduce_pf pf) = realization_system x fx pX pf.
  Proof.
    unfold realization_system, reduce_pX, reduce_pf.
    revert pX; induction pf as [|o pf IH]; intros pX.
    - cbn [map filter gather]. rewrite !drop_failed_rows_nil_r. reflexivity.
    - destruct pX as [|p pX]; [rewrite gather_nil; reflexivity|].
      destruct o as [v|]; cbn [map filter is_some is_none negb gather].
      + destruct fx as [y|]; cbn [osub drop_failed_rows].
        * specialize (IH pX). cbn [osub] in IH.
          destruct (drop_failed_rows (map (fun p0 => vsub p0 x) pX) (map (fun v0 => osub v0 (Some y)) pf)) as [a b].
          rewrite IH. reflexivity.
        * apply IH.
      + cbn [osub drop_failed_rows]. apply IH.
  Qed.

  Lemma realization_gradient_reduced x fx pX pf w :
    realization_gradient solve nv x fx (reduce_pX pX pf) (reduce_pf pf) w = realization_gradient solve nv x fx pX pf w.
  Proof. unfold realization_gradient. rewrite realization_system_reduced. reflexivity. Qed.

  Lemma realization_gradient_length x fx pX pf w : length (realization_gradient solve nv x fx pX pf w) = nv.
  Proof. unfold realization_gradient. destruct (_ && _); [apply solve_length | apply vzero_length]. Qed.

  Lemma realization_gradient_proper x fx pX pf w w' : w == w' ->
    realization_gradient solve nv x fx pX pf w = realization_gradient solve nv x fx pX pf w'.
  Proof. intros H. unfold realization_gradient. rewrite (Qeqb_proper _ _ H). reflexivity. Qed.

  Notation rg := (realization_gradients solve nv).
  Lemma rg_nil2 x fs pfs w : rg x fs [] pfs w = [].
  Proof. destruct fs; reflexivity. Qed.
  Lemma rg_nil3 x fs pXs w : rg x fs pXs [] w = [].
  Proof. destruct fs, pXs; reflexivity. Qed.
  Lemma rg_nil4 x fs pXs pfs : rg x fs pXs pfs [] = [].
  Proof. destruct fs, pXs, pfs; reflexivity. Qed.

  Lemma rg_lengths x fs pXs pfs w : Forall (fun g => length g = nv) (rg x fs pXs pfs w).
  Proof.
    revert pXs pfs w; induction fs as [|f fs IH]; intros [|pX pXs] [|pf pfs] [|v w]; cbn [realization_gradients]; try constructor.
    - apply realization_gradient_length.
    - apply IH.
  Qed.

  Lemma rg_gather m x fs pXs pfs w :
    gather m (rg x fs pXs pfs w) = rg x (gather m fs) (gather m pXs) (gather m pfs) (gather m w).
  Proof.
    revert fs pXs pfs w; induction m as [|b m IH]; intros fs pXs pfs w; [reflexivity|].
    destruct fs as [|f fs]; [cbn [realization_gradients]; rewrite !gather_nil; reflexivity|].
    destruct pXs as [|pX pXs]; [rewrite (gather_nil (b :: m)), !rg_nil2, gather_nil; reflexivity|].
    destruct pfs as [|pf pfs]; [rewrite (gather_nil (b :: m)), !rg_nil3, gather_nil; reflexivity|].
    destruct w as [|v w]; [rewrite (gather_nil (b :: m)), !rg_nil4, gather_nil; reflexivity|].
    destruct b; cbn [realization_gradients gather]; rewrite IH; reflexivity.
  Qed.

  Lemma rg_proper x fs pXs pfs w w' : veq w w' -> rg x fs pXs pfs w = rg x fs pXs pfs w'.
  Proof.
    intros H; revert fs pXs pfs; induction H as [|v v' w w' Hv _ IH]; intros fs pXs pfs; [reflexivity|].
    destruct fs as [|f fs], pXs as [|pX pXs], pfs as [|pf pfs]; try reflexivity.
    cbn [realization_gradients]. rewrite (realization_gradient_proper x f pX pf v v' Hv), IH. reflexivity.
  Qed.

  Lemma rg_reduced x fs pXs pfs w :
    rg x fs (map2 reduce_pX pXs pfs) (map reduce_pf pfs) w = rg x fs pXs pfs w.
  Proof.
    revert pXs pfs w; induction fs as [|f fs IH]; intros pXs pfs w; [reflexivity|].
    destruct pXs as [|pX pXs]; [reflexivity|].
    destruct pfs as [|pf pfs]; [reflexivity|].
    destruct w as [|v w]; [reflexivity|].
    cbn [map2 map realization_gradients]. rewrite realization_gradient_reduced, IH. reflexivity.
  Qed.

  (* ---- combination --------------------------------------------------------------------------------- *)

  Definition fw (f w : list Q) : list Q := map (fun p : Q * Q => Qred (fst p * snd p)) (combine f w).
  Lemma fw_zeros failed f w : length f = length w -> zeros_at failed w -> zeros_at failed (fw f w).
  Proof.
    intros HL H; revert f HL; induction H as [|b v failed w Hb _ IH]; intros [|x f] HL; cbn in HL; try discriminate; [constructor|].
    injection HL as HL. unfold fw in *. cbn [combine map fst snd]. constructor; [|apply IH; exact HL].
    intros E. rewrite Qred_correct, (Hb E). ring.
  Qed.
  Lemma fw_proper f w w' : veq w w' -> veq (fw f w) (fw f w').
  Proof.
    intros H; revert f; induction H as [|v v' w w' Hv _ IH]; intros [|x f]; unfold fw in *; cbn [combine map fst snd]; constructor.
    - rewrite !Qred_correct, Hv. reflexivity.
    - apply IH.
  Qed.
  Lemma fw_gather m f w : gather m (fw f w) = fw (gather m f) (gather m w).
  Proof. unfold fw. rewrite gather_map, gather_combine. reflexivity. Qed.

  Lemma combine_gradients_removal failed k fs gs w w' :
    length fs = length w -> zeros_at failed w -> veq (gather (keep_of failed) w) w' ->
    Forall (fun g => length g = nv) gs ->
    gres_eq (combine_gradients nv k fs gs w)
            (combine_gradients nv k (gather (keep_of failed) fs) (gather (keep_of failed) gs) w').
  Proof.
    intros HL Hz Hv Hgs.
    assert (Hgs' : Forall (fun g => length g = nv) (gather (keep_of failed) gs)).
    { generalize (keep_of failed). clear - Hgs. induction Hgs as [|g gs Hg _ IH]; intros [|[] m]; cbn [gather]; try constructor; auto. }
    assert (Hmean : veq (vcomb nv w gs) (vcomb nv w' (gather (keep_of failed) gs))).
    { eapply veq_trans; [apply (vcomb_gather failed); assumption | apply vcomb_proper; exact Hv]. }
    destruct k; cbn [combine_gradients gres_eq]; [exact Hmean|].
    rewrite (count_nonzero_gather failed w Hz), (count_nonzero_veq _ _ Hv),
            (count_pos_gather failed w Hz), (count_pos_veq _ _ Hv).
    destruct (count_nonzero w' <? min_stddev_realizations)%nat; [exact I|].
    destruct (count_pos w' <=? 1)%nat; [exact I|].
    cbn [gres_eq]. rewrite <- nan_to_num_gather. split; [apply var_of_removal; assumption|].
    apply vscale_proper; [reflexivity|]. apply vsub_proper.
    - fold (fw (nan_to_num fs) w). fold (fw (gather (keep_of failed) (nan_to_num fs)) w').
      eapply veq_trans; [apply (vcomb_gather failed); [apply fw_zeros; [unfold nan_to_num; rewrite map_length; exact HL | exact Hz] | exact Hgs]|].
      apply vcomb_proper. rewrite fw_gather. apply fw_proper. exact Hv.
    - apply vscale_proper; [apply mean_removal; assumption | exact Hmean].
  Qed.

  Lemma gradient_removal k x fs pXs pfs wrow failed :
    length fs = length failed -> length wrow = length failed ->
    let keep := keep_of failed in
    gres_eq (gradient_of solve nv k x fs pXs pfs wrow failed)
            (gradient_of solve nv k x (gather keep fs)
                         (map2 reduce_pX (gather keep pXs) (gather keep pfs)) (map reduce_pf (gather keep pfs))
                         (gather keep wrow) (repeat false (count_ok failed))).
  Proof.
    intros HLf HL keep. unfold gradient_of. pose proof (normalized_removal failed wrow HL) as H. fold keep in H.
    destruct (normalize (zero_failed failed wrow)) as [w|] eqn:En,
             (normalize (zero_failed (repeat false (count_ok failed)) (gather keep wrow))) as [w'|];
      try contradiction; [|exact I].
    destruct H as [Hz Hv].
    rewrite rg_reduced, <- (rg_proper x _ _ _ _ _ Hv), <- rg_gather.
    apply combine_gradients_removal; try assumption; [|apply rg_lengths].
    apply normalize_inv in En as [_ ->]. rewrite map_length, zero_failed_length by exact HL. exact HLf.
  Qed.
End Grad.

(* ---- merged estimation (gradient.merge_realizations): one stacked system ------------------------------ *)
Lemma mr_nil2 x fs pfs w : merged_rows x fs [] pfs w = [].
Proof. destruct fs; reflexivity. Qed.
Lemma mr_nil3 x fs pXs w : merged_rows x fs pXs [] w = [].
Proof. destruct fs, pXs; reflexivity. Qed.
Lemma mr_nil4 x fs pXs pfs : merged_rows x fs pXs pfs [] = [].
Proof. destruct fs, pXs, pfs; reflexivity. Qed.

(* the rows of a realization whose weight vanishes do not occur: deleting those realizations changes nothing *)
Lemma merged_rows_gather failed x fs pXs pfs w : zeros_at failed w ->
  merged_rows x fs pXs pfs w =
  merged_rows x (gather (keep_of failed) fs) (gather (keep_of failed) pXs) (gather (keep_of failed) pfs)
              (gather (keep_of failed) w).
Proof.
  intros H; revert fs pXs pfs; induction H as [|b v failed w Hb _ IH]; intros fs pXs pfs.
  - cbn [keep_of map gather]. rewrite !mr_nil4. reflexivity.
  - destruct fs as [|f fs]; [rewrite gather_nil; reflexivity|].
    destruct pXs as [|pX pXs]; [rewrite (gather_nil (keep_of (b :: failed))), !mr_nil2; reflexivity|].
    destruct pfs as [|pf pfs]; [rewrite (gather_nil (keep_of (b :: failed))), !mr_nil3; reflexivity|].
    rewrite keep_of_cons. destruct b; cbn [negb gather merged_rows].
    + rewrite (Qeqb_0_true _ (Hb eq_refl)). cbn [app]. apply IH.
    + rewrite IH. reflexivity.
Qed.

Lemma mrow_map_proper (v v' : Q) (l : list (vec * Q)) : v == v' ->
  Forall2 mrow_eq (map (fun ab : vec * Q => (v, fst ab, snd ab)) l) (map (fun ab : vec * Q => (v', fst ab, snd ab)) l).
Proof.
  intros Hv. induction l as [|ab l IH]; cbn [map]; constructor; [|exact IH].
  unfold mrow_eq. cbn [fst snd]. split; [exact Hv | split; reflexivity].
Qed.

Lemma merged_rows_proper x fs pXs pfs w w' : veq w w' ->
  Forall2 mrow_eq (merged_rows x fs pXs pfs w) (merged_rows x fs pXs pfs w').
Proof.
  intros H; revert fs pXs pfs; induction H as [|v v' w w' Hv _ IH]; intros fs pXs pfs.
  - rewrite !mr_nil4. constructor.
  - destruct fs as [|f fs], pXs as [|pX pXs], pfs as [|pf pfs]; try constructor.
    cbn [merged_rows]. rewrite (Qeqb_proper _ _ Hv). apply Forall2_app; [|apply IH].
    destruct (Qeqb v' 0); [constructor | apply mrow_map_proper; exact Hv].
Qed.

Lemma merged_rows_reduced x fs pXs pfs w :
  merged_rows x fs (map2 reduce_pX pXs pfs) (map reduce_pf pfs) w = merged_rows x fs pXs pfs w.
Proof.
  revert pXs pfs w; induction fs as [|f fs IH]; intros pXs pfs w; [reflexivity|].
  destruct pXs as [|pX pXs]; [reflexivity|].
  destruct pfs as [|pf pfs]; [reflexivity|].
  destruct w as [|v w]; [reflexivity|].
  cbn [map2 map merged_rows]. rewrite realization_system_reduced, IH. reflexivity.
Qed.

(* the rows that enter the merged solve: exactly those of realizations with a non-zero weight and of perturbations
   whose function difference is defined *)
Lemma merged_rows_In x : forall fs pXs pfs w wr dx d,
  In (wr, dx, d) (merged_rows x fs pXs pfs w) ->
  exists r f pX pf, nth_error fs r = Some f /\ nth_error pXs r = Some pX /\ nth_error pfs r = Some pf /\
                    nth_error w r = Some wr /\ ~ wr == 0 /\
                    In (dx, d) (combine (fst (realization_system x f pX pf)) (snd (realization_system x f pX pf))).
Proof.
  induction fs as [|f fs IH]; intros pXs pfs w wr dx d Hin; [contradiction|].
  destruct pXs as [|pX pXs]; [contradiction|]. destruct pfs as [|pf pfs]; [contradiction|].
  destruct w as [|v w]; [contradiction|].
  cbn [merged_rows] in Hin. apply in_app_or in Hin as [Hin|Hin].
  - destruct (Qeqb v 0) eqn:E; [contradiction|]. apply in_map_iff in Hin as [[a b] [Heq Hab]].
    cbn [fst snd] in Heq. injection Heq as -> -> ->.
    exists 0%nat, f, pX, pf. cbn [nth_error]. repeat split; try reflexivity; [apply Qeqb_neq; exact E | exact Hab].
  - destruct (IH _ _ _ _ _ _ Hin) as (r & f' & pX' & pf' & H1 & H2 & H3 & H4 & H5 & H6).
    exists (S r), f', pX', pf'. cbn [nth_error]. repeat split; assumption.
Qed.

Theorem merged_removal (msolve : list mrow -> vec) :
  (forall a b, Forall2 mrow_eq a b -> veq (msolve a) (msolve b)) ->
  forall x fs pXs pfs wrow failed, length wrow = length failed ->
  let keep := keep_of failed in
  gres_eq (merged_gradient_of msolve x fs pXs pfs wrow failed)
          (merged_gradient_of msolve x (gather keep fs)
                              (map2 reduce_pX (gather keep pXs) (gather keep pfs)) (map reduce_pf (gather keep pfs))
                              (gather keep wrow) (repeat false (count_ok failed))).
Proof.
  intros Hm x fs pXs pfs wrow failed HL keep. unfold merged_gradient_of.
  pose proof (normalized_removal failed wrow HL) as H. fold keep in H.
  destruct (normalize (zero_failed failed wrow)) as [w|],
           (normalize (zero_failed (repeat false (count_ok failed)) (gather keep wrow))) as [w'|];
    try contradiction; [|exact I].
  destruct H as [Hz Hv]. cbn [gres_eq]. apply Hm.
  rewrite merged_rows_reduced, (merged_rows_gather failed x fs pXs pfs w Hz). fold keep.
  apply merged_rows_proper. exact Hv.
Qed.


(* ================================================================================================ *)
(* 9. factorisation of estimate_all, weighted objective                                               *)
Lemma estimate_all_length ests emap cfgw wmat rows failed :
  length (estimate_all ests emap cfgw wmat rows failed) = length emap.
Proof. unfold estimate_all. rewrite map_length, seq_length. reflexivity. Qed.

Lemma estimate_all_nth ests emap cfgw wmat rows failed j : (j < length emap)%nat ->
  nth j (estimate_all ests emap cfgw wmat rows failed) FNoEst =
    match nth_error ests (nth j emap 0%nat) with
    | Some k => estimate k (column j rows) (in_force cfgw wmat j) failed
    | None => FNoEst
    end.
Proof.
  intros H. unfold estimate_all.
  rewrite (nth_indep _ FNoEst (estimate_fn ests emap cfgw wmat rows failed 0%nat)) by (rewrite map_length, seq_length; exact H).
  rewrite map_nth, seq_nth by exact H. reflexivity.
Qed.

Lemma estimate_all_local ests emap emap' cfgw wmat wmat' rows rows' failed j :
  (j < length emap)%nat -> (j < length emap')%nat ->
  nth j emap 0%nat = nth j emap' 0%nat -> column j rows = column j rows' ->
  in_force cfgw wmat j = in_force cfgw wmat' j ->
  nth j (estimate_all ests emap cfgw wmat rows failed) FNoEst =
  nth j (estimate_all ests emap' cfgw wmat' rows' failed) FNoEst.
Proof. intros H H' He Hc Hw. rewrite !estimate_all_nth by assumption. rewrite He, Hc, Hw. reflexivity. Qed.

Lemma weighted_objective_dot ow objs : weighted_objective ow objs == dot ow objs.
Proof. unfold weighted_objective. apply rdot_dot. Qed.

(* ================================================================================================ *)
(* 10. the rows of the filtered weight matrices                                                       *)
Definition selb (fm : option (list Z)) (k j : nat) : bool :=
  match fm with
  | Some l => match nth_error l j with Some z => Z.eqb z (Z.of_nat k) | None => false end
  | None => false
  end.
Definition shape (n : nat) (m : option mat) : Prop := match m with Some mm => length mm = n | None => True end.

Lemma selb_unique fm k k' j : selb fm k j = true -> selb fm k' j = true -> k = k'.
Proof.
  unfold selb. destruct fm as [l|]; [|discriminate]. destruct (nth_error l j) as [z|]; [|discriminate].
  intros H H'. apply Z.eqb_eq in H, H'. lia.
Qed.

Lemma nth_map_error {A B} (f : A -> B) l j d :
  nth j (map f l) d = match nth_error l j with Some a => f a | None => d end.
Proof. revert j; induction l as [|a l IH]; intros [|j]; cbn; try reflexivity. apply IH. Qed.

Lemma any_sel_false fm idx j : any_sel (sel_of idx fm) = false -> selb fm idx j = false.
Proof.
  unfold any_sel, sel_of, selb. destruct fm as [l|]; cbn [option_map]; [|reflexivity].
  intros H. destruct (nth_error l j) as [z|] eqn:E; [|reflexivity].
  destruct (Z.eqb z (Z.of_nat idx)) eqn:Ez; [|reflexivity].
  assert (Hex : existsb (fun b : bool => b) (map (fun k => Z.eqb k (Z.of_nat idx)) l) = true).
  { apply existsb_exists. exists true. split; [|reflexivity]. apply in_map_iff. exists z. split; [exact Ez|].
    apply nth_error_In with j. exact E. }
  rewrite Hex in H. discriminate.
Qed.

Lemma set_rows_length m sel w : length (set_rows m sel w) = length m.
Proof. revert sel; induction m as [|row m IH]; intros [|s sel]; cbn [set_rows length]; try reflexivity. rewrite IH. reflexivity. Qed.
Lemma nth_set_rows m sel w j : (j < length m)%nat ->
  nth j (set_rows m sel w) [] = if nth j sel false then w else nth j m [].
Proof.
  revert sel j; induction m as [|row m IH]; intros sel j H; cbn in H; [lia|].
  destruct sel as [|s sel]; cbn [set_rows]; [destruct j; reflexivity|].
  destruct j as [|j]; cbn [nth]; [reflexivity|]. apply IH. lia.
Qed.
Lemma nth_repeat_lt {A} (x d : A) n j : (j < n)%nat -> nth j (repeat x n) d = x.
Proof. revert j; induction n as [|n IH]; intros j H; [lia|]. destruct j; cbn; [reflexivity | apply IH; lia]. Qed.

Lemma shape_assign cfgw n m sel w : shape n m -> shape n (assign cfgw n m sel w).
Proof.
  intros H. unfold assign. destruct sel as [s|]; [|exact H]. cbn [shape]. rewrite set_rows_length.
  destruct m as [mm|]; [exact H | apply repeat_length].
Qed.
Lemma in_force_assign cfgw n m fm idx w j : shape n m -> (j < n)%nat ->
  in_force cfgw (assign cfgw n m (sel_of idx fm) w) j = if selb fm idx j then w else in_force cfgw m j.
Proof.
  intros Hs Hj. unfold sel_of, selb. destruct fm as [l|]; cbn [option_map assign]; [|reflexivity].
  cbn [in_force]. rewrite nth_set_rows.
  - rewrite nth_map_error. destruct m as [mm|]; cbn [in_force].
    + destruct (nth_error l j); reflexivity.
    + rewrite nth_repeat_lt by exact Hj. destruct (nth_error l j); reflexivity.
  - destruct m as [mm|]; [cbn in Hs; lia | rewrite repeat_length; exact Hj].
Qed.

(* row j after the loop has run over [fouts] starting with filter index [idx] *)
Definition rows_spec (cfgw : list Q) (n : nat) (fm : option (list Z)) (idx : nat) (fouts : list fout)
           (m m' : option mat) : Prop :=
  shape n m' /\
  forall j, (j < n)%nat ->
    (forall k, (idx <= k < idx + length fouts)%nat -> selb fm k j = true ->
       exists w, nth_error fouts (k - idx) = Some (FW w) /\ in_force cfgw m' j = w) /\
    ((forall k, (idx <= k < idx + length fouts)%nat -> selb fm k j = false) -> in_force cfgw m' j = in_force cfgw m j).

Lemma rows_spec_nil cfgw n fm idx m : shape n m -> rows_spec cfgw n fm idx [] m m.
Proof. intros H. split; [exact H|]. intros j Hj. split; [intros k Hk; cbn in Hk; lia | reflexivity]. Qed.

Lemma rows_spec_skip cfgw n fm idx fo rest m m' : (forall j, selb fm idx j = false) ->
  rows_spec cfgw n fm (S idx) rest m m' -> rows_spec cfgw n fm idx (fo :: rest) m m'.
Proof.
  intros Hno [Hs H]. split; [exact Hs|]. intros j Hj. destruct (H j Hj) as [Ha Hb]. cbn [length]. split.
  - intros k Hk Hsel. assert (k <> idx) by (intros ->; rewrite Hno in Hsel; discriminate).
    destruct (Ha k ltac:(lia) Hsel) as (w & E & Hw). exists w. split; [|exact Hw].
    replace (k - idx)%nat with (S (k - S idx)) by lia. exact E.
  - intros Hall. apply Hb. intros k Hk. apply Hall. lia.
Qed.

Lemma rows_spec_fw cfgw n fm idx w rest m m' : shape n m ->
  rows_spec cfgw n fm (S idx) rest (assign cfgw n m (sel_of idx fm) w) m' ->
  rows_spec cfgw n fm idx (FW w :: rest) m m'.
Proof.
  intros Hm [Hs H]. split; [exact Hs|]. intros j Hj. destruct (H j Hj) as [Ha Hb]. cbn [length].
  pose proof (in_force_assign cfgw n m fm idx w j Hm Hj) as Hassign. split.
  - intros k Hk Hsel. destruct (Nat.eq_dec k idx) as [->|Hne].
    + exists w. rewrite Nat.sub_diag. split; [reflexivity|]. rewrite Hb.
      * rewrite Hassign, Hsel. reflexivity.
      * intros k' Hk'. destruct (selb fm k' j) eqn:E; [|reflexivity].
        pose proof (selb_unique fm idx k' j Hsel E). lia.
    + destruct (Ha k ltac:(lia) Hsel) as (w' & E & Hw). exists w'. split; [|exact Hw].
      replace (k - idx)%nat with (S (k - S idx)) by lia. exact E.
  - intros Hall. rewrite Hb by (intros k Hk; apply Hall; lia).
    rewrite Hassign, (Hall idx ltac:(lia)). reflexivity.
Qed.

Lemma filter_loop_rows cfgw no nc ofm cfm : forall fouts idx ow cw ow' cw',
  shape no ow -> shape nc cw ->
  filter_loop cfgw no nc ofm cfm idx fouts ow cw = FiltOk ow' cw' ->
  rows_spec cfgw no ofm idx fouts ow ow' /\ rows_spec cfgw nc cfm idx fouts cw cw'.
Proof.
  induction fouts as [|fo rest IH]; intros idx ow cw ow' cw' Ho Hc H; cbn [filter_loop] in H.
  - injection H as <- <-. split; apply rows_spec_nil; assumption.
  - destruct (negb (any_sel (sel_of idx ofm)) && negb (any_sel (sel_of idx cfm))) eqn:E.
    + apply andb_prop in E as [E1 E2]. apply negb_true_iff in E1, E2.
      destruct (IH _ _ _ _ _ Ho Hc H) as [H1 H2].
      split; apply rows_spec_skip; try assumption; intros j; apply any_sel_false; assumption.
    + destruct fo as [w| |]; try discriminate.
      destruct (IH _ _ _ _ _ (shape_assign cfgw no ow (sel_of idx ofm) w Ho) (shape_assign cfgw nc cw (sel_of idx cfm) w Hc) H) as [H1 H2].
      split; apply rows_spec_fw; assumption.
Qed.

Lemma selb_mapped fm k j : selb fm k j = true <-> mapped_to fm j k.
Proof.
  unfold selb, mapped_to. split.
  - destruct fm as [l|]; [|discriminate]. destruct (nth_error l j) as [z|] eqn:E; [|discriminate].
    intros H. apply Z.eqb_eq in H. subst z. exists l. split; [reflexivity | exact E].
  - intros (l & -> & E). rewrite E. apply Z.eqb_refl.
Qed.

Lemma rows_in_force_generic cfgw n fm fouts m' j : rows_spec cfgw n fm 0 fouts None m' -> (j < n)%nat ->
  (forall k, (k < length fouts)%nat -> mapped_to fm j k ->
     exists w, nth_error fouts k = Some (FW w) /\ in_force cfgw m' j = w) /\
  ((forall k, (k < length fouts)%nat -> ~ mapped_to fm j k) -> in_force cfgw m' j = cfgw).
Proof.
  intros [_ H] Hj. destruct (H j Hj) as [Ha Hb]. split.
  - intros k Hk Hm. apply selb_mapped in Hm. destruct (Ha k ltac:(lia) Hm) as (w & E & Hw).
    rewrite Nat.sub_0_r in E. exists w. split; assumption.
  - intros Hall. rewrite Hb; [reflexivity|]. intros k Hk.
    destruct (selb fm k j) eqn:E; [|reflexivity]. apply selb_mapped in E. exfalso. apply (Hall k); [lia | exact E].
Qed.

Lemma filtered_weights_rows c fouts ow cw : filtered_weights c fouts = FiltOk ow cw ->
  rows_spec (cfg_w c) (cfg_no c) (cfg_ofm c) 0 fouts None ow /\ rows_spec (cfg_w c) (cfg_nc c) (cfg_cfm c) 0 fouts None cw.
Proof. unfold filtered_weights. apply filter_loop_rows; exact I. Qed.

Theorem rows_in_force c fouts ow cw : filtered_weights c fouts = FiltOk ow cw ->
  (forall j, (j < cfg_no c)%nat ->
     (forall k, (k < length fouts)%nat -> mapped_to (cfg_ofm c) j k ->
        exists w, nth_error fouts k = Some (FW w) /\ in_force (cfg_w c) ow j = w) /\
     ((forall k, (k < length fouts)%nat -> ~ mapped_to (cfg_ofm c) j k) -> in_force (cfg_w c) ow j = cfg_w c)) /\
  (forall j, (j < cfg_nc c)%nat ->
     (forall k, (k < length fouts)%nat -> mapped_to (cfg_cfm c) j k ->
        exists w, nth_error fouts k = Some (FW w) /\ in_force (cfg_w c) cw j = w) /\
     ((forall k, (k < length fouts)%nat -> ~ mapped_to (cfg_cfm c) j k) -> in_force (cfg_w c) cw j = cfg_w c)).
Proof.
  intros H. destruct (filtered_weights_rows c fouts ow cw H) as [Ho Hc].
  split; intros j Hj; eapply rows_in_force_generic; eassumption.
Qed.

(* ================================================================================================ *)
(* 11. batch layout                                                                                   *)
Lemma combine_app_eq {A B} (a1 a2 : list A) (b1 b2 : list B) : length a1 = length b1 ->
  combine (a1 ++ a2) (b1 ++ b2) = combine a1 b1 ++ combine a2 b2.
Proof.
  revert b1; induction a1 as [|x a1 IH]; intros [|y b1] H; cbn in *; try discriminate; [reflexivity|].
  f_equal. apply IH. lia.
Qed.
Lemma combine_repeat_l {B} (b : nat) (l : list B) : combine (repeat b (length l)) l = map (pair b) l.
Proof. induction l as [|y l IH]; cbn; [reflexivity | rewrite IH; reflexivity]. Qed.

Lemma layout_general (l : list nat) R :
  combine (flat_map (fun b => repeat b R) l) (concat (repeat (seq 0 R) (length l))) =
  flat_map (fun b => map (pair b) (seq 0 R)) l.
Proof.
  induction l as [|b l IH]; [reflexivity|]. cbn [flat_map length repeat concat].
  rewrite combine_app_eq by (rewrite repeat_length, seq_length; reflexivity).
  rewrite IH. f_equal. rewrite <- (seq_length R 0) at 1. apply combine_repeat_l.
Qed.
Lemma layout_functions_product B R : layout_functions B R = list_prod (seq 0 B) (seq 0 R).
Proof.
  unfold layout_functions, repeat_each, tile.
  pose proof (layout_general (seq 0 B) R) as E. rewrite seq_length in E. rewrite E. clear E.
  generalize (seq 0 B). intros l. induction l as [|b l IH]; cbn [flat_map list_prod]; [reflexivity | rewrite IH; reflexivity].
Qed.

Lemma chunk_concat {A} n (rows : list (list A)) : Forall (fun r => length r = n) rows ->
  chunk n (length rows) (concat rows) = rows.
Proof.
  induction 1 as [|r rows Hr _ IH]; [reflexivity|]. cbn [length concat chunk].
  rewrite firstn_app, skipn_app, Hr, Nat.sub_diag, <- Hr, firstn_all, skipn_all. cbn [firstn skipn app].
  rewrite app_nil_r. rewrite Hr. rewrite IH. reflexivity.
Qed.

Lemma eval_batch_spec {A} (ev : nat -> nat -> A) B R : eval_batch ev B R = map (eval_single ev R) (seq 0 B).
Proof.
  unfold eval_batch, eval_single, layout_functions, repeat_each, tile.
  pose proof (layout_general (seq 0 B) R) as E0. rewrite seq_length in E0. rewrite E0. clear E0.
  rewrite <- (seq_length B 0) at 1. generalize (seq 0 B). intros l.
  assert (E : map (fun br : nat * nat => ev (fst br) (snd br)) (flat_map (fun b => map (pair b) (seq 0 R)) l)
              = concat (map (fun b => map (ev b) (seq 0 R)) l)).
  { induction l as [|b l IH]; [reflexivity|]. cbn [flat_map map concat]. rewrite map_app, IH, map_map. reflexivity. }
  rewrite E. rewrite <- (map_length (fun b => map (ev b) (seq 0 R)) l). apply chunk_concat.
  apply Forall_forall. intros r Hr. apply in_map_iff in Hr as (b & <- & _). rewrite map_length, seq_length. reflexivity.
Qed.

(* calculate() handles the blocks one by one *)
Lemma calculate_sets_nth c : forall blocks fouts rs b, calculate_sets c blocks fouts = Done rs -> (b < length blocks)%nat ->
  exists r, nth_error rs b = Some r /\ one_set c (nth b blocks []) (nth b fouts []) = Done r /\
            functions_abort (r_functions r) = false.
Proof.
  induction blocks as [|raw rest IH]; intros fouts rs b H Hb; cbn in Hb; [lia|].
  cbn [calculate_sets] in H. destruct (one_set c raw (hd [] fouts)) as [r| |] eqn:E1; try discriminate.
  destruct (functions_abort (r_functions r)) eqn:Ea; [discriminate|].
  destruct (calculate_sets c rest (tl fouts)) as [rs'| |] eqn:E2; try discriminate. injection H as <-.
  destruct b as [|b].
  - exists r. cbn [nth_error nth]. split; [reflexivity|]. split; [|exact Ea]. destruct fouts; exact E1.
  - destruct (IH (tl fouts) rs' b E2 ltac:(lia)) as (r' & H1 & H2 & H3). exists r'. cbn [nth_error nth].
    split; [exact H1|]. split; [|exact H3]. destruct fouts as [|fo fouts]; cbn [tl nth] in *; [|exact H2].
    destruct b; exact H2.
Qed.
Lemma calculate_sets_single c raw fo r : one_set c raw fo = Done r -> functions_abort (r_functions r) = false ->
  calculate_sets c [raw] [fo] = Done [r].
Proof. intros H Ha. cbn [calculate_sets hd tl]. rewrite H, Ha. reflexivity. Qed.

Theorem batch_invariance c (ev : nat -> nat -> list oQ * list oQ) B R fouts rs b : (b < B)%nat ->
  calculate_sets c (eval_batch ev B R) fouts = Done rs ->
  exists r, nth_error rs b = Some r /\
            calculate_sets c (eval_batch (fun _ => ev b) 1 R) [nth b fouts []] = Done [r].
Proof.
  intros Hb H. rewrite eval_batch_spec in H.
  destruct (calculate_sets_nth c _ fouts rs b H ltac:(rewrite map_length, seq_length; exact Hb)) as (r & H1 & H2 & H3).
  exists r. split; [exact H1|]. rewrite eval_batch_spec. cbn [seq map].
  apply calculate_sets_single; [|exact H3].
  rewrite (nth_indep _ [] (eval_single ev R 0%nat)) in H2 by (rewrite map_length, seq_length; exact Hb).
  rewrite map_nth, seq_nth in H2 by exact Hb. exact H2.
Qed.


(* ================================================================================================ *)
(* 12. failure flags                                                                                  *)
Lemma has_nan_In r : has_nan r = true <-> In None r.
Proof.
  unfold has_nan. rewrite existsb_exists. split.
  - intros (x & Hx & E). destruct x; [discriminate | exact Hx].
  - intros H. exists None. split; [exact H | reflexivity].
Qed.
Lemma row_failure_In o c : row_failure o c = true <-> In None o \/ In None c.
Proof. unfold row_failure. rewrite orb_true_iff, !has_nan_In. reflexivity. Qed.

Lemma first_is_nan_blank (o : list oQ) : o <> [] -> first_is_nan (blank o) = true.
Proof. destruct o; [congruence | reflexivity]. Qed.
Lemma first_is_nan_has_nan o : first_is_nan o = true -> has_nan o = true.
Proof. destruct o as [|[x|] o]; try discriminate. reflexivity. Qed.

Lemma first_is_nan_propagate o c : o <> [] -> first_is_nan (fst (propagate_row (o, c))) = row_failure o c.
Proof.
  intros Ho. unfold propagate_row. cbn [fst snd]. destruct (row_failure o c) eqn:E; cbn [fst].
  - apply first_is_nan_blank. exact Ho.
  - destruct (first_is_nan o) eqn:E'; [|reflexivity]. apply first_is_nan_has_nan in E'.
    unfold row_failure in E. rewrite E' in E. discriminate.
Qed.

Lemma nth_map_some {A B} (f : A -> B) l j a d : nth_error l j = Some a -> nth j (map f l) d = f a.
Proof. intros H. rewrite nth_map_error, H. reflexivity. Qed.

Lemma failed_fn_nth rows r o c : nth_error rows r = Some (o, c) -> o <> [] ->
  nth r (failed_fn (propagate_nan rows)) false = row_failure o c.
Proof.
  intros H Ho. unfold failed_fn, propagate_nan. rewrite map_map.
  rewrite (nth_map_some _ rows r (o, c) false H). apply first_is_nan_propagate. exact Ho.
Qed.

Lemma failed_iff_any_nan rows r o c : nth_error rows r = Some (o, c) -> o <> [] ->
  (nth r (failed_fn (propagate_nan rows)) false = true <-> In None o \/ In None c).
Proof. intros H Ho. rewrite (failed_fn_nth rows r o c H Ho). apply row_failure_In. Qed.

(* the values of the surviving rows are untouched; failed rows are blank *)
Lemma propagate_row_spec o c :
  propagate_row (o, c) = if row_failure o c then (blank o, blank c) else (o, c).
Proof. reflexivity. Qed.
Lemma survivors_untouched rows : Forall (fun oc : list oQ * list oQ => fst oc <> []) rows ->
  gather (keep_of (failed_fn (propagate_nan rows))) (propagate_nan rows) =
  gather (keep_of (failed_fn (propagate_nan rows))) rows.
Proof.
  induction 1 as [|[o c] rows Ho _ IH]; [reflexivity|]. cbn [fst] in Ho.
  cbn [propagate_nan map]. fold (propagate_nan rows). rewrite failed_fn_cons, keep_of_cons.
  rewrite (first_is_nan_propagate o c Ho). rewrite propagate_row_spec.
  destruct (row_failure o c); cbn [negb gather]; [exact IH | rewrite IH; reflexivity].
Qed.

(* ---- perturbations and the gradient flag ----------------------------------------------------------- *)
Lemma nan_free_iff o c : nan_free (o, c) = true <-> ~ In None o /\ ~ In None c.
Proof.
  unfold nan_free. cbn [fst snd]. rewrite negb_true_iff, <- not_true_iff_false, row_failure_In. tauto.
Qed.
Lemma perturbation_ok_propagate o c : o <> [] -> perturbation_ok (propagate_row (o, c)) = nan_free (o, c).
Proof. intros Ho. unfold perturbation_ok, nan_free. rewrite (first_is_nan_propagate o c Ho). reflexivity. Qed.
Lemma success_count_propagate prow : Forall (fun oc : list oQ * list oQ => fst oc <> []) prow ->
  success_count (propagate_nan prow) = count_true (map nan_free prow).
Proof.
  unfold success_count, propagate_nan. rewrite map_map. intros H. f_equal.
  induction H as [|[o c] prow Ho _ IH]; [reflexivity|]. cbn [map]. cbn [fst] in Ho.
  rewrite (perturbation_ok_propagate o c Ho), IH. reflexivity.
Qed.

Lemma failed_grad_nth pmin rows prows r : length prows = length rows -> (r < length rows)%nat ->
  nth r (failed_grad pmin rows prows) false =
  nth r (failed_fn rows) false || (success_count (nth r prows []) <? pmin)%nat.
Proof.
  intros HL Hr. unfold failed_grad.
  assert (Hlen : length (failed_fn rows) = length prows) by (unfold failed_fn; rewrite map_length; symmetry; exact HL).
  set (f := fun fp : bool * list (list oQ * list oQ) => fst fp || (success_count (snd fp) <? pmin)%nat).
  rewrite (nth_indep _ false (f (false, []))) by (rewrite map_length, combine_length, Hlen, Nat.min_id, HL; exact Hr).
  rewrite map_nth, combine_nth by exact Hlen. reflexivity.
Qed.

Lemma grad_failed_iff pmin rows prows r : length prows = length rows -> (r < length rows)%nat ->
  (nth r (failed_grad pmin rows prows) false = true <->
   nth r (failed_fn rows) false = true \/ (success_count (nth r prows []) < pmin)%nat).
Proof.
  intros HL Hr. rewrite (failed_grad_nth pmin rows prows r HL Hr), orb_true_iff, Nat.ltb_lt. reflexivity.
Qed.

(* ---- thresholds ------------------------------------------------------------------------------------- *)
Lemma clamp_threshold_spec m n :
  (clamp_threshold m n <= n)%nat /\
  (m = None -> clamp_threshold m n = n) /\
  (forall k, m = Some k -> (k <= n)%nat -> clamp_threshold m n = k) /\
  (forall k, m = Some k -> (n < k)%nat -> clamp_threshold m n = n).
Proof.
  unfold clamp_threshold. destruct m as [k|].
  - destruct (n <? k)%nat eqn:E; [apply Nat.ltb_lt in E | apply Nat.ltb_ge in E];
      (split; [lia|]); (split; [discriminate|]); split; intros k' [= <-] H; lia.
  - split; [lia|]. split; [reflexivity|]. split; intros k [=].
Qed.

(* ---- the realization_min_success gate ---------------------------------------------------------------- *)
Lemma gate_iff rmin failed : gate rmin failed = true <-> (rmin <= count_ok failed)%nat.
Proof. unfold gate. apply Nat.leb_le. Qed.

Lemma count_ok_spec failed : count_ok failed = length (filter negb failed).
Proof.
  unfold count_ok, count_true. induction failed as [|b failed IH]; [reflexivity|].
  cbn [map filter]. destruct b; cbn [negb length]; rewrite IH; reflexivity.
Qed.

Lemma one_set_gate c raw fouts r : one_set c raw fouts = Done r ->
  r_rows r = propagate_nan raw /\ r_failed r = failed_fn (propagate_nan raw) /\
  (r_functions r = None <-> (count_ok (r_failed r) < cfg_rmin c)%nat) /\
  (forall f, r_functions r = Some f -> f = compute_functions c (r_ow r) (r_cw r) (r_rows r) (r_failed r)).
Proof.
  unfold one_set. destruct (filtered_weights c fouts) as [ow cw| |]; try discriminate.
  intros [= <-]. cbn [r_rows r_failed r_functions r_ow r_cw]. split; [reflexivity|]. split; [reflexivity|].
  destruct (gate (cfg_rmin c) (failed_fn (propagate_nan raw))) eqn:E.
  - apply gate_iff in E. split; [split; [discriminate | lia] | intros f [= <-]; reflexivity].
  - assert (~ (cfg_rmin c <= count_ok (failed_fn (propagate_nan raw)))%nat) by (rewrite <- gate_iff, E; discriminate).
    split; [split; [lia | reflexivity] | discriminate].
Qed.

(* ---- exit codes ------------------------------------------------------------------------------------- *)
Lemma exit_codes_distinct :
  exit_code_of "TOO_FEW_REALIZATIONS" <> exit_code_of "OPTIMIZER_STEP_FINISHED" /\
  exit_code_of "TOO_FEW_REALIZATIONS" <> exit_code_of "EVALUATION_STEP_FINISHED".
Proof. split; vm_compute; discriminate. Qed.

Lemma too_few_after_evaluation_iff rmin allow_nan results :
  too_few_after_evaluation rmin allow_nan results = true <->
  exists r, In r results /\
            (fst r = true \/ (rmin = 0%nat /\ allow_nan = false /\ forallb (fun b : bool => b) (snd r) = true)).
Proof.
  unfold too_few_after_evaluation. rewrite existsb_exists. split; intros (r & Hr & H); exists r; (split; [exact Hr|]).
  - apply orb_prop in H as [H|H]; [left; exact H | right].
    apply andb_prop in H as [H H3]. apply andb_prop in H as [H1 H2].
    apply Nat.ltb_lt in H1. apply negb_true_iff in H2. repeat split; [lia | exact H2 | exact H3].
  - destruct H as [H|(H1 & H2 & H3)]; [rewrite H; reflexivity|].
    subst rmin allow_nan. rewrite H3. cbn. apply orb_true_r.
Qed.

Lemma optimizer_step_exit_iff aborted rmin allow_nan results :
  optimizer_step_exit aborted rmin allow_nan results = exit_code_of "TOO_FEW_REALIZATIONS" <->
  aborted = true \/ too_few_after_evaluation rmin allow_nan results = true.
Proof.
  unfold optimizer_step_exit. rewrite <- orb_true_iff.
  destruct (aborted || too_few_after_evaluation rmin allow_nan results); split; try reflexivity; try discriminate.
  all: try (intros H; exfalso; apply (proj1 exit_codes_distinct); symmetry; exact H).
Qed.
Lemma optimizer_step_exit_cases aborted rmin allow_nan results :
  optimizer_step_exit aborted rmin allow_nan results = exit_code_of "TOO_FEW_REALIZATIONS" \/
  optimizer_step_exit aborted rmin allow_nan results = exit_code_of "OPTIMIZER_STEP_FINISHED".
Proof. unfold optimizer_step_exit. destruct (_ || _); [left | right]; reflexivity. Qed.

Lemma evaluator_step_exit_iff aborted missing :
  evaluator_step_exit aborted missing = exit_code_of "TOO_FEW_REALIZATIONS" <->
  aborted = true \/ In true missing.
Proof.
  unfold evaluator_step_exit.
  assert (E : existsb (fun b : bool => b) missing = true <-> In true missing).
  { rewrite existsb_exists. split; [intros (x & Hx & ->); exact Hx | intros H; exists true; split; [exact H | reflexivity]]. }
  rewrite <- E, <- orb_true_iff.
  destruct (aborted || existsb (fun b : bool => b) missing); split; try reflexivity; try discriminate.
  all: try (intros H; exfalso; apply (proj2 exit_codes_distinct); symmetry; exact H).
Qed.

(* ================================================================================================ *)
(* 13. statements on the raw evaluator output                                                         *)
Lemma propagate_nan_length rows : length (propagate_nan rows) = length rows.
Proof. unfold propagate_nan. apply map_length. Qed.

Lemma grad_failed_raw pmin rows prows r o c : length prows = length rows ->
  nth_error rows r = Some (o, c) -> o <> [] ->
  Forall (fun oc : list oQ * list oQ => fst oc <> []) (nth r prows []) ->
  (nth r (failed_grad pmin (propagate_nan rows) (map propagate_nan prows)) false = true <->
   (In None o \/ In None c) \/ (count_true (map nan_free (nth r prows [])) < pmin)%nat).
Proof.
  intros HL Hr Ho Hp.
  assert (Hlt : (r < length rows)%nat) by (apply nth_error_Some; rewrite Hr; discriminate).
  rewrite grad_failed_iff by (rewrite ?map_length, propagate_nan_length; assumption).
  rewrite (failed_iff_any_nan rows r o c Hr Ho).
  assert (E : nth r (map propagate_nan prows) [] = propagate_nan (nth r prows [])).
  { change (@nil (list oQ * list oQ)) with (propagate_nan []) at 1. apply map_nth. }
  rewrite E, (success_count_propagate _ Hp). reflexivity.
Qed.

Lemma failed_fn_length rows : length (failed_fn rows) = length rows.
Proof. unfold failed_fn. apply map_length. Qed.

Lemma as_if_absent_functions (sel : list oQ * list oQ -> list oQ) ests emap cfgw wmat rows :
  (forall j, (j < length emap)%nat -> length (in_force cfgw wmat j) = length rows) ->
  Forall2 fres_eq
    (estimate_all ests emap cfgw wmat (map sel rows) (failed_fn rows))
    (estimate_all ests emap (gather (keep_of (failed_fn rows)) cfgw)
                  (option_map (map (gather (keep_of (failed_fn rows)))) wmat)
                  (map sel (gather (keep_of (failed_fn rows)) rows))
                  (failed_fn (gather (keep_of (failed_fn rows)) rows))).
Proof.
  intros HL. rewrite failed_fn_survivors, <- gather_map. apply estimate_all_removal.
  intros j Hj. rewrite failed_fn_length. apply HL. exact Hj.
Qed.


(* ================================================================================================ *)
(* end to end: what one_set reports, in terms of the values the evaluator returned                      *)
(* ---- end to end: what one_set reports for function j ------------------------------------------------- *)
Lemma reported_function c raw fouts r objs cons :
  one_set c raw fouts = Done r -> r_functions r = Some (Values objs cons) ->
  objs = estimate_all (cfg_ests c) (resolve_emap (cfg_no c) (cfg_oem c)) (cfg_w c) (r_ow r)
                      (map fst (propagate_nan raw)) (failed_fn (propagate_nan raw)) /\
  cons = estimate_all (cfg_ests c) (resolve_emap (cfg_nc c) (cfg_cem c)) (cfg_w c) (r_cw r)
                      (map snd (propagate_nan raw)) (failed_fn (propagate_nan raw)).
Proof.
  intros H Hf. destruct (one_set_gate c raw fouts r H) as (Hr & Hfl & _ & Hv).
  specialize (Hv _ Hf). unfold compute_functions in Hv. rewrite Hr, Hfl in Hv.
  destruct (forallb (fun b : bool => b) (failed_fn (propagate_nan raw))); [discriminate|].
  injection Hv as -> ->. split; reflexivity.
Qed.

Lemma survivor_column (sel : list oQ * list oQ -> list oQ) j raw :
  Forall (fun oc : list oQ * list oQ => fst oc <> []) raw ->
  gather (keep_of (failed_fn (propagate_nan raw))) (column j (map sel (propagate_nan raw))) =
  gather (keep_of (failed_fn (propagate_nan raw))) (column j (map sel raw)).
Proof.
  intros H. rewrite <- !column_gather, !gather_map, (survivors_untouched raw H). reflexivity.
Qed.

Lemma estimate_all_mean_raw (sel : list oQ * list oQ -> list oQ) ests emap cfgw wmat raw j :
  Forall (fun oc : list oQ * list oQ => fst oc <> []) raw ->
  (j < length emap)%nat -> nth_error ests (nth j emap 0%nat) = Some Mean ->
  let failed := failed_fn (propagate_nan raw) in
  let wrow := in_force cfgw wmat j in
  length wrow = length raw ->
  let ws := gather (keep_of failed) wrow in
  let fs := nan_to_num (gather (keep_of failed) (column j (map sel raw))) in
  ~ qsum ws == 0 ->
  exists v, nth j (estimate_all ests emap cfgw wmat (map sel (propagate_nan raw)) failed) FNoEst = FOk v /\
            v == dot fs ws / qsum ws.
Proof.
  intros Hraw Hj Hk failed wrow HL ws fs Hs.
  rewrite estimate_all_nth by exact Hj. rewrite Hk.
  assert (HL' : length wrow = length failed).
  { unfold failed. rewrite failed_fn_length, propagate_nan_length. exact HL. }
  destruct (estimate_mean_spec (column j (map sel (propagate_nan raw))) wrow failed HL') as [_ Hm].
  destruct (Hm Hs) as (v & Hv & Hval). exists v. split; [exact Hv|].
  rewrite Hval. subst fs ws failed. rewrite (survivor_column sel j raw Hraw). reflexivity.
Qed.

Lemma estimate_all_var_raw (sel : list oQ * list oQ -> list oQ) ests emap cfgw wmat raw j :
  Forall (fun oc : list oQ * list oQ => fst oc <> []) raw ->
  (j < length emap)%nat -> nth_error ests (nth j emap 0%nat) = Some Stddev ->
  let failed := failed_fn (propagate_nan raw) in
  let wrow := in_force cfgw wmat j in
  length wrow = length raw -> Forall (fun x => 0 <= x) wrow ->
  let ws := gather (keep_of failed) wrow in
  let fs := nan_to_num (gather (keep_of failed) (column j (map sel raw))) in
  let S := qsum ws in
  let N := nat_Q (count_pos ws) in
  let m := dot fs ws / S in
  (2 <= count_pos ws)%nat ->
  exists v, nth j (estimate_all ests emap cfgw wmat (map sel (propagate_nan raw)) failed) FNoEst = FOk v /\
            v == N / (N - 1) * (dot (map (fun x => sq (x - m)) fs) ws / S).
Proof.
  intros Hraw Hj Hk failed wrow HL Hnn ws fs S N m H2.
  rewrite estimate_all_nth by exact Hj. rewrite Hk.
  assert (HL' : length wrow = length failed).
  { unfold failed. rewrite failed_fn_length, propagate_nan_length. exact HL. }
  pose proof (estimate_var_spec (column j (map sel (propagate_nan raw))) wrow failed HL' Hnn) as Hm.
  cbv zeta in Hm. subst m N S ws fs failed. rewrite (survivor_column sel j raw Hraw) in Hm. exact (Hm H2).
Qed.

(* what calculate() reports for one variable vector: every objective (sel = fst) and constraint (sel = snd) value *)
Theorem reported_values c raw fouts r objs cons :
  Forall (fun oc : list oQ * list oQ => fst oc <> []) raw ->
  one_set c raw fouts = Done r -> r_functions r = Some (Values objs cons) ->
  let failed := r_failed r in
  forall (sel : list oQ * list oQ -> list oQ) vals emap wm,
  (sel = fst /\ vals = objs /\ emap = resolve_emap (cfg_no c) (cfg_oem c) /\ wm = r_ow r) \/
  (sel = snd /\ vals = cons /\ emap = resolve_emap (cfg_nc c) (cfg_cem c) /\ wm = r_cw r) ->
  forall j, (j < length emap)%nat ->
  let wrow := in_force (cfg_w c) wm j in
  length wrow = length raw ->
  let ws := gather (keep_of failed) wrow in
  let fs := nan_to_num (gather (keep_of failed) (column j (map sel raw))) in
  let S := qsum ws in
  (nth_error (cfg_ests c) (nth j emap 0%nat) = Some Mean -> ~ S == 0 ->
     exists v, nth j vals FNoEst = FOk v /\ v == dot fs ws / S) /\
  (nth_error (cfg_ests c) (nth j emap 0%nat) = Some Stddev -> Forall (fun x => 0 <= x) wrow -> (2 <= count_pos ws)%nat ->
     let N := nat_Q (count_pos ws) in
     let m := dot fs ws / S in
     exists v, nth j vals FNoEst = FOk v /\ v == N / (N - 1) * (dot (map (fun x => sq (x - m)) fs) ws / S)).
Proof.
  intros Hraw H Hf failed sel vals emap wm Hsel j Hj wrow HL ws fs S.
  destruct (reported_function c raw fouts r objs cons H Hf) as [Ho Hc].
  destruct (one_set_gate c raw fouts r H) as (_ & Hfl & _).
  subst S fs ws wrow failed. rewrite Hfl.
  destruct Hsel as [(-> & -> & -> & ->) | (-> & -> & -> & ->)]; [rewrite Ho | rewrite Hc]; split.
  - intros Hk Hs. exact (estimate_all_mean_raw fst _ _ _ _ raw j Hraw Hj Hk HL Hs).
  - intros Hk Hnn H2. exact (estimate_all_var_raw fst _ _ _ _ raw j Hraw Hj Hk HL Hnn H2).
  - intros Hk Hs. exact (estimate_all_mean_raw snd _ _ _ _ raw j Hraw Hj Hk HL Hs).
  - intros Hk Hnn H2. exact (estimate_all_var_raw snd _ _ _ _ raw j Hraw Hj Hk HL Hnn H2).
Qed.
