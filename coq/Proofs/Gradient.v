(* Proofs/Gradient.v -- the model of the stochastic gradient (Model/Gradient.v) is exact on affine
   ensembles: per-realization and merged estimation, the standard-deviation chain rule, weight
   normalisation, zeros on fixed variables. *)
From Coq Require Import QArith Qabs List Bool Arith Lia Lqa Setoid Morphisms.
From Ropt Require Import Base.Num Base.ListX Gen.Generated Model.Gradient Proofs.Lstsq.
Import ListNotations.
Open Scope Q_scope.

(* ---- more vector algebra ------------------------------------------------------------------------ *)
Lemma vz_veq_vzero a n : vz a -> length a = n -> veq (vzero n) a.
Proof.
  intros H; revert n; induction H as [|x a Hx _ IH]; intros [|n] Hn; cbn in *; try discriminate; constructor.
  - symmetry; exact Hx.
  - apply IH. congruence.
Qed.
Lemma qscale_vadd c u v : veq (qscale c (vadd u v)) (vadd (qscale c u) (qscale c v)).
Proof.
  revert v; induction u as [|x u IH]; intros [|y v]; cbn [vadd qscale map]; try constructor.
  - rewrite !radd_correct. ring.
  - apply IH.
Qed.
Lemma qscale_qscale c w a : veq (qscale c (qscale w a)) (qscale w (qscale c a)).
Proof. induction a as [|x a IH]; cbn [qscale map]; [constructor|]. constructor; [ring | exact IH]. Qed.
Lemma qscale_vzero c n : veq (qscale c (vzero n)) (vzero n).
Proof. induction n as [|n IH]; cbn; [constructor|]. constructor; [ring | exact IH]. Qed.
Lemma vadd_zero_l w a v : w == 0 -> length a = length v -> veq (vadd (qscale w a) v) v.
Proof.
  intros Hw. revert v; induction a as [|x a IH]; intros [|y v] Hl; cbn in Hl; try discriminate;
    cbn [qscale map vadd]; constructor.
  - rewrite radd_correct, Hw. ring.
  - apply IH. congruence.
Qed.

Lemma gather_length {A} (mask : list bool) (v : list A) : length v = length mask -> length (gather mask v) = count_true mask.
Proof.
  revert v; induction mask as [|b m IH]; intros [|x v] H; cbn in *; try discriminate; try reflexivity.
  destruct b; cbn; unfold count_true in *; cbn; rewrite IH by congruence; reflexivity.
Qed.

(* ---- weights --------------------------------------------------------------------------------------- *)
Lemma qsum_div s v : ~ s == 0 -> qsum (map (fun x => Qred (x / s)) v) == qsum v / s.
Proof.
  intros Hs. induction v as [|x v IH]; [cbn [map]; rewrite qsum_nil; field; exact Hs|].
  rewrite map_cons, !qsum_cons, IH, Qred_correct. field. exact Hs.
Qed.
Lemma map_qred_div s (v : vec) : veq (map (fun x => Qred (x / s)) v) (map (fun x => x / s) v).
Proof. induction v as [|x v IH]; [constructor|]. rewrite !map_cons. constructor; [apply Qred_correct | exact IH]. Qed.
Lemma normalize_spec v wh : normalize v = Some wh ->
  ~ qsum v == 0 /\ veq wh (map (fun x => x / qsum v) v) /\ qsum wh == 1.
Proof.
  unfold normalize. cbv zeta. destruct (Qeqb (qsum v) 0) eqn:E; [discriminate|]. intros H.
  assert (E' : map (fun x => Qred (x / qsum v)) v = wh) by congruence. subst wh. clear H.
  apply Qeqb_neq in E. split; [exact E|]. split.
  - apply map_qred_div.
  - rewrite qsum_div by exact E. field. exact E.
Qed.
Lemma zero_failed_spec failed w k : length failed = length w ->
  nth k (zero_failed failed w) 0 = if nth k failed false then 0 else nth k w 0.
Proof.
  revert w k; induction failed as [|f failed IH]; intros [|x w] k H; cbn in H; try discriminate.
  - destruct k; reflexivity.
  - destruct k as [|k]; cbn [zero_failed nth]; [reflexivity | apply IH; congruence].
Qed.

(* ---- affine realizations ------------------------------------------------------------------------------ *)
(* realization r evaluates  f(p) = a . p + c  at x and at every successful perturbation *)
Definition affine_on (n : nat) (x a : vec) (c : Q) (r : rdata) : Prop :=
  length a = n /\
  (forall v, r_f0 r = Some v -> v == rdot a x + c) /\
  Forall2 (fun p o => length p = n /\ forall v, o = Some v -> v == rdot a p + c) (r_X r) (r_fp r).

Lemma drop_affine n x a c f0 X fp :
  length x = n -> (forall v, f0 = Some v -> v == rdot a x + c) ->
  Forall2 (fun p o => length p = n /\ forall v, o = Some v -> v == rdot a p + c) X fp ->
  forall A b, drop_failed_rows (delta_x x X) (delta_f f0 fp) = (A, b) ->
  wfm n A /\ length b = length A /\ veq b (mv A a).
Proof.
  intros Hx Hf0 H. unfold delta_x, delta_f.
  induction H as [|p o X fp [Hp Ho] _ IH]; intros A b E; cbn [map drop_failed_rows] in E.
  - inversion E; subst. split; [constructor|]. split; [reflexivity | constructor].
  - destruct f0 as [v0|]; [destruct o as [v|]|].
    + destruct (drop_failed_rows _ _) as [A' b'] eqn:E'. inversion E; subst; clear E.
      destruct (IH A' b' eq_refl) as [H1 [H2 H3]].
      split; [constructor; [rewrite length_vsub; congruence | exact H1]|].
      split; [cbn; congruence|]. cbn [mv map]. constructor; [|exact H3].
      rewrite rsub_correct, (Ho v eq_refl), (Hf0 v0 eq_refl).
      rewrite rdot_vsub_l by congruence. rewrite (rdot_comm p a), (rdot_comm x a). ring.
    + apply IH. exact E.
    + destruct o; apply IH; exact E.
Qed.
Lemma system_of_affine n x a c r A b : length x = n -> affine_on n x a c r -> system_of x r = (A, b) ->
  wfm n A /\ length b = length A /\ veq b (mv A a).
Proof. intros Hx [_ [H0 HX]] E. exact (drop_affine n x a c _ _ _ Hx H0 HX A b E). Qed.

Lemma realization_gradient_affine n x a c r w g : length x = n -> affine_on n x a c r ->
  (~ w == 0 -> full_rank n (fst (system_of x r))) ->
  realization_gradient n x r w = Some g -> length g = n /\ (w == 0 \/ veq g a).
Proof.
  intros Hx Haff Hrank. unfold realization_gradient.
  destruct (Qeqb w 0) eqn:Ew.
  - intros H; inversion H; subst. split; [apply length_vzero | left; apply Qeqb_eq, Ew].
  - apply Qeqb_neq in Ew. specialize (Hrank Ew).
    destruct (system_of x r) as [A b] eqn:E. cbn [fst] in Hrank.
    destruct (system_of_affine n x a c r A b Hx Haff E) as [HA [Hb Hba]].
    destruct Haff as [Ha _].
    destruct A as [|row A].
    + intros H; inversion H; subst. split; [apply length_vzero|]. right.
      apply vz_veq_vzero; [|exact Ha]. apply Hrank; [exact Ha | constructor].
    + intros H. split; [exact (lstsq_length _ _ _ _ H)|]. right.
      exact (lstsq_exact n _ b a g Ha Hba Hrank H).
Qed.

(* an affine ensemble on which every contributing realization has full column rank *)
Inductive affine_ens (n : nat) (x : vec) : list rdata -> vec -> list vec -> Prop :=
  | AE_nil : affine_ens n x [] [] []
  | AE_cons r w a c rs ws sl :
      affine_on n x a c r -> (~ w == 0 -> full_rank n (fst (system_of x r))) ->
      affine_ens n x rs ws sl -> affine_ens n x (r :: rs) (w :: ws) (a :: sl).

Lemma affine_ens_slopes n x rs ws sl : affine_ens n x rs ws sl -> Forall (fun a => length a = n) sl.
Proof. induction 1 as [|r w a c rs ws sl [Ha _] _ _ IH]; constructor; assumption. Qed.

(* per-realization gradients agree with the slopes wherever the combining weight is non-zero *)
Lemma per_realization_affine n x rs ws sl gs us : length x = n -> affine_ens n x rs ws sl ->
  estimate_per_realization n x rs ws = Some gs ->
  Forall2 (fun w u => w == 0 -> u == 0) ws us ->
  veq (wvsum n us gs) (wvsum n us sl).
Proof.
  intros Hx H. revert gs us. induction H as [|r w a c rs ws sl Haff Hrank _ IH]; intros gs us E Hus.
  - cbn in E. assert (Egs : gs = []) by congruence. subst gs. destruct us; reflexivity.
  - cbn [estimate_per_realization] in E.
    destruct (realization_gradient n x r w) as [g|] eqn:Eg; [|discriminate].
    destruct (estimate_per_realization n x rs ws) as [gs'|] eqn:Egs; [|discriminate].
    assert (Egs' : gs = g :: gs') by congruence. subst gs. clear E.
    inversion Hus as [|? u ? us' Hwu Hus' E1 E2]. subst us. clear Hus.
    destruct (realization_gradient_affine n x a c r w g Hx Haff Hrank Eg) as [Hg Hga].
    cbn [wvsum]. apply vadd_veq; [|apply IH; [reflexivity | exact Hus']].
    destruct Haff as [Ha _].
    destruct Hga as [Hw|Hga]; [|apply qscale_veq; [reflexivity | exact Hga]].
    specialize (Hwu Hw). clear -Hwu Hg Ha. assert (Hl : length g = length a) by congruence. clear Hg Ha.
    revert a Hl; induction g as [|y g IH]; intros [|z a] Hl; cbn in *; try discriminate; constructor.
    + rewrite Hwu. ring.
    + apply IH. congruence.
Qed.

Lemma Forall2_same_imp (ws : vec) : Forall2 (fun w u => w == 0 -> u == 0) ws ws.
Proof. induction ws; constructor; auto. Qed.

Theorem mean_affine n x rs failed w wh sl g : length x = n ->
  normalize (zero_failed failed w) = Some wh ->
  affine_ens n x rs wh sl ->
  calc_gradient n x rs failed w EMean false = GMean g ->
  veq g (affine_mean_gradient n wh sl).
Proof.
  intros Hx Hn Hens. unfold calc_gradient. rewrite Hn.
  destruct (estimate_per_realization n x rs wh) as [gs|] eqn:E; [|discriminate].
  intros H. assert (Eg : g = wvsum n wh gs) by congruence. subst g. clear H. unfold affine_mean_gradient.
  exact (per_realization_affine n x rs wh sl gs wh Hx Hens E (Forall2_same_imp wh)).
Qed.

(* ---- standard deviation ---------------------------------------------------------------------------------- *)
Lemma vmul_zero_imp (f w : vec) : length f = length w -> Forall2 (fun w u => w == 0 -> u == 0) w (vmul f w).
Proof.
  revert w; induction f as [|y f IH]; intros [|z w] H; cbn in *; try discriminate; constructor.
  - intros Hz. rewrite Hz. ring.
  - apply IH. congruence.
Qed.
Lemma affine_ens_lengths n x rs ws sl : affine_ens n x rs ws sl -> length rs = length ws /\ length sl = length ws.
Proof. induction 1 as [|? ? ? ? ? ? ? _ _ _ [IH1 IH2]]; cbn; split; congruence. Qed.

Theorem sd_affine n x rs failed w wh sl sg var : length x = n ->
  normalize (zero_failed failed w) = Some wh ->
  affine_ens n x rs wh sl ->
  calc_gradient n x rs failed w EStd false = GStd sg var ->
  let f := nan_to_num (map r_f0 rs) in
  veq sg (affine_sd_gradient n wh f sl) /\ var = wvariance (bessel wh) wh f /\ (2 <= count_pos wh)%nat.
Proof.
  intros Hx Hn Hens. unfold calc_gradient. rewrite Hn.
  destruct (estimate_per_realization n x rs wh) as [gs|] eqn:E; [|discriminate].
  destruct (count_nonzero wh <? min_stddev_realizations)%nat; [discriminate|].
  destruct (count_pos wh <? 2)%nat eqn:EN; [discriminate|].
  intros H. injection H as <- <-. cbv zeta. split; [|split; [reflexivity | apply Nat.ltb_ge, EN]].
  unfold affine_sd_gradient, sd_grad_times_sd.
  apply qscale_veq; [reflexivity|]. apply vsub_veq.
  - apply (per_realization_affine n x rs wh sl gs _ Hx Hens E). apply vmul_zero_imp.
    destruct (affine_ens_lengths _ _ _ _ _ Hens) as [H1 _].
    unfold nan_to_num. rewrite !map_length. exact H1.
  - apply qscale_veq; [reflexivity|].
    exact (per_realization_affine n x rs wh sl gs wh Hx Hens E (Forall2_same_imp wh)).
Qed.

(* the chain rule as a polynomial identity: along x + t d the variance of an affine ensemble is
   Var + 2 t (sigma grad sigma . d) + t^2 Var_d *)
Lemma rdot_sq_shift (f w : vec) (m : Q) : length f = length w ->
  rdot (map (fun y => rsub y m * rsub y m) f) w == rdot (vmul f f) w - 2 * m * rdot f w + m * m * qsum w.
Proof.
  revert w; induction f as [|y f IH]; intros [|z w] H; cbn in H; try discriminate.
  - cbn. rewrite qsum_nil. ring.
  - cbn [map vmul]. rewrite !rdot_cons, qsum_cons, IH, rsub_correct by congruence. ring.
Qed.
Lemma rdot_line_1 (f u w : vec) t : length f = length w -> length u = length w ->
  rdot (vadd f (qscale t u)) w == rdot f w + t * rdot u w.
Proof.
  revert u w; induction f as [|y f IH]; intros [|z u] [|v w] H1 H2; cbn in H1, H2; try discriminate.
  - cbn. ring.
  - cbn [vadd qscale map]. rewrite !rdot_cons, radd_correct. fold (qscale t u). rewrite IH by congruence. ring.
Qed.
Lemma rdot_line_2 (f u w : vec) t : length f = length w -> length u = length w ->
  rdot (vmul (vadd f (qscale t u)) (vadd f (qscale t u))) w
  == rdot (vmul f f) w + 2 * t * rdot (vmul f u) w + t * t * rdot (vmul u u) w.
Proof.
  revert u w; induction f as [|y f IH]; intros [|z u] [|v w] H1 H2; cbn in H1, H2; try discriminate.
  - cbn. ring.
  - cbn [vadd qscale map vmul]. rewrite !rdot_cons, radd_correct. fold (qscale t u). rewrite IH by congruence. ring.
Qed.
Lemma length_vadd_qscale f t u : length f = length u -> length (vadd f (qscale t u)) = length f.
Proof. intros H. apply length_vadd. rewrite length_qscale. exact H. Qed.

Lemma variance_line c (w f u : vec) t : length f = length w -> length u = length w -> qsum w == 1 ->
  wvariance c w (vadd f (qscale t u))
  == wvariance c w f + 2 * t * (c * (rdot (vmul f u) w - rdot f w * rdot u w)) + t * t * wvariance c w u.
Proof.
  intros H1 H2 Hw. unfold wvariance, wmean.
  rewrite !rdot_sq_shift by (try rewrite length_vadd_qscale; congruence).
  rewrite rdot_line_2, !rdot_line_1 by assumption. rewrite Hw. ring.
Qed.

Lemma wsum_rdot (ws qs : vec) : length ws = length qs -> wsum ws qs == rdot qs ws.
Proof.
  revert qs; induction ws as [|w ws IH]; intros [|q qs] H; cbn in H; try discriminate; [reflexivity|].
  cbn [wsum]. rewrite rdot_cons, IH by congruence. ring.
Qed.
Lemma wsum_vmul (f w qs : vec) : length f = length w -> length qs = length w ->
  wsum (vmul f w) qs == rdot (vmul f qs) w.
Proof.
  revert w qs; induction f as [|y f IH]; intros [|z w] [|q qs] H1 H2; cbn in H1, H2; try discriminate; [reflexivity|].
  cbn [vmul wsum]. rewrite rdot_cons, IH by congruence. ring.
Qed.

Lemma wsum_veq ws a b : veq a b -> wsum ws a == wsum ws b.
Proof.
  intros H; revert ws; induction H as [|p q a b Hpq _ IH]; intros [|z ws]; cbn [wsum]; try reflexivity.
  rewrite Hpq, IH. reflexivity.
Qed.

Theorem sd_chain_rule n c (w f : vec) (sl : list vec) (d : vec) t :
  length f = length w -> length sl = length w -> Forall (fun a => length a = n) sl -> length d = n ->
  qsum w == 1 ->
  let u := map (fun a => rdot a d) sl in
  wvariance c w (vadd f (qscale t u))
  == wvariance c w f + 2 * t * rdot (sd_grad_times_sd n c w f sl) d + t * t * wvariance c w u.
Proof.
  intros Hf Hsl Hn Hd Hw u.
  assert (Hu : length u = length w) by (unfold u; rewrite map_length; exact Hsl).
  rewrite (variance_line c w f u t Hf Hu Hw). unfold sd_grad_times_sd.
  rewrite rdot_qscale_l, rdot_vsub_l
    by (rewrite length_qscale, !(length_wvsum n _ sl Hn); reflexivity).
  rewrite rdot_qscale_l, !(rdot_comm _ d), !(rdot_wvsum n d _ sl Hn).
  assert (Eu : veq (map (fun g => rdot d g) sl) u).
  { unfold u. clear. induction sl as [|a sl IH]; cbn [map]; [constructor|]. constructor; [apply rdot_comm | exact IH]. }
  assert (E1 : wsum (vmul f w) (map (fun g => rdot d g) sl) == rdot (vmul f u) w).
  { rewrite <- (wsum_vmul f w u Hf Hu). apply wsum_veq, Eu. }
  assert (E2 : wsum w (map (fun g => rdot d g) sl) == rdot u w).
  { rewrite <- (wsum_rdot w u (eq_sym Hu)). apply wsum_veq, Eu. }
  rewrite E1, E2. unfold wmean. ring.
Qed.

(* ---- merged estimation -------------------------------------------------------------------------------------- *)
Lemma in_merged_systems x rs ws s : In s (merged_systems x rs ws) ->
  exists r w, In (r, w) (combine rs ws) /\ ~ w == 0 /\ s = (w, system_of x r).
Proof.
  revert ws; induction rs as [|r rs IH]; intros [|w ws] H; cbn in H; try contradiction.
  destruct (Qeqb w 0) eqn:E.
  - destruct (IH ws H) as [r' [w' [Hin Hrest]]]. exists r', w'. split; [right; exact Hin | exact Hrest].
  - destruct H as [<-|H].
    + exists r, w. split; [left; reflexivity|]. split; [apply Qeqb_neq, E | reflexivity].
    + destruct (IH ws H) as [r' [w' [Hin Hrest]]]. exists r', w'. split; [right; exact Hin | exact Hrest].
Qed.
Lemma merged_systems_in x rs ws r w : In (r, w) (combine rs ws) -> ~ w == 0 -> In (w, system_of x r) (merged_systems x rs ws).
Proof.
  revert ws; induction rs as [|r' rs IH]; intros [|w' ws] H Hw; cbn in H; try contradiction.
  cbn [merged_systems]. destruct H as [E|H].
  - inversion E; subst. destruct (Qeqb w 0) eqn:E0; [apply Qeqb_eq in E0; contradiction | left; reflexivity].
  - destruct (Qeqb w' 0); [|right]; apply IH; assumption.
Qed.
Lemma in_scale_rhs D sys s : In s (scale_rhs D sys) ->
  exists s0, In s0 sys /\ s = (fst s0, (fst (snd s0), qscale D (snd (snd s0)))).
Proof. unfold scale_rhs. intros H. apply in_map_iff in H as [s0 [E H]]. exists s0. split; [exact H | symmetry; exact E]. Qed.

(* identical realizations (same slope a, any offsets), any perturbations *)
Theorem merged_identical n x rs ws a g : length x = n ->
  (forall r w, In (r, w) (combine rs ws) -> 0 <= w /\ exists c, affine_on n x a c r) ->
  (exists r w, In (r, w) (combine rs ws) /\ 0 < w /\ full_rank n (fst (system_of x r))) ->
  estimate_merged n x rs ws = Some g -> veq g a.
Proof.
  intros Hx Hall [r0 [w0 [Hin0 [Hpos0 Hrank0]]]] H. unfold estimate_merged in H.
  assert (Ha : length a = n).
  { destruct (Hall r0 w0 Hin0) as [_ [c [Ha _]]]. exact Ha. }
  apply wlstsq_sound in H as [N [D [HD [Hacc ->]]]].
  apply accept_spec in Hacc as [HN [Hwf Hres]].
  apply unscale_veq; [exact HD|].
  apply (wnormal_identical n (scale_rhs D (merged_systems x rs ws)) (qscale D a) N HN).
  - rewrite length_qscale. exact Ha.
  - exact Hwf.
  - intros s Hs. apply in_scale_rhs in Hs as [s0 [Hs0 ->]].
    apply in_merged_systems in Hs0 as [r [w [Hin [_ ->]]]]. cbn [fst snd].
    destruct (Hall r w Hin) as [Hw [c Haff]]. split; [exact Hw|].
    destruct (system_of x r) as [A b] eqn:E. cbn [fst snd].
    destruct (system_of_affine n x a c r A b Hx Haff E) as [_ [_ Hba]].
    rewrite mv_qscale. apply qscale_veq; [reflexivity | exact Hba].
  - exists (w0, (fst (system_of x r0), qscale D (snd (system_of x r0)))). split.
    + unfold scale_rhs. apply in_map_iff. exists (w0, system_of x r0). split; [reflexivity|].
      apply merged_systems_in; [exact Hin0 | lra].
    + cbn [fst snd]. split; [exact Hpos0 | exact Hrank0].
  - exact Hres.
Qed.

(* shared perturbations: every contributing realization has the same difference matrix A *)
Inductive shared_ens (n : nat) (x : vec) (A : mat) : list rdata -> vec -> list vec -> Prop :=
  | SE_nil : shared_ens n x A [] [] []
  | SE_cons r w a c rs ws sl :
      affine_on n x a c r -> (~ w == 0 -> fst (system_of x r) = A) ->
      shared_ens n x A rs ws sl -> shared_ens n x A (r :: rs) (w :: ws) (a :: sl).

Fixpoint contrib {T} (ws : vec) (l : list T) : list T :=
  match ws, l with
  | w :: ws', y :: l' => if Qeqb w 0 then contrib ws' l' else y :: contrib ws' l'
  | _, _ => []
  end.

Lemma shared_ens_slopes n x A rs ws sl : shared_ens n x A rs ws sl -> Forall (fun a => length a = n) sl.
Proof. induction 1 as [|r w a c rs ws sl [Ha _] _ _ IH]; constructor; assumption. Qed.

Lemma shared_systems n x A D rs ws sl : length x = n -> shared_ens n x A rs ws sl ->
  Forall2 (shared_with n A) (scale_rhs D (merged_systems x rs ws)) (map (qscale D) (contrib ws sl)) /\
  map fst (scale_rhs D (merged_systems x rs ws)) = contrib ws ws.
Proof.
  intros Hx. induction 1 as [|r w a c rs ws sl Haff HA _ [IH1 IH2]]; [split; [constructor | reflexivity]|].
  cbn [merged_systems contrib]. destruct (Qeqb w 0) eqn:E; [split; assumption|].
  apply Qeqb_neq in E. specialize (HA E). cbn [scale_rhs map fst snd]. split; [|f_equal; exact IH2].
  constructor; [|exact IH1]. destruct (system_of x r) as [A' b] eqn:Es. cbn [fst snd] in *. subst A'.
  destruct (system_of_affine n x a c r A b Hx Haff Es) as [_ [Hb Hba]]. destruct Haff as [Ha _].
  unfold shared_with. cbn [fst snd]. repeat split.
  - rewrite length_qscale. exact Hb.
  - rewrite length_qscale. exact Ha.
  - rewrite mv_qscale. apply qscale_veq; [reflexivity | exact Hba].
Qed.
Lemma qsum_contrib (ws : vec) : qsum (contrib ws ws) == qsum ws.
Proof.
  induction ws as [|w ws IH]; [reflexivity|]. cbn [contrib]. destruct (Qeqb w 0) eqn:E.
  - apply Qeqb_eq in E. rewrite qsum_cons, IH, E. ring.
  - rewrite !qsum_cons, IH. reflexivity.
Qed.
Lemma wvsum_nil_r n ws : wvsum n ws [] = vzero n.
Proof. destruct ws; reflexivity. Qed.
Lemma wvsum_contrib n D (ws : vec) (sl : list vec) : Forall (fun a => length a = n) sl ->
  veq (wvsum n (contrib ws ws) (map (qscale D) (contrib ws sl))) (qscale D (wvsum n ws sl)).
Proof.
  intros H; revert ws; induction H as [|a sl Ha Hsl IH]; intros ws.
  - rewrite wvsum_nil_r. destruct ws as [|w ws]; cbn [contrib map]; rewrite wvsum_nil_r; symmetry; apply qscale_vzero.
  - destruct ws as [|w ws]; [cbn [contrib map wvsum]; symmetry; apply qscale_vzero|].
    cbn [contrib]. destruct (Qeqb w 0) eqn:E.
    + apply Qeqb_eq in E. rewrite IH. apply qscale_veq; [reflexivity|]. symmetry. cbn [wvsum].
      apply vadd_zero_l; [exact E|]. rewrite (length_wvsum n ws sl Hsl). exact Ha.
    + cbn [wvsum map]. rewrite qscale_vadd. apply vadd_veq; [apply qscale_qscale | apply IH].
Qed.

Theorem merged_shared n x A rs ws sl g : length x = n -> wfm n A -> full_rank n A ->
  shared_ens n x A rs ws sl -> qsum ws == 1 ->
  estimate_merged n x rs ws = Some g -> veq g (wvsum n ws sl).
Proof.
  intros Hx HA Hrank Hens Hone H. unfold estimate_merged in H.
  apply wlstsq_sound in H as [N [D [HD [Hacc ->]]]].
  apply accept_spec in Hacc as [HN [_ Hres]].
  apply unscale_veq; [exact HD|].
  destruct (shared_systems n x A D rs ws sl Hx Hens) as [H1 H2].
  pose proof (wnormal_shared n A _ _ N HN HA Hrank H1) as Hw. rewrite H2 in Hw.
  rewrite (Hw ltac:(rewrite qsum_contrib; exact Hone) Hres).
  apply wvsum_contrib. exact (shared_ens_slopes _ _ _ _ _ _ Hens).
Qed.

(* ---- masks -------------------------------------------------------------------------------------------------------- *)
Lemma expand_length mask g : length (expand_with_zeros mask g) = length mask.
Proof. revert g; induction mask as [|[|] m IH]; intros g; cbn; [reflexivity | destruct g; cbn; rewrite IH; reflexivity | rewrite IH; reflexivity]. Qed.
(* a fixed variable's entry is the literal 0 *)
Lemma expand_fixed_zero mask g k : nth k mask true = false -> nth k (expand_with_zeros mask g) 1 = 0.
Proof.
  revert g k; induction mask as [|b m IH]; intros g k H; [destruct k; discriminate|].
  destruct k as [|k]; cbn in H.
  - subst b. reflexivity.
  - destruct b; cbn [expand_with_zeros]; [destruct g|]; cbn [nth]; apply IH; exact H.
Qed.
(* the free positions carry g, in order *)
Lemma gather_expand mask g : length g = count_true mask -> gather mask (expand_with_zeros mask g) = g.
Proof.
  revert g; induction mask as [|[|] m IH]; intros g H.
  - destruct g; [reflexivity | discriminate].
  - destruct g as [|y g]; [discriminate|]. cbn [expand_with_zeros gather]. f_equal. apply IH.
    unfold count_true in *. cbn in H. lia.
  - cbn [expand_with_zeros gather]. apply IH. exact H.
Qed.

(* weighted-objective gradient, entry by entry *)
Lemma nth_vadd a b k : length a = length b -> nth k (vadd a b) 0 == nth k a 0 + nth k b 0.
Proof.
  revert b k; induction a as [|x a IH]; intros [|y b] k H; cbn in H; try discriminate.
  - destruct k; cbn; ring.
  - destruct k as [|k]; cbn [vadd nth]; [apply radd_correct | apply IH; congruence].
Qed.
Lemma nth_qscale c a k : nth k (qscale c a) 0 == c * nth k a 0.
Proof.
  revert k; induction a as [|x a IH]; intros k; [destruct k; cbn; ring|].
  destruct k as [|k]; rewrite qscale_cons; cbn [nth]; [reflexivity | apply IH].
Qed.
Lemma wvsum_nth n ow gs k : Forall (fun g => length g = n) gs ->
  nth k (wvsum n ow gs) 0 == wsum ow (map (fun g => nth k g 0) gs).
Proof.
  intros H; revert ow; induction H as [|g gs Hg Hgs IH]; intros [|w ow]; cbn [wvsum wsum map];
    try (unfold vzero; rewrite nth_repeat; reflexivity).
  rewrite nth_vadd by (rewrite length_qscale, (length_wvsum n ow gs Hgs); exact Hg).
  rewrite nth_qscale, IH. reflexivity.
Qed.

(* ---- shapes, and the final expansion of _compute_gradients ----------------------------------------------------- *)
Definition gres_vec (r : gres) : option vec :=
  match r with GMean g => Some g | GStd g _ => Some g | _ => None end.

Lemma realization_gradient_length n x r w g : realization_gradient n x r w = Some g -> length g = n.
Proof.
  unfold realization_gradient. destruct (Qeqb w 0); [intros [= <-]; apply length_vzero|].
  destruct (system_of x r) as [[|row A] b]; [intros [= <-]; apply length_vzero | apply lstsq_length].
Qed.
Lemma estimate_per_realization_lengths n x rs ws gs :
  estimate_per_realization n x rs ws = Some gs -> Forall (fun g => length g = n) gs.
Proof.
  revert ws gs; induction rs as [|r rs IH]; intros [|w ws] gs E; cbn [estimate_per_realization] in E;
    try (assert (gs = []) by congruence; subst gs; constructor).
  destruct (realization_gradient n x r w) as [g|] eqn:Eg; [|discriminate].
  destruct (estimate_per_realization n x rs ws) as [gs'|] eqn:Egs; [|discriminate].
  assert (gs = g :: gs') by congruence. subst gs. constructor; [exact (realization_gradient_length _ _ _ _ _ Eg) | exact (IH _ _ Egs)].
Qed.
Lemma estimate_merged_length n x rs ws g : estimate_merged n x rs ws = Some g -> length g = n.
Proof.
  unfold estimate_merged. intros H. apply wlstsq_sound in H as [N [D [_ [Hacc ->]]]].
  apply accept_spec in Hacc as [HN _]. rewrite length_unscale. exact HN.
Qed.
Lemma calc_gradient_length n x rs failed w e merge g :
  gres_vec (calc_gradient n x rs failed w e merge) = Some g -> length g = n.
Proof.
  unfold calc_gradient. destruct (normalize (zero_failed failed w)) as [wh|]; [|discriminate].
  destruct merge.
  - destruct e; [|discriminate]. destruct (estimate_merged n x rs wh) as [g'|] eqn:E; [|discriminate].
    cbn [gres_vec]. intros H. assert (g = g') by congruence. subst g'. exact (estimate_merged_length _ _ _ _ _ E).
  - destruct (estimate_per_realization n x rs wh) as [gs|] eqn:E; [|discriminate].
    pose proof (estimate_per_realization_lengths _ _ _ _ _ E) as Hgs.
    destruct e.
    + cbn [gres_vec]. intros H. assert (Eg : g = wvsum n wh gs) by congruence. subst g. apply length_wvsum, Hgs.
    + destruct (count_nonzero wh <? min_stddev_realizations)%nat; [discriminate|].
      destruct (count_pos wh <? 2)%nat; [discriminate|]. cbn [gres_vec]. intros H.
      assert (Eg : g = sd_grad_times_sd n (bessel wh) wh (nan_to_num (map r_f0 rs)) gs) by congruence. subst g.
      unfold sd_grad_times_sd. rewrite length_qscale, length_vsub; rewrite ?length_qscale, !(length_wvsum n _ gs Hgs); reflexivity.
Qed.

Theorem compute_gradient_expansion mask x rs failed w e merge G :
  gres_vec (compute_gradient mask x rs failed w e merge) = Some G ->
  length G = length mask /\
  (forall k, nth k mask true = false -> nth k G 1 = 0) /\
  exists g, gres_vec (calc_gradient (count_true mask) (restrict_free mask x) (map (restrict_rdata mask) rs)
                                    failed w e merge) = Some g /\
            G = expand_with_zeros mask g /\ restrict_free mask G = g.
Proof.
  unfold compute_gradient.
  destruct (calc_gradient _ _ _ _ _ _ _) as [g|g v| | | |] eqn:E; cbn [map_gres gres_vec]; try discriminate;
    intros H; assert (EG : G = expand_with_zeros mask g) by congruence; subst G;
    (split; [apply expand_length|]); (split; [intros k Hk; apply expand_fixed_zero, Hk|]);
    exists g; (split; [reflexivity|]); (split; [reflexivity|]);
    unfold restrict_free; apply gather_expand;
    apply (calc_gradient_length (count_true mask) (restrict_free mask x) (map (restrict_rdata mask) rs) failed w e merge g);
    rewrite E; reflexivity.
Qed.

(* ---- merged estimation, identical realizations, JOINT rank -------------------------------------------------------- *)
(* no single realization needs enough successful perturbations: it suffices that the stack of the difference
   matrices of all realizations with positive weight has full column rank *)
Theorem merged_identical_joint n x rs ws a g : length x = n -> length a = n ->
  (forall r w, In (r, w) (combine rs ws) -> 0 <= w /\ exists c, affine_on n x a c r) ->
  (forall d, length d = n ->
     (forall r w, In (r, w) (combine rs ws) -> 0 < w -> vz (mv (fst (system_of x r)) d)) -> vz d) ->
  estimate_merged n x rs ws = Some g -> veq g a.
Proof.
  intros Hx Ha Hall Hrank H. unfold estimate_merged in H.
  apply wlstsq_sound in H as [N [D [HD [Hacc ->]]]].
  apply accept_spec in Hacc as [HN [Hwf Hres]].
  apply unscale_veq; [exact HD|].
  apply (wnormal_identical_joint n (scale_rhs D (merged_systems x rs ws)) (qscale D a) N HN).
  - rewrite length_qscale. exact Ha.
  - exact Hwf.
  - intros s Hs. apply in_scale_rhs in Hs as [s0 [Hs0 ->]].
    apply in_merged_systems in Hs0 as [r [w [Hin [_ ->]]]]. cbn [fst snd].
    destruct (Hall r w Hin) as [Hw [c Haff]]. split; [exact Hw|].
    destruct (system_of x r) as [A b] eqn:E. cbn [fst snd].
    destruct (system_of_affine n x a c r A b Hx Haff E) as [_ [_ Hba]].
    rewrite mv_qscale. apply qscale_veq; [reflexivity | exact Hba].
  - intros d Hd Hz. apply Hrank; [exact Hd|]. intros r w Hin Hpos.
    apply (Hz (w, (fst (system_of x r), qscale D (snd (system_of x r))))); [|exact Hpos].
    unfold scale_rhs. apply in_map_iff. exists (w, system_of x r). split; [reflexivity|].
    apply merged_systems_in; [exact Hin | lra].
  - exact Hres.
Qed.

(* ---- variable scaling ------------------------------------------------------------------------------------------------- *)
Lemma length_vmul (a b : vec) : length a = length b -> length (vmul a b) = length a.
Proof. revert b; induction a as [|x a IH]; intros [|y b] H; cbn in *; try congruence. f_equal; apply IH; congruence. Qed.
Lemma length_from_optimizer s o y : length s = length y -> length o = length y -> length (from_optimizer s o y) = length y.
Proof. intros Hs Ho. unfold from_optimizer. rewrite length_vadd; rewrite length_vmul; congruence. Qed.

(* f (from_optimizer y) for an affine f with slope a is affine in y with slope s (.) a and offset a . o + c *)
Lemma rdot_from_optimizer (s o a y : vec) : length s = length y -> length o = length y -> length a = length y ->
  rdot a (from_optimizer s o y) == rdot (scale_slope s a) y + rdot a o.
Proof.
  unfold from_optimizer, scale_slope.
  revert s o a; induction y as [|v y IH]; intros [|sv s] [|ov o] [|av a] Hs Ho Ha; cbn in Hs, Ho, Ha; try discriminate.
  - cbn. ring.
  - cbn [vmul vadd]. rewrite !rdot_cons, radd_correct, IH by congruence. ring.
Qed.

Theorem affine_on_scaled n s o x a c r : length s = n -> length o = n -> length x = n ->
  Forall (fun p => length p = n) (r_X r) ->
  affine_on n (from_optimizer s o x) a c (map_rdata_X (from_optimizer s o) r) ->
  affine_on n x (scale_slope s a) (rdot a o + c) r.
Proof.
  intros Hs Ho Hx HX [Ha [H0 HF]]. unfold map_rdata_X in *. cbn [r_X r_f0 r_fp] in *.
  split; [unfold scale_slope; rewrite length_vmul; congruence|]. split.
  - intros v Hv. rewrite (H0 v Hv), rdot_from_optimizer by congruence. ring.
  - revert HF HX. generalize (r_fp r). induction (r_X r) as [|p X IH]; intros fp HF HX; cbn [map] in HF.
    + inversion HF; subst. constructor.
    + inversion HF as [|? q ? fp' [_ Hq] HF' E1 E2]; subst. inversion HX as [|? ? Hp HX']; subst.
      constructor; [|apply IH; assumption]. split; [exact Hp|].
      intros v Hv. rewrite (Hq v Hv), rdot_from_optimizer by congruence. ring.
Qed.

(* ---- the matrix handed to the optimizer ----------------------------------------------------------------------------- *)
(* restricted to the free columns, the re-expanded gradients are the estimates of the restricted problem again:
   the optimizer never sees a fixed variable's column, and sees the free ones unchanged and in order *)
Theorem optimizer_matrix_expand mask gw gcs :
  length gw = count_true mask -> Forall (fun g => length g = count_true mask) gcs ->
  optimizer_matrix mask (expand_with_zeros mask gw) (map (expand_with_zeros mask) gcs) = gw :: gcs.
Proof.
  intros Hw Hc. unfold optimizer_matrix, restrict_free. rewrite gather_expand by exact Hw. f_equal.
  induction Hc as [|g gcs Hg _ IH]; [reflexivity|]. cbn [map]. rewrite gather_expand by exact Hg. f_equal. exact IH.
Qed.
Lemma optimizer_matrix_shape mask wg cons : length wg = length mask -> Forall (fun g => length g = length mask) cons ->
  length (optimizer_matrix mask wg cons) = S (length cons) /\
  Forall (fun row => length row = count_true mask) (optimizer_matrix mask wg cons).
Proof.
  intros Hw Hc. unfold optimizer_matrix, restrict_free. split; [cbn; rewrite map_length; reflexivity|].
  constructor; [apply gather_length, Hw|].
  induction Hc as [|g cons Hg _ IH]; [constructor|]. cbn [map]. constructor; [apply gather_length, Hg | exact IH].
Qed.

(* ---- standard deviation zero: all values that carry weight coincide, and sigma * grad sigma vanishes, so the
   zeros the estimator returns for sigma = 0 are consistent with the chain-rule expression ------------------------- *)
Lemma wvsum_scaled_diff n (w f : vec) (m : Q) (gs : list vec) : length f = length w -> length gs = length w ->
  Forall (fun g => length g = n) gs ->
  Forall2 (fun wi fi => wi * (fi - m) == 0) w f ->
  veq (wvsum n (vmul f w) gs) (qscale m (wvsum n w gs)).
Proof.
  intros Hf Hg Hn H. revert gs Hg Hn. induction H as [|wi fi w f Hwf _ IH]; intros [|g gs] Hg Hn; cbn in Hg; try discriminate.
  - cbn [vmul wvsum]. symmetry. apply qscale_vzero.
  - inversion Hn as [|? ? Hgn Hn']; subst. cbn [vmul wvsum]. rewrite qscale_vadd.
    apply vadd_veq; [|apply IH; [cbn in Hf; congruence | congruence | exact Hn']].
    clear -Hwf. induction g as [|y g IHg]; cbn [qscale map]; constructor; [|exact IHg].
    assert (E : fi * wi == m * wi) by lra. rewrite E. ring.
Qed.
Lemma rdot_sq_nonneg (f w : vec) (m : Q) : Forall (fun x => 0 <= x) w ->
  0 <= rdot (map (fun y => rsub y m * rsub y m) f) w.
Proof.
  intros Hw. revert f; induction Hw as [|wi w Hwi _ IH]; intros [|fi f]; cbn [map]; try (cbn; lra).
  rewrite rdot_cons. specialize (IH f). nra.
Qed.
Lemma rdot_sq_zero (f w : vec) (m : Q) : length f = length w -> Forall (fun x => 0 <= x) w ->
  rdot (map (fun y => rsub y m * rsub y m) f) w == 0 -> Forall2 (fun wi fi => wi * (fi - m) == 0) w f.
Proof.
  intros Hl Hw. revert f Hl; induction Hw as [|wi w Hwi Hw IH]; intros [|fi f] Hl H; cbn in Hl; try discriminate; [constructor|].
  cbn [map] in H. rewrite rdot_cons, rsub_correct in H.
  pose proof (rdot_sq_nonneg f w m Hw) as Hn.
  assert (Hs : 0 <= (fi - m) * (fi - m)) by (set (y := fi - m); nra).
  assert (Hp : 0 <= (fi - m) * (fi - m) * wi) by (apply Qmult_le_0_compat; assumption).
  assert (H1 : (fi - m) * (fi - m) * wi == 0) by lra.
  assert (H2 : rdot (map (fun y => rsub y m * rsub y m) f) w == 0) by lra.
  constructor; [|apply IH; [congruence | exact H2]].
  destruct (Qeq_dec wi 0) as [E|E]; [rewrite E; ring|].
  apply Qmult_integral in H1 as [H1|H1]; [|contradiction].
  apply Qmult_integral in H1. assert (E0 : fi - m == 0) by tauto. rewrite E0. ring.
Qed.

Theorem sd_zero_variance n c (w f : vec) gs : ~ c == 0 -> length f = length w -> length gs = length w ->
  Forall (fun g => length g = n) gs -> Forall (fun x => 0 <= x) w ->
  wvariance c w f == 0 -> vz (sd_grad_times_sd n c w f gs).
Proof.
  intros Hc Hf Hg Hn Hw Hv. unfold wvariance in Hv. cbv zeta in Hv.
  apply Qmult_integral in Hv as [Hv|Hv]; [contradiction|].
  pose proof (rdot_sq_zero f w (wmean w f) Hf Hw Hv) as Hz.
  pose proof (wvsum_scaled_diff n w f (wmean w f) gs Hf Hg Hn Hz) as E.
  unfold sd_grad_times_sd.
  apply veq_vsub_vz in E.
  clear -E. induction E as [|x l Hx _ IH]; cbn [qscale map]; constructor; [rewrite Hx; ring | exact IH].
Qed.
