(* Proofs/Bounds.v -- lemmas about Model/Bounds.v (property C10; re-used by C09). *)
From Coq Require Import QArith Qminmax ZArith List Bool Arith Lia Lqa.
From Ropt Require Import Base.Num Base.ListX Gen.Generated Model.Bounds.
Import ListNotations.
Open Scope Q_scope.

(* ---- facts about the generated constants (break when the source changes them incompatibly) ---- *)
Lemma bt_none_not_mirror : Z.eqb bt_none bt_mirror = false.
Proof. vm_compute. reflexivity. Qed.
Lemma bt_truncate_not_mirror : Z.eqb bt_truncate bt_mirror = false.
Proof. vm_compute. reflexivity. Qed.
Lemma bt_truncate_not_none : Z.eqb bt_truncate bt_none = false.
Proof. vm_compute. reflexivity. Qed.
Lemma bt_mirror_not_none : Z.eqb bt_mirror bt_none = false.
Proof. vm_compute. reflexivity. Qed.
Lemma pt_absolute_not_relative : Z.eqb pt_absolute pt_relative = false.
Proof. vm_compute. reflexivity. Qed.
Lemma mirror_repeat_pos : (0 < mirror_repeat)%nat.
Proof. vm_compute. lia. Qed.

(* ---- Prop views of the boolean predicates ------------------------------------------------------- *)
Definition ge_lower (lb : ereal) (y : Q) : Prop := match lb with Fin l => l <= y | NInf => True | PInf => False end.
Definition le_upper (ub : ereal) (y : Q) : Prop := match ub with Fin u => y <= u | PInf => True | NInf => False end.
Definition inside (lb ub : ereal) (y : Q) : Prop := ge_lower lb y /\ le_upper ub y.

Lemma below_false_iff y lb : below y lb = false <-> ge_lower lb y.
Proof.
  destruct lb as [|l|]; cbn; [tauto | | split; [discriminate | tauto]].
  rewrite Qltb_nlt. split; intro H; lra.
Qed.
Lemma above_false_iff y ub : above y ub = false <-> le_upper ub y.
Proof.
  destruct ub as [|u|]; cbn; [split; [discriminate | tauto] | | tauto].
  rewrite Qltb_nlt. split; intro H; lra.
Qed.
Lemma below_true_fin y l : below y (Fin l) = true <-> y < l.
Proof. cbn. apply Qltb_lt. Qed.
Lemma above_true_fin y u : above y (Fin u) = true <-> u < y.
Proof. cbn. apply Qltb_lt. Qed.
Lemma inb_iff lb ub y : inb lb ub y = true <-> inside lb ub y.
Proof.
  unfold inb, inside. rewrite andb_true_iff, !negb_true_iff, below_false_iff, above_false_iff. tauto.
Qed.

(* ---- mirror / iter ------------------------------------------------------------------------------ *)
Lemma mirror_off cond b v : mirror false cond b v = v.
Proof. reflexivity. Qed.
Lemma mstep_lo_off lb ub v : mstep_lo false lb ub v = v.
Proof. reflexivity. Qed.
Lemma mstep_hi_off lb ub v : mstep_hi false lb ub v = v.
Proof. reflexivity. Qed.
Lemma iter_fix {A} n (f : A -> A) x : f x = x -> iter n f x = x.
Proof. intros H. induction n as [|n IH]; cbn; [reflexivity | rewrite H; exact IH]. Qed.
Lemma iter_id {A} n (f : A -> A) x : (forall z, f z = z) -> iter n f x = x.
Proof. intros H. apply iter_fix, H. Qed.
Lemma mstep_lo_inside m lb ub v : inside lb ub v -> mstep_lo m lb ub v = v.
Proof.
  intros [H1 H2]. unfold mstep_lo, mirror.
  rewrite (proj2 (below_false_iff v lb) H1), andb_false_r.
  rewrite (proj2 (above_false_iff v ub) H2), andb_false_r. reflexivity.
Qed.
Lemma mstep_hi_inside m lb ub v : inside lb ub v -> mstep_hi m lb ub v = v.
Proof.
  intros [H1 H2]. unfold mstep_hi, mirror.
  rewrite (proj2 (above_false_iff v ub) H2), andb_false_r.
  rewrite (proj2 (below_false_iff v lb) H1), andb_false_r. reflexivity.
Qed.

(* ---- clip --------------------------------------------------------------------------------------- *)
Lemma clip_inside lb ub y : inside lb ub y -> clip lb ub y = y.
Proof.
  intros [H1 H2]. unfold clip. destruct lb as [|l|]; cbn in H1; try contradiction.
  - destruct ub as [|u|]; cbn in H2; try contradiction; [|reflexivity].
    apply Qleb_le in H2. rewrite H2. reflexivity.
  - apply Qleb_le in H1. rewrite H1.
    destruct ub as [|u|]; cbn in H2; try contradiction; [|reflexivity].
    apply Qleb_le in H2. rewrite H2. reflexivity.
Qed.
Lemma clip_within lb ub y : okb lb ub = true -> inside lb ub (clip lb ub y).
Proof.
  intros Hok. unfold clip, inside, ge_lower, le_upper.
  destruct lb as [|l|], ub as [|u|]; cbn in Hok; try discriminate; try (apply Qleb_le in Hok);
    unfold Qleb; qb; split; auto; lra.
Qed.
Lemma clip_below l ub y : okb (Fin l) ub = true -> y < l -> clip (Fin l) ub y = l.
Proof.
  intros Hok Hy. unfold clip.
  assert (E : Qleb l y = false) by (apply Qleb_nle; lra). rewrite E.
  destruct ub as [|u|]; cbn in Hok; try discriminate; [|reflexivity]. rewrite Hok. reflexivity.
Qed.
Lemma clip_above lb u y : okb lb (Fin u) = true -> u < y -> clip lb (Fin u) y = u.
Proof.
  intros Hok Hy. unfold clip.
  destruct lb as [|l|]; cbn in Hok; try discriminate.
  - assert (E : Qleb y u = false) by (apply Qleb_nle; lra). rewrite E. reflexivity.
  - apply Qleb_le in Hok. assert (E1 : Qleb l y = true) by (apply Qleb_le; lra). rewrite E1.
    assert (E : Qleb y u = false) by (apply Qleb_nle; lra). rewrite E. reflexivity.
Qed.
(* np.clip = minimum(maximum(y, lower), upper), which for lower <= upper is max lower (min y upper) *)
Lemma clip_minmax l u y : clip (Fin l) (Fin u) y == Qmin (Qmax y l) u.
Proof.
  unfold clip, Qleb. qb;
    destruct (Q.max_spec y l) as [[Hx1 Hx2]|[Hx1 Hx2]];
    destruct (Q.min_spec (Qmax y l) u) as [[Hn1 Hn2]|[Hn1 Hn2]]; lra.
Qed.
Lemma clip_maxmin l u y : l <= u -> clip (Fin l) (Fin u) y == Qmax l (Qmin y u).
Proof.
  intros Hlu. unfold clip, Qleb. qb;
    destruct (Q.min_spec y u) as [[Hn1 Hn2]|[Hn1 Hn2]];
    destruct (Q.max_spec l (Qmin y u)) as [[Hx1 Hx2]|[Hx1 Hx2]]; lra.
Qed.

(* ---- apply_bounds_gen --------------------------------------------------------------------------- *)
Theorem none_identity rep lb ub y : apply_bounds_gen rep bt_none lb ub y = y.
Proof.
  unfold apply_bounds_gen. rewrite bt_none_not_mirror, Z.eqb_refl. cbn [andb].
  rewrite (iter_id rep _ y (mstep_lo_off lb ub)). apply iter_id, mstep_hi_off.
Qed.

Theorem inside_unaltered rep t lb ub y : inside lb ub y -> apply_bounds_gen rep t lb ub y = y.
Proof.
  intros Hin. pose proof Hin as [H1 H2]. unfold apply_bounds_gen.
  rewrite (proj2 (below_false_iff y lb) H1), (proj2 (above_false_iff y ub) H2), !andb_false_r.
  rewrite (iter_id rep _ y (mstep_lo_off lb ub)), (iter_id rep _ y (mstep_hi_off lb ub)).
  destruct (Z.eqb t bt_none); [reflexivity | apply clip_inside, Hin].
Qed.

Theorem not_mirror_clip rep t lb ub y :
  Z.eqb t bt_mirror = false -> Z.eqb t bt_none = false -> apply_bounds_gen rep t lb ub y = clip lb ub y.
Proof.
  intros Hm Hn. unfold apply_bounds_gen. rewrite Hm, Hn. cbn [andb].
  rewrite (iter_id rep _ y (mstep_lo_off lb ub)), (iter_id rep _ y (mstep_hi_off lb ub)). reflexivity.
Qed.

Theorem truncate_clip rep lb ub y : apply_bounds_gen rep bt_truncate lb ub y = clip lb ub y.
Proof. apply not_mirror_clip; [apply bt_truncate_not_mirror | apply bt_truncate_not_none]. Qed.

Theorem within rep t lb ub y :
  Z.eqb t bt_none = false -> okb lb ub = true -> inside lb ub (apply_bounds_gen rep t lb ub y).
Proof. intros Hn Hok. unfold apply_bounds_gen. rewrite Hn. apply clip_within, Hok. Qed.

Theorem mirror_single_lower rep l ub y :
  (0 < rep)%nat -> y < l -> le_upper ub (2 * l - y) ->
  apply_bounds_gen rep bt_mirror (Fin l) ub y = 2 * l - y.
Proof.
  intros Hr Hy Hu. destruct rep as [|r]; [lia|]. unfold apply_bounds_gen.
  rewrite Z.eqb_refl, bt_mirror_not_none. cbn [andb].
  rewrite (proj2 (below_true_fin y l) Hy).
  assert (Hab : above y ub = false).
  { apply above_false_iff. destruct ub as [|u|]; cbn in *; auto; lra. }
  rewrite Hab. rewrite (iter_id (S r) _ _ (mstep_hi_off (Fin l) ub)).
  assert (Hin : inside (Fin l) ub (2 * l - y)) by (split; [cbn; lra | exact Hu]).
  assert (Hs : mstep_lo true (Fin l) ub y = 2 * l - y).
  { unfold mstep_lo, mirror. rewrite (proj2 (below_true_fin y l) Hy). cbn [andb refl].
    rewrite (proj2 (above_false_iff _ ub) Hu). reflexivity. }
  cbn [iter]. rewrite Hs. rewrite (iter_fix r _ _ (mstep_lo_inside true _ _ _ Hin)).
  apply clip_inside, Hin.
Qed.

Theorem mirror_single_upper rep lb u y :
  (0 < rep)%nat -> u < y -> ge_lower lb (2 * u - y) ->
  apply_bounds_gen rep bt_mirror lb (Fin u) y = 2 * u - y.
Proof.
  intros Hr Hy Hl. destruct rep as [|r]; [lia|]. unfold apply_bounds_gen.
  rewrite Z.eqb_refl, bt_mirror_not_none. cbn [andb].
  rewrite (proj2 (above_true_fin y u) Hy).
  assert (Hbe : below y lb = false).
  { apply below_false_iff. destruct lb as [|l|]; cbn in *; auto; lra. }
  rewrite Hbe. rewrite (iter_id (S r) _ _ (mstep_lo_off lb (Fin u))).
  assert (Hin : inside lb (Fin u) (2 * u - y)) by (split; [exact Hl | cbn; lra]).
  assert (Hs : mstep_hi true lb (Fin u) y = 2 * u - y).
  { unfold mstep_hi, mirror. rewrite (proj2 (above_true_fin y u) Hy). cbn [andb refl].
    rewrite (proj2 (below_false_iff _ lb) Hl). reflexivity. }
  cbn [iter]. rewrite Hs. rewrite (iter_fix r _ _ (mstep_hi_inside true _ _ _ Hin)).
  apply clip_inside, Hin.
Qed.

(* ---- vectors ------------------------------------------------------------------------------------ *)
Lemma apply_bounds_nth ts lbs ubs ys i t l u y :
  nth_error ts i = Some t -> nth_error lbs i = Some l -> nth_error ubs i = Some u ->
  nth_error ys i = Some y ->
  nth_error (apply_bounds ts lbs ubs ys) i = Some (apply_bounds_1 t l u y).
Proof.
  revert lbs ubs ys i. induction ts as [|t0 ts IH]; intros lbs ubs ys i Ht Hl Hu Hy;
    [destruct i; discriminate|].
  destruct lbs as [|l0 lbs]; [destruct i; discriminate|].
  destruct ubs as [|u0 ubs]; [destruct i; discriminate|].
  destruct ys as [|y0 ys]; [destruct i; discriminate|].
  destruct i as [|i]; cbn in *.
  - injection Ht as <-. injection Hl as <-. injection Hu as <-. injection Hy as <-. reflexivity.
  - apply IH; assumption.
Qed.
Lemma apply_bounds_length ts lbs ubs ys n :
  length ts = n -> length lbs = n -> length ubs = n -> length ys = n ->
  length (apply_bounds ts lbs ubs ys) = n.
Proof.
  revert lbs ubs ys n. induction ts as [|t0 ts IH]; intros lbs ubs ys n Ht Hl Hu Hy; cbn in *; [exact Ht|].
  destruct lbs as [|l0 lbs]; [subst n; discriminate|].
  destruct ubs as [|u0 ubs]; [subst n; discriminate|].
  destruct ys as [|y0 ys]; [subst n; discriminate|].
  destruct n as [|n]; [discriminate|]. cbn in *. f_equal. apply IH; lia.
Qed.
Lemma pre_bounds_nth x mags s i xv m sv :
  nth_error x i = Some xv -> nth_error mags i = Some m -> nth_error s i = Some sv ->
  nth_error (pre_bounds x mags s) i = Some (xv + m * sv).
Proof.
  revert mags s i. induction x as [|x0 x IH]; intros mags s i Hx Hm Hs; [destruct i; discriminate|].
  destruct mags as [|m0 mags]; [destruct i; discriminate|].
  destruct s as [|s0 s]; [destruct i; discriminate|].
  destruct i as [|i]; cbn in *.
  - injection Hx as <-. injection Hm as <-. injection Hs as <-. reflexivity.
  - apply IH; assumption.
Qed.
Lemma pre_bounds_length x mags s n :
  length x = n -> length mags = n -> length s = n -> length (pre_bounds x mags s) = n.
Proof.
  revert mags s n. induction x as [|x0 x IH]; intros mags s n Hx Hm Hs; cbn in *; [exact Hx|].
  destruct mags as [|m0 mags]; [subst n; discriminate|].
  destruct s as [|s0 s]; [subst n; discriminate|].
  destruct n as [|n]; [discriminate|]. cbn in *. f_equal. apply IH; lia.
Qed.

Definition nth3 (a : arr3) (r p v : nat) : option Q :=
  match nth_error a r with
  | Some m => match nth_error m p with Some row => nth_error row v | None => None end
  | None => None
  end.

(* every entry of the perturbed array is the boundary-processed value x_v + m_v * s_{r,p,v} *)
Theorem perturb_formula ts lbs ubs x mags samples r p v t l u xv m sv :
  nth_error ts v = Some t -> nth_error lbs v = Some l -> nth_error ubs v = Some u ->
  nth_error x v = Some xv -> nth_error mags v = Some m -> nth3 samples r p v = Some sv ->
  nth3 (perturb ts lbs ubs x mags samples) r p v = Some (apply_bounds_1 t l u (xv + m * sv)).
Proof.
  intros Ht Hl Hu Hx Hm Hs. unfold nth3, perturb in *.
  rewrite nth_error_map. destruct (nth_error samples r) as [mat|]; [|discriminate]. cbn.
  rewrite nth_error_map. destruct (nth_error mat p) as [row|]; [|discriminate]. cbn.
  unfold perturb_row. apply apply_bounds_nth; try assumption. apply pre_bounds_nth; assumption.
Qed.

(* shape: same (R, P) as the samples; V entries per row *)
Theorem perturb_shape ts lbs ubs x mags samples n :
  length ts = n -> length lbs = n -> length ubs = n -> length x = n -> length mags = n ->
  Forall (Forall (fun row => length row = n)) samples ->
  length (perturb ts lbs ubs x mags samples) = length samples /\
  Forall (Forall (fun row => length row = n)) (perturb ts lbs ubs x mags samples) /\
  Forall2 (fun a b => length a = length b) (perturb ts lbs ubs x mags samples) samples.
Proof.
  intros Ht Hl Hu Hx Hm Hs. unfold perturb. split; [apply map_length|]. split.
  - induction Hs as [|mat rest Hmat _ IH]; cbn; constructor; [|exact IH].
    induction Hmat as [|row mat' Hrow _ IH']; cbn; constructor; [|exact IH'].
    unfold perturb_row. apply apply_bounds_length; try assumption. apply pre_bounds_length; assumption.
  - clear Hs. induction samples as [|mat rest IH]; cbn; constructor; [apply map_length | exact IH].
Qed.

(* ---- summation of the samples of several samplers ---------------------------------------------- *)
Lemma map2_nth {A B C} (f : A -> B -> C) a b i :
  nth_error (map2 f a b) i =
  match nth_error a i, nth_error b i with Some x, Some y => Some (f x y) | _, _ => None end.
Proof.
  revert b i. induction a as [|x a IH]; intros b i; [destruct i; reflexivity|].
  destruct b as [|y b]; [destruct i; cbn; [reflexivity | destruct (nth_error a i); reflexivity]|].
  destruct i as [|i]; cbn; [reflexivity | apply IH].
Qed.
Lemma add3_nth a b r p v qa qb :
  nth3 a r p v = Some qa -> nth3 b r p v = Some qb -> nth3 (add3 a b) r p v = Some (qa + qb).
Proof.
  unfold nth3, add3. intros Ha Hb. rewrite map2_nth.
  destruct (nth_error a r) as [ma|]; [|discriminate]. destruct (nth_error b r) as [mb|]; [|discriminate].
  rewrite map2_nth.
  destruct (nth_error ma p) as [ra|]; [|discriminate]. destruct (nth_error mb p) as [rb|]; [|discriminate].
  rewrite map2_nth. rewrite Ha, Hb. reflexivity.
Qed.
Lemma fold_add3_nth rest s r p v q0 qs :
  nth3 s r p v = Some q0 -> Forall2 (fun a q => nth3 a r p v = Some q) rest qs ->
  exists q, nth3 (fold_left add3 rest s) r p v = Some q /\ q == q0 + qsum qs.
Proof.
  intros H0 HF. revert s q0 H0. induction HF as [|a q rest qs Ha _ IH]; intros s q0 H0; cbn.
  - exists q0. split; [exact H0 | rewrite qsum_nil; ring].
  - destruct (IH (add3 s a) (q0 + q) (add3_nth _ _ _ _ _ _ _ H0 Ha)) as [q' [H1 H2]].
    exists q'. split; [exact H1 | rewrite H2, qsum_cons; ring].
Qed.
(* the sample used at (r, p, v) is the sum of the samples of all samplers at (r, p, v) *)
Theorem sum_samples_nth ss r p v qs :
  ss <> [] -> Forall2 (fun a q => nth3 a r p v = Some q) ss qs ->
  exists q, nth3 (sum_samples ss) r p v = Some q /\ q == qsum qs.
Proof.
  intros Hne HF. destruct HF as [|s q0 rest qs' H0 HF]; [congruence|]. cbn [sum_samples].
  destruct (fold_add3_nth rest s r p v q0 qs' H0 HF) as [q [H1 H2]].
  exists q. split; [exact H1 | rewrite H2, qsum_cons; reflexivity].
Qed.

(* ---- magnitudes --------------------------------------------------------------------------------- *)
Lemma magnitudes_vec_nth pts lbs ubs ms i p l u m :
  nth_error pts i = Some p -> nth_error lbs i = Some l -> nth_error ubs i = Some u ->
  nth_error ms i = Some m ->
  nth_error (magnitudes_vec pts lbs ubs ms) i = Some (magnitude_1 p l u m).
Proof.
  revert lbs ubs ms i. induction pts as [|p0 pts IH]; intros lbs ubs ms i Hp Hl Hu Hm;
    [destruct i; discriminate|].
  destruct lbs as [|l0 lbs]; [destruct i; discriminate|].
  destruct ubs as [|u0 ubs]; [destruct i; discriminate|].
  destruct ms as [|m0 ms]; [destruct i; discriminate|].
  destruct i as [|i]; cbn in *.
  - injection Hp as <-. injection Hl as <-. injection Hu as <-. injection Hm as <-. reflexivity.
  - apply IH; assumption.
Qed.
Lemma rel_finite_nth pts lbs ubs i l u :
  rel_finite pts lbs ubs = true -> nth_error pts i = Some pt_relative ->
  nth_error lbs i = Some l -> nth_error ubs i = Some u -> efinite l = true /\ efinite u = true.
Proof.
  revert lbs ubs i. induction pts as [|p0 pts IH]; intros lbs ubs i H Hp Hl Hu; [destruct i; discriminate|].
  destruct lbs as [|l0 lbs]; [destruct i; discriminate|].
  destruct ubs as [|u0 ubs]; [destruct i; discriminate|].
  cbn in H. apply andb_prop in H as [H1 H2]. destruct i as [|i]; cbn in *.
  - injection Hp as ->. injection Hl as ->. injection Hu as ->. rewrite Z.eqb_refl in H1. cbn in H1.
    apply andb_prop in H1. exact H1.
  - apply (IH lbs ubs i); assumption.
Qed.
Lemma rel_finite_false pts lbs ubs :
  rel_finite pts lbs ubs = false ->
  exists i l u, nth_error pts i = Some pt_relative /\ nth_error lbs i = Some l /\ nth_error ubs i = Some u /\
                (efinite l && efinite u = false).
Proof.
  revert lbs ubs. induction pts as [|p0 pts IH]; intros lbs ubs H; [discriminate|].
  destruct lbs as [|l0 lbs]; [discriminate|]. destruct ubs as [|u0 ubs]; [discriminate|].
  cbn in H. apply andb_false_iff in H as [H|H].
  - exists O, l0, u0. cbn. apply orb_false_iff in H as [H1 H2]. apply negb_false_iff, Z.eqb_eq in H1.
    subst p0. auto.
  - destruct (IH lbs ubs H) as [i [l [u Hi]]]. exists (S i), l, u. exact Hi.
Qed.
Lemma broadcast_full {A} n (l : list A) : length l = n -> n <> 1%nat -> broadcast n l = Some l.
Proof.
  intros Hl Hn. unfold broadcast. destruct l as [|x [|y l']]; cbn in *.
  - subst n. reflexivity.
  - congruence.
  - subst n. rewrite Nat.eqb_refl. reflexivity.
Qed.
Lemma broadcast_nth {A} n (l l' : list A) i : broadcast n l = Some l' -> (i < n)%nat ->
  nth_error l' i = match l with [x] => Some x | _ => nth_error l i end /\ length l' = n.
Proof.
  unfold broadcast. intros H Hi. destruct l as [|x [|y l0]].
  - destruct (Nat.eqb (length (@nil A)) n) eqn:E; [|discriminate]. injection H as <-.
    apply Nat.eqb_eq in E. split; [reflexivity | exact E].
  - injection H as <-. split; [apply nth_error_repeat; exact Hi | apply repeat_length].
  - destruct (Nat.eqb (length (x :: y :: l0)) n) eqn:E; [|discriminate]. injection H as <-.
    apply Nat.eqb_eq in E. split; [reflexivity | exact E].
Qed.

(* element i of an array that is broadcast from size 1 or has full size *)
Definition bnth {A} (l : list A) (i : nat) : option A := match l with [x] => Some x | _ => nth_error l i end.

Lemma magnitude_1_relative l u m : magnitude_1 pt_relative (Fin l) (Fin u) m = (u - l) * m.
Proof. unfold magnitude_1. rewrite Z.eqb_refl. reflexivity. Qed.
Lemma magnitude_1_other p lb ub m : Z.eqb p pt_relative = false -> magnitude_1 p lb ub m = m.
Proof. unfold magnitude_1. intros ->. reflexivity. Qed.

(* accepted configuration: entry i is (upper - lower) * fraction for RELATIVE variables (whose bounds are
   then finite) and the configured value otherwise *)
Theorem magnitudes_ok pts lbs ubs ms mags i l u :
  magnitudes_of pts lbs ubs ms = MagOk mags -> length ubs = length lbs ->
  nth_error lbs i = Some l -> nth_error ubs i = Some u ->
  exists p m, bnth pts i = Some p /\ bnth ms i = Some m /\
    nth_error mags i = Some (magnitude_1 p l u m) /\
    (p = pt_relative -> exists lq uq, l = Fin lq /\ u = Fin uq /\ magnitude_1 p l u m = (uq - lq) * m) /\
    (Z.eqb p pt_relative = false -> magnitude_1 p l u m = m).
Proof.
  unfold magnitudes_of. intros H Hlen Hl Hu.
  destruct (broadcast (length lbs) ms) as [ms'|] eqn:Em; [|discriminate].
  destruct (broadcast (length lbs) pts) as [pts'|] eqn:Ep; [|discriminate].
  destruct (rel_finite pts' lbs ubs) eqn:Er; [|discriminate]. injection H as <-.
  assert (Hi : (i < length lbs)%nat) by (apply nth_error_Some; congruence).
  destruct (broadcast_nth _ _ _ i Em Hi) as [Hm1 Hm2].
  destruct (broadcast_nth _ _ _ i Ep Hi) as [Hp1 Hp2].
  destruct (nth_error pts' i) as [p|] eqn:Epi; [|apply nth_error_None in Epi; lia].
  destruct (nth_error ms' i) as [m|] eqn:Emi; [|apply nth_error_None in Emi; lia].
  exists p, m. unfold bnth. split; [symmetry; exact Hp1|]. split; [symmetry; exact Hm1|].
  split; [apply magnitudes_vec_nth; assumption|]. split.
  - intros ->. destruct (rel_finite_nth _ _ _ _ _ _ Er Epi Hl Hu) as [Hfl Hfu].
    destruct l as [|lq|]; try discriminate. destruct u as [|uq|]; try discriminate.
    exists lq, uq. split; [reflexivity|]. split; [reflexivity | apply magnitude_1_relative].
  - apply magnitude_1_other.
Qed.

(* rejected: exactly when some RELATIVE variable has an infinite bound (shapes being right) *)
Theorem magnitudes_infinite_iff pts lbs ubs ms :
  length pts = length lbs -> length ms = length lbs -> length ubs = length lbs -> length lbs <> 1%nat ->
  (magnitudes_of pts lbs ubs ms = MagInfinite <->
   exists i l u, nth_error pts i = Some pt_relative /\ nth_error lbs i = Some l /\ nth_error ubs i = Some u /\
                 (efinite l && efinite u = false)).
Proof.
  intros Hp Hm Hu Hn. unfold magnitudes_of.
  rewrite (broadcast_full _ ms Hm Hn), (broadcast_full _ pts Hp Hn).
  destruct (rel_finite pts lbs ubs) eqn:Er.
  - split; [discriminate|]. intros [i [l [u [H1 [H2 [H3 H4]]]]]].
    destruct (rel_finite_nth _ _ _ _ _ _ Er H1 H2 H3) as [Ha Hb]. rewrite Ha, Hb in H4. discriminate.
  - split; [intros _; apply rel_finite_false, Er | reflexivity].
Qed.

(* ---- the laws on the whole (R, P, V) array ------------------------------------------------------ *)
Theorem perturb_laws ts lbs ubs x mags samples r p v t l u xv m sv :
  nth_error ts v = Some t -> nth_error lbs v = Some l -> nth_error ubs v = Some u ->
  nth_error x v = Some xv -> nth_error mags v = Some m -> nth3 samples r p v = Some sv ->
  exists q, nth3 (perturb ts lbs ubs x mags samples) r p v = Some q /\
    (t = bt_none -> q = xv + m * sv) /\
    (inside l u (xv + m * sv) -> q = xv + m * sv) /\
    (Z.eqb t bt_none = false -> okb l u = true -> inside l u q) /\
    (t = bt_truncate -> q = clip l u (xv + m * sv)).
Proof.
  intros Ht Hl Hu Hx Hm Hs. exists (apply_bounds_1 t l u (xv + m * sv)).
  split; [apply perturb_formula; assumption|]. unfold apply_bounds_1.
  split; [intros ->; apply none_identity|]. split; [apply inside_unaltered|].
  split; [apply within | intros ->; apply truncate_clip].
Qed.

(* ==== repeated mirroring between two finite bounds ================================================= *)
(* n as a rational *)

Definition nQ (n : nat) : Q := inject_Z (Z.of_nat n).
Lemma nQ_S n : nQ (S n) == nQ n + 1.
Proof. unfold nQ. rewrite Nat2Z.inj_succ, <- Z.add_1_r, inject_Z_plus. reflexivity. Qed.
Lemma nQ_0 : nQ 0 == 0.
Proof. reflexivity. Qed.
Lemma nQ_nonneg n : 0 <= nQ n.
Proof. unfold nQ. change 0 with (inject_Z 0). rewrite <- Zle_Qle. lia. Qed.

(* one pass of the first loop on a value below the lower bound *)
Lemma mstep_lo_reflect l u v : v < l -> l - v <= u - l -> mstep_lo true (Fin l) (Fin u) v = 2 * l - v.
Proof.
  intros H1 H2. unfold mstep_lo, mirror. rewrite (proj2 (below_true_fin v l) H1). cbn [andb refl].
  assert (E : above (2 * l - v) (Fin u) = false) by (apply above_false_iff; cbn; lra).
  rewrite E. reflexivity.
Qed.
Lemma mstep_lo_shift l u v : l <= u -> u - l < l - v -> mstep_lo true (Fin l) (Fin u) v = 2 * u - (2 * l - v).
Proof.
  intros H0 H1. unfold mstep_lo, mirror.
  assert (Hb : v < l) by lra. rewrite (proj2 (below_true_fin v l) Hb). cbn [andb refl].
  assert (E : above (2 * l - v) (Fin u) = true) by (apply above_true_fin; lra).
  rewrite E. reflexivity.
Qed.
Lemma mstep_hi_reflect l u v : u < v -> v - u <= u - l -> mstep_hi true (Fin l) (Fin u) v = 2 * u - v.
Proof.
  intros H1 H2. unfold mstep_hi, mirror. rewrite (proj2 (above_true_fin v u) H1). cbn [andb refl].
  assert (E : below (2 * u - v) (Fin l) = false) by (apply below_false_iff; cbn; lra).
  rewrite E. reflexivity.
Qed.
Lemma mstep_hi_shift l u v : l <= u -> u - l < v - u -> mstep_hi true (Fin l) (Fin u) v = 2 * l - (2 * u - v).
Proof.
  intros H0 H1. unfold mstep_hi, mirror.
  assert (Hb : u < v) by lra. rewrite (proj2 (above_true_fin v u) Hb). cbn [andb refl].
  assert (E : below (2 * u - v) (Fin l) = true) by (apply below_true_fin; lra).
  rewrite E. reflexivity.
Qed.

(* the first loop: a value that starts 2nw + e below the lower bound (0 < e <= 2w, n < rep, w = u - l) is
   shifted up by whole periods 2w and reflected once; afterwards it is inside and stays *)
Lemma iter_lo_closed l u : l <= u -> forall n rep v, (n < rep)%nat ->
  2 * nQ n * (u - l) < l - v -> l - v <= 2 * (nQ n + 1) * (u - l) ->
  exists z, iter rep (mstep_lo true (Fin l) (Fin u)) v = z /\ inside (Fin l) (Fin u) z /\
    (l - v - 2 * nQ n * (u - l) <= u - l -> z == 2 * l - v - 2 * nQ n * (u - l)) /\
    (u - l < l - v - 2 * nQ n * (u - l) -> z == v + 2 * (nQ n + 1) * (u - l)).
Proof.
  intros Hlu. induction n as [|n IH]; intros rep v Hn Hlo Hhi; (destruct rep as [|r]; [lia|]); cbn [iter].
  - change (nQ 0) with 0 in *.
    destruct (Qlt_le_dec (u - l) (l - v)) as [Hs|Hr].
    + rewrite (mstep_lo_shift l u v Hlu Hs).
      assert (Hin : inside (Fin l) (Fin u) (2 * u - (2 * l - v))) by (split; cbn; lra).
      exists (2 * u - (2 * l - v)). split; [apply iter_fix, mstep_lo_inside, Hin|]. split; [exact Hin|].
      split; intros H; [lra | ring_simplify; lra].
    + assert (Hb : v < l) by lra. rewrite (mstep_lo_reflect l u v Hb Hr).
      assert (Hin : inside (Fin l) (Fin u) (2 * l - v)) by (split; cbn; lra).
      exists (2 * l - v). split; [apply iter_fix, mstep_lo_inside, Hin|]. split; [exact Hin|].
      split; intros H; [ring | lra].
  - pose proof (nQ_nonneg n) as Hnn. rewrite nQ_S in Hlo, Hhi.
    assert (Hw : 0 <= (nQ n) * (u - l)) by (apply Qmult_le_0_compat; lra).
    assert (Hs : u - l < l - v) by lra.
    rewrite (mstep_lo_shift l u v Hlu Hs).
    destruct (IH r (2 * u - (2 * l - v))) as [z [Hz [Hin [Ha Hb]]]]; [lia | lra | lra |].
    exists z. split; [exact Hz|]. split; [exact Hin|].
    split; intros H; rewrite nQ_S in H |- *; [rewrite Ha by lra | rewrite Hb by lra]; ring.
Qed.

(* ... and one that starts more than 2*rep*w below stays below *)
Lemma iter_lo_far l u : l <= u -> forall rep v, 2 * nQ rep * (u - l) < l - v ->
  iter rep (mstep_lo true (Fin l) (Fin u)) v < l.
Proof.
  intros Hlu. induction rep as [|r IH]; intros v H; cbn [iter].
  - rewrite nQ_0 in H. lra.
  - pose proof (nQ_nonneg r) as Hnn. rewrite nQ_S in H.
    assert (Hw : 0 <= (nQ r) * (u - l)) by (apply Qmult_le_0_compat; lra).
    assert (Hs : u - l < l - v) by lra.
    rewrite (mstep_lo_shift l u v Hlu Hs). apply IH. lra.
Qed.

Lemma iter_hi_closed l u : l <= u -> forall n rep v, (n < rep)%nat ->
  2 * nQ n * (u - l) < v - u -> v - u <= 2 * (nQ n + 1) * (u - l) ->
  exists z, iter rep (mstep_hi true (Fin l) (Fin u)) v = z /\ inside (Fin l) (Fin u) z /\
    (v - u - 2 * nQ n * (u - l) <= u - l -> z == 2 * u - v + 2 * nQ n * (u - l)) /\
    (u - l < v - u - 2 * nQ n * (u - l) -> z == v - 2 * (nQ n + 1) * (u - l)).
Proof.
  intros Hlu. induction n as [|n IH]; intros rep v Hn Hlo Hhi; (destruct rep as [|r]; [lia|]); cbn [iter].
  - change (nQ 0) with 0 in *.
    destruct (Qlt_le_dec (u - l) (v - u)) as [Hs|Hr].
    + rewrite (mstep_hi_shift l u v Hlu Hs).
      assert (Hin : inside (Fin l) (Fin u) (2 * l - (2 * u - v))) by (split; cbn; lra).
      exists (2 * l - (2 * u - v)). split; [apply iter_fix, mstep_hi_inside, Hin|]. split; [exact Hin|].
      split; intros H; [lra | ring_simplify; lra].
    + assert (Hb : u < v) by lra. rewrite (mstep_hi_reflect l u v Hb Hr).
      assert (Hin : inside (Fin l) (Fin u) (2 * u - v)) by (split; cbn; lra).
      exists (2 * u - v). split; [apply iter_fix, mstep_hi_inside, Hin|]. split; [exact Hin|].
      split; intros H; [ring | lra].
  - pose proof (nQ_nonneg n) as Hnn. rewrite nQ_S in Hlo, Hhi.
    assert (Hw : 0 <= (nQ n) * (u - l)) by (apply Qmult_le_0_compat; lra).
    assert (Hs : u - l < v - u) by lra.
    rewrite (mstep_hi_shift l u v Hlu Hs).
    destruct (IH r (2 * l - (2 * u - v))) as [z [Hz [Hin [Ha Hb]]]]; [lia | lra | lra |].
    exists z. split; [exact Hz|]. split; [exact Hin|].
    split; intros H; rewrite nQ_S in H |- *; [rewrite Ha by lra | rewrite Hb by lra]; ring.
Qed.
Lemma iter_hi_far l u : l <= u -> forall rep v, 2 * nQ rep * (u - l) < v - u ->
  u < iter rep (mstep_hi true (Fin l) (Fin u)) v.
Proof.
  intros Hlu. induction rep as [|r IH]; intros v H; cbn [iter].
  - rewrite nQ_0 in H. lra.
  - pose proof (nQ_nonneg r) as Hnn. rewrite nQ_S in H.
    assert (Hw : 0 <= (nQ r) * (u - l)) by (apply Qmult_le_0_compat; lra).
    assert (Hs : u - l < v - u) by lra.
    rewrite (mstep_hi_shift l u v Hlu Hs). apply IH. lra.
Qed.

(* ---- MIRROR_BOTH between two finite bounds: the complete closed form ----------------------------- *)
Lemma mirror_lower_setup rep l u y : l <= u -> y < l ->
  apply_bounds_gen rep bt_mirror (Fin l) (Fin u) y = clip (Fin l) (Fin u) (iter rep (mstep_lo true (Fin l) (Fin u)) y).
Proof.
  intros Hlu Hy. unfold apply_bounds_gen. rewrite Z.eqb_refl, bt_mirror_not_none. cbn [andb].
  rewrite (proj2 (below_true_fin y l) Hy).
  assert (Hab : above y (Fin u) = false) by (apply above_false_iff; cbn; lra). rewrite Hab.
  rewrite (iter_id rep _ _ (mstep_hi_off (Fin l) (Fin u))). reflexivity.
Qed.
Lemma mirror_upper_setup rep l u y : l <= u -> u < y ->
  apply_bounds_gen rep bt_mirror (Fin l) (Fin u) y = clip (Fin l) (Fin u) (iter rep (mstep_hi true (Fin l) (Fin u)) y).
Proof.
  intros Hlu Hy. unfold apply_bounds_gen. rewrite Z.eqb_refl, bt_mirror_not_none. cbn [andb].
  rewrite (proj2 (above_true_fin y u) Hy).
  assert (Hbe : below y (Fin l) = false) by (apply below_false_iff; cbn; lra). rewrite Hbe.
  rewrite (iter_id rep _ _ (mstep_lo_off (Fin l) (Fin u))). reflexivity.
Qed.

Theorem mirror_repeated_lower rep l u y n : l <= u -> (n < rep)%nat ->
  2 * nQ n * (u - l) < l - y -> l - y <= 2 * (nQ n + 1) * (u - l) ->
  (l - y - 2 * nQ n * (u - l) <= u - l ->
     apply_bounds_gen rep bt_mirror (Fin l) (Fin u) y == 2 * l - y - 2 * nQ n * (u - l)) /\
  (u - l < l - y - 2 * nQ n * (u - l) ->
     apply_bounds_gen rep bt_mirror (Fin l) (Fin u) y == y + 2 * (nQ n + 1) * (u - l)).
Proof.
  intros Hlu Hn Hlo Hhi. pose proof (nQ_nonneg n) as Hnn.
  assert (Hw : 0 <= (nQ n) * (u - l)) by (apply Qmult_le_0_compat; lra).
  assert (Hy : y < l) by lra. rewrite (mirror_lower_setup rep l u y Hlu Hy).
  destruct (iter_lo_closed l u Hlu n rep y Hn Hlo Hhi) as [z [-> [Hin [Ha Hb]]]].
  rewrite (clip_inside _ _ _ Hin). split; assumption.
Qed.
Theorem mirror_far_lower rep l u y : l <= u -> 2 * nQ rep * (u - l) < l - y ->
  apply_bounds_gen rep bt_mirror (Fin l) (Fin u) y = l.
Proof.
  intros Hlu H. pose proof (nQ_nonneg rep) as Hnn.
  assert (Hw : 0 <= (nQ rep) * (u - l)) by (apply Qmult_le_0_compat; lra).
  assert (Hy : y < l) by lra. rewrite (mirror_lower_setup rep l u y Hlu Hy).
  apply clip_below; [cbn; apply Qleb_le, Hlu | apply iter_lo_far; assumption].
Qed.
Theorem mirror_repeated_upper rep l u y n : l <= u -> (n < rep)%nat ->
  2 * nQ n * (u - l) < y - u -> y - u <= 2 * (nQ n + 1) * (u - l) ->
  (y - u - 2 * nQ n * (u - l) <= u - l ->
     apply_bounds_gen rep bt_mirror (Fin l) (Fin u) y == 2 * u - y + 2 * nQ n * (u - l)) /\
  (u - l < y - u - 2 * nQ n * (u - l) ->
     apply_bounds_gen rep bt_mirror (Fin l) (Fin u) y == y - 2 * (nQ n + 1) * (u - l)).
Proof.
  intros Hlu Hn Hlo Hhi. pose proof (nQ_nonneg n) as Hnn.
  assert (Hw : 0 <= (nQ n) * (u - l)) by (apply Qmult_le_0_compat; lra).
  assert (Hy : u < y) by lra. rewrite (mirror_upper_setup rep l u y Hlu Hy).
  destruct (iter_hi_closed l u Hlu n rep y Hn Hlo Hhi) as [z [-> [Hin [Ha Hb]]]].
  rewrite (clip_inside _ _ _ Hin). split; assumption.
Qed.
Theorem mirror_far_upper rep l u y : l <= u -> 2 * nQ rep * (u - l) < y - u ->
  apply_bounds_gen rep bt_mirror (Fin l) (Fin u) y = u.
Proof.
  intros Hlu H. pose proof (nQ_nonneg rep) as Hnn.
  assert (Hw : 0 <= (nQ rep) * (u - l)) by (apply Qmult_le_0_compat; lra).
  assert (Hy : u < y) by lra. rewrite (mirror_upper_setup rep l u y Hlu Hy).
  apply clip_above; [cbn; apply Qleb_le, Hlu | apply iter_hi_far; assumption].
Qed.

(* ---- magnitudes under a VariableScaler ----------------------------------------------------------- *)
(* in the user's units (multiply the stored optimizer-domain magnitude by the scale) the magnitude is the configured
   absolute value, or the configured fraction of the user's own bound range *)
Theorem magnitude_scaled_user p l u s o m : 0 < s ->
  (Z.eqb p pt_relative = true -> efinite l && efinite u = true) ->
  magnitude_1s p (eb_to_opt s o l) (eb_to_opt s o u) s m * s == magnitude_1 p l u m.
Proof.
  intros Hs Hf. unfold magnitude_1s, magnitude_1. destruct (Z.eqb p pt_relative).
  - specialize (Hf eq_refl). destruct l as [|lq|], u as [|uq|]; try discriminate. cbn. unfold to_opt1. field. lra.
  - field. lra.
Qed.
(* the value before boundary handling, mapped back to the user domain, is x + magnitude * sample in user units *)
Theorem scaled_pre_value p l u s o m x sv : 0 < s ->
  (Z.eqb p pt_relative = true -> efinite l && efinite u = true) ->
  from_opt1 s o (to_opt1 s o x + magnitude_1s p (eb_to_opt s o l) (eb_to_opt s o u) s m * sv)
  == x + magnitude_1 p l u m * sv.
Proof.
  intros Hs Hf. rewrite <- (magnitude_scaled_user p l u s o m Hs Hf). unfold from_opt1, to_opt1. field. lra.
Qed.
Lemma map3_nth {A B C D} (f : A -> B -> C -> D) a b c i x y z :
  nth_error a i = Some x -> nth_error b i = Some y -> nth_error c i = Some z ->
  nth_error (map3 f a b c) i = Some (f x y z).
Proof.
  revert b c i. induction a as [|x0 a IH]; intros b c i Ha Hb Hc; [destruct i; discriminate|].
  destruct b as [|y0 b]; [destruct i; discriminate|]. destruct c as [|z0 c]; [destruct i; discriminate|].
  destruct i as [|i]; cbn in *; [congruence | apply IH; assumption].
Qed.

(* ---- fix_perturbations with a scaler: the whole vector ------------------------------------------- *)
Lemma efinite_to_opt s o b : efinite (eb_to_opt s o b) = efinite b.
Proof. destruct b; reflexivity. Qed.
Lemma map3_length {A B C D} (f : A -> B -> C -> D) a b c n :
  length a = n -> length b = n -> length c = n -> length (map3 f a b c) = n.
Proof.
  revert b c n. induction a as [|x a IH]; intros b c n Ha Hb Hc; cbn in *; [exact Ha|].
  destruct b as [|y b]; [subst n; discriminate|]. destruct c as [|z c]; [subst n; discriminate|].
  destruct n as [|n]; [discriminate|]. cbn in *. f_equal. apply IH; lia.
Qed.
Lemma magnitudes_vec_s_nth pts lbs ubs ss ms i p l u s m :
  nth_error pts i = Some p -> nth_error lbs i = Some l -> nth_error ubs i = Some u ->
  nth_error ss i = Some s -> nth_error ms i = Some m ->
  nth_error (magnitudes_vec_s pts lbs ubs ss ms) i = Some (magnitude_1s p l u s m).
Proof.
  revert lbs ubs ss ms i. induction pts as [|p0 pts IH]; intros lbs ubs ss ms i Hp Hl Hu Hs Hm;
    [destruct i; discriminate|].
  destruct lbs as [|l0 lbs]; [destruct i; discriminate|].
  destruct ubs as [|u0 ubs]; [destruct i; discriminate|].
  destruct ss as [|s0 ss]; [destruct i; discriminate|].
  destruct ms as [|m0 ms]; [destruct i; discriminate|].
  destruct i as [|i]; cbn in *.
  - injection Hp as <-. injection Hl as <-. injection Hu as <-. injection Hs as <-. injection Hm as <-. reflexivity.
  - apply IH; assumption.
Qed.

(* accepted configuration under a scaler: entry i is the optimizer-domain magnitude of variable i (which
   [magnitude_scaled_user] relates to the user's units), and RELATIVE variables have finite bounds *)
Theorem magnitudes_scaled_ok pts lbs ubs ss os ms mags i l u s o :
  magnitudes_scaled pts lbs ubs ss os ms = MagOk mags ->
  length ubs = length lbs -> length ss = length lbs -> length os = length lbs ->
  nth_error lbs i = Some l -> nth_error ubs i = Some u -> nth_error ss i = Some s -> nth_error os i = Some o ->
  exists p m, bnth pts i = Some p /\ bnth ms i = Some m /\
    nth_error mags i = Some (magnitude_1s p (eb_to_opt s o l) (eb_to_opt s o u) s m) /\
    (Z.eqb p pt_relative = true -> efinite l && efinite u = true).
Proof.
  unfold magnitudes_scaled. intros H Hlen Hss Hos Hl Hu Hs Ho.
  destruct (broadcast (length lbs) ms) as [ms'|] eqn:Em; [|discriminate].
  destruct (broadcast (length lbs) pts) as [pts'|] eqn:Ep; [|discriminate].
  destruct (rel_finite pts' (bounds_to_opt ss os lbs) (bounds_to_opt ss os ubs)) eqn:Er; [|discriminate].
  injection H as <-.
  assert (Hi : (i < length lbs)%nat) by (apply nth_error_Some; congruence).
  destruct (broadcast_nth _ _ _ i Em Hi) as [Hm1 Hm2].
  destruct (broadcast_nth _ _ _ i Ep Hi) as [Hp1 Hp2].
  destruct (nth_error pts' i) as [p|] eqn:Epi; [|apply nth_error_None in Epi; lia].
  destruct (nth_error ms' i) as [m|] eqn:Emi; [|apply nth_error_None in Emi; lia].
  assert (Hl' : nth_error (bounds_to_opt ss os lbs) i = Some (eb_to_opt s o l)) by (apply map3_nth; assumption).
  assert (Hu' : nth_error (bounds_to_opt ss os ubs) i = Some (eb_to_opt s o u)) by (apply map3_nth; assumption).
  exists p, m. unfold bnth. split; [symmetry; exact Hp1|]. split; [symmetry; exact Hm1|].
  split; [apply magnitudes_vec_s_nth; assumption|].
  intros Hp. apply Z.eqb_eq in Hp. subst p.
  destruct (rel_finite_nth _ _ _ _ _ _ Er Epi Hl' Hu') as [Hfl Hfu].
  rewrite efinite_to_opt in Hfl, Hfu. rewrite Hfl, Hfu. reflexivity.
Qed.

(* rejected (ValueError) exactly when some RELATIVE variable has an infinite bound -- whatever the scaler *)
Theorem magnitudes_scaled_infinite_iff pts lbs ubs ss os ms : let n := length lbs in
  length pts = n -> length ms = n -> length ubs = n -> length ss = n -> length os = n -> n <> 1%nat ->
  (magnitudes_scaled pts lbs ubs ss os ms = MagInfinite <->
   exists i l u, nth_error pts i = Some pt_relative /\ nth_error lbs i = Some l /\ nth_error ubs i = Some u /\
                 (efinite l && efinite u = false)).
Proof.
  intros n Hp Hm Hu Hs Ho Hn. unfold magnitudes_scaled. fold n.
  rewrite (broadcast_full _ ms Hm Hn), (broadcast_full _ pts Hp Hn).
  assert (Hnth : forall bs i b, length bs = n -> nth_error bs i = Some b ->
                 exists s o, nth_error (bounds_to_opt ss os bs) i = Some (eb_to_opt s o b)).
  { intros bs i b Hb Hi. assert (Hlt : (i < n)%nat) by (rewrite <- Hb; apply nth_error_Some; congruence).
    destruct (nth_error ss i) as [s|] eqn:Es; [|apply nth_error_None in Es; lia].
    destruct (nth_error os i) as [o|] eqn:Eo; [|apply nth_error_None in Eo; lia].
    exists s, o. apply map3_nth; assumption. }
  destruct (rel_finite pts (bounds_to_opt ss os lbs) (bounds_to_opt ss os ubs)) eqn:Er.
  - split; [discriminate|]. intros [i [l [u [H1 [H2 [H3 H4]]]]]].
    destruct (Hnth lbs i l eq_refl H2) as [s [o Hl']]. destruct (Hnth ubs i u Hu H3) as [s' [o' Hu']].
    destruct (rel_finite_nth _ _ _ _ _ _ Er H1 Hl' Hu') as [Ha Hb]. rewrite efinite_to_opt in Ha, Hb.
    rewrite Ha, Hb in H4. discriminate.
  - split; [|reflexivity]. intros _. destruct (rel_finite_false _ _ _ Er) as [i [l' [u' [H1 [H2 [H3 H4]]]]]].
    assert (Hlt : (i < n)%nat).
    { rewrite <- (map3_length eb_to_opt ss os lbs n Hs Ho eq_refl). apply nth_error_Some.
      unfold bounds_to_opt in H2. congruence. }
    destruct (nth_error lbs i) as [l|] eqn:El; [|apply nth_error_None in El; fold n in El; lia].
    destruct (nth_error ubs i) as [u|] eqn:Eu; [|apply nth_error_None in Eu; lia].
    destruct (Hnth lbs i l eq_refl El) as [s [o Hl']]. destruct (Hnth ubs i u Hu Eu) as [s' [o' Hu']].
    rewrite Hl' in H2. rewrite Hu' in H3. injection H2 as <-. injection H3 as <-.
    rewrite !efinite_to_opt in H4. exists i, l, u. auto.
Qed.
