(* Proofs/BoundsScaling.v -- C10 x C11: ONE boundary-handling model, and its equivariance under scaling.

   Model/Bounds.v (C10) and Model/Transforms.v (C11) each carry a per-component model of ropt's _apply_bounds.
   They are written differently:
     * boundary types:  C10 keeps the numeric enum code (Z) and compares it with the codes of MIRROR_BOTH and NONE,
       so that EVERY code other than NONE is clipped and only MIRROR_BOTH is mirrored (as numpy does);
       C11 decodes the code to an inductive [btype] (btype_of_code : Z -> option btype) and has no value for a code
       outside the enumeration;
     * the masks:  C10 passes mask1/mask2 into every mirror step (np.where(mask & condition, ..)), C11 guards the
       whole loop (if mask then iter .. else ..);
     * improper bounds:  C10 evaluates y < +inf and y > -inf as numpy does (true), C11 assumes a lower bound is never
       +inf and an upper bound never -inf and evaluates both to false;
     * clip:  C10 tests l <= v, C11 tests v < l.
   This file proves that these are differences of presentation only: for every repeat count, every code, ALL
   extended-real bounds (proper or not) and every value the two functions return the same rational (Leibniz
   equality) -- [apply_bounds_models_agree] -- and derives from it, and from C11's theorem, that C10's own
   [apply_bounds_gen] / [apply_bounds_1] / [apply_bounds] / [perturb] are equivariant under every positive affine
   change of variable x |-> (x - o) / s applied to the value and both bounds, and that a component perturbed in
   optimizer units maps back to the component perturbed in user units. *)
From Coq Require Import String ZArith QArith Qabs Qminmax Bool List Lqa Lia Arith.
From Ropt Require Import Base.Num Base.ListX Gen.Generated Model.Bounds Model.Transforms Proofs.Bounds Proofs.Transforms.
Import ListNotations.
Open Scope Q_scope.

Module B := Ropt.Model.Bounds.
Module T := Ropt.Model.Transforms.
Module PT := Ropt.Proofs.Transforms.

(* ================================================================================================ *)
(* (i) the two definitions agree                                                                     *)
(* ================================================================================================ *)
(* C10's reading of a boundary-type code, as a C11 [btype]: total on Z *)
Definition bt_of (t : Z) : T.btype :=
  if Z.eqb t B.bt_mirror then T.BMirror else if Z.eqb t B.bt_none then T.BNone else T.BTrunc.

(* on the codes C11 can decode the two readings coincide; every other code is clipped by C10 (TRUNCATE_BOTH) *)
Lemma bt_of_decoded t bt : T.btype_of_code t = Some bt -> bt_of t = bt.
Proof.
  unfold T.btype_of_code, T.code_name, enum_BoundaryType. cbn [find snd fst].
  destruct (Z.eqb 1 t) eqn:E1; [apply Z.eqb_eq in E1; subst t; vm_compute; congruence|].
  destruct (Z.eqb 2 t) eqn:E2; [apply Z.eqb_eq in E2; subst t; vm_compute; congruence|].
  destruct (Z.eqb 3 t) eqn:E3; [apply Z.eqb_eq in E3; subst t; vm_compute; congruence|].
  discriminate.
Qed.
Lemma bt_of_undecoded t : T.btype_of_code t = None -> bt_of t = T.BTrunc.
Proof.
  unfold T.btype_of_code, T.code_name, enum_BoundaryType. cbn [find snd fst].
  destruct (Z.eqb 1 t) eqn:E1; [apply Z.eqb_eq in E1; subst t; vm_compute; congruence|].
  destruct (Z.eqb 2 t) eqn:E2; [apply Z.eqb_eq in E2; subst t; vm_compute; congruence|].
  destruct (Z.eqb 3 t) eqn:E3; [apply Z.eqb_eq in E3; subst t; vm_compute; congruence|].
  intros _. unfold bt_of, B.bt_mirror, B.bt_none, B.enum_code, enum_BoundaryType. cbn.
  rewrite Z.eqb_sym, E3, Z.eqb_sym, E1. reflexivity.
Qed.
Lemma bt_of_named : bt_of B.bt_none = T.BNone /\ bt_of B.bt_truncate = T.BTrunc /\ bt_of B.bt_mirror = T.BMirror.
Proof. vm_compute. auto. Qed.

(* where the two files differ pointwise: the comparisons with an improper bound *)
Lemma below_above_differ y :
  B.below y PInf = true /\ T.below y PInf = false /\ B.above y NInf = true /\ T.above y NInf = false.
Proof. repeat split. Qed.
(* ... and nowhere else *)
Lemma below_agree y lb : lb <> PInf -> B.below y lb = T.below y lb.
Proof. destruct lb; [reflexivity | reflexivity | congruence]. Qed.
Lemma above_agree y ub : ub <> NInf -> B.above y ub = T.above y ub.
Proof. destruct ub; [congruence | reflexivity | reflexivity]. Qed.
Lemma refl_agree b y : B.refl b y = T.refl b y.
Proof. reflexivity. Qed.

(* one pass of either loop with the mask on: identical for ALL bounds (a reflection at an infinite bound is the
   identity, so the value of the comparison with it does not matter) *)
Lemma mstep_lo_agree lb ub v : B.mstep_lo true lb ub v = T.mstep_lo lb ub v.
Proof.
  unfold B.mstep_lo, T.mstep_lo, B.mirror. cbn [andb].
  destruct lb as [|l|]; cbn [B.below T.below B.refl T.refl];
    try destruct (Qltb v l); destruct ub as [|u|]; cbn [B.above T.above B.refl T.refl];
    try match goal with |- context [Qltb ?a ?b] => destruct (Qltb a b) end; reflexivity.
Qed.
Lemma mstep_hi_agree lb ub v : B.mstep_hi true lb ub v = T.mstep_hi lb ub v.
Proof.
  unfold B.mstep_hi, T.mstep_hi, B.mirror. cbn [andb].
  destruct ub as [|u|]; cbn [B.above T.above B.refl T.refl];
    try destruct (Qltb u v); destruct lb as [|l|]; cbn [B.below T.below B.refl T.refl];
    try match goal with |- context [Qltb ?a ?b] => destruct (Qltb a b) end; reflexivity.
Qed.
Lemma iter_agree {A} n (f g : A -> A) x : (forall z, f z = g z) -> B.iter n f x = T.iter n g x.
Proof. intros H. revert x. induction n as [|n IH]; intros x; cbn; [reflexivity | rewrite H; apply IH]. Qed.
Lemma T_iter_fix {A} n (f : A -> A) x : f x = x -> T.iter n f x = x.
Proof. intros H. induction n as [|n IH]; cbn; [reflexivity | rewrite H; exact IH]. Qed.
(* a loop of C10 with its mask = the guarded loop of C11 *)
Lemma loop_lo_agree rep m lb ub y :
  B.iter rep (B.mstep_lo m lb ub) y = if m then T.iter rep (T.mstep_lo lb ub) y else y.
Proof.
  destruct m; [apply iter_agree; intros z; apply mstep_lo_agree | apply iter_id, mstep_lo_off].
Qed.
Lemma loop_hi_agree rep m lb ub y :
  B.iter rep (B.mstep_hi m lb ub) y = if m then T.iter rep (T.mstep_hi lb ub) y else y.
Proof.
  destruct m; [apply iter_agree; intros z; apply mstep_hi_agree | apply iter_id, mstep_hi_off].
Qed.
Lemma clip_agree lb ub v : B.clip lb ub v = T.clip lb ub v.
Proof.
  unfold B.clip, T.clip, Qleb, Qltb.
  destruct lb as [|l|]; [| destruct (Qle_bool l v) |]; cbn [negb];
    destruct ub as [|u|]; try reflexivity;
    match goal with |- context [Qle_bool ?a u] => destruct (Qle_bool a u) end; reflexivity.
Qed.

(* the mirror part (both loops) for MIRROR_BOTH: the masks of the two files differ at improper bounds, the values
   do not *)
Lemma mirror_loops_agree rep lb ub y :
  (let v1 := if B.below y lb then T.iter rep (T.mstep_lo lb ub) y else y in
   if B.above y ub then T.iter rep (T.mstep_hi lb ub) v1 else v1) =
  (let v1 := if T.below y lb then T.iter rep (T.mstep_lo lb ub) y else y in
   if T.above y ub then T.iter rep (T.mstep_hi lb ub) v1 else v1).
Proof.
  cbn zeta. destruct lb as [|l|], ub as [|u|]; try reflexivity.
  - (* (-inf, -inf): C10's mask2 is on, every step is the identity *)
    cbn [B.below T.below B.above T.above]. apply T_iter_fix. reflexivity.
  - (* (l, -inf): C10's mask2 is on; after the first loop the value is not below l, the second loop keeps it *)
    cbn [B.below T.below B.above T.above].
    assert (Hfix : forall v, Qltb v l = false -> T.iter rep (T.mstep_hi (Fin l) NInf) v = v).
    { intros v Hv. apply T_iter_fix. unfold T.mstep_hi. cbn [T.above T.below]. rewrite Hv. reflexivity. }
    destruct (Qltb y l) eqn:Ey; [|apply Hfix, Ey].
    destruct rep as [|r]; [reflexivity|]. cbn [T.iter].
    assert (Hs : T.mstep_lo (Fin l) NInf y = 2 * l - y).
    { unfold T.mstep_lo. cbn [T.below T.above T.refl]. rewrite Ey. reflexivity. }
    assert (Hn : Qltb (2 * l - y) l = false) by (apply Qltb_nlt; apply Qltb_lt in Ey; lra).
    assert (Hf : T.mstep_lo (Fin l) NInf (2 * l - y) = 2 * l - y).
    { unfold T.mstep_lo. cbn [T.below T.above]. rewrite Hn. reflexivity. }
    rewrite Hs, (T_iter_fix r _ _ Hf).
    change (T.iter (S r) (T.mstep_hi (Fin l) NInf) (2 * l - y) = 2 * l - y). apply Hfix, Hn.
  - (* (+inf, -inf) *)
    cbn [B.below T.below B.above T.above].
    assert (H1 : T.iter rep (T.mstep_lo PInf NInf) y = y) by (apply T_iter_fix; reflexivity).
    rewrite H1. apply T_iter_fix. reflexivity.
  - (* (+inf, u): C10's mask1 is on; its first loop already reflects at u what C11's second loop reflects *)
    cbn [B.below T.below B.above T.above].
    destruct (Qltb u y) eqn:Ey.
    + destruct rep as [|r]; [reflexivity|]. cbn [T.iter].
      assert (Hn : Qltb u (2 * u - y) = false) by (apply Qltb_nlt; apply Qltb_lt in Ey; lra).
      assert (Hs1 : T.mstep_lo PInf (Fin u) y = 2 * u - y).
      { unfold T.mstep_lo. cbn [T.below T.above T.refl]. rewrite Ey. reflexivity. }
      assert (Hf1 : T.mstep_lo PInf (Fin u) (2 * u - y) = 2 * u - y).
      { unfold T.mstep_lo. cbn [T.below T.above]. rewrite Hn. reflexivity. }
      assert (Hs2 : T.mstep_hi PInf (Fin u) y = 2 * u - y).
      { unfold T.mstep_hi. cbn [T.below T.above T.refl]. rewrite Ey. reflexivity. }
      assert (Hf2 : T.mstep_hi PInf (Fin u) (2 * u - y) = 2 * u - y).
      { unfold T.mstep_hi. cbn [T.below T.above]. rewrite Hn. reflexivity. }
      rewrite Hs1, (T_iter_fix r _ _ Hf1), Hs2, Hf2, !(T_iter_fix r _ _ Hf2). reflexivity.
    + apply T_iter_fix. unfold T.mstep_lo. cbn [T.below T.above]. rewrite Ey. reflexivity.
  - (* (+inf, +inf) *)
    cbn [B.below T.below B.above T.above]. apply T_iter_fix. reflexivity.
Qed.

(* THE AGREEMENT: one boundary-handling model.  All repeat counts, all codes, all extended-real bounds, all values *)
Theorem apply_bounds_models_agree rep t lb ub y :
  B.apply_bounds_gen rep t lb ub y = T.apply_bounds_1 rep (bt_of t) lb ub y.
Proof.
  unfold B.apply_bounds_gen, T.apply_bounds_1, bt_of. cbn zeta.
  rewrite loop_lo_agree, loop_hi_agree.
  destruct (Z.eqb t B.bt_mirror) eqn:Em.
  - apply Z.eqb_eq in Em. subst t. rewrite bt_mirror_not_none. cbn [andb].
    rewrite <- clip_agree. f_equal. exact (mirror_loops_agree rep lb ub y).
  - cbn [andb]. destruct (Z.eqb t B.bt_none); [reflexivity | apply clip_agree].
Qed.

Corollary apply_bounds_1_models_agree t bt lb ub y : T.btype_of_code t = Some bt ->
  B.apply_bounds_1 t lb ub y = T.apply_bounds_1 mirror_repeat bt lb ub y.
Proof. intros H. unfold B.apply_bounds_1. rewrite apply_bounds_models_agree, (bt_of_decoded t bt H). reflexivity. Qed.

(* a code outside the enumeration: no value in C11's model, TRUNCATE_BOTH semantics in C10's (as numpy's
   np.where(types == NONE, v, clip(v)) gives) *)
Corollary apply_bounds_undecoded rep t lb ub y : T.btype_of_code t = None ->
  B.apply_bounds_gen rep t lb ub y = B.clip lb ub y.
Proof.
  intros H. rewrite apply_bounds_models_agree, (bt_of_undecoded t H). unfold T.apply_bounds_1. symmetry. apply clip_agree.
Qed.

(* ================================================================================================ *)
(* (ii) equivariance of C10's own model under x |-> (x - o) / s,  s > 0                               *)
(* ================================================================================================ *)
Lemma to_opt1_T s o x : B.to_opt1 s o x = PT.T s o x.
Proof. reflexivity. Qed.
Lemma eb_to_opt_Tb s o b : 0 < s -> B.eb_to_opt s o b = PT.Tb s o b.
Proof.
  intros Hs. destruct b as [|q|]; [rewrite (PT.Tb_ninf s o Hs) | rewrite PT.Tb_fin | rewrite (PT.Tb_pinf s o Hs)]; reflexivity.
Qed.

(* value and both bounds transformed, the value up to == (the optimizer-domain value is computed, not transformed) *)
Theorem apply_bounds_gen_equivariant s o rep t lb ub y y' : 0 < s -> y' == B.to_opt1 s o y ->
  B.apply_bounds_gen rep t (B.eb_to_opt s o lb) (B.eb_to_opt s o ub) y' == B.to_opt1 s o (B.apply_bounds_gen rep t lb ub y).
Proof.
  intros Hs Hy. rewrite !apply_bounds_models_agree, !(eb_to_opt_Tb s o _ Hs), to_opt1_T.
  apply (PT.apply_bounds_T s o Hs). exact Hy.
Qed.

Theorem apply_bounds_1_equivariant s o t lb ub y : 0 < s ->
  B.apply_bounds_1 t (B.eb_to_opt s o lb) (B.eb_to_opt s o ub) (B.to_opt1 s o y)
  == B.to_opt1 s o (B.apply_bounds_1 t lb ub y).
Proof. intros Hs. apply apply_bounds_gen_equivariant; [exact Hs | reflexivity]. Qed.

(* mapped back: the user-units component *)
Lemma from_to_opt1 s o x : 0 < s -> B.from_opt1 s o (B.to_opt1 s o x) == x.
Proof. intros Hs. unfold B.from_opt1, B.to_opt1. field. lra. Qed.
Lemma from_opt1_proper s o a b : a == b -> B.from_opt1 s o a == B.from_opt1 s o b.
Proof. intros H. unfold B.from_opt1. rewrite H. reflexivity. Qed.

Theorem apply_bounds_back s o rep t lb ub y y' : 0 < s -> B.from_opt1 s o y' == y ->
  B.from_opt1 s o (B.apply_bounds_gen rep t (B.eb_to_opt s o lb) (B.eb_to_opt s o ub) y')
  == B.apply_bounds_gen rep t lb ub y.
Proof.
  intros Hs Hy.
  assert (Hy' : y' == B.to_opt1 s o y).
  { unfold B.from_opt1 in Hy. unfold B.to_opt1. rewrite <- Hy. field. lra. }
  rewrite (from_opt1_proper s o _ _ (apply_bounds_gen_equivariant s o rep t lb ub y y' Hs Hy')).
  apply from_to_opt1, Hs.
Qed.

(* the perturbed component computed in optimizer units -- point (x - o) / s, stored magnitude [magnitude_1s]
   (m / s for ABSOLUTE, fraction of the transformed range for RELATIVE), transformed bounds -- maps back to the
   component perturbed in the user's units with the user-units magnitude [magnitude_1] *)
Theorem perturbed_component_user_units p t l u s o m x sv : 0 < s ->
  (Z.eqb p B.pt_relative = true -> efinite l && efinite u = true) ->
  B.from_opt1 s o
    (B.apply_bounds_1 t (B.eb_to_opt s o l) (B.eb_to_opt s o u)
       (B.to_opt1 s o x + B.magnitude_1s p (B.eb_to_opt s o l) (B.eb_to_opt s o u) s m * sv))
  == B.apply_bounds_1 t l u (x + B.magnitude_1 p l u m * sv).
Proof.
  intros Hs Hf. unfold B.apply_bounds_1. apply apply_bounds_back; [exact Hs|].
  apply scaled_pre_value; assumption.
Qed.

(* the same with any magnitude mh == me / s (C10_magnitude_scaled gives this for the stored magnitude) *)
Theorem perturbed_component_any_magnitude t l u s o x sv mh me : 0 < s -> mh * s == me ->
  B.from_opt1 s o (B.apply_bounds_1 t (B.eb_to_opt s o l) (B.eb_to_opt s o u) (B.to_opt1 s o x + mh * sv))
  == B.apply_bounds_1 t l u (x + me * sv).
Proof.
  intros Hs Hm. unfold B.apply_bounds_1. apply apply_bounds_back; [exact Hs|].
  rewrite <- Hm. unfold B.from_opt1, B.to_opt1. field. lra.
Qed.

(* ---- the whole (R, P, V) array --------------------------------------------------------------------- *)
(* entry (r, p, v) of the array perturbed in the optimizer domain (transformed point, bounds and magnitudes) maps
   back to the entry of the array perturbed in the user domain *)
Theorem perturb_scaled_user ts lbs ubs ss os x pts ms samples r p v t l u s o xv pt m sv :
  nth_error ts v = Some t -> nth_error lbs v = Some l -> nth_error ubs v = Some u ->
  nth_error ss v = Some s -> nth_error os v = Some o -> nth_error x v = Some xv ->
  nth_error pts v = Some pt -> nth_error ms v = Some m -> nth3 samples r p v = Some sv ->
  0 < s -> (Z.eqb pt B.pt_relative = true -> efinite l && efinite u = true) ->
  exists q q',
    nth3 (B.perturb ts (B.bounds_to_opt ss os lbs) (B.bounds_to_opt ss os ubs) (B.vec_to_opt ss os x)
            (B.magnitudes_vec_s pts (B.bounds_to_opt ss os lbs) (B.bounds_to_opt ss os ubs) ss ms) samples) r p v = Some q /\
    nth3 (B.perturb ts lbs ubs x (B.magnitudes_vec pts lbs ubs ms) samples) r p v = Some q' /\
    B.from_opt1 s o q == q'.
Proof.
  intros Ht Hl Hu Hs Ho Hx Hp Hm Hsv Hpos Hf.
  assert (Hl' : nth_error (B.bounds_to_opt ss os lbs) v = Some (B.eb_to_opt s o l)) by (apply map3_nth; assumption).
  assert (Hu' : nth_error (B.bounds_to_opt ss os ubs) v = Some (B.eb_to_opt s o u)) by (apply map3_nth; assumption).
  assert (Hx' : nth_error (B.vec_to_opt ss os x) v = Some (B.to_opt1 s o xv)) by (apply map3_nth; assumption).
  eexists. eexists. split; [|split].
  - apply perturb_formula; try eassumption. apply magnitudes_vec_s_nth; eassumption.
  - apply perturb_formula; try eassumption. apply magnitudes_vec_nth; eassumption.
  - apply perturbed_component_user_units; assumption.
Qed.

(* the whole vector handed to _apply_bounds, any lengths (both sides are cut at the shortest argument) *)
Theorem apply_bounds_vec_equivariant ts lbs ubs ss os ys : Forall (fun s => 0 < s) ss ->
  Forall2 Qeq (B.apply_bounds ts (B.bounds_to_opt ss os lbs) (B.bounds_to_opt ss os ubs) (B.vec_to_opt ss os ys))
              (B.vec_to_opt ss os (B.apply_bounds ts lbs ubs ys)).
Proof.
  intros Hss. revert ts lbs ubs os ys. induction Hss as [|s ss Hs _ IH]; intros ts lbs ubs os ys.
  - destruct ts; constructor.
  - destruct os as [|o os]; [destruct ts; constructor|].
    destruct ts as [|t ts]; [constructor|].
    destruct lbs as [|l lbs]; [constructor|].
    destruct ubs as [|u ubs]; [constructor|].
    destruct ys as [|y ys]; [constructor|].
    cbn [B.apply_bounds B.bounds_to_opt B.vec_to_opt B.map3]. constructor.
    + apply apply_bounds_1_equivariant, Hs.
    + apply IH.
Qed.
