(* Props/C06.v -- property C06: evaluator requests are complete and correctly labelled; inactive entries
   are inert; ropt never writes what the evaluator owns; delivered results are snapshots.
   Only statements; each is closed by lemmas of Proofs/Layout.v and Proofs/Store.v. *)
From Coq Require Import QArith ZArith List Bool Arith.
From Ropt Require Import Base.Num Base.ListX Model.Layout Model.Store Proofs.Layout Proofs.Store.
Import ListNotations.
Open Scope Q_scope.

(* (a) for all B, R, P: each label list contains exactly the required combinations, each once; the
   realization / perturbation arrays of the context are its two components; the unperturbed rows of a
   combined request carry perturbation -1 *)
Theorem C06_labels_complete : forall B R P : nat,
  (NoDup (labels_functions B R) /\ forall b r, In (b, r) (labels_functions B R) <-> (b < B /\ r < R)%nat) /\
  (NoDup (labels_gradient R P) /\
   forall r p, In (r, p) (labels_gradient R P) <-> (r < R)%nat /\ (0 <= p < Z.of_nat P)%Z) /\
  (NoDup (labels_both R P) /\
   forall r p, In (r, p) (labels_both R P) <-> (r < R)%nat /\ (-1 <= p < Z.of_nat P)%Z) /\
  ctx_realizations (KFun B) R P = map snd (labels_functions B R) /\ ctx_perturbations (KFun B) R P = None /\
  (ctx_realizations KGrad R P = map fst (labels_gradient R P) /\
   ctx_perturbations KGrad R P = Some (map snd (labels_gradient R P))) /\
  (ctx_realizations KBoth R P = map fst (labels_both R P) /\
   ctx_perturbations KBoth R P = Some (map snd (labels_both R P))).
Proof.
  intros B R P.
  split; [split; [apply labels_functions_nodup | apply labels_functions_complete]|].
  split; [split; [apply labels_gradient_nodup | apply labels_gradient_complete]|].
  split; [split; [apply labels_both_nodup | apply labels_both_complete]|].
  split; [exact (ctx_functions_labels B R)|]. split; [reflexivity|].
  split; [apply ctx_gradient_labels | apply ctx_both_labels].
Qed.

(* (a) row i of the variable matrix handed to the evaluator is the user-domain image of the vector of
   label i: batch member b for label (b, r), the unperturbed vector for (r, -1), perturbed vector [r][p]
   for (r, p) *)
Theorem C06_rows_carry_labels : forall (vt : vtransform) (X : list vec) (x : vec) (PV : list (list vec)) (B R P b r p : nat),
  Forall (fun l => length l = P) PV -> (r < R)%nat ->
  ((b < B)%nat ->
     nth_error (labels_functions B R) (b * R + r) = Some (b, r) /\
     nth_error (request_rows vt (KFun B) X PV R) (b * R + r) = option_map (from_opt vt) (nth_error X b)) /\
  ((p < P)%nat ->
     nth_error (labels_gradient R P) (r * P + p) = Some (r, Z.of_nat p) /\
     nth_error (request_rows vt KGrad X PV R) (r * P + p) =
       option_map (from_opt vt) (match nth_error PV r with Some l => nth_error l p | None => None end)) /\
  (nth_error (labels_both R P) r = Some (r, (-1)%Z) /\
   nth_error (request_rows vt KBoth (x :: X) PV R) r = Some (from_opt vt x)) /\
  ((p < P)%nat ->
     nth_error (labels_both R P) (R + (r * P + p)) = Some (r, Z.of_nat p) /\
     nth_error (request_rows vt KBoth (x :: X) PV R) (R + (r * P + p)) =
       option_map (from_opt vt) (match nth_error PV r with Some l => nth_error l p | None => None end)).
Proof.
  intros vt X x PV B R P b r p Hall Hr. rewrite !request_rows_nth. repeat split.
  - now apply functions_row_label.
  - now rewrite functions_row_vector.
  - now apply gradient_row_label.
  - now rewrite (gradient_row_vector PV P r p Hall).
  - now apply both_row_label_fun.
  - cbn [hd]. now rewrite both_row_vector_fun.
  - now apply both_row_label_grad.
  - cbn [hd]. now rewrite (both_row_vector_grad x PV R P r p Hall).
Qed.

(* (b) every reported per-realization value is the (transformed, NaN-propagated) value returned for the
   row carrying that label -- function batches: reported [b][r] comes from row b*R + r *)
Theorem C06_provenance_functions : forall so sc B R (o c : list orow) ids b r po pc pi ro rc,
  (b < B)%nat -> (r < R)%nat ->
  nth_error (report_functions so sc B R o (Some c) ids) b = Some (po, Some pc, pi) ->
  nth_error o (b * R + r) = Some ro -> nth_error c (b * R + r) = Some rc ->
  nth_error po r = Some (fst (row_report so sc ro (Some rc))) /\
  Some (nth_error pc r) = option_map Some (snd (row_report so sc ro (Some rc))) /\
  nth_error pi r = nth_error ids (b * R + r).
Proof. exact functions_provenance. Qed.

(* gradient requests: reported [r][p] comes from row r*P + p, the row labelled (r, p) *)
Theorem C06_provenance : forall so sc R P (o c : list orow) ids r p blk cc cblk ro rc,
  (r < R)%nat -> (p < P)%nat ->
  nth_error (fst (fst (report_gradient so sc R P o (Some c) ids))) r = Some blk ->
  snd (fst (report_gradient so sc R P o (Some c) ids)) = Some cc -> nth_error cc r = Some cblk ->
  nth_error o (r * P + p) = Some ro -> nth_error c (r * P + p) = Some rc ->
  nth_error blk p = Some (fst (row_report so sc ro (Some rc))) /\
  Some (nth_error cblk p) = option_map Some (snd (row_report so sc ro (Some rc))).
Proof. exact gradient_provenance. Qed.

(* combined requests: functions from rows 0..R-1 (label (r, -1)), perturbations from row R + r*P + p *)
Theorem C06_provenance_both : forall so sc R P (o c : list orow) ids r p blk cc cblk pc ro rc go gc,
  (r < R)%nat -> (p < P)%nat ->
  nth_error o r = Some ro -> nth_error c r = Some rc ->
  snd (fst (fst (report_both so sc R P o (Some c) ids))) = Some pc ->
  nth_error (fst (fst (snd (report_both so sc R P o (Some c) ids)))) r = Some blk ->
  snd (fst (snd (report_both so sc R P o (Some c) ids))) = Some cc -> nth_error cc r = Some cblk ->
  nth_error o (R + (r * P + p)) = Some go -> nth_error c (R + (r * P + p)) = Some gc ->
  (nth_error (fst (fst (fst (report_both so sc R P o (Some c) ids)))) r = Some (fst (row_report so sc ro (Some rc))) /\
   Some (nth_error pc r) = option_map Some (snd (row_report so sc ro (Some rc))) /\
   nth_error (snd (fst (report_both so sc R P o (Some c) ids))) r = nth_error ids r) /\
  (nth_error blk p = Some (fst (row_report so sc go (Some gc))) /\
   Some (nth_error cblk p) = option_map Some (snd (row_report so sc go (Some gc)))).
Proof.
  intros so sc R P o c ids r p blk cc cblk pc ro rc go gc Hr Hp Hro Hrc Hpc Hblk Hcc Hcblk Hgo Hgc. split.
  - now apply both_provenance_functions.
  - now apply (both_provenance_gradient so sc R P o c ids r p blk cc cblk go gc).
Qed.

(* the same without constraints (functions, gradient, combined) *)
Theorem C06_provenance_nocon : forall so B R P (o : list orow) ids,
  (forall b r po pc pi row, (b < B)%nat -> (r < R)%nat ->
     nth_error (report_functions so None B R o None ids) b = Some (po, pc, pi) ->
     nth_error o (b * R + r) = Some row ->
     nth_error po r = Some (fst (row_report so None row None)) /\ nth_error pi r = nth_error ids (b * R + r)) /\
  (forall r p blk row, (r < R)%nat -> (p < P)%nat ->
     nth_error (fst (fst (report_gradient so None R P o None ids))) r = Some blk ->
     nth_error o (r * P + p) = Some row -> nth_error blk p = Some (fst (row_report so None row None))) /\
  (forall r row, (r < R)%nat -> nth_error o r = Some row ->
     nth_error (fst (fst (fst (report_both so None R P o None ids)))) r = Some (fst (row_report so None row None))) /\
  (forall r p blk row, (r < R)%nat -> (p < P)%nat ->
     nth_error (fst (fst (snd (report_both so None R P o None ids)))) r = Some blk ->
     nth_error o (R + (r * P + p)) = Some row -> nth_error blk p = Some (fst (row_report so None row None))).
Proof.
  intros so B R P o ids. split; [|split; [|split]].
  - intros b r po pc pi row Hb Hr Hblk Hrow. exact (functions_provenance_nocon so B R o ids b r po pc pi row Hb Hr Hblk Hrow).
  - intros r p blk row Hr Hp Hb Hrow. exact (proj1 (gradient_provenance_nocon so R P o ids r p blk row Hr Hp Hb Hrow)).
  - intros r row Hr Hrow. exact (proj1 (both_provenance_functions_nocon so R P o ids r row Hr Hrow)).
  - intros r p blk row Hr Hp Hb Hrow. exact (both_provenance_gradient_nocon so R P o ids r p blk row Hr Hp Hb Hrow).
Qed.

(* (c) function and combined evaluations flag (j, r) inactive only if the configured weight of r is zero *)
Theorem C06_inactive_only_if_zero : forall has_filters cfgw nobj ncon j r,
  flag_at (fst (active_function_eval has_filters cfgw nobj ncon)) j r = false \/
  flag_at (snd (active_function_eval has_filters cfgw nobj ncon)) j r = false ->
  exists w, nth_error cfgw r = Some w /\ w == 0.
Proof. exact function_eval_inactive_zero. Qed.

(* (c) a gradient-only (split) evaluation flags (j, r) inactive iff the weight in force is zero, for
   objectives and constraints independently *)
Theorem C06_split_gradient_iff_zero : forall cfgw nobj ncon ow cw j r,
  (forall row w, nth_error (in_force cfgw nobj ow) j = Some row -> nth_error row r = Some w ->
     (flag_at (fst (active_split_gradient cfgw nobj ncon ow cw)) j r = false <-> w == 0)) /\
  (forall row w, nth_error (in_force cfgw ncon cw) j = Some row -> nth_error row r = Some w ->
     (flag_at (snd (active_split_gradient cfgw nobj ncon ow cw)) j r = false <-> w == 0)).
Proof.
  intros cfgw nobj ncon ow cw j r. unfold active_split_gradient. split; intros row w Hj Hr; split.
  - intros H. apply active_objectives_sound in H as (row' & w' & H1 & H2 & H3). congruence.
  - intros H. exact (active_objectives_complete cfgw nobj ncon ow cw j r row w Hj Hr H).
  - intros H. apply active_constraints_sound in H as (row' & w' & H1 & H2 & H3). congruence.
  - intros H. exact (active_constraints_complete cfgw nobj ncon ow cw j r row w Hj Hr H).
Qed.

(* (c) the aggregate flag EvaluatorContext.active that lazy evaluators look at: for every request the model
   can issue (any kind, any cache contents of the right shape, filters or not) the model of
   EvaluatorContext.__post_init__ computes the specification "some entry of the realization is active", and
   it flags realization r inactive iff EVERY objective and constraint entry of r is flagged inactive *)
Theorem C06_aggregate_flag : forall has_filters cfgw nobj ncon c k,
  (0 < nobj)%nat -> wf_cache (length cfgw) nobj ncon c ->
  let a := plan_active has_filters cfgw nobj ncon c k in
  agg_flags (aggregate_active (length cfgw) (fst a) (snd a)) (length cfgw) = agg_spec (length cfgw) nobj ncon (fst a) (snd a) /\
  forall r, (r < length cfgw)%nat ->
    (agg_at (aggregate_active (length cfgw) (fst a) (snd a)) r = false <->
     (forall j, (j < nobj)%nat -> flag_at (fst a) j r = false) /\ (forall j, (j < ncon)%nat -> flag_at (snd a) j r = false)).
Proof.
  intros has_filters cfgw nobj ncon c k Hn Hc a. split.
  - exact (aggregate_plan has_filters cfgw nobj ncon c k Hn Hc).
  - intros r Hr. exact (aggregate_inactive_iff has_filters cfgw nobj ncon c k r Hn Hc Hr).
Qed.

(* (c) from flags to weights, end to end: for every request the model can issue, two evaluator outputs for
   function j that differ only at realizations the request flagged inactive give the same mean and variance
   estimates under the weights that are in force for that request (the cached result's for a split gradient
   request, the configured ones otherwise; with realization filters a function request flags nothing) *)
Theorem C06_flagged_entries_inert : forall has_filters cfgw nobj ncon c k j ws failed vs vs',
  wf_cache (length cfgw) nobj ncon c ->
  ((j < nobj)%nat -> weights_known has_filters cfgw nobj (cache_ow c) (is_split c k) j ws ->
   same_where (nth j (flags (fst (plan_active has_filters cfgw nobj ncon c k)) nobj (length cfgw)) []) vs vs' ->
   oQeq (est_mean ws failed vs) (est_mean ws failed vs') /\ oQeq (est_variance ws failed vs) (est_variance ws failed vs')) /\
  ((j < ncon)%nat -> weights_known has_filters cfgw ncon (cache_cw c) (is_split c k) j ws ->
   same_where (nth j (flags (snd (plan_active has_filters cfgw nobj ncon c k)) ncon (length cfgw)) []) vs vs' ->
   oQeq (est_mean ws failed vs) (est_mean ws failed vs') /\ oQeq (est_variance ws failed vs) (est_variance ws failed vs')).
Proof.
  intros has_filters cfgw nobj ncon c k j ws failed vs vs' Hc.
  destruct (plan_flagged_agree has_filters cfgw nobj ncon c k j ws vs vs' Hc) as [Ho Hk].
  split; intros Hj Hw Hs; [specialize (Ho Hj Hw Hs) | specialize (Hk Hj Hw Hs)];
    (split; [now apply est_mean_inert | now apply est_variance_inert]).
Qed.

(* (c) non-interference: two evaluator outputs that agree on every entry with non-zero weight give the
   same mean and variance estimates (any failure pattern), and the same mean / stddev-chain-rule gradient
   sums for ANY least-squares solver, because every use of an entry is multiplied by its weight *)
Theorem C06_inert :
  (forall ws failed vs vs', agree ws vs vs' ->
     oQeq (est_mean ws failed vs) (est_mean ws failed vs') /\
     oQeq (est_variance ws failed vs) (est_variance ws failed vs')) /\
  (forall (solve : list vec -> list Q -> vec) (V : nat) l l', Forall2 agree_real l l' ->
     vec_eq (mean_gradient solve V l) (mean_gradient solve V l') /\
     vec_eq (fw_gradient solve V l) (fw_gradient solve V l')).
Proof.
  split.
  - intros ws failed vs vs' H. split; [now apply est_mean_inert | now apply est_variance_inert].
  - intros solve V l l' H. split; [now apply mean_gradient_inert | now apply fw_gradient_inert].
Qed.

(* (d) store model: in every history of calls (any shapes, batch sizes, transforms, results delivered as they
   are or together with their user-domain copies, with the evaluator overwriting its buffers and every
   variable matrix it was ever handed, and the caller overwriting its variable vector between calls) no write
   or attribute assignment by ropt targets anything owned by the evaluator or the caller, every delivered
   array lives in a fresh buffer owned by ropt, and no delivered buffer is written after its delivery by
   anybody: the monitor has nothing to report *)
Theorem C06_no_foreign_write : forall ps : list params,
  let evs := run init (history_ops head 0 ps) in
  foreign_events evs = [] /\ late_writes evs = [] /\ monitor_codes head ps = [] /\
  forall b o, In (EDeliver (b, o)) evs -> o = Ropt /\ cls_of b = CRes.
Proof.
  intros ps evs. pose proof (history_good ps 0) as H. fold evs in H.
  split; [now apply good_not_foreign|]. split; [now apply good_no_late_writes|].
  split; [apply history_no_foreign_write|].
  intros b o Hin. rewrite Forall_forall in H. exact (H _ Hin).
Qed.

(* non-vacuity: concrete shapes satisfy the hypotheses; garbage in a zero-weight entry does not move the
   estimate; the three repaired defects are exactly what the store analysis reports *)
Example C06_example :
  labels_both 2 2 = [(0%nat, (-1)%Z); (1%nat, (-1)%Z); (0%nat, 0%Z); (0%nat, 1%Z); (1%nat, 0%Z); (1%nat, 1%Z)] /\
  labels_functions 2 2 = [(0, 0); (0, 1); (1, 0); (1, 1)]%nat%nat /\
  fst (active_split_gradient [Q_ 1 2; 0; Q_ 1 2] 1 1 (Some [[0; Q_ 1 2; Q_ 1 2]]) None)
    = Some [[false; true; true]] /\
  snd (active_split_gradient [Q_ 1 2; 0; Q_ 1 2] 1 1 (Some [[0; Q_ 1 2; Q_ 1 2]]) None)
    = Some [[true; false; true]] /\
  agree [Q_ 1 2; 0; Q_ 1 2] [Some 1; Some 7; Some 3] [Some 1; Some (Q_ 1267650600228229401496703205376 1); Some 3] /\
  oQeq (est_mean [Q_ 1 2; 0; Q_ 1 2] [false; false; false] [Some 1; Some 7; Some 3]) (Some 2) /\
  monitor_codes head [{| p_shape := SFun 2; p_con := true; p_tr_obj := true; p_tr_con := false; p_tr_var := true; p_user := true |};
                      {| p_shape := SBoth; p_con := true; p_tr_obj := false; p_tr_con := false; p_tr_var := false; p_user := false |}] = [] /\
  monitor_codes {| bug_setattr := true; bug_nan := false; bug_info := false; bug_var := false |}
                [{| p_shape := SGrad; p_con := true; p_tr_obj := true; p_tr_con := true; p_tr_var := false; p_user := true |}]
    = [CSetAttr FObj; CSetAttr FCon] /\
  monitor_codes {| bug_setattr := false; bug_nan := true; bug_info := false; bug_var := false |}
                [{| p_shape := SGrad; p_con := true; p_tr_obj := false; p_tr_con := false; p_tr_var := false; p_user := false |}]
    = [CBufferChanged FCon] /\
  monitor_codes {| bug_setattr := false; bug_nan := false; bug_info := true; bug_var := false |}
                [{| p_shape := SGrad; p_con := false; p_tr_obj := false; p_tr_con := false; p_tr_var := false; p_user := false |}]
    = [CAlias FInfo; CDeliveredChanged] /\
  monitor_codes {| bug_setattr := false; bug_nan := false; bug_info := false; bug_var := true |}
                [{| p_shape := SFun 1; p_con := false; p_tr_obj := false; p_tr_con := false; p_tr_var := false; p_user := false |}]
    = [CAlias FVar; CDeliveredChanged] /\
  (* the aggregate flag: realization 0 is skipped only because objective AND constraint are inactive there *)
  wf_cache 3 1 1 (Some ([1], Some [[0; Q_ 1 2; Q_ 1 2]], None)) /\
  (let a := plan_active true [Q_ 1 2; 0; Q_ 1 2] 1 1 (Some ([1], Some [[0; Q_ 1 2; Q_ 1 2]], None)) KGrad in
   a = (Some [[false; true; true]], Some [[true; false; true]]) /\
   aggregate_active 3 (fst a) (snd a) = Some [true; true; true]) /\
  (let a := plan_active false [0; 1] 1 1 None KBoth in
   a = (Some [[false; true]], Some [[false; true]]) /\ aggregate_active 2 (fst a) (snd a) = Some [false; true]) /\
  (* a pair (None, Some _) -- which _get_active_realizations never returns -- would be aggregated wrongly *)
  agg_flags (aggregate_active 2 None (Some [[false; true]])) 2 = [false; true] /\
  agg_spec 2 1 1 None (Some [[false; true]]) = [true; true] /\
  same_where [false; true] [Some 7; Some 3] [Some (Q_ 1267650600228229401496703205376 1); Some 3].
Proof.
  split; [vm_compute; reflexivity|]. split; [vm_compute; reflexivity|]. split; [vm_compute; reflexivity|].
  split; [vm_compute; reflexivity|].
  split; [repeat constructor; (right; reflexivity) || (left; reflexivity)|].
  split; [vm_compute; reflexivity|].
  do 5 (split; [vm_compute; reflexivity|]).
  split; [cbn; repeat split; repeat constructor|].
  split; [vm_compute; split; reflexivity|]. split; [vm_compute; split; reflexivity|].
  split; [vm_compute; reflexivity|]. split; [vm_compute; reflexivity|].
  repeat constructor; (left; reflexivity) || (right; reflexivity).
Qed.

Print Assumptions C06_labels_complete.
Print Assumptions C06_rows_carry_labels.
Print Assumptions C06_provenance_functions.
Print Assumptions C06_provenance.
Print Assumptions C06_provenance_both.
Print Assumptions C06_provenance_nocon.
Print Assumptions C06_inactive_only_if_zero.
Print Assumptions C06_split_gradient_iff_zero.
Print Assumptions C06_aggregate_flag.
Print Assumptions C06_flagged_entries_inert.
Print Assumptions C06_inert.
Print Assumptions C06_no_foreign_write.
