(* Props/C18.v -- property C18: validated configurations are canonical, frozen and stable under re-validation.
   Only statements; each is closed by a lemma of Proofs/Config.v / Proofs/ConfigThm.v.  All of them are about the
   executable definitions of Model/Config.v that Check/Chk_C18.check_case evaluates against the real
   EnOptConfig.model_validate, and hold for every number of variables, objectives, realizations and constraints.

   Vocabulary (Model/Config.v; the specifications are in Proofs/ConfigThm.v, section "specifications"):
     validate E ctx nls raw      EnOptConfig.model_validate(raw, context=OptModelTransforms(variables=ctx, nonlinear_constraints=nls)):
                                 Ok c | Reject (ValidationError) | Unsupported; E = the enumeration ranges (instantiated with the
                                 generated gen_enums), ctx = an optional VariableScaler, nls = optional positive scales by which
                                 the context's non-linear constraint transform divides the bounds
     dump c                      model_dump(round_trip=True) read back as a raw configuration
     canonical_weights w w'      same length, qsum w' == 1, w_i * w'_j == w_j * w'_i, zeros and signs preserved
     broadcast_of n l l'         length l' = n and (n = 0, or l' is the given vector l, or l = [x] and l' = n copies of x)
     strict_broadcast_of n l l'  the same without the n = 0 exception (np.broadcast_to)
     min_threshold m count       Some (min m count), Some count when m is None
     crossed lo up               some entry of lo is larger than the entry of up at the same position
     bad_length n l              length l is neither 1 nor n
     consistent E raw            what a dictionary must satisfy to be accepted (see C18_consistent_accepted)
     canonical E c               full lengths everywhere, weights of sum one, thresholds within the counts, no crossed bounds,
                                 enumeration values in range and NO perturbation type RELATIVE left (variables_wf, gradient_wf,
                                 linear_wf, nonlinear_wf)
     same_but_weights c c'       c' is c except that its weights are == (equal rationals) instead of identical terms
     revalidate_n E n c          n hand-offs in a row: validate E None None (dump .) iterated n times
     respelled raw raw'          raw' spells the dictionary raw differently: each broadcastable array as in raw or written out
     spell_out raw               raw with every scalar / one-element list written out to full length
     validate_full E tbl ctx nls dims ix raw   the whole of model_validate: the converters' dimension check (tbl = generated array_ndims,
                                 dims = array type and dimensions of every array given), validate, then the index arrays ix broadcast
     final_immutable cls         every path through the class's validators ends with the immutable flag set
     store_immutable s           every expression that can reach the array store s yields a read-only array *)
From Coq Require Import String.
From Coq Require Import QArith ZArith List Bool Arith Lia.
From Ropt Require Import Base.Num Base.ListX Model.Config Gen.Gen_C18 Proofs.Config Proofs.ConfigThm Proofs.ConfigCtx.
Import ListNotations.
Open Scope Q_scope.

(* ---- canonical: weights ------------------------------------------------------------------------------------------ *)
(* objective and realization weights of a validated configuration are the given ones divided by their sum *)
Theorem C18_weights_canonical : forall E ctx nls raw c, validate E ctx nls raw = Ok c ->
  canonical_weights (c_obj_w raw) (c_obj_w c) /\ canonical_weights (c_real_w raw) (c_real_w c).
Proof. exact validate_weights_canonical. Qed.

(* a weight sum below the float epsilon -- in particular a zero or negative sum -- is rejected, as normalize() does
   (single negative weights with a positive sum are accepted by the code, and by the model) *)
Theorem C18_weights_rejected : forall E ctx nls raw,
  qsum (c_obj_w raw) < float_eps \/ qsum (c_real_w raw) < float_eps -> forall c, validate E ctx nls raw <> Ok c.
Proof. exact validate_weights_rejected. Qed.

Theorem C18_nonpositive_weights_rejected : forall E ctx nls raw,
  qsum (c_obj_w raw) <= 0 \/ qsum (c_real_w raw) <= 0 -> forall c, validate E ctx nls raw <> Ok c.
Proof. exact validate_weights_nonpositive_rejected. Qed.

(* ---- canonical: broadcasts ---------------------------------------------------------------------------------------- *)
(* every per-variable array has the length of initial_values, every per-constraint array the number of constraints *)
Theorem C18_broadcast : forall E ctx nls raw c, validate E ctx nls raw = Ok c ->
  let V := length (v_initial (c_vars raw)) in
  length (v_initial (c_vars c)) = V /\ length (v_lower (c_vars c)) = V /\ length (v_upper (c_vars c)) = V /\
  olen V (v_types (c_vars c)) /\ olen V (v_mask (c_vars c)) /\
  length (g_mags (c_grad c)) = V /\ length (g_ptypes (c_grad c)) = V /\ length (g_btypes (c_grad c)) = V /\
  length (c_obj_w c) = length (c_obj_w raw) /\ length (c_real_w c) = length (c_real_w raw) /\
  match c_lin raw, c_lin c with
  | Some l, Some l' => length (l_coeffs l') = length (l_coeffs l) /\ length (l_lower l') = length (l_coeffs l) /\
                       length (l_upper l') = length (l_coeffs l) /\ Forall (fun r => length r = V) (l_coeffs l')
  | None, None => True | _, _ => False end /\
  match c_nonlin raw, c_nonlin c with
  | Some nl, Some nl' => length (n_lower nl') = length (n_upper nl') /\
                         (length (n_lower nl') = length (n_lower nl) \/ length (n_lower nl') = length (n_upper nl))
  | None, None => True | _, _ => False end.
Proof. exact validate_lengths. Qed.

(* ... and equals the given vector or the repeated scalar; bounds and initial values are then mapped by the scaler of the
   context (ctx_e / ctx_q are the identity without one), types, masks and boundary types never are *)
Theorem C18_broadcast_values : forall E ctx nls raw c, validate E ctx nls raw = Ok c ->
  let V := length (v_initial (c_vars raw)) in
  exists lo up,
    broadcast_of V (v_lower (c_vars raw)) lo /\ broadcast_of V (v_upper (c_vars raw)) up /\
    v_initial (c_vars c) = ctx_q ctx (v_initial (c_vars raw)) /\
    v_lower (c_vars c) = ctx_e ctx lo /\ v_upper (c_vars c) = ctx_e ctx up /\
    obroadcast_of V (v_types (c_vars raw)) (v_types (c_vars c)) /\
    obroadcast_of V (v_mask (c_vars raw)) (v_mask (c_vars c)) /\
    strict_broadcast_of V (g_btypes (c_grad raw)) (g_btypes (c_grad c)).
Proof. exact validate_values. Qed.

(* perturbation magnitudes and types, entry by entry (no transform): a RELATIVE magnitude is multiplied by the finite
   bound range and stored with type ABSOLUTE; any other entry is stored as given *)
Theorem C18_perturbations_converted : forall E nls raw c mags ty i t x,
  let V := length (v_initial (c_vars raw)) in
  validate E None nls raw = Ok c ->
  bcast_to V (g_mags (c_grad raw)) = Ok mags -> bcast_to V (g_ptypes (c_grad raw)) = Ok ty ->
  nth_error ty i = Some t -> nth_error mags i = Some x ->
  if Z.eqb t (pt_rel E)
  then exists a b, nth_error (v_lower (c_vars c)) i = Some (Fin a) /\ nth_error (v_upper (c_vars c)) i = Some (Fin b) /\
                   nth_error (g_mags (c_grad c)) i = Some ((b - a) * x) /\ nth_error (g_ptypes (c_grad c)) i = Some (pt_abs E)
  else nth_error (g_mags (c_grad c)) i = Some x /\ nth_error (g_ptypes (c_grad c)) i = Some t.
Proof. exact validate_perturbations. Qed.

(* ---- canonical: thresholds ---------------------------------------------------------------------------------------- *)
Theorem C18_clamped : forall E ctx nls raw c, validate E ctx nls raw = Ok c ->
  c_rmin c = min_threshold (c_rmin raw) (length (c_real_w raw)) /\
  g_P (c_grad c) = g_P (c_grad raw) /\ (0 < g_P (c_grad raw))%nat /\
  g_pmin (c_grad c) = min_threshold (g_pmin (c_grad raw)) (g_P (c_grad raw)).
Proof. exact validate_thresholds. Qed.

(* ---- canonical: inconsistent bounds and shapes are rejected -------------------------------------------------------- *)
(* `crossed` is what the executable test any_gt (np.any(lower > upper)) decides *)
Theorem C18_crossed_iff : forall lo up, any_gt lo up = true <-> crossed lo up.
Proof. exact any_gt_spec. Qed.

(* lower > upper somewhere: variable bounds (with or without a scaler), linear and non-linear constraint bounds *)
Theorem C18_rejects_crossed_variable_bounds : forall E ctx nls raw lo up,
  broadcast1 (length (v_initial (c_vars raw))) (v_lower (c_vars raw)) = Ok lo ->
  broadcast1 (length (v_initial (c_vars raw))) (v_upper (c_vars raw)) = Ok up ->
  crossed lo up -> forall c, validate E ctx nls raw <> Ok c.
Proof. exact rejects_crossed_variable_bounds. Qed.

Theorem C18_rejects_crossed_linear_bounds : forall E ctx nls raw l lo up, c_lin raw = Some l ->
  broadcast1 (length (l_coeffs l)) (l_lower l) = Ok lo -> broadcast1 (length (l_coeffs l)) (l_upper l) = Ok up ->
  crossed lo up -> forall c, validate E ctx nls raw <> Ok c.
Proof. exact rejects_crossed_linear_bounds. Qed.

Theorem C18_rejects_crossed_nonlinear_bounds : forall E ctx nls raw nl p, c_nonlin raw = Some nl ->
  bcast_pair (n_lower nl) (n_upper nl) = Ok p -> crossed (fst p) (snd p) -> forall c, validate E ctx nls raw <> Ok c.
Proof. exact rejects_crossed_nonlinear_bounds. Qed.

(* arrays that are neither scalars nor of full length *)
Theorem C18_rejects_bad_variable_shapes : forall E ctx nls raw, let V := length (v_initial (c_vars raw)) in
  V <> 0%nat ->
  bad_length V (v_lower (c_vars raw)) \/ bad_length V (v_upper (c_vars raw)) \/
  obad_length V (v_types (c_vars raw)) \/ obad_length V (v_mask (c_vars raw)) ->
  forall c, validate E ctx nls raw <> Ok c.
Proof. exact rejects_bad_variable_shapes. Qed.

Theorem C18_rejects_bad_gradient_shapes : forall E ctx nls raw, let V := length (v_initial (c_vars raw)) in
  bad_length V (g_mags (c_grad raw)) \/ bad_length V (g_ptypes (c_grad raw)) \/ bad_length V (g_btypes (c_grad raw)) ->
  forall c, validate E ctx nls raw <> Ok c.
Proof. exact rejects_bad_gradient_shapes. Qed.

(* a coefficient matrix whose rows do not all have one column per variable; constraint bounds of a wrong length *)
Theorem C18_rejects_bad_linear_shapes : forall E ctx nls raw l, let V := length (v_initial (c_vars raw)) in
  c_lin raw = Some l ->
  ~ Forall (fun r => length r = V) (l_coeffs l) \/
  (l_coeffs l <> [] /\ (bad_length (length (l_coeffs l)) (l_lower l) \/ bad_length (length (l_coeffs l)) (l_upper l))) ->
  forall c, validate E ctx nls raw <> Ok c.
Proof. exact rejects_bad_linear_shapes. Qed.

Theorem C18_rejects_bad_nonlinear_shapes : forall E ctx nls raw nl, c_nonlin raw = Some nl ->
  length (n_lower nl) <> 1%nat -> length (n_upper nl) <> 1%nat -> length (n_lower nl) <> length (n_upper nl) ->
  forall c, validate E ctx nls raw <> Ok c.
Proof. exact rejects_bad_nonlinear_shapes. Qed.

(* a relative perturbation on a variable one of whose (broadcast) bounds is infinite, with or without a scaler *)
Theorem C18_rejects_relative_infinite : forall E ctx nls raw lo up ty i a b,
  let V := length (v_initial (c_vars raw)) in
  broadcast1 V (v_lower (c_vars raw)) = Ok lo -> broadcast1 V (v_upper (c_vars raw)) = Ok up ->
  bcast_to V (g_ptypes (c_grad raw)) = Ok ty ->
  nth_error ty i = Some (pt_rel E) -> nth_error lo i = Some a -> nth_error up i = Some b ->
  efinite a && efinite b = false -> forall c, validate E ctx nls raw <> Ok c.
Proof. exact rejects_relative_infinite. Qed.

(* no perturbations, a zero success threshold, enumeration values outside their range *)
Theorem C18_rejects_bad_gradient_fields : forall E ctx nls raw,
  g_P (c_grad raw) = 0%nat \/ g_pmin (c_grad raw) = Some 0%nat \/
  enum_ok (pt_lo E) (pt_hi E) (g_ptypes (c_grad raw)) = false \/ enum_ok (bt_lo E) (bt_hi E) (g_btypes (c_grad raw)) = false ->
  forall c, validate E ctx nls raw <> Ok c.
Proof. exact rejects_bad_gradient_fields. Qed.

(* conversely nothing else is rejected: a dictionary (validated without transforms) none of whose arrays has a bad length, whose
   bounds -- after broadcasting: bresult1 / expand -- are nowhere crossed, whose weight sums reach the float epsilon, whose
   enumeration values are in range, with at least one perturbation, non-zero thresholds, one coefficient column per variable
   and finite bounds wherever a perturbation is RELATIVE (Record consistent, Proofs/ConfigThm.v) is accepted *)
Theorem C18_consistent_accepted : forall E raw, consistent E raw -> exists c, validate E None None raw = Ok c.
Proof. exact consistent_accepted. Qed.

(* ---- acceptance and conversion WITH a validation context (lemmas in Proofs/ConfigCtx.v) ------------------------------ *)
(* the key fact: a positive affine map x |-> (x - o) / s (a positive scaling for the non-linear constraint bounds) neither
   creates nor removes a crossing of bounds -- one pair of extended-real bounds, the variable bounds under a VariableScaler,
   the non-linear constraint bounds under their scaler *)
Theorem C18_bounds_consistency_affine :
  (forall a b o s, 0 < s -> ele (ediv (esub_r a o) s) (ediv (esub_r b o) s) = ele a b) /\
  (forall n sc lo up, scaler_ok n sc = true -> length lo = n -> length up = n ->
     (crossed (to_opt_e sc lo) (to_opt_e sc up) <-> crossed lo up)) /\
  (forall k nls lo up, nl_ok k nls = true -> length lo = k -> length up = k ->
     (crossed (nl_e nls lo) (nl_e nls up) <-> crossed lo up)).
Proof. split; [exact ele_affine | split; [exact crossed_to_opt_e | exact crossed_nl_e]]. Qed.

(* C18_consistent_accepted with a context: a dictionary that is consistent IN THE USER'S UNITS (Record consistent: the same
   record as above, nothing about the context in it) is accepted under every supported context (Record ctx_supported: one
   positive scale / one offset per variable, either may be absent; one positive scale per non-linear constraint; and, only
   when a variable scaler is present, no linear-constraint row identically zero -- ropt divides such a row by its equation
   scale 0, which the model reports as Unsupported).  ctx = None, nls = None is C18_consistent_accepted *)
Theorem C18_consistent_accepted_in_context : forall E raw ctx nls,
  consistent E raw -> ctx_supported raw ctx nls -> exists c, validate E ctx nls raw = Ok c.
Proof. exact consistent_accepted_ctx. Qed.
Theorem C18_no_context_is_supported : forall raw, ctx_supported raw None None.
Proof. exact ctx_supported_none. Qed.

(* C18_perturbations_converted with a variable scaler: entry by entry (lo, up: the user's bounds as broadcast, x: the user's
   magnitude, s_i = scale_at sc i: the scale of variable i, 1 when the scaler has offsets only) the stored magnitude is
   (upper - lower) * x / s_i for RELATIVE and x / s_i for ABSOLUTE, both stored with type ABSOLUTE: the magnitude in the
   user's units divided by the scale; the offsets do not enter *)
Theorem C18_perturbations_converted_in_context : forall E sc nls raw c lo up mags ty i t x,
  let V := length (v_initial (c_vars raw)) in
  enums_wf E -> validate E (Some sc) nls raw = Ok c ->
  broadcast1 V (v_lower (c_vars raw)) = Ok lo -> broadcast1 V (v_upper (c_vars raw)) = Ok up ->
  bcast_to V (g_mags (c_grad raw)) = Ok mags -> bcast_to V (g_ptypes (c_grad raw)) = Ok ty ->
  nth_error ty i = Some t -> nth_error mags i = Some x ->
  0 < scale_at sc i /\
  exists q, nth_error (g_mags (c_grad c)) i = Some q /\
    if Z.eqb t (pt_rel E)
    then exists a b, nth_error lo i = Some (Fin a) /\ nth_error up i = Some (Fin b) /\
                     q == (b - a) * x / scale_at sc i /\ nth_error (g_ptypes (c_grad c)) i = Some (pt_abs E)
    else if Z.eqb t (pt_abs E)
    then q == x / scale_at sc i /\ nth_error (g_ptypes (c_grad c)) i = Some (pt_abs E)
    else q = x /\ nth_error (g_ptypes (c_grad c)) i = Some t.
Proof. exact validate_perturbations_ctx. Qed.

(* non-vacuity: a dictionary with scalar and full-length arrays, a one-sided variable bound, a RELATIVE perturbation on the
   variable with scale 2 and offset 1, a linear and two non-linear constraints is consistent, the context (scales 1, 2, 4,
   offsets 0, 1, 0, non-linear scales 2, 4) is supported, and the accepted configuration stores (8 - 0) * 1/4 / 2 = 1 for the
   RELATIVE entry and 1/4 / 1, 1/4 / 4 for the ABSOLUTE ones, all with type ABSOLUTE *)
Example C18_example_context :
  let raw := {| c_vars := {| v_initial := [1; 2; 3]; v_lower := [Fin 0]; v_upper := [Fin 4; Fin 8; PInf];
                             v_types := Some [1%Z]; v_mask := Some [true; false; true] |};
                c_obj_w := [1; 3]; c_real_w := [2; 0; 2]; c_rmin := Some 7%nat;
                c_grad := {| g_P := 5; g_pmin := None; g_mags := [1 # 4]; g_ptypes := [1%Z; 2%Z; 1%Z]; g_btypes := [3%Z] |};
                c_lin := Some {| l_coeffs := [[1; 0; 2]]; l_lower := [NInf]; l_upper := [Fin 6] |};
                c_nonlin := Some {| n_lower := [Fin 0]; n_upper := [Fin 1; PInf] |} |} in
  let sc := {| s_scales := Some [1; 2; 4]; s_offsets := Some [0; 1; 0] |} in
  let nls := Some [2; 4] in
  consistent gen_enums raw /\ ctx_supported raw (Some sc) nls /\ scale_at sc 1 = 2 /\
  exists c, validate gen_enums (Some sc) nls raw = Ok c /\
    qlist_eqb (g_mags (c_grad c)) [(1 # 4) / 1; (8 - 0) * (1 # 4) / 2; (1 # 4) / 4] = true /\
    g_ptypes (c_grad c) = [1%Z; 1%Z; 1%Z] /\
    elist_eqb (v_lower (c_vars c)) [Fin 0; Fin (-1 # 2); Fin 0] = true.
Proof.
  cbv zeta. split; [|split; [|split; [reflexivity|]]].
  - constructor; cbn -[crossed].
    + right; left; reflexivity.
    + right; right; reflexivity.
    + intros H. apply any_gt_spec in H. vm_compute in H. discriminate.
    + split; [reflexivity | right; left; reflexivity].
    + right; right; reflexivity.
    + vm_compute. discriminate.
    + vm_compute. discriminate.
    + lia.
    + discriminate.
    + split; [reflexivity | right; reflexivity].
    + split; [reflexivity | left; reflexivity].
    + left; reflexivity.
    + intros [|[|[|i]]] H; vm_compute in H; try discriminate; [|destruct i; discriminate].
      exists 0, 8. split; reflexivity.
    + split; [repeat constructor|]. split; [right; left; reflexivity|]. split; [right; left; reflexivity|].
      intros H. apply any_gt_spec in H. vm_compute in H. discriminate.
    + split; [left; reflexivity|]. intros H. apply any_gt_spec in H. vm_compute in H. discriminate.
  - constructor; cbn.
    + reflexivity.
    + reflexivity.
    + repeat constructor. exists 1. split; [left; reflexivity | intros H; vm_compute in H; discriminate].
  - eexists. split; [vm_compute; reflexivity|]. repeat split; vm_compute; reflexivity.
Qed.

(* ---- stable under re-validation ------------------------------------------------------------------------------------ *)
(* the enumeration values extracted from the current source satisfy what the theorems below need:
   ABSOLUTE is a valid perturbation type and differs from RELATIVE *)
Theorem C18_generated_enums_wf : enums_wf gen_enums.
Proof. constructor; cbn; lia. Qed.

(* whatever was validated (with or without a scaler) is in canonical form ... *)
Theorem C18_validated_canonical : forall E ctx nls raw c, enums_wf E -> validate E ctx nls raw = Ok c -> canonical E c.
Proof. exact validated_canonical. Qed.

(* ... and every configuration in canonical form is a fixed point of validation (up to == on the weights) *)
Theorem C18_canonical_fixed_point : forall E c, canonical E c ->
  exists c', validate E None None c = Ok c' /\ same_but_weights c c'.
Proof. exact canonical_fixed. Qed.

(* idempotence: the dump of a validated configuration validates, without a context, to an equivalent configuration,
   which is canonical again (so the statement applies to it in turn) *)
Theorem C18_idempotent : forall E ctx nls raw c, enums_wf E -> validate E ctx nls raw = Ok c ->
  exists c', validate E None None (dump c) = Ok c' /\ same_but_weights c c' /\ equiv c c' = true /\ canonical E c'.
Proof. exact validate_idempotent. Qed.

Theorem C18_idempotent_generated : forall ctx nls raw c, validate gen_enums ctx nls raw = Ok c ->
  exists c', validate gen_enums None None (dump c) = Ok c' /\ equiv c c' = true.
Proof.
  intros ctx nls raw c H. destruct (validate_idempotent gen_enums ctx nls raw c C18_generated_enums_wf H) as (c' & Hv & _ & He & _).
  exists c'. split; assumption.
Qed.

(* the clause behind fix 8967086: re-validation does not rescale the perturbation magnitudes -- relative magnitudes were
   converted once and are stored with type ABSOLUTE, so the stored types contain no RELATIVE entry -- nor move the bounds *)
Theorem C18_magnitudes_not_rescaled : forall E ctx nls raw c c', enums_wf E ->
  validate E ctx nls raw = Ok c -> validate E None None (dump c) = Ok c' ->
  g_mags (c_grad c') = g_mags (c_grad c) /\ g_ptypes (c_grad c') = g_ptypes (c_grad c) /\
  Forall (fun t => t <> pt_rel E) (g_ptypes (c_grad c)) /\
  v_lower (c_vars c') = v_lower (c_vars c) /\ v_upper (c_vars c') = v_upper (c_vars c).
Proof. exact revalidation_keeps_magnitudes. Qed.

(* any number of dump -> validate hand-offs (revalidate_n E n = validate E None None o dump, n times): every one succeeds and the
   result is still the first configuration up to == on the weights (same_but_weights: every other field is the same term) *)
Theorem C18_stable_under_repeated_revalidation : forall E ctx nls raw c n, enums_wf E -> validate E ctx nls raw = Ok c ->
  exists c', revalidate_n E n c = Ok c' /\ same_but_weights c c' /\ equiv c c' = true /\ canonical E c'.
Proof. intros E ctx nls raw c n. apply validate_stable_n. Qed.

(* "equivalent" (same_but_weights) is an equivalence relation, so the re-validated forms are also equivalent to each other *)
Theorem C18_equivalence_relation :
  (forall c, same_but_weights c c) /\ (forall a b, same_but_weights a b -> same_but_weights b a) /\
  (forall a b c, same_but_weights a b -> same_but_weights b c -> same_but_weights a c).
Proof. split; [exact same_but_weights_refl | split; [exact same_but_weights_sym | exact same_but_weights_trans]]. Qed.

(* ---- canonical whatever the spelling ------------------------------------------------------------------------------------ *)
(* respelled raw raw': raw' is raw with any of its broadcastable arrays (variable bounds, types, mask, magnitudes, perturbation
   and boundary types, linear / non-linear constraint bounds) written either as in raw or with a scalar / one-element list
   written out to full length (spelled n l l' := l' = l \/ l' = expand n l).  Both spellings have the same outcome -- the same
   configuration, or the same rejection.  (With no variables an out-of-range enumeration scalar is rejected while its
   written-out form, the empty list, is not: hence V <> 0.) *)
Theorem C18_spelling_irrelevant : forall E ctx nls raw raw', length (v_initial (c_vars raw)) <> 0%nat ->
  respelled raw raw' -> validate E ctx nls raw' = validate E ctx nls raw.
Proof. exact validate_respelled. Qed.

(* in particular the dictionary with every scalar written out (spell_out) *)
Theorem C18_scalars_written_out : forall E ctx nls raw, length (v_initial (c_vars raw)) <> 0%nat ->
  respelled raw (spell_out raw) /\ validate E ctx nls (spell_out raw) = validate E ctx nls raw.
Proof. intros E ctx nls raw Hn. split; [apply spell_out_respelled | apply validate_spell_out; exact Hn]. Qed.

(* ---- field conversions and index arrays (validate_full = dimension check ; validate ; broadcast of the index arrays) -------- *)
(* everything above applies to the configuration validate_full returns *)
Theorem C18_full_is_validate : forall E tbl ctx nls dims ix raw c ix',
  validate_full E tbl ctx nls dims ix raw = Ok (c, ix') -> dims_ok tbl dims = true /\ validate E ctx nls raw = Ok c.
Proof. intros E tbl ctx nls dims ix raw c ix' H. apply validate_full_unfold in H as (H1 & H2 & _). auto. Qed.

(* fixes 2477cc1 (F18h): gradient.samplers has one entry per variable, objectives.realization_filters / function_estimators one
   per objective, nonlinear_constraints.realization_filters / function_estimators one per constraint: the given vector or the
   repeated scalar ... *)
Theorem C18_index_arrays_broadcast : forall E tbl ctx nls dims ix raw c ix',
  validate_full E tbl ctx nls dims ix raw = Ok (c, ix') ->
  obroadcast_of (length (v_initial (c_vars raw))) (i_samplers ix) (i_samplers ix') /\
  obroadcast_of (length (c_obj_w raw)) (i_obj_filters ix) (i_obj_filters ix') /\
  obroadcast_of (length (c_obj_w raw)) (i_obj_estimators ix) (i_obj_estimators ix') /\
  obroadcast_of (nonlinear_count c) (i_nl_filters ix) (i_nl_filters ix') /\
  obroadcast_of (nonlinear_count c) (i_nl_estimators ix) (i_nl_estimators ix').
Proof. exact validate_full_indices. Qed.

(* ... and any other length is rejected *)
Theorem C18_rejects_bad_index_shapes : forall E tbl ctx nls dims ix raw c, validate E ctx nls raw = Ok c ->
  (length (v_initial (c_vars c)) <> 0%nat /\ obad_length (length (v_initial (c_vars c))) (i_samplers ix)) \/
  (length (c_obj_w c) <> 0%nat /\
   (obad_length (length (c_obj_w c)) (i_obj_filters ix) \/ obad_length (length (c_obj_w c)) (i_obj_estimators ix))) \/
  (nonlinear_count c <> 0%nat /\
   (obad_length (nonlinear_count c) (i_nl_filters ix) \/ obad_length (nonlinear_count c) (i_nl_estimators ix))) ->
  forall r, validate_full E tbl ctx nls dims ix raw <> Ok r.
Proof. exact rejects_bad_index_shapes. Qed.

(* fix c92fea2 (F18d): an array given with more dimensions than its type has is rejected; every array type of the current
   source checks its dimension (table regenerated on every run) *)
Theorem C18_rejects_extra_dimensions : forall E tbl ctx nls dims ix raw t g k, In (t, g) dims ->
  find (fun e : string * option nat => String.eqb (fst e) t) tbl = Some (t, Some k) -> (k < g)%nat ->
  forall r, validate_full E tbl ctx nls dims ix raw <> Ok r.
Proof.
  intros E tbl ctx nls dims ix raw t g k Hin Hf Hlt. apply (rejects_extra_dimensions E tbl ctx nls dims ix raw (t, g) Hin).
  rewrite (ndim_ok_spec tbl t g k Hf). apply Nat.leb_gt. exact Hlt.
Qed.

Theorem C18_array_types_check_dimensions : forall e, In e array_ndims -> snd e <> None.
Proof.
  assert (H : forallb (fun e : string * option nat => match snd e with None => false | Some _ => true end) array_ndims = true)
    by (vm_compute; reflexivity).
  intros e He. rewrite forallb_forall in H. specialize (H e He). destruct (snd e); [discriminate | discriminate H].
Qed.

(* idempotence including the index arrays: they come back as they are *)
Theorem C18_full_idempotent : forall E tbl ctx nls dims dims' ix raw c ix', enums_wf E ->
  validate_full E tbl ctx nls dims ix raw = Ok (c, ix') -> dims_ok tbl dims' = true ->
  exists c', validate_full E tbl None None dims' ix' (dump c) = Ok (c', ix') /\ same_but_weights c c' /\ equiv c c' = true /\ canonical E c'.
Proof. exact validate_full_idempotent. Qed.

(* ---- frozen: the flag discipline (what is proved of frozenness; the objects themselves are probed at run time) ------- *)
(* every configuration class of the table generated from the current source ends its validators immutable *)
Theorem C18_flags_final_immutable : forall c, In c config_classes -> final_immutable c = true.
Proof. apply forallb_forall. vm_compute. reflexivity. Qed.

(* every store into an array field found in the current source stores a read-only array ... *)
Theorem C18_arrays_stored_immutable : forall s, In s array_stores -> store_immutable s = true.
Proof. apply forallb_forall. vm_compute. reflexivity. Qed.

(* ... and every array type used for the fields converts its input with immutable_array *)
Theorem C18_array_types_converted : forall t, In t array_converters -> converter_immutable t = true.
Proof. apply forallb_forall. vm_compute. reflexivity. Qed.

(* fix 34c3340 (F18e): ImmutableBaseModel guards attribute deletion as it guards assignment;  fix bf727e8 (F18f): immutable_array
   owns its data (no writable .base);  fix a3ecaf8 (F18g): every after-validator that un-freezes the object starts with
   `if self._is_validated(): return self`, or its class returns an instance untouched (EnOptConfig's wrap validator).  Facts about
   the current source, read fail-closed from the AST on every run; the objects themselves are probed at run time. *)
Theorem C18_deletion_guarded : immutable_base_guards_delete = true.
Proof. vm_compute. reflexivity. Qed.

Theorem C18_immutable_arrays_own_data : immutable_array_owns_data = true.
Proof. vm_compute. reflexivity. Qed.

Theorem C18_revalidation_guarded : forall cls v guarded, In (cls, (v, guarded)) mutating_validators ->
  guarded = true \/ In cls instance_pass_through.
Proof.
  assert (H : forallb (fun r : string * (string * bool) => snd (snd r) || existsb (String.eqb (fst r)) instance_pass_through)
                mutating_validators = true) by (vm_compute; reflexivity).
  intros cls v guarded Hin. rewrite forallb_forall in H. specialize (H _ Hin). cbn [fst snd] in H.
  apply orb_true_iff in H as [H|H]; [left; exact H | right].
  apply existsb_exists in H as (x & Hx & He). apply String.eqb_eq in He. subst x. exact Hx.
Qed.

(* the guard is only sound when no field defaults to an INSTANCE of such a class (`x: C = C()`): pydantic deep-copies an instance
   default for every validation, numpy's deepcopy drops the read-only flag, and a guarded validator would hand the copy out as it is
   (this happened between a3ecaf8 and its follow-up).  Either nothing is guarded, or there is no instance default. *)
Theorem C18_no_shared_default_instances :
  negb (existsb (fun r : string * (string * bool) => snd (snd r)) mutating_validators)
  || match instance_defaults with [] => true | _ => false end = true.
Proof. vm_compute. reflexivity. Qed.

(* the flag machine, for all validator sequences and start states: a sequence whose last unconditional call is
   _immutable(), followed only by blocks that are empty or end with _immutable(), ends immutable on every path ... *)
Theorem C18_flag_discipline : forall sts pre post, forallb keeps_immutable post = true ->
  forallb is_immutable (finals sts (pre ++ Call FI :: post)) = true.
Proof. exact finals_discipline. Qed.

(* ... and one that ends with _mutable() does not (defect 1076ba8 had this shape) *)
Theorem C18_last_mutable_not_frozen : forall sts pre, sts <> [] ->
  forallb is_immutable (finals sts (pre ++ [Call FM])) = false.
Proof. exact finals_last_mutable. Qed.

(* ---- non-vacuity ----------------------------------------------------------------------------------------------------- *)
(* three variables, scalar lower bound and vector upper bound, one RELATIVE perturbation on [0,4] with magnitude 1/4,
   weights [1;3] and [2;0;2], thresholds above the counts, one linear and two non-linear constraints, validated with a
   scaler: accepted, canonical, relative magnitude stored as the absolute value 1 (= (4-0)/4, then divided by the scale 1
   of an entry whose type was RELATIVE: not transformed), re-validation of the dump equivalent; the same dictionary with
   crossed bounds is rejected; the pre-fix OptimizerConfig is not final-immutable and a store of a fresh array is not
   immutable *)
Example C18_example :
  let raw := {| c_vars := {| v_initial := [1; 2; 3]; v_lower := [Fin 0]; v_upper := [Fin 4; Fin 8; PInf];
                             v_types := Some [1%Z]; v_mask := Some [true; false; true] |};
                c_obj_w := [1; 3]; c_real_w := [2; 0; 2]; c_rmin := Some 7%nat;
                c_grad := {| g_P := 5; g_pmin := None; g_mags := [1 # 4]; g_ptypes := [2%Z; 1%Z; 1%Z]; g_btypes := [3%Z] |};
                c_lin := Some {| l_coeffs := [[1; 0; 2]]; l_lower := [NInf]; l_upper := [Fin 6] |};
                c_nonlin := Some {| n_lower := [Fin 0]; n_upper := [Fin 1; PInf] |} |} in
  let ctx := Some {| s_scales := Some [1; 2; 4]; s_offsets := Some [0; 1; 0] |} in
  let nls := Some [2; 4] in
  (exists c, validate gen_enums ctx nls raw = Ok c /\
     c_obj_w c = [1 / (1 + (3 + 0)); 3 / (1 + (3 + 0))] /\ c_rmin c = Some 3%nat /\ g_pmin (c_grad c) = Some 5%nat /\
     qlist_eqb (g_mags (c_grad c)) [1; 1 # 8; 1 # 16] = true /\ g_ptypes (c_grad c) = [1%Z; 1%Z; 1%Z] /\
     v_mask (c_vars c) = Some [true; false; true] /\ v_types (c_vars c) = Some [1%Z; 1%Z; 1%Z] /\
     option_map n_upper (c_nonlin c) = Some [Fin (1 / 2); PInf] /\
     exists c', validate gen_enums None None (dump c) = Ok c' /\ equiv c c' = true /\ g_mags (c_grad c') = g_mags (c_grad c)) /\
  validate gen_enums ctx nls {| c_vars := {| v_initial := [1; 2; 3]; v_lower := [Fin 5]; v_upper := [Fin 4; Fin 8; PInf];
                                         v_types := None; v_mask := None |};
                            c_obj_w := c_obj_w raw; c_real_w := c_real_w raw; c_rmin := None; c_grad := c_grad raw;
                            c_lin := None; c_nonlin := None |} = Reject /\
  final_immutable {| cc_name := "OptimizerConfig"; cc_kind := KImmutableBase;
                     cc_validators := [("_method", [Call FM; Call FM])] |} = false /\
  store_immutable {| as_class := "GradientConfig"; as_site := "fix_perturbations"; as_field := "perturbation_magnitudes";
                     as_sources := [SField; SOther] |} = false /\
  (0 < length config_classes)%nat /\ (0 < length array_stores)%nat /\ (0 < length array_converters)%nat.
Proof.
  cbv zeta. split; [|vm_compute; repeat split; try reflexivity; lia].
  eexists. split; [vm_compute; reflexivity|]. repeat (split; [vm_compute; reflexivity|]).
  eexists. split; [vm_compute; reflexivity|]. split; vm_compute; reflexivity.
Qed.

(* the same dictionary with its scalars written out is a different term, validates to the same accepted configuration, and
   three hand-offs in a row return an equivalent configuration with the very same magnitudes *)
Example C18_example_spelling :
  let raw := {| c_vars := {| v_initial := [1; 2; 3]; v_lower := [Fin 0]; v_upper := [Fin 4; Fin 8; PInf];
                             v_types := Some [1%Z]; v_mask := Some [true; false; true] |};
                c_obj_w := [1; 3]; c_real_w := [2; 0; 2]; c_rmin := Some 7%nat;
                c_grad := {| g_P := 5; g_pmin := None; g_mags := [1 # 4]; g_ptypes := [2%Z; 1%Z; 1%Z]; g_btypes := [3%Z] |};
                c_lin := Some {| l_coeffs := [[1; 0; 2]; [0; 1; 0]]; l_lower := [NInf]; l_upper := [Fin 6] |};
                c_nonlin := Some {| n_lower := [Fin 0]; n_upper := [Fin 1; PInf] |} |} in
  let ctx := Some {| s_scales := Some [1; 2; 4]; s_offsets := Some [0; 1; 0] |} in
  v_lower (c_vars (spell_out raw)) = [Fin 0; Fin 0; Fin 0] /\ g_btypes (c_grad (spell_out raw)) = [3%Z; 3%Z; 3%Z] /\
  option_map l_lower (c_lin (spell_out raw)) = Some [NInf; NInf] /\
  option_map n_lower (c_nonlin (spell_out raw)) = Some [Fin 0; Fin 0] /\
  exists c, validate gen_enums ctx (Some [2; 4]) raw = Ok c /\ validate gen_enums ctx (Some [2; 4]) (spell_out raw) = Ok c /\
            exists c', revalidate_n gen_enums 3 c = Ok c' /\ equiv c c' = true /\ g_mags (c_grad c') = g_mags (c_grad c).
Proof.
  cbv zeta. repeat (split; [vm_compute; reflexivity|]).
  eexists. split; [vm_compute; reflexivity|]. split; [vm_compute; reflexivity|].
  eexists. split; [vm_compute; reflexivity|]. split; vm_compute; reflexivity.
Qed.

(* index arrays and dimensions: a scalar sampler index is repeated for the three variables, two estimator indices stay, a
   2-D value for a 1-D field and four sampler indices for three variables are rejected *)
Example C18_example_full :
  let raw := {| c_vars := {| v_initial := [1; 2; 3]; v_lower := [Fin 0]; v_upper := [Fin 4]; v_types := None; v_mask := None |};
                c_obj_w := [1; 3]; c_real_w := [1]; c_rmin := None;
                c_grad := {| g_P := 2; g_pmin := None; g_mags := [1 # 4]; g_ptypes := [1%Z]; g_btypes := [3%Z] |};
                c_lin := None; c_nonlin := Some {| n_lower := [Fin 0]; n_upper := [Fin 1; PInf] |} |} in
  let ix := {| i_samplers := Some [0%Z]; i_obj_filters := None; i_obj_estimators := Some [0%Z; 1%Z];
               i_nl_filters := Some [(-1)%Z]; i_nl_estimators := None |} in
  let dims := [("Array1D", 1%nat); ("Array1DInt", 0%nat)] in
  (exists c ix', validate_full gen_enums array_ndims None None dims ix raw = Ok (c, ix') /\
     i_samplers ix' = Some [0%Z; 0%Z; 0%Z] /\ i_obj_estimators ix' = Some [0%Z; 1%Z] /\ i_nl_filters ix' = Some [(-1)%Z; (-1)%Z] /\
     exists c', validate_full gen_enums array_ndims None None [] ix' (dump c) = Ok (c', ix')) /\
  validate_full gen_enums array_ndims None None [("Array1D", 2%nat)] ix raw = Reject /\
  validate_full gen_enums array_ndims None None dims
    {| i_samplers := Some [0%Z; 0%Z; 0%Z; 0%Z]; i_obj_filters := None; i_obj_estimators := None; i_nl_filters := None;
       i_nl_estimators := None |} raw = Reject.
Proof.
  cbv zeta. split; [|split; vm_compute; reflexivity].
  eexists. eexists. split; [vm_compute; reflexivity|]. repeat (split; [vm_compute; reflexivity|]).
  eexists. vm_compute. reflexivity.
Qed.

Print Assumptions C18_weights_canonical.
Print Assumptions C18_weights_rejected.
Print Assumptions C18_nonpositive_weights_rejected.
Print Assumptions C18_broadcast.
Print Assumptions C18_broadcast_values.
Print Assumptions C18_perturbations_converted.
Print Assumptions C18_clamped.
Print Assumptions C18_crossed_iff.
Print Assumptions C18_rejects_crossed_variable_bounds.
Print Assumptions C18_rejects_crossed_linear_bounds.
Print Assumptions C18_rejects_crossed_nonlinear_bounds.
Print Assumptions C18_rejects_bad_variable_shapes.
Print Assumptions C18_rejects_bad_gradient_shapes.
Print Assumptions C18_rejects_bad_linear_shapes.
Print Assumptions C18_rejects_bad_nonlinear_shapes.
Print Assumptions C18_rejects_relative_infinite.
Print Assumptions C18_rejects_bad_gradient_fields.
Print Assumptions C18_consistent_accepted.
Print Assumptions C18_bounds_consistency_affine.
Print Assumptions C18_consistent_accepted_in_context.
Print Assumptions C18_no_context_is_supported.
Print Assumptions C18_perturbations_converted_in_context.
Print Assumptions C18_generated_enums_wf.
Print Assumptions C18_validated_canonical.
Print Assumptions C18_canonical_fixed_point.
Print Assumptions C18_idempotent.
Print Assumptions C18_idempotent_generated.
Print Assumptions C18_magnitudes_not_rescaled.
Print Assumptions C18_stable_under_repeated_revalidation.
Print Assumptions C18_equivalence_relation.
Print Assumptions C18_spelling_irrelevant.
Print Assumptions C18_scalars_written_out.
Print Assumptions C18_full_is_validate.
Print Assumptions C18_index_arrays_broadcast.
Print Assumptions C18_rejects_bad_index_shapes.
Print Assumptions C18_rejects_extra_dimensions.
Print Assumptions C18_array_types_check_dimensions.
Print Assumptions C18_full_idempotent.
Print Assumptions C18_flags_final_immutable.
Print Assumptions C18_arrays_stored_immutable.
Print Assumptions C18_array_types_converted.
Print Assumptions C18_deletion_guarded.
Print Assumptions C18_immutable_arrays_own_data.
Print Assumptions C18_revalidation_guarded.
Print Assumptions C18_no_shared_default_instances.
Print Assumptions C18_flag_discipline.
Print Assumptions C18_last_mutable_not_frozen.
