(* Props/C18.v -- property C18 (work in progress: flag table first). *)
From Coq Require Import String.
From Coq Require Import QArith ZArith List Bool Arith.
From Ropt Require Import Base.Num Base.ListX Model.Config Gen.Gen_C18.
Import ListNotations.

Theorem C18_flags_final_immutable : forall c, In c config_classes -> final_immutable c = true.
Proof. apply forallb_forall. vm_compute. reflexivity. Qed.

Print Assumptions C18_flags_final_immutable.
