(* Props/C04.v -- property C04: CVaR filter weights realize the tail expectation over the worst fraction.
   Only statements; each is closed by a lemma of Proofs/Filters.v / Proofs/SortX.v.

   Vocabulary (Model/Filters.v, section "specifications"; none of it mentions the sort):
     values                    the ranking values handed to _get_cvar_weights_from_percentile: ascending = worst first
                               (minus the weighted objective sum / minus the constraint badness, see the C04_worst theorems)
     succeeded failed r, rank values failed r      as in C05 (rank 0 = worst successful realization)
     n = count_ok failed       number of successful realizations
     stair_m p n = floor(p*n)  number of full steps
     stair p n k               1/n for k < m, p - m/n for k = m, 0 for k > m *)
From Coq Require Import String QArith Qabs Qminmax ZArith Bool Arith List Lqa Lia.
From Ropt Require Import Base.Num Base.ListX Model.Filters Proofs.SortX Proofs.Filters Proofs.FiltersTies Proofs.FiltersSeq Proofs.FiltersAccept Proofs.FiltersOrder Proofs.FiltersStair.
Import ListNotations.
Open Scope Q_scope.

(* the staircase, for every ensemble size, failure mask, value vector and percentile in (0,1]: in order of badness
   the successful realizations carry 1/n until mass p is reached, the last one fractionally; everything else 0 *)
Theorem C04_staircase : forall p values failed r,
  length failed = length values -> 0 < p -> p <= 1 ->
  nth r (cvar_weights p values failed) 0 ==
    if succeeded failed r then stair p (count_ok failed) (rank values failed r) else 0.
Proof. exact cvar_weights_spec. Qed.

(* "exactly zero elsewhere": failed realizations and every realization ranked after the fractional step carry
   the literal 0 (Leibniz equality, not merely ==) *)
Theorem C04_exact_zeros : forall p values failed r,
  length failed = length values -> 0 < p -> p <= 1 ->
  succeeded failed r = false \/ (stair_m p (count_ok failed) < rank values failed r)%nat ->
  nth r (cvar_weights p values failed) 0 = 0.
Proof. exact cvar_weights_zero. Qed.

Theorem C04_failed_zero : forall p values failed r,
  length failed = length values -> 0 < p -> p <= 1 -> nth r failed true = true ->
  nth r (cvar_weights p values failed) 0 = 0.
Proof.
  intros p values failed r HL Hp Hp1 Hf. apply cvar_weights_zero; try assumption.
  left. unfold succeeded. rewrite Hf. reflexivity.
Qed.

(* the fractional step lies in [0, 1/n) and at most n steps are full: the floor never produces a negative remainder
   or an extra active realization *)
Theorem C04_fraction_bounds : forall p n, (0 < n)%nat -> 0 < p -> p <= 1 ->
  (stair_m p n <= n)%nat /\
  0 <= p - nq (stair_m p n) / nq n /\ p - nq (stair_m p n) / nq n < 1 / nq n.
Proof.
  intros p n Hn Hp Hp1. split; [apply (floor_bounds p n Hn Hp Hp1)|]. apply frac_bounds; assumption.
Qed.

Theorem C04_nonneg : forall p values failed,
  length failed = length values -> 0 < p -> p <= 1 ->
  Forall (fun x => 0 <= x) (cvar_weights p values failed).
Proof. exact cvar_weights_nonneg. Qed.

Theorem C04_sum_p : forall p values failed,
  length failed = length values -> 0 < p -> p <= 1 -> (0 < count_ok failed)%nat ->
  qsum (cvar_weights p values failed) == p.
Proof. exact cvar_weights_sum. Qed.

(* with the mean estimator (failed weights zeroed, weights normalised by their sum, dot product) the value of a
   function f under the CVaR weights is the CVaR_p tail mean of its empirical distribution over the successes:
   (1/p) * ( (1/n) * sum_{k<m} f_(k) + (p - m/n) * f_(m) ), f_(k) the value of the k-th worst realization *)
Theorem C04_tail_mean : forall p values failed f,
  length failed = length values -> length f = length failed -> 0 < p -> p <= 1 -> (0 < count_ok failed)%nat ->
  exists v, mean_value (cvar_weights p values failed) failed f = Some v /\
            v == tail_mean p (ranked failed values) f.
Proof. exact cvar_tail_mean. Qed.

(* "worst": objective filters rank by the largest weighted sum of the chosen objectives ... *)
Theorem C04_worst_objective : forall cfg sort objs r s, (r < length objs)%nat -> (s < length objs)%nat ->
  (nth r (cvar_objective_keys cfg sort objs) 0 <= nth s (cvar_objective_keys cfg sort objs) 0 <->
   objective_key (c_ow cfg) sort (nth s objs []) <= objective_key (c_ow cfg) sort (nth r objs [])).
Proof.
  intros cfg sort objs r s Hr Hs. rewrite !cvar_objective_key_nth by assumption. split; intro H; lra.
Qed.

(* ... constraint filters by the badness max(lower - c, c - upper): largest value for upper-bounded, smallest for
   lower-bounded, farthest from the target for equalities; two-sided constraints are inside iff badness <= 0 *)
Theorem C04_worst_constraint : forall cfg sort c r s, (r < length c)%nat -> (s < length c)%nat ->
  let bad i := badness (nth sort (c_lower cfg) NInf) (nth sort (c_upper cfg) PInf) (nan0 (nth sort (nth i c []) None)) in
  (nth r (cvar_constraint_keys cfg sort c) 0 <= nth s (cvar_constraint_keys cfg sort c) 0 <-> bad s <= bad r).
Proof.
  intros cfg sort c r s Hr Hs bad.
  assert (Er : nth r (cvar_constraint_keys cfg sort c) 0 = - bad r) by (apply cvar_constraint_key_nth; exact Hr).
  assert (Es : nth s (cvar_constraint_keys cfg sort c) 0 = - bad s) by (apply cvar_constraint_key_nth; exact Hs).
  rewrite Er, Es. generalize (bad r) (bad s). intros x y. split; intro H; lra.
Qed.

Theorem C04_worst_direction : forall l u t c1 c2 c,
  (badness NInf (Fin u) c1 <= badness NInf (Fin u) c2 <-> c1 <= c2) /\
  (badness (Fin l) PInf c1 <= badness (Fin l) PInf c2 <-> c2 <= c1) /\
  badness (Fin t) (Fin t) c == Qabs (c - t) /\
  (badness (Fin l) (Fin u) c <= 0 <-> l <= c <= u).
Proof.
  intros l u t c1 c2 c. split; [apply badness_upper|]. split; [apply badness_lower|].
  split; [apply badness_equality | apply badness_two_sided].
Qed.

(* without a successful realization the filter ends the evaluation with TOO_FEW_REALIZATIONS (never a division by
   zero); with at least one it always returns the staircase weights *)
Theorem C04_empty_is_too_few_objective : forall cfg sort p objs cns, 0 < p -> p <= 1 ->
  get_weights cfg (CvarObjective sort p) objs cns =
    if Nat.eqb (count_ok (col0_failed objs)) 0 then Abort too_few
    else Ok (cvar_weights p (cvar_objective_keys cfg sort objs) (col0_failed objs)).
Proof. exact cvar_objective_outcome. Qed.

Theorem C04_empty_is_too_few_constraint : forall cfg sort p objs c, 0 < p -> p <= 1 ->
  get_weights cfg (CvarConstraint sort p) objs (Some c) =
    if Nat.eqb (count_ok (col0_failed c)) 0 then Abort too_few
    else Ok (cvar_weights p (cvar_constraint_keys cfg sort c) (col0_failed c)).
Proof. exact cvar_constraint_outcome. Qed.

(* the staircase pins the vector down: any vector that carries stair p n k at position k of SOME valid ranking of the
   successful realizations (values non-decreasing, ties in any order) and 0 outside it agrees with the model at every
   position, and -- when the ranking values are pairwise distinct -- equals it entry by entry *)
Theorem C04_unique : forall p values failed idx' w',
  length failed = length values -> 0 < p -> p <= 1 ->
  valid_order values failed idx' ->
  (forall k, (k < length idx')%nat -> nth (nth k idx' 0%nat) w' 0 == stair p (length idx') k) ->
  forall k, (k < length idx')%nat ->
    nth (nth k idx' 0%nat) values 0 == nth (nth k (ranked failed values) 0%nat) values 0 /\
    nth (nth k idx' 0%nat) w' 0 == nth (nth k (ranked failed values) 0%nat) (cvar_weights p values failed) 0.
Proof. exact cvar_unique. Qed.

Theorem C04_unique_distinct : forall p values failed idx' w',
  length failed = length values -> 0 < p -> p <= 1 ->
  distinct_values values failed ->
  valid_order values failed idx' ->
  (forall k, (k < length idx')%nat -> nth (nth k idx' 0%nat) w' 0 == stair p (length idx') k) ->
  (forall r, ~ In r idx' -> nth r w' 0 == 0) ->
  forall r, nth r w' 0 == nth r (cvar_weights p values failed) 0.
Proof. exact cvar_unique_distinct. Qed.

(* np.argsort fixes nothing about the order of tied values.  For EVERY ranking idx it may return (cvar_along is the
   code of _get_cvar_weights_from_percentile run along idx; cvar_weights is cvar_along along the model's ranking):
   n = number of successes, position k carries stair p n k, the value ranked at position k and the weight at position
   k are those of the model, and the failed realizations carry the literal 0 *)
Theorem C04_tie_robust : forall p values failed idx,
  length failed = length values -> 0 < p -> p <= 1 -> valid_order values failed idx ->
  let w := cvar_along p idx (length values) in
  length idx = count_ok failed /\
  (forall k, (k < length idx)%nat ->
     nth (nth k idx 0%nat) w 0 == stair p (count_ok failed) k /\
     nth (nth k idx 0%nat) values 0 == nth (nth k (ranked failed values) 0%nat) values 0 /\
     nth (nth k idx 0%nat) w 0 == nth (nth k (ranked failed values) 0%nat) (cvar_weights p values failed) 0) /\
  (forall r, succeeded failed r = false -> nth r w 0 = 0).
Proof. exact cvar_along_tie_robust. Qed.

Theorem C04_model_is_along : forall p values failed,
  cvar_weights p values failed = cvar_along p (ranked failed values) (length values).
Proof. exact cvar_weights_along. Qed.

(* the CVaR tail mean of a function that is constant on tied ranking values (in particular of the ranked function
   itself) does not depend on the tie order *)
Theorem C04_tail_mean_tie_invariant : forall p values failed idx f,
  length failed = length values -> valid_order values failed idx ->
  (forall a b, nth a values 0 == nth b values 0 -> nth a f 0 == nth b f 0) ->
  tail_mean p idx f == tail_mean p (ranked failed values) f.
Proof. exact tail_mean_tie_invariant. Qed.

(* through the evaluator (construction of all filters, NaN propagation, the filter loop, the mean estimator): an
   objective mapped to a cvar-objective filter is REPORTED as the CVaR_p tail mean of its empirical distribution over
   the successful realizations, ranked by the weighted sum of the chosen objectives, largest first *)
Theorem C04_reported_value : forall cfg filters fm cfm rmin objs0 cns0 e j sort p,
  evaluate cfg filters (Some fm) cfm rmin objs0 cns0 = Ok e ->
  length fm = length (c_ow cfg) -> (j < length fm)%nat ->
  znth (nth j fm (-1)%Z) filters = Some (CvarObjective sort p) -> 0 < p -> p <= 1 ->
  let objs := fst (propagate_nan objs0 cns0) in
  let failed := col0_failed objs in
  (rmin <= count_ok failed)%nat -> (0 < count_ok failed)%nat ->
  exists fo co v,
    e_functions e = Some (fo, co) /\ nth j fo None = Some v /\
    v == tail_mean p (ranked failed (cvar_objective_keys cfg sort objs)) (column j objs).
Proof. exact evaluate_cvar_objective_value. Qed.

(* gradients: the gradient results of point k -- returned by ANY request sequence on the evaluator object, also by the
   gradient-only request that re-uses the cached function result (C05_any_request_order) -- report for such an objective
   the CVaR_p tail mean of the realizations' gradients along the ranking of the FUNCTION values of k, whenever no
   realization is lost to perturbation failures *)
Theorem C04_gradient_tail_mean : forall env k g fm j sort p,
  fresh_gradient env k = Ok g -> s_ofm env = Some fm ->
  length fm = length (c_ow (s_cfg env)) -> (j < length fm)%nat ->
  znth (nth j fm (-1)%Z) (s_filters env) = Some (CvarObjective sort p) -> 0 < p -> p <= 1 ->
  exists pt e, nth_error (s_points env) k = Some pt /\ fresh_function env k = Ok e /\
    let objs := fst (propagate_nan (pt_objs pt) (pt_cons pt)) in
    let failed := col0_failed objs in
    (g_failed g = failed -> length (pt_oslope pt) = length objs ->
     (s_rmin env <= count_ok failed)%nat -> (0 < count_ok failed)%nat ->
     exists go gc v, g_gradients g = Some (go, gc) /\ nth j go None = Some v /\
       v == tail_mean p (ranked failed (cvar_objective_keys (s_cfg env) sort objs)) (column j (somes (pt_oslope pt)))).
Proof. exact gradient_cvar_objective_value. Qed.

(* an evaluation never ends with another exit code than TOO_FEW_REALIZATIONS because of a filter, and it produces
   values only if every filter in use returned weights (for a CVaR filter: some realization succeeded) *)
Theorem C04_abort_is_too_few : forall cfg filters ofm cfm rmin objs0 cns0,
  let objs := fst (propagate_nan objs0 cns0) in
  let cns := snd (propagate_nan objs0 cns0) in
  match evaluate cfg filters ofm cfm rmin objs0 cns0 with
  | Ok _ => forall k m, nth_error filters k = Some m -> in_use ofm cfm (Z.of_nat k) = true ->
                        exists w, get_weights cfg m objs cns = Ok w
  | Abort c => c = too_few /\
               exists k m, nth_error filters k = Some m /\ in_use ofm cfm (Z.of_nat k) = true /\
                           get_weights cfg m objs cns = Abort too_few
  | Raise _ => True
  end.
Proof. exact evaluate_in_use. Qed.

(* the exact clauses of the predicate the correspondence checker evaluates on the implementation's vectors (stair_ok):
   an accepted vector has the ensemble's length, the literal value 0 (as a rational) on every failed realization and no
   negative entry -- no tolerance is involved in these *)
Theorem C04_checker_sound_exact : forall p values failed w,
  stair_ok p values failed w = true ->
  length w = length failed /\
  forall r, (r < length failed)%nat ->
    (nth r failed true = true -> nth r w 0 == 0) /\ (nth r failed true = false -> 0 <= nth r w 0).
Proof. exact stair_ok_sound_basic. Qed.

(* ---- the tolerance clauses of stair_ok (Proofs/FiltersStair.v).  tolq m = tol_abs + tol_rel * m is the tolerance of
   Num.close with scale 1 against a reference value m >= 0; n = count_ok failed.

   SOUNDNESS.  What an accepted vector satisfies: the exact clauses above for EVERY index; and, with n > 0 successes, there
   are a ranking idx of the successful realizations with non-decreasing values (ties in SOME order) and a rank j < n such
   that along idx every rank before j carries 1/n within tolq(1/n), rank j carries a value in [0, 1/n + tolq(1/n)], every
   later rank carries exactly 0 (at most one fractional step), the total is p within tolq(|p|), and j full steps plus the
   entry at rank j make p within tolq(|p|) + j*tolq(1/n) -- the fractional step sits where the percentile puts it *)
Theorem C04_checker_sound : forall p values failed w,
  stair_ok p values failed w = true ->
  length w = length failed /\
  (forall r, nth r failed true = true -> nth r w 0 == 0) /\
  (forall r, 0 <= nth r w 0) /\
  ((0 < count_ok failed)%nat ->
   exists idx j, valid_order values failed idx /\ (j < count_ok failed)%nat /\
     (forall k, (k < j)%nat -> Qabs (nth (nth k idx 0%nat) w 0 - 1 / nq (count_ok failed)) <= tolq (1 / nq (count_ok failed))) /\
     0 <= nth (nth j idx 0%nat) w 0 /\
     nth (nth j idx 0%nat) w 0 <= 1 / nq (count_ok failed) + tolq (1 / nq (count_ok failed)) /\
     (forall k, (j < k < count_ok failed)%nat -> nth (nth k idx 0%nat) w 0 == 0) /\
     Qabs (qsum w - p) <= tolq (Qabs p) /\
     Qabs (nq j * (1 / nq (count_ok failed)) + nth (nth j idx 0%nat) w 0 - p)
       <= tolq (Qabs p) + nq j * tolq (1 / nq (count_ok failed))).
Proof. exact stair_ok_sound. Qed.

(* ... hence, whatever rank j the shape test found, along that ranking EVERY entry is within tolq(p) + n*tolq(1/n) of the
   exact staircase (by C04_tie_robust, stair p n k is the model's weight at rank k of the model's own ranking) *)
Theorem C04_checker_near_staircase : forall p values failed w,
  stair_ok p values failed w = true -> (0 < count_ok failed)%nat -> 0 < p -> p <= 1 ->
  exists idx, valid_order values failed idx /\
    forall k, (k < count_ok failed)%nat ->
      Qabs (nth (nth k idx 0%nat) w 0 - stair p (count_ok failed) k)
        <= tolq p + nq (count_ok failed) * tolq (1 / nq (count_ok failed)).
Proof. exact stair_ok_near_staircase. Qed.

(* ... and when p*n is farther than n*(tolq(p) + n*tolq(1/n)) from the integers the fractional step of an accepted vector
   sits EXACTLY at rank floor(p*n): full steps before it, p - floor(p*n)/n (within tolerance) on it, exact zeros after it *)
Theorem C04_checker_rank_exact : forall p values failed w,
  stair_ok p values failed w = true -> (0 < count_ok failed)%nat -> 0 < p -> p <= 1 ->
  nq (stair_m p (count_ok failed)) + nq (count_ok failed) * (tolq p + nq (count_ok failed) * tolq (1 / nq (count_ok failed)))
    < p * nq (count_ok failed) ->
  p * nq (count_ok failed) + nq (count_ok failed) * (tolq p + nq (count_ok failed) * tolq (1 / nq (count_ok failed)))
    < nq (stair_m p (count_ok failed)) + 1 ->
  (stair_m p (count_ok failed) < count_ok failed)%nat /\
  exists idx, valid_order values failed idx /\
    (forall k, (k < stair_m p (count_ok failed))%nat ->
       Qabs (nth (nth k idx 0%nat) w 0 - 1 / nq (count_ok failed)) <= tolq (1 / nq (count_ok failed))) /\
    Qabs (nth (nth (stair_m p (count_ok failed)) idx 0%nat) w 0 - (p - nq (stair_m p (count_ok failed)) / nq (count_ok failed)))
      <= tolq p + nq (stair_m p (count_ok failed)) * tolq (1 / nq (count_ok failed)) /\
    (forall k, (stair_m p (count_ok failed) < k < count_ok failed)%nat -> nth (nth k idx 0%nat) w 0 == 0).
Proof. exact stair_ok_rank_exact. Qed.

(* COMPLETENESS.  The vector _get_cvar_weights_from_percentile builds along EVERY ranking np.argsort may return (cvar_along,
   see C04_tie_robust) is accepted, in particular the model's own vector, ties or not: the predicate itself cannot raise a
   false alarm on an exact staircase *)
Theorem C04_checker_accepts_every_tie_order : forall p values failed idx,
  length failed = length values -> 0 < p -> p <= 1 -> valid_order values failed idx ->
  stair_ok p values failed (cvar_along p idx (length values)) = true.
Proof. exact stair_ok_complete. Qed.

Theorem C04_checker_accepts_model : forall p values failed,
  length failed = length values -> 0 < p -> p <= 1 ->
  stair_ok p values failed (cvar_weights p values failed) = true.
Proof. exact stair_ok_model. Qed.

(* EXACT CHARACTERISATION.  stair_ok accepts exactly the tolerance staircases (tol_staircase n w idx j: full steps within
   tolerance before rank j, an entry in [0, 1/n + tol] at rank j, exact zeros after it) along SOME ranking consistent with
   the values, with total p within tolerance: acceptance does not depend on the order the checker itself sorts ties by *)
Theorem C04_checker_exact : forall p values failed w,
  stair_ok p values failed w = true <->
  length w = length failed /\ (forall r, nth r failed true = true -> nth r w 0 == 0) /\ (forall r, 0 <= nth r w 0) /\
  (count_ok failed = 0%nat \/
   (Qabs (qsum w - p) <= tolq (Qabs p) /\
    exists idx j, valid_order values failed idx /\ tol_staircase (count_ok failed) w idx j)).
Proof. exact stair_ok_iff. Qed.

(* non-vacuity: the input of the repaired defect F04a (10 realizations, p = the double 0.3): three realizations carry
   1/10, the fourth the (positive, tiny) remainder, nothing is negative; and an ensemble with a failed member *)
Example C04_example :
  let p := Q_ 5404319552844595 18014398509481984 in   (* the double nearest to 0.3, slightly below 3/10 *)
  let values := map (fun k => inject_Z k) [0; 1; 2; 3; 4; 5; 6; 7; 8; 9]%Z in
  let failed := repeat false 10 in
  length failed = length values /\ 0 < p /\ p <= 1 /\ stair_m p 10 = 2%nat /\
  forallb (Qleb 0) (cvar_weights p values failed) = true /\
  Qeqb (qsum (cvar_weights p values failed)) p = true /\
  map (fun x => Qeqb x 0) (cvar_weights p values failed) =
    [false; false; false; true; true; true; true; true; true; true] /\
  cvar_weights (Q_ 1 2) [Q_ 3 1; Q_ 9 1; Q_ 1 1; Q_ 2 1] [false; true; false; false]
    = [0; 0; 1 / nq 3; Qmax (Q_ 1 2 - nq 1 * (1 / nq 3)) 0].
Proof. vm_compute. repeat split; reflexivity || discriminate. Qed.

(* non-vacuity of the evaluator-level statements: 3 realizations (the second failed), objective 0 under a cvar-objective
   filter with p = 1/2: a function request, then a gradient-only request that re-uses the cached result; the reported
   value is the tail mean (1/p) * ((1/2) * 3) = 3 of {3, 1}, the gradient the tail mean of the slopes *)
Example C04_example_sequence :
  let cfg := {| c_rw := [Q_ 1 3; Q_ 1 3; Q_ 1 3]; c_ow := [Q_ 1 1]; c_lower := []; c_upper := [] |} in
  let pt := {| pt_objs := [[Some (Q_ 3 1)]; [None]; [Some (Q_ 1 1)]]; pt_cons := None;
               pt_oslope := [[Q_ 2 1]; [Q_ 7 1]; [Q_ 5 1]]; pt_cslope := []; pt_pfail := [[false]; [false]; [false]] |} in
  let env := {| s_cfg := cfg; s_filters := [CvarObjective [0%nat] (Q_ 1 2)]; s_ofm := Some [0%Z]; s_cfm := None;
                s_rmin := 1; s_pmin := 1; s_points := [pt] |} in
  exists e g, run_direct env None [ReqF 0; ReqG 0] = [Ok [RFun e]; Ok [RGrad g]] /\
    fresh_gradient env 0 = Ok g /\ g_ow g = e_ow e /\
    match e_ow e with Some [row] => list_eqb Qeqb row [Q_ 1 2; 0; 0] = true | _ => False end /\
    match e_functions e, g_gradients g with
    | Some ([Some v], None), Some ([Some d], None) => Qeqb v (Q_ 3 1) && Qeqb d (Q_ 2 1) = true
    | _, _ => False
    end.
Proof. vm_compute. eexists. eexists. repeat split; reflexivity. Qed.

(* non-vacuity of the checker theorems: 5 realizations (the last failed), the first three tied, p = 7/20, n = 4 (p*n = 7/5,
   floor 1, far from the integers: the hypotheses of C04_checker_rank_exact hold).  A staircase along a tie order that is
   NOT the model's is accepted and differs from the model's vector; a vector with the fractional step on a larger value
   than an empty tied rank is rejected.  And p = the double 0.3 with n = 10 (p*n within rounding of 3): the vector with three
   full steps and remainder 0 (what float arithmetic gives when the product rounds to 3.0) is accepted as well *)
Example C04_example_checker :
  let values := [Q_ 1 1; Q_ 1 1; Q_ 1 1; Q_ 2 1; Q_ 0 1] in
  let failed := [false; false; false; false; true] in
  let p := Q_ 7 20 in
  let w := [0; Q_ 1 4; Q_ 1 10; 0; 0] in
  length failed = length values /\ count_ok failed = 4%nat /\ stair_m p 4 = 1%nat /\
  stair_ok p values failed w = true /\
  list_eqb Qeqb w (cvar_weights p values failed) = false /\
  stair_ok p values failed (cvar_weights p values failed) = true /\
  stair_ok p values failed [Q_ 1 4; 0; 0; Q_ 1 10; 0] = false /\
  Qltb (nq 1 + nq 4 * (tolq p + nq 4 * tolq (1 / nq 4))) (p * nq 4) = true /\
  Qltb (p * nq 4 + nq 4 * (tolq p + nq 4 * tolq (1 / nq 4))) (nq 1 + 1) = true /\
  tol_staircase 4 w [1; 2; 0; 3]%nat 1 /\
  stair_ok (Q_ 5404319552844595 18014398509481984) (map (fun k => inject_Z k) [0; 1; 2; 3; 4; 5; 6; 7; 8; 9]%Z)
           (repeat false 10) [Q_ 1 10; Q_ 1 10; Q_ 1 10; 0; 0; 0; 0; 0; 0; 0] = true.
Proof.
  cbv zeta. repeat match goal with |- _ /\ _ => split end;
    try match goal with |- _ = _ => vm_compute; reflexivity end.
  unfold tol_staircase. repeat match goal with |- _ /\ _ => split end.
  - lia.
  - intros k Hk. assert (k = 0%nat) as -> by lia. vm_compute. discriminate.
  - vm_compute. discriminate.
  - vm_compute. discriminate.
  - intros k Hk. assert (k = 2%nat \/ k = 3%nat) as [-> | ->] by lia; vm_compute; reflexivity.
Qed.

Print Assumptions C04_staircase.
Print Assumptions C04_exact_zeros.
Print Assumptions C04_failed_zero.
Print Assumptions C04_fraction_bounds.
Print Assumptions C04_nonneg.
Print Assumptions C04_sum_p.
Print Assumptions C04_tail_mean.
Print Assumptions C04_worst_objective.
Print Assumptions C04_worst_constraint.
Print Assumptions C04_worst_direction.
Print Assumptions C04_empty_is_too_few_objective.
Print Assumptions C04_empty_is_too_few_constraint.
Print Assumptions C04_unique.
Print Assumptions C04_unique_distinct.
Print Assumptions C04_tie_robust.
Print Assumptions C04_model_is_along.
Print Assumptions C04_tail_mean_tie_invariant.
Print Assumptions C04_reported_value.
Print Assumptions C04_gradient_tail_mean.
Print Assumptions C04_abort_is_too_few.
Print Assumptions C04_checker_sound_exact.
Print Assumptions C04_checker_sound.
Print Assumptions C04_checker_near_staircase.
Print Assumptions C04_checker_rank_exact.
Print Assumptions C04_checker_accepts_every_tie_order.
Print Assumptions C04_checker_accepts_model.
Print Assumptions C04_checker_exact.
