(* Props/C04.v -- placeholder while the harness is being brought up; replaced below *)
From Coq Require Import String QArith ZArith Bool Arith List Lia.
From Ropt Require Import Base.Num Base.ListX Model.Filters.
Import ListNotations.

Theorem C04_placeholder : forall R first last,
  check_range R first last = true <-> (first <= last /\ last < R)%nat.
Proof.
  intros R f l. unfold check_range. rewrite !andb_true_iff, !Nat.ltb_lt, Nat.leb_le. lia.
Qed.
Print Assumptions C04_placeholder.
