(* Props/C04.v -- property C04: CVaR filter weights realize the tail expectation over the worst fraction.
   Only statements; each is closed by a lemma of Proofs/Filters.v / Proofs/SortX.v.

   Vocabulary (Model/Filters.v, section "specifications"; none of it mentions the sort):
     values                    the ranking values handed to _get_cvar_weights_from_percentile: ascending = worst first
                               (minus the weighted objective sum / minus the constraint badness, see the C04_worst theorems)
     succeeded failed r, rank values failed r      as in C05 (rank 0 = worst successful realization)
     n = count_ok failed       number of successful realizations
     stair_m p n = floor(p*n)  number of full steps
     stair p n k               1/n for k < m, p - m/n for k = m, 0 for k > m *)
From Coq Require Import String QArith Qabs Qminmax ZArith Bool Arith List Lqa.
From Ropt Require Import Base.Num Base.ListX Model.Filters Proofs.SortX Proofs.Filters.
Import ListNotations.
Open Scope Q_scope.

(* the staircase, for every ensemble size, failure mask, value vector and percentile in (0,1]: in order of badness
   the successful realizations carry 1/n until mass p is reached, the last one fractionally; everything else 0 *)
Theorem C04_staircase : forall p values failed r,
  length failed = length values -> 0 < p -> p <= 1 ->
  nth r (cvar_weights p values failed) 0 ==
    if succeeded failed r then stair p (count_ok failed) (rank values failed r) else 0.
Proof. exact cvar_weights_spec. Qed.

(* "exactly zero elsewhere": failed realizations and every realization ranked after the fractional step carry
   the literal 0 (Leibniz equality, not merely ==) *)
Theorem C04_exact_zeros : forall p values failed r,
  length failed = length values -> 0 < p -> p <= 1 ->
  succeeded failed r = false \/ (stair_m p (count_ok failed) < rank values failed r)%nat ->
  nth r (cvar_weights p values failed) 0 = 0.
Proof. exact cvar_weights_zero. Qed.

Theorem C04_failed_zero : forall p values failed r,
  length failed = length values -> 0 < p -> p <= 1 -> nth r failed true = true ->
  nth r (cvar_weights p values failed) 0 = 0.
Proof.
  intros p values failed r HL Hp Hp1 Hf. apply cvar_weights_zero; try assumption.
  left. unfold succeeded. rewrite Hf. reflexivity.
Qed.

(* the fractional step lies in [0, 1/n) and at most n steps are full: the floor never produces a negative remainder
   or an extra active realization *)
Theorem C04_fraction_bounds : forall p n, (0 < n)%nat -> 0 < p -> p <= 1 ->
  (stair_m p n <= n)%nat /\
  0 <= p - nq (stair_m p n) / nq n /\ p - nq (stair_m p n) / nq n < 1 / nq n.
Proof.
  intros p n Hn Hp Hp1. split; [apply (floor_bounds p n Hn Hp Hp1)|]. apply frac_bounds; assumption.
Qed.

Theorem C04_nonneg : forall p values failed,
  length failed = length values -> 0 < p -> p <= 1 ->
  Forall (fun x => 0 <= x) (cvar_weights p values failed).
Proof. exact cvar_weights_nonneg. Qed.

Theorem C04_sum_p : forall p values failed,
  length failed = length values -> 0 < p -> p <= 1 -> (0 < count_ok failed)%nat ->
  qsum (cvar_weights p values failed) == p.
Proof. exact cvar_weights_sum. Qed.

(* with the mean estimator (failed weights zeroed, weights normalised by their sum, dot product) the value of a
   function f under the CVaR weights is the CVaR_p tail mean of its empirical distribution over the successes:
   (1/p) * ( (1/n) * sum_{k<m} f_(k) + (p - m/n) * f_(m) ), f_(k) the value of the k-th worst realization *)
Theorem C04_tail_mean : forall p values failed f,
  length failed = length values -> length f = length failed -> 0 < p -> p <= 1 -> (0 < count_ok failed)%nat ->
  exists v, mean_value (cvar_weights p values failed) failed f = Some v /\
            v == tail_mean p (ranked failed values) f.
Proof. exact cvar_tail_mean. Qed.

(* "worst": objective filters rank by the largest weighted sum of the chosen objectives ... *)
Theorem C04_worst_objective : forall cfg sort objs r s, (r < length objs)%nat -> (s < length objs)%nat ->
  (nth r (cvar_objective_keys cfg sort objs) 0 <= nth s (cvar_objective_keys cfg sort objs) 0 <->
   objective_key (c_ow cfg) sort (nth s objs []) <= objective_key (c_ow cfg) sort (nth r objs [])).
Proof.
  intros cfg sort objs r s Hr Hs. rewrite !cvar_objective_key_nth by assumption. split; intro H; lra.
Qed.

(* ... constraint filters by the badness max(lower - c, c - upper): largest value for upper-bounded, smallest for
   lower-bounded, farthest from the target for equalities; two-sided constraints are inside iff badness <= 0 *)
Theorem C04_worst_constraint : forall cfg sort c r s, (r < length c)%nat -> (s < length c)%nat ->
  let bad i := badness (nth sort (c_lower cfg) NInf) (nth sort (c_upper cfg) PInf) (nan0 (nth sort (nth i c []) None)) in
  (nth r (cvar_constraint_keys cfg sort c) 0 <= nth s (cvar_constraint_keys cfg sort c) 0 <-> bad s <= bad r).
Proof.
  intros cfg sort c r s Hr Hs bad.
  assert (Er : nth r (cvar_constraint_keys cfg sort c) 0 = - bad r) by (apply cvar_constraint_key_nth; exact Hr).
  assert (Es : nth s (cvar_constraint_keys cfg sort c) 0 = - bad s) by (apply cvar_constraint_key_nth; exact Hs).
  rewrite Er, Es. generalize (bad r) (bad s). intros x y. split; intro H; lra.
Qed.

Theorem C04_worst_direction : forall l u t c1 c2 c,
  (badness NInf (Fin u) c1 <= badness NInf (Fin u) c2 <-> c1 <= c2) /\
  (badness (Fin l) PInf c1 <= badness (Fin l) PInf c2 <-> c2 <= c1) /\
  badness (Fin t) (Fin t) c == Qabs (c - t) /\
  (badness (Fin l) (Fin u) c <= 0 <-> l <= c <= u).
Proof.
  intros l u t c1 c2 c. split; [apply badness_upper|]. split; [apply badness_lower|].
  split; [apply badness_equality | apply badness_two_sided].
Qed.

(* without a successful realization the filter ends the evaluation with TOO_FEW_REALIZATIONS (never a division by
   zero); with at least one it always returns the staircase weights *)
Theorem C04_empty_is_too_few_objective : forall cfg sort p objs cns, 0 < p -> p <= 1 ->
  get_weights cfg (CvarObjective sort p) objs cns =
    if Nat.eqb (count_ok (col0_failed objs)) 0 then Abort too_few
    else Ok (cvar_weights p (cvar_objective_keys cfg sort objs) (col0_failed objs)).
Proof. exact cvar_objective_outcome. Qed.

Theorem C04_empty_is_too_few_constraint : forall cfg sort p objs c, 0 < p -> p <= 1 ->
  get_weights cfg (CvarConstraint sort p) objs (Some c) =
    if Nat.eqb (count_ok (col0_failed c)) 0 then Abort too_few
    else Ok (cvar_weights p (cvar_constraint_keys cfg sort c) (col0_failed c)).
Proof. exact cvar_constraint_outcome. Qed.

(* non-vacuity: the input of the repaired defect F04a (10 realizations, p = the double 0.3): three realizations carry
   1/10, the fourth the (positive, tiny) remainder, nothing is negative; and an ensemble with a failed member *)
Example C04_example :
  let p := Q_ 5404319552844595 18014398509481984 in   (* the double nearest to 0.3, slightly below 3/10 *)
  let values := map (fun k => inject_Z k) [0; 1; 2; 3; 4; 5; 6; 7; 8; 9]%Z in
  let failed := repeat false 10 in
  length failed = length values /\ 0 < p /\ p <= 1 /\ stair_m p 10 = 2%nat /\
  forallb (Qleb 0) (cvar_weights p values failed) = true /\
  Qeqb (qsum (cvar_weights p values failed)) p = true /\
  map (fun x => Qeqb x 0) (cvar_weights p values failed) =
    [false; false; false; true; true; true; true; true; true; true] /\
  cvar_weights (Q_ 1 2) [Q_ 3 1; Q_ 9 1; Q_ 1 1; Q_ 2 1] [false; true; false; false]
    = [0; 0; 1 / nq 3; Qmax (Q_ 1 2 - nq 1 * (1 / nq 3)) 0].
Proof. vm_compute. repeat split; reflexivity || discriminate. Qed.

Print Assumptions C04_staircase.
Print Assumptions C04_exact_zeros.
Print Assumptions C04_failed_zero.
Print Assumptions C04_fraction_bounds.
Print Assumptions C04_nonneg.
Print Assumptions C04_sum_p.
Print Assumptions C04_tail_mean.
Print Assumptions C04_worst_objective.
Print Assumptions C04_worst_constraint.
Print Assumptions C04_worst_direction.
Print Assumptions C04_empty_is_too_few_objective.
Print Assumptions C04_empty_is_too_few_constraint.
