(* Props/C15.v -- property C15: event streams are well formed and aborts latch the plan, at every abort point.
   Only statements; each is closed by a lemma of Proofs/Events.v / Proofs/EventsBracket.v.

   Vocabulary (Model/Events.v):
     world                     the handlers of every plan (outermost first, registration order) and the observers
     recipients w lvl          who receives an event emitted by the plan at nesting level lvl, in delivery order
     prog                      what a plan run does as seen from the event system (PStep = one Plan.run_step call:
                               START event, body, FINISHED event; PEmit = one emitted event; PCall = evaluator call)
     exec / run_steps          the abort machine: the recipient of log entry number k (or the evaluator call with that
                               number) raises OptimizationAborted(USER_ABORT); run_steps is a sequence of run_step calls
                               on the outermost plan with the latched Plan._aborted flag
     trace / full_log          the delivery log of the run in which nobody aborts
     predict w D (Some k)      D cut after entry k, followed by the FINISHED events (full recipient lists) of the
                               steps that are open at that point, innermost first
     top_rets w ps k           exit codes: steps completed before entry k keep their code, every step whose span
                               contains entry k returns USER_ABORT, every later run_step raises PlanAborted
     wf / quiet                step ids are not reused inside a step; step events come from run_step only; no step
                               ends with USER_ABORT of its own accord (both evaluated by the checker on every scenario) *)
From Coq Require Import List Bool Arith.
From Ropt Require Import Model.Step Model.Events Proofs.Events Proofs.EventsBracket.
Import ListNotations.
Open Scope nat_scope.

(* delivery order: the handlers of the emitting plan in registration order, then its ancestors' handlers going
   outward, last the observers registered for the event's type *)
Theorem C15_delivery_order : forall w lvl e,
  recipients w lvl e = concat (rev (firstn (S lvl) (plans w))) ++ obsv w e.
Proof. exact recipients_order. Qed.

(* exactly the handlers of the emitting plan and of its ancestors, and the observers of that event type -- nobody else ... *)
Theorem C15_delivery_members : forall w lvl e r,
  In r (recipients w lvl e) <-> In r (concat (firstn (S lvl) (plans w))) \/ In r (obsv w e).
Proof. exact recipients_members. Qed.

(* ... each exactly once: an event nobody aborts is one contiguous block holding every recipient once *)
Theorem C15_delivered_once : forall w sid e log r,
  NoDup (concat (plans w) ++ obsv w e) -> In r (recipients w (level_of sid) e) ->
  exec w (PEmit sid e) None log = (log ++ eblock w sid e, false, []) /\
  length (filter (fun en => match en with Deliv r' _ _ => r' =? r | Call => false end) (eblock w sid e)) = 1.
Proof.
  intros w sid e log r Hnd Hin. split; [apply emit_delivery|].
  apply count_block_once; [now apply recipients_nodup | exact Hin].
Qed.

(* START first, FINISHED last, for every run_step call and EVERY abort index (also None): *)
Theorem C15_step_bracketed : forall w sid sk ex body k,
  recipients w (level_of sid) (start_of sk) <> [] -> recipients w (level_of sid) (fin_of sk) <> [] ->
  let l := fst (fst (exec w (PStep sid sk ex body) k [])) in
  (exists post, l = Deliv (hd 0 (recipients w (level_of sid) (start_of sk))) sid (start_of sk) :: post) /\
  (exists pre r, l = pre ++ [Deliv r sid (fin_of sk)] /\ In r (recipients w (level_of sid) (fin_of sk))).
Proof. exact step_bracketed. Qed.

(* ... and for every step at every nesting depth: whatever the abort index, no step stays open -- every step whose START
   event was delivered to at least one recipient delivers its FINISHED event, and the FINISHED events come innermost
   first ([scan] pushes a step at its START event and pops it at its FINISHED event only when it is the innermost one) *)
Theorem C15_all_steps_closed : forall w, (forall lvl e, recipients w lvl e <> []) ->
  forall ps k, Forall wf ps -> Forall quiet ps ->
  scan (fst (fst (run_steps w ps k [] false))) [] = [].
Proof. exact run_steps_closed. Qed.

(* evaluation events of an optimizer step alternate START_EVALUATION / FINISHED_EVALUATION for every script, fault
   pattern and budget; a START_EVALUATION stays unmatched only when the evaluator raised or aborted inside it *)
Theorem C15_evaluations_paired : forall c script n ca o d e k,
  run c script n ca = (o, d, e, k) ->
  exists m, (e = pairs m) \/ (e = pairs m ++ [StartEval] /\ (o = Raise \/ o = Exit UserAbort)).
Proof. exact run_events_paired. Qed.

Theorem C15_evaluator_step_events : forall c r o d e,
  run_evaluator_step c r = (o, d, e) ->
  (e = [StartEvalStep; StartEval; FinEval; FinEvalStep] /\ exists x, o = Exit x /\ x <> UserAbort) \/
  (e = [StartEvalStep; StartEval; FinEvalStep] /\ o = Exit UserAbort) \/
  (e = [StartEvalStep; StartEval] /\ o = Raise).
Proof. exact evaluator_step_events. Qed.

(* the run in which nobody aborts (or the abort index lies beyond the log): every event delivered to its full
   recipient list, every step returns its own exit code, the plan is not aborted *)
Theorem C15_unaborted : forall w, (forall lvl e, recipients w lvl e <> []) ->
  forall ps, Forall wf ps -> Forall quiet ps -> forall k,
  (k = None \/ exists n, k = Some n /\ length (full_log w ps) <= n) ->
  run_steps w ps k [] false = (full_log w ps, exits (flat_map rets ps), false).
Proof.
  intros w Hne ps Hw Hq k Hk.
  rewrite (run_steps_unaborted w Hne ps Hw Hq k []); [reflexivity|].
  destruct Hk as [->|(n & -> & Hn)]; [now left|]. right. exists n. split; [reflexivity|]. right. cbn. exact Hn.
Qed.

(* THE MAIN THEOREM, for every abort index k inside the log, every sequence of steps, nesting and handler set:
   the aborted run's log is the unaborted log cut after entry k plus the FINISHED events of the open steps
   (innermost first), the plan is marked aborted, the steps containing entry k return USER_ABORT and every
   further run_step call is refused *)
Theorem C15_prefix_closure : forall w, (forall lvl e, recipients w lvl e <> []) ->
  forall ps k, Forall wf ps -> Forall quiet ps ->
  fst (fst (run_steps w ps None [] false)) = full_log w ps /\
  fst (fst (run_steps w ps (Some k) [] false)) = predict w (full_log w ps) (Some k).
Proof. exact prefix_closure. Qed.

Theorem C15_abort_latches : forall w, (forall lvl e, recipients w lvl e <> []) ->
  forall ps k, Forall wf ps -> Forall quiet ps ->
  let '(_, x, ab) := run_steps w ps (Some k) [] false in
  if k <? length (full_log w ps) then ab = true /\ x = top_rets w ps k
  else ab = false /\ x = exits (flat_map rets ps).
Proof. exact abort_latches. Qed.

(* shape of the exit codes after an abort: completed steps, then the aborted step whose own code is USER_ABORT,
   then only refusals *)
Theorem C15_aborted_step_reports_user_abort : forall w ps j, j < length (flat_map (trace w) ps) ->
  exists pre p post jp, ps = pre ++ p :: post /\ jp < length (trace w p) /\
    top_rets w ps j = exits (flat_map rets pre) ++ exits (arets w p jp) ++ refused post.
Proof. exact top_rets_shape. Qed.

Theorem C15_once_aborted_every_step_refused : forall w ps k log,
  run_steps w ps k log true = (log, refused ps, true).
Proof. exact run_steps_refused. Qed.

(* THE SIDE CONDITIONS HOLD FOR EVERY COMPILED SCENARIO: whatever the steps do (any request script, NaN pattern, budget,
   nesting depth), the programs compiled from the exit-code machine are well formed, and quiet when no evaluator call of
   the fault script raises the abort itself -- so the theorems above apply to all of them, for every abort index *)
Theorem C15_compiled_steps_satisfy_hypotheses : forall l hs ps,
  Forall (fun s => fst s < 100) l -> compile_steps l hs = Some ps ->
  Forall wf ps /\ (forallb (fun s => no_abort_spec (snd s)) l = true -> Forall quiet ps).
Proof.
  intros l hs ps Hl H. split; [exact (compile_steps_wf l hs ps Hl H) | intros Hq; exact (compile_steps_quiet l hs ps Hq H)].
Qed.

Theorem C15_every_compiled_scenario : forall w, (forall lvl e, recipients w lvl e <> []) ->
  forall l ps k, Forall (fun s => fst s < 100) l -> forallb (fun s => no_abort_spec (snd s)) l = true ->
  compile_steps l [] = Some ps ->
  fst (fst (run_steps w ps (Some k) [] false)) = predict w (full_log w ps) (Some k) /\
  scan (fst (fst (run_steps w ps (Some k) [] false))) [] = [] /\
  (let '(_, x, ab) := run_steps w ps (Some k) [] false in
   if k <? length (full_log w ps) then ab = true /\ x = top_rets w ps k
   else ab = false /\ x = exits (flat_map rets ps)).
Proof.
  intros w Hne l ps k Hl Hq Hc.
  pose proof (compile_steps_wf l [] ps Hl Hc) as Hw. pose proof (compile_steps_quiet l [] ps Hq Hc) as Hqq.
  split; [exact (proj2 (prefix_closure w Hne ps k Hw Hqq))|].
  split; [exact (run_steps_closed w Hne ps (Some k) Hw Hqq) | exact (abort_latches w Hne ps k Hw Hqq)].
Qed.

(* non-vacuity: three plan levels with two / one / one handlers, one observer of every event type and an abort callback
   registered for START_EVALUATION only; an optimizer step with nested optimizations two levels deep, then an evaluator
   step; abort at the innermost step's START_EVALUATION delivery to the abort callback *)
Example C15_example :
  let w := {| plans := [[1; 2]; [3]; [4]]; obsv := fun e => match e with StartEval => [9; 30] | _ => [9] end |} in
  let ev sid := PSeq (PSeq (PEmit sid StartEval) PCall) (PEmit sid FinEval) in
  let inner := PStep 200 SKOpt OptFinished (ev 200) in
  let middle := PStep 100 SKOpt OptFinished (PSeq inner (ev 100)) in
  let ps := [PStep 0 SKOpt OptFinished (PSeq middle (ev 0)); PStep 1 SKEval EvalFinished (ev 1)] in
  forallb wfb ps && forallb quietb ps = true /\
  recipients w 2 StartEval = [4; 3; 1; 2; 9; 30] /\ recipients w 0 FinEval = [1; 2; 9] /\
  length (full_log w ps) = 68 /\
  (let '(l, x, ab) := run_steps w ps (Some 17) [] false in
   nth 17 l Call = Deliv 30 200 StartEval /\
   skipn 18 l = eblock w 200 FinOpt ++ eblock w 100 FinOpt ++ eblock w 0 FinOpt /\
   ab = true /\
   x = [(200, RExit UserAbort); (100, RExit UserAbort); (0, RExit UserAbort); (1, RPlanAborted)] /\
   scan l [] = []).
Proof. vm_compute. repeat split; reflexivity. Qed.

Print Assumptions C15_delivery_order.
Print Assumptions C15_delivery_members.
Print Assumptions C15_delivered_once.
Print Assumptions C15_step_bracketed.
Print Assumptions C15_all_steps_closed.
Print Assumptions C15_evaluations_paired.
Print Assumptions C15_evaluator_step_events.
Print Assumptions C15_unaborted.
Print Assumptions C15_prefix_closure.
Print Assumptions C15_abort_latches.
Print Assumptions C15_aborted_step_reports_user_abort.
Print Assumptions C15_once_aborted_every_step_refused.
Print Assumptions C15_compiled_steps_satisfy_hypotheses.
Print Assumptions C15_every_compiled_scenario.
