(* Props/C17.v -- property C17: samplers obey the perturbation-sample contract, including QMC point
   integrity.  Only statements; each is closed by a lemma of Proofs/Sampler.v.  The statements hold
   for all realization / perturbation / variable counts, masks, sampler assignments and raw draws
   (the draw of the SciPy distribution or QMC engine is a universally quantified input). *)
From Coq Require Import QArith ZArith List Bool Arith Permutation.
From Ropt Require Import Base.Num Base.ListX Model.Sampler Proofs.Sampler.
Import ListNotations.
Local Open Scope nat_scope.

(* the result has shape (R, P, V) for every method, mask and shared flag *)
Theorem C17_shape : forall m sh R P V mask rw out,
  generate m sh R P V mask rw = Some out ->
  length out = R /\ Forall (fun blk => length blk = P /\ Forall (fun vec => length vec = V) blk) out.
Proof. exact generate_shape. Qed.

(* entries of variables outside the sampler's mask are the literal 0 *)
Theorem C17_unhandled_zero : forall m sh R P V mask rw out r p v blk vec,
  generate m sh R P V mask rw = Some out ->
  nth_error out r = Some blk -> nth_error blk p = Some vec -> v < V -> handled mask v = false ->
  nth_error vec v = Some 0%Q.
Proof. exact generate_unhandled_zero. Qed.

(* _get_mask: sampler k handles exactly the free variables assigned to it (all free ones without an
   assignment array) ... *)
Theorem C17_mask_spec : forall V k assign varmask v,
  mask_len V varmask -> assign_len V assign -> v < V ->
  handled (get_mask k assign varmask) v = handled varmask v && assigned assign k v.
Proof. exact get_mask_spec. Qed.

(* ... so no variable is handled by two samplers *)
Theorem C17_masks_disjoint : forall V k k' a varmask v,
  mask_len V varmask -> length a = V -> v < V -> k <> k' ->
  handled (get_mask k (Some a) varmask) v = true -> handled (get_mask k' (Some a) varmask) v = false.
Proof. exact get_mask_disjoint. Qed.

(* shared: all R realization blocks are one and the same block *)
Theorem C17_shared : forall m R P V mask rw out,
  generate m true R P V mask rw = Some out -> exists blk, out = repeat blk R.
Proof. exact generate_shared. Qed.

(* stats methods: the vector of (r, p) is slice number r*P + p of the draw (p when shared), placed in the
   handled columns: per realization unless shared, disjoint consecutive slices *)
Theorem C17_draws_per_realization : forall m sh R P V mask flat out r p blk vec,
  generate m sh R P V mask (RawStats flat) = Some out ->
  nth_error out r = Some blk -> nth_error blk p = Some vec ->
  let D := sample_dim V mask in
  vec = embed mask (firstn D (skipn (((if sh then 0 else r) * P + p) * D) flat)).
Proof. exact generate_stats_slices. Qed.

(* QMC methods: each perturbation vector is one engine point, scaled to [-1, 1], in the handled columns *)
Theorem C17_point_integrity : forall m sh R P V mask pts out r p blk vec,
  generate m sh R P V mask (RawQmc pts) = Some out ->
  nth_error out r = Some blk -> nth_error blk p = Some vec ->
  exists pt, nth_error pts ((if sh then 0 else r) * P + p) = Some pt /\
             vec = embed mask (map scale_unit pt) /\ restrict mask vec = map scale_unit pt.
Proof. exact generate_point_integrity. Qed.

(* distinct handled variables read distinct coordinates of the point, all below the engine dimension *)
Theorem C17_columns : forall V mask v w, mask_len V mask -> v < V -> w < V ->
  handled mask v = true -> handled mask w = true ->
  rank mask v < sample_dim V mask /\ (rank mask v = rank mask w -> v = w).
Proof. exact rank_spec. Qed.

(* range: the scaling maps [0, 1] into [-1, 1], so does every entry of a QMC result; a stats result
   stays in [-1, 1] when the draw does (uniform(-1, 2), truncnorm(-1, 1): SciPy's contract) *)
Theorem C17_range : forall u, (0 <= u <= 1)%Q -> (-1 <= scale_unit u <= 1)%Q.
Proof. exact scale_unit_range. Qed.

Theorem C17_range_qmc : forall m sh R P V mask pts out,
  (forall pt u, In pt pts -> In u pt -> (0 <= u <= 1)%Q) ->
  generate m sh R P V mask (RawQmc pts) = Some out -> Forall (Forall (Forall in_unit_range)) out.
Proof. exact generate_range_qmc. Qed.

Theorem C17_range_stats : forall m sh R P V mask flat out,
  (forall x, In x flat -> in_unit_range x) ->
  generate m sh R P V mask (RawStats flat) = Some out -> Forall (Forall (Forall in_unit_range)) out.
Proof. exact generate_range_stats. Qed.

(* Latin hypercube: if coordinate rank(v) of the engine's n points visits every stratum once, so does
   handled variable v across the n generated vectors (n arbitrary; the engine is asked for R'*P points) *)
Theorem C17_stratification_preserved : forall m sh R P V mask pts out v n,
  generate m sh R P V mask (RawQmc pts) = Some out -> 0 < R -> v < V -> handled mask v = true ->
  stratified n (map (stratum n) (column (rank mask v) pts)) ->
  stratified n (map (stratum_scaled n) (column v (vectors sh out))).
Proof. exact generate_stratification_preserved. Qed.

(* the hypotheses "generate ... = Some out" above are satisfiable for every method, shape, mask and shared
   flag: on a draw of the right size (R'*P*D numbers / R'*P points of dimension D) generate never fails *)
Theorem C17_generate_total : forall m sh R P V mask rw,
  mask_len V mask -> raw_ok m (sample_R sh R * P) (sample_dim V mask) rw ->
  exists out, generate m sh R P V mask rw = Some out.
Proof. exact generate_total. Qed.

(* _perturb_variables calls every sampler that has a variable exactly once ... *)
Theorem C17_sampler_order_spec : forall a,
  NoDup (sampler_order (Some a)) /\ forall k, In k (sampler_order (Some a)) <-> In (Z.of_nat k) a.
Proof. intros a. split; [apply sampler_order_NoDup | intros k; apply sampler_order_In]. Qed.

(* ... in the order of first appearance in gradient.samplers: appending an entry appends its sampler to the
   calling order, or changes nothing when the entry is negative or its sampler appeared before *)
Theorem C17_sampler_order_first_appearance : forall a s,
  sampler_order (Some (a ++ [s])) = sampler_order (Some a) ++ (if skip_entry s a then [] else [Z.to_nat s]).
Proof. exact sampler_order_snoc. Qed.

(* end to end (sum over the samplers in _perturb_variables): every free variable that has a sampler gets
   exactly that sampler's sample, a fixed variable or one without sampler (-1) gets the literal sum 0 *)
Theorem C17_sum_over_samplers : forall (cfg : nat -> method * bool) R P V a varmask outs tot r p v,
  mask_len V varmask -> length a = V -> v < V ->
  Forall2 (fun k o => exists rw, generate (fst (cfg k)) (snd (cfg k)) R P V (get_mask k (Some a) varmask) rw = Some o)
          (sampler_order (Some a)) outs ->
  total_samples (map Some outs) = Some tot ->
  (forall k, handled varmask v = true -> nth v a (-1)%Z = Z.of_nat k ->
     exists i o, nth_error (sampler_order (Some a)) i = Some k /\ nth_error outs i = Some o /\
                 (ent tot r p v == ent o r p v)%Q) /\
  (handled varmask v = false \/ (nth v a (-1) < 0)%Z -> (ent tot r p v == 0)%Q).
Proof. exact perturbation_sum. Qed.

(* perturbed_variables = variables + magnitudes * samples, entry by entry *)
Theorem C17_perturbed_variables : forall x mag samples res r p v blk vec,
  perturb x mag samples = Some res -> nth_error samples r = Some blk -> nth_error blk p = Some vec ->
  (ent res r p v == nth v x 0 + nth v mag 0 * ent samples r p v)%Q.
Proof. exact perturb_ent. Qed.

(* non-vacuity: a 2 x 2 x 3 case with a mask; the second variable is not handled; points of a
   two-dimensional Latin hypercube with n = 4 keep their strata *)
Example C17_example :
  let pts := [[Q_ 1 8; Q_ 7 8]; [Q_ 3 8; Q_ 1 8]; [Q_ 5 8; Q_ 3 8]; [Q_ 7 8; Q_ 5 8]] in
  let mask := get_mask 0 (Some [0%Z; 1%Z; 0%Z]) None in
  mask = Some [true; false; true] /\
  generate Lhs false 2 2 3 mask (RawQmc pts) =
    Some [[[Q_ (-6) 8; 0; Q_ 6 8]; [Q_ (-2) 8; 0; Q_ (-6) 8]]; [[Q_ 2 8; 0; Q_ (-2) 8]; [Q_ 6 8; 0; Q_ 2 8]]]%Q /\
  stratified 4 (map (stratum 4) (column (rank mask 2) pts)) /\
  generate Lhs true 2 2 3 mask (RawQmc (firstn 2 pts)) =
    Some (repeat [[Q_ (-6) 8; 0; Q_ 6 8]; [Q_ (-2) 8; 0; Q_ (-6) 8]]%Q 2).
Proof.
  cbn zeta. split; [reflexivity|]. split; [vm_compute; reflexivity|]. split; [|vm_compute; reflexivity].
  unfold stratified. vm_compute.
  apply (Permutation_cons_app [0%Z; 1%Z; 2%Z] [] 3%Z). apply Permutation_refl.
Qed.

(* non-vacuity of the end-to-end statements: gradient.samplers = [1; -1; 0; 1] with the last variable fixed;
   sampler 1 is called first; variable 0 gets sampler 1's sample, variable 2 sampler 0's, variables 1 and 3 nothing *)
Example C17_example_sum :
  let a := [1; -1; 0; 1]%Z in
  let vm := Some [true; true; true; false] in
  let o1 := generate Uniform false 1 1 4 (get_mask 1 (Some a) vm) (RawStats [Q_ 1 2]) in
  let o0 := generate Lhs false 1 1 4 (get_mask 0 (Some a) vm) (RawQmc [[Q_ 1 4]]) in
  sampler_order (Some a) = [1; 0] /\
  match o1, o0 with
  | Some s1, Some s0 =>
      match total_samples [Some s1; Some s0] with
      | Some tot => (ent tot 0 0 0 == Q_ 1 2 /\ ent tot 0 0 1 == 0 /\ ent tot 0 0 2 == Q_ (-1) 2 /\ ent tot 0 0 3 == 0)%Q /\
                    match perturb [1; 1; 1; 1]%Q [Q_ 1 8; Q_ 1 8; Q_ 1 4; Q_ 1 8]%Q tot with
                    | Some res => (ent res 0 0 2 == Q_ 7 8 /\ ent res 0 0 3 == 1)%Q
                    | None => False
                    end
      | None => False
      end
  | _, _ => False
  end.
Proof. cbv zeta. split; [reflexivity|]. vm_compute. repeat split; reflexivity. Qed.

Print Assumptions C17_shape.
Print Assumptions C17_unhandled_zero.
Print Assumptions C17_mask_spec.
Print Assumptions C17_masks_disjoint.
Print Assumptions C17_shared.
Print Assumptions C17_draws_per_realization.
Print Assumptions C17_point_integrity.
Print Assumptions C17_columns.
Print Assumptions C17_range.
Print Assumptions C17_range_qmc.
Print Assumptions C17_range_stats.
Print Assumptions C17_stratification_preserved.
Print Assumptions C17_generate_total.
Print Assumptions C17_sampler_order_spec.
Print Assumptions C17_sampler_order_first_appearance.
Print Assumptions C17_sum_over_samplers.
Print Assumptions C17_perturbed_variables.
