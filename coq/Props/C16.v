(* Props/C16.v -- property C16: runs are reproducible from configuration and seed alone.
   Only statements; each is closed by a lemma of Proofs/Rng.v.  The machine (Model/Rng.v) is
   parametric in the state types, the draw functions, the start-up and sampling PROGRAMS of the
   configuration, the request construction, the user's evaluator, the optimizer strategy and the exit
   code: the theorems hold for ALL of them, all step budgets, all schedules of foreign operations on the
   process-wide generator-like state G (any number, anywhere: before the run, between evaluations, inside
   the evaluator, including complete other runs) and all initial states of G; the table-like state T
   (module-level containers, class attributes, cached plug-in instances, the configuration object) may
   be read by a run at will.

   PARTIAL: the premise "the run itself did not touch G and did not write T" (o_touches = 0) is what the
   harness monitors on the real code, for the parts of G and T it fingerprints (NumPy's legacy global
   generator, the random_state of the scipy.stats distributions, module-level containers / class
   attributes of ropt's modules, attributes of the cached plug-in instances, the configuration object);
   state hidden elsewhere in CPython/NumPy/SciPy is outside this model and is covered only by the
   byte-exact trace comparison across schedules. *)
From Coq Require Import List ZArith Bool Arith.
From Ropt Require Import Model.Rng Proofs.Rng.
Import ListNotations.

Section C16.
  Variables G T L V : Type.
  Variable drawG : G -> G * V.
  Variable drawL : L -> L * V.
  Variables Cfg X Req Res Smp : Type.
  Variable seed_of_config : Cfg -> L.
  Variable init : Cfg -> prog G T V unit.
  Variable sampler : Cfg -> prog G T V Smp.
  Variable request : Cfg -> X -> option Smp -> Req.
  Variable evaluator : Req -> Res.
  Variable decide : Cfg -> list (Req * Res) -> option (bool * X).
  Variable exit_code : Cfg -> list (Req * Res) -> Z.

  Notation run := (run G T L V drawG drawL Cfg X Req Res Smp seed_of_config init sampler request evaluator decide exit_code).
  Notation process := (process G T L V drawG drawL Cfg X Req Res Smp seed_of_config init sampler request evaluator decide exit_code).
  Notation run_as_foreign := (run_as_foreign G T L V drawG drawL Cfg X Req Res Smp seed_of_config init sampler request evaluator decide exit_code).
  Notation obs o := (o_trace _ _ _ _ o, o_exit _ _ _ _ o, o_complete _ _ _ _ o).

  (* same requests, same results, same exit code, whatever other code does to the generator-like state;
     and the tables are handed back unchanged *)
  Theorem C16_non_interference : forall fuel cfg s1 s2 g1 g2 t,
    o_touches _ _ _ _ (run fuel cfg s1 g1 t) = O ->
    obs (run fuel cfg s2 g2 t) = obs (run fuel cfg s1 g1 t)
    /\ o_touches _ _ _ _ (run fuel cfg s2 g2 t) = O
    /\ o_table _ _ _ _ (run fuel cfg s2 g2 t) = t /\ o_table _ _ _ _ (run fuel cfg s1 g1 t) = t.
  Proof. exact (non_interference G T L V drawG drawL Cfg X Req Res Smp seed_of_config init sampler request evaluator decide exit_code). Qed.

  (* the run is a good citizen: it leaves the generator-like state exactly as the foreign operations made
     it (two schedule blocks consumed per evaluator call, nothing else) *)
  Theorem C16_leaves_global_alone : forall fuel cfg s g t,
    o_touches _ _ _ _ (run fuel cfg s g t) = O ->
    o_global _ _ _ _ (run fuel cfg s g t) =
    apply_foreign G (concat (firstn (2 * length (o_trace _ _ _ _ (run fuel cfg s g t))) s)) g.
  Proof. exact (leaves_global_alone G T L V drawG drawL Cfg X Req Res Smp seed_of_config init sampler request evaluator decide exit_code). Qed.

  (* arbitrary interleavings: complete other (touch-free) runs executed at any schedule points of a run --
     inside its evaluator, between its evaluations, any number, any configurations -- change nothing *)
  Theorem C16_interleaved_runs : forall fuel cfg s g t (others : list (list (nat * Cfg * schedule G))) g',
    o_touches _ _ _ _ (run fuel cfg s g t) = O ->
    Forall (Forall (fun j : nat * Cfg * schedule G => o_touches _ _ _ _ (run (fst (fst j)) (snd (fst j)) (snd j) g t) = O)) others ->
    let s' := map (map (fun j : nat * Cfg * schedule G => run_as_foreign (fst (fst j)) (snd (fst j)) (snd j) t)) others in
    obs (run fuel cfg s' g' t) = obs (run fuel cfg s g t) /\
    o_table _ _ _ _ (run fuel cfg s' g' t) = t /\
    Forall (Forall (fun j : nat * Cfg * schedule G => forall g0, o_table _ _ _ _ (run (fst (fst j)) (snd (fst j)) (snd j) g0 t) = t)) others.
  Proof. exact (interleaved_runs G T L V drawG drawL Cfg X Req Res Smp seed_of_config init sampler request evaluator decide exit_code). Qed.

  (* the k-th run of a process equals the same configuration run alone in a fresh process *)
  Theorem C16_fresh_per_run : forall before after fuel cfg s g t o s' g',
    Forall (fun o => o_touches _ _ _ _ o = O) (process before g t) ->
    nth_error (process (before ++ (fuel, cfg, s) :: after) g t) (length before) = Some o ->
    o_touches _ _ _ _ o = O ->
    obs (run fuel cfg s' g' t) = obs o.
  Proof. exact (fresh_per_run G T L V drawG drawL Cfg X Req Res Smp seed_of_config init sampler request evaluator decide exit_code). Qed.

  (* a process of touch-free runs: every outcome is the stand-alone outcome of its configuration (so the
     order of the jobs, and what each schedule did to G, is irrelevant) and the tables never change *)
  Theorem C16_process_independent : forall jobs g t g',
    Forall (fun o => o_touches _ _ _ _ o = O) (process jobs g t) ->
    map (fun o => obs o) (process jobs g t) =
      map (fun j : nat * Cfg * schedule G => obs (run (fst (fst j)) (snd (fst j)) [] g' t)) jobs /\
    Forall (fun o => o_table _ _ _ _ o = t) (process jobs g t).
  Proof. exact (process_independent G T L V drawG drawL Cfg X Req Res Smp seed_of_config init sampler request evaluator decide exit_code). Qed.

  (* changing the seed changes the first perturbation sample -- PARTIAL: the injectivity premises are
     facts about NumPy (default_rng, engine construction, the distributions) that are checked on the
     implementation only *)
  Theorem C16_seed_matters_partial : forall (seed : Cfg -> Z) cfg1 cfg2 g t,
    (forall c1 c2, seed c1 <> seed c2 -> seed_of_config c1 <> seed_of_config c2) ->
    (forall l1 l2 g1 g2 t1 t2 g1' g2' t1' t2' l1' l2' u1 u2 k1 k2, l1 <> l2 ->
        exec G T L V drawG drawL (init cfg1) g1 t1 l1 = (g1', t1', l1', u1, k1) ->
        exec G T L V drawG drawL (init cfg2) g2 t2 l2 = (g2', t2', l2', u2, k2) -> l1' <> l2') ->
    (forall l1 l2 a1 a2 g1 g2 t1 t2 g1' g2' t1' t2' l1' l2' k1 k2, l1 <> l2 ->
        exec G T L V drawG drawL (sampler cfg1) g1 t1 l1 = (g1', t1', l1', a1, k1) ->
        exec G T L V drawG drawL (sampler cfg2) g2 t2 l2 = (g2', t2', l2', a2, k2) -> a1 <> a2) ->
    seed cfg1 <> seed cfg2 ->
    first_sample G T L V drawG drawL Cfg Smp seed_of_config init sampler cfg1 g t <>
    first_sample G T L V drawG drawL Cfg Smp seed_of_config init sampler cfg2 g t.
  Proof. exact (seed_matters G T L V drawG drawL Cfg Smp seed_of_config init sampler). Qed.
End C16.

(* the premise is necessary: a sampler drawing from the global generator is counted and interferes ... *)
Theorem C16_global_sampler_interferes :
  o_trace _ _ _ _ (bad_run 1%Z) <> o_trace _ _ _ _ (bad_run 2%Z) /\ o_touches _ _ _ _ (bad_run 1%Z) = 1.
Proof. exact global_sampler_interferes. Qed.

(* ... and so is a run that writes the tables (a module-level default updated in place, a generator cached
   on the configuration object, a class attribute set by __init__): two runs of one configuration in one
   process differ, and both writes are counted *)
Theorem C16_table_writer_interferes :
  map (o_trace _ _ _ _) (leaky_process 0%Z 0%Z) = [[(6, 6)]; [(7, 7)]]%Z /\
  map (o_touches _ _ _ _) (leaky_process 0%Z 0%Z) = [1; 1] /\
  map (o_table _ _ _ _) (leaky_process 0%Z 0%Z) = [1; 2]%Z.
Proof. exact table_writer_interferes. Qed.

(* non-vacuity: a concrete machine (the checker's replay instance) meets the premise, and reseeding the
   global generator before, between and inside evaluations leaves trace and exit code unchanged *)
Example C16_example :
  let c := {| s_calls := [(false, 11, 21); (true, 12, 22); (false, 13, 23); (true, 14, 24)]%Z; s_exit := 5%Z |} in
  let sched := [[fun _ => 7%Z]; [Z.succ; Z.succ]; []; [fun _ => 0%Z]; [Z.succ]] in
  o_touches _ _ _ _ (replay c [] 0%Z 3%Z) = O /\
  o_trace _ _ _ _ (replay c sched 42%Z 3%Z) = [(11, 21); (12, 22); (13, 23); (14, 24)]%Z /\
  o_exit _ _ _ _ (replay c sched 42%Z 3%Z) = 5%Z /\ o_complete _ _ _ _ (replay c sched 42%Z 3%Z) = true /\
  o_table _ _ _ _ (replay c sched 42%Z 3%Z) = 3%Z /\
  o_global _ _ _ _ (replay c sched 42%Z 3%Z) <> o_global _ _ _ _ (replay c [] 0%Z 3%Z).
Proof. cbv zeta. repeat split; try (vm_compute; reflexivity). vm_compute. discriminate. Qed.

Print Assumptions C16_non_interference.
Print Assumptions C16_leaves_global_alone.
Print Assumptions C16_interleaved_runs.
Print Assumptions C16_fresh_per_run.
Print Assumptions C16_process_independent.
Print Assumptions C16_seed_matters_partial.
Print Assumptions C16_global_sampler_interferes.
Print Assumptions C16_table_writer_interferes.
