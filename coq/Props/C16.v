(* Props/C16.v -- property C16: runs are reproducible from configuration and seed alone.
   Only statements; each is closed by a lemma of Proofs/Rng.v.  The machine (Model/Rng.v) is
   parametric in the generator state types, the draw functions, the sampling program of the
   configuration, the request construction, the user's evaluator, the optimizer strategy and the exit
   code: the theorems hold for ALL of them, all step budgets, all schedules of foreign operations on
   the process-global generator (any number, anywhere: before the run, between evaluations, inside
   the evaluator) and all initial global states.

   PARTIAL: the premise "the run itself did not touch the global generator" (o_touches = 0) is what
   the harness monitors on the real code; state hidden inside CPython/NumPy/SciPy other than the legacy
   global generator is outside this model and is covered only by the byte-exact trace comparison. *)
From Coq Require Import List ZArith Bool Arith.
From Ropt Require Import Model.Rng Proofs.Rng.
Import ListNotations.

Section C16.
  Variables G L V : Type.
  Variable drawG : G -> G * V.
  Variable drawL : L -> L * V.
  Variables Cfg X Req Res Smp : Type.
  Variable seed_of_config : Cfg -> L.
  Variable sampler : Cfg -> prog G V Smp.
  Variable request : Cfg -> X -> option Smp -> Req.
  Variable evaluator : Req -> Res.
  Variable decide : Cfg -> list (Req * Res) -> option (bool * X).
  Variable exit_code : Cfg -> list (Req * Res) -> Z.

  Notation run := (run G L V drawG drawL Cfg X Req Res Smp seed_of_config sampler request evaluator decide exit_code).
  Notation process := (process G L V drawG drawL Cfg X Req Res Smp seed_of_config sampler request evaluator decide exit_code).

  (* same requests, same results, same exit code, whatever other code does to the global generator *)
  Theorem C16_non_interference : forall fuel cfg s1 s2 g1 g2,
    o_touches _ _ _ (run fuel cfg s1 g1) = O ->
    (o_trace _ _ _ (run fuel cfg s2 g2), o_exit _ _ _ (run fuel cfg s2 g2), o_complete _ _ _ (run fuel cfg s2 g2)) =
    (o_trace _ _ _ (run fuel cfg s1 g1), o_exit _ _ _ (run fuel cfg s1 g1), o_complete _ _ _ (run fuel cfg s1 g1))
    /\ o_touches _ _ _ (run fuel cfg s2 g2) = O.
  Proof. exact (non_interference G L V drawG drawL Cfg X Req Res Smp seed_of_config sampler request evaluator decide exit_code). Qed.

  (* the k-th run of a process equals the same configuration run alone in a fresh process *)
  Theorem C16_fresh_per_run : forall before after fuel cfg s g o s' g',
    nth_error (process (before ++ (fuel, cfg, s) :: after) g) (length before) = Some o ->
    o_touches _ _ _ o = O ->
    (o_trace _ _ _ (run fuel cfg s' g'), o_exit _ _ _ (run fuel cfg s' g'), o_complete _ _ _ (run fuel cfg s' g')) =
    (o_trace _ _ _ o, o_exit _ _ _ o, o_complete _ _ _ o).
  Proof. exact (fresh_per_run G L V drawG drawL Cfg X Req Res Smp seed_of_config sampler request evaluator decide exit_code). Qed.

  (* changing the seed changes the first perturbation sample -- PARTIAL: both injectivity premises are
     facts about NumPy (default_rng, the distributions) that are checked on the implementation only *)
  Theorem C16_seed_matters_partial : forall (seed : Cfg -> Z) cfg1 cfg2 g,
    (forall c1 c2, seed c1 <> seed c2 -> seed_of_config c1 <> seed_of_config c2) ->
    (forall l1 l2 a1 a2 g1 g2 g1' g2' l1' l2' t1 t2, l1 <> l2 ->
        exec G L V drawG drawL (sampler cfg1) g1 l1 = (g1', l1', a1, t1) ->
        exec G L V drawG drawL (sampler cfg2) g2 l2 = (g2', l2', a2, t2) -> a1 <> a2) ->
    seed cfg1 <> seed cfg2 ->
    first_sample G L V drawG drawL Cfg Smp seed_of_config sampler cfg1 g <>
    first_sample G L V drawG drawL Cfg Smp seed_of_config sampler cfg2 g.
  Proof. exact (seed_matters G L V drawG drawL Cfg Smp seed_of_config sampler). Qed.
End C16.

(* the premise is necessary: a sampler drawing from the global generator is counted and interferes *)
Theorem C16_global_sampler_interferes :
  o_trace _ _ _ (bad_run 1%Z) <> o_trace _ _ _ (bad_run 2%Z) /\ o_touches _ _ _ (bad_run 1%Z) = 1.
Proof. exact global_sampler_interferes. Qed.

(* non-vacuity: a concrete machine (the checker's replay instance) meets the premise, and reseeding the
   global generator before, between and inside evaluations leaves trace and exit code unchanged *)
Example C16_example :
  let c := {| s_calls := [(false, 11, 21); (true, 12, 22); (false, 13, 23); (true, 14, 24)]%Z; s_exit := 5%Z |} in
  let sched := [[fun _ => 7%Z]; [Z.succ; Z.succ]; []; [fun _ => 0%Z]; [Z.succ]] in
  o_touches _ _ _ (replay c [] 0%Z) = O /\
  o_trace _ _ _ (replay c sched 42%Z) = [(11, 21); (12, 22); (13, 23); (14, 24)]%Z /\
  o_exit _ _ _ (replay c sched 42%Z) = 5%Z /\ o_complete _ _ _ (replay c sched 42%Z) = true /\
  o_global _ _ _ (replay c sched 42%Z) <> o_global _ _ _ (replay c [] 0%Z).
Proof. cbv zeta. repeat split; try (vm_compute; reflexivity). vm_compute. discriminate. Qed.

Print Assumptions C16_non_interference.
Print Assumptions C16_fresh_per_run.
Print Assumptions C16_seed_matters_partial.
Print Assumptions C16_global_sampler_interferes.
