(* Props/C19.v -- property C19: plug-in lookup is deterministic, case-insensitive, side-effect free.
   Only statements; each is closed by a lemma of Proofs/Registry.v. *)
From Coq Require Import List Bool Arith String Ascii.
From Ropt Require Import Model.Registry Proofs.Registry.
Import ListNotations.

(* names stay pairwise distinct (after lower-casing) for every operation sequence *)
Theorem C19_nodup : forall init ops r,
  NoDup (names r) -> NoDup (names (snd (run init r ops))).
Proof. exact run_names_nodup. Qed.

(* a name equal up to case to a registered one is rejected, also when prioritised; state unchanged *)
Theorem C19_duplicate_rejected : forall init r n p prio,
  In (lower n) (names r) -> step init r (Add n p prio) = (r, AErr).
Proof. exact add_duplicate_rejected. Qed.

(* lookup order after any sequence: prioritised plug-ins, most recent first; then the initial ones;
   then the others in registration order *)
Theorem C19_order : forall init ops r seen,
  (forall n, In n seen <-> In n (names r)) ->
  snd (run init r ops) = rev (prio_part (accepted seen ops)) ++ r ++ norm_part (accepted seen ops).
Proof. exact run_order. Qed.

(* "P/m" consults only the plug-in registered under lower P (split at the first slash) ... *)
Theorem C19_get_qualified : forall init r P m, no_slash P = true ->
  get init r (P ++ String "/"%char m) =
    match find_name r (lower P) with
    | Some p => if supports init (fuel_of m) p m then Some p else None
    | None => None
    end.
Proof. exact get_qualified. Qed.

(* ... for every casing of P *)
Theorem C19_get_qualified_case : forall init r P P' m,
  no_slash P = true -> no_slash P' = true -> lower P = lower P' ->
  get init r (P ++ String "/"%char m) = get init r (P' ++ String "/"%char m).
Proof. exact get_qualified_case. Qed.

(* a bare name returns the first plug-in in lookup order that is discoverable and supports it *)
Theorem C19_get_bare : forall init r m p, no_slash m = true ->
  (get init r m = Some p <->
   exists r1 n r2, r = r1 ++ (n, p) :: r2 /\ disc p = true /\ supports init (fuel_of m) p m = true /\
     (forall n' p', In (n', p') r1 -> disc p' && supports init (fuel_of m) p' m = false)).
Proof. intros init r m p H. rewrite (get_bare init r m H). apply first_disc_spec. Qed.

Theorem C19_bare_never_undiscoverable : forall init r m p,
  no_slash m = true -> get init r m = Some p -> disc p = true /\ exists n, In (n, p) r.
Proof. exact bare_never_undiscoverable. Qed.

Theorem C19_is_supported_iff : forall init r m,
  snd (step init r (Sup m)) = ABool true <-> exists id, snd (step init r (Get m)) = APlug id.
Proof. exact is_supported_iff_get. Qed.

Theorem C19_unsupported_is_error : forall init r m,
  snd (step init r (Sup m)) = ABool false <-> snd (step init r (Get m)) = AErr.
Proof. exact is_supported_false_iff_error. Qed.

(* operations on manager i leave every other manager untouched; lookups change nothing at all *)
Theorem C19_isolation : forall init u i j o, i <> j ->
  nth_error (fst (ustep init u (i, o))) j = nth_error u j.
Proof. exact isolation. Qed.

Theorem C19_lookups_pure : forall init u i o,
  (forall n p prio, o <> Add n p prio) -> fst (ustep init u (i, o)) = u.
Proof. exact lookups_leave_universe. Qed.

(* non-vacuity: a concrete registry meets the hypotheses and exercises every branch *)
Example C19_example :
  let scipy := {| pid := 1; kind := Table ["slsqp"%string; "default"%string]; disc := true |} in
  let ext := {| pid := 0; kind := External; disc := false |} in
  let a := {| pid := 10; kind := Table ["slsqp"%string]; disc := true |} in
  let init := [("external"%string, ext); ("scipy"%string, scipy)] in
  NoDup (names init) /\
  fst (run init init [Add "A"%string a true; Add "a"%string a false; Get "SLSQP"%string;
                      Get "external/slsqp"%string; Get "External/scipy/SLSQP"%string; Get "zzz"%string;
                      Sup "a/slsqp"%string])
  = [AOk; AErr; APlug 10; APlug 0; APlug 0; AErr; ABool true].
Proof. split; [repeat constructor; cbn; intuition discriminate | vm_compute; reflexivity]. Qed.

Print Assumptions C19_nodup.
Print Assumptions C19_duplicate_rejected.
Print Assumptions C19_order.
Print Assumptions C19_get_qualified.
Print Assumptions C19_get_qualified_case.
Print Assumptions C19_get_bare.
Print Assumptions C19_bare_never_undiscoverable.
Print Assumptions C19_is_supported_iff.
Print Assumptions C19_unsupported_is_error.
Print Assumptions C19_isolation.
Print Assumptions C19_lookups_pure.
