(* Props/C19.v -- property C19: plug-in lookup is deterministic, case-insensitive, side-effect free.
   Only statements; each is closed by a lemma of Proofs/Registry.v.
   `oinit` is the "optimizer" registry of a freshly constructed manager (what the external plug-in consults);
   every statement holds for all `oinit`, all registries / managers / universes and all operation sequences. *)
From Coq Require Import List Bool Arith String Ascii Permutation.
From Ropt Require Import Model.Registry Proofs.Registry.
Import ListNotations.

(* ---- the dict operations of add_plugin ------------------------------------------------------------- *)
(* d[k] = v on a new key appends; {k: v}.update(d) on a new key puts (k, v) in front and keeps d's order *)
Theorem C19_dict_append : forall d k v, ~ In k (names d) -> dset d k v = d ++ [(k, v)].
Proof. exact dset_fresh. Qed.
Theorem C19_dict_prioritize : forall d k v, NoDup (names d) -> ~ In k (names d) -> dupdate [(k, v)] d = (k, v) :: d.
Proof. exact dupdate_single_fresh. Qed.

(* ---- registrations ----------------------------------------------------------------------------------- *)
(* names stay pairwise distinct and lower-case for every operation sequence *)
Theorem C19_nodup : forall oinit ops r,
  NoDup (names r) -> NoDup (names (snd (run oinit r ops))).
Proof. exact run_names_nodup. Qed.

Theorem C19_names_lowercase : forall oinit ops r,
  Forall (fun k => lower k = k) (names r) -> Forall (fun k => lower k = k) (names (snd (run oinit r ops))).
Proof. exact run_names_lower. Qed.

(* a name equal up to case to a registered one is rejected, also when prioritised; the registry (content AND
   order) is unchanged; and ConfigError is raised only then *)
Theorem C19_duplicate_rejected : forall oinit r n p prio,
  In (lower n) (names r) -> step oinit r (Add n p prio) = (r, AErr).
Proof. exact add_duplicate_rejected. Qed.

Theorem C19_add_error_iff_duplicate : forall oinit r n p prio,
  snd (step oinit r (Add n p prio)) = AErr <-> In (lower n) (names r).
Proof. exact add_err_iff. Qed.

Theorem C19_add_accepted : forall oinit r n p prio, NoDup (names r) -> ~ In (lower n) (names r) ->
  step oinit r (Add n p prio) = ((if prio then (lower n, p) :: r else r ++ [(lower n, p)]), AOk).
Proof. exact add_fresh. Qed.

Theorem C19_add_case_insensitive : forall oinit r n n' p prio,
  lower n = lower n' -> step oinit r (Add n p prio) = step oinit r (Add n' p prio).
Proof. exact add_case. Qed.

(* lookup order after any sequence: prioritised plug-ins, most recent first; then the initial ones;
   then the others in registration order *)
Theorem C19_order : forall oinit ops r seen, NoDup (names r) ->
  (forall n, In n seen <-> In n (names r)) ->
  snd (run oinit r ops) = rev (prio_part (accepted seen ops)) ++ r ++ norm_part (accepted seen ops).
Proof. exact run_order. Qed.

(* ---- lookups ------------------------------------------------------------------------------------------ *)
(* every request is either bare or of the form P/m with P slash-free (split at the FIRST slash) *)
Theorem C19_request_shapes : forall s,
  (no_slash s = true /\ split_slash s = (s, None)) \/
  (exists P m, no_slash P = true /\ s = (P ++ String "/"%char m)%string /\ split_slash s = (P, Some m)).
Proof. exact split_slash_cases. Qed.

(* "P/m" consults only the plug-in registered under lower P, with m handed over verbatim ... *)
Theorem C19_get_qualified : forall oinit r P m, no_slash P = true ->
  get oinit r (P ++ String "/"%char m) =
    match find_name r (lower P) with
    | Some p => if sup1 oinit p m then Some p else None
    | None => None
    end.
Proof. exact get_qualified. Qed.

(* ... for every casing of P ... *)
Theorem C19_get_qualified_case : forall oinit r P P' m,
  no_slash P = true -> no_slash P' = true -> lower P = lower P' ->
  get oinit r (P ++ String "/"%char m) = get oinit r (P' ++ String "/"%char m).
Proof. exact get_qualified_case. Qed.

(* ... whatever else is registered (frame), and no other plug-in's is_supported is called *)
Theorem C19_get_qualified_frame : forall oinit r r' P m,
  no_slash P = true -> find_name r (lower P) = find_name r' (lower P) ->
  get oinit r (P ++ String "/"%char m) = get oinit r' (P ++ String "/"%char m).
Proof. exact get_qualified_frame. Qed.

Theorem C19_qualified_consults_only_named : forall oinit r P m, no_slash P = true ->
  consulted oinit r (P ++ String "/"%char m) =
    match find_name r (lower P) with Some p => [(pid p, m)] | None => [] end.
Proof. exact consulted_qualified. Qed.

(* a bare name returns the first plug-in in lookup order that is discoverable and supports it *)
Theorem C19_get_bare : forall oinit r m p, no_slash m = true ->
  (get oinit r m = Some p <->
   exists r1 n r2, r = r1 ++ (n, p) :: r2 /\ disc p = true /\ sup1 oinit p m = true /\
     (forall n' p', In (n', p') r1 -> disc p' && sup1 oinit p' m = false)).
Proof. intros oinit r m p H. rewrite (get_bare oinit r m H). apply first_disc_spec. Qed.

Theorem C19_bare_never_undiscoverable : forall oinit r m p,
  no_slash m = true -> get oinit r m = Some p -> disc p = true /\ exists n, In (n, p) r.
Proof. exact bare_never_undiscoverable. Qed.

(* a bare lookup only ever asks discoverable registered plug-ins, with the method verbatim *)
Theorem C19_bare_consults_discoverable : forall oinit r m,
  Forall (fun e => snd e = m /\ exists n p, In (n, p) r /\ pid p = fst e /\ disc p = true) (consulted_bare oinit r m).
Proof. exact consulted_bare_spec. Qed.

(* ---- the external optimizer plug-in ------------------------------------------------------------------ *)
(* the recursion bound of the model is never reached: any larger fuel gives the same answer ... *)
Theorem C19_fuel_irrelevant : forall oinit, ext_hidden oinit ->
  forall p m f, String.length m < f -> supports oinit f p m = sup1 oinit p m.
Proof. exact sup1_fuel. Qed.

(* ... and the external plug-in supports m exactly when a fresh manager resolves m *)
Theorem C19_external_forwards : forall oinit, ext_hidden oinit -> forall p m, kind p = External ->
  sup1 oinit p m = match get oinit oinit m with Some _ => true | None => false end.
Proof. exact external_supports. Qed.

(* ExternalOptimizer(...) resolves "external/m" in a fresh manager: no registration anywhere matters, and it
   succeeds exactly when is_supported("external/m") holds *)
Theorem C19_forwarding_ignores_registrations : forall oinit r r' m,
  snd (step oinit r (Fwd m)) = snd (step oinit r' (Fwd m)).
Proof. exact fwd_independent. Qed.

Theorem C19_forwarding_agrees : forall oinit, ext_hidden oinit -> forall r p P m,
  no_slash P = true -> find_name r (lower P) = Some p -> kind p = External ->
  (snd (step oinit r (Fwd (P ++ String "/"%char m))) = AOk <->
   snd (step oinit r (Sup (P ++ String "/"%char m))) = ABool true).
Proof. exact fwd_agrees_with_is_supported. Qed.

(* ---- is_supported ------------------------------------------------------------------------------------- *)
(* is_supported is true exactly when get_plugin succeeds, false exactly when it raises ConfigError: in every
   state of every manager of every universe, for every plug-in type *)
Theorem C19_is_supported_iff : forall oinit u i t m,
  snd (ustep oinit u (i, (t, Sup m))) = ABool true <-> exists id, snd (ustep oinit u (i, (t, Get m))) = APlug id.
Proof. exact universe_sup_iff_get. Qed.

Theorem C19_unsupported_is_error : forall oinit u i t m, (exists mg, nth_error u i = Some mg /\ t < List.length mg) ->
  (snd (ustep oinit u (i, (t, Sup m))) = ABool false <-> snd (ustep oinit u (i, (t, Get m))) = AErr).
Proof. exact universe_sup_false_iff_error. Qed.

Theorem C19_lookup_total : forall oinit r m,
  (exists b, snd (step oinit r (Sup m)) = ABool b) /\
  ((exists id, snd (step oinit r (Get m)) = APlug id) \/ snd (step oinit r (Get m)) = AErr).
Proof. intros. split; [apply is_supported_total | apply get_total]. Qed.

(* declarative reading, without get_plugin: *)
Theorem C19_is_supported_qualified : forall oinit r P m, NoDup (names r) -> no_slash P = true ->
  (snd (step oinit r (Sup (P ++ String "/"%char m))) = ABool true <->
   exists p, In (lower P, p) r /\ sup1 oinit p m = true).
Proof. exact sup_qualified_spec. Qed.

Theorem C19_is_supported_bare : forall oinit r m, no_slash m = true ->
  (snd (step oinit r (Sup m)) = ABool true <->
   exists n p, In (n, p) r /\ disc p = true /\ sup1 oinit p m = true).
Proof. exact sup_bare_spec. Qed.

(* hence is_supported does not depend on the lookup order (prioritisation changes WHICH plug-in, never WHETHER) *)
Theorem C19_is_supported_order_irrelevant : forall oinit r r' m, NoDup (names r) -> Permutation r r' ->
  snd (step oinit r (Sup m)) = snd (step oinit r' (Sup m)).
Proof. exact sup_permutation. Qed.

(* ---- side effects --------------------------------------------------------------------------------------- *)
(* whatever was answered with an exception changed nothing, anywhere *)
Theorem C19_rejected_is_noop : forall oinit u io,
  snd (ustep oinit u io) = AErr \/ snd (ustep oinit u io) = ABad -> fst (ustep oinit u io) = u.
Proof. exact ustep_error_noop. Qed.

(* ... so a rejected operation can be erased from any sequence without changing a later answer or the final state *)
Theorem C19_rejected_erasable : forall oinit u io t,
  snd (ustep oinit u io) = AErr \/ snd (ustep oinit u io) = ABad ->
  urun oinit u (io :: t) = (snd (ustep oinit u io) :: fst (urun oinit u t), snd (urun oinit u t)).
Proof. exact urun_erase_rejected. Qed.

(* lookups (get_plugin, is_supported, plugins, the external optimizer's constructor) change nothing at all *)
Theorem C19_lookups_pure : forall oinit u i t o,
  (forall n p prio, o <> Add n p prio) -> fst (ustep oinit u (i, (t, o))) = u.
Proof. exact ustep_lookup_noop. Qed.

Theorem C19_lookups_erasable : forall oinit u i ty o t, (forall n p prio, o <> Add n p prio) ->
  urun oinit u ((i, (ty, o)) :: t) =
    (snd (ustep oinit u (i, (ty, o))) :: fst (urun oinit u t), snd (urun oinit u t)).
Proof. exact urun_erase_lookup. Qed.

(* ---- isolation -------------------------------------------------------------------------------------------- *)
(* operations on manager i leave every other manager untouched ... *)
Theorem C19_isolation : forall oinit u i j to, i <> j ->
  nth_error (fst (ustep oinit u (i, to))) j = nth_error u j.
Proof. exact manager_isolation. Qed.

(* ... and over a whole interleaved sequence manager j gives exactly the answers, and ends in exactly the state,
   it would have had running alone on its own operations *)
Theorem C19_isolation_trace : forall oinit ops u j m, nth_error u j = Some m ->
  sel j ops (fst (urun oinit u ops)) = fst (mrun oinit m (proj j ops)) /\
  nth_error (snd (urun oinit u ops)) j = Some (snd (mrun oinit m (proj j ops))).
Proof. exact manager_isolation_trace. Qed.

(* the same between the plug-in types of one manager *)
Theorem C19_type_isolation : forall oinit m t t' o, t <> t' ->
  nth_error (fst (mstep oinit m (t, o))) t' = nth_error m t'.
Proof. exact type_isolation. Qed.

Theorem C19_type_isolation_trace : forall oinit ops m t r, nth_error m t = Some r ->
  sel t ops (fst (mrun oinit m ops)) = fst (run oinit r (proj t ops)) /\
  nth_error (snd (mrun oinit m ops)) t = Some (snd (run oinit r (proj t ops))).
Proof. exact type_isolation_trace. Qed.

(* every registry of every manager keeps distinct names, whatever is interleaved *)
Theorem C19_universe_nodup : forall oinit ops u, wf_universe u -> wf_universe (snd (urun oinit u ops)).
Proof. exact urun_wf. Qed.

(* non-vacuity: a concrete fresh manager meets the hypotheses and a sequence exercises every branch *)
Example C19_example :
  let scipy := {| pid := 1; kind := Table ["slsqp"%string; "default"%string]; disc := true |} in
  let ext := {| pid := 0; kind := External; disc := false |} in
  let smp := {| pid := 2; kind := Table ["sobol"%string]; disc := true |} in
  let a := {| pid := 10; kind := Table ["slsqp"%string]; disc := true |} in
  let c := {| pid := 11; kind := Exact ["x/Y"%string]; disc := true |} in
  let oinit := [("external"%string, ext); ("scipy"%string, scipy)] in
  let fresh : manager := [oinit; [("scipy"%string, smp)]] in
  NoDup (names oinit) /\ ext_hidden oinit /\ wf_universe [fresh; fresh] /\
  urun oinit [fresh; fresh]
       [(0, (0, Add "A"%string a true)); (0, (0, Add "a"%string a false)); (0, (0, Add "a"%string c true));
        (0, (0, Get "SLSQP"%string)); (1, (0, Get "SLSQP"%string)); (0, (1, Get "slsqp"%string));
        (0, (0, Get "external/slsqp"%string)); (0, (0, Get "External/scipy/SLSQP"%string));
        (0, (0, Get "external/a/slsqp"%string)); (0, (0, Get "zzz"%string)); (0, (0, Sup "a/slsqp"%string));
        (0, (1, Add "C"%string c false)); (0, (1, Get "c/x/Y"%string)); (0, (1, Sup "c/x/y"%string));
        (0, (1, Lst)); (1, (0, Fwd "external/scipy/slsqp"%string)); (1, (0, Fwd "external/a/slsqp"%string));
        (2, (0, Lst)); (0, (7, Lst))]
  = ([AOk; AErr; AErr; APlug 10; APlug 1; AErr; APlug 0; APlug 0; AErr; AErr; ABool true;
      AOk; APlug 11; ABool false; AList [("scipy"%string, 2); ("c"%string, 11)]; AOk; AErr; ABad; ABad],
     [[("a"%string, a) :: oinit; [("scipy"%string, smp); ("c"%string, c)]]; fresh]).
Proof.
  cbv zeta. split; [repeat constructor; cbn; intuition discriminate|]. split.
  - intros n p [H|[H|[]]] K; injection H as <- <-; [reflexivity | discriminate].
  - split; [|vm_compute; reflexivity].
    repeat constructor; cbn; intuition discriminate.
Qed.

Print Assumptions C19_dict_append.
Print Assumptions C19_dict_prioritize.
Print Assumptions C19_nodup.
Print Assumptions C19_names_lowercase.
Print Assumptions C19_duplicate_rejected.
Print Assumptions C19_add_error_iff_duplicate.
Print Assumptions C19_add_accepted.
Print Assumptions C19_add_case_insensitive.
Print Assumptions C19_order.
Print Assumptions C19_request_shapes.
Print Assumptions C19_get_qualified.
Print Assumptions C19_get_qualified_case.
Print Assumptions C19_get_qualified_frame.
Print Assumptions C19_qualified_consults_only_named.
Print Assumptions C19_get_bare.
Print Assumptions C19_bare_never_undiscoverable.
Print Assumptions C19_bare_consults_discoverable.
Print Assumptions C19_fuel_irrelevant.
Print Assumptions C19_external_forwards.
Print Assumptions C19_forwarding_ignores_registrations.
Print Assumptions C19_forwarding_agrees.
Print Assumptions C19_is_supported_iff.
Print Assumptions C19_unsupported_is_error.
Print Assumptions C19_lookup_total.
Print Assumptions C19_is_supported_qualified.
Print Assumptions C19_is_supported_bare.
Print Assumptions C19_is_supported_order_irrelevant.
Print Assumptions C19_rejected_is_noop.
Print Assumptions C19_rejected_erasable.
Print Assumptions C19_lookups_pure.
Print Assumptions C19_lookups_erasable.
Print Assumptions C19_isolation.
Print Assumptions C19_isolation_trace.
Print Assumptions C19_type_isolation.
Print Assumptions C19_type_isolation_trace.
Print Assumptions C19_universe_nodup.
