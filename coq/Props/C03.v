(* Props/C03.v -- property C03 (placeholder while the pipeline is brought up). *)
From Coq Require Import String QArith List Bool Arith ZArith.
From Ropt Require Import Base.Num Base.ListX Model.Ensemble Proofs.Ensemble.
Import ListNotations.
Open Scope Q_scope.

Theorem C03_placeholder : forall ow objs, weighted_objective ow objs = rdot ow objs.
Proof. exact weighted_objective_dot. Qed.

Print Assumptions C03_placeholder.
