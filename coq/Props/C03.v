(* Props/C03.v -- property C03: failed realizations and perturbations are excluded exactly as if absent.
   Only statements; each is closed by a lemma of Proofs/Ensemble.v (the last one: Proofs/EnsembleFilters.v).  All
   statements but the last are about the executable definitions of Model/Ensemble.v that Check/Chk_C03.v evaluates
   against the real EnsembleEvaluator; the last is about the filter models of C04/C05 (Model/Filters.v).

   Vocabulary (Model/Ensemble.v):
     rows : list (objectives, constraints)   evaluator output per realization (None = NaN); prows: per realization and perturbation
     propagate_nan                           _propagate_nan_values;  failed_fn / failed_grad: _get_failed_realizations
     nan_free row                            no NaN in the row;  keep_of failed = negation of the flags
     gather (keep_of failed) l               l with the entries of the failed realizations deleted
     reduce_pX pX pf / reduce_pf pf          the perturbations of one realization with the failed ones deleted
     estimate / estimate_all / gradient_of   _calculate_estimated_functions / _calculate_gradient (zero failed weights,
                                             renormalise, estimator); solve = _invert_linear_equations (any function)
     merged_rows / merged_gradient_of        _estimate_merged_gradient: the stacked rows (weight, variable difference,
                                             function difference) of the one solve; msolve = weighting + solver
     fres_eq / gres_eq / veq                 equality of results up to == on Q *)
From Coq Require Import String QArith List Bool Arith ZArith.
From Ropt Require Import Base.Num Base.ListX Gen.Generated Model.Ensemble Proofs.Ensemble Proofs.EnsembleFilters.
Import ListNotations.
Open Scope Q_scope.

(* a realization is flagged as failed for a function evaluation iff any of its objective or constraint values is NaN
   (at least one objective is configured) *)
Theorem C03_failed_iff_any_nan : forall rows r o c, nth_error rows r = Some (o, c) -> o <> [] ->
  (nth r (failed_fn (propagate_nan rows)) false = true <-> In None o \/ In None c).
Proof. exact failed_iff_any_nan. Qed.

(* a perturbation succeeds iff none of its values is NaN *)
Theorem C03_perturbation_ok_iff : forall o c, o <> [] ->
  (perturbation_ok (propagate_row (o, c)) = true <-> ~ In None o /\ ~ In None c).
Proof. intros o c Ho. rewrite (perturbation_ok_propagate o c Ho). apply nan_free_iff. Qed.

(* for a gradient evaluation a realization is flagged iff its unperturbed row has a NaN or fewer than
   perturbation_min_success of its perturbations are NaN-free *)
Theorem C03_grad_failed_iff : forall pmin rows prows r o c, length prows = length rows ->
  nth_error rows r = Some (o, c) -> o <> [] ->
  Forall (fun oc : list oQ * list oQ => fst oc <> []) (nth r prows []) ->
  (nth r (failed_grad pmin (propagate_nan rows) (map propagate_nan prows)) false = true <->
   (In None o \/ In None c) \/ (count_true (map nan_free (nth r prows [])) < pmin)%nat).
Proof. exact grad_failed_raw. Qed.

(* both thresholds are clamped to the ensemble size: never above it, the maximum when unset or too large *)
Theorem C03_thresholds_clamped : forall m n,
  (clamp_threshold m n <= n)%nat /\
  (m = None -> clamp_threshold m n = n) /\
  (forall k, m = Some k -> (k <= n)%nat -> clamp_threshold m n = k) /\
  (forall k, m = Some k -> (n < k)%nat -> clamp_threshold m n = n).
Proof. exact clamp_threshold_spec. Qed.

(* the gate: open iff the number of non-failed realizations reaches realization_min_success ... *)
Theorem C03_gate : forall rmin failed,
  (gate rmin failed = true <-> (rmin <= count_ok failed)%nat) /\ count_ok failed = length (filter negb failed).
Proof. intros rmin failed. split; [apply gate_iff | apply count_ok_spec]. Qed.

(* ... functions are reported iff the gate is open, otherwise nothing is reported for that evaluation; what is
   reported is computed from the NaN-propagated rows, their flags and the weights in force only *)
Theorem C03_functions_reported_iff : forall c raw fouts r, one_set c raw fouts = Done r ->
  r_rows r = propagate_nan raw /\ r_failed r = failed_fn (propagate_nan raw) /\
  (r_functions r = None <-> (count_ok (r_failed r) < cfg_rmin c)%nat) /\
  (forall f, r_functions r = Some f -> f = compute_functions c (r_ow r) (r_cw r) (r_rows r) (r_failed r)).
Proof. exact one_set_gate. Qed.

(* a missing value stops the optimization with TOO_FEW_REALIZATIONS: the optimizer step ends with that code iff the
   calculation aborted, some result of the evaluation lacks its functions/gradients, or (realization_min_success = 0,
   optimizer without allow_nan) all realizations of a result failed; the evaluator step iff aborted or a result
   lacks its functions.  The two codes are the ones regenerated from OptimizerExitCode and differ. *)
Theorem C03_too_few_exit : forall aborted rmin allow_nan results missing,
  (optimizer_step_exit aborted rmin allow_nan results = exit_code_of "TOO_FEW_REALIZATIONS" <->
   aborted = true \/
   exists r, In r results /\
             (fst r = true \/ (rmin = 0%nat /\ allow_nan = false /\ forallb (fun b : bool => b) (snd r) = true))) /\
  (optimizer_step_exit aborted rmin allow_nan results = exit_code_of "TOO_FEW_REALIZATIONS" \/
   optimizer_step_exit aborted rmin allow_nan results = exit_code_of "OPTIMIZER_STEP_FINISHED") /\
  (evaluator_step_exit aborted missing = exit_code_of "TOO_FEW_REALIZATIONS" <-> aborted = true \/ In true missing) /\
  exit_code_of "TOO_FEW_REALIZATIONS" <> exit_code_of "OPTIMIZER_STEP_FINISHED" /\
  exit_code_of "TOO_FEW_REALIZATIONS" <> exit_code_of "EVALUATION_STEP_FINISHED".
Proof.
  intros aborted rmin allow_nan results missing.
  split; [rewrite optimizer_step_exit_iff, too_few_after_evaluation_iff; reflexivity|].
  split; [apply optimizer_step_exit_cases|]. split; [apply evaluator_step_exit_iff | apply exit_codes_distinct].
Qed.

(* "as if absent", one function: for every estimator, column, weight row and failure mask, the result on the full
   ensemble (failed weights zeroed, rest renormalised) is the result on the ensemble from which the failed
   realizations have been deleted -- the value when one is defined (mean and variance), and likewise the
   too-few abort and the undefined 0/0 case *)
Theorem C03_as_if_absent_estimate : forall k f wrow failed, length wrow = length failed ->
  fres_eq (estimate k f wrow failed)
          (estimate k (gather (keep_of failed) f) (gather (keep_of failed) wrow) (repeat false (count_ok failed))).
Proof. exact estimate_removal. Qed.

(* "as if absent", all functions of an evaluation (sel = fst: objectives, sel = snd: constraints): the reduced
   ensemble keeps the configured weights and the weight rows in force of the survivors; its own failure flags
   (recomputed by the model) are all false *)
Theorem C03_as_if_absent_functions : forall (sel : list oQ * list oQ -> list oQ) ests emap cfgw wmat rows,
  (forall j, (j < length emap)%nat -> length (in_force cfgw wmat j) = length rows) ->
  Forall2 fres_eq
    (estimate_all ests emap cfgw wmat (map sel rows) (failed_fn rows))
    (estimate_all ests emap (gather (keep_of (failed_fn rows)) cfgw)
                  (option_map (map (gather (keep_of (failed_fn rows)))) wmat)
                  (map sel (gather (keep_of (failed_fn rows)) rows))
                  (failed_fn (gather (keep_of (failed_fn rows)) rows))).
Proof. exact as_if_absent_functions. Qed.

(* failed perturbations: the least-squares system of a realization is the system of the same realization with its
   failed perturbations deleted (NaN rows are dropped, never kept as zeros) *)
Theorem C03_perturbations_as_if_absent : forall x fx pX pf,
  realization_system x fx (reduce_pX pX pf) (reduce_pf pf) = realization_system x fx pX pf.
Proof. exact realization_system_reduced. Qed.

(* "as if absent", gradients: for every least-squares solver returning nv entries, both estimators and every failure
   mask, the combined gradient of the full ensemble equals that of the ensemble with the failed realizations and
   the failed perturbations deleted and the weights renormalised *)
Theorem C03_as_if_absent_gradients : forall (solve : list vec -> list Q -> vec) nv,
  (forall A b, length (solve A b) = nv) ->
  forall k x fs pXs pfs wrow failed, length fs = length failed -> length wrow = length failed ->
  let keep := keep_of failed in
  gres_eq (gradient_of solve nv k x fs pXs pfs wrow failed)
          (gradient_of solve nv k x (gather keep fs)
                       (map2 reduce_pX (gather keep pXs) (gather keep pfs)) (map reduce_pf (gather keep pfs))
                       (gather keep wrow) (repeat false (count_ok failed))).
Proof. exact gradient_removal. Qed.

(* "as if absent", merged estimation (gradient.merge_realizations: one least-squares solve over the stacked rows of all
   realizations): the rows that enter the solve belong to realizations with a non-zero normalised weight -- hence never
   to a failed one -- and to perturbations whose function difference is defined (no NaN in the perturbed or the
   unperturbed value) *)
Theorem C03_merged_rows_only : forall x fs pXs pfs w wr dx d,
  In (wr, dx, d) (merged_rows x fs pXs pfs w) ->
  exists r f pX pf, nth_error fs r = Some f /\ nth_error pXs r = Some pX /\ nth_error pfs r = Some pf /\
                    nth_error w r = Some wr /\ ~ wr == 0 /\
                    In (dx, d) (combine (fst (realization_system x f pX pf)) (snd (realization_system x f pX pf))).
Proof. exact merged_rows_In. Qed.

(* ... and for every way of weighting and solving the stacked rows (msolve: any function of the rows that respects ==
   on the weights; the current code multiplies the function differences by the weight and calls the SVD solver, a
   weighted least-squares repair of known finding C02:merged-gradient-scaled is another instance), the merged gradient
   of the full ensemble equals that of the ensemble with the failed realizations and failed perturbations deleted and
   the weights renormalised *)
Theorem C03_as_if_absent_merged : forall (msolve : list mrow -> vec),
  (forall a b, Forall2 mrow_eq a b -> veq (msolve a) (msolve b)) ->
  forall x fs pXs pfs wrow failed, length wrow = length failed ->
  let keep := keep_of failed in
  gres_eq (merged_gradient_of msolve x fs pXs pfs wrow failed)
          (merged_gradient_of msolve x (gather keep fs)
                              (map2 reduce_pX (gather keep pXs) (gather keep pfs)) (map reduce_pf (gather keep pfs))
                              (gather keep wrow) (repeat false (count_ok failed))).
Proof. exact merged_removal. Qed.

(* realization filters are part of the "weights in force": on the filter models of C04/C05 (Model/Filters.v, not
   imported here, hence the qualified names) the CVaR weights and the sort-window weights computed with a failure mask
   are, on the survivors, the weights computed on the ensemble with the failed realizations deleted, and exact zeros
   on the failed ones.  Model.Filters.count_ok failed = length (filter negb failed) is the count_ok of C03_gate. *)
Theorem C03_filters_commute_with_removal : forall values failed, length failed = length values ->
  (forall p, 0 < p -> p <= 1 ->
     veq (gather (keep_of failed) (Model.Filters.cvar_weights p values failed))
         (Model.Filters.cvar_weights p (gather (keep_of failed) values) (repeat false (Model.Filters.count_ok failed))) /\
     (forall r, nth r failed true = true -> nth r (Model.Filters.cvar_weights p values failed) 0 = 0)) /\
  (forall cfgw first last, length cfgw = length failed ->
     gather (keep_of failed) (Model.Filters.sort_and_select values cfgw failed first last) =
     Model.Filters.sort_and_select (gather (keep_of failed) values) (gather (keep_of failed) cfgw)
                                   (repeat false (Model.Filters.count_ok failed)) first last /\
     (forall r, nth r failed true = true -> nth r (Model.Filters.sort_and_select values cfgw failed first last) 0 = 0)).
Proof. exact filters_commute_with_removal. Qed.

(* non-vacuity: three realizations, two perturbations each, one variable; realization 1 fails (NaN in the constraint),
   realization 2 loses one perturbation; solver = difference quotient of the first row *)
Example C03_example :
  let rows := [([Some (Q_ 1 1)], [Some (Q_ 0 1)]); ([Some (Q_ 2 1)], [None]); ([Some (Q_ 5 1)], [Some (Q_ 1 1)])] in
  let prows := [[([Some (Q_ 2 1)], [Some 0]); ([Some (Q_ 3 1)], [Some 0])];
                [([Some (Q_ 2 1)], [Some 0]); ([Some (Q_ 3 1)], [Some 0])];
                [([None], [Some 0]); ([Some (Q_ 7 1)], [Some 0])]] in
  let solve := fun (A : list vec) (b : list Q) => [nth 0 b 0 / nth 0 (nth 0 A []) 1] in
  let wrow := [Q_ 1 2; Q_ 1 4; Q_ 1 4] in
  let failed := failed_fn (propagate_nan rows) in
  let fs := column 0 (map fst (propagate_nan rows)) in
  let pXs := [[[Q_ 1 1]; [Q_ 2 1]]; [[Q_ 1 1]; [Q_ 2 1]]; [[Q_ 1 1]; [Q_ 2 1]]] in
  let pfs := map (fun pr => column 0 (map fst (propagate_nan pr))) prows in
  failed = [false; true; false] /\
  failed_grad 2 (propagate_nan rows) (map propagate_nan prows) = [false; true; true] /\
  failed_grad 1 (propagate_nan rows) (map propagate_nan prows) = [false; true; false] /\
  gate 2 failed = true /\ gate 3 failed = false /\
  (forall A b, length (solve A b) = 1%nat) /\ length fs = length failed /\ length wrow = length failed /\
  fres_eq (estimate Mean fs wrow failed) (FOk (Q_ 7 3)) /\
  gres_eq (gradient_of solve 1 Mean [0] fs pXs pfs wrow failed) (GMean [Q_ 1 1]) /\
  gres_eq (gradient_of solve 1 Mean [0] (gather (keep_of failed) fs)
                       (map2 reduce_pX (gather (keep_of failed) pXs) (gather (keep_of failed) pfs))
                       (map reduce_pf (gather (keep_of failed) pfs))
                       (gather (keep_of failed) wrow) (repeat false (count_ok failed))) (GMean [Q_ 1 1]) /\
  (* merged: msolve = sum of weight * function difference over the stacked rows; rows (2/3,[1],1) (2/3,[2],2) (1/3,[2],2) *)
  let msolve := fun rows : list mrow => [qsum (map (fun r : mrow => fst (fst r) * snd r) rows)] in
  (forall a b, Forall2 mrow_eq a b -> veq (msolve a) (msolve b)) /\
  length (merged_rows [0] fs pXs pfs [Q_ 2 3; 0; Q_ 1 3]) = 3%nat /\
  gres_eq (merged_gradient_of msolve [0] fs pXs pfs wrow failed) (GMean [Q_ 8 3]).
Proof.
  cbv zeta. split; [vm_compute; reflexivity|]. split; [vm_compute; reflexivity|]. split; [vm_compute; reflexivity|].
  split; [vm_compute; reflexivity|]. split; [vm_compute; reflexivity|]. split; [intros A b; reflexivity|].
  split; [vm_compute; reflexivity|]. split; [vm_compute; reflexivity|]. split; [vm_compute; reflexivity|].
  split; [vm_compute; repeat constructor|]. split; [vm_compute; repeat constructor|].
  split; [|split; [vm_compute; reflexivity | vm_compute; repeat constructor]].
  intros a b H. constructor; [|constructor].
  induction H as [|r r' a b [Hw [_ Hd]] _ IH]; [reflexivity|]. cbn [map]. rewrite !qsum_cons, IH, Hw, Hd. reflexivity.
Qed.

Print Assumptions C03_failed_iff_any_nan.
Print Assumptions C03_perturbation_ok_iff.
Print Assumptions C03_grad_failed_iff.
Print Assumptions C03_thresholds_clamped.
Print Assumptions C03_gate.
Print Assumptions C03_functions_reported_iff.
Print Assumptions C03_too_few_exit.
Print Assumptions C03_as_if_absent_estimate.
Print Assumptions C03_as_if_absent_functions.
Print Assumptions C03_perturbations_as_if_absent.
Print Assumptions C03_as_if_absent_gradients.
Print Assumptions C03_merged_rows_only.
Print Assumptions C03_as_if_absent_merged.
Print Assumptions C03_filters_commute_with_removal.
