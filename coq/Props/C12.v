(* Props/C12.v -- property C12: the tracked best result is the feasible optimum over the whole history.
   Only statements; each is closed by a lemma of Proofs/Tracker.v.  All statements are about the
   executable definitions of Model/Tracker.v (the ones Check/Chk_C12.v runs against the real
   DefaultTrackerHandler), for ARBITRARY histories, tolerances, source sets and result contents.

   Vocabulary (Model/Tracker.v):  delivered cfg h = the (user result, optimizer-domain partner) pairs of
   the FINISHED_EVALUATION events of h that carry results, come from a tracked source and are emitted on the
   handler's plan or on a plan nested below it (sees = reaches && accepts), in delivery order -- the results
   of one event (a batch) in their order inside the event;  candidate tol p = the optimizer-domain partner is a function result with functions, no
   reported violation exceeds tol (None: no test), and its weighted objective is not NaN;
   oval = that objective;  stored = what Plan.get(tracker, "results") returns. *)
From Coq Require Import QArith ZArith List Bool Arith.
From Ropt Require Import Base.Num Base.ListX Model.Tracker Proofs.Tracker.
Import ListNotations.
Open Scope Q_scope.

(* After any history a 'best' tracker holds nothing iff no candidate was delivered; otherwise it holds
   (the user-domain object of) the FIRST candidate whose optimizer-domain objective is minimal:
   strictly below every earlier candidate, not above any later one. *)
Theorem C12_best_is_argmin : forall cfg h, c_what cfg = Best ->
  match stored (track cfg init (map Emit h)) with
  | None => forall p, In p (delivered cfg h) -> candidate (c_tol cfg) p = false
  | Some (id, u) => exists d1 p d2, delivered cfg h = d1 ++ p :: d2 /\ id = i_id (fst p) /\ u = i_u (fst p) /\
      candidate (c_tol cfg) p = true /\
      (forall q, In q d1 -> candidate (c_tol cfg) q = true -> oval (snd p) < oval (snd q)) /\
      (forall q, In q d2 -> candidate (c_tol cfg) q = true -> oval (snd p) <= oval (snd q))
  end.
Proof. exact best_held. Qed.

(* In the words of the property: the held result was delivered by a tracked source, is a function
   result with a defined objective, EVERY reported violation is within the tolerance, and its
   objective is the lowest among all feasible function results delivered so far. *)
Theorem C12_held_is_feasible_and_lowest : forall cfg h t id u, c_what cfg = Best -> c_tol cfg = Some t ->
  stored (track cfg init (map Emit h)) = Some (id, u) ->
  exists p, In p (delivered cfg h) /\ id = i_id (fst p) /\ u = i_u (fst p) /\
    f_isfun (snd p) = true /\ f_hasf (snd p) = true /\ (exists o, f_obj (snd p) = Some o) /\
    (forall vs, f_viol (snd p) = Some vs -> forall l, In (Some l) vs -> forall x, In x l -> x <= t) /\
    (forall q, In q (delivered cfg h) -> candidate (Some t) q = true -> oval (snd p) <= oval (snd q)).
Proof. exact best_held_feasible. Qed.

(* Frame, from ANY handler state (so at any position, including the first): an event none of whose
   tracked deliveries is a candidate -- gradients, results without functions, NaN objectives,
   infeasible results, another source, another event type, no "results" -- changes nothing. *)
Theorem C12_never_displaced : forall cfg st ev, c_what cfg = Best ->
  (forall p, In p (delivered cfg [ev]) -> candidate (c_tol cfg) p = false) ->
  stored (deliver cfg st ev) = stored st /\ resync (deliver cfg st ev) = resync st.
Proof. exact best_frame. Qed.

(* Events from another source, of another type, without results, or emitted on a plan that is not the
   handler's plan or nested below it, do not touch the handler at all (any tracker kind, whole state);
   so a history and its sub-history of seen events are indistinguishable. *)
Theorem C12_unseen_is_identity : forall cfg st ev, sees cfg ev = false -> deliver cfg st ev = st.
Proof. exact deliver_unseen. Qed.

Theorem C12_only_seen_events_matter : forall cfg h st,
  track cfg st (map Emit h) = track cfg st (map Emit (filter (sees cfg) h)).
Proof. exact track_filter_seen. Qed.

(* An event carrying several results (parallel / population methods) is the same as delivering the two
   halves of any split of the batch as two consecutive events: only the delivery order matters, not how
   the results are grouped into events (both tracker kinds, any start state). *)
Theorem C12_batch_is_sequence : forall cfg st ev l1 l2, e_items ev = l1 ++ l2 ->
  stored (deliver cfg st ev) = stored (deliver cfg (deliver cfg st (with_items ev l1)) (with_items ev l2)).
Proof. exact batch_split. Qed.

(* From ANY handler state that holds a result with a defined comparison objective o (in the middle of a
   run; after Plan.set replaced the stored result, see C12_put_new / C12_reput_noop): the held result
   is kept iff no later candidate is strictly below o, otherwise the first argmin of the later candidates
   is held, and it is strictly below o. *)
Theorem C12_best_from_any_state : forall cfg st h bid bu bt o, c_what cfg = Best ->
  resync st = Some (bid, bu, bt) -> f_obj bt = Some o ->
  (stored (track cfg st (map Emit h)) = Some (bid, bu) /\
     forall q, In q (delivered cfg h) -> candidate (c_tol cfg) q = true -> o <= oval (snd q))
  \/ (exists d1 p d2, delivered cfg h = d1 ++ p :: d2 /\
        stored (track cfg st (map Emit h)) = Some (i_id (fst p), i_u (fst p)) /\
        candidate (c_tol cfg) p = true /\ oval (snd p) < o /\
        (forall q, In q d1 -> candidate (c_tol cfg) q = true -> oval (snd p) < oval (snd q)) /\
        (forall q, In q d2 -> candidate (c_tol cfg) q = true -> oval (snd p) <= oval (snd q))).
Proof. exact best_from_state_held. Qed.

(* Plan.set(tracker, "results", r) with an object other than the one the handler compared last: r is
   compared through the only objective the handler can see of it;  with the object already held: a no-op
   (in particular the optimizer-domain partner keeps being the one compared). *)
Theorem C12_put_new : forall cfg st id u, (forall oid ou ot, optimal st = Some (oid, ou, ot) -> oid <> id) ->
  resync (step cfg st (Put (Some (id, u)))) = Some (id, u, u).
Proof. exact resync_put_new. Qed.

Theorem C12_reput_noop : forall cfg st v, stored st = Some v -> step cfg st (Put (Some v)) = st.
Proof. exact reput_noop. Qed.

(* Once a result is held, a result is held ever after and its optimizer-domain objective never rises. *)
Theorem C12_best_monotone : forall cfg h1 h2 id1 u1, c_what cfg = Best ->
  stored (track cfg init (map Emit h1)) = Some (id1, u1) ->
  exists p1 p2, In p1 (delivered cfg h1) /\ In p2 (delivered cfg (h1 ++ h2)) /\
    id1 = i_id (fst p1) /\ u1 = i_u (fst p1) /\
    stored (track cfg init (map Emit (h1 ++ h2))) = Some (i_id (fst p2), i_u (fst p2)) /\
    oval (snd p2) <= oval (snd p1).
Proof. exact best_monotone. Qed.

(* ... and never blocks: a valid result delivered after any number of such events is retained. *)
Theorem C12_never_blocked : forall cfg h ev p, c_what cfg = Best ->
  (forall q, In q (delivered cfg h) -> candidate (c_tol cfg) q = false) ->
  delivered cfg [ev] = [p] -> candidate (c_tol cfg) p = true ->
  stored (track cfg init (map Emit (h ++ [ev]))) = Some (i_id (fst p), i_u (fst p)).
Proof. exact best_never_blocked. Qed.

(* A 'last' tracker holds the most recent feasible function result (from any start state). *)
Theorem C12_last : forall cfg h st, c_what cfg = Last ->
  (exists d1 p d2, delivered cfg h = d1 ++ p :: d2 /\ last_candidate (c_tol cfg) p = true /\
      (forall q, In q d2 -> last_candidate (c_tol cfg) q = false) /\
      stored (track cfg st (map Emit h)) = Some (i_id (fst p), i_u (fst p)))
  \/ ((forall q, In q (delivered cfg h) -> last_candidate (c_tol cfg) q = false) /\
      stored (track cfg st (map Emit h)) = stored st).
Proof. exact last_held. Qed.

(* Maximisation: when the user-domain objective is minus the optimizer-domain one, the retained
   result MAXIMISES the user objective over the candidates. *)
Theorem C12_sign_flip : forall cfg h, c_what cfg = Best ->
  (forall p, In p (delivered cfg h) -> uval p == - oval (snd p)) ->
  match stored (track cfg init (map Emit h)) with
  | None => forall p, In p (delivered cfg h) -> candidate (c_tol cfg) p = false
  | Some (id, u) => exists p, In p (delivered cfg h) /\ id = i_id (fst p) /\ u = i_u (fst p) /\
      candidate (c_tol cfg) p = true /\
      forall q, In q (delivered cfg h) -> candidate (c_tol cfg) q = true -> uval q <= uval p
  end.
Proof. exact best_sign_flip. Qed.

(* Any affine objective transform (user objective = a * optimizer objective + b; sign flip: a = -1, scaling: a > 0).
   If every delivered candidate is PAIRED -- its user-domain result is the back-transform of the optimizer-domain
   result it is delivered with, which is what Chk_C12.paired_ok evaluates on every real event -- then the objective
   the tracker compared for the held result is exactly the forward transform of the objective the REPORTED (user)
   result shows, it is the lowest in the optimizer domain, and so the reported objective is the lowest (a > 0) resp.
   the highest (a < 0) of all candidates' reported objectives: "lowest in the optimizer domain" is a statement about
   the result Plan.get returns.  (Generalises C12_sign_flip; not a restatement: it combines the argmin invariant
   with the pairing hypothesis, and fails without it -- seeded change C12_k.) *)
Theorem C12_reported_is_optimum_under_pairing : forall cfg h a b, c_what cfg = Best ->
  (forall p, In p (delivered cfg h) -> candidate (c_tol cfg) p = true -> Paired a b p) ->
  match stored (track cfg init (map Emit h)) with
  | None => forall p, In p (delivered cfg h) -> candidate (c_tol cfg) p = false
  | Some (id, u) => exists p, In p (delivered cfg h) /\ id = i_id (fst p) /\ u = i_u (fst p) /\
      candidate (c_tol cfg) p = true /\ oval u == a * oval (snd p) + b /\
      (forall q, In q (delivered cfg h) -> candidate (c_tol cfg) q = true -> oval (snd p) <= oval (snd q)) /\
      (0 < a -> forall q, In q (delivered cfg h) -> candidate (c_tol cfg) q = true -> oval u <= uval q) /\
      (a < 0 -> forall q, In q (delivered cfg h) -> candidate (c_tol cfg) q = true -> uval q <= oval u)
  end.
Proof. exact best_affine. Qed.

(* Plan.set(tracker, "results", None) makes the tracker forget everything delivered before. *)
Theorem C12_reset : forall cfg st h1 h2,
  stored (track cfg st (h1 ++ Put None :: map Emit h2)) = stored (track cfg init (map Emit h2)).
Proof. exact reset_forgets. Qed.

(* BasicOptimizer (a fresh plan, one optimizer step `sid`, one 'best' tracker on {sid} with the given
   constraint_tolerance -- any, including None and 0) reports exactly the first argmin over ALL result
   pairs of the run's FINISHED_EVALUATION events. *)
Theorem C12_basic_optimizer : forall sid tol evs, basic_run sid evs ->
  match basic_optimizer sid tol evs with
  | None => forall p, In p (all_pairs evs) -> candidate tol p = false
  | Some id => exists d1 p d2, all_pairs evs = d1 ++ p :: d2 /\ id = i_id (fst p) /\
      candidate tol p = true /\
      (forall q, In q d1 -> candidate tol q = true -> oval (snd p) < oval (snd q)) /\
      (forall q, In q d2 -> candidate tol q = true -> oval (snd p) <= oval (snd q))
  end.
Proof. exact basic_optimizer_spec. Qed.

(* What the correspondence reads after the k-th operation (trace) is the state all theorems speak about. *)
Theorem C12_trace_is_track : forall cfg h st k, (k < length h)%nat ->
  nth k (trace cfg st h) None = stored_id (track cfg st (firstn (S k) h)).
Proof. exact trace_nth. Qed.

(* non-vacuity: a maximisation history with a NaN first result, a batch (worse, gradient), an infeasible
   better result, a better result from another source, a better result emitted on an unrelated plan, a
   feasible result at the tolerance, a tie, and a reset; a tracker on the nested plan 1 sees only the
   events emitted there *)
Example C12_example :
  let tol := Q_ 1 10000000000 in
  let F (o : oQ) (v : Q) := {| f_isfun := true; f_hasf := true; f_obj := o; f_viol := Some [Some [v]; None; None] |} in
  let G := {| f_isfun := false; f_hasf := false; f_obj := None; f_viol := None |} in
  let I id (o : oQ) v := {| i_id := id; i_u := F (option_map Qopp o) v; i_t := F o v |} in
  let E src path items := {| e_type := 2; e_src := src; e_path := path; e_has_results := true;
                             e_has_transformed := true; e_items := items |} in
  let h := [E 0%nat [0%nat] [I 0%nat None 0]; E 0%nat [0%nat] [I 1%nat (Some 3) 0; {| i_id := 2; i_u := G; i_t := G |}];
            E 0%nat [0%nat] [I 3%nat (Some 1) (Q_ 2 10000000000)]; E 7%nat [0%nat] [I 4%nat (Some 0) 0];
            E 0%nat [5%nat] [I 7%nat (Some 0) 0];
            E 0%nat [1%nat; 0%nat] [I 5%nat (Some 2) tol]; E 0%nat [0%nat] [I 6%nat (Some 2) 0]] in
  let best := {| c_what := Best; c_tol := Some tol; c_sources := [0%nat]; c_plan := 0 |} in
  let lastc := {| c_what := Last; c_tol := Some tol; c_sources := [0%nat]; c_plan := 0 |} in
  let inner := {| c_what := Best; c_tol := Some tol; c_sources := [0%nat]; c_plan := 1 |} in
  trace best init (map Emit h) = [None; Some 1; Some 1; Some 1; Some 1; Some 5; Some 5]%nat /\
  trace lastc init (map Emit h) = [Some 0; Some 1; Some 1; Some 1; Some 1; Some 5; Some 6]%nat /\
  trace inner init (map Emit h) = [None; None; None; None; None; Some 5; Some 5]%nat /\
  (forall p, In p (delivered best h) -> uval p == - oval (snd p)) /\
  basic_optimizer 0 (Some tol) (filter (fun ev => Nat.eqb (e_src ev) 0 && list_eqb Nat.eqb (e_path ev) [0%nat]) h) = Some 6%nat /\
  basic_run 0 (filter (fun ev => Nat.eqb (e_src ev) 0 && list_eqb Nat.eqb (e_path ev) [0%nat]) h) /\
  stored_id (track best init (map Emit h ++ Put None :: map Emit [E 0%nat [0%nat] [I 9%nat (Some 5) 0]])) = Some 9%nat.
Proof.
  cbv zeta. split; [vm_compute; reflexivity|]. split; [vm_compute; reflexivity|]. split; [vm_compute; reflexivity|].
  split; [|split; [vm_compute; reflexivity|split; [|vm_compute; reflexivity]]].
  - intros p Hp. vm_compute in Hp. repeat (destruct Hp as [<-|Hp]; [vm_compute; reflexivity|]). destruct Hp.
  - intros ev Hev. vm_compute in Hev. repeat (destruct Hev as [<-|Hev]; [split; reflexivity|]). destruct Hev.
Qed.

Print Assumptions C12_best_is_argmin.
Print Assumptions C12_held_is_feasible_and_lowest.
Print Assumptions C12_never_displaced.
Print Assumptions C12_unseen_is_identity.
Print Assumptions C12_only_seen_events_matter.
Print Assumptions C12_batch_is_sequence.
Print Assumptions C12_best_from_any_state.
Print Assumptions C12_put_new.
Print Assumptions C12_reput_noop.
Print Assumptions C12_best_monotone.
Print Assumptions C12_never_blocked.
Print Assumptions C12_last.
Print Assumptions C12_sign_flip.
Print Assumptions C12_reported_is_optimum_under_pairing.
Print Assumptions C12_reset.
Print Assumptions C12_basic_optimizer.
Print Assumptions C12_trace_is_track.
