(* Props/C12.v -- property C12: the tracked best result is the feasible optimum over the whole history.
   Only statements; each is closed by a lemma of Proofs/Tracker.v.  All statements are about the
   executable definitions of Model/Tracker.v (the ones Check/Chk_C12.v runs against the real
   DefaultTrackerHandler), for ARBITRARY histories, tolerances, source sets and result contents.

   Vocabulary (Model/Tracker.v):  delivered cfg h = the (user result, optimizer-domain partner) pairs of
   the FINISHED_EVALUATION events of h that carry results and come from a tracked source, in delivery
   order;  candidate tol p = the optimizer-domain partner is a function result with functions, no
   reported violation exceeds tol (None: no test), and its weighted objective is not NaN;
   oval = that objective;  stored = what Plan.get(tracker, "results") returns. *)
From Coq Require Import QArith ZArith List Bool Arith.
From Ropt Require Import Base.Num Model.Tracker Proofs.Tracker.
Import ListNotations.
Open Scope Q_scope.

(* After any history a 'best' tracker holds nothing iff no candidate was delivered; otherwise it holds
   (the user-domain object of) the FIRST candidate whose optimizer-domain objective is minimal:
   strictly below every earlier candidate, not above any later one. *)
Theorem C12_best_is_argmin : forall cfg h, c_what cfg = Best ->
  match stored (track cfg init (map Emit h)) with
  | None => forall p, In p (delivered cfg h) -> candidate (c_tol cfg) p = false
  | Some (id, u) => exists d1 p d2, delivered cfg h = d1 ++ p :: d2 /\ id = i_id (fst p) /\ u = i_u (fst p) /\
      candidate (c_tol cfg) p = true /\
      (forall q, In q d1 -> candidate (c_tol cfg) q = true -> oval (snd p) < oval (snd q)) /\
      (forall q, In q d2 -> candidate (c_tol cfg) q = true -> oval (snd p) <= oval (snd q))
  end.
Proof. exact best_held. Qed.

(* In the words of the property: the held result was delivered by a tracked source, is a function
   result with a defined objective, EVERY reported violation is within the tolerance, and its
   objective is the lowest among all feasible function results delivered so far. *)
Theorem C12_held_is_feasible_and_lowest : forall cfg h t id u, c_what cfg = Best -> c_tol cfg = Some t ->
  stored (track cfg init (map Emit h)) = Some (id, u) ->
  exists p, In p (delivered cfg h) /\ id = i_id (fst p) /\ u = i_u (fst p) /\
    f_isfun (snd p) = true /\ f_hasf (snd p) = true /\ (exists o, f_obj (snd p) = Some o) /\
    (forall vs, f_viol (snd p) = Some vs -> forall l, In (Some l) vs -> forall x, In x l -> x <= t) /\
    (forall q, In q (delivered cfg h) -> candidate (Some t) q = true -> oval (snd p) <= oval (snd q)).
Proof. exact best_held_feasible. Qed.

(* Frame, from ANY handler state (so at any position, including the first): an event none of whose
   tracked deliveries is a candidate -- gradients, results without functions, NaN objectives,
   infeasible results, another source, another event type, no "results" -- changes nothing. *)
Theorem C12_never_displaced : forall cfg st ev, c_what cfg = Best ->
  (forall p, In p (delivered cfg [ev]) -> candidate (c_tol cfg) p = false) ->
  stored (handle_event cfg st ev) = stored st /\ resync (handle_event cfg st ev) = resync st.
Proof. exact best_frame. Qed.

(* ... and never blocks: a valid result delivered after any number of such events is retained. *)
Theorem C12_never_blocked : forall cfg h ev p, c_what cfg = Best ->
  (forall q, In q (delivered cfg h) -> candidate (c_tol cfg) q = false) ->
  delivered cfg [ev] = [p] -> candidate (c_tol cfg) p = true ->
  stored (track cfg init (map Emit (h ++ [ev]))) = Some (i_id (fst p), i_u (fst p)).
Proof. exact best_never_blocked. Qed.

(* A 'last' tracker holds the most recent feasible function result (from any start state). *)
Theorem C12_last : forall cfg h st, c_what cfg = Last ->
  (exists d1 p d2, delivered cfg h = d1 ++ p :: d2 /\ last_candidate (c_tol cfg) p = true /\
      (forall q, In q d2 -> last_candidate (c_tol cfg) q = false) /\
      stored (track cfg st (map Emit h)) = Some (i_id (fst p), i_u (fst p)))
  \/ ((forall q, In q (delivered cfg h) -> last_candidate (c_tol cfg) q = false) /\
      stored (track cfg st (map Emit h)) = stored st).
Proof. exact last_held. Qed.

(* Maximisation: when the user-domain objective is minus the optimizer-domain one, the retained
   result MAXIMISES the user objective over the candidates. *)
Theorem C12_sign_flip : forall cfg h, c_what cfg = Best ->
  (forall p, In p (delivered cfg h) -> uval p == - oval (snd p)) ->
  match stored (track cfg init (map Emit h)) with
  | None => forall p, In p (delivered cfg h) -> candidate (c_tol cfg) p = false
  | Some (id, u) => exists p, In p (delivered cfg h) /\ id = i_id (fst p) /\ u = i_u (fst p) /\
      candidate (c_tol cfg) p = true /\
      forall q, In q (delivered cfg h) -> candidate (c_tol cfg) q = true -> uval q <= uval p
  end.
Proof. exact best_sign_flip. Qed.

(* Plan.set(tracker, "results", None) makes the tracker forget everything delivered before. *)
Theorem C12_reset : forall cfg st h1 h2,
  stored (track cfg st (h1 ++ Put None :: map Emit h2)) = stored (track cfg init (map Emit h2)).
Proof. exact reset_forgets. Qed.

(* BasicOptimizer (one optimizer step `sid`, one 'best' tracker on {sid}) reports exactly the first
   argmin over ALL result pairs of the run's FINISHED_EVALUATION events. *)
Theorem C12_basic_optimizer : forall sid tol evs, (forall ev, In ev evs -> e_src ev = sid) ->
  match basic_optimizer sid tol evs with
  | None => forall p, In p (all_pairs evs) -> candidate (Some tol) p = false
  | Some id => exists d1 p d2, all_pairs evs = d1 ++ p :: d2 /\ id = i_id (fst p) /\
      candidate (Some tol) p = true /\
      (forall q, In q d1 -> candidate (Some tol) q = true -> oval (snd p) < oval (snd q)) /\
      (forall q, In q d2 -> candidate (Some tol) q = true -> oval (snd p) <= oval (snd q))
  end.
Proof. exact basic_optimizer_spec. Qed.

(* non-vacuity: a maximisation history with a NaN first result, an infeasible better result, a better
   result from another source, a gradient, a tie and a reset *)
Example C12_example :
  let tol := Q_ 1 10000000000 in
  let F (o : oQ) (v : Q) := {| f_isfun := true; f_hasf := true; f_obj := o; f_viol := Some [Some [v]; None; None] |} in
  let G := {| f_isfun := false; f_hasf := false; f_obj := None; f_viol := None |} in
  let I id (o : oQ) v := {| i_id := id; i_u := F (option_map Qopp o) v; i_t := F o v |} in
  let E src items := {| e_type := 2; e_src := src; e_has_results := true; e_has_transformed := true; e_items := items |} in
  let h := [E 0%nat [I 0%nat None 0]; E 0%nat [I 1%nat (Some 3) 0; {| i_id := 2; i_u := G; i_t := G |}];
            E 0%nat [I 3%nat (Some 1) (Q_ 2 10000000000)]; E 7%nat [I 4%nat (Some 0) 0];
            E 0%nat [I 5%nat (Some 2) tol]; E 0%nat [I 6%nat (Some 2) 0]] in
  let best := {| c_what := Best; c_tol := Some tol; c_sources := [0%nat] |} in
  let lastc := {| c_what := Last; c_tol := Some tol; c_sources := [0%nat] |} in
  trace best init (map Emit h) = [None; Some 1; Some 1; Some 1; Some 5; Some 5]%nat /\
  trace lastc init (map Emit h) = [Some 0; Some 1; Some 1; Some 1; Some 5; Some 6]%nat /\
  (forall p, In p (delivered best h) -> uval p == - oval (snd p)) /\
  basic_optimizer 0 tol h = Some 5%nat /\
  stored_id (track best init (map Emit h ++ Put None :: map Emit [E 0%nat [I 9%nat (Some 5) 0]])) = Some 9%nat.
Proof.
  cbv zeta. split; [vm_compute; reflexivity|]. split; [vm_compute; reflexivity|].
  split; [|split; vm_compute; reflexivity].
  intros p Hp. vm_compute in Hp. repeat (destruct Hp as [<-|Hp]; [vm_compute; reflexivity|]). destruct Hp.
Qed.

Print Assumptions C12_best_is_argmin.
Print Assumptions C12_held_is_feasible_and_lowest.
Print Assumptions C12_never_displaced.
Print Assumptions C12_never_blocked.
Print Assumptions C12_last.
Print Assumptions C12_sign_flip.
Print Assumptions C12_reset.
Print Assumptions C12_basic_optimizer.
