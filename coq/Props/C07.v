(* Props/C07.v -- property C07: values handed to the optimizer match the ensemble for any request order.
   Only statements; each is closed by a lemma of Proofs/ScipyCache.v.  The model (Model/ScipyCache.v) is
   the SciPy plug-in's point cache; [Fp], [Gp] are the oracle ensemble functions / gradients at a pool
   point, [Xp] its coordinates; every theorem holds for all oracles, configurations and request lists. *)
From Coq Require Import QArith List Bool Arith String.
From Ropt Require Import Base.Num Base.ListX Gen.Generated Model.ScipyProblem Model.ScipyCache Proofs.ScipyCache.
Import ListNotations.
Local Open Scope nat_scope.

(* every value returned for a point is the oracle's value at that point ([expected] is computed from the
   oracle alone: objective, gradient, every normalised constraint value and Jacobian row, batches),
   whichever callable is invoked first at a new point and whatever was requested before *)
Theorem C07_values_fresh : forall Fp Gp Xp c ops,
  Forall (fun t : op * list inv * ret => snd t = expected Fp Gp Xp c (fst (fst t)))
         (run Fp Gp Xp c empty ops).
Proof. exact values_fresh. Qed.

(* every optimizer-callback invocation caused by a request is for the requested point *)
Theorem C07_evaluations_at_requested_point : forall Fp Gp Xp c ops,
  Forall (fun t : op * list inv * ret => forall iv, In iv (snd (fst t)) -> pt_of iv = op_pt (fst (fst t)))
         (run Fp Gp Xp c empty ops).
Proof. exact calls_at_point. Qed.

(* while the point does not change (after any history [pre]) functions are requested from the callback
   at most once and gradients at most once *)
Theorem C07_no_recompute : forall Fp Gp Xp c pre ops x,
  Forall (fun o => op_pt o = x) ops ->
  let s := exec Fp Gp Xp c empty pre in
  count_rf (all_calls (run Fp Gp Xp c s ops)) <= 1 /\ count_rg (all_calls (run Fp Gp Xp c s ops)) <= 1.
Proof. exact no_recompute. Qed.

(* a method of the generated _NO_GRADIENT table never causes a gradient evaluation, for every
   speculative / split_evaluations setting and every constraint configuration *)
Theorem C07_no_gradient_for_gradient_free : forall p spec split c,
  In (p_method p) scipy_no_gradient -> make_config p spec split = Some c ->
  forall Fp Gp Xp ops iv, In iv (all_calls (run Fp Gp Xp c empty ops)) -> rg_of iv = false.
Proof.
  intros p spec split c Hin Hc Fp Gp Xp ops. apply no_gradient_calls.
  rewrite (make_config_nograd _ _ _ _ Hc). apply mem_In. exact Hin.
Qed.

(* the table is well formed: every no-gradient method is a supported method *)
Theorem C07_no_gradient_table_supported :
  forallb (fun m => mem m scipy_supported_methods) scipy_no_gradient = true.
Proof. vm_compute. reflexivity. Qed.

(* with split_evaluations no single evaluation computes both functions and gradients *)
Theorem C07_split : forall Fp Gp Xp c ops, c_split c = true ->
  forall iv, In iv (all_calls (run Fp Gp Xp c empty ops)) -> rf_of iv && rg_of iv = false.
Proof. exact split_calls. Qed.

(* speculative changes only the evaluations, never the values returned *)
Theorem C07_speculative_values : forall Fp Gp Xp c ops,
  map (fun t : op * list inv * ret => snd t) (run Fp Gp Xp (with_spec true c) empty ops) =
  map (fun t : op * list inv * ret => snd t) (run Fp Gp Xp (with_spec false c) empty ops).
Proof. exact speculative_values. Qed.

(* a request at a point different from the cached one behaves exactly as on a fresh plug-in: nothing of
   the old cache is read ... *)
Theorem C07_new_point_reads_nothing : forall Fp Gp Xp c s o y,
  cx s = Some y -> op_pt o <> y ->
  snd (fst (step Fp Gp Xp c s o)) = snd (fst (step Fp Gp Xp c empty o)) /\
  snd (step Fp Gp Xp c s o) = snd (step Fp Gp Xp c empty o).
Proof. exact step_new_point. Qed.

(* ... in particular a batch after a single point, or a batch of another size *)
Theorem C07_shape_change_invalidates : forall Fp Gp Xp c s o y,
  cx s = Some y -> shape (op_pt o) <> shape y ->
  snd (fst (step Fp Gp Xp c s o)) = snd (fst (step Fp Gp Xp c empty o)) /\
  snd (step Fp Gp Xp c s o) = snd (step Fp Gp Xp c empty o).
Proof. intros Fp Gp Xp c s o y Hc Hs. apply (step_new_point Fp Gp Xp c s o y Hc). apply shape_neq. exact Hs. Qed.

(* start() called again on the same plug-in object: whatever state [s] the object was left in (any state,
   not only a reachable one), after start() every value returned is again the oracle's value at the
   requested point and evaluations happen at the requested point only ... *)
Theorem C07_restart_values_fresh : forall Fp Gp Xp c s ops,
  Forall (fun t : op * list inv * ret =>
            snd t = expected Fp Gp Xp c (fst (fst t)) /\
            forall iv, In iv (snd (fst t)) -> pt_of iv = op_pt (fst (fst t)))
         (run Fp Gp Xp c (restart s) ops).
Proof.
  intros Fp Gp Xp c s ops.
  pose proof (values_fresh_restart Fp Gp Xp c s ops) as A. pose proof (calls_at_point_restart Fp Gp Xp c s ops) as B.
  rewrite Forall_forall in *. intros t Ht. split; [apply A | apply B]; exact Ht.
Qed.

(* ... and nothing is requested twice while the point does not change *)
Theorem C07_restart_no_recompute : forall Fp Gp Xp c s0 pre ops x,
  Forall (fun o => op_pt o = x) ops ->
  let s := exec Fp Gp Xp c (restart s0) pre in
  count_rf (all_calls (run Fp Gp Xp c s ops)) <= 1 /\ count_rg (all_calls (run Fp Gp Xp c s ops)) <= 1.
Proof. exact no_recompute_restart. Qed.

(* a chain of runs on ONE plug-in object and ONE EnsembleEvaluator ([run_chain]: start() once per request
   list, the evaluator's function cache carried over): every run returns, request by request, the oracle's
   values; a gradient-free method never causes a gradient evaluation and split_evaluations never computes
   both, in every run of the chain *)
Theorem C07_chain_values_fresh : forall Fp Gp Xp c seqs s ec,
  Forall2 (fun ops res => map fst res = map (expected Fp Gp Xp c) ops) seqs (run_chain Fp Gp Xp c s ec seqs).
Proof. exact chain_values_fresh. Qed.

Theorem C07_chain_evaluations : forall Fp Gp Xp c seqs s ec res r ce,
  In res (run_chain Fp Gp Xp c s ec seqs) -> In r res -> In ce (snd r) ->
  (c_nograd c = true -> rg_of (fst ce) = false) /\
  (c_split c = true -> rf_of (fst ce) && rg_of (fst ce) = false).
Proof. exact chain_calls_good. Qed.

(* EnsembleEvaluator.calculate: a gradient-only request right after a function request at the same point
   evaluates perturbations only (the functions are not evaluated again); at another point nothing is reused *)
Theorem C07_evaluator_cache_reuse : forall ec i,
  let (ec1, e1) := calculate ec (Single i, true, false) in
  e1 = EvF (Single i) /\ calculate ec1 (Single i, false, true) = (ec1, EvG i).
Proof. exact evaluator_cache_reuse. Qed.

Theorem C07_evaluator_no_stale_reuse : forall ec i j, i <> j ->
  let (ec1, _) := calculate ec (Single j, true, false) in
  snd (calculate ec1 (Single i, false, true)) = EvFG i.
Proof. exact evaluator_no_stale_reuse. Qed.

(* non-vacuity: SLSQP-like configuration with one two-sided non-linear constraint (two rows) and a linear
   row; a constraint value / Jacobian asked first at a new point is the value at that point *)
Example C07_example :
  let Fp := fun i => (inject_Z (Z.of_nat i), [inject_Z (Z.of_nat (10 * i + 2))]) in
  let Gp := fun i => ([inject_Z (Z.of_nat i); 1%Q], [[2%Q; inject_Z (Z.of_nat i)]]) in
  let Xp := fun i => [inject_Z (Z.of_nat i); 1%Q] in
  let c := {| c_spec := false; c_split := true; c_nograd := false; c_has_nl := true;
              c_rows := normalize_bounds false [(Fin 1%Q, Fin 30%Q); (NInf, Fin 4%Q)];
              c_lin := Some [[1%Q; 1%Q]] |} in
  map (fun t : op * list inv * ret => (snd (fst t), snd t))
      (run Fp Gp Xp c empty [Obj (Single 0); Con 1 (Single 2); Jac 2 (Single 2); Grad (Single 2); Con 0 (Single 2)])
  = [ ([(Single 0, true, false)], RVec [0%Q]);
      ([(Single 2, true, false)], RVec [- (22 - 30)%Q]);
      ([(Single 2, false, true)], RVec [- 1%Q; - 1%Q]);
      ([], RVec [2%Q; 1%Q]);
      ([], RVec [(22 - 1)%Q]) ].
Proof. vm_compute. reflexivity. Qed.

Print Assumptions C07_values_fresh.
Print Assumptions C07_evaluations_at_requested_point.
Print Assumptions C07_no_recompute.
Print Assumptions C07_no_gradient_for_gradient_free.
Print Assumptions C07_no_gradient_table_supported.
Print Assumptions C07_split.
Print Assumptions C07_speculative_values.
Print Assumptions C07_new_point_reads_nothing.
Print Assumptions C07_shape_change_invalidates.
Print Assumptions C07_restart_values_fresh.
Print Assumptions C07_restart_no_recompute.
Print Assumptions C07_chain_values_fresh.
Print Assumptions C07_chain_evaluations.
Print Assumptions C07_evaluator_cache_reuse.
Print Assumptions C07_evaluator_no_stale_reuse.
