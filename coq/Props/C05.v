(* Props/C05.v -- property C05: the sort filter selects exactly the configured rank window of the successful
   realizations.  Only statements; each is closed by a lemma of Proofs/Filters.v / Proofs/SortX.v.

   Vocabulary (Model/Filters.v, section "specifications"; none of it mentions the sort):
     succeeded failed r        r is a successful realization
     precedes values s r       value s < value r, or equal values and s < r   (the model's tie rule; the
                               implementation's tie order is unspecified and every order is accepted by the checker)
     rank values failed r      number of successful s with [precedes values s r]  = ascending rank of r
     selected values failed first last r = succeeded r && first <= rank r <= last *)
From Coq Require Import String QArith ZArith Bool Arith List.
From Ropt Require Import Base.Num Base.ListX Model.Filters Proofs.SortX Proofs.Filters.
Import ListNotations.

(* the weight of r is its configured weight if r is successful with rank in [first, last], the literal 0 otherwise;
   in particular failed realizations get 0 and are never counted in a rank (for every size, mask, values, window) *)
Theorem C05_window : forall values cfgw failed first last r,
  length failed = length values -> length cfgw = length failed ->
  nth r (sort_and_select values cfgw failed first last) 0%Q =
    if selected values failed first last r then nth r cfgw 0%Q else 0%Q.
Proof. exact sort_and_select_spec. Qed.

(* the model's ranking lists exactly the successful realizations, each once, in ascending order of the value,
   and the position of a realization in it is its rank *)
Theorem C05_ranking : forall failed values, length failed = length values ->
  Permutation.Permutation (ranked failed values) (successes failed) /\
  Sorted.StronglySorted (fun s r => precedes values s r = true) (ranked failed values) /\
  forall k, (k < length (ranked failed values))%nat -> rank values failed (nth k (ranked failed values) 0%nat) = k.
Proof.
  intros failed values H. split; [apply ranked_perm; exact H|]. split; [apply ranked_sorted; exact H|].
  intros k Hk. apply rank_nth; assumption.
Qed.

(* objective flavour (the sort value is the weighted sum of the chosen objectives when several are configured) and
   constraint flavour: either some selected realization has a positive configured weight and the filter returns the
   window weights, or none has and the evaluation ends with TOO_FEW_REALIZATIONS -- never a value *)
Theorem C05_empty_is_too_few_objective : forall cfg sort first last objs cns,
  length (c_rw cfg) = length objs ->
  let values := map (objective_key (c_ow cfg) sort) objs in
  let failed := col0_failed objs in
  ((exists r, selected values failed first last r = true /\ (0 < nth r (c_rw cfg) 0)%Q) /\
   get_weights cfg (SortObjective sort first last) objs cns = Ok (sort_and_select values (c_rw cfg) failed first last)) \/
  (~ (exists r, selected values failed first last r = true /\ (0 < nth r (c_rw cfg) 0)%Q) /\
   get_weights cfg (SortObjective sort first last) objs cns = Abort too_few).
Proof.
  intros cfg sort first last objs cns H values failed.
  apply sort_outcome; [reflexivity | |]; unfold values, failed; rewrite col0_failed_length, ?map_length; auto.
Qed.

Theorem C05_empty_is_too_few_constraint : forall cfg sort first last objs c,
  length (c_rw cfg) = length c ->
  let values := constraint_col sort c in
  let failed := col0_failed c in
  ((exists r, selected values failed first last r = true /\ (0 < nth r (c_rw cfg) 0)%Q) /\
   get_weights cfg (SortConstraint sort first last) objs (Some c) = Ok (sort_and_select values (c_rw cfg) failed first last)) \/
  (~ (exists r, selected values failed first last r = true /\ (0 < nth r (c_rw cfg) 0)%Q) /\
   get_weights cfg (SortConstraint sort first last) objs (Some c) = Abort too_few).
Proof.
  intros cfg sort first last objs c H values failed.
  apply sort_outcome; [reflexivity | |]; unfold values, failed, constraint_col; rewrite col0_failed_length, ?map_length; auto.
Qed.

(* windows outside the ensemble are rejected when the filter is constructed, and then nothing is evaluated *)
Theorem C05_range_rejected : forall cfg sort first last,
  (create cfg (SortObjective sort first last) = Raise "ConfigError" <-> ~ (first <= last /\ last < length (c_rw cfg))%nat) /\
  (create cfg (SortObjective sort first last) = Ok tt <-> (first <= last /\ last < length (c_rw cfg))%nat).
Proof.
  intros cfg sort first last. rewrite create_sort_objective, <- check_range_spec.
  destruct (check_range _ first last); split; split; intro H; try reflexivity; try discriminate; try congruence;
    exfalso; apply H; reflexivity.
Qed.

Theorem C05_range_rejected_constraint : forall cfg sort first last,
  (create cfg (SortConstraint sort first last) = Raise "ConfigError" <-> ~ (first <= last /\ last < length (c_rw cfg))%nat) /\
  (create cfg (SortConstraint sort first last) = Ok tt <-> (first <= last /\ last < length (c_rw cfg))%nat).
Proof.
  intros cfg sort first last. rewrite create_sort_constraint, <- check_range_spec.
  destruct (check_range _ first last); split; split; intro H; try reflexivity; try discriminate; try congruence;
    exfalso; apply H; reflexivity.
Qed.

Theorem C05_rejected_before_evaluation : forall cfg filters ofm cfm rmin objs cns m s,
  In m filters -> create cfg m = Raise s ->
  exists s', evaluate cfg filters ofm cfm rmin objs cns = Raise s'.
Proof. exact evaluate_rejects. Qed.

(* each filter's vector lands on exactly the objective / constraint rows mapped to it; every other row keeps the
   configured weights (rows "in force": the reported matrix, or the configured weights when none is reported) *)
Theorem C05_rows_objectives : forall cfg filters fm cfm objs cns ow cw,
  length fm = length (c_ow cfg) ->
  filtered_weights cfg filters (Some fm) cfm objs cns = Ok (ow, cw) ->
  forall j, (j < length fm)%nat ->
    match znth (nth j fm (-1)%Z) filters with
    | Some m => get_weights cfg m objs cns = Ok (nth j (default_matrix ow (length (c_ow cfg)) (c_rw cfg)) [])
    | None => nth j (default_matrix ow (length (c_ow cfg)) (c_rw cfg)) [] = c_rw cfg
    end.
Proof. exact filtered_rows_objectives. Qed.

Theorem C05_rows_constraints : forall cfg filters ofm fm objs cns ow cw,
  length fm = length (c_lower cfg) ->
  filtered_weights cfg filters ofm (Some fm) objs cns = Ok (ow, cw) ->
  forall j, (j < length fm)%nat ->
    match znth (nth j fm (-1)%Z) filters with
    | Some m => get_weights cfg m objs cns = Ok (nth j (default_matrix cw (length (c_lower cfg)) (c_rw cfg)) [])
    | None => nth j (default_matrix cw (length (c_lower cfg)) (c_rw cfg)) [] = c_rw cfg
    end.
Proof. exact filtered_rows_constraints. Qed.

(* non-vacuity: 4 realizations, the second failed, window [0,1] over the 3 successes; realization 2 (value 2, rank 0)
   and realization 0 (value 3, rank 1) are selected, realization 2 has configured weight 0 *)
Example C05_example :
  let values := [Q_ 3 1; Q_ 1 1; Q_ 2 1; Q_ 5 1] in
  let failed := [false; true; false; false] in
  let cfgw := [Q_ 1 4; Q_ 1 2; Q_ 0 1; Q_ 1 4] in
  length failed = length values /\ length cfgw = length failed /\
  map (rank values failed) [0; 2; 3]%nat = [1; 0; 2]%nat /\
  sort_and_select values cfgw failed 0 1 = [Q_ 1 4; Q_ 0 1; Q_ 0 1; Q_ 0 1] /\
  sort_and_select values cfgw failed 2 2 = [Q_ 0 1; Q_ 0 1; Q_ 0 1; Q_ 1 4] /\
  get_weights {| c_rw := cfgw; c_ow := [Q_ 1 1]; c_lower := []; c_upper := [] |} (SortObjective [0%nat] 1 1)
              (map (fun v => [Some v]) [Q_ 3 1; Q_ 1 1; Q_ 2 1; Q_ 5 1]) None = Abort 1%Z.
Proof. vm_compute. repeat split; reflexivity. Qed.

Print Assumptions C05_window.
Print Assumptions C05_ranking.
Print Assumptions C05_empty_is_too_few_objective.
Print Assumptions C05_empty_is_too_few_constraint.
Print Assumptions C05_range_rejected.
Print Assumptions C05_range_rejected_constraint.
Print Assumptions C05_rejected_before_evaluation.
Print Assumptions C05_rows_objectives.
Print Assumptions C05_rows_constraints.
