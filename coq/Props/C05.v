(* Props/C05.v -- property C05: the sort filter selects exactly the configured rank window of the successful
   realizations.  Only statements; each is closed by a lemma of Proofs/Filters.v / Proofs/SortX.v.

   Vocabulary (Model/Filters.v, section "specifications"; none of it mentions the sort):
     succeeded failed r        r is a successful realization
     precedes values s r       value s < value r, or equal values and s < r   (the model's tie rule; the
                               implementation's tie order is unspecified and every order is accepted by the checker)
     rank values failed r      number of successful s with [precedes values s r]  = ascending rank of r
     selected values failed first last r = succeeded r && first <= rank r <= last *)
From Coq Require Import String QArith ZArith Bool Arith List Lia.
From Ropt Require Import Base.Num Base.ListX Model.Filters Proofs.SortX Proofs.Filters Proofs.FiltersTies Proofs.FiltersSeq Proofs.FiltersAccept Proofs.FiltersOrder Proofs.FiltersCut.
Import ListNotations.

(* the weight of r is its configured weight if r is successful with rank in [first, last], the literal 0 otherwise;
   in particular failed realizations get 0 and are never counted in a rank (for every size, mask, values, window) *)
Theorem C05_window : forall values cfgw failed first last r,
  length failed = length values -> length cfgw = length failed ->
  nth r (sort_and_select values cfgw failed first last) 0%Q =
    if selected values failed first last r then nth r cfgw 0%Q else 0%Q.
Proof. exact sort_and_select_spec. Qed.

(* the model's ranking lists exactly the successful realizations, each once, in ascending order of the value,
   and the position of a realization in it is its rank *)
Theorem C05_ranking : forall failed values, length failed = length values ->
  Permutation.Permutation (ranked failed values) (successes failed) /\
  Sorted.StronglySorted (fun s r => precedes values s r = true) (ranked failed values) /\
  forall k, (k < length (ranked failed values))%nat -> rank values failed (nth k (ranked failed values) 0%nat) = k.
Proof.
  intros failed values H. split; [apply ranked_perm; exact H|]. split; [apply ranked_sorted; exact H|].
  intros k Hk. apply rank_nth; assumption.
Qed.

(* objective flavour (the sort value is the weighted sum of the chosen objectives when several are configured) and
   constraint flavour: either some selected realization has a positive configured weight and the filter returns the
   window weights, or none has and the evaluation ends with TOO_FEW_REALIZATIONS -- never a value *)
Theorem C05_empty_is_too_few_objective : forall cfg sort first last objs cns,
  length (c_rw cfg) = length objs ->
  let values := map (objective_key (c_ow cfg) sort) objs in
  let failed := col0_failed objs in
  ((exists r, selected values failed first last r = true /\ (0 < nth r (c_rw cfg) 0)%Q) /\
   get_weights cfg (SortObjective sort first last) objs cns = Ok (sort_and_select values (c_rw cfg) failed first last)) \/
  (~ (exists r, selected values failed first last r = true /\ (0 < nth r (c_rw cfg) 0)%Q) /\
   get_weights cfg (SortObjective sort first last) objs cns = Abort too_few).
Proof.
  intros cfg sort first last objs cns H values failed.
  apply sort_outcome; [reflexivity | |]; unfold values, failed; rewrite col0_failed_length, ?map_length; auto.
Qed.

Theorem C05_empty_is_too_few_constraint : forall cfg sort first last objs c,
  length (c_rw cfg) = length c ->
  let values := constraint_col sort c in
  let failed := col0_failed c in
  ((exists r, selected values failed first last r = true /\ (0 < nth r (c_rw cfg) 0)%Q) /\
   get_weights cfg (SortConstraint sort first last) objs (Some c) = Ok (sort_and_select values (c_rw cfg) failed first last)) \/
  (~ (exists r, selected values failed first last r = true /\ (0 < nth r (c_rw cfg) 0)%Q) /\
   get_weights cfg (SortConstraint sort first last) objs (Some c) = Abort too_few).
Proof.
  intros cfg sort first last objs c H values failed.
  apply sort_outcome; [reflexivity | |]; unfold values, failed, constraint_col; rewrite col0_failed_length, ?map_length; auto.
Qed.

(* windows outside the ensemble are rejected when the filter is constructed, and then nothing is evaluated *)
Theorem C05_range_rejected : forall cfg sort first last,
  (create cfg (SortObjective sort first last) = Raise "ConfigError" <-> ~ (first <= last /\ last < length (c_rw cfg))%nat) /\
  (create cfg (SortObjective sort first last) = Ok tt <-> (first <= last /\ last < length (c_rw cfg))%nat).
Proof.
  intros cfg sort first last. rewrite create_sort_objective, <- check_range_spec.
  destruct (check_range _ first last); split; split; intro H; try reflexivity; try discriminate; try congruence;
    exfalso; apply H; reflexivity.
Qed.

Theorem C05_range_rejected_constraint : forall cfg sort first last,
  (create cfg (SortConstraint sort first last) = Raise "ConfigError" <-> ~ (first <= last /\ last < length (c_rw cfg))%nat) /\
  (create cfg (SortConstraint sort first last) = Ok tt <-> (first <= last /\ last < length (c_rw cfg))%nat).
Proof.
  intros cfg sort first last. rewrite create_sort_constraint, <- check_range_spec.
  destruct (check_range _ first last); split; split; intro H; try reflexivity; try discriminate; try congruence;
    exfalso; apply H; reflexivity.
Qed.

Theorem C05_rejected_before_evaluation : forall cfg filters ofm cfm rmin objs cns m s,
  In m filters -> create cfg m = Raise s ->
  exists s', evaluate cfg filters ofm cfm rmin objs cns = Raise s'.
Proof. exact evaluate_rejects. Qed.

(* each filter's vector lands on exactly the objective / constraint rows mapped to it; every other row keeps the
   configured weights (rows "in force": the reported matrix, or the configured weights when none is reported) *)
Theorem C05_rows_objectives : forall cfg filters fm cfm objs cns ow cw,
  length fm = length (c_ow cfg) ->
  filtered_weights cfg filters (Some fm) cfm objs cns = Ok (ow, cw) ->
  forall j, (j < length fm)%nat ->
    match znth (nth j fm (-1)%Z) filters with
    | Some m => get_weights cfg m objs cns = Ok (nth j (default_matrix ow (length (c_ow cfg)) (c_rw cfg)) [])
    | None => nth j (default_matrix ow (length (c_ow cfg)) (c_rw cfg)) [] = c_rw cfg
    end.
Proof. exact filtered_rows_objectives. Qed.

Theorem C05_rows_constraints : forall cfg filters ofm fm objs cns ow cw,
  length fm = length (c_lower cfg) ->
  filtered_weights cfg filters ofm (Some fm) objs cns = Ok (ow, cw) ->
  forall j, (j < length fm)%nat ->
    match znth (nth j fm (-1)%Z) filters with
    | Some m => get_weights cfg m objs cns = Ok (nth j (default_matrix cw (length (c_lower cfg)) (c_rw cfg)) [])
    | None => nth j (default_matrix cw (length (c_lower cfg)) (c_rw cfg)) [] = c_rw cfg
    end.
Proof. exact filtered_rows_constraints. Qed.

(* np.argsort fixes nothing about the order of tied values.  For EVERY ranking idx it may return (select_along is the
   code of _sort_and_select run along idx; sort_and_select is select_along along the model's ranking): exactly
   min(last+1, #successes) - first realizations are selected; a successful realization whose whole tie group lies
   inside the rank window carries its configured weight, one whose tie group lies outside carries the literal 0,
   any other carries one of the two; failed realizations carry the literal 0 (grp_lo r / grp_ge r = number of
   successful realizations with a smaller / smaller-or-equal value: the ranks r can take are grp_lo r .. grp_ge r - 1) *)
Theorem C05_tie_robust : forall values cfgw failed idx first last,
  valid_order values failed idx -> length cfgw = length failed ->
  let w := select_along idx cfgw first last in
  length (window first last idx) = (Nat.min (last + 1) (count_ok failed) - first)%nat /\
  forall r,
    (succeeded failed r = false -> nth r w 0%Q = 0%Q) /\
    (succeeded failed r = true -> (first <= grp_lo values failed r)%nat -> (grp_ge values failed r <= last + 1)%nat ->
       nth r w 0%Q = nth r cfgw 0%Q) /\
    (succeeded failed r = true -> (grp_ge values failed r <= first)%nat \/ (last < grp_lo values failed r)%nat ->
       nth r w 0%Q = 0%Q) /\
    (nth r w 0%Q = nth r cfgw 0%Q \/ nth r w 0%Q = 0%Q).
Proof. exact select_along_tie_robust. Qed.

Theorem C05_model_is_along : forall values cfgw failed first last,
  sort_and_select values cfgw failed first last = select_along (ranked failed values) cfgw first last.
Proof. exact sort_and_select_along. Qed.

(* through the evaluator: values are produced only if EVERY filter in use selected a realization with positive weight;
   otherwise the evaluation ends with TOO_FEW_REALIZATIONS (no other exit code can come from a filter), caused by a
   filter in use whose window holds no positive weight -- a window emptied by failures never produces a value and
   never puts weight on a failed realization (C05_window) *)
Theorem C05_emptied_window_is_too_few : forall cfg filters ofm cfm rmin objs0 cns0,
  let objs := fst (propagate_nan objs0 cns0) in
  let cns := snd (propagate_nan objs0 cns0) in
  match evaluate cfg filters ofm cfm rmin objs0 cns0 with
  | Ok _ => forall k m, nth_error filters k = Some m -> in_use ofm cfm (Z.of_nat k) = true ->
                        exists w, get_weights cfg m objs cns = Ok w
  | Abort c => c = too_few /\
               exists k m, nth_error filters k = Some m /\ in_use ofm cfm (Z.of_nat k) = true /\
                           get_weights cfg m objs cns = Abort too_few
  | Raise _ => True
  end.
Proof. exact evaluate_in_use. Qed.

(* the value reported for objective j is the mean estimator applied with the vector of the filter mapped to j (the
   configured weights when none is mapped), failed realizations zeroed: weights applied to exactly that function *)
Theorem C05_reported_value : forall cfg filters fm cfm rmin objs0 cns0 e j,
  evaluate cfg filters (Some fm) cfm rmin objs0 cns0 = Ok e ->
  length fm = length (c_ow cfg) -> (j < length fm)%nat ->
  let objs := fst (propagate_nan objs0 cns0) in
  let cns := snd (propagate_nan objs0 cns0) in
  let failed := col0_failed objs in
  (rmin <= count_ok failed)%nat -> (0 < count_ok failed)%nat ->
  exists fo co w,
    e_functions e = Some (fo, co) /\
    nth j fo None = mean_value w failed (column j objs) /\
    match znth (nth j fm (-1)%Z) filters with
    | Some m => get_weights cfg m objs cns = Ok w
    | None => w = c_rw cfg
    end.
Proof. exact evaluate_objective_value. Qed.

(* ANY sequence of calculate() calls on one evaluator object (function-only for a vector or a batch of vectors,
   gradient-only -- re-using the cached function result when the point is the cached one --, and combined requests, in
   any order, continuing after aborted calls): result number j of answer i is that of a fresh evaluation of the point it
   is about (answer_fresh / result_fresh / result_point, Model/Filters.v), and an aborted call is one for which the
   fresh evaluation of one of its points aborts.  The cache never shows, and a batch is the sequence of its vectors. *)
Theorem C05_any_request_order : forall env reqs i rq,
  nth_error reqs i = Some rq ->
  exists a, nth_error (run_direct env None reqs) i = Some a /\ answer_fresh env rq a.
Proof. intros env reqs i rq H. exact (run_direct_spec env reqs None I i rq H). Qed.

(* weights in force for gradients: the matrices reported with the gradient results of a point are those of the function
   evaluation of that point (C05_rows_*: each row is the mapped filter's vector for the function values), and the
   failure flags add exactly the realizations with too few successful perturbations *)
Theorem C05_gradient_weights_in_force : forall env k g,
  fresh_gradient env k = Ok g ->
  exists e, fresh_function env k = Ok e /\ g_ow g = e_ow e /\ g_cw g = e_cw e /\
            g_failed g = grad_failed (s_pmin env) (e_failed e)
                           (match nth_error (s_points env) k with Some pt => pt_pfail pt | None => [] end).
Proof. exact fresh_gradient_weights. Qed.

Theorem C05_gradient_value_in_force : forall env k g fm j,
  fresh_gradient env k = Ok g -> s_ofm env = Some fm ->
  length fm = length (c_ow (s_cfg env)) -> (j < length fm)%nat ->
  (s_rmin env <= count_ok (g_failed g))%nat ->
  exists pt e go gc w,
    nth_error (s_points env) k = Some pt /\ fresh_function env k = Ok e /\
    g_failed g = grad_failed (s_pmin env) (e_failed e) (pt_pfail pt) /\
    g_gradients g = Some (go, gc) /\
    nth j go None = mean_value w (g_failed g) (column j (somes (pt_oslope pt))) /\
    match znth (nth j fm (-1)%Z) (s_filters env) with
    | Some m => get_weights (s_cfg env) m (fst (propagate_nan (pt_objs pt) (pt_cons pt)))
                            (snd (propagate_nan (pt_objs pt) (pt_cons pt))) = Ok w
    | None => w = c_rw (s_cfg env)
    end.
Proof. exact gradient_objective_value. Qed.

(* an optimizer step whose optimizer issues the requests reqs: the exit code is OPTIMIZER_STEP_FINISHED exactly when
   every request delivered results that all carry values; otherwise it is TOO_FEW_REALIZATIONS, caused either by the
   last delivered tuple (a result without values) or by the next request, the evaluation of one of whose points was
   ended by a filter that found no positive weight (nothing is delivered for it and no later request is evaluated) *)
Theorem C05_step_exit_code : forall env allow_nan reqs d code,
  run_step env allow_nan None reqs = (d, Ok code) ->
  (code = step_finished /\ length d = length reqs /\
   Forall (fun rs => existsb (result_stops env allow_nan) rs = false) d) \/
  (code = too_few /\
   ((exists d' rs, d = d' ++ [rs] /\ existsb (result_stops env allow_nan) rs = true /\
                   Forall (fun rs => existsb (result_stops env allow_nan) rs = false) d') \/
    (exists rq k, nth_error reqs (length d) = Some rq /\ In k (req_points rq) /\
                  fresh_function env k = Abort too_few /\
                  Forall (fun rs => existsb (result_stops env allow_nan) rs = false) d))).
Proof. intros env an reqs d code H. exact (run_step_exit env an reqs None d code I H). Qed.

Theorem C05_step_first_evaluation_aborts : forall env allow_nan rq rest k c,
  req_points rq = [k] -> fresh_function env k = Abort c -> run_step env allow_nan None (rq :: rest) = ([], Ok c).
Proof. exact run_step_first_abort. Qed.

(* an evaluator step (one vector or a batch): every delivered result is fresh; the exit code is TOO_FEW_REALIZATIONS iff
   some result lacks values or a filter ended the evaluation of one of the points, EVALUATION_STEP_FINISHED otherwise *)
Theorem C05_evaluator_step_exit_code : forall env rq d code, run_evalstep env rq = (d, Ok code) ->
  match snd (calc env None rq) with
  | Ok rs => d = [rs] /\ answer_fresh env rq (Ok rs) /\
             code = (if existsb lacks_functions rs then too_few else evaluation_finished)
  | Abort c => d = [] /\ code = c /\ c = too_few /\ exists k, In k (req_points rq) /\ fresh_function env k = Abort too_few
  | Raise _ => False
  end.
Proof. exact run_evalstep_exit. Qed.

(* the predicate the correspondence checker evaluates on the implementation's vectors (window_ok: for every tie group
   the number of selected members lies between the quota of ranks the group has inside the window, allowing for
   members whose configured weight is 0) ACCEPTS the vector of every ranking np.argsort may return -- the check cannot
   alarm because of the order of ties -- and so does the acceptance of an abort (window_may_abort) *)
Theorem C05_checker_accepts_every_tie_order : forall values cfgw failed idx first last,
  valid_order values failed idx -> length cfgw = length failed ->
  window_ok values cfgw failed first last (select_along idx cfgw first last) = true.
Proof. exact window_ok_complete. Qed.

Theorem C05_checker_accepts_abort_of_every_tie_order : forall values cfgw failed idx first last,
  valid_order values failed idx -> length cfgw = length failed ->
  any_positive (select_along idx cfgw first last) = false ->
  window_may_abort values cfgw failed first last = true.
Proof. exact window_may_abort_complete. Qed.

(* ... and it accepts ONLY vectors that are right on every tie group not cut by a window edge: failed realizations 0;
   successful ones their configured weight or 0; tie group inside the window: the configured weight; outside: 0.  With
   pairwise distinct values that is every realization, i.e. C05_window. *)
Theorem C05_checker_sound : forall values cfgw failed first last w,
  window_ok values cfgw failed first last w = true ->
  length w = length failed /\
  forall r, (r < length failed)%nat ->
    (succeeded failed r = false -> (nth r w 0 == 0)%Q) /\
    (succeeded failed r = true -> ((nth r w 0 == nth r cfgw 0)%Q \/ (nth r w 0 == 0)%Q)) /\
    (succeeded failed r = true -> (first <= grp_lo values failed r)%nat -> (grp_ge values failed r <= last + 1)%nat ->
       (nth r w 0 == nth r cfgw 0)%Q) /\
    (succeeded failed r = true -> (grp_ge values failed r <= first)%nat \/ (last < grp_lo values failed r)%nat ->
       (nth r w 0 == 0)%Q).
Proof. exact window_ok_sound. Qed.

(* ... ALSO on a tie group that is cut by a window edge (Proofs/FiltersCut.v): every accepted vector is, entry by entry, the
   vector _sort_and_select builds along SOME ranking of the successful realizations with non-decreasing values -- a ranking
   is constructed that puts exactly the members the vector selects on the ranks of their tie group inside the window *)
Theorem C05_checker_sound_cut : forall values cfgw failed first last w,
  length cfgw = length failed -> window_ok values cfgw failed first last w = true ->
  length w = length failed /\
  exists idx, valid_order values failed idx /\
    forall r, (nth r w 0 == nth r (select_along idx cfgw first last) 0)%Q.
Proof. exact window_ok_realizable. Qed.

(* together with C05_checker_accepts_every_tie_order: window_ok accepts EXACTLY the vectors the code can produce for some
   order of the ties (up to the representation of the rational entries) *)
Theorem C05_checker_exact : forall values cfgw failed first last w,
  length cfgw = length failed ->
  (window_ok values cfgw failed first last w = true <->
   length w = length failed /\
   exists idx, valid_order values failed idx /\
     forall r, (nth r w 0 == nth r (select_along idx cfgw first last) 0)%Q).
Proof. exact window_ok_iff. Qed.

(* in counts, for the tie group of any successful r (cut or not): the number of members carrying a non-zero entry is the
   number of ranks grp_lo r .. grp_ge r - 1 of the group that fall inside [first, last] -- exactly when no member of the
   group has configured weight 0, otherwise up to the members whose configured weight is 0; WHICH members is free
   (C05_checker_accepts_every_tie_order) *)
Theorem C05_checker_group_count : forall values cfgw failed first last w r,
  window_ok values cfgw failed first last w = true -> succeeded failed r = true ->
  let nsel := countb (fun s => same_key values r s && negb (Qeqb (nth s w 0%Q) 0%Q)) (successes failed) in
  let nzero := countb (fun s => same_key values r s && Qeqb (nth s cfgw 0%Q) 0%Q) (successes failed) in
  let quota := (Nat.min (grp_ge values failed r) (last + 1) - Nat.max (grp_lo values failed r) first)%nat in
  (nsel <= quota <= nsel + nzero)%nat /\ (nzero = 0%nat -> nsel = quota).
Proof. exact window_ok_group_count. Qed.

(* non-vacuity: 4 realizations, the second failed, window [0,1] over the 3 successes; realization 2 (value 2, rank 0)
   and realization 0 (value 3, rank 1) are selected, realization 2 has configured weight 0 *)
Example C05_example :
  let values := [Q_ 3 1; Q_ 1 1; Q_ 2 1; Q_ 5 1] in
  let failed := [false; true; false; false] in
  let cfgw := [Q_ 1 4; Q_ 1 2; Q_ 0 1; Q_ 1 4] in
  length failed = length values /\ length cfgw = length failed /\
  map (rank values failed) [0; 2; 3]%nat = [1; 0; 2]%nat /\
  sort_and_select values cfgw failed 0 1 = [Q_ 1 4; Q_ 0 1; Q_ 0 1; Q_ 0 1] /\
  sort_and_select values cfgw failed 2 2 = [Q_ 0 1; Q_ 0 1; Q_ 0 1; Q_ 1 4] /\
  get_weights {| c_rw := cfgw; c_ow := [Q_ 1 1]; c_lower := []; c_upper := [] |} (SortObjective [0%nat] 1 1)
              (map (fun v => [Some v]) [Q_ 3 1; Q_ 1 1; Q_ 2 1; Q_ 5 1]) None = Abort 1%Z.
Proof. vm_compute. repeat split; reflexivity. Qed.

(* non-vacuity of the step statements: 3 realizations, a sort-objective filter with window [2,2].  At point 0 all three
   succeed (the step goes on); at point 1 realization 1 fails, the window is emptied, the step ends with
   TOO_FEW_REALIZATIONS (= 1) after delivering the results of the first request only; the third request is not evaluated *)
Example C05_example_step :
  let cfg := {| c_rw := [Q_ 1 3; Q_ 1 3; Q_ 1 3]; c_ow := [Q_ 1 1]; c_lower := []; c_upper := [] |} in
  let mk o := {| pt_objs := o; pt_cons := None; pt_oslope := [[Q_ 2 1]; [Q_ 7 1]; [Q_ 5 1]]; pt_cslope := [];
                 pt_pfail := [[false]; [false]; [false]] |} in
  let env := {| s_cfg := cfg; s_filters := [SortObjective [0%nat] 2 2]; s_ofm := Some [0%Z]; s_cfm := None;
                s_rmin := 1; s_pmin := 1;
                s_points := [mk [[Some (Q_ 3 1)]; [Some (Q_ 2 1)]; [Some (Q_ 1 1)]]; mk [[Some (Q_ 3 1)]; [None]; [Some (Q_ 1 1)]]] |} in
  exists e, run_step env false None [ReqF 0; ReqF 1; ReqF 0] = ([[RFun e]], Ok 1%Z) /\
            e_ow e = Some [[Q_ 1 3; 0; 0]]%Q /\ fresh_function env 1 = Abort too_few /\ too_few = 1%Z /\
            run_step env false None [ReqF 0; ReqG 0] = ([[RFun e]; [RGrad (gradient_result env e (mk [[Some (Q_ 3 1)]; [Some (Q_ 2 1)]; [Some (Q_ 1 1)]]))]], Ok step_finished) /\
            run_step env false None [ReqB [0; 0]%nat; ReqB [0; 1]%nat; ReqF 0] = ([[RFun e; RFun e]], Ok 1%Z) /\
            run_evalstep env (ReqB [0; 1]%nat) = ([], Ok 1%Z).
Proof. vm_compute. eexists. repeat split; reflexivity. Qed.

(* non-vacuity of the cut-group theorems: 5 realizations (the last failed), the first three tied on the smallest value;
   window [1,2] cuts the tie group (ranks 0..2, of which 1 and 2 are inside: quota 2) and ends before rank 3.  Any two
   members of the group may be selected (three accepted vectors, one of them the model's); selecting one, three, or the
   untied fourth realization is rejected; with configured weight 0 on a member the count may look smaller *)
Example C05_example_cut :
  let values := [Q_ 1 1; Q_ 1 1; Q_ 1 1; Q_ 2 1; Q_ 0 1] in
  let failed := [false; false; false; false; true] in
  let c := Q_ 1 5 in
  let cfgw := [c; c; c; c; c] in
  length cfgw = length failed /\
  map (grp_lo values failed) [0; 1; 2; 3]%nat = [0; 0; 0; 3]%nat /\ map (grp_ge values failed) [0; 1; 2; 3]%nat = [3; 3; 3; 4]%nat /\
  sort_and_select values cfgw failed 1 2 = [0; c; c; 0; 0]%Q /\
  map (window_ok values cfgw failed 1 2) [[0; c; c; 0; 0]; [c; 0; c; 0; 0]; [c; c; 0; 0; 0]]%Q = [true; true; true] /\
  map (window_ok values cfgw failed 1 2) [[0; 0; c; 0; 0]; [c; c; c; 0; 0]; [0; c; 0; c; 0]; [0; c; c; 0; c]]%Q
    = [false; false; false; false] /\
  valid_order values failed [1; 0; 2; 3]%nat /\
  select_along [1; 0; 2; 3]%nat cfgw 1 2 = [c; 0; c; 0; 0]%Q /\
  window_ok values [c; 0; c; c; c]%Q failed 1 2 [0; 0; c; 0; 0]%Q = true.
Proof.
  cbv zeta. repeat match goal with |- _ /\ _ => split end;
    try match goal with |- _ = _ => vm_compute; reflexivity end.
  split.
  - vm_compute. repeat constructor.
  - intros i j Hij. assert (Hj : (j < 4)%nat) by (cbn [length] in Hij; lia).
    destruct j as [|[|[|[|j]]]]; [lia | | | | lia];
      destruct i as [|[|[|i]]]; try lia; vm_compute; discriminate.
Qed.

Print Assumptions C05_window.
Print Assumptions C05_ranking.
Print Assumptions C05_empty_is_too_few_objective.
Print Assumptions C05_empty_is_too_few_constraint.
Print Assumptions C05_range_rejected.
Print Assumptions C05_range_rejected_constraint.
Print Assumptions C05_rejected_before_evaluation.
Print Assumptions C05_rows_objectives.
Print Assumptions C05_rows_constraints.
Print Assumptions C05_tie_robust.
Print Assumptions C05_model_is_along.
Print Assumptions C05_emptied_window_is_too_few.
Print Assumptions C05_reported_value.
Print Assumptions C05_any_request_order.
Print Assumptions C05_gradient_weights_in_force.
Print Assumptions C05_gradient_value_in_force.
Print Assumptions C05_step_exit_code.
Print Assumptions C05_step_first_evaluation_aborts.
Print Assumptions C05_evaluator_step_exit_code.
Print Assumptions C05_checker_accepts_every_tie_order.
Print Assumptions C05_checker_accepts_abort_of_every_tie_order.
Print Assumptions C05_checker_sound.
Print Assumptions C05_checker_sound_cut.
Print Assumptions C05_checker_exact.
Print Assumptions C05_checker_group_count.
